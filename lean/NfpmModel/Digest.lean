import NfpmModel.Payload
import NfpmModel.Spec.DigestSpec
import NfpmModel.Archive
/-
  C03, model side: the digests and sizes the writers compute *while* writing.
  Hash functions and the file system (`fs`: source path -> bytes read) are parameters, so every
  statement holds for all hash functions and all file contents.

    deb   createFilesInsideDataTar / copyToTarAndDigest / createChangelogInsideDataTar / createControl
    ipk   populateDataTar / writeFile / populateControlTar
    apk   createFilesInsideTarGz / copyToTarAndDigest / newItemInsideTarGz / writeTgz / createBuilderControl
    arch  createFilesInTar / createPkginfo / createMtree / MtreeEntry.WriteTo
  rpm's digests are computed by rpmpack (dependency): specified in Spec.checkRpm, checked on real packages only.
-/
namespace Nfpm.Dig
open Nfpm B Path Spec

structure Hashes where
  md5 : Bytes → Bytes
  sha1 : Bytes → Bytes
  sha256 : Bytes → Bytes

/-- what an independent reader sees of a written member: header fields plus digests of the stored body -/
def ship (H : Hashes) (m : Member) (body : Bytes) (pax : Option Bytes := none) : SMember :=
  { name := m.name, kind := m.kind, mode := m.mode, mtime := m.mtime, size := m.size, link := m.link,
    bodyLen := body.length, md5 := H.md5 body, sha1 := H.sha1 body, sha256 := H.sha256 body, pax := pax }

/-! ### deb -/

/-- one iteration of deb.createFilesInsideDataTar: the member written (with its body), the md5sums
    bytes appended and the installed-size contribution -/
structure DebStep where
  member : Option (Member × Bytes)
  md5 : Bytes
  inst : Nat

def debStep (H : Hashes) (fs : Bytes → Bytes) (now imt : Int) (changelog : Bytes) (c : Content) : DebStep :=
  if c.type = T.ghost then ⟨none, [], 0⟩
  else if isDirType c.type then ⟨some (debHeader now [imt] c, []), [], 0⟩
  else if c.type = T.symlink then ⟨some (debHeader now [imt] c, []), [], 0⟩
  else if c.type = T.debChangelog then
    -- createChangelogInsideDataTar: md5 over the gzip data, name AsExplicitRelativePath(fileName)
    ⟨some ({ name := asExplicitRel c.dst, kind := tReg, mode := 0o644, mtime := mtimeGet now [imt],
             size := changelog.length }, changelog),
     md5Line (H.md5 changelog) (asExplicitRel c.dst), changelog.length⟩
  else
    -- copyToTarAndDigest: md5 over the bytes copied into the tar, name = header.Name, size = file.Size()
    let h := debHeader now [] c
    ⟨some (h, fs c.src), md5Line (H.md5 (fs c.src)) h.name, (cinfo c).size⟩

def debData (H : Hashes) (fs : Bytes → Bytes) (now imt : Int) (changelog : Bytes) (plan : List Content) : List (Member × Bytes) :=
  plan.filterMap (fun c => (debStep H fs now imt changelog c).member)

def debMd5sums (H : Hashes) (fs : Bytes → Bytes) (now imt : Int) (changelog : Bytes) (plan : List Content) : Bytes :=
  plan.flatMap (fun c => (debStep H fs now imt changelog c).md5)

def debInstSize (H : Hashes) (fs : Bytes → Bytes) (now imt : Int) (changelog : Bytes) (plan : List Content) : Nat :=
  (plan.map (fun c => (debStep H fs now imt changelog c).inst)).sum

/-- createControl: InstalledSize: instSize / 1024 -/
def debInstalledKiB (H : Hashes) (fs : Bytes → Bytes) (now imt : Int) (changelog : Bytes) (plan : List Content) : Nat :=
  debInstSize H fs now imt changelog plan / 1024

/-! ### ipk -/

/-- ipk.writeFile reads the whole source and uses len(content) both as header size and as the
    installed-size contribution -/
def ipkStep (fs : Bytes → Bytes) (now imt : Int) (c : Content) : Option (Member × Bytes) × Nat :=
  match ipkMember1 now imt c with
  | none => (none, 0)
  | some m =>
    if m.kind = tReg then (some ({ m with size := (fs c.src).length }, fs c.src), (fs c.src).length)
    else (some (m, []), 0)

def ipkData (fs : Bytes → Bytes) (now imt : Int) (plan : List Content) : List (Member × Bytes) :=
  plan.filterMap (fun c => (ipkStep fs now imt c).1)

def ipkInstalledKiB (fs : Bytes → Bytes) (now imt : Int) (plan : List Content) : Nat :=
  (plan.map (fun c => (ipkStep fs now imt c).2)).sum / 1024

/-! ### apk -/

/-- one iteration of apk.createFilesInsideTarGz: member, body, PAX checksum record, size contribution -/
def apkStep (H : Hashes) (fs : Bytes → Bytes) (c : Content) : (Member × Bytes × Option Bytes) × Nat :=
  let m := apkMember1 c
  if isDirType c.type then ((m, [], none), 0)
  else if c.type = T.symlink then ((m, [], some (hexOf (H.sha1 []))), 0)       -- newItemInsideTarGz(tw, []byte{}, …)
  else ((m, fs c.src, some (hexOf (H.sha1 (fs c.src)))), (cinfo c).size)      -- copyToTarAndDigest

def apkData (H : Hashes) (fs : Bytes → Bytes) (plan : List Content) : List (Member × Bytes × Option Bytes) :=
  plan.map (fun c => (apkStep H fs c).1)

def apkSize (H : Hashes) (fs : Bytes → Bytes) (plan : List Content) : Nat :=
  (plan.map (fun c => (apkStep H fs c).2)).sum

/-- apk.Package: data segment, control fields computed from it, final concatenation.
    `gz` compresses one segment; `control` renders the control tar stream from (size, datahash). -/
structure ApkOut where
  file : Bytes
  dataSegment : Bytes
  datahashField : Bytes
  sizeField : Nat

def apkPackage (H : Hashes) (gz : Bytes → Bytes) (dataStream : Bytes) (size : Nat)
    (control : Nat → Bytes → Bytes) (sig : Bytes → Option Bytes) : ApkOut :=
  let dataSeg := gz dataStream
  let datahash := hexOf (H.sha256 dataSeg)          -- MultiWriter(digest, w) sits below gzip
  let controlSeg := gz (control size datahash)
  let sigSeg := match sig (H.sha1 controlSeg) with | some s => gz s | none => []
  { file := sigSeg ++ controlSeg ++ dataSeg, dataSegment := dataSeg, datahashField := datahash, sizeField := size }

/-! ### archlinux -/

/-- the tar header time archive/tar stores and (after fix 29de2df) the .MTREE line records -/
def archTime (t : Int) : Int := tarTime t

/-- arch.MtreeEntry as built by createFilesInTar for one entry -/
structure MtreeEntry where
  dst : Bytes
  time : Int
  mode : Nat
  size : Nat := 0
  kind : UInt8
  link : Bytes := []
  md5 : Bytes := []
  sha256 : Bytes := []

def archStep (H : Hashes) (fs : Bytes → Bytes) (c : Content) : (Member × Bytes) × MtreeEntry × Nat :=
  let m := archMember1 c
  let fi := cinfo c
  if isDirType c.type then
    ((m, []), { dst := m.name, time := archTime fi.mtime, mode := fi.mode, kind := tDir }, 0)
  else if c.type = T.symlink then
    ((m, []), { dst := m.name, time := archTime fi.mtime, mode := 0o777, kind := tSym, link := c.src }, 0)
  else
    ((m, fs c.src),
     { dst := m.name, time := archTime fi.mtime, mode := fi.mode, size := fi.size, kind := tReg,
       md5 := H.md5 (fs c.src), sha256 := H.sha256 (fs c.src) }, fi.size)

/-- MtreeEntry.WriteTo -/
def MtreeEntry.render (e : MtreeEntry) : Bytes :=
  b!"./" ++ mtreeEsc e.dst ++ b!" time=" ++ intToDec e.time ++ b!".0 mode=" ++
  (if e.kind == tDir then toOct e.mode ++ b!" type=dir\n"
   else if e.kind == tSym then toOct e.mode ++ b!" type=link link=" ++ mtreeEsc e.link ++ [nl]
   else toOct e.mode ++ b!" size=" ++ natToDec e.size ++ b!" type=file md5digest=" ++ hexOf e.md5
        ++ b!" sha256digest=" ++ hexOf e.sha256 ++ [nl])

def archData (H : Hashes) (fs : Bytes → Bytes) (plan : List Content) : List (Member × Bytes) :=
  plan.map (fun c => (archStep H fs c).1)

def archTotalSize (H : Hashes) (fs : Bytes → Bytes) (plan : List Content) : Nat :=
  (plan.map (fun c => (archStep H fs c).2.2)).sum

/-- createPkginfo's member and mtree entry for the rendered .PKGINFO bytes -/
def archPkginfoMember (pkginfo : Bytes) (mt : Int) : Member :=
  { name := b!".PKGINFO", kind := tReg, mode := 0o644, mtime := mt, size := pkginfo.length }

def archPkginfoEntry (H : Hashes) (pkginfo : Bytes) (mt : Int) : MtreeEntry :=
  { dst := b!".PKGINFO", time := mt, mode := 0o644, size := pkginfo.length, kind := tReg,
    md5 := H.md5 pkginfo, sha256 := H.sha256 pkginfo }

/-- createMtree (uncompressed): "#mtree", .PKGINFO first, then the payload entries in order -/
def archMtree (H : Hashes) (fs : Bytes → Bytes) (plan : List Content) (pkginfo : Bytes) (mt : Int) : Bytes :=
  b!"#mtree\n" ++ (archPkginfoEntry H pkginfo mt).render ++ plan.flatMap (fun c => (archStep H fs c).2.1.render)

end Nfpm.Dig
