import NfpmModel.Bytes
/-
  os.Expand (Go standard library, transcribed) and nfpm's use of it:
  Config.expandEnvVars / expandEnvVarsStringSlice / expandEnvVarsContents and
  the signing passphrase precedence.
-/
namespace Nfpm
open B

/-- environment: name ↦ value, "" when unset (os.Getenv) -/
abbrev Env := List (Bytes × Bytes)

def Env.get (e : Env) (name : Bytes) : Bytes := ((e.find? (·.1 == name)).map (·.2)).getD []

def isShellSpecialVar (c : UInt8) : Bool :=
  c == 42 || c == 35 || c == 36 || c == 64 || c == 33 || c == 63 || c == 45 || (48 ≤ c && c ≤ 57)

def isAlphaNumU (c : UInt8) : Bool :=
  c == 95 || (48 ≤ c && c ≤ 57) || (97 ≤ c && c ≤ 122) || (65 ≤ c && c ≤ 90)

/-- os.getShellName on the text after a '$' (non-empty): (name, bytes consumed) -/
def getShellName (s : Bytes) : Bytes × Nat :=
  match s with
  | [] => ([], 0)
  | c :: rest =>
    if c = 123 then   -- '{'
      match rest with
      | x :: y :: _ =>
        if isShellSpecialVar x && y == 125 then ([x], 3)
        else
          let inner := rest.takeWhile (· != 125)
          if inner.length = rest.length then ([], 1)          -- no closing brace: eat "${"
          else if inner = [] then ([], 2)                      -- "${}"
          else (inner, inner.length + 2)
      | _ =>
        let inner := rest.takeWhile (· != 125)
        if inner.length = rest.length then ([], 1)
        else if inner = [] then ([], 2)
        else (inner, inner.length + 2)
    else if isShellSpecialVar c then ([c], 1)
    else
      let name := s.takeWhile isAlphaNumU
      (name, name.length)

/-- os.Expand, fuel-bounded by the length -/
def expandF (env : Env) : Nat → Bytes → Bytes
  | 0, s => s
  | _, [] => []
  | fuel + 1, c :: rest =>
    if c = dollar && rest ≠ [] then
      let (name, w) := getShellName rest
      let out := if name = [] && w > 0 then [] else if name = [] then [dollar] else env.get name
      out ++ expandF env fuel (rest.drop w)
    else c :: expandF env fuel rest

def expand (env : Env) (s : Bytes) : Bytes := expandF env (s.length + 1) s

/-- Config.expandEnvVarsStringSlice: expand, trim, drop what became empty (order kept) -/
def expandSlice (env : Env) (items : List Bytes) : List Bytes :=
  (items.map (fun s => trimSpace (expand env s))).filter (· ≠ [])

/-- Config.expandEnvVarsContents for one entry: only with `expand: true` -/
def expandContent (env : Env) (optIn : Bool) (src dst : Bytes) : Bytes × Bytes :=
  if optIn then (trimSpace (expand env src), trimSpace (expand env dst)) else (src, dst)

/-- the NFPM_*_PASSPHRASE block: format-specific variable first, general one as fallback -/
def passphrase (env : Env) (specific : Bytes) : Bytes :=
  let general := env.get (b!"NFPM_PASSPHRASE")
  let s := env.get specific
  if s ≠ [] then s else general

end Nfpm
