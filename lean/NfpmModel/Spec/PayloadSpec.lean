import NfpmModel.Payload
import NfpmModel.Spec.PlanSpec
/-
  C01 (payload fidelity) and C08 (config / special-file typing) as executable
  specifications over *logical entries*: what the contents denote for a format,
  independent of how each writer spells names or encodes modes.
-/
namespace Nfpm.Spec
open Nfpm B Path

inductive LKind | file | dir | symlink
deriving DecidableEq, Repr

/-- a logical payload entry; fields a kind does not speak about are left at their defaults -/
structure LEntry where
  path : Bytes            -- absolute destination, no trailing slash
  kind : LKind
  perm : Nat := 0         -- permission + setuid/setgid/sticky bits (files, dirs)
  owner : Bytes := []     -- files, dirs
  group : Bytes := []
  mtime : Int := 0        -- files
  size : Nat := 0         -- files
  link : Bytes := []      -- symlinks
  src : Bytes := []       -- files: whose bytes
deriving DecidableEq, Repr

/-- entry types that have no payload of their own -/
def noPayload (t : Bytes) : Bool := t == T.ghost || t == T.debChangelog

/-- the twelve permission bits a mode stands for: a mode given in the configuration has set-user-ID, set-group-ID and
    sticky at 04000, 02000 and 01000; a mode read from the build host's file system (io/fs.FileMode) has them at bits 23,
    22 and 20 – either way the entry denotes a file with that bit set -/
def unixPerm (fm : Nat) : Nat := debMode fm

/-- what one planned entry denotes in format `f` -/
def denote1 (f : Fmt) (c : Content) : Option LEntry :=
  let fi := cinfo c
  if noPayload c.type then none
  else if f = .rpm && c.type == T.implicitDir then none
  else if isDirType c.type then
    some { path := pathOf c.dst, kind := .dir, perm := unixPerm fi.mode, owner := fi.owner, group := fi.group }
  else if c.type == T.symlink then
    some { path := pathOf c.dst, kind := .symlink, link := c.src }
  else
    some { path := pathOf c.dst, kind := .file, perm := unixPerm fi.mode, owner := fi.owner, group := fi.group,
           mtime := if f = .rpm then (u32 fi.mtime : Int) else fi.mtime, size := fi.size, src := c.src }

/-- the logical tree a plan denotes for a format, in plan order -/
def denote (f : Fmt) (plan : List Content) : List LEntry := plan.filterMap (denote1 f)

/-- destination path a member name stands for -/
def pathOfName (f : Fmt) (name : Bytes) : Bytes :=
  match f with
  | .deb | .ipk => pathOf (name.drop 1)          -- "./usr/bin/x" ↦ "/usr/bin/x"
  | .apk | .arch => slash :: pathOf name           -- "usr/bin/x"   ↦ "/usr/bin/x"
  | .rpm => name

/-- logical view of one archive member -/
def logical1 (f : Fmt) (m : Member) : LEntry :=
  if m.kind = tDir then
    { path := pathOfName f m.name, kind := .dir, perm := m.mode &&& 0o7777, owner := m.uname, group := m.gname }
  else if m.kind = tSym then
    { path := pathOfName f m.name, kind := .symlink, link := m.link }
  else
    { path := pathOfName f m.name, kind := .file, perm := m.mode &&& 0o7777, owner := m.uname, group := m.gname,
      mtime := m.mtime, size := m.size, src := m.src }

def logical (f : Fmt) (ms : List Member) : List LEntry := (ms.filter (·.inPayload)).map (logical1 f)

def showL (e : LEntry) : String :=
  s!"{String.ofList (e.path.map (fun b => Char.ofNat b.toNat))}:{repr e.kind}"

/-- first difference between what the payload holds and what the contents denote -/
def diffL : List LEntry → List LEntry → List String
  | [], [] => []
  | a :: _, [] => [s!"extra-entry {showL a}"]
  | [], b :: _ => [s!"missing-entry {showL b}"]
  | a :: as, b :: bs =>
    if a = b then diffL as bs
    else if a.path ≠ b.path then [s!"entry-mismatch got={showL a} want={showL b}"]
    else if a.kind ≠ b.kind then [s!"kind-differs {showL b}"]
    else if a.perm ≠ b.perm then [s!"mode-differs {showL b} got={a.perm} want={b.perm}"]
    else if a.owner ≠ b.owner || a.group ≠ b.group then [s!"owner-differs {showL b}"]
    else if a.mtime ≠ b.mtime then [s!"mtime-differs {showL b} got={a.mtime} want={b.mtime}"]
    else if a.size ≠ b.size then [s!"size-differs {showL b}"]
    else if a.link ≠ b.link then [s!"link-differs {showL b}"]
    else [s!"source-differs {showL b}"]

def insertL (e : LEntry) : List LEntry → List LEntry
  | [] => [e]
  | x :: xs => if ltB e.path x.path then e :: x :: xs else x :: insertL e xs

def sortL (l : List LEntry) : List LEntry := l.foldr insertL []

/-- C01 check of decoded payload members against the contents (rpm compared as sets
    ordered by path: its file list is name-sorted, not plan-sorted) -/
def checkPayload (f : Fmt) (plan : List Content) (decoded : List Member) : List String :=
  let got := logical f decoded
  let want := denote f plan
  if f = .rpm then diffL (sortL got) (sortL want) else diffL got want

/-! ### C08 -/

/-- absolute paths that must be registered as configuration files, in plan order -/
def configPaths (plan : List Content) : List Bytes :=
  (plan.filter (fun c => isConfigType c.type)).map (fun c => pathOf c.dst)

/-- RPMFILE_* flags (rpm's lib/rpmfiles.h): the flag every entry type must carry -/
def rpmFlagTable : List (Bytes × Nat) :=
  [ (T.config, 1), (T.configNoReplace, 1 + 16), (T.configMissingOk, 1 + 8), (T.ghost, 64),
    (T.doc, 2), (T.licence, 128), (T.license, 128), (T.readme, 256) ]

def wantRpmFlags (t : Bytes) : Nat := ((rpmFlagTable.find? (·.1 == t)).map (·.2)).getD 0

/-- lines of a conffiles member (empty lines ignored, as dpkg does) -/
def conffilesLines (body : Bytes) : List Bytes := (splitOn nl body).filter (· ≠ [])

/-- C08 for deb/ipk (conffiles lines) and archlinux (backup lines, relative): exactly the config entries -/
def checkConfigList (f : Fmt) (plan : List Content) (listed : List Bytes) : List String :=
  let got := match f with
    | .arch => listed.map (fun l => slash :: l)
    | _ => listed
  let want := configPaths plan
  if got = want then []
  else if got.any (fun p => !want.contains p) then ["registered-but-not-declared-config"]
  else if want.any (fun p => !got.contains p) then ["declared-config-not-registered"]
  else ["config-order-or-multiplicity-differs"]

/-- C08 for rpm: flags per entry, ghosts listed without payload and with a mode -/
def checkRpmTyping (plan : List Content) (decoded : List Member) : List String :=
  plan.foldr (fun c acc =>
    if c.type == T.implicitDir || c.type == T.debChangelog then acc
    else match decoded.find? (fun m => m.name == pathOf c.dst) with
      | none => "entry-not-listed" :: acc
      | some m =>
        (if m.flags = wantRpmFlags c.type then [] else ["file-flags-differ"]) ++
        (if c.type == T.ghost then
           (if m.inPayload then ["ghost-has-payload"] else []) ++
           (if m.mode &&& 0o7777 = (if (cinfo c).mode == 0 then 0o644 else (cinfo c).mode &&& 0o7777) then [] else ["ghost-mode-differs"])
         else if m.inPayload then [] else ["entry-without-payload"]) ++ acc) []

/-- no format but rpm may contain rpm-only entry types, none but deb the changelog type -/
def checkNoForeignTypes (f : Fmt) (plan : List Content) : List String :=
  if f ≠ .rpm && plan.any (fun c => c.type == T.ghost || c.type == T.doc || c.type == T.licence
        || c.type == T.license || c.type == T.readme) then ["rpm-only-entry-in-other-format"]
  else []

end Nfpm.Spec
