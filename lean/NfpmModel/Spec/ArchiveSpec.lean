import NfpmModel.Archive
import NfpmModel.Spec.PlanSpec
/-
  C04, declarative side, evaluated by the driver on what independent readers found in real
  packages: member order per container, tar member-name rules, apk segment shapes, rpm
  header/payload correspondence.
-/
namespace Nfpm.Spec
open Nfpm B Path Arc

def showName (n : Bytes) : String := String.fromUTF8! ⟨n.toArray⟩

/-- a member name with its trailing slash removed: the path it stands for (as in `Spec.checkNames`) -/
def stripSlash (n : Bytes) : Bytes := if endsWithSlash n then n.dropLast else n

/-- rules for the member names of one tar: `dotted` = names must start with "./" (deb, ipk) -/
def checkNames (dotted : Bool) (ms : List (Bytes × UInt8)) : List String :=
  let names := ms.map (·.1)
  let root : Bytes := if dotted then b!"./" else []
  (if names.eraseDups.length = names.length then [] else ["duplicate-member-name"])
  -- one path is one member: not a directory `a/b/` and a non-directory `a/b` side by side
  ++ (let paths := names.map stripSlash
      if paths.eraseDups.length = paths.length then [] else ["one-path-as-directory-and-as-non-directory"])
  ++ ((ms.filter (fun m => !isRelative m.1)).map (fun m => "absolute-name:" ++ showName m.1))
  ++ ((ms.filter (fun m => m.1.isEmpty)).map (fun _ => "empty-name"))
  ++ (if dotted then (ms.filter (fun m => !dotSlashPrefixed m.1)).map (fun m => "not-dot-slash-prefixed:" ++ showName m.1) else [])
  ++ ((ms.filter (fun m => !noDotDot m.1)).map (fun m => "dotdot-component:" ++ showName m.1))
  ++ ((ms.filter (fun m => m.2 == tDir && !endsWithSlash m.1 && m.1 != root)).map (fun m => "directory-without-slash:" ++ showName m.1))
  ++ ((ms.filter (fun m => m.2 != tDir && endsWithSlash m.1)).map (fun m => "non-directory-with-slash:" ++ showName m.1))
  ++ (if parentsFirst root [] names then [] else ["parent-after-child-or-missing"])

def checkDebAr (compression : Bytes) (sigType : Option Bytes) (names : List Bytes) (debianBinary : Bytes) : List String :=
  (match debArNames compression sigType with
   | some want => if names = want then [] else ["ar-members-differ"]
   | none => ["unexpected-success-for-compression"])
  ++ (if debianBinary = b!"2.0\n" then [] else ["debian-binary-content"])

def checkIpkOuter (names : List Bytes) (debianBinary : Bytes) : List String :=
  (if names = ipkOuterNames then [] else ["outer-members-differ"])
  ++ (if debianBinary = b!"2.0\n" then [] else ["debian-binary-content"])

def checkArchOrder (names : List Bytes) (hasScripts : Bool) : List String :=
  let payload := names.takeWhile (fun n => n != b!".PKGINFO")
  (if names = archNames payload hasScripts then [] else ["member-order-differs"])
  ++ (if payload.any (fun n => n == b!".MTREE" || n == b!".INSTALL") then ["reserved-name-in-payload"] else [])

/-- one apk segment as found by the raw block walker -/
structure SegFacts where
  aligned : Bool          -- decompressed length is a multiple of 512
  hasEndMarker : Bool     -- two zero blocks follow the last member
  trailingAfterMarker : Nat  -- bytes after the end marker
  members : Nat
  firstName : Bytes

def checkApkSegments (signed : Bool) (segs : List SegFacts) (trailing : Nat) : List String :=
  let want := if signed then 3 else 2
  (if segs.length = want then [] else ["segment-count"])
  ++ (if trailing = 0 then [] else ["bytes-after-last-segment"])
  ++ ((segs.filter (fun s => !s.aligned)).map (fun _ => "segment-not-512-aligned"))
  ++ (match segs.reverse with
      | data :: ctrl =>
        (if data.hasEndMarker && data.trailingAfterMarker = 0 then [] else ["data-segment-not-a-complete-tar"])
        ++ ((ctrl.filter (fun s => s.hasEndMarker)).map (fun _ => "cut-segment-has-end-marker"))
        ++ (match ctrl with
            | c :: rest =>
              (if c.firstName = b!".PKGINFO" then [] else ["control-first-member-not-PKGINFO"])
              ++ (match rest with
                  | s :: _ => if hasPrefix s.firstName b!".SIGN.RSA." && s.members = 1 then [] else ["signature-segment-shape"]
                  | [] => [])
            | [] => [])
      | [] => [])

/-- rpm: header file list sorted by name; cpio entries = non-ghost header entries, same order -/
def checkRpmOrder (hdr : List (Bytes × Bool)) (cpio : List Bytes) : List String :=
  let names := hdr.map (·.1)
  (if strictlySorted names then [] else ["header-file-list-not-strictly-sorted"])
  ++ (if cpio = (hdr.filter (fun h => !h.2)).map (·.1) then [] else ["payload-differs-from-non-ghost-file-list"])

end Nfpm.Spec
