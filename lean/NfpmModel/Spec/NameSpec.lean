import NfpmModel.Version
import NfpmModel.Payload
/-
  C15 / C14 executable specs: the conventional file name must state the same name,
  version components and architecture as the metadata inside the package; a
  prerelease must sort before its release under the package manager's comparison.
-/
namespace Nfpm.Spec
open Nfpm B

/-- drop a leading "<digits>:" epoch -/
def stripEpoch (v : Bytes) : Bytes :=
  if v.contains colon && (v.takeWhile (· != colon)).all isDigit then (v.dropWhile (· != colon)).drop 1 else v

/-- the file name that the metadata found inside a package implies -/
def expectedFileName (f : Fmt) (name version release arch : Bytes) : Bytes :=
  match f with
  | .deb => name ++ underscore :: stripEpoch version ++ underscore :: arch ++ b!".deb"
  | .ipk => name ++ underscore :: stripEpoch version ++ underscore :: arch ++ b!".ipk"
  | .rpm => name ++ minus :: version ++ minus :: release ++ dot :: arch ++ b!".rpm"
  | .apk => name ++ underscore :: version ++ underscore :: arch ++ b!".apk"
  | .arch => archValidPkgName (name ++ minus :: stripEpoch version ++ minus :: arch ++ b!".pkg.tar.zst")

def checkFileName (f : Fmt) (fileName name version release arch : Bytes) : List String :=
  if fileName = expectedFileName f name version release arch then []
  else
    let ext := match f with
      | .deb => b!".deb" | .ipk => b!".ipk" | .rpm => b!".rpm" | .apk => b!".apk" | .arch => b!".pkg.tar.zst"
    if !hasSuffix fileName ext then ["extension-differs"]
    else if !hasPrefix fileName name then ["name-differs"]
    else if !hasSuffix fileName (arch ++ ext) then ["architecture-differs"]
    else ["version-components-differ"]

end Nfpm.Spec
