import NfpmModel.Scripts
/-
  C09: the documented wiring of lifecycle events to package-manager slots.
-/
namespace Nfpm.Spec
open Nfpm B

/-- (slot, configuration selector, mode) – what each package manager runs for which event -/
def wiring : Fmt → List (Bytes × Bytes × Nat)
  | .deb =>
    [ (b!"config", b!"Deb.Scripts.Config", 0o755), (b!"postinst", b!"Scripts.PostInstall", 0o755),
      (b!"postrm", b!"Scripts.PostRemove", 0o755), (b!"preinst", b!"Scripts.PreInstall", 0o755),
      (b!"prerm", b!"Scripts.PreRemove", 0o755), (b!"rules", b!"Deb.Scripts.Rules", 0o755),
      (b!"templates", b!"Deb.Scripts.Templates", 0o644) ]
  | .ipk =>
    [ (b!"postinst", b!"Scripts.PostInstall", 0o755), (b!"postrm", b!"Scripts.PostRemove", 0o755),
      (b!"preinst", b!"Scripts.PreInstall", 0o755), (b!"prerm", b!"Scripts.PreRemove", 0o755) ]
  | .apk =>
    [ (b!".post-deinstall", b!"Scripts.PostRemove", 0o755), (b!".post-install", b!"Scripts.PostInstall", 0o755),
      (b!".post-upgrade", b!"APK.Scripts.PostUpgrade", 0o755), (b!".pre-deinstall", b!"Scripts.PreRemove", 0o755),
      (b!".pre-install", b!"Scripts.PreInstall", 0o755), (b!".pre-upgrade", b!"APK.Scripts.PreUpgrade", 0o755) ]
  | .arch =>
    [ (b!"post_install", b!"Scripts.PostInstall", 0), (b!"post_remove", b!"Scripts.PostRemove", 0),
      (b!"post_upgrade", b!"ArchLinux.Scripts.PostUpgrade", 0), (b!"pre_install", b!"Scripts.PreInstall", 0),
      (b!"pre_remove", b!"Scripts.PreRemove", 0), (b!"pre_upgrade", b!"ArchLinux.Scripts.PreUpgrade", 0) ]
  | .rpm =>   -- slot = header tag: PREIN 1023, POSTIN 1024, PREUN 1025, POSTUN 1026, VERIFYSCRIPT 1079, PRETRANS 1151, POSTTRANS 1152
    [ (b!"1023", b!"Scripts.PreInstall", 0), (b!"1024", b!"Scripts.PostInstall", 0),
      (b!"1025", b!"Scripts.PreRemove", 0), (b!"1026", b!"Scripts.PostRemove", 0),
      (b!"1079", b!"RPM.Scripts.Verify", 0), (b!"1151", b!"RPM.Scripts.PreTrans", 0),
      (b!"1152", b!"RPM.Scripts.PostTrans", 0) ]

/-- the slots that must be populated, with their bodies: exactly the configured ones, verbatim -/
def expectedSlots (f : Fmt) (c : Configured) : List (Bytes × Bytes) :=
  sortSlots ((wiring f).filterMap (fun (slot, sel, _) => (c.get sel).map (fun body => (slot, body))))

def showSlot (b : Bytes) : String := String.ofList (b.map (fun x => Char.ofNat x.toNat))

/-- C09 check of the observed slots of a package -/
def checkScripts (f : Fmt) (c : Configured) (observed : List (Bytes × Bytes)) : List String :=
  let want := expectedSlots f c
  let got := sortSlots observed
  if got = want then []
  else
    (want.filterMap (fun (s, b) =>
      match got.find? (·.1 == s) with
      | none => some s!"slot-empty:{showSlot s}"
      | some (_, b') => if b' = b then none
                        else if (want.any (fun (s2, b2) => s2 ≠ s && b2 = b')) then some s!"wrong-event-script:{showSlot s}"
                        else some s!"script-not-verbatim:{showSlot s}")) ++
    (got.filterMap (fun (s, _) => if want.any (·.1 == s) then none else some s!"slot-populated-but-not-configured:{showSlot s}"))

end Nfpm.Spec
