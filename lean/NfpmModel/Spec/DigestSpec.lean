import NfpmModel.Payload
/-
  C03, declarative side: what the digests and sizes a package carries must be, stated over the
  members *as shipped* (decoded by an independent reader that also hashed every body).
  The same functions are (a) evaluated by the driver on real packages and (b) the right-hand
  sides of the theorems in Props/C03 about the model of the writers.
-/
namespace Nfpm.Spec
open Nfpm B

/-- a member as shipped, with the digests of the body it actually carries -/
structure SMember where
  name : Bytes
  kind : UInt8
  mode : Nat := 0
  mtime : Int := 0
  size : Nat := 0          -- size field of the member's header
  link : Bytes := []
  bodyLen : Nat := 0       -- length of the body actually stored
  md5 : Bytes := []        -- raw digests of the stored body
  sha1 : Bytes := []
  sha256 : Bytes := []
  pax : Option Bytes := none   -- value of the PAX record APK-TOOLS.checksum.SHA1, if any
deriving DecidableEq, Repr

def hexByte (b : UInt8) : Bytes := [hexDigit (b.toNat / 16), hexDigit (b.toNat % 16)]
def hexOf (bs : Bytes) : Bytes := bs.flatMap hexByte

def SMember.isReg (m : SMember) : Bool := m.kind == tReg

/-- `%x  %s\n` -/
def md5Line (digest name : Bytes) : Bytes := hexOf digest ++ b!"  " ++ name ++ [nl]

/-- deb md5sums: one line per regular member of the data tar, in archive order -/
def expMd5sums (ms : List SMember) : Bytes := (ms.filter (·.isReg)).flatMap (fun m => md5Line m.md5 m.name)

/-- bytes of regular payload files actually shipped -/
def payloadBytes (ms : List SMember) : Nat := ((ms.filter (·.isReg)).map (·.bodyLen)).sum

def expKiB (ms : List SMember) : Nat := payloadBytes ms / 1024

def sizesConsistent (ms : List SMember) : List String :=
  (ms.filter (fun m => m.size != m.bodyLen)).map (fun m => "header-size-differs-from-body:" ++ String.fromUTF8! ⟨m.name.toArray⟩)

def checkDeb (ms : List SMember) (md5sums : Bytes) (installedSize : Option Bytes) : List String :=
  (if md5sums = expMd5sums ms then [] else ["md5sums-differs"])
  ++ (if installedSize = some (natToDec (expKiB ms)) then [] else ["installed-size-differs"])
  ++ sizesConsistent ms

def checkIpk (ms : List SMember) (installedSize : Option Bytes) : List String :=
  (if expKiB ms = 0 then (if installedSize = none then [] else ["installed-size-present-for-zero"])
   else if installedSize = some (natToDec (expKiB ms)) then [] else ["installed-size-differs"])
  ++ sizesConsistent ms

def checkApk (ms : List SMember) (datahash : Option Bytes) (dataSegSha256 : Bytes) (size : Option Bytes) : List String :=
  (if datahash = some (hexOf dataSegSha256) then [] else ["datahash-differs"])
  ++ (if size = some (natToDec (payloadBytes ms)) then [] else ["size-differs"])
  ++ ((ms.filter (fun m => m.isReg && m.pax != some (hexOf m.sha1))).map
        (fun m => "pax-sha1-differs:" ++ String.fromUTF8! ⟨m.name.toArray⟩))
  ++ sizesConsistent ms

/-- a byte an mtree(5) reader takes literally inside a word: printable ASCII except space, `\`, `"` and `#` -/
def mtreeSafe (b : UInt8) : Bool := 0x20 < b && b < 0x7f && b != 0x5c && b != 0x22 && b != 0x23

def oct3 (b : UInt8) : Bytes := [0x30 + b / 64, 0x30 + (b / 8) % 8, 0x30 + b % 8]

/-- mtree(5) quoting of a path as bsdtar writes it (arch.mtreeQuote): every other byte becomes `\ooo` -/
def mtreeEsc (p : Bytes) : Bytes := p.flatMap (fun b => if mtreeSafe b then [b] else 0x5c :: oct3 b)

def octVal (a b c : UInt8) : UInt8 := (a - 0x30) * 64 + (b - 0x30) * 8 + (c - 0x30)

/-- what an mtree(5) reader makes of a word: `\ooo` is one byte -/
def mtreeUnesc (l : Bytes) : Bytes :=
  match l with
  | [] => []
  | x :: rest =>
    if x = 0x5c ∧ 3 ≤ rest.length then
      octVal (rest.getD 0 0) (rest.getD 1 0) (rest.getD 2 0) :: mtreeUnesc (rest.drop 3)
    else x :: mtreeUnesc rest
termination_by l.length
decreasing_by all_goals simp <;> omega

/-- one .MTREE line (arch.MtreeEntry.WriteTo) for a shipped member -/
def mtreeLine (m : SMember) : Bytes :=
  b!"./" ++ mtreeEsc m.name ++ b!" time=" ++ intToDec m.mtime ++ b!".0 mode=" ++
  (if m.kind == tDir then toOct m.mode ++ b!" type=dir\n"
   else if m.kind == tSym then toOct 0o777 ++ b!" type=link link=" ++ mtreeEsc m.link ++ [nl]
   else toOct m.mode ++ b!" size=" ++ natToDec m.bodyLen ++ b!" type=file md5digest=" ++ hexOf m.md5
        ++ b!" sha256digest=" ++ hexOf m.sha256 ++ [nl])

/-- the path an mtree(5) reader takes from a line: the first word, without "./", unquoted -/
def mtreePathOf (line : Bytes) : Bytes := mtreeUnesc ((line.takeWhile (· != 0x20)).drop 2)

/-- the paths of a .MTREE file read line by line, after the "#mtree" header -/
def mtreePaths (mtree : Bytes) : List Bytes := (((splitOn nl mtree).drop 1).dropLast).map mtreePathOf

/-- the link target an mtree(5) reader takes from the line of a symbolic link: the last word is `link=` and the quoted
    target; unquoted it is the member's link target, whatever bytes it has -/
def mtreeLinkOf (line : Bytes) : Option Bytes :=
  ((splitOn space line).getLast?).map (fun w => mtreeUnesc (w.drop 5))

/-- archlinux .MTREE: header, .PKGINFO first, then one line per payload member in archive order -/
def expMtree (payload : List SMember) (pkginfo : SMember) : Bytes :=
  b!"#mtree\n" ++ mtreeLine pkginfo ++ payload.flatMap mtreeLine

def checkArch (payload : List SMember) (pkginfo : SMember) (mtree : Bytes) (size : Option Bytes) : List String :=
  (if mtree = expMtree payload pkginfo then [] else ["mtree-differs"])
  -- independent of the rendering: what a line-oriented mtree(5) reader finds must be the shipped members, by name
  ++ (if mtreePaths mtree = pkginfo.name :: payload.map (·.name) then [] else ["mtree-paths-do-not-read-back"])
  -- … and the link target on the line of every symbolic link is that member's target
  ++ (if ((((splitOn nl mtree).drop 1).dropLast).zip (pkginfo :: payload)).all
          (fun (line, m) => m.kind != tSym || mtreeLinkOf line == some m.link) then [] else ["mtree-link-does-not-read-back"])
  ++ (if size = some (natToDec (payloadBytes payload)) then [] else ["size-differs"])
  ++ sizesConsistent (pkginfo :: payload)

/-! ### rpm (tags written by rpmpack, regions as shipped) -/

structure RpmFile where
  name : Bytes
  kind : UInt8                 -- from FILEMODES: tDir, tSym, tReg
  ghost : Bool
  sizeTag : Nat
  digestTag : Bytes
  algoTag : Option Nat
  linkto : Bytes
  cpio : Option SMember        -- the cpio entry of the same name, if any
deriving Repr

structure RpmFacts where
  sigSha256 : Option Bytes     -- signature tag 273
  headerSha256 : Bytes         -- SHA-256 of the main header exactly as shipped
  payloadDigest : Option Bytes -- header tag 5092
  payloadDigestAlgo : Option Nat
  payloadSha256 : Bytes        -- SHA-256 of the compressed payload exactly as shipped
  sigSize : Option Nat         -- signature tag 1000
  headerLen : Nat
  payloadLen : Nat
  sigPayloadSize : Option Nat  -- signature tag 1007
  sizeTag : Option Nat         -- header tag 1009
  files : List RpmFile
deriving Repr

def cpioBytes (fs : List RpmFile) : Nat := (fs.map (fun f => match f.cpio with | some c => c.bodyLen | none => 0)).sum

def nameStr (n : Bytes) : String := String.fromUTF8! ⟨n.toArray⟩

def checkRpmFile (f : RpmFile) : List String :=
  match f.cpio with
  | none => if f.ghost then [] else ["no-payload-entry:" ++ nameStr f.name]
  | some c =>
    (if f.ghost then ["ghost-in-payload:" ++ nameStr f.name] else [])
    ++ (if f.kind == tDir then
          (if f.digestTag = [] then [] else ["dir-digest:" ++ nameStr f.name])
        else if f.kind == tSym then
          (if f.digestTag = [] ∧ f.sizeTag = f.linkto.length then [] else ["link-size-or-digest:" ++ nameStr f.name])
        else
          (if f.sizeTag = c.bodyLen then [] else ["file-size-differs:" ++ nameStr f.name])
          ++ (if f.digestTag = hexOf c.sha256 then [] else ["file-digest-differs:" ++ nameStr f.name])
          ++ (if f.algoTag = some 8 then [] else ["file-digest-algo:" ++ nameStr f.name]))

def checkRpm (r : RpmFacts) : List String :=
  (if r.sigSha256 = some (hexOf r.headerSha256) then [] else ["header-sha256-differs"])
  ++ (if r.payloadDigest = some (hexOf r.payloadSha256) then [] else ["payload-digest-differs"])
  ++ (if r.payloadDigestAlgo = some 8 then [] else ["payload-digest-algo"])
  ++ (if r.sigSize = some (r.headerLen + r.payloadLen) then [] else ["archive-size-differs"])
  ++ (if r.sigPayloadSize = some (cpioBytes r.files) then [] else ["payload-size-differs"])
  ++ (if r.sizeTag = some (cpioBytes r.files) then [] else ["size-tag-differs"])
  ++ r.files.flatMap checkRpmFile

end Nfpm.Spec
