import NfpmModel.Contents
/-
  Declarative specification of content planning (property C05), independent of
  the destination map and of any processing order.  `check` is executable: the
  harness evaluates it on the real implementation's result, and
  `Props/C05.lean` proves that the model's `plan` passes it for all inputs.
-/
namespace Nfpm.Spec
open Nfpm B Path

/-- proper components of a key: "/a/b/" ↦ [a, b] -/
def comps (k : Bytes) : List Bytes := (splitOn slash k).filter (· ≠ [])

def renderDir (p : List Bytes) : Bytes := slash :: joinWith slash p ++ [slash]

/-- all proper ancestor directories of a key, outermost first:
    "/a/b/c" ↦ ["/a/", "/a/b/"];  "/a/b/" ↦ ["/a/"]. -/
def ancestorDirs (k : Bytes) : List Bytes :=
  (nonEmptyPrefixes (comps k).dropLast).map renderDir

/-- absolute, no empty / "." / ".." component, at most one trailing slash, not the root. -/
def lexClean (k : Bytes) : Bool :=
  match k with
  | c :: rest =>
    c == slash &&
    (let cs := splitOn slash rest
     let body := if cs.getLast? == some [] then cs.dropLast else cs
     !body.isEmpty && body.all (fun c => c ≠ [] && c ≠ dotS && c ≠ dotdotS))
  | [] => false

def endsWithSlash (k : Bytes) : Bool := k.getLast? == some slash

/-- the path a key denotes, ignoring a trailing slash -/
def pathOf (k : Bytes) : Bytes := trimRight slash k

structure Request where
  key : Bytes       -- normalised destination; directories end in '/'
  isDir : Bool
  explicit : Bool   -- false: a tree directory owned by the filesystem package (implied)
  type : Bytes      -- type the planned entry must carry
  packager : Bytes
  fromTree : Bool := false
  /-- the destination of a `tree` entry itself when it is a filesystem-owned
      directory: declared by the user, yet planned as an implied directory.
      Whether it "occupies" the destination is not settled by the property;
      both readings are accepted (see DESIGN.md C05). -/
  treeRootImplied : Bool := false
deriving Repr, DecidableEq

/-- what one relevant raw entry asks for (file/config: via the glob mapping; tree: via the walk) -/
def requestsOf (O : Oracle) (cfg : PlanCfg) (i : Nat) (c : Content) : Except ErrClass (List Request) :=
  match classify c.type with
  | .dir => .ok [{ key := normDir c.dst, isDir := true, explicit := true, type := T.dir, packager := c.packager }]
  | .implicitDir => .ok []
  | .fileLike => .ok [{ key := normFile c.dst, isDir := false, explicit := true, type := c.type, packager := c.packager }]
  | .tree =>
    match O.walk i with
    | some (some ents) =>
      .ok (ents.map (fun e =>
        let d := join2 c.dst e.rel
        match e.kind with
        | .dir =>
          let k := normDir d
          { key := k, isDir := true, explicit := !ownedByFs k,
            type := if ownedByFs k then T.implicitDir else T.dir, packager := [], fromTree := true,
            treeRootImplied := ownedByFs k && e.rel == dotS }
        | .symlink => { key := normFile d, isDir := false, explicit := true, type := T.symlink, packager := [], fromTree := true }
        | .file => { key := normFile d, isDir := false, explicit := true, type := T.file, packager := [], fromTree := true }))
    | _ => .error .walkErr
  | .globbed =>
    match O.glob i with
    | none => .error .globFailed
    | some g =>
      match globMap c.src c.dst cfg.noGlob g with
      | .error e => .error e
      | .ok pairs =>
        .ok (pairs.map (fun (src, dst) =>
          { key := normFile dst, isDir := false, explicit := true,
            type := if (O.readlink src).isSome then T.symlink
                    else if c.type = [] then T.file else c.type,
            packager := c.packager }))
  | .invalid => .error .invalidType

def requestsAux (O : Oracle) (cfg : PlanCfg) : List (Nat × Content) → Except ErrClass (List Request)
  | [] => .ok []
  | (i, c) :: rest =>
    if !isRelevant cfg.packager c then requestsAux O cfg rest
    else match requestsOf O cfg i c with
      | .error e => .error e
      | .ok rs => match requestsAux O cfg rest with
        | .error e => .error e
        | .ok more => .ok (rs ++ more)

def requests (O : Oracle) (cfg : PlanCfg) (raw : List Content) : Except ErrClass (List Request) :=
  requestsAux O cfg (zipIdx raw)

/-- two requests may not share a destination, unless both are directories and
    at least one of them is only implied -/
def clash (a b : Request) : Bool :=
  pathOf a.key == pathOf b.key && !(a.isDir && b.isDir && (!a.explicit || !b.explicit))

/-- `a` is a non-directory and `b` lies beneath it -/
def beneath (a b : Request) : Bool :=
  !a.isDir && (ancestorDirs b.key).contains (pathOf a.key ++ [slash])

def anyPair {α} (p : α → α → Bool) : List α → Bool
  | [] => false
  | x :: xs => xs.any (fun y => p x y || p y x) || anyPair p xs

def conflicts (rs : List Request) : Bool :=
  anyPair (fun a b => clash a b || beneath a b) rs

/-- the stricter reading: a filesystem-owned tree destination counts as declared -/
def conflictsStrict (rs : List Request) : Bool :=
  conflicts (rs.map (fun r => if r.treeRootImplied then { r with explicit := true } else r))

/-- label of the first conflicting pair (for reports) -/
def conflictKind : List Request → String
  | [] => "none"
  | x :: xs =>
    match xs.find? (fun y => clash x y || beneath x y || beneath y x) with
    | some y =>
      let k := if clash x y then
                 (if x.isDir && y.isDir then "same-path:dir+dir"
                  else if !x.isDir && !y.isDir then "same-path:file+file" else "same-path:file+dir")
               else "beneath-non-directory"
      if x.fromTree || y.fromTree then k ++ ":tree" else k
    | none => conflictKind xs

def insertSorted (k : Bytes) : List Bytes → List Bytes
  | [] => [k]
  | x :: xs => if ltB k x then k :: x :: xs else if k = x then x :: xs else x :: insertSorted k xs

def sortDedup (l : List Bytes) : List Bytes := l.foldr insertSorted []

/-- the destinations a successful plan must consist of -/
def expectedKeys (rs : List Request) : List Bytes :=
  sortDedup (rs.map (·.key) ++ rs.flatMap (fun r => ancestorDirs r.key))

def strictlySorted : List Bytes → Bool
  | [] => true
  | [_] => true
  | a :: b :: rest => ltB a b && strictlySorted (b :: rest)

def relevantEntry (packager : Bytes) (c : Content) : Bool :=
  packager = [] ||
  ((c.packager = [] || c.packager = packager) &&
   (packager = P.rpm || !(c.type == T.doc || c.type == T.licence || c.type == T.license
                          || c.type == T.readme || c.type == T.ghost)) &&
   (packager = P.deb || c.type != T.debChangelog))

/-- every ancestor directory of every entry occurs earlier in the list -/
def parentsBefore : List Bytes → List Bytes → Bool
  | _, [] => true
  | seen, k :: rest => (ancestorDirs k).all (seen.contains ·) && parentsBefore (k :: seen) rest

def typeOk (rs : List Request) (c : Content) : Bool :=
  match rs.find? (fun r => r.key == c.dst && (r.explicit || !rs.any (fun r' => r'.key == c.dst && r'.explicit))) with
  | some r => c.type == r.type && (c.packager == r.packager)
  | none => c.type == T.implicitDir

/-- clauses of C05 violated by `result` (empty list = holds).  `rootOk`: treat a
    request that denotes the root directory as outside the property (see DESIGN). -/
def check (O : Oracle) (cfg : PlanCfg) (raw : List Content)
    (result : Except ErrClass (List Content)) : List String :=
  match requests O cfg raw with
  | .error e =>
    -- some request cannot be expanded: planning must fail; which of several
    -- causes is reported first is not part of the property
    match result with
    | .error _ => []
    | .ok _ => [s!"missing-error expected={e.name}"]
  | .ok rs =>
    if rs.any (fun r => pathOf r.key = []) then
      -- an entry that denotes the root directory itself: no clean destination
      -- exists for it; the property can only be met by rejecting it
      match result with
      | .error _ => []
      | .ok _ => ["root-destination"]
    else if conflicts rs then
      match result with
      | .error .collision => []
      | .error e => [s!"error-class expected=collision got={e.name}"]
      | .ok _ => ["collision-missed:" ++ conflictKind rs]
    else
      match result with
      | .error e =>
        if e = .collision && conflictsStrict rs then [] else [s!"spurious-error {e.name}"]
      | .ok l =>
        let keys := l.map (·.dst)
        (if strictlySorted keys then [] else ["not-strictly-sorted"]) ++
        (if keys.all lexClean then [] else ["destination-not-clean"]) ++
        (if l.all (fun c => endsWithSlash c.dst == isDirType c.type) then [] else ["dir-slash-mismatch"]) ++
        (if parentsBefore [] keys then [] else ["parent-missing-or-late"]) ++
        (if l.all (relevantEntry cfg.packager) then [] else ["irrelevant-entry"]) ++
        (if keys = expectedKeys rs then [] else ["keys-differ-from-spec"]) ++
        (if l.all (typeOk rs) then [] else ["type-or-tag-differs"])

end Nfpm.Spec
