import NfpmModel.Meta
/-
  C02: what a reader of the control data must find.  The parsers here are the
  "format's own parser" side: an RFC822-style control parser (deb, ipk) and a
  `key = value` parser (apk, archlinux); `Props/C02.lean` proves that they recover the
  logical fields from what the model renders, and the harness runs them on the
  real control members.
-/
namespace Nfpm.Spec
open Nfpm B

/-- one physical line → start of a field (`Key: value`) or continuation (` text`, ` .` = blank) -/
def splitKeyValue (line : Bytes) : Option (Bytes × Bytes) :=
  let k := line.takeWhile (· != 58)
  let rest := line.dropWhile (· != 58)
  match rest with
  | _ :: sp :: v => if sp = space then some (k, v) else none
  | [_] => some (k, [])
  | [] => none

def addCont (fs : List Field) (c : Bytes) : List Field :=
  match fs with
  | [] => []
  | f :: rest => { f with conts := f.conts ++ [if c = [dot] then [] else c] } :: rest

/-- fields in reverse order while scanning -/
def parseLines : List Bytes → List Field → List Field
  | [], acc => acc.reverse
  | line :: rest, acc =>
    match line with
    | [] => parseLines rest acc
    | c :: tl =>
      if c = space then
        -- a line of nothing but blanks and tabs is not a continuation: to the format's own parser (dpkg) it ends the
        -- stanza, and a binary control file has exactly one; it is reported as a field of its own
        (if tl.all (fun x => x = space || x = 9) then parseLines rest ({ key := b!"!blank-line-ends-the-stanza", first := [] } :: acc)
         else parseLines rest (addCont acc tl))
      else match splitKeyValue line with
        | some (k, v) => parseLines rest ({ key := k, first := v } :: acc)
        | none => parseLines rest acc

/-- RFC822-style control parser -/
def parseControl (text : Bytes) : List Field := parseLines (splitOn nl text) []

/-- `key = value` lines (apk / archlinux .PKGINFO); comment and continuation lines skipped -/
def parseKV (text : Bytes) : List (Bytes × Bytes) :=
  (splitOn nl text).filterMap (fun line =>
    match line with
    | [] => none
    | c :: _ =>
      if c = 35 || c = space then none
      else
        let k := line.takeWhile (· != space)
        let rest := line.dropWhile (· != space)
        if hasPrefix rest b!" = " then some (k, rest.drop 3) else none)

def showB (b : Bytes) : String := String.ofList (b.map (fun x => Char.ofNat x.toNat))

/-- the continuation lines differ only where the configuration has a line that is exactly "." and the
    control data reads a blank line: " ." is the format's blank-line marker, so such a line cannot be
    expressed (known finding C02-dot-line-in-description) -/
def onlyDotLines : List Bytes → List Bytes → Bool
  | [], [] => true
  | g :: gs, w :: ws => (g == w || (w == [dot] && g == [])) && onlyDotLines gs ws
  | _, _ => false

/-- compare parsed fields with the expected ones: first difference, as a clause -/
def diffFields : List Field → List Field → List String
  | [], [] => []
  | a :: _, [] => [s!"unexpected-field:{showB a.key}"]
  | [], b :: _ => [s!"missing-field:{showB b.key}"]
  | a :: as, b :: bs =>
    if a = b then diffFields as bs
    else if a.key ≠ b.key then
      (if bs.any (·.key == a.key) then [s!"missing-field:{showB b.key}"] else [s!"unexpected-field:{showB a.key}"])
    else if a.first ≠ b.first then [s!"field-value-differs:{showB a.key}"]
    else if onlyDotLines a.conts b.conts then [s!"dot-line-read-as-blank:{showB a.key}"]
    else [s!"field-continuation-differs:{showB a.key}"]

def diffKV : List (Bytes × Bytes) → List (Bytes × Bytes) → List String
  | [], [] => []
  | a :: _, [] => [s!"unexpected-key:{showB a.1}"]
  | [], b :: _ => [s!"missing-key:{showB b.1}"]
  | a :: as, b :: bs =>
    if a = b then diffKV as bs
    else if a.1 ≠ b.1 then
      (if bs.any (·.1 == a.1) then [s!"missing-key:{showB b.1}"] else [s!"unexpected-key:{showB a.1}"])
    else [s!"value-differs:{showB a.1}"]

/-- apk: expected `key = value` pairs -/
def apkExpected (l : Leaves) (installedSize : Nat) (datahashHex : Bytes) : List (Bytes × Bytes) :=
  let vi := vinfoOf l b!"APK.Arch"
  let descFirst := (splitOn nl (apkMultiline (l.str b!"Description"))).head?.getD []
  [ (b!"pkgname", l.str b!"Name"), (b!"pkgver", apkVersion vi), (b!"arch", targetArch Generated.archMap_apk vi),
    (b!"size", natToDec installedSize), (b!"pkgdesc", descFirst) ]
  ++ (if l.str b!"Homepage" = [] then [] else [(b!"url", l.str b!"Homepage")])
  ++ (if l.str b!"Maintainer" = [] then [] else [(b!"maintainer", l.str b!"Maintainer")])
  ++ (l.lst b!"Replaces").map (fun x => (b!"replaces", x))
  ++ (l.lst b!"Provides").map (fun x => (b!"provides", x))
  ++ (l.lst b!"Depends").map (fun x => (b!"depend", x))
  ++ (if l.str b!"License" = [] then [] else [(b!"license", l.str b!"License")])
  ++ [ (b!"datahash", datahashHex) ]

/-- what archlinux's pkgver must state: [epoch:]version+prerelease-pkgrel (C02: "the version string
    composed from epoch, version, prerelease … in the target format's syntax") -/
def archPkgverSpec (vi : VInfo) : Bytes :=
  match (if vi.epoch = [] then none else parseUintCanon vi.epoch) with
  | some e => e ++ colon :: archVerRel vi
  | none => archVerRel vi

/-- archlinux: expected pairs (empty values are not written) -/
def archExpected (l : Leaves) (totalSize : Nat) (builddate : Int) (backup : List Bytes) : List (Bytes × Bytes) :=
  let vi := vinfoOf l b!"ArchLinux.Arch"
  let name := l.str b!"Name"
  ([ (b!"arch", targetArch Generated.archMap_archlinux vi), (b!"builddate", intToDec builddate),
     (b!"license", l.str b!"License"),
     (b!"packager", if l.str b!"ArchLinux.Packager" = [] then b!"Unknown Packager" else l.str b!"ArchLinux.Packager"),
     (b!"pkgbase", if l.str b!"ArchLinux.Pkgbase" = [] then name else l.str b!"ArchLinux.Pkgbase"),
     (b!"pkgdesc", replaceByte nl [space] (l.str b!"Description")), (b!"pkgname", name), (b!"pkgver", archPkgverSpec vi),
     (b!"size", natToDec totalSize), (b!"url", l.str b!"Homepage") ]
   ++ (l.lst b!"Replaces").map (fun x => (b!"replaces", x))
   ++ (l.lst b!"Conflicts").map (fun x => (b!"conflict", x))
   ++ (l.lst b!"Provides").map (fun x => (b!"provides", x))
   ++ (l.lst b!"Depends").map (fun x => (b!"depend", x))
   ++ backup.map (fun x => (b!"backup", x))).filter (fun p => p.2 ≠ [])

end Nfpm.Spec
