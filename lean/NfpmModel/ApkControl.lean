import NfpmModel.Pax
/-
  The control segment of an apk as apk.createBuilderControl assembles it:

    .PKGINFO             USTAR header, mode 0600, the package mtime (0 when none is configured; since fix 5a5090a in /repo –
                         before it no time at all), the rendered key = value text
    the configured scripts in the order of their member names
      .post-deinstall .post-install .post-upgrade .pre-deinstall .pre-install .pre-upgrade
                         mode 0755, the on-disk mtime of the script file, PAX format with the record
                         APK-TOOLS.checksum.SHA1 = hex SHA-1 of the script's bytes (newItemInsideTarGz)

  The hash function is a parameter (`sha1hex`); a script is given by its bytes and the mtime of its file.
-/
namespace Nfpm.ApkCtl
open Nfpm B

def pkginfoMember (pkginfo : Bytes) (mtime : Nat := 0) : Tar.PMember :=
  { hdr := { flavor := .ustar, name := b!".PKGINFO", mode := 0o600, size := pkginfo.length, mtime := mtime }, body := pkginfo }

def scriptMember (sha1hex : Bytes → Bytes) (name : Bytes) (body : Bytes) (mtime : Nat) : Tar.PMember :=
  { hdr := { flavor := .ustar, name := name, mode := 0o755, size := body.length, mtime := mtime },
    pax := [(b!"APK-TOOLS.checksum.SHA1", sha1hex body)], body := body }

/-- the slots in the order maps.Keys (sorted) walks them -/
def slots : List Bytes :=
  [ b!".post-deinstall", b!".post-install", b!".post-upgrade", b!".pre-deinstall", b!".pre-install", b!".pre-upgrade" ]

def members (sha1hex : Bytes → Bytes) (pkginfo : Bytes) (scripts : Bytes → Option (Bytes × Nat)) (mtime : Nat := 0) : List Tar.PMember :=
  pkginfoMember pkginfo mtime :: slots.filterMap (fun n => (scripts n).map (fun p => scriptMember sha1hex n p.1 p.2))

def lookup (name : Bytes) (ms : List Tar.PMember) : Option Tar.PMember := ms.find? (fun m => m.hdr.name = name)

end Nfpm.ApkCtl
