import NfpmModel.RpmHdr
import NfpmModel.Cpio
import NfpmModel.Path
/-
  The file list of an rpm as google/rpmpack writes it (rpm.go: RPM.Write's loop over the sorted names, writeFile,
  writePayload, writeFileIndexes; dir.go: dirIndex) – the sixteen per-file header entries and the cpio payload – and an
  independent reader of the header side.

    per file (in sorted name order):
      dir, base := path.Split(name)          DIRINDEXES gets the index of dir in DIRNAMES (appended on first use),
                                             BASENAMES gets base
      FILEUSERNAME/FILEGROUPNAME/FILEMTIMES/FILEFLAGS from the file
      mode & 040000 ≠ 0       (directory)    FILESIZES 4096, FILEDIGESTS "", FILELINKTOS "", 2 links
      mode & 0120000 = 0120000 (symlink)     FILESIZES len(body), FILEDIGESTS "", FILELINKTOS body
      otherwise               (regular)      mode |= 0100000, FILESIZES len(body), FILEDIGESTS hex sha256(body), FILELINKTOS ""
      FILEMODES uint16(mode)
      a cpio entry (name, mode, len(body), links, body) unless the file's type is exactly GhostFile (64)
    constant columns: FILEINODES 1..n, FILEDIGESTALGO 8, FILEVERIFYFLAGS -1, FILERDEVS 1, FILELANGS ""

  What is known about a file's body is carried as facts (`size`, `digest`, `link`) so that the same function is run by
  the driver (the harness supplies the digest it computed from the decoded payload) and stated about in the theorems
  (`ofBody`: the facts of an actual body, for every hash function).
-/
namespace Nfpm.RpmFiles
open Nfpm B RpmHdr

structure RFile where
  name : Bytes
  mode : Nat
  flags : Nat := 0
  owner : Bytes := []
  group : Bytes := []
  mtime : Nat := 0
  /-- len(Body) -/
  size : Nat := 0
  /-- lower-case hex SHA-256 of Body -/
  digest : Bytes := []
  /-- Body as a string (read only for symbolic links) -/
  link : Bytes := []
deriving DecidableEq, Repr

inductive Kind | dir | link | reg
deriving DecidableEq, Repr

/-- rpmpack.writeFile's switch on the mode bits -/
def kindOf (mode : Nat) : Kind :=
  if mode &&& 0o40000 ≠ 0 then .dir else if mode &&& 0o120000 = 0o120000 then .link else .reg

def ghostFlag : Nat := 64

def isGhost (f : RFile) : Bool := f.flags = ghostFlag

/-- f.Mode after writeFile (the regular-file bit is added for regular files) -/
def effMode (f : RFile) : Nat := match kindOf f.mode with | .reg => f.mode ||| 0o100000 | _ => f.mode

def sizeCol (f : RFile) : Nat := match kindOf f.mode with | .dir => 4096 | _ => f.size % 4294967296
def digestCol (f : RFile) : Bytes := match kindOf f.mode with | .reg => f.digest | _ => []
def linkCol (f : RFile) : Bytes := match kindOf f.mode with | .link => f.link | _ => []
def linksOf (f : RFile) : Nat := match kindOf f.mode with | .dir => 2 | _ => 1

/-- path.Split -/
def dirOf (name : Bytes) : Bytes := Path.uptoLastSlash name
def baseOf (name : Bytes) : Bytes := name.drop (dirOf name).length

/-- dirIndex.Get: the list after the lookup (the directory appended when new) -/
def dirGet (D : List Bytes) (d : Bytes) : List Bytes := if d ∈ D then D else D ++ [d]

/-- DIRNAMES and DIRINDEXES for the directories of the files in order, starting from the directories known so far -/
def dirCols : List Bytes → List Bytes → List Bytes × List Nat
  | D, [] => (D, [])
  | D, d :: rest =>
    let r := dirCols (dirGet D d) rest
    (r.1, (dirGet D d).idxOf d :: r.2)

def dirnames (fs : List RFile) : List Bytes := (dirCols [] (fs.map (fun f => dirOf f.name))).1
def dirindexes (fs : List RFile) : List Nat := (dirCols [] (fs.map (fun f => dirOf f.name))).2

/-! ### entries -/

def be16 (n : Nat) : Bytes := [(n / 256 % 256).toUInt8, (n % 256).toUInt8]

/-- EntryStringSlice (of a non-empty slice; the file entries are only written when there are files) -/
def entStrs (tag : Nat) (l : List Bytes) : Entry :=
  { tag, typ := tStringArray, count := l.length, data := l.flatMap (· ++ [0]) }
/-- EntryUint32 / EntryInt32 -/
def entU32s (tag : Nat) (l : List Nat) : Entry := { tag, typ := tInt32, count := l.length, data := l.flatMap be32 }
/-- EntryUint16 / EntryInt16 -/
def entU16s (tag : Nat) (l : List Nat) : Entry := { tag, typ := tInt16, count := l.length, data := l.flatMap be16 }

def tSizes : Nat := 1028
def tModes : Nat := 1030
def tRDevs : Nat := 1033
def tMTimes : Nat := 1034
def tDigests : Nat := 1035
def tLinkTos : Nat := 1036
def tFlags : Nat := 1037
def tUsers : Nat := 1039
def tGroups : Nat := 1040
def tVerify : Nat := 1045
def tInodes : Nat := 1096
def tLangs : Nat := 1097
def tDirIndexes : Nat := 1116
def tBaseNames : Nat := 1117
def tDirNames : Nat := 1118
def tDigestAlgo : Nat := 5011

/-- writeFileIndexes, in ascending tag order (the order index.Bytes emits them in) -/
def fileEntries (fs : List RFile) : List Entry :=
  let n := fs.length
  [ entU32s tSizes (fs.map sizeCol),
    entU16s tModes (fs.map (fun f => effMode f % 65536)),
    entU16s tRDevs (List.replicate n 1),
    entU32s tMTimes (fs.map (·.mtime)),
    entStrs tDigests (fs.map digestCol),
    entStrs tLinkTos (fs.map linkCol),
    entU32s tFlags (fs.map (·.flags)),
    entStrs tUsers (fs.map (·.owner)),
    entStrs tGroups (fs.map (·.group)),
    entU32s tVerify (List.replicate n 4294967295),
    entU32s tInodes ((List.range n).map (· + 1)),
    entStrs tLangs (List.replicate n []),
    entU32s tDirIndexes (dirindexes fs),
    entStrs tBaseNames (fs.map (fun f => baseOf f.name)),
    entStrs tDirNames (dirnames fs),
    entU32s tDigestAlgo (List.replicate n 8) ]

/-- the cpio entries: every file but the ghosts, in the same order, with the body it was given -/
def payload (fs : List (RFile × Bytes)) : List Cpio.Entry :=
  fs.filterMap (fun p => if isGhost p.1 then none
                         else some { name := p.1.name, mode := effMode p.1, links := linksOf p.1, body := p.2 })

/-- the facts of an actual body under a hash function (`hex256` = lower-case hex of SHA-256) -/
def ofBody (hex256 : Bytes → Bytes) (f : RFile) (body : Bytes) : RFile :=
  { f with size := body.length, digest := hex256 body, link := body }

/-! ### an independent reader of the header side -/

def lookupTag (t : Nat) (es : List Entry) : Option Entry := es.find? (fun e => e.tag = t)

def decStrs : Nat → Bytes → List Bytes
  | 0, _ => []
  | k + 1, s => let t := s.takeWhile (· != 0); t :: decStrs k (s.drop (t.length + 1))

def decU32s : Nat → Bytes → List Nat
  | 0, _ => []
  | k + 1, s => beVal (s.take 4) :: decU32s k (s.drop 4)

def decU16s : Nat → Bytes → List Nat
  | 0, _ => []
  | k + 1, s => beVal (s.take 2) :: decU16s k (s.drop 2)

def strsOf (t : Nat) (es : List Entry) : Option (List Bytes) :=
  match lookupTag t es with
  | some e => if e.typ = tStringArray then some (decStrs e.count e.data) else none
  | none => none

def u32sOf (t : Nat) (es : List Entry) : Option (List Nat) :=
  match lookupTag t es with
  | some e => if e.typ = tInt32 then some (decU32s e.count e.data) else none
  | none => none

def u16sOf (t : Nat) (es : List Entry) : Option (List Nat) :=
  match lookupTag t es with
  | some e => if e.typ = tInt16 then some (decU16s e.count e.data) else none
  | none => none

/-- DIRNAMES[DIRINDEXES[i]] ++ BASENAMES[i] -/
def joinNames (D : List Bytes) : List Nat → List Bytes → Option (List Bytes)
  | [], [] => some []
  | i :: is, b :: bs =>
    match D[i]?, joinNames D is bs with
    | some d, some r => some ((d ++ b) :: r)
    | _, _ => none
  | _, _ => none

/-- one row of the file list as a reader of the header sees it -/
structure Row where
  name : Bytes
  size : Nat
  mode : Nat
  mtime : Nat
  digest : Bytes
  linkto : Bytes
  flags : Nat
  owner : Bytes
  group : Bytes
deriving DecidableEq, Repr

def zipRows : List Bytes → List Nat → List Nat → List Nat → List Bytes → List Bytes → List Nat → List Bytes → List Bytes
    → Option (List Row)
  | [], [], [], [], [], [], [], [], [] => some []
  | n :: ns, s :: ss, m :: ms, t :: ts, d :: ds, l :: ls, f :: fl, o :: os, g :: gs =>
    (zipRows ns ss ms ts ds ls fl os gs).map
      (fun r => { name := n, size := s, mode := m, mtime := t, digest := d, linkto := l, flags := f, owner := o, group := g } :: r)
  | _, _, _, _, _, _, _, _, _ => none

/-- the file list of a main header: all columns present, of the right type and of one length -/
def readFiles (hdr : List Entry) : Option (List Row) := do
  let D ← strsOf tDirNames hdr
  let is ← u32sOf tDirIndexes hdr
  let bs ← strsOf tBaseNames hdr
  let names ← joinNames D is bs
  zipRows names (← u32sOf tSizes hdr) (← u16sOf tModes hdr) (← u32sOf tMTimes hdr) (← strsOf tDigests hdr)
    (← strsOf tLinkTos hdr) (← u32sOf tFlags hdr) (← strsOf tUsers hdr) (← strsOf tGroups hdr)

/-- what the reader is expected to see for a file -/
def rowOf (f : RFile) : Row :=
  { name := f.name, size := sizeCol f, mode := effMode f % 65536, mtime := f.mtime, digest := digestCol f,
    linkto := linkCol f, flags := f.flags, owner := f.owner, group := f.group }

end Nfpm.RpmFiles
