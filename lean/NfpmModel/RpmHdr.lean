import NfpmModel.Bytes
/-
  Byte-level model of the rpm header structure as google/rpmpack writes it (header.go: index.Bytes) – used twice in
  every rpm: the signature header (region tag 62) and the main header (region tag 63) – and an independent reader.

    magic 8e ad e8 01, 4 reserved NUL bytes, number of index entries (4 bytes big-endian), size of the store (4)
    index entries of 16 bytes: tag, type, offset into the store, count (4 bytes big-endian each);
        the first is the region entry (tag 62/63, type BIN, count 16) whose data – itself shaped like an index
        entry with the offset −16·(number of index entries) – sits at the END of the store
    store: the data of the entries in index order (ascending tag), INT16 data aligned to 2 and INT32 data to 4 by
        NUL bytes (only these two: "some versions of rpm fail when non-integers are aligned"), then the region data

    data of an entry: INT16/INT32 big-endian numbers (2·count / 4·count bytes), STRING one NUL-terminated string,
    BIN count bytes, STRING_ARRAY count NUL-terminated strings
-/
namespace Nfpm.RpmHdr
open Nfpm B

def zeros (n : Nat) : Bytes := List.replicate n 0

def be32 (n : Nat) : Bytes :=
  [(n / 16777216 % 256).toUInt8, (n / 65536 % 256).toUInt8, (n / 256 % 256).toUInt8, (n % 256).toUInt8]

def beVal (s : Bytes) : Nat := s.foldl (fun a c => a * 256 + c.toNat) 0

def rd32 (s : Bytes) (off : Nat) : Nat := beVal ((s.drop off).take 4)

def tInt16 : Nat := 3
def tInt32 : Nat := 4
def tString : Nat := 6
def tBin : Nat := 7
def tStringArray : Nat := 8

structure Entry where
  tag : Nat
  typ : Nat
  count : Nat
  data : Bytes
deriving DecidableEq, Repr

def boundary (typ : Nat) : Nat := if typ = tInt16 then 2 else if typ = tInt32 then 4 else 1

/-- pad(w, type, offset): NUL bytes up to the type's boundary -/
def padLen (typ off : Nat) : Nat := (boundary typ - off % boundary typ) % boundary typ

/-- the store built entry by entry: the offset of each entry's data, and the bytes -/
def layout : List Entry → Bytes → List Nat × Bytes
  | [], st => ([], st)
  | e :: es, st =>
    let st1 := st ++ zeros (padLen e.typ st.length)
    let r := layout es (st1 ++ e.data)
    (st1.length :: r.1, r.2)

def idx (tag typ off count : Nat) : Bytes := be32 tag ++ be32 typ ++ be32 off ++ be32 count

/-- index.eigenHeader: the region data; the offset is the two's complement of 16·(entries + 1) -/
def regionData (h n : Nat) : Bytes := idx h tBin (4294967296 - 16 * (n + 1)) 16

def magic : Bytes := [0x8e, 0xad, 0xe8, 0x01, 0, 0, 0, 0]

/-- index.Bytes for region tag `h` and the entries in ascending tag order -/
def header (h : Nat) (es : List Entry) : Bytes :=
  let r := layout es []
  let store := r.2 ++ regionData h es.length
  magic ++ be32 (es.length + 1) ++ be32 store.length ++ idx h tBin (store.length - 16) 16
    ++ (List.zipWith (fun e o => idx e.tag e.typ o e.count) es r.1).flatten ++ store

/-! ### an independent reader -/

/-- total length of `k` NUL-terminated strings at the front of `s` -/
def strsLen : Nat → Bytes → Option Nat
  | 0, _ => some 0
  | k + 1, s =>
    let t := s.takeWhile (· != 0)
    if t.length < s.length then (strsLen k (s.drop (t.length + 1))).map (· + (t.length + 1)) else none

/-- how many bytes of the store an entry of this type and count occupies -/
def dataLen (typ count : Nat) (s : Bytes) : Option Nat :=
  if typ = tInt16 then some (2 * count)
  else if typ = tInt32 then some (4 * count)
  else if typ = tBin then some count
  else if typ = tString then (if count = 1 then strsLen 1 s else none)
  else if typ = tStringArray then strsLen count s
  else none

def readEntry (store : Bytes) (rec : Bytes) : Option Entry :=
  let tag := rd32 rec 0; let typ := rd32 rec 4; let off := rd32 rec 8; let count := rd32 rec 12
  if off % boundary typ ≠ 0 then none
  else match dataLen typ count (store.drop off) with
    | none => none
    | some n => if store.length < off + n then none else some { tag, typ, count, data := (store.drop off).take n }

def readEntries (store : Bytes) : Nat → Bytes → Option (List Entry)
  | 0, _ => some []
  | k + 1, ix =>
    match readEntry store (ix.take 16), readEntries store k (ix.drop 16) with
    | some e, some es => some (e :: es)
    | _, _ => none

/-- parse one header structure off the front: (region tag, entries, rest) -/
def read (s : Bytes) : Option (Nat × List Entry × Bytes) :=
  if s.take 8 ≠ magic then none
  else
    let n := rd32 s 8
    let hsize := rd32 s 12
    if n = 0 ∨ hsize < 16 ∨ s.length < 16 + 16 * n + hsize then none
    else
      let ix := (s.drop 16).take (16 * n)
      let store := (s.drop (16 + 16 * n)).take hsize
      let h := rd32 ix 0
      -- the region entry points at the last 16 bytes of the store, which repeat it with the negative offset
      if rd32 ix 4 ≠ tBin ∨ rd32 ix 8 ≠ hsize - 16 ∨ rd32 ix 12 ≠ 16 then none
      else if store.drop (hsize - 16) ≠ regionData h (n - 1) then none
      else match readEntries (store.take (hsize - 16)) (n - 1) (ix.drop 16) with
        | none => none
        | some es => some (h, es, s.drop (16 + 16 * n + hsize))

/-! ### the whole file -/

/-- rpmpack.lead: magic ed ab ee db, version 3.0, type binary, archnum 1, 66 bytes of NUL-filled name-version
    (cut to 65), osnum 1, signature type 5, 16 reserved NUL bytes -/
def lead (nv : Bytes) : Bytes :=
  [0xed, 0xab, 0xee, 0xdb, 0x03, 0x00, 0x00, 0x00, 0x00, 0x01] ++ (nv.take 65 ++ zeros (66 - (nv.take 65).length))
    ++ [0x00, 0x01, 0x00, 0x05] ++ zeros 16

def pad8 (n : Nat) : Nat := (8 - n % 8) % 8

/-- RPM.Write: lead, signature header (region 62) padded to 8 bytes, main header (region 63), compressed payload -/
def file (nv : Bytes) (sig hdr : List Entry) (payload : Bytes) : Bytes :=
  lead nv ++ header 62 sig ++ zeros (pad8 (header 62 sig).length) ++ header 63 hdr ++ payload

structure File where
  leadName : Bytes
  sig : List Entry
  hdr : List Entry
  /-- offset and length of the main header: the region the header digests and signatures cover -/
  hdrOff : Nat
  hdrLen : Nat
  payload : Bytes
deriving DecidableEq, Repr

def readFile (s : Bytes) : Option File :=
  if s.length < 96 ∨ s.take 4 ≠ [0xed, 0xab, 0xee, 0xdb] then none
  else
    let after := s.drop 96
    match read after with
    | some (62, sig, rest) =>
      let sigLen := after.length - rest.length
      let p := pad8 sigLen
      if rest.length < p ∨ rest.take p ≠ zeros p then none
      else match read (rest.drop p) with
        | some (63, hdr, payload) =>
          some { leadName := ((s.drop 10).take 66).takeWhile (· != 0), sig, hdr, hdrOff := 96 + sigLen + p,
                 hdrLen := (rest.drop p).length - payload.length, payload }
        | _ => none
    | _ => none

end Nfpm.RpmHdr
