import NfpmModel.Bytes
/-
  Byte-level model of the cpio (SVR4 "newc") payload of an rpm as rpmpack drives cavaliergopher/cpio, and an
  independent reader (C04: "compressed cpio payload whose entries correspond one-to-one … to the header's file list").

    entry    "070701" ino[8] mode[8] uid[8] gid[8] nlink[8] mtime[8] size[8] devmaj[8] devmin[8] rdevmaj[8]
             rdevmin[8] namesize[8] check[8]   (upper-case hex, 8 digits each), name, NUL, zero padding to a
             multiple of 4 counted from the start of the header, body, zero padding to a multiple of 4
    writer   inode = running number 1, 2, …; uid = gid = mtime = 0; regular-file type bit added when no type is set
    archive  entries, then the entry "TRAILER!!!" (inode 0, one link, no body)
-/
namespace Nfpm.Cpio
open Nfpm B

def zeros (n : Nat) : Bytes := List.replicate n 0

def hexDigitU (n : Nat) : UInt8 := if n < 10 then (48 + n).toUInt8 else (55 + n).toUInt8

/-- `%08X`-style: exactly `k` upper-case hex digits (the number modulo 16^k) -/
def hexFixed : Nat → Nat → Bytes
  | 0, _ => []
  | k + 1, n => hexFixed k (n / 16) ++ [hexDigitU (n % 16)]

def pad4 (n : Nat) : Nat := (4 - n % 4) % 4

structure Entry where
  name : Bytes
  mode : Nat
  links : Nat
  body : Bytes
deriving DecidableEq, Repr

/-- Writer.WriteHeader: a mode without type bits is a regular file -/
def effMode (mode : Nat) : Nat := if mode / 512 = 0 then mode + 0o100000 else mode

/-- the 110-byte header -/
def header (ino : Nat) (mode links size namesize : Nat) : Bytes :=
  b!"070701" ++ hexFixed 8 ino ++ hexFixed 8 mode ++ hexFixed 8 0 ++ hexFixed 8 0 ++ hexFixed 8 links ++ hexFixed 8 0
    ++ hexFixed 8 size ++ hexFixed 8 0 ++ hexFixed 8 0 ++ hexFixed 8 0 ++ hexFixed 8 0 ++ hexFixed 8 namesize ++ hexFixed 8 0

/-- header, name, NUL, padding; body, padding -/
def entryBytes (ino : Nat) (e : Entry) : Bytes :=
  header ino (effMode e.mode) e.links e.body.length (e.name.length + 1) ++ e.name ++ [0]
    ++ zeros (pad4 (110 + e.name.length + 1)) ++ e.body ++ zeros (pad4 e.body.length)

def trailerName : Bytes := b!"TRAILER!!!"

def trailerBytes : Bytes :=
  header 0 0 1 0 (trailerName.length + 1) ++ trailerName ++ [0] ++ zeros (pad4 (110 + trailerName.length + 1))

/-- entries numbered from `ino` on -/
def entriesFrom : Nat → List Entry → Bytes
  | _, [] => []
  | ino, e :: rest => entryBytes ino e ++ entriesFrom (ino + 1) rest

/-- the whole payload (uncompressed) -/
def archive (es : List Entry) : Bytes := entriesFrom 1 es ++ trailerBytes

/-! ### an independent reader -/

def hexValU (c : UInt8) : Option Nat :=
  if 48 ≤ c && c ≤ 57 then some (c.toNat - 48)
  else if 65 ≤ c && c ≤ 70 then some (c.toNat - 55)
  else if 97 ≤ c && c ≤ 102 then some (c.toNat - 87)
  else none

def readHex : Bytes → Option Nat
  | s => s.foldl (fun acc c => match acc, hexValU c with
      | some a, some v => some (a * 16 + v)
      | _, _ => none) (some 0)

def slice (b : Bytes) (off len : Nat) : Bytes := (b.drop off).take len

structure REntry where
  ino : Nat
  mode : Nat
  links : Nat
  name : Bytes
  body : Bytes
deriving DecidableEq, Repr

/-- read entries up to the trailer; `none` = malformed -/
def readEntries : Nat → Bytes → Option (List REntry)
  | 0, _ => none
  | fuel + 1, s =>
    if s.length < 110 then none
    else if s.take 6 ≠ b!"070701" then none
    else match readHex (slice s 6 8), readHex (slice s 14 8), readHex (slice s 38 8), readHex (slice s 54 8), readHex (slice s 94 8) with
      | some ino, some mode, some links, some size, some namesize =>
        if namesize = 0 then none
        else
          let nameEnd := 110 + namesize
          let dataStart := nameEnd + pad4 nameEnd
          let next := dataStart + size + pad4 size
          if s.length < next then none
          else if slice s (nameEnd - 1) 1 ≠ [0] then none
          else
            let name := slice s 110 (namesize - 1)
            if name = trailerName then some []
            else match readEntries fuel (s.drop next) with
              | none => none
              | some rest => some ({ ino, mode, links, name, body := slice s dataStart size } :: rest)
      | _, _, _, _, _ => none

def read (s : Bytes) : Option (List REntry) := readEntries (s.length / 110 + 1) s

/-- what the reader must find for the entries written from inode `ino` on -/
def expected : Nat → List Entry → List REntry
  | _, [] => []
  | ino, e :: rest => { ino, mode := effMode e.mode, links := e.links, name := e.name, body := e.body } :: expected (ino + 1) rest

end Nfpm.Cpio
