import NfpmModel.RpmFiles
/-
  What an rpm states about its own bytes, as google/rpmpack computes it (rpm.go: writeSignatures, writeGenIndexes):

    signature header (region 62), written AFTER the main header bytes and the compressed payload exist:
      268   RSA   BIN     the signer's output over the main header bytes                (signed packages only)
      273   SHA256 STRING lower-case hex SHA-256 of the main header bytes
      1000  SIZE  INT32   length of the main header bytes + length of the compressed payload
      1002  PGP   BIN     the signer's output over main header bytes ++ compressed payload (signed packages only)
      1007  PAYLOADSIZE INT32  sum of the body lengths written into the cpio payload
    main header:
      5092  PAYLOADDIGEST  STRING_ARRAY [hex SHA-256 of the compressed payload]
      5093  PAYLOADDIGESTALGO INT32 8

  Hash function and signer are parameters.
-/
namespace Nfpm.RpmSig
open Nfpm B RpmHdr RpmFiles

def entStr (tag : Nat) (s : Bytes) : Entry := { tag, typ := tString, count := 1, data := s ++ [0] }
def entBin (tag : Nat) (b : Bytes) : Entry := { tag, typ := tBin, count := b.length, data := b }
def entI32 (tag : Nat) (n : Nat) : Entry := entU32s tag [n % 4294967296]

/-- writeSignatures; entries in ascending tag order -/
def sigEntries (hex256 : Bytes → Bytes) (sign : Option (Bytes → Bytes)) (regHeader payloadZ : Bytes) (payloadSize : Nat) : List Entry :=
  (match sign with | some f => [entBin 268 (f regHeader)] | none => [])
  ++ [entStr 273 (hex256 regHeader), entI32 1000 (payloadZ.length + regHeader.length)]
  ++ (match sign with | some f => [entBin 1002 (f (regHeader ++ payloadZ))] | none => [])
  ++ [entI32 1007 payloadSize]

/-- the two payload-digest entries of the main header -/
def digestEntries (hex256 : Bytes → Bytes) (payloadZ : Bytes) : List Entry :=
  [entStrs 5092 [hex256 payloadZ], entI32 5093 8]

/-- RPM.Write from the point where the main header entries and the compressed payload are known -/
def whole (hex256 : Bytes → Bytes) (sign : Option (Bytes → Bytes)) (nv : Bytes) (hdr : List Entry) (payloadZ : Bytes)
    (payloadSize : Nat) : Bytes :=
  RpmHdr.file nv (sigEntries hex256 sign (header 63 hdr) payloadZ payloadSize) hdr payloadZ

end Nfpm.RpmSig
