import NfpmModel.RpmFiles
/-
  Dependency relations of an rpm as nfpm and google/rpmpack write them (rpm.toRelation, sense.go: NewRelation,
  Relations.Set / addIfMissing / AddToIndex; rpm.go: NewRPM's self-provide, writeRelationIndexes), and a reader.

    item       "(…)" (rich dependency): name = the item, no version, sense ANY
               otherwise the leftmost match of  ([^=<>\s]*)\s*((?:=|>|<)*)\s*(.*)?  – which always starts at the first
               byte: name = the longest prefix without '=', '<', '>' and white space; white space; the operator run; white
               space; version = the rest up to the first newline.  The operator run must be one of "", <, >, =, <=, >=
               (sense 0, 2, 4, 8, 10, 12), anything else fails the packaging.
    list       items parsed in order, a relation equal to an earlier one dropped
    provides   the configured ones, then `name = version-release` unless already present
    header     per category, only when there is at least one relation: names (string array), versions (string array),
               flags (INT32) – provides 1047/1113/1112, requires 1049/1050/1048, conflicts 1054/1055/1053,
               obsoletes 1090/1115/1114, recommends 5046/5047/5048, suggests 5049/5050/5051
-/
namespace Nfpm.RpmRel
open Nfpm B RpmHdr RpmFiles

structure Rel where
  name : Bytes
  version : Bytes := []
  sense : Nat := 0
deriving DecidableEq, Repr

/-- Go regexp `\s` -/
def isWs (c : UInt8) : Bool := c = 9 || c = 10 || c = 12 || c = 13 || c = 32

def isOp (c : UInt8) : Bool := c = 61 || c = 60 || c = 62

/-- stringToSense -/
def senseOf (ops : Bytes) : Option Nat :=
  if ops = [] then some 0
  else if ops = [60] then some 2
  else if ops = [62] then some 4
  else if ops = [61] then some 8
  else if ops = [60, 61] then some 10
  else if ops = [62, 61] then some 12
  else none

/-- NewRelation -/
def parse (s : Bytes) : Option Rel :=
  if s.head? = some 40 ∧ s.getLast? = some 41 then some { name := s }
  else
    let name := s.takeWhile (fun c => !isOp c && !isWs c)
    let r1 := (s.drop name.length).dropWhile isWs
    let ops := r1.takeWhile isOp
    let r2 := (r1.drop ops.length).dropWhile isWs
    (senseOf ops).map (fun sn => { name := name, version := r2.takeWhile (· != 10), sense := sn })

/-- addIfMissing -/
def addIfMissing (rs : List Rel) (r : Rel) : List Rel := if r ∈ rs then rs else rs ++ [r]

/-- rpm.toRelation: none = packaging fails -/
def toRelations : List Bytes → List Rel → Option (List Rel)
  | [], acc => some acc
  | it :: rest, acc =>
    match parse it with
    | none => none
    | some r => toRelations rest (addIfMissing acc r)

/-- the six categories as RPM.Write indexes them; `self` = (name, version-release) -/
structure Cats where
  provides : List Rel
  obsoletes : List Rel
  suggests : List Rel
  recommends : List Rel
  requires : List Rel
  conflicts : List Rel
deriving DecidableEq, Repr

def cats (selfName selfVersion : Bytes) (provides depends recommends replaces suggests conflicts : List Bytes) : Option Cats :=
  match toRelations provides [], toRelations depends [], toRelations recommends [], toRelations replaces [],
      toRelations suggests [], toRelations conflicts [] with
  | some p, some d, some rc, some rp, some s, some c =>
    some { provides := addIfMissing p { name := selfName, version := selfVersion, sense := 8 },
           obsoletes := rp, suggests := s, recommends := rc, requires := d, conflicts := c }
  | _, _, _, _, _, _ => none

/-- Relations.AddToIndex -/
def relEntries (nameTag verTag flagTag : Nat) (rs : List Rel) : List Entry :=
  if rs = [] then []
  else [ entStrs nameTag (rs.map (·.name)), entStrs verTag (rs.map (·.version)), entU32s flagTag (rs.map (·.sense)) ]

/-- writeRelationIndexes (the entries; index.Bytes sorts them by tag) -/
def entries (c : Cats) : List Entry :=
  relEntries 1047 1113 1112 c.provides ++ relEntries 1090 1115 1114 c.obsoletes ++ relEntries 5049 5050 5051 c.suggests
    ++ relEntries 5046 5047 5048 c.recommends ++ relEntries 1049 1050 1048 c.requires ++ relEntries 1054 1055 1053 c.conflicts

/-! ### reader -/

def zipRels : List Bytes → List Bytes → List Nat → Option (List Rel)
  | [], [], [] => some []
  | n :: ns, v :: vs, f :: fs => (zipRels ns vs fs).map ({ name := n, version := v, sense := f } :: ·)
  | _, _, _ => none

/-- one category of a header: absent altogether = no relation; otherwise three columns of one length -/
def readRels (nameTag verTag flagTag : Nat) (hdr : List Entry) : Option (List Rel) :=
  match lookupTag nameTag hdr, lookupTag verTag hdr, lookupTag flagTag hdr with
  | none, none, none => some []
  | some _, some _, some _ =>
    match strsOf nameTag hdr, strsOf verTag hdr, u32sOf flagTag hdr with
    | some ns, some vs, some fs => zipRels ns vs fs
    | _, _, _ => none
  | _, _, _ => none

/-- the operator a sense value is written with -/
def opOf (sense : Nat) : Bytes :=
  if sense = 2 then [60] else if sense = 4 then [62] else if sense = 8 then [61]
  else if sense = 10 then [60, 61] else if sense = 12 then [62, 61] else []

/-- the canonical spelling `name op version` (bare name without a constraint) -/
def render (r : Rel) : Bytes :=
  if r.sense = 0 then r.name else r.name ++ [32] ++ opOf r.sense ++ [32] ++ r.version

end Nfpm.RpmRel
