import NfpmModel.Bytes
/-
  Signing model (C10): which bytes each packager hands to the signer and where the result is
  stored.  The cryptographic primitives are parameters:
    `sign : Bytes → Except Bytes Bytes`   (message ↦ signature, or the signer's own error)
    `hash : Bytes → Bytes`                (SHA-1 / MD5 …, only ever applied, never inspected)
  Anchors: deb.Package / doSign / debSign / dpkgSign / readDebsignData / readDpkgSigData,
  rpm.Package (SetPGPSigner) + rpmpack.writeSignatures, apk.Package / createSignature.
-/
namespace Nfpm
open B

inductive SignErr
  | signing (inner : Bytes)      -- *nfpm.ErrSigningFailure wrapping the signer's own error
  | invalidType                  -- ErrSigningFailure{ErrInvalidSignatureType}
deriving DecidableEq, Repr

abbrev Signer := Bytes → Except Bytes Bytes

structure ArMem where
  name : Bytes
  body : Bytes
deriving DecidableEq, Repr

structure DebParts where
  debianBinary : Bytes
  control : Bytes
  data : Bytes
  dataName : Bytes

/-- deb.readDebsignData: the message of a debsign signature -/
def debsignMessage (p : DebParts) : Bytes := p.debianBinary ++ p.control ++ p.data

def debBaseMembers (p : DebParts) : List ArMem :=
  [ ⟨b!"debian-binary", p.debianBinary⟩, ⟨b!"control.tar.gz", p.control⟩, ⟨p.dataName, p.data⟩ ]

def debSigType (t : Bytes) : Bytes := if t = [] then b!"origin" else t

def validDebSigType (t : Bytes) : Bool := t == b!"origin" || t == b!"maint" || t == b!"archive"

/-- deb.Package with debsign: members of the archive, or the signing failure -/
def debsignPackage (sign : Signer) (sigType : Bytes) (p : DebParts) : Except SignErr (List ArMem) :=
  if validDebSigType (debSigType sigType) = false then .error .invalidType
  else match sign (debsignMessage p) with
    | .error e => .error (.signing e)
    | .ok sig => .ok (debBaseMembers p ++ [⟨b!"_gpg" ++ debSigType sigType, sig⟩])

/-- one `Files:` line of the dpkg-sig manifest: digests and size of a stored member, under its stored name -/
structure SigLine where
  md5 : Bytes
  sha1 : Bytes
  size : Nat
  name : Bytes
deriving DecidableEq, Repr

def dpkgSigLines (md5 sha1 : Bytes → Bytes) (p : DebParts) : List SigLine :=
  (debBaseMembers p).map (fun m => ⟨md5 m.body, sha1 m.body, m.body.length, m.name⟩)

/-- deb.Package with dpkg-sig: `manifest` renders header and lines to the clear-signed text -/
def dpkgSigPackage (sign : Signer) (manifest : List SigLine → Bytes) (md5 sha1 : Bytes → Bytes)
    (sigType : Bytes) (p : DebParts) : Except SignErr (List ArMem) :=
  let t := if sigType = [] then b!"builder" else sigType
  match sign (manifest (dpkgSigLines md5 sha1 p)) with
  | .error e => .error (.signing e)
  | .ok sig => .ok (debBaseMembers p ++ [⟨b!"_gpg" ++ t, sig⟩])

/-- rpm: what follows the signature header in the file, and the two signed messages -/
structure RpmParts where
  lead : Bytes
  header : Bytes
  payload : Bytes

def rpmSignedMessages (p : RpmParts) : List Bytes := [p.header, p.header ++ p.payload]

/-- rpm.Package: file = lead ++ signature header (holding both signatures) ++ header ++ payload -/
def rpmPackage (sign : Signer) (sigHeader : List Bytes → Bytes) (p : RpmParts) : Except SignErr Bytes :=
  match sign p.header with
  | .error e => .error (.signing e)
  | .ok s1 =>
    match sign (p.header ++ p.payload) with
    | .error e => .error (.signing e)
    | .ok s2 => .ok (p.lead ++ sigHeader [s1, s2] ++ p.header ++ p.payload)

/-- apk: segments; the RSA signature is computed over the SHA-1 of the control segment as shipped -/
structure ApkParts where
  control : Bytes     -- compressed control segment, as shipped
  data : Bytes

def apkKeyName (keyName mailAddress : Bytes) : Option Bytes :=
  let n := if keyName = [] then mailAddress else keyName
  if n = [] then none
  else some (if hasSuffix n b!".rsa.pub" then n else n ++ b!".rsa.pub")

def apkPackage (sign : Signer) (sha1 : Bytes → Bytes) (sigSegment : Bytes → Bytes → Bytes)
    (keyName mail : Bytes) (p : ApkParts) : Except SignErr (List Bytes) :=
  match sign (sha1 p.control) with
  | .error e => .error (.signing e)
  | .ok sig =>
    match apkKeyName keyName mail with
    | none => .error (.signing b!"key name not set and maintainer mail address empty")
    | some n => .ok [sigSegment (b!".SIGN.RSA." ++ n) sig, p.control, p.data]

end Nfpm
