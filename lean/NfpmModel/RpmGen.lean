import NfpmModel.RpmFiles
import NfpmModel.RpmRel
import NfpmModel.RpmSig
/-
  The main header of an rpm as a whole (rpmpack RPM.Write: writeGenIndexes, writeFileIndexes when there are files,
  writeRelationIndexes, then the custom tags nfpm adds – the changelog): which entries there are, of which type, with
  which data, in ascending tag order (index.Bytes sorts by tag).

  `Gen` holds the resolved general values (what rpm.buildRPMMeta hands to rpmpack and what rpmpack derives): the string
  values are those of `Meta.rpmStringTags`, the scriptlets the bytes of the configured script files.
-/
namespace Nfpm.RpmGen
open Nfpm B RpmHdr RpmFiles RpmSig

structure Gen where
  name : Bytes
  version : Bytes
  release : Bytes
  epoch : Option Nat := none
  summary : Bytes
  description : Bytes
  buildHost : Bytes
  buildTime : Option Nat := none
  prefixes : List Bytes := []
  compressor : Bytes
  arch : Bytes
  os : Bytes
  vendor : Bytes := []
  licence : Bytes
  packager : Bytes := []
  group : Bytes := []
  url : Bytes := []
  /-- sum of the body lengths written into the cpio payload -/
  payloadSize : Nat
  /-- hex SHA-256 of the compressed payload -/
  payloadDigest : Bytes
  pretrans : Bytes := []
  prein : Bytes := []
  postin : Bytes := []
  preun : Bytes := []
  postun : Bytes := []
  posttrans : Bytes := []
  verify : Bytes := []
deriving Repr

def opt (tag : Nat) (v : Bytes) : List Entry := if v = [] then [] else [entStr tag v]

def optStrs (tag : Nat) (l : List Bytes) : List Entry := if l = [] then [] else [entStrs tag l]

def optI32 (tag : Nat) : Option Nat → List Entry
  | some n => [entI32 tag n]
  | none => []

def script (tag progTag : Nat) (body : Bytes) : List Entry :=
  if body = [] then [] else [entStr tag body, entStr progTag b!"/bin/sh"]

/-- FullVersion -/
def fullVersion (g : Gen) : Bytes := if g.release = [] then g.version else g.version ++ [45] ++ g.release

/-- writeGenIndexes (unsorted) -/
def genEntries (g : Gen) : List Entry :=
  [ entStr 100 b!"C", entI32 1009 g.payloadSize, entStr 1000 g.name, entStr 1001 g.version ]
  ++ optI32 1003 g.epoch
  ++ [ entStr 1004 g.summary, entStr 1005 g.description, entStr 1007 g.buildHost ]
  ++ optI32 1006 g.buildTime
  ++ optStrs 1098 g.prefixes
  ++ [ entStr 1002 g.release, entStr 1124 b!"cpio", entStr 1125 g.compressor, entStr 1126 b!"9", entStr 1022 g.arch,
       entStr 1021 g.os ]
  ++ opt 1011 g.vendor
  ++ [ entStr 1014 g.licence ]
  ++ opt 1015 g.packager ++ opt 1016 g.group ++ opt 1020 g.url
  ++ [ entStrs 5092 [g.payloadDigest], entI32 5093 8,
       entStr 1044 (g.name ++ [45] ++ fullVersion g ++ b!".src.rpm") ]
  ++ script 1151 1153 g.pretrans ++ script 1023 1085 g.prein ++ script 1024 1086 g.postin ++ script 1025 1087 g.preun
  ++ script 1026 1088 g.postun ++ script 1152 1154 g.posttrans ++ script 1079 1091 g.verify

/-- the changelog tags nfpm adds (only when the changelog has entries) -/
def changelogEntries (times : List Nat) (names texts : List Bytes) : List Entry :=
  if times = [] then [] else [entU32s 1080 times, entStrs 1081 names, entStrs 1082 texts]

/-- insertion into a tag-sorted list; a later entry with the same tag replaces the earlier one (map semantics of index.Add) -/
def insertTag (e : Entry) : List Entry → List Entry
  | [] => [e]
  | x :: rest => if e.tag < x.tag then e :: x :: rest else if e.tag = x.tag then e :: rest else x :: insertTag e rest

def sortTags (es : List Entry) : List Entry := es.foldl (fun acc e => insertTag e acc) []

/-- the whole main header: general entries, file entries (only when there are files), relation entries, custom tags -/
def mainHeader (g : Gen) (files : List RFile) (rels : RpmRel.Cats) (chTimes : List Nat) (chNames chTexts : List Bytes) : List Entry :=
  sortTags (genEntries g ++ (if files = [] then [] else fileEntries files) ++ RpmRel.entries rels
            ++ changelogEntries chTimes chNames chTexts)

end Nfpm.RpmGen
