import NfpmModel.Ar
/-
  Byte-level model of the tar streams deb and ipk write (archive/tar with Format: FormatGNU, as
  deb.tarHeader / newItemInsideTar and ipk's writers set it) for headers that need no extension:
  names and link names of at most 100 bytes, numeric fields that fit their octal width.

    block (512 bytes)  name[100] mode[8] uid[8] gid[8] size[12] mtime[12] chksum[8] typeflag[1] linkname[100]
                       magic[6] version[2] ("ustar " " \0" GNU, "ustar\0" "00" USTAR) uname[32] gname[32] devmajor[8] devminor[8] prefix[155] zeros[12]
    strings            copied, NUL-filled;  numbers: leading-zero octal, one digit less than the field, then NUL;
                       GNU only: a number too large for that is written big-endian binary with the top bit set
    chksum             sum of all 512 bytes with the chksum field read as 8 blanks: six octal digits, NUL, blank
    member             header block, body, zero padding to the next 512-byte boundary
    archive            members, then two zero blocks

  and an independent reader (C04: "a reader other than the writer accepts it"; C01: what it recovers).
-/
namespace Nfpm.Tar
open Nfpm B

def zeros (n : Nat) : Bytes := List.replicate n 0

/-- formatter.formatString into a zeroed field (the guard of the theorems keeps `s` within the field) -/
def strField (w : Nat) (s : Bytes) : Bytes := (s ++ zeros (w - s.length)).take w

/-- digits of `n` in base 8, exactly `k` of them (leading zeros) -/
def octFixed : Nat → Nat → Bytes
  | 0, _ => []
  | k + 1, n => octFixed k (n / 8) ++ [(48 + n % 8).toUInt8]

/-- formatter.formatOctal: `w - 1` octal digits with leading zeros, then NUL (guard: n < 8^(w-1)) -/
def octField (w : Nat) (n : Nat) : Bytes := octFixed (w - 1) n ++ [0]

/-- GNU (deb, ipk: Format: tar.FormatGNU) or USTAR (archlinux and apk members that need no PAX record) -/
inductive Flavor | gnu | ustar
deriving DecidableEq, Repr

def Flavor.magic : Flavor → Bytes
  | .gnu => b!"ustar "
  | .ustar => [117, 115, 116, 97, 114, 0]      -- "ustar\0"

def Flavor.version : Flavor → Bytes
  | .gnu => [32, 0]
  | .ustar => b!"00"

/-- digits of `n` in base 256, exactly `k` of them, most significant first -/
def beFixed : Nat → Nat → Bytes
  | 0, _ => []
  | k + 1, n => beFixed k (n / 256) ++ [(n % 256).toUInt8]

/-- formatter.formatNumeric, binary branch: the value big-endian over the whole field, the top bit of the first byte set -/
def binField (w n : Nat) : Bytes := ((n / 256 ^ (w - 1) % 256).toUInt8 ||| 128) :: beFixed (w - 1) n

/-- formatter.formatNumeric as templateV7Plus is given it: GNU headers fall back to the binary form when the value
    does not fit the octal digits (nfpm reaches this with Go's directory mode bit 2^31 on tree directories);
    USTAR and PAX headers only ever use octal -/
def numField (fl : Flavor) (w n : Nat) : Bytes :=
  if fl = .gnu ∧ 8 ^ (w - 1) ≤ n then binField w n else octField w n

structure Hdr where
  flavor : Flavor := .gnu
  name : Bytes
  mode : Nat := 0
  uid : Nat := 0
  gid : Nat := 0
  size : Nat := 0
  mtime : Nat := 0
  typeflag : UInt8 := 48
  linkname : Bytes := []
  uname : Bytes := []
  gname : Bytes := []
  /-- devmajor/devminor written as octal zero (templateV7Plus: every ordinary member) or left NUL
      (writeRawFile: the extension-record member that precedes a PAX member) -/
  dev : Bool := true
  /-- the USTAR prefix field (offset 345, 155 bytes): the directory part of a name that does not fit the name field;
      GNU headers keep this area NUL (nfpm sets no access or change time) -/
  pfx : Bytes := []
deriving DecidableEq, Repr

def devField (h : Hdr) : Bytes := if h.dev then octField 8 0 else zeros 8

/-- the sixteen fields of a header block, the checksum field given -/
def fields (h : Hdr) (chk : Bytes) : List Bytes :=
  [ strField 100 h.name, numField h.flavor 8 h.mode, numField h.flavor 8 h.uid, numField h.flavor 8 h.gid,
    numField h.flavor 12 h.size, numField h.flavor 12 h.mtime,
    chk, [h.typeflag], strField 100 h.linkname, h.flavor.magic, h.flavor.version, strField 32 h.uname, strField 32 h.gname,
    devField h, devField h, strField 155 h.pfx, zeros 12 ]

def byteSum (b : Bytes) : Nat := (b.map (·.toNat)).sum

/-- block.computeChecksum (unsigned) of the block with a blank checksum field -/
def checksumOf (h : Hdr) : Nat := byteSum (fields h (List.replicate 8 32)).flatten

/-- block.setFormat: six octal digits, NUL, blank -/
def chkField (h : Hdr) : Bytes := octFixed 6 (checksumOf h) ++ [0, 32]

def headerBlock (h : Hdr) : Bytes := (fields h (chkField h)).flatten

def blockPad (n : Nat) : Nat := (512 - n % 512) % 512

structure Member where
  hdr : Hdr
  body : Bytes
deriving DecidableEq, Repr

/-- one member as archive/tar writes it (the body of a header-only type is empty) -/
def member (m : Member) : Bytes := headerBlock m.hdr ++ m.body ++ zeros (blockPad m.body.length)

/-- the complete stream -/
def archive (ms : List Member) : Bytes := ms.flatMap member ++ zeros 1024

/-! ### an independent reader -/

/-- a NUL-terminated (or field-filling) string -/
def readStr (f : Bytes) : Bytes := f.takeWhile (· != 0)

def isOctDigit (c : UInt8) : Bool := 48 ≤ c && c ≤ 55

def octVal (s : Bytes) : Nat := s.foldl (fun a c => a * 8 + (c.toNat - 48)) 0

/-- an octal field: digits up to the first NUL or blank -/
def readOct (f : Bytes) : Option Nat :=
  let d := f.takeWhile (fun c => c != 0 && c != 32)
  if d = [] || !d.all isOctDigit then none else some (octVal d)

def beVal (s : Bytes) : Nat := s.foldl (fun a c => a * 256 + c.toNat) 0

/-- parser.parseNumeric: binary when the top bit of the first byte is set (negative values, bit 0x40, are refused
    here: nothing nfpm writes is negative), octal otherwise -/
def readNum (f : Bytes) : Option Nat :=
  match f with
  | c :: rest =>
    if c &&& 128 ≠ 0 then (if c &&& 64 ≠ 0 then none else some (beVal ((c &&& 127) :: rest)))
    else readOct f
  | [] => none

def slice (b : Bytes) (off len : Nat) : Bytes := (b.drop off).take len

/-- parse one 512-byte header block, verifying magic and checksum -/
def readHeader (blk : Bytes) : Option Hdr :=
  if blk.length ≠ 512 then none
  else if slice blk 257 6 ≠ Flavor.gnu.magic ∧ slice blk 257 6 ≠ Flavor.ustar.magic then none
  else
    let blank := blk.take 148 ++ List.replicate 8 32 ++ blk.drop 156
    match readOct (slice blk 148 8), readNum (slice blk 100 8), readNum (slice blk 108 8), readNum (slice blk 116 8),
          readNum (slice blk 124 12), readNum (slice blk 136 12) with
    | some chk, some mode, some uid, some gid, some size, some mtime =>
      if chk ≠ byteSum blank then none
      else some { flavor := if slice blk 257 6 = Flavor.gnu.magic then .gnu else .ustar,
                  name := readStr (slice blk 0 100), mode, uid, gid, size, mtime,
                  typeflag := (slice blk 156 1).headD 0, linkname := readStr (slice blk 157 100),
                  uname := readStr (slice blk 265 32), gname := readStr (slice blk 297 32),
                  dev := slice blk 329 8 != zeros 8, pfx := readStr (slice blk 345 155) }
    | _, _, _, _, _, _ => none

def isZeroBlock (b : Bytes) : Bool := b.all (· == 0)

/-- read members until the end-of-archive marker; `none` = malformed -/
def readMembers : Nat → Bytes → Option (List Member)
  | 0, _ => none
  | fuel + 1, s =>
    if s.length < 1024 then none
    else if isZeroBlock (s.take 1024) then (if isZeroBlock s then some [] else none)
    else match readHeader (s.take 512) with
      | none => none
      | some h =>
        let rest := s.drop 512
        let n := h.size + blockPad h.size
        if rest.length < n then none
        else match readMembers fuel (rest.drop n) with
          | none => none
          | some ms => some ({ hdr := h, body := rest.take h.size } :: ms)

def read (s : Bytes) : Option (List Member) := readMembers (s.length / 512 + 1) s

end Nfpm.Tar
