import NfpmModel.Path
/-
  Write-fault model (C06).  A packaging run issues a sequence of calls that may write to the
  destination (Write / Flush / Close of a layer that reaches it).  The destination fails from
  write index k on (sticky, as a full disk or a closed pipe does).  Each call's error result is
  either observed by the code (`checked`) or dropped; a `recorded` destination keeps the first
  error for a final check (deb's errRecorder).
-/
namespace Nfpm

inductive Sink | dest | mem
deriving DecidableEq, Repr

structure WStep where
  sink : Sink
  checked : Bool
deriving DecidableEq, Repr

/-- does the run return an error when the destination fails from write index `k` on?
    `i` counts destination writes already performed -/
def runFrom (k : Nat) : Nat → List WStep → Bool
  | _, [] => false
  | i, s :: rest =>
    match s.sink with
    | .mem => runFrom k i rest
    | .dest => if k ≤ i && s.checked then true else runFrom k (i + 1) rest

def run (prog : List WStep) (k : Nat) : Bool := runFrom k 0 prog

def destWrites (prog : List WStep) : Nat := (prog.filter (·.sink = .dest)).length

/-- a run whose destination records its first error and checks it at the end -/
def runRecorded (prog : List WStep) (k : Nat) : Bool := run prog k || decide (k < destWrites prog)

/-- `nfpm package`: what happens after Package returned -/
structure CliOutcome where
  exitNonZero : Bool
  causePrinted : Bool
  targetRemoved : Bool
deriving DecidableEq, Repr

/-- internal/cmd.doPackage after os.Create: on a Package error the target is removed and the
    error returned (main prints it and exits 1) -/
def cliAfterPackage (packageFailed : Bool) : CliOutcome :=
  if packageFailed then { exitNonZero := true, causePrinted := true, targetRemoved := true }
  else { exitNonZero := false, causePrinted := false, targetRemoved := false }

/-- cmd.doPackage: packager and target resolution.  `ext` is filepath.Ext(target) (with the dot),
    `conv` the conventional file name.  none = errInsufficientParams -/
def resolveTarget (target ext : Bytes) (targetIsDir : Bool) (packager conv : Bytes) : Option (Bytes × Bytes) :=
  let pk : Option Bytes :=
    if packager = [] then (if targetIsDir || ext = [] then none else some (ext.drop 1)) else some packager
  match pk with
  | none => none
  | some p =>
    let path := if target = [] then conv
                else if targetIsDir then Path.join2 target conv        -- path.Join(target, ConventionalFileName)
                else target
    some (p, path)

end Nfpm
