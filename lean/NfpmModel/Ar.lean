import NfpmModel.Bytes
/-
  Byte-level model of the ar container a .deb is (blakesmith/ar Writer, as deb.addArFile drives it)
  and an independent reader for it (C04: "deb is an ar archive of … in that order", C10: the
  signature covers the members as stored).

    global header  "!<arch>\n"
    member         60-byte header: name[16] mtime[12] uid[6] gid[6] mode[8] size[10] "`\n",
                   every field left-aligned and padded with blanks; the body; one '\n' when the
                   body length is odd
-/
namespace Nfpm.Ar
open Nfpm B

/-- digits of `n` in base 8, most significant first (fuel-bounded so that the kernel can evaluate it) -/
def octDigits : Nat → Nat → Bytes → Bytes
  | 0, _, acc => acc
  | fuel + 1, n, acc =>
    if n < 8 then (48 + n).toUInt8 :: acc else octDigits fuel (n / 8) ((48 + n % 8).toUInt8 :: acc)

def natToOct (n : Nat) : Bytes := octDigits (n + 1) n []

/-- blakesmith/ar `string`/`numeric`/`octal`: pad with blanks to the field width, `copy` truncates -/
def field (width : Nat) (s : Bytes) : Bytes := (s ++ List.replicate (width - s.length) space).take width

def globalHeader : Bytes := b!"!<arch>\n"

structure Member where
  name : Bytes
  body : Bytes
deriving DecidableEq, Repr

/-- ar.Writer.WriteHeader for the header deb.addArFile builds (Mode 0o644, Uid = Gid = 0, Size = len(body)) -/
def header (mtime : Int) (m : Member) : Bytes :=
  field 16 m.name ++ field 12 (intToDec mtime) ++ field 6 b!"0" ++ field 6 b!"0"
    ++ field 8 (b!"100" ++ natToOct 0o644) ++ field 10 (natToDec m.body.length) ++ b!"`\n"

/-- header, body, and the alignment byte ar.Writer.Write adds after an odd-sized body -/
def member (mtime : Int) (m : Member) : Bytes :=
  header mtime m ++ m.body ++ (if m.body.length % 2 = 1 then [nl] else [])

/-- the whole file deb.Package writes -/
def file (mtime : Int) (ms : List Member) : Bytes := globalHeader ++ ms.flatMap (member mtime)

/-! ### an independent reader -/

def isDigitB (c : UInt8) : Bool := 48 ≤ c && c ≤ 57

/-- decimal value of a digit string -/
def decVal (s : Bytes) : Nat := s.foldl (fun a c => a * 10 + (c.toNat - 48)) 0

/-- a blank-padded decimal field -/
def readDec (f : Bytes) : Option Nat :=
  let t := trimRight space f
  if t = [] || !t.all isDigitB then none else some (decVal t)

/-- read members until the input is exhausted; `none` = malformed -/
def readMembers : Nat → Bytes → Option (List Member)
  | 0, _ => none
  | fuel + 1, s =>
    if s = [] then some []
    else if s.length < 60 then none
    else
      let h := s.take 60
      if h.drop 58 ≠ b!"`\n" then none
      else match readDec ((h.drop 48).take 10) with
        | none => none
        | some size =>
          let rest := s.drop 60
          if rest.length < size then none
          else
            let body := rest.take size
            let after := rest.drop size
            let after := if size % 2 = 1 then (if after.head? = some nl then some (after.drop 1) else none) else some after
            match after with
            | none => none
            | some a =>
              match readMembers fuel a with
              | none => none
              | some ms => some ({ name := trimRight space (h.take 16), body := body } :: ms)

/-- read a whole ar file -/
def read (s : Bytes) : Option (List Member) :=
  if s.take 8 ≠ globalHeader then none else readMembers (s.length + 1) (s.drop 8)

end Nfpm.Ar
