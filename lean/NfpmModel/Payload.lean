import NfpmModel.Contents
/-
  Model of the five payload writers: which archive member each prepared entry
  becomes (name, type, mode, owner, group, mtime, size, link target, body source).
    deb   deb.createFilesInsideDataTar / tarHeader / copyToTarAndDigest
    ipk   ipk.populateDataTar / writeFile
    apk   apk.createFilesInsideTarGz / copyToTarAndDigest / newItemInsideTarGz
    arch  arch.createFilesInTar
    rpm   rpm.createFilesInsideRPM / asRPM* and rpmpack.AddFile / writeFile
  The bytes of a regular file are referred to by their source path (`src`); the
  harness compares them with the source file itself.
-/
namespace Nfpm
open B Path

inductive Fmt | deb | rpm | apk | ipk | arch
deriving DecidableEq, Repr

def Fmt.packager : Fmt → Bytes
  | .deb => P.deb | .rpm => P.rpm | .apk => P.apk | .ipk => P.ipk | .arch => P.arch

/-- tar type flags -/
def tReg : UInt8 := 48
def tSym : UInt8 := 50
def tDir : UInt8 := 53

structure Member where
  name : Bytes
  kind : UInt8
  mode : Nat
  uname : Bytes := []
  gname : Bytes := []
  mtime : Int := zeroTime
  size : Nat := 0
  link : Bytes := []
  src : Bytes := []      -- source file whose bytes are the body
  flags : Nat := 0       -- rpm FILEFLAGS
  inPayload : Bool := true   -- rpm: ghost files are listed but have no cpio entry
deriving DecidableEq, Repr

/-- modtime.Get: first non-zero time, else the clock -/
def mtimeGet (now : Int) : List Int → Int
  | [] => now
  | t :: rest => if isZeroT t then mtimeGet now rest else t

def cinfo (c : Content) : FileInfo := c.info.getD {}

-- Go io/fs.FileMode bits
def modeDirBit : Nat := 2 ^ 31
def modeSymlinkBit : Nat := 2 ^ 27
def modeSetuidBit : Nat := 2 ^ 23
def modeSetgidBit : Nat := 2 ^ 22
def modeStickyBit : Nat := 2 ^ 20

def hasBit (m b : Nat) : Bool := m &&& b != 0

/-- deb.tarHeader: the Mode field -/
def debMode (fm : Nat) : Nat :=
  (fm &&& 0o7777) ||| (if hasBit fm modeSetuidBit then 0o4000 else 0)
    ||| (if hasBit fm modeSetgidBit then 0o2000 else 0)
    ||| (if hasBit fm modeStickyBit then 0o1000 else 0)

/-- deb.tarHeader (device/pipe/socket modes never arise from prepared contents
    whose sources are regular files, directories or symlinks) -/
def debHeader (now : Int) (pref : List Int) (c : Content) : Member :=
  let fi := cinfo c
  let mt := mtimeGet now (pref ++ [fi.mtime])
  -- the declared type first: a symlink entry's file info may carry the directory bit of whatever its target is on
  -- the build host (fix 37116f4; before it the directory test came first)
  if c.type = T.symlink || hasBit fi.mode modeSymlinkBit then
    { name := asExplicitRel c.dst, kind := tSym, mode := debMode fi.mode, uname := fi.owner, gname := fi.group, mtime := mt,
      link := c.src }
  else if isDirType c.type || hasBit fi.mode modeDirBit then
    { name := asExplicitRel c.dst, kind := tDir, mode := debMode fi.mode, uname := fi.owner, gname := fi.group, mtime := mt }
  else
    { name := asExplicitRel c.dst, kind := tReg, mode := debMode fi.mode, uname := fi.owner, gname := fi.group, mtime := mt,
      size := fi.size, src := c.src }

/-- one iteration of deb.createFilesInsideDataTar (the changelog entry is produced separately) -/
def debMember1 (now infoMtime : Int) (c : Content) : Option Member :=
  if c.type = T.ghost then none
  else if isDirType c.type then some (debHeader now [infoMtime] c)
  else if c.type = T.symlink then some (debHeader now [infoMtime] c)
  else if c.type = T.debChangelog then none
  else some (debHeader now [] c)

def debMembers (now infoMtime : Int) (plan : List Content) : List Member :=
  plan.filterMap (debMember1 now infoMtime)

/-- one iteration of ipk.populateDataTar -/
def ipkMember1 (now infoMtime : Int) (c : Content) : Option Member :=
    let fi := cinfo c
    if isDirType c.type then
      some { name := asExplicitRel c.dst, kind := tDir, mode := fi.mode, uname := fi.owner, gname := fi.group,
             mtime := mtimeGet now [infoMtime] }
    else if c.type = T.symlink then
      some { name := asExplicitRel c.dst, kind := tSym, mode := 0, mtime := mtimeGet now [infoMtime], link := c.src }
    else if c.type = T.file || c.type = T.tree || c.type = T.config || c.type = T.configNoReplace
            || c.type = T.configMissingOk then
      some { name := asExplicitRel c.dst, kind := tReg, mode := fi.mode, uname := fi.owner, gname := fi.group,
             mtime := fi.mtime, size := fi.size, src := c.src }
    else none

def ipkMembers (now infoMtime : Int) (plan : List Content) : List Member :=
  plan.filterMap (ipkMember1 now infoMtime)

/-- one iteration of apk.createFilesInsideTarGz (Destination is first rewritten with AsRelativePath) -/
def apkMember1 (c : Content) : Member :=
    let fi := cinfo c
    let d := asRel c.dst
    if isDirType c.type then
      { name := d, kind := tDir, mode := fi.mode, uname := fi.owner, gname := fi.group, mtime := fi.mtime }
    else if c.type = T.symlink then
      { name := d, kind := tSym, mode := 0, mtime := fi.mtime, link := c.src }
    else
      { name := asRel d, kind := tReg, mode := fi.mode, uname := fi.owner, gname := fi.group, mtime := fi.mtime,
        size := fi.size, src := c.src }

def apkMembers (plan : List Content) : List Member := plan.map apkMember1

/-- one iteration of arch.createFilesInTar (Destination is first rewritten with AsRelativePath) -/
def archMember1 (c : Content) : Member :=
    let fi := cinfo c
    let d := asRel c.dst
    if isDirType c.type then
      { name := d, kind := tDir, mode := fi.mode, uname := fi.owner, gname := fi.group, mtime := fi.mtime }
    else if c.type = T.symlink then
      { name := d, kind := tSym, mode := 0, mtime := fi.mtime, link := c.src }
    else
      { name := d, kind := tReg, mode := fi.mode, uname := fi.owner, gname := fi.group, mtime := fi.mtime,
        size := fi.size, src := c.src }

def archMembers (plan : List Content) : List Member := plan.map archMember1

-- rpmpack.FileType flags (values regenerated: Generated.G3 rpmFlagValues)
def fConfig : Nat := 1
def fDoc : Nat := 2
def fMissingOk : Nat := 8
def fNoReplace : Nat := 16
def fGhost : Nat := 64
def fLicence : Nat := 128
def fReadme : Nat := 256

/-- rpm FILEFLAGS per content type (rpm.createFilesInsideRPM) -/
def rpmFlags (t : Bytes) : Nat :=
  if t = T.config then fConfig
  else if t = T.configNoReplace then fConfig ||| fNoReplace
  else if t = T.configMissingOk then fConfig ||| fMissingOk
  else if t = T.ghost then fGhost
  else if t = T.doc then fDoc
  else if t = T.licence || t = T.license then fLicence
  else if t = T.readme then fReadme
  else 0

def u16 (n : Nat) : Nat := n % 65536
def u32 (n : Int) : Nat := (n % 4294967296).toNat

/-- rpm.createFilesInsideRPM + rpmpack.AddFile/writeFile for one entry (none = not added) -/
def rpmMember (now infoMtime : Int) (c : Content) : Option Member :=
  let fi := cinfo c
  let name := toNix c.dst
  if c.packager ≠ [] && c.packager ≠ P.rpm then none
  else if c.type = T.implicitDir then none
  else if name = slashS then none
  else if c.type = T.symlink then
    some { name, kind := tSym, mode := u16 0o120000, uname := fi.owner, gname := fi.group, mtime := u32 fi.mtime,
           size := c.src.length, link := c.src }
  else if c.type = T.dir then
    some { name, kind := tDir, mode := u16 (fi.mode ||| 0o40000), uname := fi.owner, gname := fi.group,
           mtime := u32 (mtimeGet now [infoMtime]), size := 4096 }
  else
    let mode := if c.type = T.ghost && fi.mode == 0 then 0o644 else fi.mode
    -- rpmpack.writeFile classifies by mode bits
    if mode &&& 0o40000 != 0 then
      some { name, kind := tDir, mode := u16 mode, uname := fi.owner, gname := fi.group, mtime := u32 fi.mtime,
             size := 4096, flags := rpmFlags c.type, inPayload := c.type ≠ T.ghost }
    else if mode &&& 0o120000 == 0o120000 then
      some { name, kind := tSym, mode := u16 mode, uname := fi.owner, gname := fi.group, mtime := u32 fi.mtime,
             flags := rpmFlags c.type, src := c.src, inPayload := c.type ≠ T.ghost }
    else
      some { name, kind := tReg, mode := u16 (mode ||| 0o100000), uname := fi.owner, gname := fi.group,
             mtime := u32 fi.mtime, size := fi.size, src := c.src, flags := rpmFlags c.type,
             inPayload := c.type ≠ T.ghost }

/-- rpm file list: rpmpack keeps a map by name and writes it in sorted name order -/
def rpmMembers (now infoMtime : Int) (plan : List Content) : List Member :=
  (plan.filterMap (rpmMember now infoMtime)).mergeSort (fun a b => leB a.name b.name)

/-- archive/tar stores Go's zero time as mtime 0 -/
def tarTime (t : Int) : Int := if isZeroT t then 0 else t

def tarTimes (ms : List Member) : List Member := ms.map (fun m => { m with mtime := tarTime m.mtime })

def members (f : Fmt) (now infoMtime : Int) (plan : List Content) : List Member :=
  match f with
  | .deb => tarTimes (debMembers now infoMtime plan)
  | .ipk => tarTimes (ipkMembers now infoMtime plan)
  | .apk => tarTimes (apkMembers plan)
  | .arch => tarTimes (archMembers plan)
  | .rpm => rpmMembers now infoMtime plan

/-! ### conffiles / backup (C08) -/

def isConfigType (t : Bytes) : Bool := t == T.config || t == T.configNoReplace || t == T.configMissingOk

/-- deb.conffiles / ipk.conffiles -/
def conffiles (plan : List Content) : Bytes :=
  joinWith nl ((plan.filter (fun c => isConfigType c.type)).map (fun c => normFile c.dst)) ++ [nl]

/-- arch.createPkginfo backup lines (after Destination was made relative) -/
def archBackup (plan : List Content) : List Bytes :=
  (plan.filter (fun c => isConfigType c.type)).map (fun c => asRel (asRel c.dst))

end Nfpm
