/-
  Ownership / interleaving model (C11, C12).  Memory is a store of locations that are either
  `shared` (reachable from the parsed Config: its slices, maps, *Content, *ContentFileInfo, the
  packager registry …) or `own t` (allocated by operation / goroutine `t`: the Info returned by
  Config.Get, the prepared copies of the contents, buffers, writers).  An operation is `Local`
  when it writes only its own locations and reads only shared ones and its own.
-/
namespace Nfpm

inductive Loc
  | shared (n : Nat)
  | own (t : Nat) (n : Nat)
deriving DecidableEq, Repr

abbrev Store := Loc → Int

def Loc.visibleTo (t : Nat) : Loc → Bool
  | .shared _ => true
  | .own t' _ => t' == t

def Loc.isShared : Loc → Bool
  | .shared _ => true
  | .own _ _ => false

/-- one operation (validate, file-name(f), package(f)) of thread / operation id `tid`:
    a store transformer plus its observable output (e.g. the package bytes) -/
structure Op where
  tid : Nat
  step : Store → Store
  out : Store → Int

/-- writes only own locations; behaviour depends only on shared and own locations -/
structure Local (o : Op) : Prop where
  writesOwn : ∀ (s : Store) (l : Loc), l.visibleTo o.tid = false ∨ l.isShared = true → o.step s l = s l
  readsVisible : ∀ (s s' : Store), (∀ l, l.visibleTo o.tid = true → s l = s' l) →
    o.out s = o.out s' ∧ ∀ l, l.visibleTo o.tid = true → o.step s l = o.step s' l

/-- run a sequence: final store and the outputs in order -/
def runOps : List Op → Store → Store × List Int
  | [], s => (s, [])
  | o :: rest, s =>
    let r := runOps rest (o.step s)
    (r.1, o.out s :: r.2)

/-- interleavings of two threads' operation sequences -/
inductive Interleave : List Op → List Op → List Op → Prop
  | nil : Interleave [] [] []
  | left (a : Op) {as bs cs : List Op} : Interleave as bs cs → Interleave (a :: as) bs (a :: cs)
  | right (b : Op) {as bs cs : List Op} : Interleave as bs cs → Interleave as (b :: bs) (b :: cs)

/-- outputs of the operations of thread `t` in a run, in order -/
def outputsOf (t : Nat) : List Op → Store → List Int
  | [], _ => []
  | o :: rest, s => (if o.tid = t then [o.out s] else []) ++ outputsOf t rest (o.step s)

def finalStore : List Op → Store → Store
  | [], s => s
  | o :: rest, s => finalStore rest (o.step s)

end Nfpm
