import NfpmModel.Payload
import NfpmModel.Scripts
/-
  Container-level model of the five package files (C04, and the regions C03's digests cover).

    apk   writeTgz: tar.Writer -> bufio.Writer(4096) -> byte counter -> gzip -> MultiWriter(digest, out)
          cut segments (signature, control) lose exactly the end-of-archive marker; the data
          segment is a complete tar; segments are concatenated signature?, control, data.
    deb   ar members debian-binary, control.tar.gz, data.tar<ext>, optional _gpg<type>
    ipk   gzip tar of ./debian-binary ./control.tar.gz ./data.tar.gz
    arch  zstd tar: payload, .PKGINFO, .MTREE, .INSTALL iff scripts
    rpm   header file list = cpio entries (ghosts excepted), sorted by name

  Compressors and the tar/ar/cpio encoders are parameters (library code, decoded by the harness).
-/
namespace Nfpm.Arc
open Nfpm B Path

def zeros (n : Nat) : Bytes := List.replicate n 0

/-! ### bufio.Writer -/

/-- a bufio.Writer: `out` has reached the underlying writer, `buf` is pending -/
structure BufW where
  out : Bytes := []
  buf : Bytes := []
deriving DecidableEq, Repr

/-- bufio.Writer.Write for a buffer of `cap` bytes (transcription of the loop: fill-and-flush once,
    then write directly when the rest is larger than the buffer) -/
def BufW.write (cap : Nat) (w : BufW) (p : Bytes) : BufW :=
  if p.length ≤ cap - w.buf.length then { w with buf := w.buf ++ p }
  else if w.buf = [] then { out := w.out ++ p, buf := [] }
  else
    let k := cap - w.buf.length
    let out' := w.out ++ w.buf ++ p.take k
    let rest := p.drop k
    if rest.length > cap then { out := out' ++ rest, buf := [] } else { out := out', buf := rest }

def BufW.flush (w : BufW) : BufW := { out := w.out ++ w.buf, buf := [] }

/-! ### apk.writeTgz -/

inductive TarKind | full | cut
deriving DecidableEq, Repr

/-- the statements of writeTgz after the builder ran (regenerated: Generated.G8 `apkTgzOps`) -/
inductive TgzOp
  | flushBuf            -- bw.Flush()
  | closeTar            -- tw.Close(): owed padding, then two zero blocks
  | flushBufIfFull      -- if kind == tarFull { bw.Flush() }
  | alignPad (n : Nat)  -- size := cw.Count(); write (align_n size - size) zeros to cw
  | closeGz             -- gw.Close()
  | other (s : Bytes)   -- anything the translator does not recognise
deriving DecidableEq, Repr

structure TgzSt where
  bw : BufW      -- `bw.out` is what reached the counter, i.e. what gzip compresses
  pad : Nat      -- padding the tar writer still owes for its last member
deriving DecidableEq, Repr

def tgzStep (cap : Nat) (kind : TarKind) (s : TgzSt) : TgzOp → TgzSt
  | .flushBuf => { s with bw := s.bw.flush }
  | .closeTar =>
    { bw := ((s.bw.write cap (zeros s.pad)).write cap (zeros 512)).write cap (zeros 512), pad := 0 }
  | .flushBufIfFull => if kind = .full then { s with bw := s.bw.flush } else s
  | .alignPad n =>
    let size := s.bw.out.length
    { s with bw := { s.bw with out := s.bw.out ++ zeros ((size + (n - 1)) / n * n - size) } }
  | .closeGz => s
  | .other _ => s

/-- the uncompressed stream of one segment: the builder's writes `ws` go through the buffer, then
    the statement skeleton runs -/
def tgzStream (cap : Nat) (ops : List TgzOp) (kind : TarKind) (ws : List Bytes) (pad : Nat) : Bytes :=
  (ops.foldl (tgzStep cap kind) { bw := ws.foldl (BufW.write cap) {}, pad := pad }).bw.out

/-- the skeleton as reviewed (compared with the regenerated one in Props/C04) -/
def reviewedTgzOps : List TgzOp := [.flushBuf, .closeTar, .flushBufIfFull, .alignPad 512, .closeGz]
def reviewedBufCap : Nat := 4096

/-- a whole apk: optional signature segment, control segment, data segment, each compressed on its own -/
def apkFile (gz : Bytes → Bytes) (sig : Option Bytes) (control data : Bytes) : Bytes :=
  (match sig with | some s => gz s | none => []) ++ gz control ++ gz data

/-! ### archive/tar.Writer at block level -/

/-- padding a body of `n` bytes needs to reach the next 512-byte boundary -/
def blockPad (n : Nat) : Nat := (512 - n % 512) % 512

/-- the writer's state: the writes it has issued to the underlying writer so far, and the padding it
    still owes for the last member (written lazily by the next WriteHeader, Flush or Close) -/
structure TarW where
  writes : List Bytes := []
  pad : Nat := 0
deriving Repr

/-- WriteHeader(hdr) followed by the complete body: owed padding first, then the header block(s)
    (PAX/GNU extension headers included: always a whole number of blocks), then the data -/
def TarW.member (t : TarW) (m : Bytes × Bytes) : TarW :=
  { writes := t.writes ++ [zeros t.pad, m.1, m.2], pad := blockPad m.2.length }

/-- the builder of a segment writes a list of members (header blocks, body) -/
def tarBuild (ms : List (Bytes × Bytes)) : TarW := ms.foldl TarW.member {}

/-- the complete tar stream of these members: bodies padded, end-of-archive marker appended -/
def tarStream (ms : List (Bytes × Bytes)) : Bytes :=
  (ms.flatMap (fun m => m.1 ++ m.2 ++ zeros (blockPad m.2.length))) ++ zeros 1024

/-! ### member lists -/

def debDataName (compression : Bytes) : Option Bytes :=
  if compression = b!"gzip" || compression = [] then some b!"data.tar.gz"
  else if compression = b!"xz" then some b!"data.tar.xz"
  else if compression = b!"zstd" then some b!"data.tar.zst"
  else if compression = b!"none" then some b!"data.tar"
  else none

def debArNames (compression : Bytes) (sigType : Option Bytes) : Option (List Bytes) :=
  (debDataName compression).map fun d =>
    [b!"debian-binary", b!"control.tar.gz", d] ++ (match sigType with | some t => [b!"_gpg" ++ t] | none => [])

def ipkOuterNames : List Bytes := [b!"./debian-binary", b!"./control.tar.gz", b!"./data.tar.gz"]

def archNames (payload : List Bytes) (hasScripts : Bool) : List Bytes :=
  payload ++ [b!".PKGINFO", b!".MTREE"] ++ (if hasScripts then [b!".INSTALL"] else [])

/-- names of the data tar members of a tar-based format -/
def tarNames (f : Fmt) (now imt : Int) (plan : List Content) : List Bytes :=
  (members f now imt plan).map (·.name)

/-! ### name safety, stated on a list of member names -/

def compsOf (n : Bytes) : List Bytes := (splitOn slash n).filter (· ≠ [])

def isRelative (n : Bytes) : Bool := !hasPrefix n slashS
def noDotDot (n : Bytes) : Bool := !(compsOf n).contains dotdotS
def dotSlashPrefixed (n : Bytes) : Bool := hasPrefix n b!"./"

/-- parent name of a member name: everything up to the last slash that is not the trailing one -/
def parentName (n : Bytes) : Bytes :=
  let t := if hasSuffix n slashS then n.dropLast else n
  uptoLastSlash t

/-- every member's parent directory (when it has one below the archive root) occurs earlier -/
def parentsFirst (root : Bytes) : List Bytes → List Bytes → Bool
  | _, [] => true
  | seen, n :: rest =>
    (parentName n == root || parentName n == [] || seen.contains (parentName n)) && parentsFirst root (n :: seen) rest

end Nfpm.Arc
