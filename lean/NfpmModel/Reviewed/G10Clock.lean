-- REVIEWED copy of Generated/G10Clock.lean (bin/mkreviewed): what the model was written against.
import NfpmModel.Bytes
namespace Nfpm.Reviewed
open Nfpm
/-- every reference to the clock, the host name, the environment or randomness in the packaging code -/
def clockSites : List (Bytes × Bytes × Bytes) := [
  (b!"internal/modtime/mtime.go", b!"FromEnv", b!"os.Getenv"),
  (b!"internal/modtime/mtime.go", b!"Get", b!"time.Now"),
  (b!"rpm/rpm.go", b!"buildRPMMeta", b!"os.Hostname")]
/-- every call of the clock gate internal/modtime with its arguments -/
def modtimeCalls : List (Bytes × Bytes × Bytes) := [
  (b!"arch/arch.go", b!"Package", b!"modtime.Get(info.MTime)"),
  (b!"arch/arch.go", b!"createPkginfo", b!"modtime.Get(info.MTime)"),
  (b!"arch/arch.go", b!"createPkginfo", b!"modtime.Get(info.MTime)"),
  (b!"arch/arch.go", b!"createScripts", b!"modtime.Get(info.MTime)"),
  (b!"deb/deb.go", b!"Package", b!"modtime.Get(info.MTime)"),
  (b!"deb/deb.go", b!"createChangelogInsideDataTar", b!"modtime.Get(info.MTime)"),
  (b!"deb/deb.go", b!"createControl", b!"modtime.Get(info.MTime)"),
  (b!"deb/deb.go", b!"readDpkgSigData", b!"modtime.Get(info.MTime)"),
  (b!"deb/deb.go", b!"tarHeader", b!"modtime.Get(append(preferredModTimes, content.ModTime()))"),
  (b!"ipk/ipk.go", b!"createIPK", b!"modtime.Get(info.MTime)"),
  (b!"ipk/ipk.go", b!"populateControlTar", b!"modtime.Get(info.MTime)"),
  (b!"ipk/ipk.go", b!"populateDataTar", b!"modtime.Get(info.MTime)"),
  (b!"ipk/ipk.go", b!"populateDataTar", b!"modtime.Get(info.MTime)"),
  (b!"nfpm.go", b!"WithDefaults", b!"modtime.FromEnv()"),
  (b!"rpm/rpm.go", b!"buildRPMMeta", b!"modtime.Get(info.MTime)"),
  (b!"rpm/rpm.go", b!"createFilesInsideRPM", b!"modtime.Get(info.MTime)")]
end Nfpm.Reviewed
