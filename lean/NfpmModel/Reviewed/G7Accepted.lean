-- REVIEWED copy of Generated/G7Accepted.lean (bin/mkreviewed): what the model was written against.
import NfpmModel.Bytes
namespace Nfpm.Reviewed
open Nfpm
def accepted_deb_compression : List Bytes := [b!"", b!"gzip", b!"xz", b!"zstd", b!"none"]
/-- the method values that do not behave like the default (debsign) -/
def accepted_deb_signature_method_cases : List Bytes := [b!"dpkg-sig"]
def accepted_deb_signature_type : List Bytes := [b!"origin", b!"maint", b!"archive"]
def accepted_version_schema : List Bytes := [b!"none", b!"semver"]
def accepted_rpm_compression_algorithms : List Bytes := [b!"", b!"gzip", b!"lzma", b!"xz", b!"zstd"]
end Nfpm.Reviewed
