-- REVIEWED copy of Generated/G4Expand.lean (bin/mkreviewed): what the model was written against.
import NfpmModel.Bytes
namespace Nfpm.Reviewed
open Nfpm
-- tabulated by running nfpm.ParseWithEnvMapping on a document in which every string leaf is a reference
def expandedScalars : List Bytes := [b!"apk.signature.key_file", b!"apk.signature.key_id", b!"arch", b!"deb.fields.{}", b!"deb.signature.key_file", b!"deb.signature.key_id", b!"description", b!"homepage", b!"ipk.fields.{}", b!"maintainer", b!"name", b!"platform", b!"prerelease", b!"release", b!"rpm.packager", b!"rpm.signature.key_file", b!"rpm.signature.key_id", b!"vendor", b!"version"]
def expandedSlices : List Bytes := [b!"conflicts", b!"deb.predepends", b!"depends", b!"ipk.predepends", b!"overrides.{}.conflicts", b!"overrides.{}.depends", b!"overrides.{}.provides", b!"overrides.{}.recommends", b!"overrides.{}.replaces", b!"overrides.{}.suggests", b!"provides", b!"recommends", b!"replaces", b!"suggests"]
def expandedContents : List Bytes := [b!"contents", b!"overrides.{}.contents"]
def expandLiterals : List Bytes := [b!"$NFPM_PASSPHRASE", b!"$NFPM_DEB_PASSPHRASE", b!"$NFPM_RPM_PASSPHRASE", b!"$NFPM_APK_PASSPHRASE"]
def documentedExpandable : List Bytes := [b!"apk.signature.key_file", b!"arch", b!"conflicts", b!"deb.fields", b!"deb.signature.key_file", b!"deb.signature.key_id", b!"depends", b!"description", b!"homepage", b!"maintainer", b!"platform", b!"provides", b!"recommends", b!"release", b!"replaces", b!"rpm.packager", b!"rpm.signature.key_file", b!"rpm.signature.key_id", b!"suggests", b!"vendor", b!"version"]
end Nfpm.Reviewed
