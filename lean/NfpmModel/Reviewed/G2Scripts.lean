-- REVIEWED copy of Generated/G2Scripts.lean (bin/mkreviewed): what the model was written against.
import NfpmModel.Bytes
namespace Nfpm.Reviewed
open Nfpm
-- tabulated by execution: for every format and every script selector (found by reflection) alone, a package is
-- built with a marker script and decoded; the row says which slot held the marker, and with what mode
def scripts_deb : List (Bytes × Bytes × Nat) := [(b!"config", b!"Deb.Scripts.Config", 0o755), (b!"postinst", b!"Scripts.PostInstall", 0o755), (b!"postrm", b!"Scripts.PostRemove", 0o755), (b!"preinst", b!"Scripts.PreInstall", 0o755), (b!"prerm", b!"Scripts.PreRemove", 0o755), (b!"rules", b!"Deb.Scripts.Rules", 0o755), (b!"templates", b!"Deb.Scripts.Templates", 0o644)]
def scripts_apk : List (Bytes × Bytes × Nat) := [(b!".post-deinstall", b!"Scripts.PostRemove", 0o755), (b!".post-install", b!"Scripts.PostInstall", 0o755), (b!".post-upgrade", b!"APK.Scripts.PostUpgrade", 0o755), (b!".pre-deinstall", b!"Scripts.PreRemove", 0o755), (b!".pre-install", b!"Scripts.PreInstall", 0o755), (b!".pre-upgrade", b!"APK.Scripts.PreUpgrade", 0o755)]
def scripts_arch : List (Bytes × Bytes × Nat) := [(b!"post_install", b!"Scripts.PostInstall", 0), (b!"post_remove", b!"Scripts.PostRemove", 0), (b!"post_upgrade", b!"ArchLinux.Scripts.PostUpgrade", 0), (b!"pre_install", b!"Scripts.PreInstall", 0), (b!"pre_remove", b!"Scripts.PreRemove", 0), (b!"pre_upgrade", b!"ArchLinux.Scripts.PreUpgrade", 0)]
def scripts_ipk : List (Bytes × Bytes × Nat) := [(b!"postinst", b!"Scripts.PostInstall", 0o755), (b!"postrm", b!"Scripts.PostRemove", 0o755), (b!"preinst", b!"Scripts.PreInstall", 0o755), (b!"prerm", b!"Scripts.PreRemove", 0o755)]
def scripts_rpm : List (Bytes × Bytes × Nat) := [(b!"AddPostin", b!"Scripts.PostInstall", 0), (b!"AddPosttrans", b!"RPM.Scripts.PostTrans", 0), (b!"AddPostun", b!"Scripts.PostRemove", 0), (b!"AddPrein", b!"Scripts.PreInstall", 0), (b!"AddPretrans", b!"RPM.Scripts.PreTrans", 0), (b!"AddPreun", b!"Scripts.PreRemove", 0), (b!"AddVerifyScript", b!"RPM.Scripts.Verify", 0)]
end Nfpm.Reviewed
