-- REVIEWED copy of Generated/G9Dropped.lean (bin/mkreviewed): what the model was written against.
import NfpmModel.Bytes
namespace Nfpm.Reviewed
open Nfpm
/-- every call in the packaging code whose error result is dropped: (package, enclosing function, what is called) -/
def droppedErrors : List (Bytes × Bytes × Bytes) := [
  (b!"arch", b!"createFilesInTar", b!"defer (*os.File).Close("),
  (b!"arch", b!"createMtree", b!"(*github.com/klauspost/pgzip.Writer).Close("),
  (b!"arch", b!"createMtree", b!"defer (*github.com/klauspost/pgzip.Writer).Close("),
  (b!"arch", b!"writeScripts", b!"_ = (*os.File).Close("),
  (b!"arch", b!"writeScripts", b!"defer (*os.File).Close("),
  (b!"arch", b!"writeScripts", b!"fmt.Fprintf("),
  (b!"deb", b!"copyToTarAndDigest", b!"defer (*os.File).Close("),
  (b!"deb", b!"createChangelogInsideDataTar", b!"defer (*compress/gzip.Writer).Close("),
  (b!"deb", b!"createControl", b!"defer (*archive/tar.Writer).Close("),
  (b!"deb", b!"createControl", b!"defer (*compress/gzip.Writer).Close("),
  (b!"deb", b!"createDataTarball", b!"defer (io.Closer).Close("),
  (b!"deb", b!"fillDataTar", b!"defer (*archive/tar.Writer).Close("),
  (b!"deb", b!"readDpkgSigData", b!"v, _ := (*text/template.Template).Parse("),
  (b!"internal/cmd", b!"doPackage", b!"defer (*os.File).Close("),
  (b!"internal/cmd", b!"doPackage", b!"os.Remove("),
  (b!"ipk", b!"newTGZ", b!"defer (*archive/tar.Writer).Close("),
  (b!"ipk", b!"newTGZ", b!"defer (*compress/gzip.Writer).Close("),
  (b!"ipk", b!"writeFile", b!"defer (*os.File).Close("),
  (b!"nfpm", b!"ParseFileWithEnvMapping", b!"defer (*os.File).Close(")
]
end Nfpm.Reviewed
