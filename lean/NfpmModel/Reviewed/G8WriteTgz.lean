-- REVIEWED copy of Generated/G8WriteTgz.lean (bin/mkreviewed): what the model was written against.
import NfpmModel.Archive
namespace Nfpm.Reviewed
open Nfpm Nfpm.Arc
/-- statement skeleton of apk/apk.go writeTgz -/
def skel_apk_apk_writeTgz : List Bytes := [
  b!"mw:=io.MultiWriter(digest,w)",
  b!"gw:=gzip.NewWriter(mw)",
  b!"cw:=newWriterCounter(gw)",
  b!"bw:=bufio.NewWriterSize(cw,4096)",
  b!"tw:=tar.NewWriter(bw)",
  b!"builder(tw)",
  b!"bw.Flush()",
  b!"tw.Close()",
  b!"if kind==tarFull{",
  b!"bw.Flush()",
  b!"}",
  b!"size:=cw.Count()",
  b!"alignedSize:=(size+511)&^uint64(511)",
  b!"increase:=alignedSize-size",
  b!"if increase>0{",
  b!"b:=make([]byte,increase)",
  b!"cw.Write(b)",
  b!"}",
  b!"gw.Close()",
  b!"return digest.Sum(nil),nil"
]
/-- statement skeleton of apk/apk.go Package -/
def skel_apk_apk_Package : List Bytes := [
  b!"if info.Platform!=\"linux\"{",
  b!"return fmt.Errorf(\"invalid platform: %s\",info.Platform)",
  b!"}",
  b!"info=ensureValidArch(info)",
  b!"nfpm.PrepareForPackager(info,packagerName)",
  b!"size:=int64(0)",
  b!"dataDigest:=createData(&bufData,info,&size)",
  b!"controlDigest:=createControl(&bufControl,info,size,dataDigest)",
  b!"if info.APK.Signature.KeyFile==\"\"&&info.APK.Signature.SignFn==nil{",
  b!"return combineToApk(apk,&bufControl,&bufData)",
  b!"}",
  b!"createSignature(&bufSignature,info,controlDigest)",
  b!"return combineToApk(apk,&bufSignature,&bufControl,&bufData)"
]
/-- statement skeleton of apk/apk.go combineToApk -/
def skel_apk_apk_combineToApk : List Bytes := [
  b!"for range readers{",
  b!"io.Copy(target,tgz)",
  b!"}",
  b!"return nil"
]
/-- statement skeleton of apk/apk.go newItemInsideTarGz -/
def skel_apk_apk_newItemInsideTarGz : List Bytes := [
  b!"header.Format=tar.FormatPAX",
  b!"header.PAXRecords=make(map[string]string)",
  b!"hasher:=sha1.New()",
  b!"hasher.Write(content)",
  b!"header.PAXRecords[\"APK-TOOLS.checksum.SHA1\"]=fmt.Sprintf(\"%x\",hasher.Sum(nil))",
  b!"out.WriteHeader(header)",
  b!"out.Write(content)",
  b!"return nil"
]
/-- statement skeleton of apk/apk.go copyToTarAndDigest -/
def skel_apk_apk_copyToTarAndDigest : List Bytes := [
  b!"contents:=os.ReadFile(file.Source)",
  b!"header:=tar.FileInfoHeader(file,file.Source)",
  b!"header.Mode=int64(file.Mode())",
  b!"header.Name=files.AsRelativePath(file.Destination)",
  b!"header.Uname=file.FileInfo.Owner",
  b!"header.Gname=file.FileInfo.Group",
  b!"newItemInsideTarGz(tw,contents,header)",
  b!"*sizep+=file.Size()",
  b!"return nil"
]
/-- statement skeleton of apk/apk.go createBuilderControl -/
def skel_apk_apk_createBuilderControl : List Bytes := [
  b!"return func(tw*tar.Writer)error{var infoBuf bytes.Buffer if err:=writeControl(&infoBuf,controlData{Info:info,InstalledSi...#362898699fe4f31a"
]
/-- statement skeleton of deb/deb.go Package -/
def skel_deb_deb_Package : List Bytes := [
  b!"info=ensureValidArch(info)",
  b!"nfpm.PrepareForPackager(withChangelogIfRequested(info),packagerName)",
  b!"d.SetPackagerDefaults(info)",
  b!"dataTarball,md5sums,instSize,dataTarballName:=createDataTarball(info)",
  b!"controlTarGz:=createControl(instSize,md5sums,info)",
  b!"debianBinary:=[]byte(\"2.0\\n\")",
  b!"dst:=&errRecorder{Writer:deb}",
  b!"defer{",
  b!"if err==nil&&dst.err!=nil{",
  b!"fmt.Errorf(\"cannot write deb file: %w\",dst.err)",
  b!"}",
  b!"}",
  b!"w:=ar.NewWriter(dst)",
  b!"w.WriteGlobalHeader()",
  b!"mtime:=modtime.Get(info.MTime)",
  b!"addArFile(w,\"debian-binary\",debianBinary,mtime)",
  b!"addArFile(w,\"control.tar.gz\",controlTarGz,mtime)",
  b!"addArFile(w,dataTarballName,dataTarball,mtime)",
  b!"if info.Deb.Signature.KeyFile!=\"\"||info.Deb.Signature.SignFn!=nil{",
  b!"sig,sigType:=doSign(info,debianBinary,controlTarGz,dataTarball,dataTarballName)",
  b!"addArFile(w,\"_gpg\"+sigType,sig,mtime)",
  b!"}",
  b!"return nil"
]
/-- statement skeleton of deb/deb.go copyToTarAndDigest -/
def skel_deb_deb_copyToTarAndDigest : List Bytes := [
  b!"tarFile:=os.OpenFile(file.Source,os.O_RDONLY,0o600)",
  b!"defer tarFile.Close()",
  b!"header:=tarHeader(file)",
  b!"tw.WriteHeader(header)",
  b!"digest:=md5.New()",
  b!"io.Copy(tw,io.TeeReader(tarFile,digest))",
  b!"fmt.Fprintf(md5w,\"%x  %s\\n\",digest.Sum(nil),header.Name)",
  b!"return file.Size(),nil"
]
/-- statement skeleton of deb/deb.go createChangelogInsideDataTar -/
def skel_deb_deb_createChangelogInsideDataTar : List Bytes := [
  b!"out:=gzip.NewWriterLevel(&buf,gzip.BestCompression)",
  b!"defer out.Close()",
  b!"changelogContent:=formatChangelog(info)",
  b!"io.WriteString(out,changelogContent)",
  b!"out.Close()",
  b!"changelogData:=buf.Bytes()",
  b!"digest:=md5.New()",
  b!"digest.Write(changelogData)",
  b!"fmt.Fprintf(g,\"%x  %s\\n\",digest.Sum(nil),files.AsExplicitRelativePath(fileName),)",
  b!"newFileInsideTar(tarw,fileName,changelogData,modtime.Get(info.MTime))",
  b!"return int64(len(changelogData)),nil"
]
/-- statement skeleton of deb/deb.go createControl -/
def skel_deb_deb_createControl : List Bytes := [
  b!"compress:=gzip.NewWriter(&buf)",
  b!"out:=tar.NewWriter(compress)",
  b!"defer out.Close()",
  b!"defer compress.Close()",
  b!"writeControl(&body,controlData{Info:info,InstalledSize:instSize/1024,})",
  b!"mtime:=modtime.Get(info.MTime)",
  b!"newFileInsideTar(out,\"./control\",body.Bytes(),mtime)",
  b!"newFileInsideTar(out,\"./md5sums\",md5sums,mtime)",
  b!"newFileInsideTar(out,\"./conffiles\",conffiles(info),mtime)",
  b!"triggers:=createTriggers(info)",
  b!"if len(triggers)>0{",
  b!"newFileInsideTar(out,\"./triggers\",triggers,mtime)",
  b!"}",
  b!"specialFiles:=map[string]*fileAndMode{\"preinst\":{fileName:info.Scripts.PreInstall,mode:0o755,},\"postinst\":{fileName:info...#61d3346b8e30a24f",
  b!"for range maps.Keys(specialFiles){",
  b!"dets:=specialFiles[filename]",
  b!"if dets.fileName==\"\"{",
  b!"continue",
  b!"}",
  b!"newFilePathInsideTar(out,dets.fileName,filename,dets.mode,mtime)",
  b!"}",
  b!"out.Close()",
  b!"compress.Close()",
  b!"return buf.Bytes(),nil"
]
/-- statement skeleton of deb/deb.go addArFile -/
def skel_deb_deb_addArFile : List Bytes := [
  b!"header:=ar.Header{Name:files.ToNixPath(name),Size:int64(len(body)),Mode:0o644,ModTime:date,}",
  b!"w.WriteHeader(&header)",
  b!"w.Write(body)",
  b!"return err"
]
/-- statement skeleton of ipk/ipk.go createIPK -/
def skel_ipk_ipk_createIPK : List Bytes := [
  b!"data:=newTGZ(\"data.tar.gz\",func(tw*tar.Writer)error{var err error installSize,err=populateDataTar(info,tw)return err},)",
  b!"control:=newTGZ(\"control.tar.gz\",func(tw*tar.Writer)error{return populateControlTar(info,tw,installSize)},)",
  b!"mtime:=modtime.Get(info.MTime)",
  b!"writeToFile(ipk,\"debian-binary\",[]byte(\"2.0\\n\"),mtime)",
  b!"writeToFile(ipk,\"control.tar.gz\",control,mtime)",
  b!"writeToFile(ipk,\"data.tar.gz\",data,mtime)",
  b!"return nil"
]
/-- statement skeleton of ipk/ipk.go populateControlTar -/
def skel_ipk_ipk_populateControlTar : List Bytes := [
  b!"cd:=controlData{Info:info,InstalledSize:instSize/1024,}",
  b!"renderControl(&body,cd)",
  b!"mtime:=modtime.Get(info.MTime)",
  b!"writeToFile(out,\"./control\",body.Bytes(),mtime)",
  b!"writeToFile(out,\"./conffiles\",conffiles(info),mtime)",
  b!"scripts:=getScripts(info,mtime)",
  b!"for range scripts{",
  b!"if file.Source!=\"\"{",
  b!"writeFile(out,&file)",
  b!"}",
  b!"}",
  b!"return nil"
]
/-- statement skeleton of arch/arch.go Package -/
def skel_arch_arch_Package : List Bytes := [
  b!"if info.Platform!=\"linux\"{",
  b!"return fmt.Errorf(\"invalid platform: %s\",info.Platform)",
  b!"}",
  b!"info=ensureValidArch(info)",
  b!"nfpm.PrepareForPackager(info,packagerName)",
  b!"if !nameIsValid(info.Name){",
  b!"return ErrInvalidPkgName",
  b!"}",
  b!"zw:=zstd.NewWriter(w)",
  b!"defer{",
  b!"cerr:=zw.Close()",
  b!"if cerr!=nil&&err==nil{",
  b!"fmt.Errorf(\"closing zstd writer: %w\",cerr)",
  b!"}",
  b!"}",
  b!"tw:=tar.NewWriter(zw)",
  b!"defer{",
  b!"cerr:=tw.Close()",
  b!"if cerr!=nil&&err==nil{",
  b!"fmt.Errorf(\"closing tar writer: %w\",cerr)",
  b!"}",
  b!"}",
  b!"entries,totalSize:=createFilesInTar(info,tw)",
  b!"pkginfoEntry:=createPkginfo(info,tw,totalSize)",
  b!"entries=append([]MtreeEntry{*pkginfoEntry},entries...)",
  b!"createMtree(tw,entries,modtime.Get(info.MTime))",
  b!"return createScripts(info,tw)"
]
/-- statement skeleton of arch/arch.go createMtree -/
def skel_arch_arch_createMtree : List Bytes := [
  b!"buf:=&bytes.Buffer{}",
  b!"gw:=pgzip.NewWriter(buf)",
  b!"defer gw.Close()",
  b!"io.WriteString(gw,\"#mtree\\n\")",
  b!"for range entries{",
  b!"entry.WriteTo(gw)",
  b!"}",
  b!"gw.Close()",
  b!"tw.WriteHeader(&tar.Header{Typeflag:tar.TypeReg,Mode:0o644,Name:\".MTREE\",Size:int64(buf.Len()),ModTime:mtime,})",
  b!"io.Copy(tw,buf)",
  b!"return err"
]
/-- statement skeleton of arch/arch.go WriteTo -/
def skel_arch_arch_WriteTo : List Bytes := [
  b!"switch me.Type{",
  b!"case files.TypeDir,files.TypeImplicitDir:",
  b!"n:=fmt.Fprintf(w,\"./%s time=%d.0 mode=%o type=dir\\n\",me.Destination,me.Time,me.Mode,)",
  b!"return int64(n),err",
  b!"case files.TypeSymlink:",
  b!"n:=fmt.Fprintf(w,\"./%s time=%d.0 mode=%o type=link link=%s\\n\",me.Destination,me.Time,me.Mode,me.LinkSource,)",
  b!"return int64(n),err",
  b!"default:",
  b!"n:=fmt.Fprintf(w,\"./%s time=%d.0 mode=%o size=%d type=file md5digest=%x sha256digest=%x\\n\",me.Destination,me.Time,me.Mode,me.Size,me.MD5,me.SHA256,)",
  b!"return int64(n),err",
  b!"}"
]
/-- statement skeleton of arch/arch.go createFilesInTar -/
def skel_arch_arch_createFilesInTar : List Bytes := [
  b!"entries:=make([]MtreeEntry,0,len(info.Contents))",
  b!"for range info.Contents{",
  b!"content.Destination=files.AsRelativePath(content.Destination)",
  b!"switch content.Type{",
  b!"case files.TypeDir,files.TypeImplicitDir:",
  b!"entries=append(entries,MtreeEntry{Destination:content.Destination,Time:mtreeTime(content.ModTime()),Mode:int64(content.Mode()),Type:files.TypeDir,})",
  b!"tw.WriteHeader(&tar.Header{Name:content.Destination,Mode:int64(content.Mode()),Typeflag:tar.TypeDir,ModTime:content.ModT...#51c41c7edb35a730",
  b!"case files.TypeSymlink:",
  b!"tw.WriteHeader(&tar.Header{Name:content.Destination,Linkname:content.Source,ModTime:content.ModTime(),Typeflag:tar.TypeSymlink,})",
  b!"entries=append(entries,MtreeEntry{LinkSource:content.Source,Destination:content.Destination,Time:mtreeTime(content.ModTime()),Mode:0o777,Type:content.Type,})",
  b!"default:",
  b!"src:=os.Open(content.Source)",
  b!"defer src.Close()",
  b!"header:=&tar.Header{Name:content.Destination,Mode:int64(content.Mode()),Typeflag:tar.TypeReg,Size:content.Size(),ModTime...#07842775755a9702",
  b!"if content.FileInfo!=nil&&content.Mode()!=0{",
  b!"header.Mode=int64(content.Mode())",
  b!"}",
  b!"if content.FileInfo!=nil&&!content.ModTime().IsZero(){",
  b!"header.ModTime=content.ModTime()",
  b!"}",
  b!"if content.FileInfo!=nil&&content.Size()!=0{",
  b!"header.Size=content.Size()",
  b!"}",
  b!"tw.WriteHeader(header)",
  b!"sha256Hash:=sha256.New()",
  b!"md5Hash:=md5.New()",
  b!"w:=io.MultiWriter(tw,sha256Hash,md5Hash)",
  b!"io.Copy(w,src)",
  b!"entries=append(entries,MtreeEntry{Destination:content.Destination,Time:mtreeTime(content.ModTime()),Mode:int64(content.M...#3e4a7af38df4eb75",
  b!"totalSize+=content.Size()",
  b!"}",
  b!"}",
  b!"return entries,totalSize,nil"
]
/-- statement skeleton of ipk/tar.go newTGZ -/
def skel_ipk_tar_newTGZ : List Bytes := [
  b!"gz:=gzip.NewWriter(&buf)",
  b!"tarball:=tar.NewWriter(gz)",
  b!"defer gz.Close()",
  b!"defer tarball.Close()",
  b!"populate(tarball)",
  b!"tarball.Close()",
  b!"gz.Close()",
  b!"return buf.Bytes(),nil"
]
/-- statement skeleton of ipk/tar.go writeFile -/
def skel_ipk_tar_writeFile : List Bytes := [
  b!"f:=os.OpenFile(file.Source,os.O_RDONLY,0o600)",
  b!"defer f.Close()",
  b!"header:=tar.FileInfoHeader(file,file.Source)",
  b!"content:=io.ReadAll(f)",
  b!"size:=int64(len(content))",
  b!"header.Mode=int64(file.Mode())",
  b!"header.Format=tar.FormatGNU",
  b!"header.Name=files.AsExplicitRelativePath(file.Destination)",
  b!"header.Size=size",
  b!"header.Uname=file.FileInfo.Owner",
  b!"header.Gname=file.FileInfo.Group",
  b!"out.WriteHeader(header)",
  b!"n:=out.Write(content)",
  b!"if int64(n)!=size{",
  b!"return 0,fmt.Errorf(\"%s: failed to copy: expected %d bytes, copied %d\",file.Source,size,n)",
  b!"}",
  b!"return size,nil"
]
/-- statement skeleton of ipk/tar.go writeToFile -/
def skel_ipk_tar_writeToFile : List Bytes := [
  b!"header:=tar.Header{Name:files.AsExplicitRelativePath(filename),Size:int64(len(content)),Mode:0o644,ModTime:mtime,Typeflag:tar.TypeReg,Format:tar.FormatGNU,}",
  b!"out.WriteHeader(&header)",
  b!"out.Write(content)",
  b!"return nil"
]
/-- apk.writeTgz after the builder ran -/
def apkTgzOps : List TgzOp := [.flushBuf, .closeTar, .flushBufIfFull, .alignPad 512, .closeGz]
def apkBufCap : Nat := 4096
/-- the writer stack of apk.writeTgz, outermost first: the digest sees what the output sees (below gzip) -/
def apkTgzLayers : List Bytes := [b!"mw:=io.MultiWriter(digest,w)", b!"gw:=gzip.NewWriter(mw)", b!"cw:=newWriterCounter(gw)", b!"bw:=bufio.NewWriterSize(cw,4096)", b!"tw:=tar.NewWriter(bw)"]
end Nfpm.Reviewed
