-- REVIEWED copy of Generated/G8WriteTgz.lean (bin/mkreviewed): what the model was written against.
import NfpmModel.Archive
namespace Nfpm.Reviewed
open Nfpm Nfpm.Arc
/-- statement skeleton of apk/apk.go writeTgz -/
def skel_apk_apk_writeTgz : List Bytes := [
  b!"v0:=io.MultiWriter(p4,p0)",
  b!"v1:=gzip.NewWriter(v0)",
  b!"v2:=newWriterCounter(v1)",
  b!"v3:=bufio.NewWriterSize(v2,4096)",
  b!"v4:=tar.NewWriter(v3)",
  b!"p2(v4)",
  b!"v3.Flush()",
  b!"v4.Close()",
  b!"if p1==tarFull{",
  b!"v3.Flush()",
  b!"}",
  b!"v5:=v2.Count()",
  b!"v6:=(v5+511)&^uint64(511)",
  b!"v7:=v6-v5",
  b!"if v7>0{",
  b!"v8:=make([]byte,v7)",
  b!"v2.Write(v8)",
  b!"}",
  b!"v1.Close()",
  b!"return p4.Sum(nil),nil"
]
/-- statement skeleton of apk/apk.go Package -/
def skel_apk_apk_Package : List Bytes := [
  b!"if p0.Platform!=\"linux\"{",
  b!"return fmt.Errorf(\"...\",p0.Platform)",
  b!"}",
  b!"p0=ensureValidArch(p0)",
  b!"nfpm.PrepareForPackager(p0,packagerName)",
  b!"v1:=int64(0)",
  b!"v2:=createData(&v0,p0,&v1)",
  b!"v4:=createControl(&v3,p0,v1,v2)",
  b!"if p0.APK.Signature.KeyFile==\"\"&&p0.APK.Signature.SignFn==nil{",
  b!"return combineToApk(p1,&v3,&v0)",
  b!"}",
  b!"createSignature(&v5,p0,v4)",
  b!"return combineToApk(p1,&v5,&v3,&v0)"
]
/-- statement skeleton of apk/apk.go combineToApk -/
def skel_apk_apk_combineToApk : List Bytes := [
  b!"for range p1{",
  b!"io.Copy(p0,v0)",
  b!"}",
  b!"return nil"
]
/-- statement skeleton of apk/apk.go newItemInsideTarGz -/
def skel_apk_apk_newItemInsideTarGz : List Bytes := [
  b!"p2.Format=tar.FormatPAX",
  b!"p2.PAXRecords=make(map[string]string)",
  b!"v0:=sha1.New()",
  b!"v0.Write(p1)",
  b!"p2.PAXRecords[\"APK-TOOLS.checksum.SHA1\"]=fmt.Sprintf(\"%x\",v0.Sum(nil))",
  b!"p0.WriteHeader(p2)",
  b!"p0.Write(p1)",
  b!"return nil"
]
/-- statement skeleton of apk/apk.go copyToTarAndDigest -/
def skel_apk_apk_copyToTarAndDigest : List Bytes := [
  b!"v0:=os.ReadFile(p0.Source)",
  b!"v1:=tar.FileInfoHeader(p0,p0.Source)",
  b!"v1.Mode=int64(p0.Mode())",
  b!"v1.Name=files.AsRelativePath(p0.Destination)",
  b!"v1.Uname=p0.FileInfo.Owner",
  b!"v1.Gname=p0.FileInfo.Group",
  b!"newItemInsideTarGz(p1,v0,v1)",
  b!"*p2+=p0.Size()",
  b!"return nil"
]
/-- statement skeleton of apk/apk.go createBuilderControl -/
def skel_apk_apk_createBuilderControl : List Bytes := [
  b!"return func(v0*tar.Writer)error{var v1 bytes.Buffer if err:=writeControl(&v1,controlData{Info:p0,InstalledSize:p1,Dataha...#745205516386c414"
]
/-- statement skeleton of deb/deb.go Package -/
def skel_deb_deb_Package : List Bytes := [
  b!"p1=ensureValidArch(p1)",
  b!"nfpm.PrepareForPackager(withChangelogIfRequested(p1),packagerName)",
  b!"p0.SetPackagerDefaults(p1)",
  b!"v0,v1,v2,v3:=createDataTarball(p1)",
  b!"v4:=createControl(v2,v1,p1)",
  b!"v5:=[]byte(\"2.0\\n\")",
  b!"v6:=&errRecorder{Writer:p2}",
  b!"defer{",
  b!"if err==nil&&v6.err!=nil{",
  b!"fmt.Errorf(\"...%w\",v6.err)",
  b!"}",
  b!"}",
  b!"v7:=ar.NewWriter(v6)",
  b!"v7.WriteGlobalHeader()",
  b!"v8:=modtime.Get(p1.MTime)",
  b!"addArFile(v7,\"debian-binary\",v5,v8)",
  b!"addArFile(v7,\"control.tar.gz\",v4,v8)",
  b!"addArFile(v7,v3,v0,v8)",
  b!"if p1.Deb.Signature.KeyFile!=\"\"||p1.Deb.Signature.SignFn!=nil{",
  b!"v9,v10:=doSign(p1,v5,v4,v0,v3)",
  b!"addArFile(v7,\"_gpg\"+v10,v9,v8)",
  b!"}",
  b!"return nil"
]
/-- statement skeleton of deb/deb.go copyToTarAndDigest -/
def skel_deb_deb_copyToTarAndDigest : List Bytes := [
  b!"v0:=os.OpenFile(p0.Source,os.O_RDONLY,0o600)",
  b!"defer v0.Close()",
  b!"v1:=tarHeader(p0)",
  b!"p1.WriteHeader(v1)",
  b!"v2:=md5.New()",
  b!"io.Copy(p1,io.TeeReader(v0,v2))",
  b!"fmt.Fprintf(p2,\"%x  %s\\n\",v2.Sum(nil),v1.Name)",
  b!"return p0.Size(),nil"
]
/-- statement skeleton of deb/deb.go createChangelogInsideDataTar -/
def skel_deb_deb_createChangelogInsideDataTar : List Bytes := [
  b!"v1:=gzip.NewWriterLevel(&v0,gzip.BestCompression)",
  b!"defer v1.Close()",
  b!"v2:=formatChangelog(p2)",
  b!"io.WriteString(v1,v2)",
  b!"v1.Close()",
  b!"v3:=v0.Bytes()",
  b!"v4:=md5.New()",
  b!"v4.Write(v3)",
  b!"fmt.Fprintf(p1,\"%x  %s\\n\",v4.Sum(nil),files.AsExplicitRelativePath(p3),)",
  b!"newFileInsideTar(p0,p3,v3,modtime.Get(p2.MTime))",
  b!"return int64(len(v3)),nil"
]
/-- statement skeleton of deb/deb.go createControl -/
def skel_deb_deb_createControl : List Bytes := [
  b!"v1:=gzip.NewWriter(&v0)",
  b!"v2:=tar.NewWriter(v1)",
  b!"defer v2.Close()",
  b!"defer v1.Close()",
  b!"writeControl(&v3,controlData{Info:p2,InstalledSize:p0/1024,})",
  b!"v4:=modtime.Get(p2.MTime)",
  b!"newFileInsideTar(v2,\"./control\",v3.Bytes(),v4)",
  b!"newFileInsideTar(v2,\"./md5sums\",p1,v4)",
  b!"newFileInsideTar(v2,\"./conffiles\",conffiles(p2),v4)",
  b!"v5:=createTriggers(p2)",
  b!"if len(v5)>0{",
  b!"newFileInsideTar(v2,\"./triggers\",v5,v4)",
  b!"}",
  b!"v8:=map[string]*fileAndMode{\"preinst\":{fileName:p2.Scripts.PreInstall,mode:0o755,},\"postinst\":{fileName:p2.Scripts.PostI...#2071581c6f1a6b26",
  b!"for range maps.Keys(v8){",
  b!"v10:=v8[v9]",
  b!"if v10.fileName==\"\"{",
  b!"continue",
  b!"}",
  b!"newFilePathInsideTar(v2,v10.fileName,v9,v10.mode,v4)",
  b!"}",
  b!"v2.Close()",
  b!"v1.Close()",
  b!"return v0.Bytes(),nil"
]
/-- statement skeleton of deb/deb.go addArFile -/
def skel_deb_deb_addArFile : List Bytes := [
  b!"v0:=ar.Header{Name:files.ToNixPath(p1),Size:int64(len(p2)),Mode:0o644,ModTime:p3,}",
  b!"p0.WriteHeader(&v0)",
  b!"p0.Write(p2)",
  b!"return err"
]
/-- statement skeleton of ipk/ipk.go createIPK -/
def skel_ipk_ipk_createIPK : List Bytes := [
  b!"v1:=newTGZ(\"data.tar.gz\",func(v2*tar.Writer)error{var err error v0,err=populateDataTar(p0,v2)return err},)",
  b!"v3:=newTGZ(\"control.tar.gz\",func(v4*tar.Writer)error{return populateControlTar(p0,v4,v0)},)",
  b!"v5:=modtime.Get(p0.MTime)",
  b!"writeToFile(p1,\"debian-binary\",[]byte(\"2.0\\n\"),v5)",
  b!"writeToFile(p1,\"control.tar.gz\",v3,v5)",
  b!"writeToFile(p1,\"data.tar.gz\",v1,v5)",
  b!"return nil"
]
/-- statement skeleton of ipk/ipk.go populateControlTar -/
def skel_ipk_ipk_populateControlTar : List Bytes := [
  b!"v1:=controlData{Info:p0,InstalledSize:p2/1024,}",
  b!"renderControl(&v0,v1)",
  b!"v2:=modtime.Get(p0.MTime)",
  b!"writeToFile(p1,\"./control\",v0.Bytes(),v2)",
  b!"writeToFile(p1,\"./conffiles\",conffiles(p0),v2)",
  b!"v3:=getScripts(p0,v2)",
  b!"for range v3{",
  b!"if v4.Source!=\"\"{",
  b!"writeFile(p1,&v4)",
  b!"}",
  b!"}",
  b!"return nil"
]
/-- statement skeleton of arch/arch.go Package -/
def skel_arch_arch_Package : List Bytes := [
  b!"if p0.Platform!=\"linux\"{",
  b!"return fmt.Errorf(\"...\",p0.Platform)",
  b!"}",
  b!"p0=ensureValidArch(p0)",
  b!"nfpm.PrepareForPackager(p0,packagerName)",
  b!"if !nameIsValid(p0.Name){",
  b!"return ErrInvalidPkgName",
  b!"}",
  b!"v0:=zstd.NewWriter(p1)",
  b!"defer{",
  b!"cerr:=v0.Close()",
  b!"if cerr!=nil&&err==nil{",
  b!"fmt.Errorf(\"...%w\",cerr)",
  b!"}",
  b!"}",
  b!"v1:=tar.NewWriter(v0)",
  b!"defer{",
  b!"cerr:=v1.Close()",
  b!"if cerr!=nil&&err==nil{",
  b!"fmt.Errorf(\"...%w\",cerr)",
  b!"}",
  b!"}",
  b!"v2,v3:=createFilesInTar(p0,v1)",
  b!"v4:=createPkginfo(p0,v1,v3)",
  b!"v2=append([]MtreeEntry{*v4},v2...)",
  b!"createMtree(v1,v2,modtime.Get(p0.MTime))",
  b!"return createScripts(p0,v1)"
]
/-- statement skeleton of arch/arch.go createMtree -/
def skel_arch_arch_createMtree : List Bytes := [
  b!"v0:=&bytes.Buffer{}",
  b!"v1:=pgzip.NewWriter(v0)",
  b!"defer v1.Close()",
  b!"io.WriteString(v1,\"#mtree\\n\")",
  b!"for range p1{",
  b!"v2.WriteTo(v1)",
  b!"}",
  b!"v1.Close()",
  b!"p0.WriteHeader(&tar.Header{Typeflag:tar.TypeReg,Mode:0o644,Name:\".MTREE\",Size:int64(v0.Len()),ModTime:p2,})",
  b!"io.Copy(p0,v0)",
  b!"return err"
]
/-- statement skeleton of arch/arch.go WriteTo -/
def skel_arch_arch_WriteTo : List Bytes := [
  b!"switch p0.Type{",
  b!"case files.TypeDir,files.TypeImplicitDir:",
  b!"v0:=fmt.Fprintf(p1,\"./%s time=%d.0 mode=%o type=dir\\n\",mtreeQuote(p0.Destination),p0.Time,p0.Mode,)",
  b!"return int64(v0),err",
  b!"case files.TypeSymlink:",
  b!"v1:=fmt.Fprintf(p1,\"./%s time=%d.0 mode=%o type=link link=%s\\n\",mtreeQuote(p0.Destination),p0.Time,p0.Mode,mtreeQuote(p0.LinkSource),)",
  b!"return int64(v1),err",
  b!"default:",
  b!"v2:=fmt.Fprintf(p1,\"./%s time=%d.0 mode=%o size=%d type=file md5digest=%x sha256digest=%x\\n\",mtreeQuote(p0.Destination),...#14893680bcb7e855",
  b!"return int64(v2),err",
  b!"}"
]
/-- statement skeleton of arch/arch.go createFilesInTar -/
def skel_arch_arch_createFilesInTar : List Bytes := [
  b!"v0:=make([]MtreeEntry,0,len(p0.Contents))",
  b!"for range p0.Contents{",
  b!"v2.Destination=files.AsRelativePath(v2.Destination)",
  b!"switch v2.Type{",
  b!"case files.TypeDir,files.TypeImplicitDir:",
  b!"v0=append(v0,MtreeEntry{Destination:v2.Destination,Time:mtreeTime(v2.ModTime()),Mode:int64(v2.Mode()),Type:files.TypeDir,})",
  b!"p1.WriteHeader(&tar.Header{Name:v2.Destination,Mode:int64(v2.Mode()),Typeflag:tar.TypeDir,ModTime:v2.ModTime(),Uname:v2....#3b8f74bb549619fa",
  b!"case files.TypeSymlink:",
  b!"p1.WriteHeader(&tar.Header{Name:v2.Destination,Linkname:v2.Source,ModTime:v2.ModTime(),Typeflag:tar.TypeSymlink,})",
  b!"v0=append(v0,MtreeEntry{LinkSource:v2.Source,Destination:v2.Destination,Time:mtreeTime(v2.ModTime()),Mode:0o777,Type:v2.Type,})",
  b!"default:",
  b!"v3:=os.Open(v2.Source)",
  b!"defer v3.Close()",
  b!"v4:=&tar.Header{Name:v2.Destination,Mode:int64(v2.Mode()),Typeflag:tar.TypeReg,Size:v2.Size(),ModTime:v2.ModTime(),Uname...#f42d65c6237fce7f",
  b!"if v2.FileInfo!=nil&&v2.Mode()!=0{",
  b!"v4.Mode=int64(v2.Mode())",
  b!"}",
  b!"if v2.FileInfo!=nil&&!v2.ModTime().IsZero(){",
  b!"v4.ModTime=v2.ModTime()",
  b!"}",
  b!"if v2.FileInfo!=nil&&v2.Size()!=0{",
  b!"v4.Size=v2.Size()",
  b!"}",
  b!"p1.WriteHeader(v4)",
  b!"v5:=sha256.New()",
  b!"v6:=md5.New()",
  b!"v7:=io.MultiWriter(p1,v5,v6)",
  b!"io.Copy(v7,v3)",
  b!"v0=append(v0,MtreeEntry{Destination:v2.Destination,Time:mtreeTime(v2.ModTime()),Mode:int64(v2.Mode()),Size:v2.Size(),Typ...#1c18682b357b9f69",
  b!"v1+=v2.Size()",
  b!"}",
  b!"}",
  b!"return v0,v1,nil"
]
/-- statement skeleton of ipk/tar.go newTGZ -/
def skel_ipk_tar_newTGZ : List Bytes := [
  b!"v1:=gzip.NewWriter(&v0)",
  b!"v2:=tar.NewWriter(v1)",
  b!"defer v1.Close()",
  b!"defer v2.Close()",
  b!"p1(v2)",
  b!"v2.Close()",
  b!"v1.Close()",
  b!"return v0.Bytes(),nil"
]
/-- statement skeleton of ipk/tar.go writeFile -/
def skel_ipk_tar_writeFile : List Bytes := [
  b!"v0:=os.OpenFile(p1.Source,os.O_RDONLY,0o600)",
  b!"defer v0.Close()",
  b!"v1:=tar.FileInfoHeader(p1,p1.Source)",
  b!"v2:=io.ReadAll(v0)",
  b!"v3:=int64(len(v2))",
  b!"v1.Mode=int64(p1.Mode())",
  b!"v1.Format=tar.FormatGNU",
  b!"v1.Name=files.AsExplicitRelativePath(p1.Destination)",
  b!"v1.Size=v3",
  b!"v1.Uname=p1.FileInfo.Owner",
  b!"v1.Gname=p1.FileInfo.Group",
  b!"p0.WriteHeader(v1)",
  b!"v4:=p0.Write(v2)",
  b!"if int64(v4)!=v3{",
  b!"return 0,fmt.Errorf(\"...\",p1.Source,v3,v4)",
  b!"}",
  b!"return v3,nil"
]
/-- statement skeleton of ipk/tar.go writeToFile -/
def skel_ipk_tar_writeToFile : List Bytes := [
  b!"v0:=tar.Header{Name:files.AsExplicitRelativePath(p1),Size:int64(len(p2)),Mode:0o644,ModTime:p3,Typeflag:tar.TypeReg,Format:tar.FormatGNU,}",
  b!"p0.WriteHeader(&v0)",
  b!"p0.Write(p2)",
  b!"return nil"
]
/-- apk.writeTgz after the builder ran -/
def apkTgzOps : List TgzOp := [.flushBuf, .closeTar, .flushBufIfFull, .alignPad 512, .closeGz]
def apkBufCap : Nat := 4096
/-- the writer stack of apk.writeTgz, outermost first: the digest sees what the output sees (below gzip) -/
def apkTgzLayers : List Bytes := [b!"v0:=io.MultiWriter(p4,p0)", b!"v1:=gzip.NewWriter(v0)", b!"v2:=newWriterCounter(v1)", b!"v3:=bufio.NewWriterSize(v2,4096)", b!"v4:=tar.NewWriter(v3)"]
end Nfpm.Reviewed
