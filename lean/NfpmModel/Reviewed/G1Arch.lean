-- REVIEWED copy of Generated/G1Arch.lean (bin/mkreviewed): what the model was written against.
import NfpmModel.Bytes
namespace Nfpm.Reviewed
open Nfpm
def archMap_deb : List (Bytes × Bytes) := [(b!"386", b!"i386"), (b!"arm5", b!"armel"), (b!"arm6", b!"armhf"), (b!"arm64", b!"arm64"), (b!"arm7", b!"armhf"), (b!"mips64le", b!"mips64el"), (b!"mipsle", b!"mipsel"), (b!"ppc64le", b!"ppc64el"), (b!"s390", b!"s390x")]
def archMap_rpm : List (Bytes × Bytes) := [(b!"386", b!"i386"), (b!"all", b!"noarch"), (b!"amd64", b!"x86_64"), (b!"arm5", b!"armv5tel"), (b!"arm6", b!"armv6hl"), (b!"arm64", b!"aarch64"), (b!"arm7", b!"armv7hl"), (b!"mips", b!"mips"), (b!"mips64le", b!"mips64el"), (b!"mipsle", b!"mipsel")]
def archMap_apk : List (Bytes × Bytes) := [(b!"386", b!"x86"), (b!"amd64", b!"x86_64"), (b!"arm6", b!"armhf"), (b!"arm64", b!"aarch64"), (b!"arm7", b!"armv7"), (b!"ppc64le", b!"ppc64le"), (b!"s390", b!"s390x")]
def archMap_archlinux : List (Bytes × Bytes) := [(b!"386", b!"i686"), (b!"all", b!"any"), (b!"amd64", b!"x86_64"), (b!"arm5", b!"arm"), (b!"arm6", b!"armv6h"), (b!"arm64", b!"aarch64"), (b!"arm7", b!"armv7h")]
def archMap_ipk : List (Bytes × Bytes) := [(b!"386", b!"i386"), (b!"amd64", b!"x86_64"), (b!"arm5", b!"armel"), (b!"arm6", b!"armhf"), (b!"arm64", b!"arm64"), (b!"arm7", b!"armhf"), (b!"mips64le", b!"mips64el"), (b!"mipsle", b!"mipsel"), (b!"ppc64le", b!"ppc64el"), (b!"s390", b!"s390x")]
def archDoc : List (Bytes × List (Bytes × Bytes)) := [
  (b!"apk", [(b!"386", b!"x86"), (b!"amd64", b!"x86_64"), (b!"arm6", b!"armhf"), (b!"arm64", b!"aarch64"), (b!"arm7", b!"armv7"), (b!"ppc64le", b!"ppc64le"), (b!"s390", b!"s390x")]),
  (b!"archlinux", [(b!"386", b!"i686"), (b!"amd64", b!"x86_64"), (b!"arm5", b!"arm"), (b!"arm6", b!"armv6h"), (b!"arm64", b!"aarch64"), (b!"arm7", b!"armv7h")]),
  (b!"deb", [(b!"386", b!"i386"), (b!"amd64", b!"amd64"), (b!"arm5", b!"armel"), (b!"arm6", b!"armhf"), (b!"arm64", b!"arm64"), (b!"arm7", b!"armhf"), (b!"mips", b!"mips"), (b!"mips64le", b!"mips64el"), (b!"mipsle", b!"mipsel"), (b!"ppc64le", b!"ppc64el"), (b!"s390", b!"s390x")]),
  (b!"rpm", [(b!"386", b!"i386"), (b!"amd64", b!"x86_64"), (b!"arm5", b!"armv5tel"), (b!"arm6", b!"armv6hl"), (b!"arm64", b!"aarch64"), (b!"arm7", b!"armv7hl"), (b!"mips", b!"mips"), (b!"mips64le", b!"mips64el"), (b!"mipsle", b!"mipsel")])
]
def mipsPrefix : Bytes := b!"mips"
def mipsReplacer : List Bytes := [b!"softfloat", b!"", b!"hardfloat", b!""]
end Nfpm.Reviewed
