-- REVIEWED copy of Generated/G11Templates.lean (bin/mkreviewed): what the model was written against.
import NfpmModel.Bytes
namespace Nfpm.Reviewed
open Nfpm
def templateRows_deb : List (Bytes × Bytes) := [
  (b!"Package", b!".Info.Name"),
  (b!"Version", b!".Info.Epoch+.Info.Epoch+.Info.Version+.Info.Prerelease+.Info.VersionMetadata+.Info.Release"),
  (b!"Section", b!".Info.Section"),
  (b!"Priority", b!".Info.Priority"),
  (b!"Architecture", b!".Info.Platform+.Info.Platform+.Info.Arch"),
  (b!"License", b!".Info.License"),
  (b!"Maintainer", b!".Info.Maintainer"),
  (b!"Installed-Size", b!".InstalledSize"),
  (b!"Replaces", b!"join(.Info.Replaces)"),
  (b!"Provides", b!"join(nonEmpty .Info.Provides)"),
  (b!"Pre-Depends", b!"join(.Info.Deb.Predepends)"),
  (b!"Depends", b!"join(.Info.Depends)"),
  (b!"Recommends", b!"join(.Info.Recommends)"),
  (b!"Suggests", b!"join(.Info.Suggests)"),
  (b!"Conflicts", b!"join(.Info.Conflicts)"),
  (b!"Breaks", b!"join(.Info.Deb.Breaks)"),
  (b!"Homepage", b!".Info.Homepage"),
  (b!"Description", b!"multiline(.Info.Description)"),
  (b!"$key", b!"range-var($value)")]
def templateRows_ipk : List (Bytes × Bytes) := [
  (b!"Architecture", b!".Info.Arch"),
  (b!"Description", b!"multiline(.Info.Description)"),
  (b!"Maintainer", b!".Info.Maintainer"),
  (b!"Package", b!".Info.Name"),
  (b!"Priority", b!".Info.Priority"),
  (b!"Version", b!".Info.Epoch+.Info.Epoch+.Info.Version+.Info.Prerelease+.Info.VersionMetadata+.Info.Release"),
  (b!"ABIVersion", b!".Info.IPK.ABIVersion"),
  (b!"Alternatives", b!"range(.Info.IPK.Alternatives)"),
  (b!"Auto-Installed", b!"literal:yes"),
  (b!"Conflicts", b!"join(.Info.Conflicts)"),
  (b!"Depends", b!"join(.Info.Depends)"),
  (b!"Essential", b!"literal:yes"),
  (b!"Homepage", b!".Info.Homepage"),
  (b!"License", b!".Info.License"),
  (b!"Installed-Size", b!".InstalledSize"),
  (b!"Pre-Depends", b!"join(.Info.IPK.Predepends)"),
  (b!"Provides", b!"join(nonEmpty .Info.Provides)"),
  (b!"Recommends", b!"join(.Info.Recommends)"),
  (b!"Replaces", b!"join(.Info.Replaces)"),
  (b!"Section", b!".Info.Section"),
  (b!"Suggests", b!"join(.Info.Suggests)"),
  (b!"Tags", b!"join(.Info.IPK.Tags)"),
  (b!"Vendor", b!".Info.Vendor"),
  (b!"$key", b!"range-var($value)")]
def templateRows_apk : List (Bytes × Bytes) := [
  (b!"pkgname", b!".Info.Name"),
  (b!"pkgver", b!"pkgver()"),
  (b!"arch", b!".Info.Arch"),
  (b!"size", b!".InstalledSize"),
  (b!"pkgdesc", b!"multiline(.Info.Description)"),
  (b!"url", b!".Info.Homepage"),
  (b!"maintainer", b!".Info.Maintainer"),
  (b!"replaces", b!"range-var($repl := .Info.Replaces)"),
  (b!"provides", b!"range-var($prov := .Info.Provides)"),
  (b!"depend", b!"range-var($dep := .Info.Depends)"),
  (b!"license", b!".Info.License"),
  (b!"datahash", b!".Datahash")]
def templateRows_dpkgsig : List (Bytes × Bytes) := [
  (b!"Hash", b!"literal:SHA1"),
  (b!"Version", b!"literal:4"),
  (b!"Signer", b!"literal:{{ .Signer }}"),
  (b!"Date", b!"literal:{{ .Date }}"),
  (b!"Role", b!"literal:{{ .Role }}")]
end Nfpm.Reviewed
