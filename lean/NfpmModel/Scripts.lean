import NfpmModel.Payload
import NfpmModel.Generated.G2Scripts
/-
  Model of the maintainer-script wiring of the five packagers, driven by the
  slot tables regenerated from the source (Generated.G2Scripts):
    deb   deb.createControl specialFiles        (control.tar.gz member ./<slot>)
    ipk   ipk.getScripts                        (control.tar.gz member ./<slot>)
    apk   apk.createBuilderControl scripts      (control segment member <slot>)
    arch  arch.createScripts / writeScripts     (.INSTALL function <slot>)
    rpm   rpm.addScriptFiles -> rpmpack.AddX    (header tag of X)
-/
namespace Nfpm
open B

/-- insertion sort by slot name (internal/maps.Keys order) -/
def insertSlot (e : Bytes × Bytes) : List (Bytes × Bytes) → List (Bytes × Bytes)
  | [] => [e]
  | x :: xs => if ltB e.1 x.1 then e :: x :: xs else x :: insertSlot e xs

def sortSlots (l : List (Bytes × Bytes)) : List (Bytes × Bytes) := l.foldr insertSlot []

/-- scripts configured by the user: selector (e.g. "Scripts.PreInstall") ↦ file body -/
abbrev Configured := List (Bytes × Bytes)

def Configured.get (c : Configured) (sel : Bytes) : Option Bytes := (c.find? (·.1 == sel)).map (·.2)

/-- slots a table populates: every (slot, selector) whose selector is configured, slot-sorted -/
def populate (table : List (Bytes × Bytes × Nat)) (c : Configured) : List (Bytes × Bytes) :=
  sortSlots (table.filterMap (fun (slot, sel, _) => (c.get sel).map (fun body => (slot, body))))

/-- rpmpack: AddX ↦ header tag, and a scriptlet that is the empty string is not written;
    string tags end at the first NUL -/
def rpmTagOf (add : Bytes) : Option Bytes :=
  if add = b!"AddPrein" then some (b!"1023") else if add = b!"AddPostin" then some (b!"1024")
  else if add = b!"AddPreun" then some (b!"1025") else if add = b!"AddPostun" then some (b!"1026")
  else if add = b!"AddPretrans" then some (b!"1151") else if add = b!"AddPosttrans" then some (b!"1152")
  else if add = b!"AddVerifyScript" then some (b!"1079") else none

def untilNul : Bytes → Bytes
  | [] => []
  | x :: xs => if x = 0 then [] else x :: untilNul xs

def tableOf (f : Fmt) : List (Bytes × Bytes × Nat) :=
  match f with
  | .deb => Generated.scripts_deb
  | .ipk => Generated.scripts_ipk
  | .apk => Generated.scripts_apk
  | .arch => Generated.scripts_arch
  | .rpm => Generated.scripts_rpm

/-- what the packager of format `f` puts where (slot names: member name / function name /
    decimal rpm tag), as the source's tables say -/
def scriptSlots (f : Fmt) (c : Configured) : List (Bytes × Bytes) :=
  match f with
  | .rpm =>
    sortSlots ((tableOf .rpm).filterMap (fun (add, sel, _) =>
      match rpmTagOf add, c.get sel with
      | some tag, some body => if untilNul body = [] then none else some (tag, untilNul body)
      | _, _ => none))
  | f => populate (tableOf f) c

/-- arch.writeScripts: the .INSTALL file -/
def archInstall (slots : List (Bytes × Bytes)) : Bytes :=
  slots.flatMap (fun (name, body) => b!"function " ++ name ++ b!"() {\n" ++ body ++ b!"\n}\n\n")

/-- mode of the control member of a slot (deb/ipk/apk) -/
def slotMode (f : Fmt) (slot : Bytes) : Option Nat := ((tableOf f).find? (·.1 == slot)).map (·.2.2)

end Nfpm
