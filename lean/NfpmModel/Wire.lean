import NfpmModel.Contents
import NfpmModel.Payload
import NfpmModel.Version
import NfpmModel.Merge
import NfpmModel.Spec.DigestSpec
import NfpmModel.Spec.ArchiveSpec
/-
  Wire format shared by the driver and the Go harness: one request per line,
  space separated tokens; byte strings are lower-case hex ("-" = empty),
  numbers decimal.
-/
namespace Nfpm.Wire
open Nfpm

def hexVal (c : Char) : Option Nat :=
  if '0' ≤ c ∧ c ≤ '9' then some (c.toNat - '0'.toNat)
  else if 'a' ≤ c ∧ c ≤ 'f' then some (c.toNat - 'a'.toNat + 10)
  else none

def unhexAux : List Char → Bytes → Option Bytes
  | [], acc => some acc.reverse
  | [_], _ => none
  | a :: b :: rest, acc =>
    match hexVal a, hexVal b with
    | some x, some y => unhexAux rest ((x * 16 + y).toUInt8 :: acc)
    | _, _ => none

def unhex (s : String) : Option Bytes :=
  if s = "-" then some [] else unhexAux s.toList []

def hexChar (n : Nat) : Char :=
  if n < 10 then Char.ofNat (48 + n) else Char.ofNat (87 + n)

def hex (b : Bytes) : String :=
  if b.isEmpty then "-"
  else String.ofList (b.foldr (fun x acc => hexChar (x.toNat / 16) :: hexChar (x.toNat % 16) :: acc) [])

abbrev P := StateT (List String) (Except String)

def tok : P String := do
  match (← get) with
  | [] => throw "unexpected end of request"
  | t :: rest => set rest; pure t

def pBytes : P Bytes := do
  let t ← tok
  match unhex t with
  | some b => pure b
  | none => throw s!"bad hex token {t}"

def pNat : P Nat := do
  let t ← tok
  match t.toNat? with
  | some n => pure n
  | none => throw s!"bad nat token {t}"

def pInt : P Int := do
  let t ← tok
  match t.toInt? with
  | some n => pure n
  | none => throw s!"bad int token {t}"

def pBool : P Bool := do
  let n ← pNat
  pure (n != 0)

def pList {α} (p : P α) : P (List α) := do
  let n ← pNat
  let mut acc : Array α := #[]
  for _ in [0:n] do
    acc := acc.push (← p)
  pure acc.toList

def pFileInfo : P FileInfo := do
  let owner ← pBytes
  let group ← pBytes
  let mode ← pNat
  let mtime ← pInt
  let size ← pNat
  pure { owner, group, mode, mtime, size }

def pContent : P Content := do
  let src ← pBytes
  let dst ← pBytes
  let type ← pBytes
  let packager ← pBytes
  let has ← pBool
  let info ← if has then (some <$> pFileInfo) else pure none
  pure { src, dst, type, packager, info }

def pErrClass : P (Option ErrClass) := do
  match (← pNat) with
  | 0 => pure none
  | 1 => pure (some .notExist)
  | _ => pure (some .globFailed)

def pGlobRes : P (Nat × GlobRes) := do
  let idx ← pNat
  let err ← pErrClass
  let patternMissing ← pBool
  let hasMatchers ← pBool
  let hits ← pList (do let path ← pBytes; let isDir ← pBool; pure ({ path, isDir } : GlobMatch))
  pure (idx, { err, hits, patternMissing, hasMatchers })

def pWKind : P WKind := do
  match (← pNat) with
  | 0 => pure .dir
  | 1 => pure .symlink
  | _ => pure .file

def pWalk : P (Nat × Option (List WalkEnt)) := do
  let idx ← pNat
  let ok ← pBool
  let ents ← pList (do
    let rel ← pBytes
    let path ← pBytes
    let kind ← pWKind
    let mode ← pNat
    let mtime ← pInt
    let link ← pBytes
    pure ({ rel, path, kind, mode, mtime, link } : WalkEnt))
  pure (idx, if ok then some ents else none)

def pStat : P (Bytes × Stat) := do
  let p ← pBytes
  let isDir ← pBool
  let mode ← pNat
  let mtime ← pInt
  let size ← pNat
  pure (p, { isDir, mode, mtime, size })

def pOracle : P Oracle := do
  let globs ← pList pGlobRes
  let walks ← pList pWalk
  let stats ← pList pStat
  let links ← pList (do let a ← pBytes; let b ← pBytes; pure (a, b))
  pure { globs, walks, stats, links }

def pPlanCfg : P PlanCfg := do
  let packager ← pBytes
  let umask ← pNat
  let noGlob ← pBool
  let mtime ← pInt
  pure { packager, umask, noGlob, mtime }

/-- a planned entry as printed by `showContent` (always 10 tokens) -/
def pContentOut : P Content := do
  let src ← pBytes
  let dst ← pBytes
  let type ← pBytes
  let packager ← pBytes
  let has ← pBool
  let fi ← pFileInfo
  pure { src, dst, type, packager, info := if has then some fi else none }

def errClassOfName (s : String) : Option ErrClass :=
  [ErrClass.collision, .notExist, .globNoMatch, .globFailed, .relErr, .invalidType, .walkErr, .other].find? (·.name == s)

def pPlanResult : P (Except ErrClass (List Content)) := do
  match (← tok) with
  | "err" =>
    let n ← tok
    match errClassOfName n with
    | some e => pure (.error e)
    | none => throw s!"unknown error class {n}"
  | "ok" => do
    let l ← pList pContentOut
    pure (.ok l)
  | t => throw s!"bad result tag {t}"

def showContent (c : Content) : String :=
  let fi := c.info.getD {}
  s!"{hex c.src} {hex c.dst} {hex c.type} {hex c.packager} {if c.info.isSome then 1 else 0} {hex fi.owner} {hex fi.group} {fi.mode} {fi.mtime} {fi.size}"

def showContents (l : List Content) : String :=
  s!"ok {l.length}" ++ String.join (l.map (fun c => " " ++ showContent c))

def pFmt : P Fmt := do
  match (← tok) with
  | "deb" => pure .deb
  | "rpm" => pure .rpm
  | "apk" => pure .apk
  | "ipk" => pure .ipk
  | "archlinux" => pure .arch
  | t => throw s!"unknown format {t}"

def pMember : P Member := do
  let name ← pBytes
  let kind ← pNat
  let mode ← pNat
  let uname ← pBytes
  let gname ← pBytes
  let mtime ← pInt
  let size ← pNat
  let link ← pBytes
  let src ← pBytes
  let flags ← pNat
  let inPayload ← pBool
  pure { name, kind := kind.toUInt8, mode, uname, gname, mtime, size, link, src, flags, inPayload }

def showMember (m : Member) : String :=
  s!"{hex m.name} {m.kind.toNat} {m.mode} {hex m.uname} {hex m.gname} {m.mtime} {m.size} {hex m.link} {hex m.src} {m.flags} {if m.inPayload then 1 else 0}"

def showMembers (l : List Member) : String :=
  s!"{l.length}" ++ String.join (l.map (fun m => " " ++ showMember m))

def pVal : P Val := do
  match (← tok) with
  | "s" => do let b ← pBytes; pure (.str b)
  | "l" => do let l ← pList pBytes; pure (.list l)
  | "n" => do let n ← pInt; pure (.num n)
  | "b" => do let b ← pBool; pure (.bool b)
  | t => throw s!"bad value kind {t}"

def pLeaves : P Leaves := pList (do let p ← pBytes; let v ← pVal; pure (p, v))

def showVal : Val → String
  | .str b => s!"s {hex b}"
  | .list l => s!"l {l.length}" ++ String.join (l.map (fun b => " " ++ hex b))
  | .num n => s!"n {n}"
  | .bool b => s!"b {if b then 1 else 0}"

def showLeaves (l : Leaves) : String :=
  s!"{l.length}" ++ String.join (l.map (fun (p, v) => s!" {hex p} {showVal v}"))

def pVInfo : P VInfo := do
  let name ← pBytes
  let arch ← pBytes
  let epoch ← pBytes
  let version ← pBytes
  let schema ← pBytes
  let release ← pBytes
  let prerelease ← pBytes
  let metadata ← pBytes
  let archOverride ← pBytes
  let platform ← pBytes
  pure { name, arch, epoch, version, schema, release, prerelease, metadata, archOverride, platform }

def showBytesList (l : List Bytes) : String :=
  s!"{l.length}" ++ String.join (l.map (fun b => " " ++ hex b))

def pOptBytes : P (Option Bytes) := do
  match (← tok) with
  | "none" => pure none
  | "some" => do let b ← pBytes; pure (some b)
  | t => throw s!"bad option {t}"

def pOptNat : P (Option Nat) := do
  match (← tok) with
  | "none" => pure none
  | "some" => do let b ← pNat; pure (some b)
  | t => throw s!"bad option {t}"

def pSMember : P Spec.SMember := do
  let name ← pBytes
  let kind ← pNat
  let mode ← pNat
  let mtime ← pInt
  let size ← pNat
  let link ← pBytes
  let bodyLen ← pNat
  let md5 ← pBytes
  let sha1 ← pBytes
  let sha256 ← pBytes
  let pax ← pOptBytes
  pure { name, kind := kind.toUInt8, mode, mtime, size, link, bodyLen, md5, sha1, sha256, pax }

def pOptSMember : P (Option Spec.SMember) := do
  match (← tok) with
  | "none" => pure none
  | "some" => do let b ← pSMember; pure (some b)
  | t => throw s!"bad option {t}"

def pRpmFile : P Spec.RpmFile := do
  let name ← pBytes
  let kind ← pNat
  let ghost ← pBool
  let sizeTag ← pNat
  let digestTag ← pBytes
  let algoTag ← pOptNat
  let linkto ← pBytes
  let cpio ← pOptSMember
  pure { name, kind := kind.toUInt8, ghost, sizeTag, digestTag, algoTag, linkto, cpio }

def pRpmFacts : P Spec.RpmFacts := do
  let sigSha256 ← pOptBytes
  let headerSha256 ← pBytes
  let payloadDigest ← pOptBytes
  let payloadDigestAlgo ← pOptNat
  let payloadSha256 ← pBytes
  let sigSize ← pOptNat
  let headerLen ← pNat
  let payloadLen ← pNat
  let sigPayloadSize ← pOptNat
  let sizeTag ← pOptNat
  let files ← pList pRpmFile
  pure { sigSha256, headerSha256, payloadDigest, payloadDigestAlgo, payloadSha256, sigSize, headerLen, payloadLen,
         sigPayloadSize, sizeTag, files }

def pSegFacts : P Spec.SegFacts := do
  let aligned ← pBool
  let hasEndMarker ← pBool
  let trailingAfterMarker ← pNat
  let members ← pNat
  let firstName ← pBytes
  pure { aligned, hasEndMarker, trailingAfterMarker, members, firstName }

def verdict (v : List String) : String :=
  if v.isEmpty then "holds" else "violated " ++ String.intercalate ";" (v.map (fun s => s.replace " " "_"))

end Nfpm.Wire
