import NfpmModel.Path
import NfpmModel.Generated.FsPaths
/-
  Model of files/files.go + internal/glob/glob.go: content planning.
  The file system is an explicit oracle value (data), so every theorem
  quantifies over all file systems.
-/
namespace Nfpm
open B Path

/-- Go's zero time.Time as unix seconds (0001-01-01T00:00:00Z). -/
def zeroTime : Int := -62135596800

def isZeroT (t : Int) : Bool := t == zeroTime

namespace T
def file : Bytes := b!"file"
def dir : Bytes := b!"dir"
def implicitDir : Bytes := b!"implicit dir"
def tree : Bytes := b!"tree"
def symlink : Bytes := b!"symlink"
def config : Bytes := b!"config"
def configNoReplace : Bytes := b!"config|noreplace"
def configMissingOk : Bytes := b!"config|missingok"
def ghost : Bytes := b!"ghost"
def doc : Bytes := b!"doc"
def licence : Bytes := b!"licence"
def license : Bytes := b!"license"
def readme : Bytes := b!"readme"
def debChangelog : Bytes := b!"debian changelog"
end T

namespace P
def deb : Bytes := b!"deb"
def rpm : Bytes := b!"rpm"
def apk : Bytes := b!"apk"
def ipk : Bytes := b!"ipk"
def arch : Bytes := b!"archlinux"
end P

structure FileInfo where
  owner : Bytes := []
  group : Bytes := []
  mode : Nat := 0
  mtime : Int := zeroTime
  size : Nat := 0
deriving DecidableEq, Repr, Inhabited

structure Content where
  src : Bytes := []
  dst : Bytes := []
  type : Bytes := []
  packager : Bytes := []
  info : Option FileInfo := none
deriving DecidableEq, Repr, Inhabited

inductive ErrClass
  | collision | notExist | globNoMatch | globFailed | relErr | invalidType | walkErr
  /-- an error of the implementation that the harness cannot name (reworded message): only used for results handed to the spec -/
  | other
deriving DecidableEq, Repr

def ErrClass.name : ErrClass → String
  | .collision => "collision" | .notExist => "not-exist" | .globNoMatch => "glob-no-match"
  | .globFailed => "glob-failed" | .relErr => "rel-err" | .invalidType => "invalid-type"
  | .walkErr => "walk-err" | .other => "other"

/-- os.Stat result (follows symlinks) -/
structure Stat where
  isDir : Bool
  mode : Nat     -- Go FileMode bits
  mtime : Int
  size : Nat
deriving DecidableEq, Repr

structure GlobMatch where
  path : Bytes
  isDir : Bool   -- os.Stat(path) succeeded and is a directory
deriving DecidableEq, Repr

structure GlobRes where
  err : Option ErrClass       -- fileglob.Glob error class (notExist | globFailed)
  hits : List GlobMatch
  patternMissing : Bool       -- os.Stat(pattern) is ErrNotExist
  hasMatchers : Bool          -- fileglob.ContainsMatchers(pattern)
deriving Repr

inductive WKind | dir | symlink | file
deriving DecidableEq, Repr

structure WalkEnt where
  rel : Bytes      -- filepath.Rel(tree.Source, path)
  path : Bytes
  kind : WKind
  mode : Nat       -- dir: info.Mode(); otherwise d.Type()
  mtime : Int      -- dir: info.ModTime()
  link : Bytes     -- symlink: readlink target
deriving Repr

structure Oracle where
  globs : List (Nat × GlobRes) := []
  walks : List (Nat × Option (List WalkEnt)) := []     -- none = WalkDir error
  stats : List (Bytes × Stat) := []                    -- absent = os.Stat error
  links : List (Bytes × Bytes) := []                   -- os.Readlink success
deriving Repr

def Oracle.stat (O : Oracle) (p : Bytes) : Option Stat := (O.stats.find? (·.1 == p)).map (·.2)
def Oracle.readlink (O : Oracle) (p : Bytes) : Option Bytes := (O.links.find? (·.1 == p)).map (·.2)
def Oracle.glob (O : Oracle) (i : Nat) : Option GlobRes := (O.globs.find? (·.1 == i)).map (·.2)
def Oracle.walk (O : Oracle) (i : Nat) : Option (Option (List WalkEnt)) := (O.walks.find? (·.1 == i)).map (·.2)

def andNot (a b : Nat) : Nat := a ^^^ (a &&& b)

def isDirType (t : Bytes) : Bool := t == T.dir || t == T.implicitDir

-- io/fs.FileMode keeps these three outside the low twelve bits
def goSetuid : Nat := 2 ^ 23
def goSetgid : Nat := 2 ^ 22
def goSticky : Nat := 2 ^ 20

/-- files.unixModeBits: a mode read from the file system, with set-user-ID, set-group-ID and sticky moved to where a
    mode given in the configuration has them (04000, 02000, 01000) -/
def unixModeBits (m : Nat) : Nat :=
  andNot m (goSetuid ||| goSetgid ||| goSticky)
    ||| (if m &&& goSetuid != 0 then 0o4000 else 0)
    ||| (if m &&& goSetgid != 0 then 0o2000 else 0)
    ||| (if m &&& goSticky != 0 then 0o1000 else 0)

/-- the mtime WithFileInfoDefaults settles on: the explicit one, else the package mtime, else – when
    the source was stat-ed – its on-disk mtime, else the package mtime again -/
def pickMtime (explicit pkgMtime : Int) (statMtime : Option Int) : Int :=
  let mt0 := if isZeroT explicit then pkgMtime else explicit
  let mt1 := match statMtime with
    | some s => if isZeroT mt0 then s else mt0
    | none => mt0
  if isZeroT mt1 then pkgMtime else mt1

/-- Content.WithFileInfoDefaults (value projection) -/
def withDefaults (O : Oracle) (umask : Nat) (mtime : Int) (c : Content) : Content :=
  let ty := if c.type = [] then T.file else c.type
  let fi := c.info.getD {}
  let owner := if fi.owner = [] then b!"root" else fi.owner
  let group := if fi.group = [] then b!"root" else fi.group
  let mode := if isDirType ty && fi.mode == 0 then 0o755 else fi.mode
  let mt0 := if isZeroT fi.mtime then mtime else fi.mtime
  let complete := !isZeroT mt0 && mode != 0 && (fi.size != 0 || isDirType ty)
  -- only stat the source when more information is needed
  let st : Option Stat := if c.src ≠ [] && !complete then O.stat c.src else none
  let mode := match st with
    | some s => if mode == 0 then andNot (unixModeBits s.mode) umask else mode
    | none => mode
  let size := match st with
    | some s => s.size
    | none => fi.size
  { src := c.src, dst := c.dst, type := ty, packager := c.packager,
    info := some { owner, group, mode, mtime := pickMtime fi.mtime mtime (st.map (·.mtime)), size } }

abbrev CMap := List (Bytes × Content)

def CMap.lookup (m : CMap) (k : Bytes) : Option Content :=
  match m with
  | [] => none
  | (k', v) :: rest => if k' = k then some v else CMap.lookup rest k

def CMap.insert (m : CMap) (k : Bytes) (v : Content) : CMap :=
  match m with
  | [] => [(k, v)]
  | (k', v') :: rest => if k' = k then (k, v) :: rest else (k', v') :: CMap.insert rest k v

def CMap.keys (m : CMap) : List Bytes := m.map (·.1)

/-- files.isRelevantForPackager -/
def isRelevant (packager : Bytes) (c : Content) : Bool :=
  if packager = [] then true
  else if c.packager ≠ [] && c.packager ≠ packager then false
  else if packager ≠ P.rpm &&
      (c.type == T.doc || c.type == T.licence || c.type == T.license || c.type == T.readme || c.type == T.ghost) then false
  else if packager ≠ P.deb && c.type == T.debChangelog then false
  else true

def implicitDirEntry (k : Bytes) (mtime : Int) : Content :=
  { dst := k, type := T.implicitDir,
    info := some { owner := b!"root", group := b!"root", mode := 0o755, mtime := mtime } }

/-- files.occupant: what already sits at a destination, as a non-directory or as a directory -/
def occupant (m : CMap) (dst : Bytes) : Option Content :=
  match m.lookup (normFile dst) with
  | some c => some c
  | none => m.lookup (normDir dst)

/-- files.addParents over an explicit parent list -/
def addParentsL (mtime : Int) : List Bytes → CMap → Except ErrClass CMap
  | [], m => .ok m
  | p :: ps, m =>
    match m.lookup (normFile p) with
    | some _ => .error .collision
    | none =>
      let k := normDir p
      match m.lookup k with
      | some c => if isDirType c.type then addParentsL mtime ps m else .error .collision
      | none => addParentsL mtime ps (m.insert k (implicitDirEntry k mtime))

/-- files.addParents -/
def addParents (m : CMap) (path : Bytes) (mtime : Int) : Except ErrClass CMap :=
  addParentsL mtime (sortedParentsC path) m

/-- files.ownedByFilesystem -/
def ownedByFs (p : Bytes) : Bool := (Generated.fsPaths ++ Generated.logrotatePaths).contains (toNix p)

/-- glob.strlcp -/
def strlcp : Bytes → Bytes → Bytes
  | a :: as, b :: bs => if a = b then a :: strlcp as bs else []
  | _, _ => []

/-- glob.longestCommonPrefix -/
def longestCommonPrefix : List Bytes → Bytes
  | [] => []
  | s :: rest => (s :: rest).foldl strlcp s

/-- glob.Glob after matching: source → destination pairs in match order. -/
def globMap (pattern dst : Bytes) (noGlob : Bool) (g : GlobRes) : Except ErrClass (List (Bytes × Bytes)) :=
  match g.err with
  | some e => .error e
  | none =>
    if g.hits.isEmpty then .error .globNoMatch
    else
      let pfx := if g.patternMissing || (g.hasMatchers && !noGlob)
                 then dir (longestCommonPrefix (g.hits.map (·.path))) else pattern
      g.hits.foldlM (fun acc h =>
        if h.isDir then .ok acc
        else if hasSuffix dst slashS then .ok (acc ++ [(h.path, join2 dst (base h.path))])
        else match rel pfx h.path with
          | none => .error .relErr
          | some r => .ok (acc ++ [(h.path, join2 dst r)])) []

/-- files.addGlobbedFiles -/
def addGlobbed (O : Oracle) (umask : Nat) (mtime : Int) (orig : Content) :
    List (Bytes × Bytes) → CMap → Except ErrClass CMap
  | [], m => .ok m
  | (src, dst) :: rest, m =>
    let d := normFile dst
    match occupant m d with
    | some _ => .error .collision
    | none =>
      match addParents m d mtime with
      | .error e => .error e
      | .ok m =>
        let fi := orig.info.map (fun fi => { fi with size := 0 })
        let nf := withDefaults O umask mtime
          { dst := normFile d, src := toNix src, type := orig.type, info := fi, packager := orig.packager }
        let nf := match O.readlink src with
          | some tgt => { nf with src := tgt, type := T.symlink }
          | none => nf
        addGlobbed O umask mtime orig rest (m.insert d nf)

def setMode (c : Content) (mode : Nat) : Content :=
  { c with info := c.info.map (fun i => { i with mode := mode }) }

/-- the entry the WalkDir callback builds before the tree's own mode is applied -/
def treeBase (umask : Nat) (tree : Content) (e : WalkEnt) : Content :=
  let destination := join2 tree.dst e.rel
  let og : Bytes × Bytes := match tree.info with
    | some fi => if ownedByFs tree.dst then ([], []) else (fi.owner, fi.group)
    | none => ([], [])
  match e.kind with
  | .dir =>
    { type := if ownedByFs (normDir destination) then T.implicitDir else T.dir, dst := normDir destination,
      info := some { owner := og.1, group := og.2, mode := andNot (unixModeBits e.mode) umask, mtime := e.mtime } }
  | .symlink =>
    { type := T.symlink, src := e.link, dst := normFile destination,
      info := some { owner := og.1, group := og.2 } }
  | .file =>
    { type := T.file, src := e.path, dst := normFile destination,
      info := some { owner := og.1, group := og.2, mode := andNot e.mode umask } }

/-- `if tree.FileInfo != nil && tree.FileInfo.Mode != 0 && c.Type != TypeSymlink` -/
def treeAdj (tree : Content) (c : Content) : Content :=
  match tree.info with
  | some fi => if fi.mode != 0 && c.type != T.symlink then setMode c fi.mode else c
  | none => c

def treeEntry (O : Oracle) (umask : Nat) (mtime : Int) (tree : Content) (e : WalkEnt) : Content :=
  withDefaults O umask mtime (treeAdj tree (treeBase umask tree e))

/-- the WalkDir callback of files.addTree, over the listed entries -/
def addTreeEnts (O : Oracle) (umask : Nat) (mtime : Int) (tree : Content) :
    List WalkEnt → CMap → Except ErrClass CMap
  | [], m => .ok m
  | e :: rest, m =>
    let c := treeEntry O umask mtime tree e
    let destination := join2 tree.dst e.rel
    if isDirType c.type then
      match m.lookup (normFile destination) with
      | some _ => .error .collision
      | none =>
        match m.lookup c.dst with
        | some p =>
          if p.type ≠ T.implicitDir then
            (if c.type = T.implicitDir then addTreeEnts O umask mtime tree rest m
             else .error .collision)
          else addTreeEnts O umask mtime tree rest (m.insert c.dst c)
        | none => addTreeEnts O umask mtime tree rest (m.insert c.dst c)
    else
      match occupant m destination with
      | some _ => .error .collision
      | none => addTreeEnts O umask mtime tree rest (m.insert c.dst c)

/-- files.addTree -/
def addTree (O : Oracle) (umask : Nat) (mtime : Int) (i : Nat) (tree : Content) (m : CMap) :
    Except ErrClass CMap :=
  let pre : Except ErrClass Unit :=
    if tree.dst ≠ slashS && tree.dst ≠ [] then
      match m.lookup (normDir tree.dst) with
      | some c => if c.type ≠ T.implicitDir then .error .collision else .ok ()
      | none => .ok ()
    else .ok ()
  match pre with
  | .error e => .error e
  | .ok () =>
    match addParents m tree.dst mtime with
    | .error e => .error e
    | .ok m =>
      match O.walk i with
      | some (some ents) => addTreeEnts O umask mtime tree ents m
      | _ => .error .walkErr

inductive TypeClass | dir | implicitDir | fileLike | tree | globbed | invalid
deriving DecidableEq, Repr

/-- the `switch content.Type` of files.PrepareForPackager (arms regenerated: Generated.G3) -/
def classify (t : Bytes) : TypeClass :=
  if t = T.dir then .dir
  else if t = T.implicitDir then .implicitDir
  else if t = T.ghost || t = T.symlink || t = T.doc || t = T.licence || t = T.license
        || t = T.readme || t = T.debChangelog then .fileLike
  else if t = T.tree then .tree
  else if t = T.config || t = T.configNoReplace || t = T.configMissingOk || t = T.file || t = [] then .globbed
  else .invalid

/-- the two occupancy tests of the `TypeDir` arm: an explicit directory, or any
    non-directory, already sits at the destination -/
def dirOccupied (m : CMap) (dst : Bytes) : Bool :=
  (match m.lookup (normDir dst) with
   | some p => p.type != T.implicitDir
   | none => false) || (m.lookup (normFile dst)).isSome

structure PlanCfg where
  umask : Nat
  packager : Bytes
  noGlob : Bool
  mtime : Int

/-- one iteration of the loop in files.PrepareForPackager -/
def planStep (O : Oracle) (cfg : PlanCfg) (m : CMap) (ic : Nat × Content) : Except ErrClass CMap :=
  let (i, c) := ic
  if !isRelevant cfg.packager c then .ok m
  else match classify c.type with
  | .dir =>
    let k := normDir c.dst
    if dirOccupied m c.dst then .error .collision
    else match addParents m c.dst cfg.mtime with
      | .error e => .error e
      | .ok m =>
        let cc := withDefaults O cfg.umask cfg.mtime c
        .ok (m.insert k { cc with src := toNix cc.src, dst := k })
  | .implicitDir => .ok m
  | .fileLike =>
    let k := normFile c.dst
    match occupant m c.dst with
    | some _ => .error .collision
    | none =>
      match addParents m c.dst cfg.mtime with
      | .error e => .error e
      | .ok m =>
        let cc := withDefaults O cfg.umask cfg.mtime c
        .ok (m.insert k { cc with src := toNix cc.src, dst := k })
  | .tree => addTree O cfg.umask cfg.mtime i c m
  | .globbed =>
    match O.glob i with
    | none => .error .globFailed
    | some g =>
      match globMap c.src c.dst cfg.noGlob g with
      | .error e => .error e
      | .ok pairs => addGlobbed O cfg.umask cfg.mtime c pairs m
  | .invalid => .error .invalidType

def planMap (O : Oracle) (cfg : PlanCfg) : List (Nat × Content) → CMap → Except ErrClass CMap
  | [], m => .ok m
  | ic :: rest, m =>
    match planStep O cfg m ic with
    | .error e => .error e
    | .ok m => planMap O cfg rest m

/-- Contents.Less -/
def contentLe (a b : Content) : Bool :=
  if a.dst ≠ b.dst then ltB a.dst b.dst
  else if a.type ≠ b.type then ltB a.type b.type
  else leB a.packager b.packager

def zipIdx {α} (l : List α) : List (Nat × α) := (List.range l.length).zip l

/-- files.PrepareForPackager -/
def plan (O : Oracle) (cfg : PlanCfg) (raw : List Content) : Except ErrClass (List Content) :=
  match planMap O cfg (zipIdx raw) [] with
  | .error e => .error e
  | .ok m => .ok ((m.map (·.2)).mergeSort contentLe)

end Nfpm
