import NfpmModel.Contents
/-
  Model of nfpm.Config.Get: the per-format effective settings obtained by merging the
  format's override block into the base settings with mergo (WithOverride), on the
  flattened leaves of `Overridables`, plus the content filter and Config.Validate's
  override-key check.

  mergo's rules for the kinds that occur (dario.cat/mergo v1, deepMerge with overwrite):
    string / number / bool   src replaces dst iff src is non-empty
    slice                    src replaces dst wholesale iff src is non-empty
    struct                   field by field
    map[string]string        key by key, src wins for every key it holds (even an empty value)
-/
namespace Nfpm
open B

inductive Val
  | str (b : Bytes)
  | list (l : List Bytes)
  | num (n : Int)
  | bool (b : Bool)
deriving DecidableEq, Repr

def Val.nonEmpty : Val → Bool
  | .str b => b ≠ []
  | .list l => l ≠ []
  | .num n => n ≠ 0
  | .bool b => b

/-- flattened settings: path ↦ value.  Map entries are leaves whose path holds "{key}";
    they exist only for keys that are present. -/
abbrev Leaves := List (Bytes × Val)

def Leaves.get (l : Leaves) (p : Bytes) : Option Val := (l.find? (·.1 == p)).map (·.2)

def isMapKeyPath (p : Bytes) : Bool := p.contains 123   -- '{'

/-- does an override value replace the base value at this path? -/
def wins (p : Bytes) (w : Val) : Bool := isMapKeyPath p || w.nonEmpty

/-- the effective value of one base leaf -/
def mergeOne (ov : Leaves) (x : Bytes × Val) : Bytes × Val :=
  match ov.get x.1 with
  | some w => if wins x.1 w then (x.1, w) else x
  | none => x

/-- leaves only the override block holds (map keys absent from the base) -/
def extraLeaves (base ov : Leaves) : Leaves :=
  ov.filter (fun x => (base.get x.1).isNone && wins x.1 x.2)

/-- mergo.Merge(&info.Overridables, override, WithOverride) on leaves -/
def mergeLeaves (base ov : Leaves) : Leaves := base.map (mergeOne ov) ++ extraLeaves base ov

structure CfgModel where
  base : Leaves
  baseContents : List Content
  overrides : List (Bytes × Leaves × List Content)   -- format ↦ (leaves, contents) of its block

def CfgModel.block (c : CfgModel) (f : Bytes) : Option (Leaves × List Content) :=
  (c.overrides.find? (·.1 == f)).map (·.2)

/-- Config.Get(format): (effective leaves, effective contents) -/
def getEffective (c : CfgModel) (f : Bytes) : Leaves × List Content :=
  match c.block f with
  | none => (c.base, c.baseContents)
  | some (ov, ovContents) =>
    let contents := if ovContents ≠ [] then ovContents else c.baseContents
    (mergeLeaves c.base ov, contents.filter (fun x => x.packager == f || x.packager == []))

/-- Config.Validate's check of the override keys against the registered packagers -/
def overridesRegistered (c : CfgModel) (registered : List Bytes) : Bool :=
  c.overrides.all (fun o => registered.contains o.1)

end Nfpm
