import NfpmModel.Bytes
import NfpmModel.Generated.G1Arch
/-
  Version handling:
    * Masterminds/semver v3 `NewVersion` (the pinned regex + validators + uint64 bound) as a
      deterministic recogniser; numeric components are kept as their digit strings
      (the grammar forbids leading zeros, so `%d` re-renders them unchanged),
    * nfpm.WithDefaults / Info.parseSemver,
    * the version syntax of each format and the conventional file names,
    * the package managers' comparison algorithms (dpkg verrevcmp, rpm rpmvercmp)
      as specifications.
-/
namespace Nfpm
open B

def isDigit (c : UInt8) : Bool := 48 ≤ c && c ≤ 57
def isAlpha (c : UInt8) : Bool := (65 ≤ c && c ≤ 90) || (97 ≤ c && c ≤ 122)
def isIdentChar (c : UInt8) : Bool := isDigit c || isAlpha c || c == 45

def tilde : UInt8 := 126
def plus : UInt8 := 43
def minus : UInt8 := 45
def colon : UInt8 := 58
def underscore : UInt8 := 95

namespace SemVer

/-- `0|[1-9]\d*` at the head of the input: the digit string and the rest -/
def takeNum : Bytes → Option (Bytes × Bytes)
  | [] => none
  | c :: rest =>
    if c = 48 then some ([48], rest)
    else if isDigit c then some (c :: rest.takeWhile isDigit, rest.dropWhile isDigit)
    else none

def maxU64 : Bytes := b!"18446744073709551615"

/-- strconv.ParseUint(s, 10, 64) succeeds on a canonical digit string -/
def fitsU64 (d : Bytes) : Bool := d.length < 20 || (d.length == 20 && !ltB maxU64 d)

def allDigits (s : Bytes) : Bool := s.all isDigit

/-- prerelease identifier: `0|[1-9]\d*|\d*[a-zA-Z-][0-9a-zA-Z-]*` -/
def validPreIdent (s : Bytes) : Bool :=
  !s.isEmpty && s.all isIdentChar && (!allDigits s || s.length == 1 || s.head? != some 48)

/-- metadata identifier: `[0-9a-zA-Z-]+` -/
def validMetaIdent (s : Bytes) : Bool := !s.isEmpty && s.all isIdentChar

structure V where
  major : Bytes
  minor : Bytes
  patch : Bytes
  pre : Bytes
  build : Bytes
deriving DecidableEq, Repr

/-- optional `.NUM` -/
def optNum (s : Bytes) : Option Bytes × Bytes :=
  match s with
  | c :: rest =>
    if c = dot then
      match takeNum rest with
      | some (d, r) => (some d, r)
      | none => (none, s)
    else (none, s)
  | [] => (none, s)

/-- semver.NewVersion (none = ErrInvalidSemVer or a segment that overflows uint64) -/
def parse (s : Bytes) : Option V :=
  let s := match s with
    | c :: rest => if c = 118 then rest else s   -- optional 'v'
    | [] => s
  match takeNum s with
  | none => none
  | some (maj, r) =>
    let (mi, r) := optNum r
    let (pa, r) := match mi with
      | some _ => optNum r
      | none => (none, r)
    -- optional -PRE
    let (pre, r) : Option Bytes × Bytes := match r with
      | c :: rest =>
        if c = minus then
          let p := rest.takeWhile (fun x => x != plus)
          (some p, rest.dropWhile (fun x => x != plus))
        else (none, r)
      | [] => (none, r)
    let (bmeta, r) : Option Bytes × Bytes := match r with
      | c :: rest => if c = plus then (some rest, []) else (none, r)
      | [] => (none, r)
    if r ≠ [] then none
    else
      let preOk := match pre with
        | some p => (splitOn dot p).all validPreIdent
        | none => true
      let metaOk := match bmeta with
        | some m => (splitOn dot m).all validMetaIdent
        | none => true
      if !preOk || !metaOk then none
      else if !(fitsU64 maj && fitsU64 (mi.getD [48]) && fitsU64 (pa.getD [48])) then none
      else some { major := maj, minor := mi.getD [48], patch := pa.getD [48], pre := pre.getD [], build := bmeta.getD [] }

/-- "M.m.p" -/
def core (v : V) : Bytes := v.major ++ dot :: v.minor ++ dot :: v.patch

/-- canonical rendering `M.m.p[-pre][+meta]` -/
def render (v : V) : Bytes :=
  core v ++ (if v.pre = [] then [] else minus :: v.pre) ++ (if v.build = [] then [] else plus :: v.build)

end SemVer

/-- the version-related fields of nfpm.Info -/
structure VInfo where
  name : Bytes := []
  arch : Bytes := []
  epoch : Bytes := []
  version : Bytes := []
  schema : Bytes := []
  release : Bytes := []
  prerelease : Bytes := []
  metadata : Bytes := []
  archOverride : Bytes := []     -- Deb.Arch / RPM.Arch / … of the format at hand
  platform : Bytes := []         -- Info.Platform (nfpm.WithDefaults makes it "linux" when unset)
deriving DecidableEq, Repr

/-- the version part of nfpm.WithDefaults (after the empty-version default) -/
def withDefaultsVersion (i : VInfo) : VInfo :=
  let i := if i.version = [] then { i with version := b!"v0.0.0-rc0" } else i
  if i.schema = b!"none" then i
  else match SemVer.parse i.version with
    | none => i
    | some v =>
      { i with version := SemVer.core v,
               prerelease := if i.prerelease = [] then v.pre else i.prerelease,
               metadata := if i.metadata = [] then v.build else i.metadata }

/-- deb / ipk control `Version:` and file-name version (file name: no epoch) -/
def debVersion (withEpoch : Bool) (i : VInfo) : Bytes :=
  (if withEpoch && i.epoch ≠ [] then i.epoch ++ [colon] else []) ++ i.version
    ++ (if i.prerelease ≠ [] then tilde :: i.prerelease else [])
    ++ (if i.metadata ≠ [] then plus :: i.metadata else [])
    ++ (if i.release ≠ [] then minus :: i.release else [])

/-- rpm.formatVersion -/
def rpmVersion (i : VInfo) : Bytes :=
  i.version ++ (if i.prerelease ≠ [] then tilde :: replaceByte minus [underscore] i.prerelease else [])
    ++ (if i.metadata ≠ [] then plus :: i.metadata else [])

def rpmRelease (i : VInfo) : Bytes := if i.release = [] then b!"1" else i.release

/-- apk.pkgver -/
def apkVersion (i : VInfo) : Bytes :=
  let rel := if i.release = [] then [] else
    minus :: (if hasPrefix i.release (b!"r") then i.release else 114 :: i.release)
  let bmeta := if i.metadata = [] then [] else
    minus :: (if hasPrefix i.metadata (b!"p") || hasPrefix i.metadata (b!"cvs") || hasPrefix i.metadata (b!"svn")
                 || hasPrefix i.metadata (b!"git") || hasPrefix i.metadata (b!"hg") then i.metadata else 112 :: i.metadata)
  i.version ++ (if i.prerelease ≠ [] then underscore :: i.prerelease else []) ++ rel ++ bmeta

/-- strconv.Atoi on a release string: optional sign and digits (none = error) -/
def atoi (s : Bytes) : Option Int :=
  let (neg, d) := match s with
    | c :: rest => if c = minus then (true, rest) else if c = plus then (false, rest) else (false, s)
    | [] => (false, s)
  if d = [] || !d.all isDigit then none
  else
    let n : Nat := d.foldl (fun (acc : Nat) (c : UInt8) => acc * 10 + (c.toNat - 48)) 0
    if neg then (if n ≤ 2 ^ 63 then some (-(n : Int)) else none)
    else (if n < 2 ^ 63 then some (n : Int) else none)

def archPkgrel (i : VInfo) : Int := (atoi i.release).getD 1

/-- strconv.ParseUint(s, 10, 64) followed by `%d`: the canonical digits, or none on error -/
def parseUintCanon (s : Bytes) : Option Bytes :=
  if s = [] || !s.all isDigit then none
  else
    let d := s.dropWhile (· == 48)
    let d := if d = [] then [48] else d
    if SemVer.fitsU64 d then some d else none

/-- archlinux version without epoch: version, prerelease ('-' → '_'), pkgrel -/
def archVerRel (i : VInfo) : Bytes :=
  i.version ++ replaceByte minus [underscore] i.prerelease ++ minus :: intToDec (archPkgrel i)

/-- archlinux pkgver in .PKGINFO (arch.createPkginfo).  NOTE the asymmetry of the code that
    exists: without a (parsable) epoch the prerelease is dropped – known finding
    C02/C15-arch-pkgver-prerelease (the pinned tests assert this output). -/
def archPkgver (i : VInfo) : Bytes :=
  match (if i.epoch = [] then none else parseUintCanon i.epoch) with
  | some e => e ++ colon :: archVerRel i
  | none => i.version ++ minus :: intToDec (archPkgrel i)

/-- translated architecture: override verbatim, else table, else unchanged -/
def lookupArch (table : List (Bytes × Bytes)) (arch : Bytes) : Bytes :=
  match table.find? (·.1 == arch) with
  | some (_, v) => v
  | none => arch

def targetArch (table : List (Bytes × Bytes)) (i : VInfo) : Bytes :=
  if i.archOverride ≠ [] then i.archOverride else lookupArch table i.arch

/-- arch.mapValidChar / validPkgName -/
def archValidChar (c : UInt8) : Bool := isAlpha c || isDigit c || c == dot || c == underscore || c == plus || c == minus

def trimLeftSet (p : UInt8 → Bool) : Bytes → Bytes
  | [] => []
  | x :: xs => if p x then trimLeftSet p xs else x :: xs

def archValidPkgName (s : Bytes) : Bytes :=
  trimLeftSet (fun c => c == minus || c == dot) (s.filter archValidChar)

/-- the deb control template: `{{ if ne .Info.Platform "linux"}}{{ .Info.Platform }}-{{ end }}{{.Info.Arch}}` -/
def debControlArch (i : VInfo) : Bytes :=
  (if i.platform ≠ b!"linux" then i.platform ++ [minus] else []) ++ targetArch Generated.archMap_deb i

/-- deb.ConventionalFileName (after fix 34d43d4): the platform prefix of the control file, when a platform is set -/
def debNameArch (i : VInfo) : Bytes :=
  (if i.platform ≠ [] && i.platform ≠ b!"linux" then i.platform ++ [minus] else []) ++ targetArch Generated.archMap_deb i

/-- ConventionalFileName of each packager (`i` after WithDefaults) -/
def debFileName (i : VInfo) : Bytes :=
  i.name ++ underscore :: debVersion false i ++ underscore :: debNameArch i ++ b!".deb"
def ipkFileName (i : VInfo) : Bytes :=
  i.name ++ underscore :: debVersion false i ++ underscore :: targetArch Generated.archMap_ipk i ++ b!".ipk"
def rpmFileName (i : VInfo) : Bytes :=
  i.name ++ minus :: rpmVersion i ++ minus :: rpmRelease i ++ dot :: targetArch Generated.archMap_rpm i ++ b!".rpm"
def apkFileName (i : VInfo) : Bytes :=
  i.name ++ underscore :: apkVersion i ++ underscore :: targetArch Generated.archMap_apk i ++ b!".apk"
def archFileName (i : VInfo) : Bytes :=
  archValidPkgName (i.name ++ minus :: (i.version ++ replaceByte minus [underscore] i.prerelease) ++ minus ::
    intToDec (archPkgrel i) ++ minus :: targetArch Generated.archMap_archlinux i ++ b!".pkg.tar.zst")

/-! ### comparison algorithms of the package managers (specification) -/

/-- dpkg `order()` -/
def dpkgOrder (c : Option UInt8) : Int :=
  match c with
  | none => 0
  | some c => if isDigit c then 0 else if isAlpha c then c.toNat else if c = tilde then -1 else (c.toNat : Int) + 256

/-- compare two digit runs numerically (leading zeros skipped): lengths first, then first difference -/
def cmpDigits (a b : Bytes) : Int :=
  let a := a.dropWhile (· == 48)
  let b := b.dropWhile (· == 48)
  if a.length > b.length then 1 else if a.length < b.length then -1
  else match (a.zip b).find? (fun p => p.1 ≠ p.2) with
    | some (x, y) => (x.toNat : Int) - y.toNat
    | none => 0

/-- dpkg `verrevcmp` (lib/dpkg/version.c), fuel-bounded by the combined length -/
def verrevcmpF : Nat → Bytes → Bytes → Int
  | 0, _, _ => 0
  | fuel + 1, a, b =>
    if a = [] && b = [] then 0
    else
      let aHead := a.head?
      let bHead := b.head?
      let aNon := match aHead with | some c => !isDigit c | none => false
      let bNon := match bHead with | some c => !isDigit c | none => false
      if aNon || bNon then
        let ac := dpkgOrder aHead
        let bc := dpkgOrder bHead
        if ac ≠ bc then ac - bc else verrevcmpF fuel (a.drop 1) (b.drop 1)
      else
        let da := a.takeWhile isDigit
        let db := b.takeWhile isDigit
        let r := cmpDigits da db
        if r ≠ 0 then r else verrevcmpF fuel (a.dropWhile isDigit) (b.dropWhile isDigit)

def verrevcmp (a b : Bytes) : Int := verrevcmpF (a.length + b.length + 1) a b

/-- split "E:U-R" as dpkg's parseversion does: epoch before the first ':', revision after the last '-' -/
def dpkgSplit (s : Bytes) : Bytes × Bytes × Bytes :=
  let (epoch, rest) :=
    if s.contains colon then (s.takeWhile (· != colon), (s.dropWhile (· != colon)).drop 1) else ([], s)
  if rest.contains minus then
    let rev := (rest.reverse.takeWhile (· != minus)).reverse
    let up := (rest.reverse.dropWhile (· != minus)).drop 1 |>.reverse
    (epoch, up, rev)
  else (epoch, rest, [])

/-- dpkg version comparison: epoch numerically, then upstream, then revision -/
def dpkgCompare (a b : Bytes) : Int :=
  let (ea, ua, ra) := dpkgSplit a
  let (eb, ub, rb) := dpkgSplit b
  let e := cmpDigits ea eb
  if e ≠ 0 then e
  else
    let u := verrevcmp ua ub
    if u ≠ 0 then u else verrevcmp ra rb

/-- rpmvercmp: characters skipped between segments -/
def rsep (c : UInt8) : Bool := !(isAlpha c || isDigit c) && c != tilde && c != 94

/-- one iteration of the loop of rpm `rpmvercmp` (rpmio/rpmvercmp.c) after the separators
    were skipped; `rec` continues with the remainders -/
def rpmBody (rec : Bytes → Bytes → Int) (a b : Bytes) : Int :=
  -- tilde sorts before everything
  if a.head? = some tilde || b.head? = some tilde then
    if a.head? ≠ some tilde then 1
    else if b.head? ≠ some tilde then -1
    else rec (a.drop 1) (b.drop 1)
  else if a.head? = some 94 || b.head? = some 94 then
    if a = [] then -1 else if b = [] then 1
    else if a.head? ≠ some 94 then 1 else if b.head? ≠ some 94 then -1
    else rec (a.drop 1) (b.drop 1)
  else if a = [] || b = [] then
    (if a = [] && b = [] then 0 else if a = [] then -1 else 1)
  else
    let isNum := match a.head? with | some c => isDigit c | none => false
    let segA := if isNum then a.takeWhile isDigit else a.takeWhile isAlpha
    let restA := if isNum then a.dropWhile isDigit else a.dropWhile isAlpha
    let segB := if isNum then b.takeWhile isDigit else b.takeWhile isAlpha
    let restB := if isNum then b.dropWhile isDigit else b.dropWhile isAlpha
    if segB = [] then (if isNum then 1 else -1)
    else
      let r : Int :=
        if isNum then cmpDigits segA segB
        else if ltB segA segB then -1 else if ltB segB segA then 1 else 0
      if r ≠ 0 then (if r < 0 then -1 else 1) else rec restA restB

/-- rpm `rpmvercmp`, fuel-bounded -/
def rpmvercmpF : Nat → Bytes → Bytes → Int
  | 0, _, _ => 0
  | fuel + 1, a, b => rpmBody (rpmvercmpF fuel) (a.dropWhile rsep) (b.dropWhile rsep)

def rpmvercmp (a b : Bytes) : Int :=
  if a = b then 0 else rpmvercmpF (a.length + b.length + 1) a b

end Nfpm
