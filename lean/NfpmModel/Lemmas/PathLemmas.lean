import NfpmModel.Path
import NfpmModel.Spec.PlanSpec
/-
  Helper lemmas about the path model (all byte strings, no length bound).
-/
namespace Nfpm.Path
open Nfpm B

/-- a proper path component: non-empty, not "." / "..", slash-free -/
def Proper (c : Bytes) : Prop := c ≠ [] ∧ c ≠ dotS ∧ c ≠ dotdotS ∧ slash ∉ c

theorem splitOn_ne_nil (sep : UInt8) (s : Bytes) : splitOn sep s ≠ [] := by
  induction s with
  | nil => simp [splitOn]
  | cons c cs ih =>
    unfold splitOn
    split
    · simp
    · split <;> simp

theorem splitOn_noSep (sep : UInt8) (s : Bytes) : ∀ c ∈ splitOn sep s, sep ∉ c := by
  induction s with
  | nil => intro c hc; simp [splitOn] at hc; subst hc; simp
  | cons x xs ih =>
    intro c hc
    unfold splitOn at hc
    split at hc
    · rcases List.mem_cons.mp hc with h | h
      · subst h; simp
      · exact ih c h
    · rename_i hne
      split at hc
      · simp at hc; subst hc; simp; exact fun h => hne h.symm
      · rename_i y ys heq
        rcases List.mem_cons.mp hc with h | h
        · subst h
          have hy : sep ∉ y := ih y (by rw [heq]; simp)
          simp only [List.mem_cons, not_or]
          exact ⟨fun h => hne h.symm, hy⟩
        · exact ih c (by rw [heq]; exact List.mem_cons_of_mem _ h)

theorem splitOn_of_noSep (sep : UInt8) (x : Bytes) (h : sep ∉ x) : splitOn sep x = [x] := by
  induction x with
  | nil => simp [splitOn]
  | cons c cs ih =>
    simp only [List.mem_cons, not_or] at h
    unfold splitOn
    rw [if_neg (fun e => h.1 e.symm), ih h.2]

theorem splitOn_append_sep (sep : UInt8) (x rest : Bytes) (h : sep ∉ x) :
    splitOn sep (x ++ sep :: rest) = x :: splitOn sep rest := by
  induction x with
  | nil => simp [splitOn]
  | cons c cs ih =>
    simp only [List.mem_cons, not_or] at h
    simp only [List.cons_append]
    conv => lhs; unfold splitOn
    rw [if_neg (fun e => h.1 e.symm), ih h.2]

theorem splitOn_snoc_sep (sep : UInt8) (t : Bytes) :
    splitOn sep (t ++ [sep]) = splitOn sep t ++ [[]] := by
  induction t with
  | nil => simp [splitOn]
  | cons c cs ih =>
    simp only [List.cons_append]
    unfold splitOn
    split
    · rw [ih]; simp
    · rw [ih]
      have hne := splitOn_ne_nil sep cs
      cases hs : splitOn sep cs with
      | nil => exact absurd hs hne
      | cons y ys => simp

theorem splitOn_joinWith (sep : UInt8) (R : List Bytes) (hne : R ≠ [])
    (h : ∀ c ∈ R, sep ∉ c) : splitOn sep (joinWith sep R) = R := by
  induction R with
  | nil => exact absurd rfl hne
  | cons x rest ih =>
    cases rest with
    | nil => simp [joinWith]; exact splitOn_of_noSep sep x (h x (by simp))
    | cons y ys =>
      simp only [joinWith]
      rw [splitOn_append_sep sep x _ (h x (by simp))]
      rw [ih (by simp) (fun c hc => h c (List.mem_cons_of_mem _ hc))]

/-! ### resolve -/

theorem step_nil (r : Bool) (st : List Bytes) : step r st [] = st := by simp [step]

theorem step_proper (r : Bool) (st : List Bytes) (c : Bytes) (h : Proper c) : step r st c = c :: st := by
  obtain ⟨h1, h2, h3, _⟩ := h
  simp [step, h1, h2, h3]

theorem step_true_proper (st : List Bytes) (c : Bytes) (hst : ∀ x ∈ st, Proper x) (hc : slash ∉ c) :
    ∀ x ∈ step true st c, Proper x := by
  unfold step
  split
  · exact hst
  · split
    · exact hst
    · split
      · cases st with
        | nil => simp
        | cons t rest =>
          simp only
          split
          · rename_i ht
            exact absurd ht (hst t (by simp)).2.2.1
          · intro x hx; exact hst x (List.mem_cons_of_mem _ hx)
      · rename_i h1 h2 h3
        intro x hx
        rcases List.mem_cons.mp hx with e | e
        · subst e; exact ⟨h1, h2, h3, hc⟩
        · exact hst x e

theorem foldl_step_true_proper (comps : List Bytes) (st : List Bytes)
    (hst : ∀ x ∈ st, Proper x) (hc : ∀ c ∈ comps, slash ∉ c) :
    ∀ x ∈ comps.foldl (step true) st, Proper x := by
  induction comps generalizing st with
  | nil => simpa using hst
  | cons c cs ih =>
    simp only [List.foldl_cons]
    exact ih _ (step_true_proper st c hst (hc c (by simp))) (fun c' h => hc c' (List.mem_cons_of_mem _ h))

theorem resolve_true_proper (comps : List Bytes) (hc : ∀ c ∈ comps, slash ∉ c) :
    ∀ x ∈ resolve true comps, Proper x := by
  intro x hx
  unfold resolve at hx
  rw [List.mem_reverse] at hx
  exact foldl_step_true_proper comps [] (by simp) hc x hx

theorem foldl_step_of_proper (r : Bool) (R st : List Bytes) (h : ∀ c ∈ R, Proper c) :
    R.foldl (step r) st = R.reverse ++ st := by
  induction R generalizing st with
  | nil => simp
  | cons c cs ih =>
    simp only [List.foldl_cons, List.reverse_cons, List.append_assoc, List.singleton_append]
    rw [step_proper r st c (h c (by simp))]
    exact ih _ (fun c' hc' => h c' (List.mem_cons_of_mem _ hc'))

theorem resolve_of_proper (r : Bool) (R : List Bytes) (h : ∀ c ∈ R, Proper c) : resolve r R = R := by
  unfold resolve
  rw [foldl_step_of_proper r R [] h]
  simp

theorem resolve_cons_nil (r : Bool) (cs : List Bytes) : resolve r ([] :: cs) = resolve r cs := by
  simp [resolve, step_nil]

theorem foldl_step_append_nils (r : Bool) (st : List Bytes) (n : Nat) :
    (List.replicate n ([] : Bytes)).foldl (step r) st = st := by
  induction n generalizing st with
  | zero => simp
  | succ n ih => simp [List.replicate_succ, step_nil, ih]

theorem resolve_append_nils (r : Bool) (cs : List Bytes) (n : Nat) :
    resolve r (cs ++ List.replicate n []) = resolve r cs := by
  simp [resolve, List.foldl_append, foldl_step_append_nils]

/-! ### the resolved components of a destination -/

/-- proper components of the normalised form of `s` -/
def rcomps (s : Bytes) : List Bytes := resolve true (splitOn slash s)

theorem rcomps_proper (s : Bytes) : ∀ c ∈ rcomps s, Proper c :=
  resolve_true_proper _ (splitOn_noSep slash s)

theorem normFile_eq (s : Bytes) : normFile s = slash :: joinWith slash (rcomps s) := rfl

theorem joinWith_nil_iff (R : List Bytes) (h : ∀ c ∈ R, c ≠ []) : joinWith slash R = [] ↔ R = [] := by
  cases R with
  | nil => simp [joinWith]
  | cons x rest =>
    cases rest with
    | nil => simp [joinWith]; exact h x (by simp)
    | cons y ys => simp [joinWith]

theorem rcomps_of_proper_join (R : List Bytes) (h : ∀ c ∈ R, Proper c) :
    rcomps (slash :: joinWith slash R) = R := by
  unfold rcomps
  cases hR : R with
  | nil => simp [joinWith, splitOn, resolve, step]
  | cons x rest =>
    have hne : R ≠ [] := by rw [hR]; simp
    show resolve true (splitOn slash (slash :: joinWith slash (x :: rest))) = x :: rest
    rw [← hR]
    have : splitOn slash (slash :: joinWith slash R) = [] :: splitOn slash (joinWith slash R) := by
      simp [splitOn]
    rw [this, resolve_cons_nil, splitOn_joinWith slash R hne (fun c hc => (h c hc).2.2.2)]
    exact resolve_of_proper true R h

/-- NormalizeAbsoluteFilePath is idempotent (all byte strings). -/
theorem normFile_idem (s : Bytes) : normFile (normFile s) = normFile s := by
  rw [normFile_eq s, normFile_eq, rcomps_of_proper_join _ (rcomps_proper s)]

theorem rcomps_normFile (s : Bytes) : rcomps (normFile s) = rcomps s := by
  rw [normFile_eq s, rcomps_of_proper_join _ (rcomps_proper s)]

/-! ### trimming -/

theorem trimLeft_spec (c : UInt8) (s : Bytes) : ∃ n, s = List.replicate n c ++ trimLeft c s := by
  induction s with
  | nil => exact ⟨0, by simp [trimLeft]⟩
  | cons x xs ih =>
    unfold trimLeft
    split
    · rename_i h
      obtain ⟨n, hn⟩ := ih
      refine ⟨n + 1, ?_⟩
      subst h
      simp only [List.replicate_succ, List.cons_append]
      exact congrArg _ hn
    · exact ⟨0, by simp⟩

theorem trimRight_spec (c : UInt8) (s : Bytes) : ∃ n, s = trimRight c s ++ List.replicate n c := by
  obtain ⟨n, hn⟩ := trimLeft_spec c s.reverse
  refine ⟨n, ?_⟩
  unfold trimRight
  have := congrArg List.reverse hn
  simpa using this

theorem splitOn_append_seps (sep : UInt8) (t : Bytes) (n : Nat) :
    splitOn sep (t ++ List.replicate n sep) = splitOn sep t ++ List.replicate n [] := by
  induction n generalizing t with
  | zero => simp
  | succ n ih =>
    have : t ++ List.replicate (n + 1) sep = (t ++ [sep]) ++ List.replicate n sep := by
      simp [List.replicate_succ]
    rw [this, ih, splitOn_snoc_sep]
    simp [List.replicate_succ]

theorem rcomps_trimRight (s : Bytes) : rcomps (trimRight slash s) = rcomps s := by
  obtain ⟨n, hn⟩ := trimRight_spec slash s
  unfold rcomps
  conv => rhs; rw [hn]
  rw [splitOn_append_seps, resolve_append_nils]

theorem normDir_eq (s : Bytes) : normDir s = slash :: joinWith slash (rcomps s) ++ [slash] := by
  unfold normDir
  rw [normFile_eq, rcomps_trimRight]

end Nfpm.Path
