import NfpmModel.Lemmas.PlanFinal
/-
  Parent closure of the destination map: every ancestor directory of every key
  is a key (lists without `tree` entries; tree children rely on WalkDir listing
  directories before their contents, which is oracle behaviour).
-/
namespace Nfpm
open B Path Spec

theorem mem_nonEmptyPrefixes {α} (L p : List α) : p ∈ nonEmptyPrefixes L ↔ p ≠ [] ∧ p <+: L := by
  induction L generalizing p with
  | nil => simp [nonEmptyPrefixes]
  | cons x xs ih =>
    simp only [nonEmptyPrefixes, List.mem_cons, List.mem_map]
    constructor
    · rintro (e | ⟨q, hq, e⟩)
      · subst e; exact ⟨by simp, by simp [List.prefix_cons_iff]⟩
      · subst e
        obtain ⟨_, hpre⟩ := (ih q).mp hq
        exact ⟨by simp, by rw [List.prefix_cons_iff]; right; exact ⟨q, rfl, hpre⟩⟩
    · rintro ⟨hne, hpre⟩
      cases p with
      | nil => exact absurd rfl hne
      | cons y ys =>
        rw [List.cons_prefix_cons] at hpre
        obtain ⟨e, hpre⟩ := hpre
        subst e
        cases ys with
        | nil => left; rfl
        | cons z zs => right; exact ⟨z :: zs, (ih _).mpr ⟨by simp, hpre⟩, rfl⟩

theorem joinWith_append (sep : UInt8) (p q : List Bytes) (hp : p ≠ []) (hq : q ≠ []) :
    joinWith sep (p ++ q) = joinWith sep p ++ sep :: joinWith sep q := by
  induction p with
  | nil => exact absurd rfl hp
  | cons x xs ih =>
    cases xs with
    | nil =>
      cases q with
      | nil => exact absurd rfl hq
      | cons y ys => simp [joinWith]
    | cons z zs =>
      have := ih (by simp)
      simp only [List.cons_append] at this ⊢
      simp only [joinWith]
      rw [this]
      simp

theorem comps_slash_join (R : List Bytes) (h : ∀ c ∈ R, Proper c) : comps (slash :: joinWith slash R) = R := by
  unfold comps
  cases hR : R with
  | nil => simp [joinWith, splitOn]
  | cons x rest =>
    rw [← hR]
    have hne : R ≠ [] := by rw [hR]; simp
    have : splitOn slash (slash :: joinWith slash R) = [] :: splitOn slash (joinWith slash R) := by simp [splitOn]
    rw [this, splitOn_joinWith slash R hne (fun c hc => (h c hc).2.2.2)]
    simp only [List.filter_cons, ne_eq, not_true_eq_false, decide_false, Bool.false_eq_true, if_false]
    rw [List.filter_eq_self]
    intro c hc
    simp [(h c hc).1]

theorem comps_renderDir (R : List Bytes) (h : ∀ c ∈ R, Proper c) : comps (renderDir R) = R := by
  unfold comps renderDir
  cases hR : R with
  | nil => simp [joinWith, splitOn]
  | cons x rest =>
    rw [← hR]
    have hne : R ≠ [] := by rw [hR]; simp
    rw [show slash :: joinWith slash R ++ [slash] = (slash :: joinWith slash R) ++ [slash] by rfl, splitOn_snoc_sep]
    have : splitOn slash (slash :: joinWith slash R) = [] :: splitOn slash (joinWith slash R) := by simp [splitOn]
    rw [this, splitOn_joinWith slash R hne (fun c hc => (h c hc).2.2.2)]
    simp only [List.cons_append, List.filter_cons, ne_eq, not_true_eq_false, decide_false, Bool.false_eq_true, if_false,
      List.filter_append, List.filter_nil, List.append_nil]
    rw [List.filter_eq_self]
    intro c hc
    simp [(h c hc).1]

theorem comps_normFile (s : Bytes) : comps (normFile s) = rcomps s := by
  rw [normFile_eq]; exact comps_slash_join _ (rcomps_proper s)

theorem comps_normDir (s : Bytes) : comps (normDir s) = rcomps s := by
  rw [normDir_eq]; exact comps_renderDir _ (rcomps_proper s)

theorem ancestorDirs_normFile (s : Bytes) :
    ancestorDirs (normFile s) = (nonEmptyPrefixes (rcomps s).dropLast).map renderDir := by
  unfold ancestorDirs; rw [comps_normFile]

theorem ancestorDirs_normDir (s : Bytes) :
    ancestorDirs (normDir s) = (nonEmptyPrefixes (rcomps s).dropLast).map renderDir := by
  unfold ancestorDirs; rw [comps_normDir]

theorem proper_of_prefix (R p : List Bytes) (h : ∀ c ∈ R, Proper c) (hp : p <+: R) : ∀ c ∈ p, Proper c :=
  fun c hc => h c (hp.subset hc)

theorem trimRight_of_getLast_ne (c : UInt8) (s : Bytes) (h : s.getLast? ≠ some c) : trimRight c s = s := by
  unfold trimRight
  cases hs : s.reverse with
  | nil => simp [trimLeft]; exact (List.reverse_eq_nil_iff.mp hs)
  | cons x xs =>
    have hx : s.getLast? = some x := by
      rw [← List.reverse_reverse s, hs]; simp
    have : x ≠ c := by intro e; subst e; exact h hx
    simp only [trimLeft, this, if_false]
    rw [← hs]; simp

/-- NormalizeAbsoluteDirPath of a joined list of proper components is its rendering -/
theorem normDir_join (p : List Bytes) (hne : p ≠ []) (h : ∀ c ∈ p, Proper c) :
    normDir (joinWith slash p) = renderDir p := by
  unfold normDir renderDir
  rw [trimRight_of_getLast_ne slash _ (joinWith_getLast_ne_slash p hne h)]
  rw [normFile_eq]
  unfold rcomps
  rw [splitOn_joinWith slash p hne (fun c hc => (h c hc).2.2.2), resolve_of_proper true p h]

theorem normFile_join (p : List Bytes) (hne : p ≠ []) (h : ∀ c ∈ p, Proper c) :
    normFile (joinWith slash p) = slash :: joinWith slash p := by
  rw [normFile_eq]
  unfold rcomps
  rw [splitOn_joinWith slash p hne (fun c hc => (h c hc).2.2.2), resolve_of_proper true p h]

/-- the directories files.addParents creates are exactly the ancestor directories
    of the normalised destination (all byte strings) -/
theorem parents_eq_ancestors (path : Bytes) :
    (sortedParentsC path).map normDir = ancestorDirs (normFile path) := by
  rw [ancestorDirs_normFile]
  unfold sortedParentsC
  rw [List.map_map]
  apply List.map_congr_left
  intro p hp
  obtain ⟨hne, hpre⟩ := (mem_nonEmptyPrefixes _ _).mp hp
  have hprop : ∀ c ∈ p, Proper c :=
    proper_of_prefix _ p (rcomps_proper path) (hpre.trans (List.dropLast_prefix _))
  exact normDir_join p hne hprop

/-- ancestors of an ancestor are ancestors (keys with proper components) -/
theorem ancestors_trans (R : List Bytes) (hR : ∀ c ∈ R, Proper c) (a : Bytes)
    (ha : a ∈ (nonEmptyPrefixes R.dropLast).map renderDir) :
    ∀ b ∈ ancestorDirs a, b ∈ (nonEmptyPrefixes R.dropLast).map renderDir := by
  obtain ⟨p, hp, rfl⟩ := List.mem_map.mp ha
  obtain ⟨hne, hpre⟩ := (mem_nonEmptyPrefixes _ _).mp hp
  have hprop : ∀ c ∈ p, Proper c := proper_of_prefix _ p hR (hpre.trans (List.dropLast_prefix _))
  intro b hb
  unfold ancestorDirs at hb
  rw [comps_renderDir p hprop] at hb
  obtain ⟨q, hq, rfl⟩ := List.mem_map.mp hb
  obtain ⟨hqne, hqpre⟩ := (mem_nonEmptyPrefixes _ _).mp hq
  exact List.mem_map.mpr ⟨q, (mem_nonEmptyPrefixes _ _).mpr ⟨hqne, (hqpre.trans (List.dropLast_prefix _)).trans hpre⟩, rfl⟩

/-- an ancestor directory sorts strictly before the key -/
theorem ancestor_lt (R : List Bytes) (hR : ∀ c ∈ R, Proper c) (tail : Bytes) (a : Bytes)
    (ha : a ∈ (nonEmptyPrefixes R.dropLast).map renderDir) :
    ltB a (slash :: joinWith slash R ++ tail) = true := by
  obtain ⟨p, hp, rfl⟩ := List.mem_map.mp ha
  obtain ⟨hne, hpre⟩ := (mem_nonEmptyPrefixes _ _).mp hp
  obtain ⟨q, hq⟩ := hpre.trans (List.dropLast_prefix _)
  have hqne : q ≠ [] := by
    intro e; subst e
    simp only [List.append_nil] at hq
    subst hq
    -- p <+: p.dropLast is impossible for non-empty p
    have := hpre.length_le
    simp only [List.length_dropLast] at this
    have hl : 0 < p.length := List.length_pos_iff.mpr hne
    omega
  rw [← hq, joinWith_append slash p q hne hqne]
  unfold renderDir
  have hjq : joinWith slash q ≠ [] := by
    intro e
    have hq' : ∀ c ∈ q, c ≠ [] := fun c hc => (hR c (by rw [← hq]; exact List.mem_append_right _ hc)).1
    exact hqne ((joinWith_nil_iff q hq').mp e)
  have : slash :: (joinWith slash p ++ slash :: joinWith slash q) ++ tail
       = (slash :: joinWith slash p ++ [slash]) ++ (joinWith slash q ++ tail) := by simp
  rw [this]
  exact ltB_prefix _ _ (by simp [hjq])

/-! ### closure of the map -/

def Closed (m : CMap) : Prop := ∀ k ∈ m.keys, ∀ a ∈ ancestorDirs k, a ∈ m.keys

theorem addParentsL_keys (mt : Int) (ps : List Bytes) (m m' : CMap) (hok : addParentsL mt ps m = .ok m') :
    (∀ p ∈ ps, normDir p ∈ m'.keys) ∧ (∀ k ∈ m.keys, k ∈ m'.keys) ∧
    (∀ k ∈ m'.keys, k ∈ m.keys ∨ ∃ p ∈ ps, k = normDir p) := by
  induction ps generalizing m with
  | nil => simp [addParentsL] at hok; subst hok; simp
  | cons p rest ih =>
    unfold addParentsL at hok
    split at hok
    · exact absurd hok (by simp)
    · simp only [] at hok
      split at hok
      · rename_i c hc
        split at hok
        · obtain ⟨h1, h2, h3⟩ := ih m hok
          refine ⟨?_, h2, ?_⟩
          · intro q hq
            rcases List.mem_cons.mp hq with e | e
            · subst e; exact h2 _ (CMap.lookup_some_key m _ c hc)
            · exact h1 q e
          · intro k hk
            rcases h3 k hk with h | ⟨q, hq, e⟩
            · exact Or.inl h
            · exact Or.inr ⟨q, List.mem_cons_of_mem _ hq, e⟩
        · exact absurd hok (by simp)
      · obtain ⟨h1, h2, h3⟩ := ih _ hok
        refine ⟨?_, ?_, ?_⟩
        · intro q hq
          rcases List.mem_cons.mp hq with e | e
          · subst e; exact h2 _ (CMap.key_mem_insert m _ _)
          · exact h1 q e
        · intro k hk; exact h2 k (CMap.keys_subset_insert m _ _ k hk)
        · intro k hk
          rcases h3 k hk with h | ⟨q, hq, e⟩
          · rw [CMap.keys_insert] at h
            split at h
            · exact Or.inl h
            · rcases List.mem_append.mp h with h | h
              · exact Or.inl h
              · simp at h; exact Or.inr ⟨p, by simp, h⟩
          · exact Or.inr ⟨q, List.mem_cons_of_mem _ hq, e⟩

/-- after files.addParents every ancestor of the destination is in the map, nothing is lost,
    and closure is kept -/
theorem closed_addParents (mt : Int) (path : Bytes) (m m' : CMap) (hc : Closed m)
    (hok : addParents m path mt = .ok m') :
    Closed m' ∧ (∀ a ∈ ancestorDirs (normFile path), a ∈ m'.keys) ∧ (∀ k ∈ m.keys, k ∈ m'.keys) := by
  obtain ⟨h1, h2, h3⟩ := addParentsL_keys mt _ m m' hok
  have hanc : ∀ a ∈ ancestorDirs (normFile path), a ∈ m'.keys := by
    intro a ha
    rw [← parents_eq_ancestors] at ha
    obtain ⟨p, hp, rfl⟩ := List.mem_map.mp ha
    exact h1 p hp
  refine ⟨?_, hanc, h2⟩
  intro k hk a ha
  rcases h3 k hk with h | ⟨p, hp, e⟩
  · exact h2 a (hc k h a ha)
  · subst e
    apply hanc
    rw [ancestorDirs_normFile]
    apply ancestors_trans _ (rcomps_proper path) (normDir p) _ a ha
    rw [← ancestorDirs_normFile, ← parents_eq_ancestors]
    exact List.mem_map.mpr ⟨p, hp, rfl⟩

theorem closed_insert (m : CMap) (k : Bytes) (v : Content) (hc : Closed m)
    (hk : ∀ a ∈ ancestorDirs k, a ∈ m.keys) : Closed (m.insert k v) := by
  intro x hx a ha
  rw [CMap.keys_insert] at hx
  apply CMap.keys_subset_insert
  split at hx
  · exact hc x hx a ha
  · rcases List.mem_append.mp hx with h | h
    · exact hc x h a ha
    · simp at h; subst h; exact hk a ha

theorem closed_addGlobbed (O : Oracle) (u : Nat) (mt : Int) (orig : Content)
    (pairs : List (Bytes × Bytes)) (m m' : CMap) (hc : Closed m)
    (hok : addGlobbed O u mt orig pairs m = .ok m') : Closed m' := by
  induction pairs generalizing m with
  | nil => simp [addGlobbed] at hok; subst hok; exact hc
  | cons p rest ih =>
    obtain ⟨src, dst⟩ := p
    unfold addGlobbed at hok
    simp only [] at hok
    split at hok
    · exact absurd hok (by simp)
    · split at hok
      · exact absurd hok (by simp)
      · rename_i m1 hm1
        obtain ⟨hc1, hanc, _⟩ := closed_addParents mt _ m m1 hc hm1
        refine ih _ (closed_insert m1 _ _ hc1 ?_) hok
        rw [normFile_idem] at hanc
        exact hanc

theorem closed_planStep (O : Oracle) (cfg : PlanCfg) (m m' : CMap) (ic : Nat × Content)
    (hnt : classify ic.2.type ≠ .tree) (hc : Closed m)
    (hok : planStep O cfg m ic = .ok m') : Closed m' := by
  obtain ⟨i, c⟩ := ic
  unfold planStep at hok
  simp only [] at hok
  split at hok
  · simp at hok; subst hok; exact hc
  · split at hok
    · split at hok
      · exact absurd hok (by simp)
      · split at hok
        · exact absurd hok (by simp)
        · rename_i m1 hm1
          simp at hok; subst hok
          obtain ⟨hc1, hanc, _⟩ := closed_addParents cfg.mtime _ m m1 hc hm1
          refine closed_insert m1 _ _ hc1 ?_
          rw [ancestorDirs_normDir, ← ancestorDirs_normFile]; exact hanc
    · simp at hok; subst hok; exact hc
    · split at hok
      · exact absurd hok (by simp)
      · split at hok
        · exact absurd hok (by simp)
        · rename_i m1 hm1
          simp at hok; subst hok
          obtain ⟨hc1, hanc, _⟩ := closed_addParents cfg.mtime _ m m1 hc hm1
          exact closed_insert m1 _ _ hc1 hanc
    · rename_i hcls; exact absurd hcls hnt
    · split at hok
      · exact absurd hok (by simp)
      · split at hok
        · exact absurd hok (by simp)
        · exact closed_addGlobbed O cfg.umask cfg.mtime c _ m m' hc hok
    · exact absurd hok (by simp)

theorem closed_planMap (O : Oracle) (cfg : PlanCfg) (ics : List (Nat × Content)) (m m' : CMap)
    (hnt : ∀ ic ∈ ics, classify ic.2.type ≠ .tree) (hc : Closed m)
    (hok : planMap O cfg ics m = .ok m') : Closed m' := by
  induction ics generalizing m with
  | nil => simp [planMap] at hok; subst hok; exact hc
  | cons ic rest ih =>
    unfold planMap at hok
    split at hok
    · exact absurd hok (by simp)
    · rename_i m1 hm1
      exact ih m1 (fun x hx => hnt x (List.mem_cons_of_mem _ hx))
        (closed_planStep O cfg m m1 ic (hnt ic (by simp)) hc hm1) hok

/-- in a strictly sorted list whose ancestors are all members and sort before, parents come first -/
theorem parentsBefore_of_sorted (seen rest : List Bytes)
    (hpw : (seen.reverse ++ rest).Pairwise (fun a b => ltB a b = true))
    (hanc : ∀ k ∈ rest, ∀ a ∈ ancestorDirs k, a ∈ seen.reverse ++ rest ∧ ltB a k = true) :
    parentsBefore seen rest = true := by
  induction rest generalizing seen with
  | nil => rfl
  | cons k rest' ih =>
    unfold parentsBefore
    rw [Bool.and_eq_true]
    constructor
    · rw [List.all_eq_true]
      intro a ha
      obtain ⟨hmem, hlt⟩ := hanc k (by simp) a ha
      rw [List.contains_iff_mem]
      rcases List.mem_append.mp hmem with h | h
      · exact List.mem_reverse.mp h
      · exfalso
        rcases List.mem_cons.mp h with e | e
        · subst e; rw [ltB_irrefl] at hlt; exact absurd hlt (by simp)
        · rw [List.pairwise_append] at hpw
          have := (List.pairwise_cons.mp hpw.2.1).1 a e
          rw [ltB_asymm _ _ this] at hlt
          exact absurd hlt (by simp)
    · apply ih
      · simpa using hpw
      · intro k' hk' a ha
        obtain ⟨hmem, hlt⟩ := hanc k' (List.mem_cons_of_mem _ hk') a ha
        exact ⟨by simpa using hmem, hlt⟩

end Nfpm
