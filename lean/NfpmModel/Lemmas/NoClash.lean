import NfpmModel.Lemmas.Closure
import NfpmModel.Lemmas.PlanLemmas
/-
  Invariant of planning: no path is occupied both by a non-directory (key without trailing slash)
  and by a directory (key with trailing slash).  This is what files.occupant / the TypeDir tests /
  addParents establish (fix 64ba6a5); proved here for EVERY content list, tree entries included.
-/
set_option linter.unusedSimpArgs false
set_option linter.unusedVariables false
namespace Nfpm
open B Path Spec

theorem normDir_eq_file_slash (x : Bytes) : normDir x = normFile x ++ [slash] := by
  rw [normDir_eq, normFile_eq]

theorem file_ne_dir (x y : Bytes) : normFile x ≠ normDir y := by
  intro e
  rw [normDir_eq_file_slash, normFile_eq x, normFile_eq y] at e
  have e' : joinWith slash (rcomps x) = joinWith slash (rcomps y) ++ [slash] := by simpa using e
  by_cases hx : rcomps x = []
  · rw [hx] at e'
    have := congrArg List.length e'
    simp [joinWith] at this
  · have hl := joinWith_getLast_ne_slash (rcomps x) hx (rcomps_proper x)
    rw [e', getLast?_append_singleton] at hl
    exact hl rfl

theorem normFile_of_normDir_eq (x y : Bytes) (h : normDir x = normDir y) : normFile x = normFile y := by
  rw [normDir_eq_file_slash, normDir_eq_file_slash] at h
  exact List.append_cancel_right h

theorem normDir_of_normFile_eq (x y : Bytes) (h : normFile x = normFile y) : normDir x = normDir y := by
  rw [normDir_eq_file_slash, normDir_eq_file_slash, h]

theorem normDir_normFile (x : Bytes) : normDir (normFile x) = normDir x :=
  normDir_of_normFile_eq _ _ (normFile_idem x)

/-- no path is both a non-directory and a directory -/
def NoClash (m : CMap) : Prop := ∀ x, ¬ (normFile x ∈ m.keys ∧ normDir x ∈ m.keys)

theorem noClash_nil : NoClash [] := by intro x h; simp [CMap.keys] at h

theorem mem_keys_insert (m : CMap) (k : Bytes) (v : Content) (x : Bytes) (h : x ∈ (m.insert k v).keys) :
    x ∈ m.keys ∨ x = k := by
  rw [CMap.keys_insert] at h
  split at h
  · exact Or.inl h
  · rcases List.mem_append.mp h with h | h
    · exact Or.inl h
    · right; simpa using h

theorem noClash_insert_dir (m : CMap) (p : Bytes) (v : Content) (h : NoClash m) (hf : normFile p ∉ m.keys) :
    NoClash (m.insert (normDir p) v) := by
  intro x ⟨h1, h2⟩
  have hf1 : normFile x ∈ m.keys := by
    rcases mem_keys_insert m _ v _ h1 with h | h
    · exact h
    · exact absurd h (file_ne_dir x p)
  rcases mem_keys_insert m _ v _ h2 with h' | h'
  · exact h x ⟨hf1, h'⟩
  · rw [normFile_of_normDir_eq x p h'] at hf1; exact hf hf1

theorem noClash_insert_file (m : CMap) (d : Bytes) (v : Content) (h : NoClash m) (hd : normDir d ∉ m.keys) :
    NoClash (m.insert (normFile d) v) := by
  intro x ⟨h1, h2⟩
  have hd2 : normDir x ∈ m.keys := by
    rcases mem_keys_insert m _ v _ h2 with h | h
    · exact h
    · exact absurd h.symm (file_ne_dir d x)
  rcases mem_keys_insert m _ v _ h1 with h' | h'
  · exact h x ⟨h', hd2⟩
  · rw [normDir_of_normFile_eq x d h'] at hd2; exact hd hd2

/-- inserting under a key that is already present changes no key -/
theorem noClash_insert_present (m : CMap) (k : Bytes) (v : Content) (h : NoClash m) (hk : k ∈ m.keys) :
    NoClash (m.insert k v) := by
  intro x hx
  rw [CMap.keys_insert, if_pos hk] at hx
  exact h x hx

theorem noClash_addParentsL (mt : Int) (ps : List Bytes) (m m' : CMap) (h : NoClash m)
    (hok : addParentsL mt ps m = .ok m') : NoClash m' := by
  induction ps generalizing m with
  | nil => simp [addParentsL] at hok; subst hok; exact h
  | cons p rest ih =>
    unfold addParentsL at hok
    split at hok
    · exact absurd hok (by simp)
    · rename_i hnone
      simp only [] at hok
      split at hok
      · split at hok
        · exact ih m h hok
        · exact absurd hok (by simp)
      · exact ih _ (noClash_insert_dir m p _ h ((CMap.lookup_none_iff m _).mp hnone)) hok

/-- the strict ancestors of a path never include the path's own directory key -/
theorem self_not_ancestor (path : Bytes) : normDir path ∉ ancestorDirs (normFile path) := by
  intro hm
  rw [ancestorDirs_normFile] at hm
  obtain ⟨q, hq, e⟩ := List.mem_map.mp hm
  have hqp := (mem_nonEmptyPrefixes _ q).mp hq
  have hpre : q <+: rcomps path := hqp.2.trans (List.dropLast_prefix _)
  have hprop : ∀ c ∈ q, Proper c := proper_of_prefix _ q (rcomps_proper path) hpre
  have e1 : comps (renderDir q) = q := comps_renderDir q hprop
  have e2 : comps (normDir path) = rcomps path := comps_normDir path
  rw [e] at e1
  rw [e1] at e2
  have hl : q.length ≤ (rcomps path).dropLast.length := hqp.2.length_le
  rw [e2, List.length_dropLast] at hl
  have hne : rcomps path ≠ [] := by rw [← e2]; exact hqp.1
  have : 0 < (rcomps path).length := List.length_pos_iff.mpr hne
  omega

theorem addParents_file_keys (mt : Int) (path : Bytes) (m m' : CMap) (hok : addParents m path mt = .ok m')
    (x : Bytes) (hx : normFile x ∉ m.keys) : normFile x ∉ m'.keys := by
  obtain ⟨_, _, h3⟩ := addParentsL_keys mt _ m m' hok
  intro hm
  rcases h3 _ hm with h | ⟨p, _, e⟩
  · exact hx h
  · exact file_ne_dir x p e

theorem addParents_self_dir (mt : Int) (path : Bytes) (m m' : CMap) (hok : addParents m path mt = .ok m')
    (hx : normDir path ∉ m.keys) : normDir path ∉ m'.keys := by
  obtain ⟨_, _, h3⟩ := addParentsL_keys mt _ m m' hok
  intro hm
  rcases h3 _ hm with h | ⟨p, hp, e⟩
  · exact hx h
  · apply self_not_ancestor path
    rw [← parents_eq_ancestors, e]
    exact List.mem_map.mpr ⟨p, hp, rfl⟩

theorem noClash_addParents (mt : Int) (path : Bytes) (m m' : CMap) (h : NoClash m)
    (hok : addParents m path mt = .ok m') : NoClash m' :=
  noClash_addParentsL mt _ m m' h hok

theorem occupant_none (m : CMap) (d : Bytes) (h : occupant m d = none) : normFile d ∉ m.keys ∧ normDir d ∉ m.keys := by
  unfold occupant at h
  split at h
  · exact absurd h (by simp)
  · rename_i hf
    exact ⟨(CMap.lookup_none_iff m _).mp hf, (CMap.lookup_none_iff m _).mp h⟩

theorem noClash_addGlobbed (O : Oracle) (u : Nat) (mt : Int) (orig : Content)
    (pairs : List (Bytes × Bytes)) (m m' : CMap) (h : NoClash m)
    (hok : addGlobbed O u mt orig pairs m = .ok m') : NoClash m' := by
  induction pairs generalizing m with
  | nil => simp [addGlobbed] at hok; subst hok; exact h
  | cons p rest ih =>
    obtain ⟨src, dst⟩ := p
    unfold addGlobbed at hok
    simp only [] at hok
    split at hok
    · exact absurd hok (by simp)
    · rename_i hocc
      split at hok
      · exact absurd hok (by simp)
      · rename_i m1 hm1
        obtain ⟨_, hd⟩ := occupant_none m _ hocc
        rw [normDir_normFile] at hd
        have hd1 : normDir (normFile dst) ∉ m1.keys := by
          rw [normDir_normFile] at *
          have := addParents_self_dir mt (normFile dst) m m1 hm1 (by rw [normDir_normFile]; exact hd)
          rwa [normDir_normFile] at this
        have hkey : normFile dst = normFile (normFile dst) := (normFile_idem dst).symm
        refine ih _ ?_ hok
        rw [hkey]
        exact noClash_insert_file m1 (normFile dst) _ (noClash_addParents mt _ m m1 h hm1) hd1

theorem noClash_addTreeEnts (O : Oracle) (u : Nat) (mt : Int) (tree : Content)
    (ents : List WalkEnt) (m m' : CMap) (h : NoClash m)
    (hok : addTreeEnts O u mt tree ents m = .ok m') : NoClash m' := by
  induction ents generalizing m with
  | nil => simp [addTreeEnts] at hok; subst hok; exact h
  | cons e rest ih =>
    have hk := (treeEntry_ok [] O u mt tree e).1
    obtain ⟨_, x, hx⟩ := hk
    -- the key is built from the walk entry's own destination
    have hshape : (treeEntry O u mt tree e).dst =
        if isDirType (treeEntry O u mt tree e).type then normDir (join2 tree.dst e.rel) else normFile (join2 tree.dst e.rel) := by
      obtain ⟨⟨hne, _⟩, hdst⟩ := treeBase_shape u tree e
      have htype : (treeEntry O u mt tree e).type = (treeBase u tree e).type := by
        unfold treeEntry; rw [withDefaults_type, treeAdj_type, if_neg hne]
      rw [htype]
      unfold treeEntry
      rw [withDefaults_dst, treeAdj_dst]
      exact hdst
    unfold addTreeEnts at hok
    simp only [] at hok
    split at hok
    · rename_i hdir
      rw [if_pos hdir] at hshape
      split at hok
      · exact absurd hok (by simp)
      · rename_i hfile
        have hf : normFile (join2 tree.dst e.rel) ∉ m.keys := (CMap.lookup_none_iff m _).mp hfile
        split at hok
        · rename_i p hp
          split at hok
          · split at hok
            · exact ih m h hok
            · exact absurd hok (by simp)
          · refine ih _ ?_ hok
            exact noClash_insert_present m _ _ h (CMap.lookup_some_key m _ p hp)
        · refine ih _ ?_ hok
          rw [hshape]
          exact noClash_insert_dir m _ _ h hf
    · rename_i hdir
      rw [if_neg hdir] at hshape
      split at hok
      · exact absurd hok (by simp)
      · rename_i hocc
        obtain ⟨_, hd⟩ := occupant_none m _ hocc
        refine ih _ ?_ hok
        rw [hshape]
        exact noClash_insert_file m _ _ h hd

theorem noClash_addTree (O : Oracle) (u : Nat) (mt : Int) (i : Nat) (tree : Content)
    (m m' : CMap) (h : NoClash m) (hok : addTree O u mt i tree m = .ok m') : NoClash m' := by
  unfold addTree at hok
  simp only [] at hok
  split at hok
  · exact absurd hok (by simp)
  · split at hok
    · exact absurd hok (by simp)
    · rename_i m1 hm1
      split at hok
      · exact noClash_addTreeEnts O u mt tree _ m1 m' (noClash_addParents mt _ m m1 h hm1) hok
      · exact absurd hok (by simp)

theorem noClash_planStep (O : Oracle) (cfg : PlanCfg) (m m' : CMap) (ic : Nat × Content) (h : NoClash m)
    (hok : planStep O cfg m ic = .ok m') : NoClash m' := by
  obtain ⟨i, c⟩ := ic
  unfold planStep at hok
  simp only [] at hok
  split at hok
  · simp at hok; subst hok; exact h
  · split at hok
    · -- dir
      split at hok
      · exact absurd hok (by simp)
      · rename_i hocc
        split at hok
        · exact absurd hok (by simp)
        · rename_i m1 hm1
          simp at hok; subst hok
          have hf : normFile c.dst ∉ m.keys := by
            unfold dirOccupied at hocc
            simp only [Bool.or_eq_true, not_or, Bool.not_eq_true, Option.isSome_eq_false_iff, Option.isNone_iff_eq_none] at hocc
            exact (CMap.lookup_none_iff m _).mp hocc.2
          exact noClash_insert_dir m1 c.dst _ (noClash_addParents cfg.mtime _ m m1 h hm1)
            (addParents_file_keys cfg.mtime _ m m1 hm1 c.dst hf)
    · simp at hok; subst hok; exact h
    · -- fileLike
      split at hok
      · exact absurd hok (by simp)
      · rename_i hocc
        split at hok
        · exact absurd hok (by simp)
        · rename_i m1 hm1
          simp at hok; subst hok
          obtain ⟨_, hd⟩ := occupant_none m _ hocc
          exact noClash_insert_file m1 c.dst _ (noClash_addParents cfg.mtime _ m m1 h hm1)
            (addParents_self_dir cfg.mtime c.dst m m1 hm1 hd)
    · exact noClash_addTree O cfg.umask cfg.mtime i c m m' h hok
    · split at hok
      · exact absurd hok (by simp)
      · split at hok
        · exact absurd hok (by simp)
        · exact noClash_addGlobbed O cfg.umask cfg.mtime c _ m m' h hok
    · exact absurd hok (by simp)

theorem noClash_planMap (O : Oracle) (cfg : PlanCfg) (ics : List (Nat × Content)) (m m' : CMap) (h : NoClash m)
    (hok : planMap O cfg ics m = .ok m') : NoClash m' := by
  induction ics generalizing m with
  | nil => simp [planMap] at hok; subst hok; exact h
  | cons ic rest ih =>
    unfold planMap at hok
    split at hok
    · exact absurd hok (by simp)
    · rename_i m1 hm1
      exact ih m1 (noClash_planStep O cfg m m1 ic h hm1) hok

end Nfpm
