import NfpmModel.Lemmas.PlanLemmas
/-
  Helper lemmas used by Props/C05.lean (kept apart from the property theorems).
-/
namespace Nfpm
open B Path Spec

/-! ### unpacking a successful plan -/

theorem plan_ok_inv (O : Oracle) (cfg : PlanCfg) (raw : List Content) (l : List Content)
    (h : plan O cfg raw = .ok l) :
    ∃ m : CMap, planMap O cfg (zipIdx raw) [] = .ok m ∧ l = (m.map (·.2)).mergeSort contentLe ∧ Inv cfg.packager m := by
  unfold plan at h
  split at h
  · exact absurd h (by simp)
  · rename_i m hm
    simp at h
    exact ⟨m, hm, h.symm, inv_planMap O cfg rfl _ [] m (inv_nil _) hm⟩

theorem values_dst_eq_keys (pk : Bytes) (m : CMap) (h : Inv pk m) : (m.map (·.2)).map (·.dst) = m.keys := by
  unfold CMap.keys
  rw [List.map_map]
  apply List.map_congr_left
  intro p hp
  exact (h.keyok p hp).1

theorem strictlySorted_of_pairwise (l : List Bytes) (h : l.Pairwise (fun a b => ltB a b = true)) :
    strictlySorted l = true := by
  induction l with
  | nil => rfl
  | cons a rest ih =>
    cases rest with
    | nil => rfl
    | cons b rest' =>
      rw [List.pairwise_cons] at h
      simp only [strictlySorted, Bool.and_eq_true]
      exact ⟨h.1 b (by simp), ih h.2⟩

/-- sorting the values of a map with unique keys gives strictly increasing destinations -/
theorem sorted_values (pk : Bytes) (m : CMap) (hinv : Inv pk m) :
    (((m.map (·.2)).mergeSort contentLe).map (·.dst)).Pairwise (fun a b => ltB a b = true) := by
  have hperm := List.mergeSort_perm (m.map (·.2)) contentLe
  have hpw := List.pairwise_mergeSort (le := contentLe)
    (fun a b c => contentLe_trans a b c) (fun a b => contentLe_total a b) (m.map (·.2))
  have hnodup : (((m.map (·.2)).mergeSort contentLe).map (·.dst)).Nodup := by
    have : (((m.map (·.2)).mergeSort contentLe).map (·.dst)).Perm ((m.map (·.2)).map (·.dst)) := hperm.map _
    rw [this.nodup_iff, values_dst_eq_keys pk m hinv]
    exact hinv.nodup
  rw [List.pairwise_map]
  rw [List.nodup_iff_pairwise_ne, List.pairwise_map] at hnodup
  have := hpw.and hnodup
  refine this.imp ?_
  intro a b ⟨hle, hne⟩
  rw [contentLe_iff] at hle
  rcases hle with h | ⟨e, _⟩
  · exact h
  · exact absurd e hne

/-- two strictly sorted lists with the same members are equal -/
theorem sorted_unique_of_perm (l₁ l₂ : List Content)
    (h₁ : (l₁.map (·.dst)).Pairwise (fun a b => ltB a b = true))
    (h₂ : (l₂.map (·.dst)).Pairwise (fun a b => ltB a b = true))
    (hp : l₁.Perm l₂) : l₁ = l₂ := by
  induction l₁ generalizing l₂ with
  | nil => exact (List.Perm.nil_eq hp)
  | cons a t ih =>
    cases l₂ with
    | nil => exact absurd hp.symm (by simp)
    | cons b u =>
      rw [List.map_cons, List.pairwise_cons] at h₁ h₂
      have ha : a ∈ b :: u := hp.subset (by simp)
      have hb : b ∈ a :: t := hp.symm.subset (by simp)
      have hab : a = b := by
        rcases List.mem_cons.mp ha with e | e
        · exact e
        · rcases List.mem_cons.mp hb with e' | e'
          · exact e'.symm
          · have l1 := h₂.1 a.dst (List.mem_map.mpr ⟨a, e, rfl⟩)
            have l2 := h₁.1 b.dst (List.mem_map.mpr ⟨b, e', rfl⟩)
            rw [ltB_asymm _ _ l1] at l2
            exact absurd l2 (by simp)
      subst hab
      rw [ih u h₁.2 h₂.2 (List.Perm.cons_inv hp)]

theorem getLast?_append_singleton {α} (l : List α) (a : α) : (l ++ [a]).getLast? = some a := by simp

theorem getLast?_append_of_ne_nil' {α} (l l' : List α) (h : l' ≠ []) : (l ++ l').getLast? = l'.getLast? := by
  rw [List.getLast?_append]
  cases hl : l'.getLast? with
  | none => exact absurd (List.getLast?_eq_none_iff.mp hl) h
  | some a => simp

theorem proper_all (R : List Bytes) (h : ∀ c ∈ R, Proper c) :
    R.all (fun c => c ≠ [] && c ≠ dotS && c ≠ dotdotS) = true := by
  rw [List.all_eq_true]
  intro c hc
  obtain ⟨h1, h2, h3, _⟩ := h c hc
  simp [h1, h2, h3]

theorem proper_getLast_ne_nil (R : List Bytes) (h : ∀ c ∈ R, Proper c) : R.getLast? ≠ some [] := by
  intro e
  have := List.mem_of_getLast? e
  exact (h _ this).1 rfl

theorem joinWith_getLast_ne_slash (R : List Bytes) (hne : R ≠ []) (h : ∀ c ∈ R, Proper c) :
    (joinWith slash R).getLast? ≠ some slash := by
  induction R with
  | nil => exact absurd rfl hne
  | cons x rest ih =>
    cases rest with
    | nil =>
      simp only [joinWith]
      intro e
      have hx := h x (by simp)
      exact hx.2.2.2 (List.mem_of_getLast? e)
    | cons y ys =>
      simp only [joinWith]
      have := ih (by simp) (fun c hc => h c (List.mem_cons_of_mem _ hc))
      intro e
      apply this
      have hne' : joinWith slash (y :: ys) ≠ [] := by
        intro hnil
        have := (joinWith_nil_iff (y :: ys) (fun c hc => (h c (List.mem_cons_of_mem _ hc)).1)).mp hnil
        exact absurd this (by simp)
      rw [show x ++ slash :: joinWith slash (y :: ys) = (x ++ [slash]) ++ joinWith slash (y :: ys) by simp] at e
      rw [getLast?_append_of_ne_nil' _ _ hne'] at e
      exact e

theorem normFile_no_trailing_slash (s : Bytes) (hroot : rcomps s ≠ []) : endsWithSlash (normFile s) = false := by
  rw [normFile_eq]
  unfold endsWithSlash
  rw [beq_eq_false_iff_ne]
  have hj : joinWith slash (rcomps s) ≠ [] := by
    intro hnil
    exact hroot ((joinWith_nil_iff _ (fun c hc => (rcomps_proper s c hc).1)).mp hnil)
  rw [show slash :: joinWith slash (rcomps s) = [slash] ++ joinWith slash (rcomps s) by rfl]
  rw [getLast?_append_of_ne_nil' _ _ hj]
  exact joinWith_getLast_ne_slash _ hroot (rcomps_proper s)


end Nfpm
