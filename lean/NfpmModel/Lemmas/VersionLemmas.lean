import NfpmModel.Version
/-
  Helper lemmas for C14: digit runs, the semver recogniser on rendered versions,
  single steps of the dpkg and rpm comparison loops.
-/
namespace Nfpm
open B

theorem takeWhile_append_stop {α} (p : α → Bool) (d : List α) (c : α) (rest : List α)
    (hd : ∀ x ∈ d, p x = true) (hc : p c = false) : (d ++ c :: rest).takeWhile p = d := by
  induction d with
  | nil => simp [List.takeWhile, hc]
  | cons x xs ih =>
    simp only [List.cons_append, List.takeWhile_cons, hd x (by simp), if_true]
    rw [ih (fun y hy => hd y (List.mem_cons_of_mem _ hy))]

theorem dropWhile_append_stop {α} (p : α → Bool) (d : List α) (c : α) (rest : List α)
    (hd : ∀ x ∈ d, p x = true) (hc : p c = false) : (d ++ c :: rest).dropWhile p = c :: rest := by
  induction d with
  | nil => simp [List.dropWhile, hc]
  | cons x xs ih =>
    simp only [List.cons_append, List.dropWhile_cons, hd x (by simp), if_true]
    exact ih (fun y hy => hd y (List.mem_cons_of_mem _ hy))

theorem takeWhile_all {α} (p : α → Bool) (d : List α) (hd : ∀ x ∈ d, p x = true) : d.takeWhile p = d := by
  induction d with
  | nil => rfl
  | cons x xs ih =>
    simp only [List.takeWhile_cons, hd x (by simp), if_true]
    rw [ih (fun y hy => hd y (List.mem_cons_of_mem _ hy))]

theorem dropWhile_all {α} (p : α → Bool) (d : List α) (hd : ∀ x ∈ d, p x = true) : d.dropWhile p = [] := by
  induction d with
  | nil => rfl
  | cons x xs ih =>
    simp only [List.dropWhile_cons, hd x (by simp), if_true]
    exact ih (fun y hy => hd y (List.mem_cons_of_mem _ hy))

/-- a digit run compares equal to itself -/
theorem cmpDigits_self (d : Bytes) : cmpDigits d d = 0 := by
  unfold cmpDigits
  simp only [Nat.lt_irrefl, if_false]
  have : ((d.dropWhile (· == 48)).zip (d.dropWhile (· == 48))).find? (fun p => p.1 ≠ p.2) = none := by
    rw [List.find?_eq_none]
    intro p hp
    have := List.of_mem_zip hp
    have hz : ∀ (l : List UInt8) (q : UInt8 × UInt8), q ∈ l.zip l → q.1 = q.2 := by
      intro l
      induction l with
      | nil => simp
      | cons x xs ih =>
        intro q hq
        simp only [List.zip_cons_cons, List.mem_cons] at hq
        rcases hq with e | e
        · subst e; rfl
        · exact ih q e
    simp [hz _ p hp]
  rw [this]

/-- a non-empty all-digit string -/
def DigitRun (d : Bytes) : Prop := d ≠ [] ∧ ∀ x ∈ d, isDigit x = true

theorem DigitRun.head_digit {d : Bytes} (h : DigitRun d) : ∃ c rest, d = c :: rest ∧ isDigit c = true := by
  obtain ⟨hne, hd⟩ := h
  cases d with
  | nil => exact absurd rfl hne
  | cons c rest => exact ⟨c, rest, rfl, hd c (by simp)⟩

/-! ### digit strings as numbers: `cmpDigits` (dpkg's and rpm's numeric comparison) is the numeric order -/

/-- the number a digit string denotes (big-endian decimal) -/
def digitsVal : Bytes → Nat
  | [] => 0
  | c :: t => (c.toNat - 48) * 10 ^ t.length + digitsVal t

theorem isDigit_bounds (c : UInt8) (h : isDigit c = true) : 48 ≤ c.toNat ∧ c.toNat ≤ 57 := by
  unfold isDigit at h
  simp only [Bool.and_eq_true, decide_eq_true_eq] at h
  exact ⟨by simpa [UInt8.le_iff_toNat_le] using h.1, by simpa [UInt8.le_iff_toNat_le] using h.2⟩

theorem digitsVal_lt_pow (d : Bytes) (hd : ∀ x ∈ d, isDigit x = true) : digitsVal d < 10 ^ d.length := by
  induction d with
  | nil => simp [digitsVal]
  | cons c t ih =>
    have hb := isDigit_bounds c (hd c (by simp))
    have := ih (fun x hx => hd x (List.mem_cons_of_mem _ hx))
    simp only [digitsVal, List.length_cons, Nat.pow_succ]
    have h9 : (c.toNat - 48) * 10 ^ t.length ≤ 9 * 10 ^ t.length := Nat.mul_le_mul_right _ (by omega)
    omega

theorem digitsVal_dropZeros (d : Bytes) : digitsVal (d.dropWhile (· == 48)) = digitsVal d := by
  induction d with
  | nil => rfl
  | cons c t ih =>
    simp only [List.dropWhile_cons]
    split
    · rename_i h
      have : c = 48 := by simpa using h
      subst this
      rw [ih]; simp [digitsVal]
    · rfl

/-- a digit string without leading zero is at least 10^(length-1) -/
theorem pow_le_digitsVal (c : UInt8) (t : Bytes) (hc : isDigit c = true) (h0 : c ≠ 48) :
    10 ^ t.length ≤ digitsVal (c :: t) := by
  have hb := isDigit_bounds c hc
  have : c.toNat ≠ 48 := by
    intro e; apply h0; exact UInt8.toNat_inj.mp (by simpa using e)
  simp only [digitsVal]
  have : 1 * 10 ^ t.length ≤ (c.toNat - 48) * 10 ^ t.length := Nat.mul_le_mul_right _ (by omega)
  omega

/-- first difference of two equally long digit strings decides the numeric order -/
theorem find_first_diff (a b : Bytes) (hl : a.length = b.length)
    (ha : ∀ x ∈ a, isDigit x = true) (hb : ∀ x ∈ b, isDigit x = true) :
    match (a.zip b).find? (fun p => p.1 ≠ p.2) with
    | some (x, y) => (x.toNat < y.toNat ∧ digitsVal a < digitsVal b) ∨ (y.toNat < x.toNat ∧ digitsVal b < digitsVal a)
    | none => a = b := by
  induction a generalizing b with
  | nil => cases b with
    | nil => simp
    | cons _ _ => simp at hl
  | cons x xs ih =>
    cases b with
    | nil => simp at hl
    | cons y ys =>
      have hl' : xs.length = ys.length := by simpa using hl
      have hxa := ha x (by simp)
      have hyb := hb y (by simp)
      have bx := isDigit_bounds x hxa
      have by' := isDigit_bounds y hyb
      have hxs := digitsVal_lt_pow xs (fun z hz => ha z (List.mem_cons_of_mem _ hz))
      have hys := digitsVal_lt_pow ys (fun z hz => hb z (List.mem_cons_of_mem _ hz))
      simp only [List.zip_cons_cons, List.find?_cons]
      by_cases hxy : x = y
      · subst hxy
        simp only [ne_eq, not_true_eq_false, decide_false]
        have := ih ys hl' (fun z hz => ha z (List.mem_cons_of_mem _ hz)) (fun z hz => hb z (List.mem_cons_of_mem _ hz))
        split at this
        · rename_i p q heq
          simp only [heq]
          simp only [digitsVal, hl']
          rcases this with ⟨h1, h2⟩ | ⟨h1, h2⟩
          · left; exact ⟨h1, by omega⟩
          · right; exact ⟨h1, by omega⟩
        · rename_i heq
          simp only [heq]
          rw [this]
      · have hne : x.toNat ≠ y.toNat := fun e => hxy (UInt8.toNat_inj.mp e)
        simp only [ne_eq, hxy, not_false_eq_true, decide_true]
        simp only [digitsVal, hl'] at *
        rcases Nat.lt_or_gt_of_ne hne with h | h
        · left
          refine ⟨h, ?_⟩
          have : (x.toNat - 48 + 1) * 10 ^ ys.length ≤ (y.toNat - 48) * 10 ^ ys.length :=
            Nat.mul_le_mul_right _ (by omega)
          rw [Nat.add_mul] at this
          omega
        · right
          refine ⟨h, ?_⟩
          have : (y.toNat - 48 + 1) * 10 ^ ys.length ≤ (x.toNat - 48) * 10 ^ ys.length :=
            Nat.mul_le_mul_right _ (by omega)
          rw [Nat.add_mul] at this
          omega

theorem dropZeros_digits (d : Bytes) (hd : ∀ x ∈ d, isDigit x = true) :
    ∀ x ∈ d.dropWhile (· == 48), isDigit x = true :=
  fun x hx => hd x (List.dropWhile_sublist _ |>.subset hx)

theorem dropZeros_head (d : Bytes) : d.dropWhile (· == 48) = [] ∨
    ∃ c t, d.dropWhile (· == 48) = c :: t ∧ c ≠ 48 := by
  induction d with
  | nil => left; rfl
  | cons c t ih =>
    simp only [List.dropWhile_cons]
    split
    · exact ih
    · rename_i h
      right; exact ⟨c, t, rfl, by simpa using h⟩

theorem digitsVal_lt_of_length_lt (a b : Bytes) (ha : ∀ x ∈ a, isDigit x = true) (hb : ∀ x ∈ b, isDigit x = true)
    (hb0 : ∃ c t, b = c :: t ∧ c ≠ 48) (hl : a.length < b.length) : digitsVal a < digitsVal b := by
  obtain ⟨c, t, rfl, hc⟩ := hb0
  have h1 := digitsVal_lt_pow a ha
  have h2 := pow_le_digitsVal c t (hb c (by simp)) hc
  have : 10 ^ a.length ≤ 10 ^ t.length := Nat.pow_le_pow_right (by omega) (by simp at hl; omega)
  omega

theorem cmpDigits_core (a b : Bytes) (ha : ∀ x ∈ a, isDigit x = true) (hb : ∀ x ∈ b, isDigit x = true)
    (ha0 : a = [] ∨ ∃ c t, a = c :: t ∧ c ≠ 48) (hb0 : b = [] ∨ ∃ c t, b = c :: t ∧ c ≠ 48) :
    let r : Int := if a.length > b.length then 1 else if a.length < b.length then -1
      else match (a.zip b).find? (fun p => p.1 ≠ p.2) with
        | some (x, y) => (x.toNat : Int) - y.toNat
        | none => 0
    (r < 0 ↔ digitsVal a < digitsVal b) ∧ (r = 0 ↔ digitsVal a = digitsVal b) ∧ (0 < r ↔ digitsVal b < digitsVal a) := by
  intro r
  by_cases h1 : a.length > b.length
  · have hr : r = 1 := by simp [r, h1]
    have hane : ∃ c t, a = c :: t ∧ c ≠ 48 := by
      rcases ha0 with e | e
      · subst e; simp at h1
      · exact e
    have := digitsVal_lt_of_length_lt b a hb ha hane h1
    rw [hr]; omega
  · by_cases h2 : a.length < b.length
    · have hr : r = -1 := by simp [r, h1, h2]
      have hbne : ∃ c t, b = c :: t ∧ c ≠ 48 := by
        rcases hb0 with e | e
        · subst e; simp at h2
        · exact e
      have := digitsVal_lt_of_length_lt a b ha hb hbne h2
      rw [hr]; omega
    · have hl : a.length = b.length := by omega
      have hf := find_first_diff a b hl ha hb
      have hr : r = match (a.zip b).find? (fun p => p.1 ≠ p.2) with
        | some (x, y) => (x.toNat : Int) - y.toNat
        | none => 0 := by simp [r, h1, h2]
      rw [hr]
      split at hf
      · rename_i x y heq
        have hlt : ∀ p q : Int, p - q < 0 ↔ p < q := fun p q => by omega
        rw [Int.sub_pos, Int.sub_eq_zero, hlt]
        rcases hf with ⟨h, h'⟩ | ⟨h, h'⟩ <;> omega
      · rename_i heq
        subst hf
        simp

/-- **`cmpDigits` is the numeric order**: for all digit strings (leading zeros allowed, any length) its sign
    is the sign of the difference of the numbers they denote -/
theorem cmpDigits_numeric (a b : Bytes) (ha : ∀ x ∈ a, isDigit x = true) (hb : ∀ x ∈ b, isDigit x = true) :
    (cmpDigits a b < 0 ↔ digitsVal a < digitsVal b) ∧ (cmpDigits a b = 0 ↔ digitsVal a = digitsVal b) ∧
    (0 < cmpDigits a b ↔ digitsVal b < digitsVal a) := by
  have h := cmpDigits_core _ _ (dropZeros_digits a ha) (dropZeros_digits b hb) (dropZeros_head a) (dropZeros_head b)
  rw [digitsVal_dropZeros a, digitsVal_dropZeros b] at h
  exact h

end Nfpm
