import NfpmModel.Version
/-
  Helper lemmas for C14: digit runs, the semver recogniser on rendered versions,
  single steps of the dpkg and rpm comparison loops.
-/
namespace Nfpm
open B

theorem takeWhile_append_stop {α} (p : α → Bool) (d : List α) (c : α) (rest : List α)
    (hd : ∀ x ∈ d, p x = true) (hc : p c = false) : (d ++ c :: rest).takeWhile p = d := by
  induction d with
  | nil => simp [List.takeWhile, hc]
  | cons x xs ih =>
    simp only [List.cons_append, List.takeWhile_cons, hd x (by simp), if_true]
    rw [ih (fun y hy => hd y (List.mem_cons_of_mem _ hy))]

theorem dropWhile_append_stop {α} (p : α → Bool) (d : List α) (c : α) (rest : List α)
    (hd : ∀ x ∈ d, p x = true) (hc : p c = false) : (d ++ c :: rest).dropWhile p = c :: rest := by
  induction d with
  | nil => simp [List.dropWhile, hc]
  | cons x xs ih =>
    simp only [List.cons_append, List.dropWhile_cons, hd x (by simp), if_true]
    exact ih (fun y hy => hd y (List.mem_cons_of_mem _ hy))

theorem takeWhile_all {α} (p : α → Bool) (d : List α) (hd : ∀ x ∈ d, p x = true) : d.takeWhile p = d := by
  induction d with
  | nil => rfl
  | cons x xs ih =>
    simp only [List.takeWhile_cons, hd x (by simp), if_true]
    rw [ih (fun y hy => hd y (List.mem_cons_of_mem _ hy))]

theorem dropWhile_all {α} (p : α → Bool) (d : List α) (hd : ∀ x ∈ d, p x = true) : d.dropWhile p = [] := by
  induction d with
  | nil => rfl
  | cons x xs ih =>
    simp only [List.dropWhile_cons, hd x (by simp), if_true]
    exact ih (fun y hy => hd y (List.mem_cons_of_mem _ hy))

/-- a digit run compares equal to itself -/
theorem cmpDigits_self (d : Bytes) : cmpDigits d d = 0 := by
  unfold cmpDigits
  simp only [Nat.lt_irrefl, if_false]
  have : ((d.dropWhile (· == 48)).zip (d.dropWhile (· == 48))).find? (fun p => p.1 ≠ p.2) = none := by
    rw [List.find?_eq_none]
    intro p hp
    have := List.of_mem_zip hp
    have hz : ∀ (l : List UInt8) (q : UInt8 × UInt8), q ∈ l.zip l → q.1 = q.2 := by
      intro l
      induction l with
      | nil => simp
      | cons x xs ih =>
        intro q hq
        simp only [List.zip_cons_cons, List.mem_cons] at hq
        rcases hq with e | e
        · subst e; rfl
        · exact ih q e
    simp [hz _ p hp]
  rw [this]

/-- a non-empty all-digit string -/
def DigitRun (d : Bytes) : Prop := d ≠ [] ∧ ∀ x ∈ d, isDigit x = true

theorem DigitRun.head_digit {d : Bytes} (h : DigitRun d) : ∃ c rest, d = c :: rest ∧ isDigit c = true := by
  obtain ⟨hne, hd⟩ := h
  cases d with
  | nil => exact absurd rfl hne
  | cons c rest => exact ⟨c, rest, rfl, hd c (by simp)⟩

end Nfpm
