import NfpmModel.Spec.PayloadSpec
/-
  Bit-level facts about io/fs.FileMode values and files.unixModeBits (helper lemmas for Props/C01).
-/
set_option linter.unusedSimpArgs false
namespace Nfpm.ModeLemmas
open Nfpm B Path Spec


theorem hasBit_pow (x i : Nat) : hasBit x (2 ^ i) = x.testBit i := by
  unfold hasBit
  cases h : x.testBit i
  · have : x &&& 2 ^ i = 0 := by
      apply Nat.eq_of_testBit_eq
      intro j
      rw [Nat.testBit_and, Nat.testBit_two_pow, Nat.zero_testBit]
      by_cases e : i = j
      · subst e; simp [h]
      · simp [e]
    simp [this]
  · have : (x &&& 2 ^ i).testBit i = true := by
      rw [Nat.testBit_and, Nat.testBit_two_pow_self, h]; rfl
    have hne : x &&& 2 ^ i ≠ 0 := by
      intro e; rw [e, Nat.zero_testBit] at this; exact Bool.noConfusion this
    simp [hne]

theorem testBit_andNot (a b i : Nat) : (andNot a b).testBit i = (a.testBit i && !b.testBit i) := by
  unfold andNot
  rw [Nat.testBit_xor, Nat.testBit_and]
  cases a.testBit i <;> cases b.testBit i <;> rfl

theorem testBit_ite (c : Bool) (a i : Nat) : (if c then a else 0).testBit i = (c && a.testBit i) := by
  cases c <;> simp

theorem unixModeBits_testBit (m i : Nat) :
    (unixModeBits m).testBit i =
      ((m.testBit i && !(decide (23 = i) || decide (22 = i) || decide (20 = i)))
        || (m.testBit 23 && decide (11 = i)) || (m.testBit 22 && decide (10 = i)) || (m.testBit 20 && decide (9 = i))) := by
  have h23 : (m &&& goSetuid != 0) = m.testBit 23 := hasBit_pow m 23
  have h22 : (m &&& goSetgid != 0) = m.testBit 22 := hasBit_pow m 22
  have h20 : (m &&& goSticky != 0) = m.testBit 20 := hasBit_pow m 20
  unfold unixModeBits
  rw [h23, h22, h20]
  simp only [Nat.testBit_or, testBit_andNot, testBit_ite, goSetuid, goSetgid, goSticky,
    show (0o4000 : Nat) = 2 ^ 11 by decide, show (0o2000 : Nat) = 2 ^ 10 by decide, show (0o1000 : Nat) = 2 ^ 9 by decide,
    Nat.testBit_two_pow]

theorem ite_some {α : Type} {b : Prop} [Decidable b] {x : Option α} {s : α} (h : (if b then x else none) = some s) :
    x = some s := by
  split at h
  · exact h
  · cases h

end Nfpm.ModeLemmas
