import NfpmModel.Cpio
/-
  Helper lemmas for the cpio round trip: fixed-width upper-case hex, header layout, one reader step.
-/
set_option linter.unusedSimpArgs false
set_option linter.unusedVariables false
namespace Nfpm.Cpio
open Nfpm B

@[simp] theorem zeros_length (n : Nat) : (zeros n).length = n := by simp [zeros]

theorem hexFixed_length (k n : Nat) : (hexFixed k n).length = k := by
  induction k generalizing n with
  | zero => rfl
  | succ k ih => simp [hexFixed, ih]

theorem hexValU_digit (n : Nat) (h : n < 16) : hexValU (hexDigitU n) = some n := by
  revert n; decide

/-- the accumulator form of readHex -/
def readHexFrom (acc : Option Nat) (s : Bytes) : Option Nat :=
  s.foldl (fun acc c => match acc, hexValU c with
      | some a, some v => some (a * 16 + v)
      | _, _ => none) acc

theorem readHex_eq (s : Bytes) : readHex s = readHexFrom (some 0) s := rfl

theorem readHexFrom_snoc (acc : Option Nat) (l : Bytes) (c : UInt8) :
    readHexFrom acc (l ++ [c]) = (match readHexFrom acc l, hexValU c with
      | some a, some v => some (a * 16 + v)
      | _, _ => none) := by
  simp [readHexFrom, List.foldl_append]

/-- **hex field round trip** (modulo the field width) -/
theorem readHex_hexFixed (k n : Nat) : readHex (hexFixed k n) = some (n % 16 ^ k) := by
  rw [readHex_eq]
  induction k generalizing n with
  | zero => simp [hexFixed, readHexFrom, Nat.mod_one]
  | succ k ih =>
    simp only [hexFixed]
    rw [readHexFrom_snoc, ih, hexValU_digit _ (Nat.mod_lt _ (by decide))]
    simp only []
    congr 1
    rw [Nat.pow_succ, Nat.mul_comm (16 ^ k) 16, Nat.mod_mul]
    omega

theorem readHex_field (n : Nat) (h : n < 16 ^ 8) : readHex (hexFixed 8 n) = some n := by
  rw [readHex_hexFixed, Nat.mod_eq_of_lt h]

/-! ### layout of the 110-byte header -/

theorem slice_flatten (pre : List Bytes) (f : Bytes) (post : List Bytes) (off len : Nat)
    (ho : pre.flatten.length = off) (hl : f.length = len) :
    slice ((pre ++ f :: post).flatten) off len = f := by
  unfold slice
  rw [List.flatten_append, List.flatten_cons, List.drop_left' ho, List.take_left' hl]

def headerFields (ino mode links size namesize : Nat) : List Bytes :=
  [ b!"070701", hexFixed 8 ino, hexFixed 8 mode, hexFixed 8 0, hexFixed 8 0, hexFixed 8 links, hexFixed 8 0,
    hexFixed 8 size, hexFixed 8 0, hexFixed 8 0, hexFixed 8 0, hexFixed 8 0, hexFixed 8 namesize, hexFixed 8 0 ]

theorem header_eq (ino mode links size namesize : Nat) :
    header ino mode links size namesize = (headerFields ino mode links size namesize).flatten := by
  simp [header, headerFields, List.append_assoc]

theorem header_layout (ino mode links size namesize : Nat) :
    let h := header ino mode links size namesize
    h.length = 110 ∧ h.take 6 = b!"070701" ∧ slice h 6 8 = hexFixed 8 ino ∧ slice h 14 8 = hexFixed 8 mode
    ∧ slice h 38 8 = hexFixed 8 links ∧ slice h 54 8 = hexFixed 8 size ∧ slice h 94 8 = hexFixed 8 namesize := by
  intro h
  have L : ∀ n, (hexFixed 8 n).length = 8 := fun n => hexFixed_length 8 n
  have he : h = (headerFields ino mode links size namesize).flatten := header_eq _ _ _ _ _
  refine ⟨?_, ?_, ?_, ?_, ?_, ?_, ?_⟩
  · rw [he]; simp [headerFields, L]
  · rw [he]; simp only [headerFields, List.flatten_cons]; exact List.take_left' rfl
  · rw [he]; exact slice_flatten [_] _ _ 6 8 (by simp) (L _)
  · rw [he]; exact slice_flatten [_, _] _ _ 14 8 (by simp [L]) (L _)
  · rw [he]; exact slice_flatten [_, _, _, _, _] _ _ 38 8 (by simp [L]) (L _)
  · rw [he]; exact slice_flatten [_, _, _, _, _, _, _] _ _ 54 8 (by simp [L]) (L _)
  · rw [he]; exact slice_flatten [_, _, _, _, _, _, _, _, _, _, _, _] _ _ 94 8 (by simp [L]) (L _)

/-- slices inside the header are not disturbed by what follows it -/
theorem slice_append_left (a b : Bytes) (off len : Nat) (h : off + len ≤ a.length) : slice (a ++ b) off len = slice a off len := by
  unfold slice
  rw [List.drop_append_of_le_length (by omega), List.take_append_of_le_length (by simp only [List.length_drop]; omega)]

end Nfpm.Cpio

namespace Nfpm.Cpio
open Nfpm B

/-- the bytes of one entry, mode as stored -/
def rawEntry (ino mode links : Nat) (name body : Bytes) : Bytes :=
  header ino mode links body.length (name.length + 1) ++ name ++ [0]
    ++ zeros (pad4 (110 + name.length + 1)) ++ body ++ zeros (pad4 body.length)

theorem entryBytes_eq (ino : Nat) (e : Entry) : entryBytes ino e = rawEntry ino (effMode e.mode) e.links e.name e.body := rfl

theorem trailerBytes_eq : trailerBytes = rawEntry 0 0 1 trailerName [] := by
  simp [trailerBytes, rawEntry, pad4, zeros]

theorem rawEntry_length (ino mode links : Nat) (name body : Bytes) :
    (rawEntry ino mode links name body).length
      = 110 + (name.length + 1) + pad4 (110 + name.length + 1) + body.length + pad4 body.length := by
  simp [rawEntry, (header_layout ino mode links body.length (name.length + 1)).1]
  omega

/-- one step of the reader over one written entry -/
theorem readEntries_step (fuel ino mode links : Nat) (name body rest : Bytes)
    (hi : ino < 16 ^ 8) (hm : mode < 16 ^ 8) (hl : links < 16 ^ 8) (hs : body.length < 16 ^ 8) (hn : name.length + 1 < 16 ^ 8) :
    readEntries (fuel + 1) (rawEntry ino mode links name body ++ rest)
      = if name = trailerName then some []
        else (readEntries fuel rest).map ({ ino, mode, links, name, body } :: ·) := by
  have hp : pad4 (110 + name.length + 1) = pad4 (110 + (name.length + 1)) := by rw [Nat.add_assoc]
  obtain ⟨hlen, hmagic, h6, h14, h38, h54, h94⟩ := header_layout ino mode links body.length (name.length + 1)
  generalize hH : header ino mode links body.length (name.length + 1) = H at hlen hmagic h6 h14 h38 h54 h94
  -- the stream as a list of segments
  have hs' : rawEntry ino mode links name body ++ rest
      = ([H, name, [0], zeros (pad4 (110 + (name.length + 1))), body, zeros (pad4 body.length), rest] : List Bytes).flatten := by
    simp [rawEntry, hH, hp, List.append_assoc]
  have hHpre : rawEntry ino mode links name body ++ rest
      = H ++ (name ++ [0] ++ zeros (pad4 (110 + (name.length + 1))) ++ body ++ zeros (pad4 body.length) ++ rest) := by
    simp [rawEntry, hH, hp, List.append_assoc]
  generalize hS : rawEntry ino mode links name body ++ rest = S at hs' hHpre
  have hSlen : S.length = 110 + (name.length + 1) + pad4 (110 + name.length + 1) + body.length + pad4 body.length + rest.length := by
    rw [hs']; simp [hlen]; omega
  have hhdr : ∀ off len, off + len ≤ 110 → slice S off len = slice H off len := by
    intro off len h
    rw [hHpre]; exact slice_append_left _ _ off len (by omega)
  have htake : S.take 6 = b!"070701" := by
    rw [hHpre, List.take_append_of_le_length (by omega)]; exact hmagic
  have hname : slice S 110 (name.length + 1 - 1) = name := by
    rw [hs', Nat.add_sub_cancel]; exact slice_flatten [H] name _ 110 name.length (by simp [hlen]) rfl
  have hnul : slice S (110 + (name.length + 1) - 1) 1 = [0] := by
    rw [hs', show 110 + (name.length + 1) - 1 = 110 + name.length by omega]
    exact slice_flatten [H, name] [0] _ _ 1 (by simp [hlen]) rfl
  have hbody : slice S (110 + (name.length + 1) + pad4 (110 + (name.length + 1))) body.length = body := by
    rw [hs']
    exact slice_flatten [H, name, [0], zeros (pad4 (110 + (name.length + 1)))] body _ _ _
      (by simp [hlen]; omega) rfl
  have hdrop : S.drop (110 + (name.length + 1) + pad4 (110 + (name.length + 1)) + body.length + pad4 body.length) = rest := by
    rw [hs']
    have : ([H, name, [0], zeros (pad4 (110 + (name.length + 1))), body, zeros (pad4 body.length), rest] : List Bytes).flatten
        = (H ++ name ++ [0] ++ zeros (pad4 (110 + (name.length + 1))) ++ body ++ zeros (pad4 body.length)) ++ rest := by
      simp [List.append_assoc]
    rw [this]
    exact List.drop_left' (by simp [hlen]; omega)
  generalize hrr : readEntries fuel rest = r
  conv => lhs; unfold readEntries
  have hge : ¬ S.length < 110 := by omega
  simp only [hge, if_false, htake, ne_eq, not_true_eq_false, hhdr 6 8 (by omega), hhdr 14 8 (by omega), hhdr 38 8 (by omega),
    hhdr 54 8 (by omega), hhdr 94 8 (by omega), h6, h14, h38, h54, h94,
    readHex_field _ hi, readHex_field _ hm, readHex_field _ hl, readHex_field _ hs, readHex_field _ hn]
  have hn0 : ¬ name.length + 1 = 0 := by omega
  have hfit : ¬ S.length < 110 + (name.length + 1) + pad4 (110 + (name.length + 1)) + body.length + pad4 body.length := by omega
  simp only [hn0, if_false, hfit, hnul, hname, hbody, hdrop, hrr]
  by_cases ht : name = trailerName
  · simp [ht]
  · simp only [ht, if_false]
    cases r <;> rfl

end Nfpm.Cpio

namespace Nfpm.Cpio
open Nfpm B

/-- what the format can express for an entry -/
structure EntryOK (e : Entry) : Prop where
  mode : effMode e.mode < 16 ^ 8
  links : e.links < 16 ^ 8
  size : e.body.length < 16 ^ 8
  nameLen : e.name.length + 1 < 16 ^ 8
  notTrailer : e.name ≠ trailerName

theorem readEntries_trailer (fuel : Nat) : readEntries (fuel + 1) trailerBytes = some [] := by
  have := readEntries_step fuel 0 0 1 trailerName [] [] (by decide) (by decide) (by decide) (by decide) (by decide)
  rw [trailerBytes_eq]
  simpa using this

theorem readEntries_all (es : List Entry) (ino : Nat) (hok : ∀ e ∈ es, EntryOK e) (hi : ino + es.length < 16 ^ 8)
    (fuel : Nat) (hf : es.length < fuel) :
    readEntries fuel (entriesFrom ino es ++ trailerBytes) = some (expected ino es) := by
  induction es generalizing ino fuel with
  | nil =>
    cases fuel with
    | zero => omega
    | succ f => simpa [entriesFrom, expected] using readEntries_trailer f
  | cons e rest ih =>
    cases fuel with
    | zero => omega
    | succ f =>
      have ok := hok e (by simp)
      simp only [entriesFrom, List.append_assoc, entryBytes_eq, expected]
      rw [readEntries_step f ino (effMode e.mode) e.links e.name e.body _ (by simp only [List.length_cons] at hi; omega)
        ok.mode ok.links ok.size ok.nameLen, if_neg ok.notTrailer,
        ih (ino + 1) (fun x hx => hok x (List.mem_cons_of_mem _ hx)) (by simp only [List.length_cons] at hi; omega) f
          (by simp only [List.length_cons] at hf; omega)]
      rfl

theorem entriesFrom_length_ge (es : List Entry) (ino : Nat) : 110 * es.length ≤ (entriesFrom ino es).length := by
  induction es generalizing ino with
  | nil => simp [entriesFrom]
  | cons e rest ih =>
    simp only [entriesFrom, List.length_append, List.length_cons, entryBytes_eq, rawEntry_length]
    have := ih (ino + 1)
    omega

/-- **cpio round trip**: an independent reader recovers from the payload exactly the entries that were written –
    running inode numbers, stored modes, link counts, names, bodies, in order – and stops at the trailer -/
theorem read_archive (es : List Entry) (hok : ∀ e ∈ es, EntryOK e) (hn : 1 + es.length < 16 ^ 8) :
    read (archive es) = some (expected 1 es) := by
  unfold read archive
  apply readEntries_all es 1 hok hn
  have := entriesFrom_length_ge es 1
  simp only [List.length_append]
  omega

end Nfpm.Cpio
