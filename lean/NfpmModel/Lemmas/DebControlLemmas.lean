import NfpmModel.DebControl
import NfpmModel.Lemmas.TarLemmas
/-
  The deb control archive: every member is expressible in a GNU header, the archive reads back, and every member is
  found under its name – the maintainer scripts populated iff configured, verbatim, with the slot's mode.
-/
set_option linter.unusedSimpArgs false
set_option linter.unusedVariables false
namespace Nfpm.DebCtl
open Nfpm B

theorem file_ok (name : Bytes) (mode mtime : Nat) (body : Bytes) (hl : name.length ≤ 98) (h0 : (0 : UInt8) ∉ name)
    (hmode : mode < 8 ^ 7) (hm : mtime < 8 ^ 11) (hs : body.length < 8 ^ 11) : Tar.MemberOK (file name mode mtime body) :=
  { hdr := { nameLen := by simp [file]; omega, nameNul := by
               simp only [file]
               intro h
               rcases List.mem_append.mp h with h | h
               · revert h; decide
               · exact h0 h,
             linkLen := by simp [file], linkNul := by simp [file], unameLen := by simp [file], unameNul := by simp [file],
             gnameLen := by simp [file], gnameNul := by simp [file], prefixLen := by simp [file], prefixNul := by simp [file],
             mode := by
               show mode < Tar.numBound .gnu 8
               have : (8 : Nat) ^ 7 ≤ Tar.numBound .gnu 8 := by decide
               omega,
             uid := by show 0 < Tar.numBound .gnu 8; decide, gid := by show 0 < Tar.numBound .gnu 8; decide,
             size := by
               show body.length < Tar.numBound .gnu 12
               have : (8 : Nat) ^ 11 ≤ Tar.numBound .gnu 12 := by decide
               omega,
             mtime := by
               show mtime < Tar.numBound .gnu 12
               have : (8 : Nat) ^ 11 ≤ Tar.numBound .gnu 12 := by decide
               omega },
    size := rfl }

/-- every member of the control archive fits a GNU header (guards: mtime and every body below 8 GiB) -/
theorem members_ok (mtime : Nat) (control md5sums conffiles triggers : Bytes) (scripts : Bytes → Option Bytes)
    (hm : mtime < 8 ^ 11) (hc : control.length < 8 ^ 11) (h5 : md5sums.length < 8 ^ 11) (hf : conffiles.length < 8 ^ 11)
    (ht : triggers.length < 8 ^ 11) (hs : ∀ n b, scripts n = some b → b.length < 8 ^ 11) :
    ∀ m ∈ members mtime control md5sums conffiles triggers scripts, Tar.MemberOK m := by
  intro m hmem
  unfold members at hmem
  rcases List.mem_append.mp hmem with h | h
  · rcases List.mem_append.mp h with h | h
    · simp only [List.mem_cons, List.mem_nil_iff, or_false] at h
      rcases h with rfl | rfl | rfl
      · exact file_ok _ _ _ _ (by decide) (by decide) (by decide) hm hc
      · exact file_ok _ _ _ _ (by decide) (by decide) (by decide) hm h5
      · exact file_ok _ _ _ _ (by decide) (by decide) (by decide) hm hf
    · split at h
      · simp at h
      · simp only [List.mem_cons, List.mem_nil_iff, or_false] at h
        subst h
        exact file_ok _ _ _ _ (by decide) (by decide) (by decide) hm ht
  · obtain ⟨s, hsl, hsm⟩ := List.mem_filterMap.mp h
    cases hb : scripts s.1 with
    | none => rw [hb] at hsm; simp at hsm
    | some b =>
      rw [hb] at hsm
      simp only [Option.map_some, Option.some.injEq] at hsm
      subst hsm
      have hbl := hs s.1 b hb
      simp only [scriptSlots, List.mem_cons, List.mem_nil_iff, or_false] at hsl
      rcases hsl with rfl | rfl | rfl | rfl | rfl | rfl | rfl <;>
        exact file_ok _ _ _ _ (by decide) (by decide) (by decide) hm hbl

/-- **the control archive reads back** -/
theorem read_members (mtime : Nat) (control md5sums conffiles triggers : Bytes) (scripts : Bytes → Option Bytes)
    (hm : mtime < 8 ^ 11) (hc : control.length < 8 ^ 11) (h5 : md5sums.length < 8 ^ 11) (hf : conffiles.length < 8 ^ 11)
    (ht : triggers.length < 8 ^ 11) (hs : ∀ n b, scripts n = some b → b.length < 8 ^ 11) :
    Tar.read (Tar.archive (members mtime control md5sums conffiles triggers scripts))
      = some (members mtime control md5sums conffiles triggers scripts) :=
  Tar.read_archive _ (members_ok mtime control md5sums conffiles triggers scripts hm hc h5 hf ht hs)

theorem name_inj (a b : Bytes) : (b!"./" ++ a = b!"./" ++ b) = (a = b) := by
  simp

/-- looking a script slot up among the script members: present iff configured, with the configured bytes and the mode -/
theorem lookup_scripts (mtime : Nat) (scripts : Bytes → Option Bytes) (slots : List (Bytes × Nat))
    (hnd : (slots.map (·.1)).Nodup) (s : Bytes × Nat) (hs : s ∈ slots) :
    lookup s.1 (slots.filterMap (fun t => (scripts t.1).map (file t.1 t.2 mtime))) = (scripts s.1).map (file s.1 s.2 mtime) := by
  induction slots with
  | nil => simp at hs
  | cons t rest ih =>
    simp only [List.map_cons, List.nodup_cons] at hnd
    simp only [List.filterMap_cons]
    rcases List.mem_cons.mp hs with rfl | hin
    · cases hb : scripts s.1 with
      | some b => simp [lookup, file, List.find?]
      | none =>
        simp only [Option.map_none]
        -- no later member carries this name
        unfold lookup
        rw [List.find?_eq_none]
        intro m hm
        obtain ⟨u, hu, hum⟩ := List.mem_filterMap.mp hm
        cases hc : scripts u.1 with
        | none => rw [hc] at hum; simp at hum
        | some c =>
          rw [hc] at hum
          simp only [Option.map_some, Option.some.injEq] at hum
          subst hum
          simp only [file, decide_eq_true_eq, name_inj]
          intro e
          exact hnd.1 (List.mem_map.mpr ⟨u, hu, e⟩)
    · have hne : t.1 ≠ s.1 := fun e => hnd.1 (e ▸ List.mem_map.mpr ⟨s, hin, rfl⟩)
      cases hb : scripts t.1 with
      | none => simpa using ih hnd.2 hin
      | some b =>
        simp only [Option.map_some, lookup, List.find?_cons, file, name_inj, hne, decide_false]
        exact ih hnd.2 hin

/-- **members by name**: control, md5sums and conffiles are always there with the given bytes; triggers iff there is a
    trigger line; every script slot iff its script is configured, verbatim and with the slot's mode -/
theorem lookup_members (mtime : Nat) (control md5sums conffiles triggers : Bytes) (scripts : Bytes → Option Bytes) :
    lookup b!"control" (members mtime control md5sums conffiles triggers scripts) = some (file b!"control" 0o644 mtime control)
    ∧ lookup b!"md5sums" (members mtime control md5sums conffiles triggers scripts) = some (file b!"md5sums" 0o644 mtime md5sums)
    ∧ lookup b!"conffiles" (members mtime control md5sums conffiles triggers scripts) = some (file b!"conffiles" 0o644 mtime conffiles)
    ∧ (triggers ≠ [] → lookup b!"triggers" (members mtime control md5sums conffiles triggers scripts)
          = some (file b!"triggers" 0o644 mtime triggers))
    ∧ ∀ s ∈ scriptSlots, lookup s.1 (members mtime control md5sums conffiles triggers scripts)
          = (scripts s.1).map (file s.1 s.2 mtime) := by
  refine ⟨by simp [members, lookup, file], by simp [members, lookup, file], by simp [members, lookup, file], ?_, ?_⟩
  · intro h
    simp [members, lookup, file, h]
  · intro s hs
    have hkey := lookup_scripts mtime scripts scriptSlots (by decide) s hs
    unfold members
    have hskip : ∀ (pre rest : List Tar.Member), (∀ m ∈ pre, m.hdr.name ≠ b!"./" ++ s.1) → lookup s.1 (pre ++ rest) = lookup s.1 rest := by
      intro pre rest hp
      unfold lookup
      induction pre with
      | nil => rfl
      | cons p ps ihp =>
        change List.find? _ (p :: (ps ++ rest)) = _
        rw [List.find?_cons]
        have hd : decide (p.hdr.name = b!"./" ++ s.1) = false := decide_eq_false (hp p (by simp))
        rw [hd]
        exact ihp (fun m hm => hp m (List.mem_cons_of_mem _ hm))
    have hnames : ∀ n ∈ [b!"control", b!"md5sums", b!"conffiles", b!"triggers"], n ≠ s.1 := by
      simp only [scriptSlots, List.mem_cons, List.mem_nil_iff, or_false] at hs
      intro n hn
      simp only [List.mem_cons, List.mem_nil_iff, or_false] at hn
      rcases hn with rfl | rfl | rfl | rfl <;> rcases hs with rfl | rfl | rfl | rfl | rfl | rfl | rfl <;> decide
    have hfile : ∀ n mode body, n ≠ s.1 → (file n mode mtime body).hdr.name ≠ b!"./" ++ s.1 := by
      intro n mode body hn e
      apply hn
      have : b!"./" ++ n = b!"./" ++ s.1 := e
      rwa [name_inj] at this
    rw [List.append_assoc, hskip _ _ ?_, hskip _ _ ?_, hkey]
    · intro m hm
      split at hm
      · simp at hm
      · simp only [List.mem_cons, List.mem_nil_iff, or_false] at hm
        subst hm
        exact hfile _ _ _ (hnames _ (by simp))
    · intro m hm
      simp only [List.mem_cons, List.mem_nil_iff, or_false] at hm
      rcases hm with rfl | rfl | rfl
      · exact hfile _ _ _ (hnames _ (by simp))
      · exact hfile _ _ _ (hnames _ (by simp))
      · exact hfile _ _ _ (hnames _ (by simp))

/-! ### ipk -/

theorem ipkMembers_ok (mtime : Nat) (control conffiles : Bytes) (scripts : Bytes → Option Bytes)
    (hm : mtime < 8 ^ 11) (hc : control.length < 8 ^ 11) (hf : conffiles.length < 8 ^ 11)
    (hs : ∀ n b, scripts n = some b → b.length < 8 ^ 11) :
    ∀ m ∈ ipkMembers mtime control conffiles scripts, Tar.MemberOK m := by
  intro m hmem
  unfold ipkMembers at hmem
  rcases List.mem_append.mp hmem with h | h
  · simp only [List.mem_cons, List.mem_nil_iff, or_false] at h
    rcases h with rfl | rfl
    · exact file_ok _ _ _ _ (by decide) (by decide) (by decide) hm hc
    · exact file_ok _ _ _ _ (by decide) (by decide) (by decide) hm hf
  · obtain ⟨s, hsl, hsm⟩ := List.mem_filterMap.mp h
    cases hb : scripts s.1 with
    | none => rw [hb] at hsm; simp at hsm
    | some b =>
      rw [hb] at hsm
      simp only [Option.map_some, Option.some.injEq] at hsm
      subst hsm
      have hbl := hs s.1 b hb
      simp only [ipkSlots, List.mem_cons, List.mem_nil_iff, or_false] at hsl
      rcases hsl with rfl | rfl | rfl | rfl <;>
        exact file_ok _ _ _ _ (by decide) (by decide) (by decide) hm hbl

theorem lookup_ipkMembers (mtime : Nat) (control conffiles : Bytes) (scripts : Bytes → Option Bytes) :
    lookup b!"control" (ipkMembers mtime control conffiles scripts) = some (file b!"control" 0o644 mtime control)
    ∧ lookup b!"conffiles" (ipkMembers mtime control conffiles scripts) = some (file b!"conffiles" 0o644 mtime conffiles)
    ∧ ∀ s ∈ ipkSlots, lookup s.1 (ipkMembers mtime control conffiles scripts) = (scripts s.1).map (file s.1 s.2 mtime) := by
  refine ⟨by simp [ipkMembers, lookup, file], by simp [ipkMembers, lookup, file], ?_⟩
  intro s hs
  have hkey := lookup_scripts mtime scripts ipkSlots (by decide) s hs
  unfold ipkMembers
  have hnames : ∀ n ∈ [b!"control", b!"conffiles"], n ≠ s.1 := by
    simp only [ipkSlots, List.mem_cons, List.mem_nil_iff, or_false] at hs
    intro n hn
    simp only [List.mem_cons, List.mem_nil_iff, or_false] at hn
    rcases hn with rfl | rfl <;> rcases hs with rfl | rfl | rfl | rfl <;> decide
  unfold lookup at hkey ⊢
  change List.find? _ (file b!"control" 0o644 mtime control :: (file b!"conffiles" 0o644 mtime conffiles :: _)) = _
  have h1 : decide ((file b!"control" 0o644 mtime control).hdr.name = b!"./" ++ s.1) = false := by
    apply decide_eq_false
    intro e
    have : b!"./" ++ b!"control" = b!"./" ++ s.1 := e
    rw [name_inj] at this
    exact hnames _ (by simp) this
  have h2 : decide ((file b!"conffiles" 0o644 mtime conffiles).hdr.name = b!"./" ++ s.1) = false := by
    apply decide_eq_false
    intro e
    have : b!"./" ++ b!"conffiles" = b!"./" ++ s.1 := e
    rw [name_inj] at this
    exact hnames _ (by simp) this
  rw [List.find?_cons, h1, List.find?_cons, h2]
  exact hkey

end Nfpm.DebCtl
