import NfpmModel.Pax
import NfpmModel.Lemmas.TarLemmas
/-
  Helper lemmas for PAX extension records: the self-counting length prefix is consistent, a record parses back,
  a record list parses back, logical members survive expand → collapse.
-/
set_option linter.unusedSimpArgs false
set_option linter.unusedVariables false
namespace Nfpm.Tar
open Nfpm B Ar

/-! ### number of decimal digits -/

theorem natDigits_bounds (fuel n : Nat) (acc : Bytes) (hf : n < fuel) :
    ∃ k, (natDigits fuel n acc).length = k + acc.length ∧ 1 ≤ k ∧ n < 10 ^ k := by
  induction fuel generalizing n acc with
  | zero => omega
  | succ f ih =>
    unfold natDigits
    by_cases h10 : n < 10
    · simp only [h10, if_true, List.length_cons]
      exact ⟨1, by omega, by omega, by simpa using h10⟩
    · simp only [h10, if_false]
      obtain ⟨k, hl, hk, hn⟩ := ih (n / 10) ((48 + n % 10).toUInt8 :: acc) (by omega)
      refine ⟨k + 1, ?_, by omega, ?_⟩
      · rw [hl]; simp only [List.length_cons]; omega
      · rw [Nat.pow_succ]; omega

/-- a number is below ten to the number of its digits -/
theorem lt_pow_digits (n : Nat) : n < 10 ^ (natToDec n).length ∧ 1 ≤ (natToDec n).length := by
  obtain ⟨k, hl, hk, hn⟩ := natDigits_bounds (n + 1) n [] (by omega)
  unfold natToDec
  simp only [List.length_nil, Nat.add_zero] at hl
  rw [hl]; exact ⟨hn, hk⟩

theorem digits_mono (a b : Nat) (h : a ≤ b) : (natToDec a).length ≤ (natToDec b).length := by
  obtain ⟨hb, hb1⟩ := lt_pow_digits b
  exact natToDec_length a _ hb1 (by omega)

theorem lt_ten_pow (j : Nat) : j < 10 ^ j := by
  induction j with
  | zero => simp
  | succ j ih => rw [Nat.pow_succ]; omega

/-- **the length prefix is consistent**: the record is `<N> k=v\n` where N is the length of the whole record -/
theorem paxRecord_spec (k v : Bytes) :
    ∃ N, paxRecord k v = natToDec N ++ [32] ++ k ++ [61] ++ v ++ [10]
      ∧ N = (natToDec N).length + k.length + v.length + 3 := by
  unfold paxRecord
  simp only []
  generalize hb : k.length + v.length + 3 = b
  obtain ⟨hbP, hj1⟩ := lt_pow_digits b
  generalize hj : (natToDec b).length = j at hbP hj1
  have hjP := lt_ten_pow j
  have hP10 : 10 ^ (j + 1) = 10 ^ j * 10 := Nat.pow_succ ..
  have hlen : ∀ N, (natToDec N ++ [32] ++ k ++ [61] ++ v ++ [10]).length = (natToDec N).length + b := by
    intro N; simp only [List.length_append, List.length_cons, List.length_nil]; omega
  have hs1 : (natToDec (b + j)).length ≤ j + 1 := natToDec_length _ _ (by omega) (by omega)
  have hs1' : j ≤ (natToDec (b + j)).length := by rw [← hj]; exact digits_mono _ _ (by omega)
  by_cases hc : (natToDec (b + j)).length = j
  · -- first attempt consistent
    refine ⟨b + j, ?_, ?_⟩
    · rw [if_neg]; rw [hlen, hc]; omega
    · rw [hc]; omega
  · have he : (natToDec (b + j)).length = j + 1 := by omega
    have hs2 : (natToDec (b + j + 1)).length ≤ j + 1 := natToDec_length _ _ (by omega) (by omega)
    have hs2' : j + 1 ≤ (natToDec (b + j + 1)).length := by rw [← he]; exact digits_mono _ _ (by omega)
    have hl1 : (natToDec (b + j) ++ [32] ++ k ++ [61] ++ v ++ [10]).length = b + j + 1 := by rw [hlen, he]; omega
    refine ⟨b + j + 1, ?_, ?_⟩
    · rw [if_pos (by rw [hl1]; omega), hl1]
    · omega

/-! ### one record parses back -/

theorem takeWhile_stop {p : UInt8 → Bool} (a : Bytes) (c : UInt8) (r : Bytes) (ha : ∀ x ∈ a, p x = true) (hc : p c = false) :
    (a ++ c :: r).takeWhile p = a := by
  induction a with
  | nil => simp [List.takeWhile, hc]
  | cons x xs ih =>
    have hx := ha x (by simp)
    simp only [List.cons_append, List.takeWhile_cons, hx, if_true]
    rw [ih (fun y hy => ha y (List.mem_cons_of_mem _ hy))]

theorem parseRecord_paxRecord (k v rest : Bytes) (hk : (61 : UInt8) ∉ k) :
    parseRecord (paxRecord k v ++ rest) = some ((k, v), rest) := by
  obtain ⟨N, hrec, hN⟩ := paxRecord_spec k v
  have hd : (paxRecord k v ++ rest).takeWhile isDigitB = natToDec N := by
    rw [hrec]
    have : natToDec N ++ [32] ++ k ++ [61] ++ v ++ [10] ++ rest = natToDec N ++ 32 :: (k ++ [61] ++ v ++ [10] ++ rest) := by
      simp [List.append_assoc]
    rw [this]
    exact takeWhile_stop _ _ _ (fun x hx => (natToDec_digits N x hx).1) (by decide)
  have hlen : (paxRecord k v).length = N := by
    rw [hrec]; simp only [List.length_append, List.length_cons, List.length_nil]; omega
  unfold parseRecord
  simp only [hd, decVal_natToDec]
  rw [if_neg (natToDec_ne_nil N)]
  rw [if_neg (by simp only [List.length_append, hlen]; omega)]
  have htake : (paxRecord k v ++ rest).take N = paxRecord k v := List.take_left' hlen
  have hdrop : (paxRecord k v ++ rest).drop N = rest := List.drop_left' hlen
  have hr : (paxRecord k v).drop (natToDec N).length = 32 :: (k ++ [61] ++ v ++ [10]) := by
    rw [hrec]
    have : natToDec N ++ [32] ++ k ++ [61] ++ v ++ [10] = natToDec N ++ (32 :: (k ++ [61] ++ v ++ [10])) := by
      simp [List.append_assoc]
    rw [this]; exact List.drop_left
  simp only [htake, hdrop, hr]
  have hlast : (32 :: (k ++ [61] ++ v ++ [10])).getLast? = some 10 := by
    rw [show (32 : UInt8) :: (k ++ [61] ++ v ++ [10]) = (32 :: (k ++ [61] ++ v)) ++ [10] by simp [List.append_assoc]]
    exact List.getLast?_concat ..
  rw [if_neg (by rw [hlast]; simp)]
  have hkv : ((32 : UInt8) :: (k ++ [61] ++ v ++ [10])).drop 1 = (k ++ [61] ++ v) ++ [10] := by simp
  have hkv2 : (List.drop 1 ((32 : UInt8) :: (k ++ [61] ++ v ++ [10]))).dropLast = k ++ 61 :: v := by
    rw [hkv, List.dropLast_concat]; simp [List.append_assoc]
  simp only [hkv2]
  have hkk : (k ++ 61 :: v).takeWhile (· != 61) = k :=
    takeWhile_stop k 61 v (fun x hx => by
      have : x ≠ 61 := fun e => hk (e ▸ hx)
      simpa using this) (by decide)
  simp only [hkk]
  rw [if_neg (by simp only [List.length_append, List.length_cons]; omega)]
  have : (k ++ 61 :: v).drop (k.length + 1) = v := by
    rw [show k ++ 61 :: v = (k ++ [61]) ++ v by simp]
    exact List.drop_left' (by simp)
  rw [this]

theorem paxRecord_length_pos (k v : Bytes) : 0 < (paxRecord k v).length := by
  obtain ⟨N, hrec, hN⟩ := paxRecord_spec k v
  rw [hrec]; simp only [List.length_append, List.length_cons, List.length_nil]; omega

/-- what a record list must satisfy to be read back: no '=' inside a key (validPAXRecord) -/
def RecsOK (recs : List (Bytes × Bytes)) : Prop := ∀ r ∈ recs, (61 : UInt8) ∉ r.1

theorem parseRecords_paxBody (recs : List (Bytes × Bytes)) (ok : RecsOK recs) (fuel : Nat) (hf : recs.length < fuel) :
    parseRecords fuel (paxBody recs) = some recs := by
  induction recs generalizing fuel with
  | nil =>
    cases fuel with
    | zero => omega
    | succ f => simp [parseRecords, paxBody]
  | cons r rest ih =>
    cases fuel with
    | zero => omega
    | succ f =>
      have hne : paxBody (r :: rest) ≠ [] := by
        have := paxRecord_length_pos r.1 r.2
        intro e
        have hl := congrArg List.length e
        simp only [paxBody, List.flatMap_cons, List.length_append, List.length_nil] at hl
        omega
      unfold parseRecords
      rw [if_neg hne]
      have hb : paxBody (r :: rest) = paxRecord r.1 r.2 ++ paxBody rest := by simp [paxBody]
      rw [hb, parseRecord_paxRecord r.1 r.2 _ (ok r (by simp))]
      simp only []
      rw [ih (fun x hx => ok x (List.mem_cons_of_mem _ hx)) f (by simp only [List.length_cons] at hf; omega)]
      rfl

theorem paxBody_length_ge (recs : List (Bytes × Bytes)) : recs.length ≤ (paxBody recs).length := by
  induction recs with
  | nil => simp [paxBody]
  | cons r rest ih =>
    have := paxRecord_length_pos r.1 r.2
    simp only [paxBody, List.flatMap_cons, List.length_append, List.length_cons] at *
    omega

/-! ### logical members -/

theorem lastIdx_split (c : UInt8) (s : Bytes) (i : Nat) (h : lastIdx c s = some i) :
    s = s.take i ++ c :: s.drop (i + 1) ∧ i < s.length := by
  unfold lastIdx at h
  simp only [] at h
  split at h
  · cases h
  · rename_i hne
    injection h with hi
    -- s.reverse = a ++ b, a the run without c, b starts with c
    have hsplit := List.takeWhile_append_dropWhile (p := (· != c)) (l := s.reverse)
    generalize ha : s.reverse.takeWhile (· != c) = a at hsplit hne hi
    generalize hb : s.reverse.dropWhile (· != c) = b at hsplit
    have hlen : a.length + b.length = s.length := by
      have := congrArg List.length hsplit
      simp only [List.length_append, List.length_reverse] at this; exact this
    cases b with
    | nil => simp at hlen; exact absurd hlen hne
    | cons x b' =>
      have hx : x = c := by
        have := List.head_dropWhile_not (fun y => y != c) (l := s.reverse) (by rw [hb]; simp)
        simp only [hb, List.head_cons] at this
        simpa using this
      subst hx
      have hs : s = b'.reverse ++ x :: a.reverse := by
        have := congrArg List.reverse hsplit
        simp only [List.reverse_reverse, List.reverse_append, List.reverse_cons, List.append_assoc, List.singleton_append] at this
        exact this.symm
      simp only [List.length_cons] at hlen
      have hi' : i = b'.length := by omega
      subst hi'
      constructor
      · have h1 : s.take b'.length = b'.reverse := by rw [hs]; exact List.take_left' (by simp)
        have h2 : s.drop (b'.length + 1) = a.reverse := by
          rw [hs, show b'.reverse ++ x :: a.reverse = (b'.reverse ++ [x]) ++ a.reverse by simp]
          exact List.drop_left' (by simp)
        rw [h1, h2]; exact hs
      · omega

theorem splitUstar_join (name p q : Bytes) (h : splitUstar name = some (p, q)) : p ++ slash :: q = name ∧ p ≠ [] := by
  unfold splitUstar at h
  split at h
  · cases h
  · simp only [] at h
    generalize hL : (if name.length > 156 then 156 else if name.getLast? = some slash then name.length - 1 else name.length) = L at h
    have hLle : L ≤ name.length := by
      rw [← hL]; split
      · omega
      · split <;> omega
    cases hi : lastIdx slash (name.take L) with
    | none => rw [hi] at h; cases h
    | some i =>
      rw [hi] at h
      simp only [] at h
      split at h
      · cases h
      · rename_i hcond
        injection h with h
        injection h with hp hq
        obtain ⟨hsp, hlt⟩ := lastIdx_split slash (name.take L) i hi
        have hiL : i < L := by simp only [List.length_take] at hlt; omega
        have hname : name = name.take i ++ slash :: name.drop (i + 1) := by
          have h1 : name = name.take L ++ name.drop L := (List.take_append_drop L name).symm
          have h2 : (name.take L).take i = name.take i := by rw [List.take_take]; congr 1; omega
          have h3 : (name.take L).drop (i + 1) ++ name.drop L = name.drop (i + 1) := by
            conv => rhs; rw [h1]
            rw [List.drop_append_of_le_length (by simp only [List.length_take]; omega)]
          conv => lhs; rw [h1, hsp, h2]
          simp only [List.append_assoc, List.cons_append, h3]
        constructor
        · rw [← hp, ← hq]; exact hname.symm
        · rw [← hp]
          intro e
          have : (name.take i).length = 0 := by rw [e]; rfl
          simp only [List.length_take] at this
          have : i = 0 := by omega
          exact hcond (Or.inl this)

theorem readStr_nul (v : Bytes) (h0 : (0 : UInt8) ∉ v) : readStr (v ++ [0]) = v := by
  unfold readStr
  induction v with
  | nil => simp
  | cons a as ih =>
    have ha : a ≠ 0 := fun e => h0 (by simp [e])
    have : (a != 0) = true := by simpa using ha
    simp only [List.cons_append, List.takeWhile_cons, this, if_true]
    rw [ih (fun hm => h0 (List.mem_cons_of_mem _ hm))]

/-- what the format can express for a logical member -/
structure PMemberOK (m : PMember) : Prop where
  notX : m.hdr.typeflag ≠ 120
  notL : m.hdr.typeflag ≠ 76
  notK : m.hdr.typeflag ≠ 75
  recs : RecsOK m.pax
  /-- a `path` / `linkpath` record carries the member's own name / link name -/
  pathRec : ∀ v, lookupB (b!"path") m.pax = some v → v = m.hdr.name
  linkRec : ∀ v, lookupB (b!"linkpath") m.pax = some v → v = m.hdr.linkname
  /-- the prefix field belongs to the rendering, not to the logical member -/
  noPfx : m.hdr.pfx = []
  /-- GNU members carry no extension records; their long names travel NUL-terminated -/
  gnuPlain : m.hdr.flavor = .gnu → m.pax = [] ∧ (0 : UInt8) ∉ m.hdr.name ∧ (0 : UInt8) ∉ m.hdr.linkname

theorem hdr_ext (a b : Hdr) (h1 : a.flavor = b.flavor) (h2 : a.name = b.name) (h3 : a.mode = b.mode) (h4 : a.uid = b.uid)
    (h5 : a.gid = b.gid) (h6 : a.size = b.size) (h7 : a.mtime = b.mtime) (h8 : a.typeflag = b.typeflag)
    (h9 : a.linkname = b.linkname) (h10 : a.uname = b.uname) (h11 : a.gname = b.gname) (h12 : a.dev = b.dev)
    (h13 : a.pfx = b.pfx) : a = b := by
  cases a; cases b; simp_all

theorem pmember_ext (m : PMember) (h : Hdr) (px : List (Bytes × Bytes)) (b : Bytes) (hh : h = m.hdr) (hp : px = m.pax)
    (hb : b = m.body) : ({ hdr := h, pax := px, body := b } : PMember) = m := by
  subst hh hp hb; cases m; rfl

/-- the rendering changes only name, link name and prefix -/
theorem mainHdr_fields (m : PMember) :
    (mainHdr m).flavor = m.hdr.flavor ∧ (mainHdr m).mode = m.hdr.mode ∧ (mainHdr m).uid = m.hdr.uid ∧ (mainHdr m).gid = m.hdr.gid
    ∧ (mainHdr m).size = m.hdr.size ∧ (mainHdr m).mtime = m.hdr.mtime ∧ (mainHdr m).typeflag = m.hdr.typeflag
    ∧ (mainHdr m).uname = m.hdr.uname ∧ (mainHdr m).gname = m.hdr.gname ∧ (mainHdr m).dev = m.hdr.dev := by
  unfold mainHdr
  split
  · exact ⟨rfl, rfl, rfl, rfl, rfl, rfl, rfl, rfl, rfl, rfl⟩
  · simp only []
    split
    · exact ⟨rfl, rfl, rfl, rfl, rfl, rfl, rfl, rfl, rfl, rfl⟩
    · split <;> exact ⟨rfl, rfl, rfl, rfl, rfl, rfl, rfl, rfl, rfl, rfl⟩

theorem gnuLong_typeflag (tf : UInt8) (v : Bytes) : (gnuLongMember tf v).hdr.typeflag = tf := rfl
theorem gnuLong_body (tf : UInt8) (v : Bytes) : (gnuLongMember tf v).body = v ++ [0] := rfl

/-- the ordinary member of a GNU logical member resolves to the logical member, given what 'L' / 'K' announced -/
theorem resolve_gnu (m : PMember) (hm : PMemberOK m) (hg : m.hdr.flavor = .gnu) (rest : List Member) :
    collapseP { name := if m.hdr.name.length > 100 then some m.hdr.name else none,
                link := if m.hdr.linkname.length > 100 then some m.hdr.linkname else none }
        ({ hdr := mainHdr m, body := m.body } :: rest)
      = (collapseP {} rest).map (m :: ·) := by
  obtain ⟨hpax, _, _⟩ := hm.gnuPlain hg
  obtain ⟨f1, f2, f3, f4, f5, f6, f7, f8, f9, f10⟩ := mainHdr_fields m
  have hname : (mainHdr m).name = m.hdr.name.take 100 := by unfold mainHdr; rw [hg]
  have hlink : (mainHdr m).linkname = m.hdr.linkname.take 100 := by unfold mainHdr; rw [hg]
  have hpfx : (mainHdr m).pfx = [] := by unfold mainHdr; rw [hg]; exact hm.noPfx
  conv => lhs; unfold collapseP
  rw [if_neg (by show ¬ (mainHdr m).typeflag = 120; rw [f7]; exact hm.notX),
    if_neg (by show ¬ (mainHdr m).typeflag = 76; rw [f7]; exact hm.notL),
    if_neg (by show ¬ (mainHdr m).typeflag = 75; rw [f7]; exact hm.notK)]
  simp only [Option.getD_none, lookupB]
  congr 1
  funext x
  congr 1
  apply pmember_ext
  · apply hdr_ext <;> simp only [f1, f2, f3, f4, f5, f6, f7, f8, f9, f10, hm.noPfx]
    · split
      · rfl
      · simp only [Option.getD_none, hpfx, if_true, hname]; exact List.take_of_length_le (by omega)
    · split
      · rfl
      · simp only [Option.getD_none, hlink]; exact List.take_of_length_le (by omega)
  · exact hpax.symm
  · rfl

/-- the ordinary member of a USTAR/PAX logical member resolves to the logical member, given its records -/
theorem resolve_ustar (m : PMember) (hm : PMemberOK m) (hu : m.hdr.flavor = .ustar) (rest : List Member) :
    collapseP { recs := if m.pax = [] then none else some m.pax } ({ hdr := mainHdr m, body := m.body } :: rest)
      = (collapseP {} rest).map (m :: ·) := by
  obtain ⟨f1, f2, f3, f4, f5, f6, f7, f8, f9, f10⟩ := mainHdr_fields m
  have hrecs : (if m.pax = [] then none else some m.pax : Option (List (Bytes × Bytes))).getD [] = m.pax := by
    split
    · rename_i h; simp [h]
    · rfl
  have hn : (lookupB (b!"path") m.pax).getD (if (mainHdr m).pfx = [] then (mainHdr m).name else (mainHdr m).pfx ++ slash :: (mainHdr m).name) = m.hdr.name := by
    unfold mainHdr; rw [hu]; simp only []
    cases hl : lookupB (b!"path") m.pax with
    | some v => simp [hm.pathRec v hl]
    | none =>
      simp only [Option.isSome_none, Bool.false_eq_true, if_false, Option.getD_none]
      cases hs : splitUstar m.hdr.name with
      | none => simp only [hm.noPfx, if_true]
      | some ps =>
        obtain ⟨p, q⟩ := ps
        obtain ⟨hj, hne⟩ := splitUstar_join m.hdr.name p q hs
        simp only [hne, if_false, hj]
  have hl : (lookupB (b!"linkpath") m.pax).getD (mainHdr m).linkname = m.hdr.linkname := by
    unfold mainHdr; rw [hu]; simp only []
    cases hl : lookupB (b!"linkpath") m.pax with
    | some v => simp [hm.linkRec v hl]
    | none => simp
  conv => lhs; unfold collapseP
  rw [if_neg (by show ¬ (mainHdr m).typeflag = 120; rw [f7]; exact hm.notX),
    if_neg (by show ¬ (mainHdr m).typeflag = 76; rw [f7]; exact hm.notL),
    if_neg (by show ¬ (mainHdr m).typeflag = 75; rw [f7]; exact hm.notK)]
  simp only [Option.getD_none, hrecs, hn, hl]
  congr 1
  funext x
  congr 1
  apply pmember_ext
  · apply hdr_ext <;> simp only [f1, f2, f3, f4, f5, f6, f7, f8, f9, f10, hm.noPfx]
  · rfl
  · rfl

/-- one logical member off the front -/
theorem collapseP_expand (m : PMember) (hm : PMemberOK m) (rest : List Member) :
    collapseP {} (expand m ++ rest) = (collapseP {} rest).map (m :: ·) := by
  unfold expand
  cases hf : m.hdr.flavor with
  | gnu =>
    obtain ⟨_, hn0, hl0⟩ := hm.gnuPlain hf
    simp only []
    by_cases h1 : m.hdr.name.length > 100 <;> by_cases h2 : m.hdr.linkname.length > 100
    · simp only [h1, h2, if_true, List.cons_append, List.nil_append]
      conv => lhs; unfold collapseP
      simp only [gnuLong_typeflag, gnuLong_body, readStr_nul _ hn0, if_true, if_false, Option.isSome_none, Bool.false_eq_true,
        show ¬ ((76 : UInt8) = 120) from by decide, show ¬ ((76 : UInt8) = 75) from by decide]
      conv => lhs; unfold collapseP
      simp only [gnuLong_typeflag, gnuLong_body, readStr_nul _ hl0, if_true, if_false, Option.isSome_none, Bool.false_eq_true,
        show ¬ ((75 : UInt8) = 120) from by decide, show ¬ ((75 : UInt8) = 76) from by decide]
      have := resolve_gnu m hm hf rest
      simpa [h1, h2] using this
    · simp only [h1, h2, if_true, if_false, List.cons_append, List.nil_append, List.append_nil]
      conv => lhs; unfold collapseP
      simp only [gnuLong_typeflag, gnuLong_body, readStr_nul _ hn0, if_true, if_false, Option.isSome_none, Bool.false_eq_true,
        show ¬ ((76 : UInt8) = 120) from by decide, show ¬ ((76 : UInt8) = 75) from by decide]
      have := resolve_gnu m hm hf rest
      simpa [h1, h2] using this
    · simp only [h1, h2, if_true, if_false, List.cons_append, List.nil_append]
      conv => lhs; unfold collapseP
      simp only [gnuLong_typeflag, gnuLong_body, readStr_nul _ hl0, if_true, if_false, Option.isSome_none, Bool.false_eq_true,
        show ¬ ((75 : UInt8) = 120) from by decide, show ¬ ((75 : UInt8) = 76) from by decide]
      have := resolve_gnu m hm hf rest
      simpa [h1, h2] using this
    · simp only [h1, h2, if_false, List.nil_append]
      have := resolve_gnu m hm hf rest
      simpa [h1, h2] using this
  | ustar =>
    simp only []
    by_cases hp : m.pax = []
    · simp only [hp, if_true, List.nil_append]
      have := resolve_ustar m hm hf rest
      simpa [hp] using this
    · simp only [hp, if_false, List.cons_append, List.nil_append]
      conv => lhs; unfold collapseP
      have hx : (xHdr m.hdr.name (paxBody m.pax).length).typeflag = 120 := rfl
      simp only [hx, if_true, Option.isSome_none, Bool.false_eq_true, if_false]
      rw [parseRecords_paxBody m.pax hm.recs _ (by have := paxBody_length_ge m.pax; omega)]
      simp only []
      have := resolve_ustar m hm hf rest
      simpa [hp] using this

theorem collapse_expand (ms : List PMember) (ok : ∀ m ∈ ms, PMemberOK m) :
    collapse (ms.flatMap expand) = some ms := by
  unfold collapse
  induction ms with
  | nil => simp [collapseP]
  | cons m rest ih =>
    simp only [List.flatMap_cons]
    rw [collapseP_expand m (ok m (by simp)), ih (fun x hx => ok x (List.mem_cons_of_mem _ hx))]
    rfl

end Nfpm.Tar

/-! ### the extension member's name stays within what a header block can hold -/
namespace Nfpm.Tar
open Nfpm B Path

theorem mem_splitOn (sep : UInt8) (s c : Bytes) (x : UInt8) (hc : c ∈ splitOn sep s) (hx : x ∈ c) : x ∈ s := by
  induction s generalizing c with
  | nil => simp [splitOn] at hc; subst hc; simp at hx
  | cons a as ih =>
    unfold splitOn at hc
    by_cases ha : a = sep
    · simp only [ha, if_true, List.mem_cons] at hc
      rcases hc with rfl | hc
      · simp at hx
      · exact List.mem_cons_of_mem _ (ih c hc hx)
    · simp only [ha, if_false] at hc
      cases hsp : splitOn sep as with
      | nil => rw [hsp] at hc; simp at hc; subst hc; simp at hx; subst hx; simp
      | cons y ys =>
        rw [hsp] at hc
        simp only [List.mem_cons] at hc
        rcases hc with rfl | hc
        · simp only [List.mem_cons] at hx
          rcases hx with rfl | hx
          · simp
          · exact List.mem_cons_of_mem _ (ih y (by rw [hsp]; simp) hx)
        · exact List.mem_cons_of_mem _ (ih c (by rw [hsp]; exact List.mem_cons_of_mem _ hc) hx)

theorem mem_step (r : Bool) (st : List Bytes) (comp c : Bytes) (h : c ∈ step r st comp) :
    c ∈ st ∨ c = comp ∨ c = dotdotS := by
  unfold step at h
  split at h
  · exact Or.inl h
  · split at h
    · exact Or.inl h
    · split at h
      · cases st with
        | nil =>
          simp only at h
          split at h
          · simp at h
          · simp at h; exact Or.inr (Or.inr h)
        | cons t rest =>
          simp only at h
          split at h
          · simp only [List.mem_cons] at h
            rcases h with h | h | h
            · exact Or.inr (Or.inr h)
            · exact Or.inl (by simp [h])
            · exact Or.inl (List.mem_cons_of_mem _ h)
          · exact Or.inl (List.mem_cons_of_mem _ h)
      · simp only [List.mem_cons] at h
        rcases h with h | h
        · exact Or.inr (Or.inl h)
        · exact Or.inl h

theorem mem_foldl_step (r : Bool) (comps st : List Bytes) (c : Bytes) (h : c ∈ comps.foldl (step r) st) :
    c ∈ st ∨ c ∈ comps ∨ c = dotdotS := by
  induction comps generalizing st with
  | nil => exact Or.inl h
  | cons a as ih =>
    simp only [List.foldl_cons] at h
    rcases ih _ h with h | h | h
    · rcases mem_step r st a c h with h | h | h
      · exact Or.inl h
      · exact Or.inr (Or.inl (by simp [h]))
      · exact Or.inr (Or.inr h)
    · exact Or.inr (Or.inl (List.mem_cons_of_mem _ h))
    · exact Or.inr (Or.inr h)

theorem mem_joinWith (sep : UInt8) (R : List Bytes) (x : UInt8) (h : x ∈ joinWith sep R) : x = sep ∨ ∃ c ∈ R, x ∈ c := by
  induction R with
  | nil => simp [joinWith] at h
  | cons a rest ih =>
    cases rest with
    | nil => simp only [joinWith] at h; exact Or.inr ⟨a, by simp, h⟩
    | cons b bs =>
      simp only [joinWith, List.mem_append, List.mem_cons] at h
      rcases h with h | h | h
      · exact Or.inr ⟨a, by simp, h⟩
      · exact Or.inl h
      · rcases ih h with h | ⟨c, hc, hx⟩
        · exact Or.inl h
        · exact Or.inr ⟨c, List.mem_cons_of_mem _ hc, hx⟩

/-- Clean invents no byte: every byte of the result is a byte of the argument, a slash or a dot -/
theorem mem_clean (s : Bytes) (x : UInt8) (h : x ∈ clean s) : x ∈ s ∨ x = slash ∨ x = dot := by
  have key : ∀ y, y ∈ joinWith slash (resolve (isRooted s) (splitOn slash s)) → y ∈ s ∨ y = slash ∨ y = dot := by
    intro y hy
    rcases mem_joinWith _ _ _ hy with hy | ⟨c, hc, hyc⟩
    · exact Or.inr (Or.inl hy)
    · unfold resolve at hc
      rw [List.mem_reverse] at hc
      rcases mem_foldl_step _ _ _ _ hc with hc | hc | hc
      · simp at hc
      · exact Or.inl (mem_splitOn _ _ _ _ hc hyc)
      · subst hc
        have : y = dot := by simpa [dotdotS] using hyc
        exact Or.inr (Or.inr this)
  unfold clean at h
  split at h
  · have : x = dot := by simpa [dotS] using h
    exact Or.inr (Or.inr this)
  · simp only [] at h
    split at h
    · simp only [List.mem_cons] at h
      rcases h with h | h
      · exact Or.inr (Or.inl h)
      · exact key x h
    · split at h
      · have : x = dot := by simpa [dotS] using h
        exact Or.inr (Or.inr this)
      · exact key x h

theorem trimLeft_suffix (c : UInt8) (s : Bytes) : ∃ p, s = p ++ trimLeft c s := by
  induction s with
  | nil => exact ⟨[], rfl⟩
  | cons a as ih =>
    unfold trimLeft
    by_cases h : a = c
    · simp only [h, if_true]
      obtain ⟨p, hp⟩ := ih
      exact ⟨c :: p, by rw [List.cons_append, ← hp]⟩
    · simp only [h, if_false]; exact ⟨[], rfl⟩

theorem trimRight_prefix (c : UInt8) (s : Bytes) : ∃ q, s = trimRight c s ++ q := by
  obtain ⟨p, hp⟩ := trimLeft_suffix c s.reverse
  refine ⟨p.reverse, ?_⟩
  have := congrArg List.reverse hp
  simpa [trimRight] using this

theorem mem_uptoLastSlash (s : Bytes) (x : UInt8) (h : x ∈ uptoLastSlash s) : x ∈ s := by
  unfold uptoLastSlash at h
  rw [List.mem_reverse] at h
  have := (List.dropWhile_sublist _).subset h
  simpa using this

/-- the name of the extension member fits the name field and contains no NUL when the member's name has none -/
theorem xName_ok (name : Bytes) (h0 : (0 : UInt8) ∉ name) : (xName name).length ≤ 100 ∧ (0 : UInt8) ∉ xName name := by
  unfold xName
  simp only []
  generalize hj : clean (joinWith slash (List.filter (fun x => decide (x ≠ [])) [uptoLastSlash name, b!"PaxHeaders.0",
    List.drop (uptoLastSlash name).length name])) = j
  obtain ⟨q, hq⟩ := trimRight_prefix slash ((asciiOnly j).take 100)
  constructor
  · have := congrArg List.length hq
    simp only [List.length_append, List.length_take] at this
    omega
  · intro hin
    have h1 : (0 : UInt8) ∈ (asciiOnly j).take 100 := by rw [hq]; exact List.mem_append_left _ hin
    have h2 : (0 : UInt8) ∈ j := (List.mem_filter.mp (List.mem_of_mem_take h1)).1
    rw [← hj] at h2
    rcases mem_clean _ _ h2 with h3 | h3 | h3
    · rcases mem_joinWith _ _ _ h3 with h4 | ⟨c, hc, hx⟩
      · exact absurd h4 (by decide)
      · have hc' := (List.mem_filter.mp hc).1
        simp only [List.mem_cons, List.mem_nil_iff, or_false] at hc'
        rcases hc' with rfl | rfl | rfl
        · exact h0 (mem_uptoLastSlash _ _ hx)
        · revert hx; decide
        · exact h0 (List.mem_of_mem_drop hx)
    · exact absurd h3 (by decide)
    · exact absurd h3 (by decide)

/-- the extension member is expressible whenever its record block fits the size field -/
theorem xMember_ok (name body : Bytes) (h0 : (0 : UInt8) ∉ name) (hs : body.length < 8 ^ 11) :
    MemberOK { hdr := xHdr name body.length, body := body } := by
  obtain ⟨hl, hn⟩ := xName_ok name h0
  exact { hdr := { nameLen := hl, nameNul := hn, linkLen := by simp [xHdr], linkNul := by simp [xHdr],
                   unameLen := by simp [xHdr], unameNul := by simp [xHdr], gnameLen := by simp [xHdr], gnameNul := by simp [xHdr],
                   prefixLen := by simp [xHdr], prefixNul := by simp [xHdr],
                   mode := by show 0 < numBound .ustar 8; decide, uid := by show 0 < numBound .ustar 8; decide, gid := by show 0 < numBound .ustar 8; decide,
                   size := by simpa [xHdr, numBound] using hs, mtime := by show 0 < numBound .ustar 12; decide },
          size := rfl }

end Nfpm.Tar
