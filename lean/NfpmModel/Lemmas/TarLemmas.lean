import NfpmModel.Tar
import NfpmModel.Lemmas.ArLemmas
import NfpmModel.Lemmas.VersionLemmas
/-
  Helper lemmas for the tar round trip: fixed-width octal, NUL-filled strings, block layout, checksum.
-/
set_option linter.unusedSimpArgs false
set_option linter.unusedVariables false
namespace Nfpm.Tar
open Nfpm B

@[simp] theorem zeros_length (n : Nat) : (zeros n).length = n := by simp [zeros]

/-! ### octal -/

theorem octFixed_length (k n : Nat) : (octFixed k n).length = k := by
  induction k generalizing n with
  | zero => rfl
  | succ k ih => simp [octFixed, ih]

theorem odigit_toNat (n : Nat) (h : n < 8) : ((48 + n).toUInt8).toNat - 48 = n := by
  have : (48 + n).toUInt8.toNat = 48 + n := by
    simp only [Nat.toUInt8, UInt8.toNat_ofNat']
    omega
  omega

theorem odigit_props (n : Nat) (h : n < 8) :
    isOctDigit (48 + n).toUInt8 = true ∧ (48 + n).toUInt8 ≠ 0 ∧ (48 + n).toUInt8 ≠ 32 := by
  have h1 : (48 + n).toUInt8.toNat = 48 + n := by
    simp only [Nat.toUInt8, UInt8.toNat_ofNat']
    omega
  refine ⟨?_, ?_, ?_⟩
  · simp only [isOctDigit, Bool.and_eq_true, decide_eq_true_eq, UInt8.le_iff_toNat_le, h1]
    constructor <;> simp <;> omega
  · intro e; have := congrArg UInt8.toNat e; rw [h1] at this; simp at this
  · intro e; have := congrArg UInt8.toNat e; rw [h1] at this; simp at this; omega

theorem octFixed_digits (k n : Nat) : ∀ c ∈ octFixed k n, isOctDigit c = true ∧ c ≠ 0 ∧ c ≠ 32 := by
  induction k generalizing n with
  | zero => simp [octFixed]
  | succ k ih =>
    intro c hc
    simp only [octFixed, List.mem_append, List.mem_cons, List.mem_nil_iff, or_false] at hc
    rcases hc with hc | rfl
    · exact ih _ c hc
    · exact odigit_props _ (Nat.mod_lt _ (by decide))

theorem octVal_snoc (l : Bytes) (c : UInt8) : octVal (l ++ [c]) = octVal l * 8 + (c.toNat - 48) := by
  simp [octVal, List.foldl_append]

/-- fixed-width octal reads back the number modulo 8^k -/
theorem octVal_octFixed (k n : Nat) : octVal (octFixed k n) = n % 8 ^ k := by
  induction k generalizing n with
  | zero => simp [octFixed, octVal, Nat.mod_one]
  | succ k ih =>
    simp only [octFixed]
    rw [octVal_snoc, ih, odigit_toNat _ (Nat.mod_lt _ (by decide)), Nat.pow_succ, Nat.mul_comm (8 ^ k) 8, Nat.mod_mul]
    omega

theorem takeWhile_digits_stop (d : Bytes) (c : UInt8) (rest : Bytes) (hd : ∀ x ∈ d, x ≠ 0 ∧ x ≠ 32) (hc : c = 0 ∨ c = 32) :
    (d ++ c :: rest).takeWhile (fun c => c != 0 && c != 32) = d := by
  apply takeWhile_append_stop
  · intro x hx; have := hd x hx; simp [this.1, this.2]
  · rcases hc with rfl | rfl <;> simp

/-- **numeric field round trip** -/
theorem readOct_octFixed (k n : Nat) (hk : 0 < k) (hn : n < 8 ^ k) (c : UInt8) (rest : Bytes) (hc : c = 0 ∨ c = 32) :
    readOct (octFixed k n ++ c :: rest) = some n := by
  unfold readOct
  have hd := octFixed_digits k n
  rw [takeWhile_digits_stop _ c rest (fun x hx => ⟨(hd x hx).2.1, (hd x hx).2.2⟩) hc]
  have hne : octFixed k n ≠ [] := by
    intro e; have := congrArg List.length e; rw [octFixed_length] at this; simp at this; omega
  have hall : (octFixed k n).all isOctDigit = true := List.all_eq_true.mpr (fun x hx => (hd x hx).1)
  simp [hne, hall, octVal_octFixed, Nat.mod_eq_of_lt hn]

theorem octField_length (w n : Nat) (hw : 0 < w) : (octField w n).length = w := by
  simp [octField, octFixed_length]; omega

theorem readOct_octField (w n : Nat) (hw : 1 < w) (hn : n < 8 ^ (w - 1)) : readOct (octField w n) = some n := by
  unfold octField
  exact readOct_octFixed (w - 1) n (by omega) hn 0 [] (Or.inl rfl)

/-! ### binary (base-256) numbers of GNU headers -/

theorem beFixed_length (k n : Nat) : (beFixed k n).length = k := by
  induction k generalizing n with
  | zero => rfl
  | succ k ih => simp [beFixed, ih]

theorem beVal_snoc (l : Bytes) (c : UInt8) : beVal (l ++ [c]) = beVal l * 256 + c.toNat := by
  simp [beVal, List.foldl_append]

theorem beVal_beFixed (k n : Nat) : beVal (beFixed k n) = n % 256 ^ k := by
  induction k generalizing n with
  | zero => simp [beFixed, beVal, Nat.mod_one]
  | succ k ih =>
    simp only [beFixed]
    have hb : (n % 256).toUInt8.toNat = n % 256 := by
      simp only [Nat.toUInt8, UInt8.toNat_ofNat']
      omega
    rw [beVal_snoc, ih, hb, Nat.pow_succ, Nat.mul_comm (256 ^ k) 256, Nat.mod_mul]
    omega

theorem beVal_zero_cons (l : Bytes) : beVal (0 :: l) = beVal l := by
  simp [beVal]

theorem binField_length (w n : Nat) (hw : 0 < w) : (binField w n).length = w := by
  simp [binField, beFixed_length]; omega

theorem numField_length (fl : Flavor) (w n : Nat) (hw : 0 < w) : (numField fl w n).length = w := by
  unfold numField; split
  · exact binField_length w n hw
  · exact octField_length w n hw

theorem odigit_and (d : Nat) (h : d < 8) : (48 + d).toUInt8 &&& 128 = 0 := by
  have : d = 0 ∨ d = 1 ∨ d = 2 ∨ d = 3 ∨ d = 4 ∨ d = 5 ∨ d = 6 ∨ d = 7 := by omega
  rcases this with rfl | rfl | rfl | rfl | rfl | rfl | rfl | rfl <;> decide

theorem octFixed_head (k n : Nat) : ∃ d, d < 8 ∧ ∃ rest, octFixed (k + 1) n = (48 + d).toUInt8 :: rest := by
  induction k generalizing n with
  | zero => exact ⟨n % 8, Nat.mod_lt _ (by decide), [], by simp [octFixed]⟩
  | succ k ih =>
    obtain ⟨d, hd, rest, hr⟩ := ih (n / 8)
    refine ⟨d, hd, rest ++ [(48 + n % 8).toUInt8], ?_⟩
    rw [octFixed, hr]; rfl

/-- what a numeric field can hold: seven (eleven) octal digits, or in a GNU header seven (eleven) bytes -/
def numBound (fl : Flavor) (w : Nat) : Nat := if fl = .gnu then 256 ^ (w - 1) else 8 ^ (w - 1)

/-- **numeric field round trip**, octal and binary -/
theorem readNum_numField (fl : Flavor) (w n : Nat) (hw : 1 < w) (hn : n < numBound fl w) :
    readNum (numField fl w n) = some n := by
  unfold numField
  by_cases hc : fl = .gnu ∧ 8 ^ (w - 1) ≤ n
  · rw [if_pos hc]
    have hb : n < 256 ^ (w - 1) := by simpa [numBound, hc.1] using hn
    have h0 : n / 256 ^ (w - 1) = 0 := Nat.div_eq_of_lt hb
    unfold binField
    rw [h0]
    show readNum (((0 % 256 : Nat).toUInt8 ||| 128) :: beFixed (w - 1) n) = some n
    have h128 : ((0 % 256 : Nat).toUInt8 ||| 128) = 128 := by decide
    rw [h128]
    unfold readNum
    simp only []
    rw [if_pos (by decide), if_neg (by decide)]
    have : (128 : UInt8) &&& 127 = 0 := by decide
    rw [this, beVal_zero_cons, beVal_beFixed, Nat.mod_eq_of_lt hb]
  · rw [if_neg hc]
    have ho : n < 8 ^ (w - 1) := by
      unfold numBound at hn
      by_cases hg : fl = .gnu
      · have : ¬ 8 ^ (w - 1) ≤ n := fun h => hc ⟨hg, h⟩
        omega
      · simpa [hg] using hn
    have hro := readOct_octField w n hw ho
    obtain ⟨d, hd, rest, hr⟩ := octFixed_head (w - 2) n
    have hw2 : w - 2 + 1 = w - 1 := by omega
    rw [hw2] at hr
    have hf : octField w n = (48 + d).toUInt8 :: (rest ++ [0]) := by unfold octField; rw [hr]; rfl
    rw [hf] at hro ⊢
    unfold readNum
    simp only []
    rw [if_neg (by rw [odigit_and d hd]; simp)]
    exact hro

/-! ### strings -/

theorem strField_length (w : Nat) (s : Bytes) : (strField w s).length = w := by
  unfold strField
  simp only [List.length_take, List.length_append, zeros_length]
  omega

theorem readStr_strField (w : Nat) (s : Bytes) (hl : s.length ≤ w) (h0 : (0 : UInt8) ∉ s) : readStr (strField w s) = s := by
  unfold readStr strField
  have hall : ∀ x ∈ s, (x != 0) = true := by
    intro x hx; simp only [bne_iff_ne, ne_eq]; intro e; subst e; exact h0 hx
  have htake : (s ++ zeros (w - s.length)).take w = s ++ zeros (w - s.length) := by
    apply List.take_of_length_le
    simp only [List.length_append, zeros_length]; omega
  rw [htake]
  by_cases hz : w - s.length = 0
  · rw [hz]; simp only [zeros, List.replicate_zero, List.append_nil]
    exact takeWhile_all _ s hall
  · obtain ⟨k, hk⟩ : ∃ k, w - s.length = k + 1 := ⟨w - s.length - 1, by omega⟩
    rw [hk]
    simp only [zeros, List.replicate_succ]
    exact takeWhile_append_stop _ s 0 _ hall (by simp)

/-! ### checksum bound -/

theorem byteSum_le (b : Bytes) : byteSum b ≤ 255 * b.length := by
  induction b with
  | nil => simp [byteSum]
  | cons c cs ih =>
    simp only [byteSum, List.map_cons, List.sum_cons, List.length_cons] at ih ⊢
    have := c.toNat_lt
    omega

theorem byteSum_append (a b : Bytes) : byteSum (a ++ b) = byteSum a + byteSum b := by
  simp [byteSum]

end Nfpm.Tar

namespace Nfpm.Tar
open Nfpm B

/-! ### block layout -/

theorem slice_flatten (pre : List Bytes) (f : Bytes) (post : List Bytes) (off len : Nat)
    (ho : pre.flatten.length = off) (hl : f.length = len) :
    slice ((pre ++ f :: post).flatten) off len = f := by
  unfold slice
  rw [List.flatten_append, List.flatten_cons, List.drop_left' ho, List.take_left' hl]

theorem chkField_length (h : Hdr) : (chkField h).length = 8 := by
  simp [chkField, octFixed_length]

/-- the sixteen fields sit where the format says -/
theorem header_layout (h : Hdr) (chk : Bytes) (hc : chk.length = 8) :
    let b := (fields h chk).flatten
    b.length = 512
    ∧ slice b 0 100 = strField 100 h.name ∧ slice b 100 8 = numField h.flavor 8 h.mode ∧ slice b 108 8 = numField h.flavor 8 h.uid
    ∧ slice b 116 8 = numField h.flavor 8 h.gid ∧ slice b 124 12 = numField h.flavor 12 h.size ∧ slice b 136 12 = numField h.flavor 12 h.mtime
    ∧ slice b 148 8 = chk ∧ slice b 156 1 = [h.typeflag] ∧ slice b 157 100 = strField 100 h.linkname
    ∧ slice b 257 6 = h.flavor.magic ∧ slice b 265 32 = strField 32 h.uname ∧ slice b 297 32 = strField 32 h.gname
    ∧ slice b 329 8 = devField h ∧ slice b 345 155 = strField 155 h.pfx := by
  intro b
  have D : (devField h).length = 8 := by unfold devField; cases h.dev <;> simp [octField_length]
  have L : ∀ w s, (strField w s).length = w := strField_length
  have O8 : ∀ n, (numField h.flavor 8 n).length = 8 := fun n => numField_length _ 8 n (by decide)
  have O12 : ∀ n, (numField h.flavor 12 n).length = 12 := fun n => numField_length _ 12 n (by decide)
  have M : h.flavor.magic.length = 6 := by cases h.flavor <;> rfl
  have V : h.flavor.version.length = 2 := by cases h.flavor <;> rfl
  refine ⟨?_, ?_, ?_, ?_, ?_, ?_, ?_, ?_, ?_, ?_, ?_, ?_, ?_, ?_, ?_⟩
  · simp [b, fields, L, O8, O12, hc, M, V, D]
  · exact slice_flatten [] _ _ 0 100 rfl (L _ _)
  · exact slice_flatten [_] _ _ 100 8 (by simp [L]) (O8 _)
  · exact slice_flatten [_, _] _ _ 108 8 (by simp [L, O8]) (O8 _)
  · exact slice_flatten [_, _, _] _ _ 116 8 (by simp [L, O8]) (O8 _)
  · exact slice_flatten [_, _, _, _] _ _ 124 12 (by simp [L, O8]) (O12 _)
  · exact slice_flatten [_, _, _, _, _] _ _ 136 12 (by simp [L, O8, O12]) (O12 _)
  · exact slice_flatten [_, _, _, _, _, _] _ _ 148 8 (by simp [L, O8, O12]) hc
  · exact slice_flatten [_, _, _, _, _, _, _] _ _ 156 1 (by simp [L, O8, O12, hc]) rfl
  · exact slice_flatten [_, _, _, _, _, _, _, _] _ _ 157 100 (by simp [L, O8, O12, hc]) (L _ _)
  · exact slice_flatten [_, _, _, _, _, _, _, _, _] _ _ 257 6 (by simp [L, O8, O12, hc]) M
  · exact slice_flatten [_, _, _, _, _, _, _, _, _, _, _] _ _ 265 32 (by simp [L, O8, O12, hc, M, V]) (L _ _)
  · exact slice_flatten [_, _, _, _, _, _, _, _, _, _, _, _] _ _ 297 32 (by simp [L, O8, O12, hc, M, V]) (L _ _)
  · exact slice_flatten [_, _, _, _, _, _, _, _, _, _, _, _, _] _ _ 329 8 (by simp [L, O8, O12, hc, M, V]) D
  · exact slice_flatten [_, _, _, _, _, _, _, _, _, _, _, _, _, _, _] _ _ 345 155 (by simp [L, O8, O12, hc, M, V, D]) (L _ _)

/-- replacing the checksum field by blanks gives the block the checksum was computed over -/
theorem blank_block (h : Hdr) (chk : Bytes) (hc : chk.length = 8) :
    let b := (fields h chk).flatten
    b.take 148 ++ List.replicate 8 32 ++ b.drop 156 = (fields h (List.replicate 8 32)).flatten := by
  intro b
  have L : ∀ w s, (strField w s).length = w := strField_length
  have O8 : ∀ n, (numField h.flavor 8 n).length = 8 := fun n => numField_length _ 8 n (by decide)
  have O12 : ∀ n, (numField h.flavor 12 n).length = 12 := fun n => numField_length _ 12 n (by decide)
  have hsplit : ∀ c : Bytes, (fields h c).flatten
      = (strField 100 h.name ++ numField h.flavor 8 h.mode ++ numField h.flavor 8 h.uid ++ numField h.flavor 8 h.gid ++ numField h.flavor 12 h.size ++ numField h.flavor 12 h.mtime)
        ++ (c ++ ([h.typeflag] ++ strField 100 h.linkname ++ h.flavor.magic ++ h.flavor.version ++ strField 32 h.uname ++ strField 32 h.gname
            ++ devField h ++ devField h ++ strField 155 h.pfx ++ zeros 12)) := by
    intro c; simp [fields, List.append_assoc]
  have hA : (strField 100 h.name ++ numField h.flavor 8 h.mode ++ numField h.flavor 8 h.uid ++ numField h.flavor 8 h.gid ++ numField h.flavor 12 h.size
      ++ numField h.flavor 12 h.mtime).length = 148 := by simp [L, O8, O12]
  show (fields h chk).flatten.take 148 ++ List.replicate 8 32 ++ (fields h chk).flatten.drop 156 = _
  rw [hsplit chk, hsplit (List.replicate 8 32), List.take_left' hA]
  rw [show (156 : Nat) = 148 + 8 from rfl, ← List.drop_drop, List.drop_left' hA, List.drop_left' hc]
  simp [List.append_assoc]

end Nfpm.Tar

namespace Nfpm.Tar
open Nfpm B

/-- what a header block without extension records can express -/
structure HdrOK (h : Hdr) : Prop where
  nameLen : h.name.length ≤ 100
  nameNul : (0 : UInt8) ∉ h.name
  linkLen : h.linkname.length ≤ 100
  linkNul : (0 : UInt8) ∉ h.linkname
  unameLen : h.uname.length ≤ 32
  unameNul : (0 : UInt8) ∉ h.uname
  gnameLen : h.gname.length ≤ 32
  gnameNul : (0 : UInt8) ∉ h.gname
  prefixLen : h.pfx.length ≤ 155
  prefixNul : (0 : UInt8) ∉ h.pfx
  mode : h.mode < numBound h.flavor 8
  uid : h.uid < numBound h.flavor 8
  gid : h.gid < numBound h.flavor 8
  size : h.size < numBound h.flavor 12
  mtime : h.mtime < numBound h.flavor 12

theorem headerBlock_length (h : Hdr) : (headerBlock h).length = 512 :=
  (header_layout h (chkField h) (chkField_length h)).1

theorem checksumOf_lt (h : Hdr) : checksumOf h < 8 ^ 6 := by
  unfold checksumOf
  have hl : ((fields h (List.replicate 8 32)).flatten).length = 512 := (header_layout h _ (by simp)).1
  have := byteSum_le (fields h (List.replicate 8 32)).flatten
  rw [hl] at this
  have : (255 * 512 : Nat) < 8 ^ 6 := by decide
  omega

/-- **header round trip**: the reader recovers every field and accepts the checksum -/
theorem readHeader_headerBlock (h : Hdr) (ok : HdrOK h) : readHeader (headerBlock h) = some h := by
  obtain ⟨hlen, h0, h1, h2, h3, h4, h5, h6, h7, h8, h9, h10, h11, h12, h13⟩ := header_layout h (chkField h) (chkField_length h)
  have hblank := blank_block h (chkField h) (chkField_length h)
  unfold readHeader
  simp only [] at hlen h0 h1 h2 h3 h4 h5 h6 h7 h8 h9 h10 h11 h12 h13 hblank
  change (headerBlock h).length = 512 at hlen
  rw [if_neg (by rw [hlen]; simp)]
  unfold headerBlock
  rw [if_neg (by rw [h9]; cases h.flavor <;> decide)]
  simp only [h0, h1, h2, h3, h4, h5, h6, h7, h8, h9, h10, h11, h12, h13, hblank]
  have hchk : readOct (chkField h) = some (checksumOf h) := by
    unfold chkField
    exact readOct_octFixed 6 _ (by decide) (checksumOf_lt h) 0 [32] (Or.inl rfl)
  rw [hchk, readNum_numField _ 8 _ (by decide) ok.mode, readNum_numField _ 8 _ (by decide) ok.uid,
    readNum_numField _ 8 _ (by decide) ok.gid, readNum_numField _ 12 _ (by decide) ok.size,
    readNum_numField _ 12 _ (by decide) ok.mtime]
  simp only [checksumOf, ne_eq, not_true_eq_false, if_false]
  rw [readStr_strField 100 _ ok.nameLen ok.nameNul, readStr_strField 100 _ ok.linkLen ok.linkNul,
    readStr_strField 32 _ ok.unameLen ok.unameNul, readStr_strField 32 _ ok.gnameLen ok.gnameNul,
    readStr_strField 155 _ ok.prefixLen ok.prefixNul]
  have hf : (if h.flavor.magic = Flavor.gnu.magic then Flavor.gnu else Flavor.ustar) = h.flavor := by
    cases h.flavor <;> decide
  have hd : (devField h != zeros 8) = h.dev := by
    unfold devField; cases h.dev <;> decide
  rw [hf, hd]
  rfl

end Nfpm.Tar

namespace Nfpm.Tar
open Nfpm B

theorem isZeroBlock_zeros (n : Nat) : isZeroBlock (zeros n) = true := by
  simp [isZeroBlock, zeros]

theorem header_not_zero (h : Hdr) (tail : Bytes) : isZeroBlock ((headerBlock h ++ tail).take 1024) = false := by
  obtain ⟨hlen, _, _, _, _, _, _, _, _, _, h9, _, _, _, _⟩ := header_layout h (chkField h) (chkField_length h)
  change (headerBlock h).length = 512 at hlen
  change slice (headerBlock h) 257 6 = h.flavor.magic at h9
  rw [Bool.eq_false_iff]
  intro hz
  have hall : ∀ x ∈ (headerBlock h ++ tail).take 1024, x = 0 := by
    intro x hx
    have := List.all_eq_true.mp hz x hx
    simpa using this
  have hu : (117 : UInt8) ∈ headerBlock h := by
    have : (117 : UInt8) ∈ slice (headerBlock h) 257 6 := by rw [h9]; cases h.flavor <;> decide
    unfold slice at this
    exact List.mem_of_mem_drop (List.mem_of_mem_take this)
  have hin : (117 : UInt8) ∈ (headerBlock h ++ tail).take 1024 := by
    rw [List.take_append, hlen]
    apply List.mem_append_left
    rw [List.take_of_length_le (by rw [hlen]; decide)]
    exact hu
  have := hall 117 hin
  exact absurd this (by decide)

/-- what the format can express for a member: an expressible header whose size field is the body length -/
structure MemberOK (m : Member) : Prop where
  hdr : HdrOK m.hdr
  size : m.hdr.size = m.body.length

theorem member_length (m : Member) : (member m).length = 512 + m.body.length + blockPad m.body.length := by
  simp [member, headerBlock_length]; omega

theorem readMembers_member (fuel : Nat) (m : Member) (ok : MemberOK m) (rest : Bytes) (hr : 1024 ≤ rest.length) :
    readMembers (fuel + 1) (member m ++ rest) = (readMembers fuel rest).map (m :: ·) := by
  have hlen := headerBlock_length m.hdr
  have hs : member m ++ rest = headerBlock m.hdr ++ (m.body ++ (zeros (blockPad m.body.length) ++ rest)) := by
    simp [member, List.append_assoc]
  generalize hrr : readMembers fuel rest = r
  conv => lhs; unfold readMembers
  have hge : ¬ (member m ++ rest).length < 1024 := by
    rw [hs]; simp only [List.length_append, hlen]; omega
  have hnz : isZeroBlock ((member m ++ rest).take 1024) = false := by rw [hs]; exact header_not_zero _ _
  have htake : (member m ++ rest).take 512 = headerBlock m.hdr := by rw [hs]; exact List.take_left' hlen
  have hdrop : (member m ++ rest).drop 512 = m.body ++ (zeros (blockPad m.body.length) ++ rest) := by
    rw [hs]; exact List.drop_left' hlen
  simp only [hge, if_false, hnz, Bool.false_eq_true, htake, readHeader_headerBlock m.hdr ok.hdr, hdrop, ok.size]
  have hlt : ¬ (m.body ++ (zeros (blockPad m.body.length) ++ rest)).length < m.body.length + blockPad m.body.length := by
    simp only [List.length_append, zeros_length]; omega
  simp only [hlt, if_false, List.take_left]
  have hd : (m.body ++ (zeros (blockPad m.body.length) ++ rest)).drop (m.body.length + blockPad m.body.length) = rest := by
    rw [← List.append_assoc]
    exact List.drop_left' (by simp)
  rw [hd, hrr]
  have hm : ({ hdr := m.hdr, body := m.body } : Member) = m := rfl
  cases r <;> simp [hm]

theorem readMembers_end (fuel : Nat) : readMembers (fuel + 1) (zeros 1024) = some [] := by
  unfold readMembers
  have h1 : ¬ (zeros 1024).length < 1024 := by simp
  have h2 : (zeros 1024).take 1024 = zeros 1024 := List.take_of_length_le (by simp)
  simp [h1, h2, isZeroBlock_zeros]

theorem readMembers_all (ms : List Member) (hm : ∀ m ∈ ms, MemberOK m) (fuel : Nat) (hf : ms.length < fuel) :
    readMembers fuel (ms.flatMap member ++ zeros 1024) = some ms := by
  induction ms generalizing fuel with
  | nil =>
    cases fuel with
    | zero => omega
    | succ f => simpa using readMembers_end f
  | cons m rest ih =>
    cases fuel with
    | zero => omega
    | succ f =>
      simp only [List.flatMap_cons, List.append_assoc]
      rw [readMembers_member f m (hm m (by simp)) _ (by simp only [List.length_append, zeros_length]; omega),
        ih (fun x hx => hm x (List.mem_cons_of_mem _ hx)) f (by simp only [List.length_cons] at hf; omega)]
      rfl

theorem flatMap_member_length_ge (ms : List Member) : 512 * ms.length ≤ (ms.flatMap member).length := by
  induction ms with
  | nil => simp
  | cons m rest ih =>
    simp only [List.flatMap_cons, List.length_append, List.length_cons, member_length]
    omega

/-- **tar round trip**: an independent reader recovers exactly the members that were written – header fields,
    bodies, order – from the stream, checksums verified, end-of-archive marker found -/
theorem read_archive (ms : List Member) (hm : ∀ m ∈ ms, MemberOK m) : read (archive ms) = some ms := by
  unfold read archive
  apply readMembers_all ms hm
  have := flatMap_member_length_ge ms
  simp only [List.length_append, zeros_length]
  omega

end Nfpm.Tar
