import NfpmModel.Archive
import NfpmModel.Lemmas.PlanFinal
/-
  Helper lemmas for C04: bufio conservation, the two shapes of apk.writeTgz,
  relative names of lexically clean destinations.
-/
set_option linter.unusedSimpArgs false
namespace Nfpm.Arc
open Nfpm B Path

@[simp] theorem zeros_length (n : Nat) : (zeros n).length = n := by simp [zeros]

theorem zeros_add (a b : Nat) : zeros a ++ zeros b = zeros (a + b) := by
  simp [zeros]

/-- bufio never loses, duplicates or reorders bytes -/
theorem BufW.write_total (cap : Nat) (w : BufW) (p : Bytes) :
    (w.write cap p).out ++ (w.write cap p).buf = w.out ++ w.buf ++ p := by
  unfold BufW.write
  split
  · simp
  · split
    · rename_i h; simp [h]
    · simp only []
      split
      · simp [List.append_assoc, List.take_append_drop]
      · simp [List.append_assoc, List.take_append_drop]

theorem BufW.foldl_write_total (cap : Nat) (ws : List Bytes) (w : BufW) :
    (ws.foldl (BufW.write cap) w).out ++ (ws.foldl (BufW.write cap) w).buf = w.out ++ w.buf ++ ws.flatten := by
  induction ws generalizing w with
  | nil => simp
  | cons p rest ih =>
    simp only [List.foldl_cons, List.flatten_cons]
    rw [ih, BufW.write_total]
    simp [List.append_assoc]

/-- a write that fits stays in the buffer -/
theorem BufW.write_fits (cap : Nat) (o b p : Bytes) (h : p.length ≤ cap - b.length) :
    BufW.write cap { out := o, buf := b } p = { out := o, buf := b ++ p } := by
  simp [BufW.write, h]

theorem flush_after (cap : Nat) (ws : List Bytes) :
    (ws.foldl (BufW.write cap) {}).flush = { out := ws.flatten, buf := [] } := by
  have := BufW.foldl_write_total cap ws {}
  simp only [List.nil_append] at this
  simp [BufW.flush, this]

theorem align_inc (size pad : Nat) (hp : pad < 512) (h : (size + pad) % 512 = 0) :
    (size + (512 - 1)) / 512 * 512 - size = pad := by omega

theorem align_zero (size : Nat) (h : size % 512 = 0) : (size + (512 - 1)) / 512 * 512 - size = 0 := by omega

/-- tar.Writer.Close after a flushed buffer: padding and end marker stay in the 4096-byte buffer
    (pad + 1024 ≤ 4096 is a fact, not a guard) -/
theorem closeTar_buffers (B : Bytes) (pad : Nat) (hp : pad < 512) :
    tgzStep 4096 k { bw := { out := B, buf := [] }, pad := pad } .closeTar
      = { bw := { out := B, buf := zeros pad ++ zeros 512 ++ zeros 512 }, pad := 0 } := by
  simp only [tgzStep]
  rw [BufW.write_fits 4096 B [] (zeros pad) (by simp; omega)]
  rw [BufW.write_fits 4096 B ([] ++ zeros pad) (zeros 512) (by simp; omega)]
  rw [BufW.write_fits 4096 B ([] ++ zeros pad ++ zeros 512) (zeros 512) (by simp; omega)]
  simp

/-- **cut segment**: exactly the builder's bytes plus the owed padding – the 1024-byte
    end-of-archive marker is never emitted -/
theorem tgz_cut (ws : List Bytes) (pad : Nat) (hp : pad < 512) (h : (ws.flatten.length + pad) % 512 = 0) :
    tgzStream reviewedBufCap reviewedTgzOps .cut ws pad = ws.flatten ++ zeros pad := by
  unfold tgzStream reviewedTgzOps reviewedBufCap
  simp only [List.foldl_cons, List.foldl_nil]
  have h1 : tgzStep 4096 TarKind.cut { bw := ws.foldl (BufW.write 4096) {}, pad := pad } .flushBuf
      = { bw := { out := ws.flatten, buf := [] }, pad := pad } := by
    simp only [tgzStep, flush_after]
  rw [h1, closeTar_buffers _ _ hp]
  simp only [tgzStep, reduceCtorEq, if_false]
  rw [align_inc _ _ hp h]

/-- **full segment**: the complete tar stream, end marker included, nothing after it -/
theorem tgz_full (ws : List Bytes) (pad : Nat) (hp : pad < 512) (h : (ws.flatten.length + pad) % 512 = 0) :
    tgzStream reviewedBufCap reviewedTgzOps .full ws pad = ws.flatten ++ zeros pad ++ zeros 1024 := by
  unfold tgzStream reviewedTgzOps reviewedBufCap
  simp only [List.foldl_cons, List.foldl_nil]
  have h1 : tgzStep 4096 TarKind.full { bw := ws.foldl (BufW.write 4096) {}, pad := pad } .flushBuf
      = { bw := { out := ws.flatten, buf := [] }, pad := pad } := by
    simp only [tgzStep, flush_after]
  rw [h1, closeTar_buffers _ _ hp]
  simp only [tgzStep, if_true, BufW.flush]
  have hl : (ws.flatten ++ (zeros pad ++ zeros 512 ++ zeros 512)).length % 512 = 0 := by
    simp only [List.length_append, zeros_length]; omega
  rw [align_zero _ hl]
  simp only [List.append_assoc, zeros, List.append_nil, List.replicate_zero, List.replicate_append_replicate]

end Nfpm.Arc

/-! ### the tar writer keeps whole blocks -/
namespace Nfpm.Arc

theorem blockPad_lt (n : Nat) : blockPad n < 512 := by unfold blockPad; omega

theorem blockPad_spec (n : Nat) : (n + blockPad n) % 512 = 0 := by unfold blockPad; omega

/-- invariant of the tar writer: everything written plus the owed padding is a whole number of blocks -/
def TarInv (t : TarW) : Prop := t.pad < 512 ∧ (t.writes.flatten.length + t.pad) % 512 = 0

theorem tarInv_member (t : TarW) (m : Bytes × Bytes) (h : TarInv t) (hh : m.1.length % 512 = 0) : TarInv (t.member m) := by
  obtain ⟨_, h2⟩ := h
  refine ⟨blockPad_lt _, ?_⟩
  simp only [TarW.member, List.flatten_append, List.flatten_cons, List.flatten_nil, List.length_append, zeros_length,
    List.append_nil]
  have := blockPad_spec m.2.length
  omega

theorem tarInv_build (ms : List (Bytes × Bytes)) (hh : ∀ m ∈ ms, m.1.length % 512 = 0) (t : TarW) (h : TarInv t) :
    TarInv (ms.foldl TarW.member t) := by
  induction ms generalizing t with
  | nil => exact h
  | cons m rest ih =>
    simp only [List.foldl_cons]
    exact ih (fun x hx => hh x (List.mem_cons_of_mem _ hx)) _ (tarInv_member t m h (hh m (by simp)))

/-- what the writes of a builder amount to: every member but the last is already padded -/
theorem tarBuild_bytes (ms : List (Bytes × Bytes)) (t : TarW) :
    (ms.foldl TarW.member t).writes.flatten ++ zeros (ms.foldl TarW.member t).pad
      = t.writes.flatten ++ zeros t.pad ++ ms.flatMap (fun m => m.1 ++ m.2 ++ zeros (blockPad m.2.length)) := by
  induction ms generalizing t with
  | nil => simp
  | cons m rest ih =>
    simp only [List.foldl_cons, List.flatMap_cons]
    rw [ih]
    simp [TarW.member, List.append_assoc]

end Nfpm.Arc

/-! ### relative member names of normalised destinations -/
namespace Nfpm
open B Path Spec

theorem clean_rooted_cons (t : Bytes) : clean (slash :: t) = slash :: joinWith slash (rcomps (slash :: t)) := by
  simp [clean, isRooted, rcomps]

theorem rcomps_snoc_slash_ (t : Bytes) : rcomps (t ++ [slash]) = rcomps t := by
  unfold rcomps
  rw [splitOn_snoc_sep]
  exact resolve_append_nils true _ 1

theorem hasSuffix_single_ (s : Bytes) (c : UInt8) : hasSuffix s [c] = (s.getLast? == some c) := by
  unfold hasSuffix
  cases h : s.reverse with
  | nil =>
    have : s = [] := by simpa using h
    subst this; simp [hasPrefix]
  | cons x xs =>
    have : s = xs.reverse ++ [x] := by
      have := congrArg List.reverse h
      simpa using this
    subst this
    simp [hasPrefix]

theorem joinWith_head_ne_slash (R : List Bytes) (hne : R ≠ []) (h : ∀ c ∈ R, Proper c) :
    ∃ a t, joinWith slash R = a :: t ∧ a ≠ slash := by
  cases R with
  | nil => exact absurd rfl hne
  | cons x rest =>
    have hx := h x (by simp)
    cases hx' : x with
    | nil => exact absurd hx' hx.1
    | cons a xs =>
      have ha : a ≠ slash := by
        intro e; apply hx.2.2.2; rw [hx', e]; simp
      cases rest with
      | nil => exact ⟨a, xs, by simp [joinWith], ha⟩
      | cons y ys => exact ⟨a, _, by simp [joinWith]; rfl, ha⟩

theorem trimLeft_join (R : List Bytes) (hne : R ≠ []) (h : ∀ c ∈ R, Proper c) :
    trimLeft slash (slash :: joinWith slash R) = joinWith slash R := by
  obtain ⟨a, t, e, ha⟩ := joinWith_head_ne_slash R hne h
  rw [e]
  simp [trimLeft, ha]

theorem joinWith_ne_dot (R : List Bytes) (hne : R ≠ []) (h : ∀ c ∈ R, Proper c) : joinWith slash R ≠ dotS := by
  intro e
  have hs := splitOn_joinWith slash R hne (fun c hc => (h c hc).2.2.2)
  rw [e] at hs
  have : splitOn slash dotS = [dotS] := by decide
  rw [this] at hs
  have : dotS ∈ R := by rw [← hs]; simp
  exact (h _ this).2.1 rfl

/-- a planned non-directory destination `/a/b` becomes the relative name `a/b` -/
theorem asRel_file (R : List Bytes) (hne : R ≠ []) (h : ∀ c ∈ R, Proper c) :
    asRel (slash :: joinWith slash R) = joinWith slash R := by
  unfold asRel toNix
  rw [clean_rooted_cons, rcomps_of_proper_join R h, trimLeft_join R hne h]
  simp only [slashS, hasSuffix_single_]
  have : ((slash :: joinWith slash R).getLast? == some slash) = false := by
    rw [beq_eq_false_iff_ne]
    obtain ⟨a, t, e, _⟩ := joinWith_head_ne_slash R hne h
    have hj : joinWith slash R ≠ [] := by rw [e]; simp
    rw [show slash :: joinWith slash R = [slash] ++ joinWith slash R by simp, getLast?_append_of_ne_nil' _ _ hj]
    exact joinWith_getLast_ne_slash R hne h
  simp [this]

/-- a planned directory destination `/a/b/` becomes `a/b/` – the trailing slash is kept for every name -/
theorem asRel_dir (R : List Bytes) (hne : R ≠ []) (h : ∀ c ∈ R, Proper c) :
    asRel (slash :: joinWith slash R ++ [slash]) = joinWith slash R ++ [slash] := by
  unfold asRel toNix
  rw [show slash :: joinWith slash R ++ [slash] = slash :: (joinWith slash R ++ [slash]) by simp]
  rw [clean_rooted_cons]
  rw [show slash :: (joinWith slash R ++ [slash]) = (slash :: joinWith slash R) ++ [slash] by simp]
  rw [rcomps_snoc_slash_, rcomps_of_proper_join R h, trimLeft_join R hne h]
  simp only [slashS, hasSuffix_single_]
  obtain ⟨a, t, e, _⟩ := joinWith_head_ne_slash R hne h
  have hj : joinWith slash R ≠ [] := by rw [e]; simp
  have hd := joinWith_ne_dot R hne h
  have : (slash :: (joinWith slash R ++ [slash])).getLast? = some slash := by
    rw [show slash :: (joinWith slash R ++ [slash]) = (slash :: joinWith slash R) ++ [slash] by simp]
    exact getLast?_append_singleton _ _
  simp [this, hj, hd]

/-- the planned destination shapes: `dst = "/" ++ relative name` -/
theorem slash_asRel_normFile (x : Bytes) (hroot : rcomps x ≠ []) : slash :: asRel (normFile x) = normFile x := by
  rw [normFile_eq, asRel_file _ hroot (rcomps_proper x)]

theorem slash_asRel_normDir (x : Bytes) (hroot : rcomps x ≠ []) : slash :: asRel (normDir x) = normDir x := by
  rw [normDir_eq, asRel_dir _ hroot (rcomps_proper x)]
  simp

end Nfpm

namespace Nfpm
open B Path Spec

theorem clean_rel_join (R : List Bytes) (hne : R ≠ []) (h : ∀ c ∈ R, Proper c) :
    clean (joinWith slash R) = joinWith slash R := by
  obtain ⟨a, t, e, ha⟩ := joinWith_head_ne_slash R hne h
  have hnr : isRooted (joinWith slash R) = false := by rw [e]; simp [isRooted, ha]
  have hj : joinWith slash R ≠ [] := by rw [e]; simp
  unfold clean
  rw [if_neg hj]
  simp only [hnr, Bool.false_eq_true, if_false]
  rw [splitOn_joinWith slash R hne (fun c hc => (h c hc).2.2.2), resolve_of_proper false R h, if_neg hne]

/-- AsRelativePath applied to an already relative file name is the identity (apk applies it twice) -/
theorem asRel_rel_file (R : List Bytes) (hne : R ≠ []) (h : ∀ c ∈ R, Proper c) :
    asRel (joinWith slash R) = joinWith slash R := by
  unfold asRel toNix
  rw [clean_rel_join R hne h]
  obtain ⟨a, t, e, ha⟩ := joinWith_head_ne_slash R hne h
  have ht : trimLeft slash (joinWith slash R) = joinWith slash R := by rw [e]; simp [trimLeft, ha]
  rw [ht]
  simp only [slashS, hasSuffix_single_]
  have : ((joinWith slash R).getLast? == some slash) = false := by
    rw [beq_eq_false_iff_ne]; exact joinWith_getLast_ne_slash R hne h
  simp [this]

/-- components of "./a/b" and "./a/b/" -/
theorem splitOn_dot_join (R : List Bytes) (hne : R ≠ []) (h : ∀ c ∈ R, Proper c) :
    splitOn slash (dot :: slash :: joinWith slash R) = dotS :: R := by
  have : dot :: slash :: joinWith slash R = dotS ++ slash :: joinWith slash R := rfl
  rw [this, splitOn_append_sep slash dotS _ (by decide), splitOn_joinWith slash R hne (fun c hc => (h c hc).2.2.2)]

end Nfpm
