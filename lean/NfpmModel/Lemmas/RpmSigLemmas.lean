import NfpmModel.RpmSig
import NfpmModel.Lemmas.RpmFilesLemmas
/-
  The signature header rpmpack computes reads back, and its entries speak about the bytes of the file.
-/
set_option linter.unusedSimpArgs false
set_option linter.unusedVariables false
namespace Nfpm.RpmSig
open Nfpm B RpmHdr RpmFiles

theorem entStr_ok (tag : Nat) (s : Bytes) (ht : tag < 4294967296) (h : (0 : UInt8) ∉ s) : EntryOK (entStr tag s) :=
  { data := Or.inr (Or.inr (Or.inr (Or.inl ⟨rfl, rfl, s, h, rfl⟩))), tag := ht,
    typ := (by show tString < 4294967296; decide), count := (by show 1 < 4294967296; decide) }

theorem entBin_ok (tag : Nat) (b : Bytes) (ht : tag < 4294967296) (h : b.length < 4294967296) : EntryOK (entBin tag b) :=
  { data := Or.inr (Or.inr (Or.inl ⟨rfl, rfl⟩)), tag := ht, typ := (by show tBin < 4294967296; decide), count := h }

theorem entI32_ok (tag n : Nat) (ht : tag < 4294967296) : EntryOK (entI32 tag n) :=
  entU32s_ok tag _ ht (by simp)

/-- the signature header entries are well formed for the header writer -/
theorem sigEntries_ok (hex256 : Bytes → Bytes) (sign : Option (Bytes → Bytes)) (regHeader payloadZ : Bytes) (payloadSize : Nat)
    (hx : ∀ b, (0 : UInt8) ∉ hex256 b) (hsg : ∀ f, sign = some f → ∀ b, (f b).length < 4294967296) :
    ∀ e ∈ sigEntries hex256 sign regHeader payloadZ payloadSize, EntryOK e := by
  intro e he
  unfold sigEntries at he
  cases sign with
  | none =>
    simp only [List.nil_append, List.append_nil, List.cons_append, List.mem_cons, List.mem_nil_iff, or_false] at he
    rcases he with rfl | rfl | rfl
    · exact entStr_ok _ _ (by decide) (hx _)
    · exact entI32_ok _ _ (by decide)
    · exact entI32_ok _ _ (by decide)
  | some f =>
    simp only [List.nil_append, List.append_nil, List.cons_append, List.mem_cons, List.mem_nil_iff, or_false] at he
    rcases he with rfl | rfl | rfl | rfl | rfl
    · exact entBin_ok _ _ (by decide) (hsg f rfl _)
    · exact entStr_ok _ _ (by decide) (hx _)
    · exact entI32_ok _ _ (by decide)
    · exact entBin_ok _ _ (by decide) (hsg f rfl _)
    · exact entI32_ok _ _ (by decide)

/-- **the whole file reads back**, with the main header located where it was written -/
theorem whole_reads (hex256 : Bytes → Bytes) (sign : Option (Bytes → Bytes)) (nv : Bytes) (hdr : List Entry) (payloadZ : Bytes)
    (payloadSize : Nat) (hh : HeaderOK 63 hdr) (h0 : (0 : UInt8) ∉ nv) (hl : nv.length ≤ 65)
    (hx : ∀ b, (0 : UInt8) ∉ hex256 b) (hsg : ∀ f, sign = some f → ∀ b, (f b).length < 4294967296)
    (hsz : (layout (sigEntries hex256 sign (header 63 hdr) payloadZ payloadSize) []).2.length + 16 < 4294967296) :
    readFile (whole hex256 sign nv hdr payloadZ payloadSize)
      = some { leadName := nv, sig := sigEntries hex256 sign (header 63 hdr) payloadZ payloadSize, hdr := hdr,
               hdrOff := 96 + (header 62 (sigEntries hex256 sign (header 63 hdr) payloadZ payloadSize)).length
                           + pad8 (header 62 (sigEntries hex256 sign (header 63 hdr) payloadZ payloadSize)).length,
               hdrLen := (header 63 hdr).length, payload := payloadZ } := by
  unfold whole
  apply readFile_file nv _ hdr payloadZ _ hh h0 hl
  refine { entries := sigEntries_ok hex256 sign _ _ _ hx hsg, region := by decide, count := ?_, size := hsz }
  unfold sigEntries
  cases sign <;> simp

theorem lookup_sig (hex256 : Bytes → Bytes) (sign : Option (Bytes → Bytes)) (regHeader payloadZ : Bytes) (payloadSize : Nat) :
    lookupTag 273 (sigEntries hex256 sign regHeader payloadZ payloadSize) = some (entStr 273 (hex256 regHeader))
    ∧ lookupTag 1000 (sigEntries hex256 sign regHeader payloadZ payloadSize) = some (entI32 1000 (payloadZ.length + regHeader.length))
    ∧ lookupTag 1007 (sigEntries hex256 sign regHeader payloadZ payloadSize) = some (entI32 1007 payloadSize)
    ∧ (∀ f, sign = some f →
        lookupTag 268 (sigEntries hex256 sign regHeader payloadZ payloadSize) = some (entBin 268 (f regHeader))
        ∧ lookupTag 1002 (sigEntries hex256 sign regHeader payloadZ payloadSize) = some (entBin 1002 (f (regHeader ++ payloadZ))))
    ∧ (sign = none → lookupTag 268 (sigEntries hex256 sign regHeader payloadZ payloadSize) = none
        ∧ lookupTag 1002 (sigEntries hex256 sign regHeader payloadZ payloadSize) = none) := by
  cases sign with
  | none =>
    refine ⟨rfl, rfl, rfl, ?_, fun _ => ⟨rfl, rfl⟩⟩
    intro f hf; cases hf
  | some g =>
    refine ⟨rfl, rfl, rfl, ?_, ?_⟩
    · intro f hf; cases hf; exact ⟨rfl, rfl⟩
    · intro h; cases h

end Nfpm.RpmSig
