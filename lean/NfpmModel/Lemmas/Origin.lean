import NfpmModel.Lemmas.Kept
/-
  Where the entries of a plan come from (lists whose relevant entries are directories and file-like entries): every
  entry of the destination map is the entry one of the processed requests produces, or an implied directory created as
  a parent of one of them.
-/
set_option linter.unusedSimpArgs false
set_option linter.unusedVariables false
namespace Nfpm
open B Path

theorem mem_insert_cases (m : CMap) (k : Bytes) (v : Content) (p : Bytes × Content) (hp : p ∈ m.insert k v) :
    p = (k, v) ∨ p ∈ m := by
  induction m with
  | nil => simp [CMap.insert] at hp; exact Or.inl hp
  | cons q rest ih =>
    obtain ⟨k', v'⟩ := q
    unfold CMap.insert at hp
    split at hp
    · rcases List.mem_cons.mp hp with h | h
      · exact Or.inl h
      · exact Or.inr (List.mem_cons_of_mem _ h)
    · rcases List.mem_cons.mp hp with h | h
      · exact Or.inr (by rw [h]; simp)
      · rcases ih h with h | h
        · exact Or.inl h
        · exact Or.inr (List.mem_cons_of_mem _ h)

/-- every entry is a produced request (`src`) or an implied directory among the parents of a processed destination (`ds`) -/
def Orig (mt : Int) (src : List (Bytes × Content)) (ds : List Bytes) (m : CMap) : Prop :=
  ∀ p ∈ m, p ∈ src ∨ (p.2 = implicitDirEntry p.1 mt ∧ ∃ d ∈ ds, p.1 ∈ (sortedParentsC d).map normDir)

theorem orig_mono {mt : Int} {src src' : List (Bytes × Content)} {ds ds' : List Bytes} {m : CMap}
    (h : Orig mt src ds m) (hs : ∀ x ∈ src, x ∈ src') (hd : ∀ x ∈ ds, x ∈ ds') : Orig mt src' ds' m := by
  intro p hp
  rcases h p hp with h1 | ⟨h2, d, hd1, hd2⟩
  · exact Or.inl (hs p h1)
  · exact Or.inr ⟨h2, d, hd d hd1, hd2⟩

theorem orig_addParentsL (mt : Int) (src : List (Bytes × Content)) (ds : List Bytes) (d : Bytes) (ps : List Bytes)
    (hps : ∀ q ∈ ps, q ∈ sortedParentsC d) (hd : d ∈ ds) (m m' : CMap) (h : Orig mt src ds m)
    (hok : addParentsL mt ps m = .ok m') : Orig mt src ds m' := by
  induction ps generalizing m with
  | nil => simp [addParentsL] at hok; subst hok; exact h
  | cons q rest ih =>
    unfold addParentsL at hok
    split at hok
    · cases hok
    · simp only [] at hok
      split at hok
      · split at hok
        · exact ih (fun x hx => hps x (List.mem_cons_of_mem _ hx)) m h hok
        · cases hok
      · apply ih (fun x hx => hps x (List.mem_cons_of_mem _ hx)) _ _ hok
        intro p hp
        rcases mem_insert_cases _ _ _ _ hp with rfl | hp
        · exact Or.inr ⟨rfl, d, hd, List.mem_map.mpr ⟨q, hps q (by simp), rfl⟩⟩
        · exact h p hp

/-- the entry files.addGlobbedFiles makes of one (source, destination) pair of a glob -/
def globEntry (O : Oracle) (umask : Nat) (mtime : Int) (orig : Content) (p : Bytes × Bytes) : Bytes × Content :=
  let d := normFile p.2
  let fi := orig.info.map (fun fi => { fi with size := 0 })
  let nf := withDefaults O umask mtime
    { dst := normFile d, src := toNix p.1, type := orig.type, info := fi, packager := orig.packager }
  let nf := match O.readlink p.1 with
    | some tgt => { nf with src := tgt, type := T.symlink }
    | none => nf
  (d, nf)

theorem orig_addGlobbed (O : Oracle) (umask : Nat) (mt : Int) (orig : Content) (pairs : List (Bytes × Bytes))
    (src : List (Bytes × Content)) (ds : List Bytes) (m m' : CMap) (h : Orig mt src ds m)
    (hok : addGlobbed O umask mt orig pairs m = .ok m') :
    Orig mt (pairs.map (globEntry O umask mt orig) ++ src) (pairs.map (fun p => normFile p.2) ++ ds) m' := by
  induction pairs generalizing m src ds with
  | nil => simp [addGlobbed] at hok; subst hok; simpa using h
  | cons p rest ih =>
    obtain ⟨s0, d0⟩ := p
    unfold addGlobbed at hok
    simp only [] at hok
    split at hok
    · cases hok
    · split at hok
      · cases hok
      · rename_i m1 hm1
        have h1 : Orig mt src (normFile d0 :: ds) m1 :=
          orig_addParentsL mt src (normFile d0 :: ds) (normFile d0) _ (fun _ hq => hq) (by simp) m m1
            (orig_mono h (fun _ hx => hx) (fun _ hx => List.mem_cons_of_mem _ hx)) hm1
        have h2 : Orig mt (globEntry O umask mt orig (s0, d0) :: src) (normFile d0 :: ds)
            (m1.insert (normFile d0) (globEntry O umask mt orig (s0, d0)).2) := by
          intro q hq
          rcases mem_insert_cases _ _ _ _ hq with rfl | hq
          · left; simp [globEntry]
          · rcases h1 q hq with a | b
            · exact Or.inl (List.mem_cons_of_mem _ a)
            · exact Or.inr b
        have h3 := ih _ _ _ h2 hok
        apply orig_mono h3
        · intro x hx
          rcases List.mem_append.mp hx with hx | hx
          · exact List.mem_append_left _ (by simp only [List.map_cons]; exact List.mem_cons_of_mem _ hx)
          · rcases List.mem_cons.mp hx with rfl | hx
            · exact List.mem_append_left _ (by simp)
            · exact List.mem_append_right _ hx
        · intro x hx
          rcases List.mem_append.mp hx with hx | hx
          · exact List.mem_append_left _ (by simp only [List.map_cons]; exact List.mem_cons_of_mem _ hx)
          · rcases List.mem_cons.mp hx with rfl | hx
            · exact List.mem_append_left _ (by simp)
            · exact List.mem_append_right _ hx

/-- the (source, destination) pairs a globbed entry expands to, as the oracle and glob.Glob's mapping give them -/
def globPairs (O : Oracle) (cfg : PlanCfg) (ic : Nat × Content) : List (Bytes × Bytes) :=
  match O.glob ic.1 with
  | none => []
  | some g => match globMap ic.2.src ic.2.dst cfg.noGlob g with
    | .ok pairs => pairs
    | .error _ => []

/-- what one step of the loop adds: the produced entries and the destinations whose parents it creates -/
def stepProduced (O : Oracle) (cfg : PlanCfg) (ic : Nat × Content) : List (Bytes × Content) :=
  if isRelevant cfg.packager ic.2 = true then
    match classify ic.2.type with
    | .dir => [plannedFor O cfg ic.2]
    | .fileLike => [plannedFor O cfg ic.2]
    | .globbed => (globPairs O cfg ic).map (globEntry O cfg.umask cfg.mtime ic.2)
    | _ => []
  else []

def stepDs (O : Oracle) (cfg : PlanCfg) (ic : Nat × Content) : List Bytes :=
  ic.2.dst :: (globPairs O cfg ic).map (fun p => normFile p.2)

/-- one step of the loop, for an entry that is irrelevant, an implicit directory, a directory, file-like or globbed -/
theorem orig_planStep (O : Oracle) (cfg : PlanCfg) (src : List (Bytes × Content)) (ds : List Bytes) (m m' : CMap) (i : Nat) (c : Content)
    (hcls : isRelevant cfg.packager c = true → classify c.type = .dir ∨ classify c.type = .fileLike ∨ classify c.type = .implicitDir
      ∨ classify c.type = .globbed)
    (h : Orig cfg.mtime src ds m) (hok : planStep O cfg m (i, c) = .ok m') :
    Orig cfg.mtime (stepProduced O cfg (i, c) ++ src) (stepDs O cfg (i, c) ++ ds) m' := by
  unfold planStep at hok
  simp only [] at hok
  have hds : ∀ x ∈ c.dst :: ds, x ∈ stepDs O cfg (i, c) ++ ds := by
    intro x hx
    unfold stepDs
    rcases List.mem_cons.mp hx with rfl | hx
    · simp
    · exact List.mem_append_right _ hx
  by_cases hrel : isRelevant cfg.packager c = true
  · simp only [hrel, Bool.not_true, Bool.false_eq_true, if_false] at hok
    rcases hcls hrel with hd | hf | hi | hg
    · rw [hd] at hok
      simp only [] at hok
      split at hok
      · cases hok
      · split at hok
        · cases hok
        · rename_i m1 hm1
          simp only [Except.ok.injEq] at hok
          subst hok
          have h1 : Orig cfg.mtime src (c.dst :: ds) m1 :=
            orig_addParentsL cfg.mtime src (c.dst :: ds) c.dst _ (fun _ hq => hq) (by simp) m m1
              (orig_mono h (fun _ hx => hx) (fun _ hx => List.mem_cons_of_mem _ hx)) hm1
          have hp : stepProduced O cfg (i, c) = [plannedFor O cfg c] := by simp [stepProduced, hrel, hd]
          rw [hp]
          intro p hp'
          rcases mem_insert_cases _ _ _ _ hp' with rfl | hp'
          · left; simp [plannedFor, hd]
          · rcases h1 p hp' with a | ⟨b1, d, b2, b3⟩
            · exact Or.inl (List.mem_cons_of_mem _ a)
            · exact Or.inr ⟨b1, d, hds d b2, b3⟩
    · rw [hf] at hok
      simp only [] at hok
      split at hok
      · cases hok
      · split at hok
        · cases hok
        · rename_i m1 hm1
          simp only [Except.ok.injEq] at hok
          subst hok
          have h1 : Orig cfg.mtime src (c.dst :: ds) m1 :=
            orig_addParentsL cfg.mtime src (c.dst :: ds) c.dst _ (fun _ hq => hq) (by simp) m m1
              (orig_mono h (fun _ hx => hx) (fun _ hx => List.mem_cons_of_mem _ hx)) hm1
          have hp : stepProduced O cfg (i, c) = [plannedFor O cfg c] := by simp [stepProduced, hrel, hf]
          rw [hp]
          have hnd : ¬ classify c.type = .dir := by rw [hf]; decide
          intro p hp'
          rcases mem_insert_cases _ _ _ _ hp' with rfl | hp'
          · left; simp [plannedFor, hnd]
          · rcases h1 p hp' with a | ⟨b1, d, b2, b3⟩
            · exact Or.inl (List.mem_cons_of_mem _ a)
            · exact Or.inr ⟨b1, d, hds d b2, b3⟩
    · rw [hi] at hok
      simp only [Except.ok.injEq] at hok
      subst hok
      have hp : stepProduced O cfg (i, c) = [] := by simp [stepProduced, hrel, hi]
      rw [hp]
      exact orig_mono h (fun _ hx => by simpa using hx) (fun x hx => hds x (List.mem_cons_of_mem _ hx))
    · rw [hg] at hok
      simp only [] at hok
      split at hok
      · cases hok
      · rename_i g hgl
        split at hok
        · cases hok
        · rename_i pairs hpairs
          have h1 := orig_addGlobbed O cfg.umask cfg.mtime c pairs src ds m m' h hok
          have hgp : globPairs O cfg (i, c) = pairs := by simp [globPairs, hgl, hpairs]
          have hp : stepProduced O cfg (i, c) = pairs.map (globEntry O cfg.umask cfg.mtime c) := by
            simp [stepProduced, hrel, hg, hgp]
          rw [hp]
          apply orig_mono h1 (fun _ hx => hx)
          intro x hx
          unfold stepDs
          rw [hgp]
          rcases List.mem_append.mp hx with hx | hx
          · exact List.mem_append_left _ (List.mem_cons_of_mem _ hx)
          · exact List.mem_append_right _ hx
  · simp only [hrel, Bool.not_false, if_true, Except.ok.injEq] at hok
    subst hok
    have hp : stepProduced O cfg (i, c) = [] := by simp [stepProduced, hrel]
    rw [hp]
    exact orig_mono h (fun _ hx => by simpa using hx) (fun x hx => hds x (List.mem_cons_of_mem _ hx))

theorem orig_planMap (O : Oracle) (cfg : PlanCfg) (ics : List (Nat × Content)) (src : List (Bytes × Content)) (ds : List Bytes)
    (m m' : CMap)
    (hcls : ∀ ic ∈ ics, isRelevant cfg.packager ic.2 = true →
      classify ic.2.type = .dir ∨ classify ic.2.type = .fileLike ∨ classify ic.2.type = .implicitDir ∨ classify ic.2.type = .globbed)
    (h : Orig cfg.mtime src ds m) (hok : planMap O cfg ics m = .ok m') :
    Orig cfg.mtime (ics.flatMap (stepProduced O cfg) ++ src) (ics.flatMap (stepDs O cfg) ++ ds) m' := by
  induction ics generalizing m src ds with
  | nil => simp [planMap] at hok; subst hok; simpa using h
  | cons ic rest ih =>
    obtain ⟨i, c⟩ := ic
    unfold planMap at hok
    split at hok
    · cases hok
    · rename_i m1 hm1
      have h1 := orig_planStep O cfg src ds m m1 i c (hcls (i, c) (by simp)) h hm1
      have h2 := ih _ _ m1 (fun x hx => hcls x (List.mem_cons_of_mem _ hx)) h1 hok
      apply orig_mono h2
      · intro x hx
        simp only [List.flatMap_cons, List.mem_append] at hx ⊢
        rcases hx with hx | hx | hx
        · exact Or.inl (Or.inr hx)
        · exact Or.inl (Or.inl hx)
        · exact Or.inr hx
      · intro x hx
        simp only [List.flatMap_cons, List.mem_append] at hx ⊢
        rcases hx with hx | hx | hx
        · exact Or.inl (Or.inr hx)
        · exact Or.inl (Or.inl hx)
        · exact Or.inr hx

end Nfpm
