import NfpmModel.Lemmas.Kept
/-
  Where the entries of a plan come from (lists whose relevant entries are directories and file-like entries): every
  entry of the destination map is the entry one of the processed requests produces, or an implied directory created as
  a parent of one of them.
-/
set_option linter.unusedSimpArgs false
set_option linter.unusedVariables false
namespace Nfpm
open B Path

theorem mem_insert_cases (m : CMap) (k : Bytes) (v : Content) (p : Bytes × Content) (hp : p ∈ m.insert k v) :
    p = (k, v) ∨ p ∈ m := by
  induction m with
  | nil => simp [CMap.insert] at hp; exact Or.inl hp
  | cons q rest ih =>
    obtain ⟨k', v'⟩ := q
    unfold CMap.insert at hp
    split at hp
    · rcases List.mem_cons.mp hp with h | h
      · exact Or.inl h
      · exact Or.inr (List.mem_cons_of_mem _ h)
    · rcases List.mem_cons.mp hp with h | h
      · exact Or.inr (by rw [h]; simp)
      · rcases ih h with h | h
        · exact Or.inl h
        · exact Or.inr (List.mem_cons_of_mem _ h)

/-- every entry is a produced request (`src`) or an implied directory among the parents of a processed destination (`ds`) -/
def Orig (mt : Int) (src : List (Bytes × Content)) (ds : List Bytes) (m : CMap) : Prop :=
  ∀ p ∈ m, p ∈ src ∨ (p.2 = implicitDirEntry p.1 mt ∧ ∃ d ∈ ds, p.1 ∈ (sortedParentsC d).map normDir)

theorem orig_mono {mt : Int} {src src' : List (Bytes × Content)} {ds ds' : List Bytes} {m : CMap}
    (h : Orig mt src ds m) (hs : ∀ x ∈ src, x ∈ src') (hd : ∀ x ∈ ds, x ∈ ds') : Orig mt src' ds' m := by
  intro p hp
  rcases h p hp with h1 | ⟨h2, d, hd1, hd2⟩
  · exact Or.inl (hs p h1)
  · exact Or.inr ⟨h2, d, hd d hd1, hd2⟩

theorem orig_addParentsL (mt : Int) (src : List (Bytes × Content)) (ds : List Bytes) (d : Bytes) (ps : List Bytes)
    (hps : ∀ q ∈ ps, q ∈ sortedParentsC d) (hd : d ∈ ds) (m m' : CMap) (h : Orig mt src ds m)
    (hok : addParentsL mt ps m = .ok m') : Orig mt src ds m' := by
  induction ps generalizing m with
  | nil => simp [addParentsL] at hok; subst hok; exact h
  | cons q rest ih =>
    unfold addParentsL at hok
    split at hok
    · cases hok
    · simp only [] at hok
      split at hok
      · split at hok
        · exact ih (fun x hx => hps x (List.mem_cons_of_mem _ hx)) m h hok
        · cases hok
      · apply ih (fun x hx => hps x (List.mem_cons_of_mem _ hx)) _ _ hok
        intro p hp
        rcases mem_insert_cases _ _ _ _ hp with rfl | hp
        · exact Or.inr ⟨rfl, d, hd, List.mem_map.mpr ⟨q, hps q (by simp), rfl⟩⟩
        · exact h p hp

/-- one step of the loop, for an entry that is irrelevant, an implicit directory, a directory or file-like -/
theorem orig_planStep (O : Oracle) (cfg : PlanCfg) (src : List (Bytes × Content)) (ds : List Bytes) (m m' : CMap) (i : Nat) (c : Content)
    (hcls : isRelevant cfg.packager c = true → classify c.type = .dir ∨ classify c.type = .fileLike ∨ classify c.type = .implicitDir)
    (h : Orig cfg.mtime src ds m) (hok : planStep O cfg m (i, c) = .ok m') :
    Orig cfg.mtime (if isRelevant cfg.packager c = true ∧ (classify c.type = .dir ∨ classify c.type = .fileLike)
                    then plannedFor O cfg c :: src else src) (c.dst :: ds) m' := by
  unfold planStep at hok
  simp only [] at hok
  by_cases hrel : isRelevant cfg.packager c = true
  · simp only [hrel, Bool.not_true, Bool.false_eq_true, if_false] at hok
    rcases hcls hrel with hd | hf | hi
    · -- directory
      rw [hd] at hok
      simp only [] at hok
      split at hok
      · cases hok
      · split at hok
        · cases hok
        · rename_i m1 hm1
          simp only [Except.ok.injEq] at hok
          subst hok
          have h1 : Orig cfg.mtime src (c.dst :: ds) m1 :=
            orig_addParentsL cfg.mtime src (c.dst :: ds) c.dst _ (fun _ hq => hq) (by simp) m m1
              (orig_mono h (fun _ hx => hx) (fun _ hx => List.mem_cons_of_mem _ hx)) hm1
          rw [if_pos ⟨hrel, Or.inl hd⟩]
          intro p hp
          rcases mem_insert_cases _ _ _ _ hp with rfl | hp
          · left
            simp [plannedFor, hd]
          · rcases h1 p hp with a | b
            · exact Or.inl (List.mem_cons_of_mem _ a)
            · exact Or.inr b
    · -- file-like
      rw [hf] at hok
      simp only [] at hok
      split at hok
      · cases hok
      · split at hok
        · cases hok
        · rename_i m1 hm1
          simp only [Except.ok.injEq] at hok
          subst hok
          have h1 : Orig cfg.mtime src (c.dst :: ds) m1 :=
            orig_addParentsL cfg.mtime src (c.dst :: ds) c.dst _ (fun _ hq => hq) (by simp) m m1
              (orig_mono h (fun _ hx => hx) (fun _ hx => List.mem_cons_of_mem _ hx)) hm1
          rw [if_pos ⟨hrel, Or.inr hf⟩]
          have hnd : ¬ classify c.type = .dir := by rw [hf]; decide
          intro p hp
          rcases mem_insert_cases _ _ _ _ hp with rfl | hp
          · left
            simp [plannedFor, hnd]
          · rcases h1 p hp with a | b
            · exact Or.inl (List.mem_cons_of_mem _ a)
            · exact Or.inr b
    · rw [hi] at hok
      simp only [Except.ok.injEq] at hok
      subst hok
      have : ¬ (isRelevant cfg.packager c = true ∧ (classify c.type = .dir ∨ classify c.type = .fileLike)) := by
        rintro ⟨_, h1 | h1⟩ <;> rw [hi] at h1 <;> cases h1
      rw [if_neg this]
      exact orig_mono h (fun _ hx => hx) (fun _ hx => List.mem_cons_of_mem _ hx)
  · simp only [hrel, Bool.not_false, if_true, Except.ok.injEq] at hok
    subst hok
    rw [if_neg (fun hh => hrel hh.1)]
    exact orig_mono h (fun _ hx => hx) (fun _ hx => List.mem_cons_of_mem _ hx)

/-- the requests a list of indexed entries produces -/
def produced (O : Oracle) (cfg : PlanCfg) (ics : List (Nat × Content)) : List (Bytes × Content) :=
  (ics.filter (fun ic => isRelevant cfg.packager ic.2 = true ∧ (classify ic.2.type = .dir ∨ classify ic.2.type = .fileLike))).map
    (fun ic => plannedFor O cfg ic.2)

theorem orig_planMap (O : Oracle) (cfg : PlanCfg) (ics : List (Nat × Content)) (src : List (Bytes × Content)) (ds : List Bytes)
    (m m' : CMap)
    (hcls : ∀ ic ∈ ics, isRelevant cfg.packager ic.2 = true →
      classify ic.2.type = .dir ∨ classify ic.2.type = .fileLike ∨ classify ic.2.type = .implicitDir)
    (h : Orig cfg.mtime src ds m) (hok : planMap O cfg ics m = .ok m') :
    Orig cfg.mtime (produced O cfg ics ++ src) (ics.map (·.2.dst) ++ ds) m' := by
  induction ics generalizing m src ds with
  | nil => simp [planMap] at hok; subst hok; simpa [produced] using h
  | cons ic rest ih =>
    obtain ⟨i, c⟩ := ic
    unfold planMap at hok
    split at hok
    · cases hok
    · rename_i m1 hm1
      have h1 := orig_planStep O cfg src ds m m1 i c (hcls (i, c) (by simp)) h hm1
      have h2 := ih _ _ m1 (fun x hx => hcls x (List.mem_cons_of_mem _ hx)) h1 hok
      apply orig_mono h2
      · intro x hx
        rcases List.mem_append.mp hx with hx | hx
        · apply List.mem_append_left
          unfold produced at hx ⊢
          obtain ⟨y, hy, rfl⟩ := List.mem_map.mp hx
          exact List.mem_map.mpr ⟨y, by
            rw [List.mem_filter] at hy ⊢
            exact ⟨List.mem_cons_of_mem _ hy.1, hy.2⟩, rfl⟩
        · split at hx
          · rename_i hc
            rcases List.mem_cons.mp hx with rfl | hx
            · apply List.mem_append_left
              unfold produced
              exact List.mem_map.mpr ⟨(i, c), by rw [List.mem_filter]; exact ⟨by simp, by simpa using hc⟩, rfl⟩
            · exact List.mem_append_right _ hx
          · exact List.mem_append_right _ hx
      · intro x hx
        rcases List.mem_append.mp hx with hx | hx
        · exact List.mem_append_left _ (by simp only [List.map_cons, List.mem_cons]; exact Or.inr hx)
        · rcases List.mem_cons.mp hx with rfl | hx
          · exact List.mem_append_left _ (by simp)
          · exact List.mem_append_right _ hx

end Nfpm
