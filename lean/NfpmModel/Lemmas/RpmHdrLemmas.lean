import NfpmModel.RpmHdr
/-
  Round trip of the rpm header structure: the independent reader recovers region tag, entries (tag, type, count,
  data bytes) and the bytes that follow, from what the model of rpmpack's index.Bytes writes.
-/
set_option linter.unusedSimpArgs false
set_option linter.unusedVariables false
namespace Nfpm.RpmHdr
open Nfpm B

@[simp] theorem zeros_length (n : Nat) : (zeros n).length = n := by simp [zeros]

/-! ### 32-bit big-endian numbers -/

theorem byte_toNat (n : Nat) : (n % 256).toUInt8.toNat = n % 256 := by
  simp only [Nat.toUInt8, UInt8.toNat_ofNat']
  omega

@[simp] theorem be32_length (n : Nat) : (be32 n).length = 4 := rfl

theorem beVal_be32 (n : Nat) (h : n < 4294967296) : beVal (be32 n) = n := by
  simp only [be32, beVal, List.foldl_cons, List.foldl_nil, byte_toNat]
  omega

theorem rd32_at (pre : Bytes) (n : Nat) (post : Bytes) (off : Nat) (ho : pre.length = off) (h : n < 4294967296) :
    rd32 (pre ++ be32 n ++ post) off = n := by
  unfold rd32
  rw [List.append_assoc, List.drop_left' ho, List.take_left' (be32_length n), beVal_be32 n h]

@[simp] theorem idx_length (a b c d : Nat) : (idx a b c d).length = 16 := rfl

theorem rd_idx (a b c d : Nat) (post : Bytes) (ha : a < 4294967296) (hb : b < 4294967296) (hc : c < 4294967296) (hd : d < 4294967296) :
    rd32 (idx a b c d ++ post) 0 = a ∧ rd32 (idx a b c d ++ post) 4 = b ∧ rd32 (idx a b c d ++ post) 8 = c
      ∧ rd32 (idx a b c d ++ post) 12 = d := by
  unfold idx
  refine ⟨?_, ?_, ?_, ?_⟩
  · have := rd32_at [] a (be32 b ++ be32 c ++ be32 d ++ post) 0 rfl ha
    simpa [List.append_assoc] using this
  · have := rd32_at (be32 a) b (be32 c ++ be32 d ++ post) 4 rfl hb
    simpa [List.append_assoc] using this
  · have := rd32_at (be32 a ++ be32 b) c (be32 d ++ post) 8 rfl hc
    simpa [List.append_assoc] using this
  · have := rd32_at (be32 a ++ be32 b ++ be32 c) d post 12 rfl hd
    simpa [List.append_assoc] using this

/-! ### entry data -/

/-- the data of an entry has the shape its type and count announce -/
def DataOK (e : Entry) : Prop :=
  (e.typ = tInt16 ∧ e.data.length = 2 * e.count)
  ∨ (e.typ = tInt32 ∧ e.data.length = 4 * e.count)
  ∨ (e.typ = tBin ∧ e.data.length = e.count)
  ∨ (e.typ = tString ∧ e.count = 1 ∧ ∃ s : Bytes, (0 : UInt8) ∉ s ∧ e.data = s ++ [0])
  ∨ (e.typ = tStringArray ∧ ∃ ss : List Bytes, ss.length = e.count ∧ (∀ s ∈ ss, (0 : UInt8) ∉ s) ∧ e.data = ss.flatMap (· ++ [0]))

theorem takeWhile_nonzero (s : Bytes) (post : Bytes) (h : (0 : UInt8) ∉ s) : (s ++ 0 :: post).takeWhile (· != 0) = s := by
  induction s with
  | nil => simp
  | cons a as ih =>
    have ha : a ≠ 0 := fun e => h (by simp [e])
    have : (a != 0) = true := by simpa using ha
    simp only [List.cons_append, List.takeWhile_cons, this, if_true]
    rw [ih (fun hm => h (List.mem_cons_of_mem _ hm))]

theorem strsLen_strings (ss : List Bytes) (post : Bytes) (h : ∀ s ∈ ss, (0 : UInt8) ∉ s) :
    strsLen ss.length (ss.flatMap (· ++ [0]) ++ post) = some (ss.flatMap (· ++ [0])).length := by
  induction ss with
  | nil => simp [strsLen]
  | cons s rest ih =>
    have hs := h s (by simp)
    simp only [List.length_cons, List.flatMap_cons, List.append_assoc, List.singleton_append, List.cons_append, List.nil_append]
    unfold strsLen
    simp only []
    rw [takeWhile_nonzero s _ hs]
    have hlt : s.length < (s ++ 0 :: (rest.flatMap (· ++ [0]) ++ post)).length := by
      simp only [List.length_append, List.length_cons]; omega
    rw [if_pos hlt]
    have hd : (s ++ 0 :: (rest.flatMap (· ++ [0]) ++ post)).drop (s.length + 1) = rest.flatMap (· ++ [0]) ++ post := by
      rw [show s ++ 0 :: (rest.flatMap (· ++ [0]) ++ post) = (s ++ [0]) ++ (rest.flatMap (· ++ [0]) ++ post) by simp]
      exact List.drop_left' (by simp)
    rw [hd, ih (fun x hx => h x (List.mem_cons_of_mem _ hx))]
    simp only [Option.map_some, List.length_append, List.length_cons, List.length_nil]
    congr 1; omega

theorem dataLen_data (e : Entry) (ok : DataOK e) (post : Bytes) : dataLen e.typ e.count (e.data ++ post) = some e.data.length := by
  unfold dataLen
  rcases ok with ⟨ht, hl⟩ | ⟨ht, hl⟩ | ⟨ht, hl⟩ | ⟨ht, hc, s, hs, hd⟩ | ⟨ht, ss, hl, hs, hd⟩
  · rw [if_pos ht, hl]
  · rw [if_neg (by rw [ht]; decide), if_pos ht, hl]
  · rw [if_neg (by rw [ht]; decide), if_neg (by rw [ht]; decide), if_pos ht, hl]
  · rw [if_neg (by rw [ht]; decide), if_neg (by rw [ht]; decide), if_neg (by rw [ht]; decide), if_pos ht, if_pos hc]
    have := strsLen_strings [s] post (by simpa using hs)
    simpa [hd] using this
  · rw [if_neg (by rw [ht]; decide), if_neg (by rw [ht]; decide), if_neg (by rw [ht]; decide), if_neg (by rw [ht]; decide), if_pos ht]
    rw [hd, ← hl]
    exact strsLen_strings ss post hs

/-! ### store layout -/

theorem boundary_cases (t : Nat) : boundary t = 1 ∨ boundary t = 2 ∨ boundary t = 4 := by
  unfold boundary; split
  · exact Or.inr (Or.inl rfl)
  · split
    · exact Or.inr (Or.inr rfl)
    · exact Or.inl rfl

theorem aligned (t L : Nat) : (L + padLen t L) % boundary t = 0 := by
  unfold padLen
  rcases boundary_cases t with h | h | h <;> rw [h] <;> omega

/-- every entry's data sits in the store at its recorded, aligned offset; earlier bytes are kept -/
theorem layout_spec (es : List Entry) (st : Bytes) :
    ∃ tail, (layout es st).2 = st ++ tail ∧ (layout es st).1.length = es.length
      ∧ ∀ p ∈ List.zip es (layout es st).1, p.2 % boundary p.1.typ = 0
          ∧ ∃ pre post, (layout es st).2 = pre ++ p.1.data ++ post ∧ pre.length = p.2 := by
  induction es generalizing st with
  | nil => exact ⟨[], by simp [layout], rfl, by simp [layout]⟩
  | cons e rest ih =>
    obtain ⟨tail, h2, hl, hz⟩ := ih (st ++ zeros (padLen e.typ st.length) ++ e.data)
    refine ⟨zeros (padLen e.typ st.length) ++ e.data ++ tail, ?_, ?_, ?_⟩
    · simp only [layout]; rw [h2]; simp [List.append_assoc]
    · simp only [layout, List.length_cons, hl]
    · intro p hp
      simp only [layout, List.zip_cons_cons, List.mem_cons] at hp
      rcases hp with rfl | hp
      · refine ⟨?_, st ++ zeros (padLen e.typ st.length), tail, ?_, rfl⟩
        · simp only [List.length_append, zeros_length]; exact aligned _ _
        · simp only [layout]; rw [h2]
      · simp only [layout]
        exact hz p hp

/-! ### reading entries back -/

structure EntryOK (e : Entry) : Prop where
  data : DataOK e
  tag : e.tag < 4294967296
  typ : e.typ < 4294967296
  count : e.count < 4294967296

theorem readEntry_idx (store : Bytes) (e : Entry) (off : Nat) (ok : EntryOK e) (hoff : off < 4294967296)
    (hal : off % boundary e.typ = 0) (pre post : Bytes) (hs : store = pre ++ e.data ++ post) (hp : pre.length = off) :
    readEntry store (idx e.tag e.typ off e.count) = some e := by
  obtain ⟨h0, h4, h8, h12⟩ := rd_idx e.tag e.typ off e.count [] ok.tag ok.typ hoff ok.count
  simp only [List.append_nil] at h0 h4 h8 h12
  unfold readEntry
  simp only [h0, h4, h8, h12]
  rw [if_neg (by simp [hal])]
  have hd : store.drop off = e.data ++ post := by
    rw [hs, List.append_assoc]; exact List.drop_left' hp
  rw [hd, dataLen_data e ok.data post]
  simp only []
  rw [if_neg (by rw [hs]; simp only [List.length_append]; omega), List.take_left]

theorem readEntries_all (store : Bytes) (ps : List (Entry × Nat)) (rest : Bytes)
    (h : ∀ p ∈ ps, EntryOK p.1 ∧ p.2 < 4294967296 ∧ p.2 % boundary p.1.typ = 0
        ∧ ∃ pre post, store = pre ++ p.1.data ++ post ∧ pre.length = p.2) :
    readEntries store ps.length ((ps.map (fun p => idx p.1.tag p.1.typ p.2 p.1.count)).flatten ++ rest) = some (ps.map (·.1)) := by
  induction ps with
  | nil => simp [readEntries]
  | cons p ps ih =>
    obtain ⟨ok, hoff, hal, pre, post, hs, hp⟩ := h p (by simp)
    simp only [List.length_cons, List.map_cons, List.flatten_cons, List.append_assoc]
    unfold readEntries
    rw [List.take_left' (idx_length ..), List.drop_left' (idx_length ..)]
    rw [readEntry_idx store p.1 p.2 ok hoff hal pre post hs hp, ih (fun q hq => h q (List.mem_cons_of_mem _ hq))]

/-- what the structure can express: well-shaped entries, everything within 32 bits -/
structure HeaderOK (h : Nat) (es : List Entry) : Prop where
  entries : ∀ e ∈ es, EntryOK e
  region : h < 4294967296
  count : es.length + 1 < 268435456
  size : (layout es []).2.length + 16 < 4294967296

theorem zipWith_eq_map_zip (es : List Entry) (offs : List Nat) :
    List.zipWith (fun e o => idx e.tag e.typ o e.count) es offs = (List.zip es offs).map (fun p => idx p.1.tag p.1.typ p.2 p.1.count) := by
  induction es generalizing offs with
  | nil => simp
  | cons e es ih => cases offs with
    | nil => simp
    | cons o os => simp [ih]

theorem zip_map_fst (es : List Entry) (offs : List Nat) (h : offs.length = es.length) : (List.zip es offs).map (·.1) = es := by
  induction es generalizing offs with
  | nil => simp
  | cons e es ih => cases offs with
    | nil => simp at h
    | cons o os => simp at h; simp [ih os h]

/-- **rpm header round trip**: from the bytes of one header structure followed by anything, the independent reader
    recovers the region tag, every entry (tag, type, count, data) in order, and the bytes that follow -/
theorem read_header (h : Nat) (es : List Entry) (rest : Bytes) (ok : HeaderOK h es) :
    read (header h es ++ rest) = some (h, es, rest) := by
  obtain ⟨tail, h2, hl, hz⟩ := layout_spec es []
  simp only [List.nil_append] at h2
  generalize hoffs : (layout es []).1 = offs at hl hz
  generalize hst : (layout es []).2 = st at h2 hz
  have hsize := ok.size
  rw [hst] at hsize
  have hN : es.length + 1 < 4294967296 := by have := ok.count; omega
  let store := st ++ regionData h es.length
  have hstore : store.length = st.length + 16 := by simp [store, regionData]
  let ixs := (List.zip es offs).map (fun p => idx p.1.tag p.1.typ p.2 p.1.count)
  have hixlen : ixs.flatten.length = 16 * es.length := by
    have : ∀ l : List (Entry × Nat), ((l.map (fun p => idx p.1.tag p.1.typ p.2 p.1.count)).flatten).length = 16 * l.length := by
      intro l; induction l with
      | nil => simp
      | cons a l ih => simp only [List.map_cons, List.flatten_cons, List.length_append, idx_length, ih, List.length_cons]; omega
    have hz2 : (List.zip es offs).length = es.length := by simp [List.length_zip, hl]
    rw [this, hz2]
  have hhdr : header h es ++ rest = magic ++ (be32 (es.length + 1) ++ (be32 store.length ++ (idx h tBin (store.length - 16) 16
      ++ (ixs.flatten ++ (store ++ rest))))) := by
    unfold header
    simp only [hoffs, hst, zipWith_eq_map_zip, List.append_assoc, store, ixs]
  rw [hhdr]
  unfold read
  have hm : (magic ++ (be32 (es.length + 1) ++ (be32 store.length ++ (idx h tBin (store.length - 16) 16
      ++ (ixs.flatten ++ (store ++ rest)))))).take 8 = magic := List.take_left' rfl
  rw [if_neg (by rw [hm]; simp)]
  have hn : rd32 (magic ++ (be32 (es.length + 1) ++ (be32 store.length ++ (idx h tBin (store.length - 16) 16
      ++ (ixs.flatten ++ (store ++ rest)))))) 8 = es.length + 1 := by
    have := rd32_at magic (es.length + 1) (be32 store.length ++ (idx h tBin (store.length - 16) 16 ++ (ixs.flatten ++ (store ++ rest)))) 8 rfl hN
    simpa [List.append_assoc] using this
  have hh : rd32 (magic ++ (be32 (es.length + 1) ++ (be32 store.length ++ (idx h tBin (store.length - 16) 16
      ++ (ixs.flatten ++ (store ++ rest)))))) 12 = store.length := by
    have := rd32_at (magic ++ be32 (es.length + 1)) store.length (idx h tBin (store.length - 16) 16 ++ (ixs.flatten ++ (store ++ rest))) 12 rfl
      (by rw [hstore]; omega)
    simpa [List.append_assoc] using this
  simp only [hn, hh]
  have htot : (magic ++ (be32 (es.length + 1) ++ (be32 store.length ++ (idx h tBin (store.length - 16) 16
      ++ (ixs.flatten ++ (store ++ rest)))))).length = 16 + 16 * (es.length + 1) + store.length + rest.length := by
    simp only [List.length_append, be32_length, idx_length, hixlen, magic, List.length_cons, List.length_nil]; omega
  rw [if_neg (by rw [htot, hstore]; omega)]
  -- the slices
  have hdrop16 : (magic ++ (be32 (es.length + 1) ++ (be32 store.length ++ (idx h tBin (store.length - 16) 16
      ++ (ixs.flatten ++ (store ++ rest)))))).drop 16 = idx h tBin (store.length - 16) 16 ++ (ixs.flatten ++ (store ++ rest)) := by
    rw [show magic ++ (be32 (es.length + 1) ++ (be32 store.length ++ (idx h tBin (store.length - 16) 16 ++ (ixs.flatten ++ (store ++ rest)))))
        = (magic ++ be32 (es.length + 1) ++ be32 store.length) ++ (idx h tBin (store.length - 16) 16 ++ (ixs.flatten ++ (store ++ rest))) by
      simp [List.append_assoc]]
    exact List.drop_left' rfl
  have hix : (idx h tBin (store.length - 16) 16 ++ (ixs.flatten ++ (store ++ rest))).take (16 * (es.length + 1))
      = idx h tBin (store.length - 16) 16 ++ ixs.flatten := by
    rw [← List.append_assoc]
    exact List.take_left' (by simp only [List.length_append, idx_length, hixlen]; omega)
  have hdropS : (magic ++ (be32 (es.length + 1) ++ (be32 store.length ++ (idx h tBin (store.length - 16) 16
      ++ (ixs.flatten ++ (store ++ rest)))))).drop (16 + 16 * (es.length + 1)) = store ++ rest := by
    rw [show magic ++ (be32 (es.length + 1) ++ (be32 store.length ++ (idx h tBin (store.length - 16) 16 ++ (ixs.flatten ++ (store ++ rest)))))
        = (magic ++ be32 (es.length + 1) ++ be32 store.length ++ idx h tBin (store.length - 16) 16 ++ ixs.flatten) ++ (store ++ rest) by
      simp [List.append_assoc]]
    exact List.drop_left' (by
      simp only [List.length_append, be32_length, idx_length, hixlen, magic, List.length_cons, List.length_nil]; omega)
  have hstoreTake : (store ++ rest).take store.length = store := List.take_left' rfl
  have hdropAll : (magic ++ (be32 (es.length + 1) ++ (be32 store.length ++ (idx h tBin (store.length - 16) 16
      ++ (ixs.flatten ++ (store ++ rest)))))).drop (16 + 16 * (es.length + 1) + store.length) = rest := by
    rw [← List.drop_drop, hdropS]; exact List.drop_left' rfl
  simp only [hdrop16, hix, hdropS, hstoreTake, hdropAll]
  have hb : (7 : Nat) < 4294967296 := by decide
  obtain ⟨r0, r4, r8, r12⟩ := rd_idx h tBin (store.length - 16) 16 ixs.flatten ok.region (by decide) (by rw [hstore]; omega) (by decide)
  simp only [r0, r4, r8, r12]
  rw [if_neg (by simp)]
  have hreg : store.drop (store.length - 16) = regionData h (es.length + 1 - 1) := by
    have : store.length - 16 = st.length := by rw [hstore]; omega
    rw [this]; exact List.drop_left' rfl
  rw [if_neg (by rw [hreg]; simp)]
  have hst' : store.take (store.length - 16) = st := by
    have : store.length - 16 = st.length := by rw [hstore]; omega
    rw [this]; exact List.take_left' rfl
  have hixdrop : (idx h tBin (store.length - 16) 16 ++ ixs.flatten).drop 16 = ixs.flatten := List.drop_left' (idx_length ..)
  rw [hst', hixdrop]
  have hlenz : (List.zip es offs).length = es.length + 1 - 1 := by simp [List.length_zip, hl]
  have hre := readEntries_all st (List.zip es offs) [] (by
    intro p hp
    obtain ⟨hal, pre, post, hs, hpl⟩ := hz p hp
    have hmem : p.1 ∈ es := (List.of_mem_zip hp).1
    refine ⟨ok.entries p.1 hmem, ?_, hal, pre, post, hs, hpl⟩
    have : pre.length ≤ st.length := by rw [hs]; simp only [List.length_append]; omega
    omega)
  simp only [List.append_nil] at hre
  rw [← hlenz, hre, zip_map_fst es offs hl]

/-! ### the whole file -/

theorem lead_length (nv : Bytes) : (lead nv).length = 96 := by
  simp only [lead, List.length_append, List.length_cons, List.length_nil, zeros_length, List.length_take]
  omega

theorem lead_magic (nv rest : Bytes) : (lead nv ++ rest).take 4 = [0xed, 0xab, 0xee, 0xdb] := by
  simp [lead]

theorem lead_name (nv rest : Bytes) (h0 : (0 : UInt8) ∉ nv) (hl : nv.length ≤ 65) :
    (((lead nv ++ rest).drop 10).take 66).takeWhile (· != 0) = nv := by
  have ht : nv.take 65 = nv := List.take_of_length_le hl
  have h1 : (lead nv ++ rest).drop 10 = (nv ++ zeros (66 - nv.length)) ++ ([0x00, 0x01, 0x00, 0x05] ++ zeros 16 ++ rest) := by
    simp [lead, ht, List.append_assoc]
  rw [h1, List.take_left' (by simp only [List.length_append, zeros_length]; omega)]
  have hz : zeros (66 - nv.length) = 0 :: zeros (65 - nv.length) := by
    have : 66 - nv.length = (65 - nv.length) + 1 := by omega
    rw [this]; rfl
  rw [hz]
  exact takeWhile_nonzero nv _ h0

/-- **rpm file round trip**: lead, both header structures and the payload are recovered, and the reader locates
    the main header exactly where it was written (the region digests and signatures are computed over) -/
theorem readFile_file (nv : Bytes) (sig hdr : List Entry) (payload : Bytes)
    (hs : HeaderOK 62 sig) (hh : HeaderOK 63 hdr) (h0 : (0 : UInt8) ∉ nv) (hl : nv.length ≤ 65) :
    readFile (file nv sig hdr payload)
      = some { leadName := nv, sig := sig, hdr := hdr,
               hdrOff := 96 + (header 62 sig).length + pad8 (header 62 sig).length,
               hdrLen := (header 63 hdr).length, payload := payload } := by
  have hfile : file nv sig hdr payload
      = lead nv ++ (header 62 sig ++ (zeros (pad8 (header 62 sig).length) ++ (header 63 hdr ++ payload))) := by
    simp [file, List.append_assoc]
  rw [hfile]
  unfold readFile
  have hlen : ¬ ((lead nv ++ (header 62 sig ++ (zeros (pad8 (header 62 sig).length) ++ (header 63 hdr ++ payload)))).length < 96
      ∨ (lead nv ++ (header 62 sig ++ (zeros (pad8 (header 62 sig).length) ++ (header 63 hdr ++ payload)))).take 4 ≠ [0xed, 0xab, 0xee, 0xdb]) := by
    rw [lead_magic]
    simp only [List.length_append, lead_length, ne_eq, not_true_eq_false, or_false]; omega
  rw [if_neg hlen]
  have hd : (lead nv ++ (header 62 sig ++ (zeros (pad8 (header 62 sig).length) ++ (header 63 hdr ++ payload)))).drop 96
      = header 62 sig ++ (zeros (pad8 (header 62 sig).length) ++ (header 63 hdr ++ payload)) := List.drop_left' (lead_length nv)
  simp only [hd]
  rw [read_header 62 sig _ hs]
  simp only []
  have hsl : (header 62 sig ++ (zeros (pad8 (header 62 sig).length) ++ (header 63 hdr ++ payload))).length
      - (zeros (pad8 (header 62 sig).length) ++ (header 63 hdr ++ payload)).length = (header 62 sig).length := by
    simp only [List.length_append]; omega
  rw [hsl]
  have htk : (zeros (pad8 (header 62 sig).length) ++ (header 63 hdr ++ payload)).take (pad8 (header 62 sig).length)
      = zeros (pad8 (header 62 sig).length) := List.take_left' (zeros_length _)
  have hdp : (zeros (pad8 (header 62 sig).length) ++ (header 63 hdr ++ payload)).drop (pad8 (header 62 sig).length)
      = header 63 hdr ++ payload := List.drop_left' (zeros_length _)
  rw [if_neg (by rw [htk]; simp only [List.length_append, zeros_length, ne_eq, not_true_eq_false, or_false]; omega)]
  rw [hdp, read_header 63 hdr _ hh]
  simp only []
  rw [lead_name nv _ h0 hl]
  congr 2
  simp only [List.length_append]; omega

end Nfpm.RpmHdr
