import NfpmModel.Contents
/-
  `ltB` (Go's string `<`) is a strict total order on byte strings; `contentLe`
  (Contents.Less) is total and transitive, so `List.mergeSort` sorts by it.
-/
namespace Nfpm
open B

theorem ltB_irrefl (a : Bytes) : ltB a a = false := by
  induction a with
  | nil => rfl
  | cons x xs ih => simp [ltB, ih, UInt8.lt_irrefl]

theorem ltB_asymm (a b : Bytes) : ltB a b = true → ltB b a = false := by
  induction a generalizing b with
  | nil => cases b <;> simp [ltB]
  | cons x xs ih =>
    cases b with
    | nil => simp [ltB]
    | cons y ys =>
      simp only [ltB]
      by_cases h1 : x < y
      · simp [h1, UInt8.lt_asymm h1]
      · by_cases h2 : y < x
        · simp [h1, h2]
        · simp only [h1, h2, if_false]; exact ih ys

theorem ltB_trichotomy (a b : Bytes) : a = b ∨ ltB a b = true ∨ ltB b a = true := by
  induction a generalizing b with
  | nil => cases b <;> simp [ltB]
  | cons x xs ih =>
    cases b with
    | nil => simp [ltB]
    | cons y ys =>
      simp only [ltB]
      by_cases h1 : x < y
      · simp [h1]
      · by_cases h2 : y < x
        · simp [h1, h2]
        · have hxy : x = y := UInt8.le_antisymm (UInt8.not_lt.mp h2) (UInt8.not_lt.mp h1)
          subst hxy
          simp only [h1, if_false]
          rcases ih ys with e | e | e
          · left; rw [e]
          · right; left; exact e
          · right; right; exact e

theorem ltB_trans (a b c : Bytes) : ltB a b = true → ltB b c = true → ltB a c = true := by
  induction a generalizing b c with
  | nil =>
    cases b with
    | nil => simp [ltB]
    | cons y ys => cases c <;> simp [ltB]
  | cons x xs ih =>
    cases b with
    | nil => simp [ltB]
    | cons y ys =>
      cases c with
      | nil => simp [ltB]
      | cons z zs =>
        simp only [ltB]
        by_cases hxy : x < y
        · simp only [hxy, if_true]
          by_cases hyz : y < z
          · intro _ _; simp [UInt8.lt_trans hxy hyz]
          · by_cases hzy : z < y
            · simp [hyz, hzy]
            · have : y = z := UInt8.le_antisymm (UInt8.not_lt.mp hzy) (UInt8.not_lt.mp hyz)
              subst this
              intro _ _; simp [hxy]
        · by_cases hyx : y < x
          · simp [hxy, hyx]
          · have : x = y := UInt8.le_antisymm (UInt8.not_lt.mp hyx) (UInt8.not_lt.mp hxy)
            subst this
            simp only [hxy, if_false]
            by_cases hxz : x < z
            · simp [hxz]
            · by_cases hzx : z < x
              · simp [hxz, hzx]
              · simp only [hxz, hzx, if_false]; exact ih ys zs

theorem ltB_prefix (a b : Bytes) (hb : b ≠ []) : ltB a (a ++ b) = true := by
  induction a with
  | nil => cases b with
    | nil => exact absurd rfl hb
    | cons y ys => rfl
  | cons x xs ih => simp [ltB, UInt8.lt_irrefl, ih]

theorem ltB_ne (a b : Bytes) (h : ltB a b = true) : a ≠ b := by
  intro e; subst e; rw [ltB_irrefl] at h; exact absurd h (by simp)

theorem leB_total (a b : Bytes) : (leB a b || leB b a) = true := by
  unfold leB
  rcases ltB_trichotomy a b with e | e | e
  · subst e; simp [ltB_irrefl]
  · simp [ltB_asymm _ _ e]
  · simp [ltB_asymm _ _ e]

theorem leB_trans (a b c : Bytes) : leB a b = true → leB b c = true → leB a c = true := by
  unfold leB
  intro h1 h2
  simp only [Bool.not_eq_true'] at *
  rcases ltB_trichotomy a b with e | e | e
  · subst e; exact h2
  · rcases ltB_trichotomy b c with e2 | e2 | e2
    · subst e2; exact h1
    · have := ltB_trans a b c e e2
      exact ltB_asymm _ _ this
    · rw [h2] at e2; exact absurd e2 (by simp)
  · rw [h1] at e; exact absurd e (by simp)

/-- key triple compared by Contents.Less -/
def lt3 (a b : Content) : Prop :=
  ltB a.dst b.dst = true ∨ (a.dst = b.dst ∧ (ltB a.type b.type = true ∨ (a.type = b.type ∧ leB a.packager b.packager = true)))

theorem contentLe_iff (a b : Content) : contentLe a b = true ↔ lt3 a b := by
  unfold contentLe lt3
  by_cases hd : a.dst = b.dst
  · by_cases ht : a.type = b.type
    · simp [hd, ht, ltB_irrefl]
    · simp only [hd, ht, ne_eq, not_true_eq_false, not_false_eq_true, if_true, if_false, ltB_irrefl]
      simp
  · simp only [hd, ne_eq, not_false_eq_true, if_true]
    simp

theorem contentLe_total (a b : Content) : (contentLe a b || contentLe b a) = true := by
  rw [Bool.or_eq_true, contentLe_iff, contentLe_iff]
  unfold lt3
  rcases ltB_trichotomy a.dst b.dst with e | e | e
  · rcases ltB_trichotomy a.type b.type with t | t | t
    · have := leB_total a.packager b.packager
      rw [Bool.or_eq_true] at this
      rcases this with h | h
      · left; right; exact ⟨e, Or.inr ⟨t, h⟩⟩
      · right; right; exact ⟨e.symm, Or.inr ⟨t.symm, h⟩⟩
    · left; right; exact ⟨e, Or.inl t⟩
    · right; right; exact ⟨e.symm, Or.inl t⟩
  · left; left; exact e
  · right; left; exact e

theorem contentLe_trans (a b c : Content) : contentLe a b = true → contentLe b c = true → contentLe a c = true := by
  rw [contentLe_iff, contentLe_iff, contentLe_iff]
  unfold lt3
  intro h1 h2
  rcases h1 with h1 | ⟨e1, h1⟩
  · rcases h2 with h2 | ⟨e2, _⟩
    · left; exact ltB_trans _ _ _ h1 h2
    · left; rw [← e2]; exact h1
  · rcases h2 with h2 | ⟨e2, h2⟩
    · left; rw [e1]; exact h2
    · right
      refine ⟨e1.trans e2, ?_⟩
      rcases h1 with h1 | ⟨t1, h1⟩
      · rcases h2 with h2 | ⟨t2, _⟩
        · left; exact ltB_trans _ _ _ h1 h2
        · left; rw [← t2]; exact h1
      · rcases h2 with h2 | ⟨t2, h2⟩
        · left; rw [t1]; exact h2
        · right; exact ⟨t1.trans t2, leB_trans _ _ _ h1 h2⟩

end Nfpm
