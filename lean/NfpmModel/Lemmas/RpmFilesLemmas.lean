import NfpmModel.RpmFiles
import NfpmModel.Lemmas.RpmHdrLemmas
/-
  The file list of an rpm header reads back: names are re-joined from DIRNAMES / DIRINDEXES / BASENAMES, every column
  decodes to what was written, the entries are well formed for the header writer, and the payload lists the non-ghost
  files in the same order.
-/
set_option linter.unusedSimpArgs false
set_option linter.unusedVariables false
namespace Nfpm.RpmFiles
open Nfpm B RpmHdr

/-! ### path.Split -/

theorem dir_base (n : Bytes) : dirOf n ++ baseOf n = n := by
  unfold baseOf dirOf Path.uptoLastSlash
  have h := List.takeWhile_append_dropWhile (p := (· != slash)) (l := n.reverse)
  generalize hd : n.reverse.dropWhile (· != slash) = d at h ⊢
  generalize ht : n.reverse.takeWhile (· != slash) = t at h
  have hn : n = d.reverse ++ t.reverse := by
    have := congrArg List.reverse h
    simp only [List.reverse_append, List.reverse_reverse] at this
    exact this.symm
  subst hn
  rw [List.drop_left' rfl]

/-! ### the directory index -/

theorem dirGet_mem (D : List Bytes) (d : Bytes) : d ∈ dirGet D d := by
  unfold dirGet; split
  · assumption
  · simp

theorem dirGet_prefix (D : List Bytes) (d : Bytes) : D <+: dirGet D d := by
  unfold dirGet; split
  · exact List.prefix_refl _
  · exact List.prefix_append _ _

theorem dirCols_prefix (D : List Bytes) (ds : List Bytes) : D <+: (dirCols D ds).1 := by
  induction ds generalizing D with
  | nil => exact List.prefix_refl _
  | cons d rest ih => exact List.IsPrefix.trans (dirGet_prefix D d) (ih (dirGet D d))

theorem getElem?_of_prefix {D E : List Bytes} (h : D <+: E) {i : Nat} (hi : i < D.length) : E[i]? = D[i]? := by
  obtain ⟨t, rfl⟩ := h
  exact List.getElem?_append_left hi

theorem dirCols_length (D : List Bytes) (ds : List Bytes) : (dirCols D ds).2.length = ds.length := by
  induction ds generalizing D with
  | nil => rfl
  | cons d rest ih => simp only [dirCols, List.length_cons, ih]

/-- every index names the directory it was made for -/
theorem dirCols_lookup (D : List Bytes) (ds : List Bytes) :
    (dirCols D ds).2.map (fun i => (dirCols D ds).1[i]?) = ds.map some := by
  induction ds generalizing D with
  | nil => rfl
  | cons d rest ih =>
    simp only [dirCols, List.map_cons]
    have hlt : (dirGet D d).idxOf d < (dirGet D d).length := List.idxOf_lt_length_of_mem (dirGet_mem D d)
    have hget : (dirGet D d)[(dirGet D d).idxOf d]? = some d := by
      rw [List.getElem?_eq_getElem hlt, List.getElem_idxOf hlt]
    rw [getElem?_of_prefix (dirCols_prefix (dirGet D d) rest) hlt, hget, ih (dirGet D d)]

theorem dirCols_bound (D : List Bytes) (ds : List Bytes) : ∀ i ∈ (dirCols D ds).2, i < D.length + ds.length := by
  induction ds generalizing D with
  | nil => intro i hi; simp [dirCols] at hi
  | cons d rest ih =>
    intro i hi
    simp only [dirCols, List.mem_cons] at hi
    have hlen : (dirGet D d).length ≤ D.length + 1 := by unfold dirGet; split <;> simp
    rcases hi with rfl | hi
    · have := List.idxOf_lt_length_of_mem (dirGet_mem D d)
      simp only [List.length_cons]; omega
    · have := ih (dirGet D d) i hi
      simp only [List.length_cons]; omega

theorem dirGet_nodup (D : List Bytes) (d : Bytes) (h : D.Nodup) : (dirGet D d).Nodup := by
  unfold dirGet; split
  · exact h
  · rename_i hn
    rw [List.nodup_append]
    refine ⟨h, by simp, ?_⟩
    intro a ha b hb
    simp only [List.mem_singleton] at hb
    subst hb
    exact fun e => hn (e ▸ ha)

theorem dirCols_nodup (D : List Bytes) (ds : List Bytes) (h : D.Nodup) : (dirCols D ds).1.Nodup := by
  induction ds generalizing D with
  | nil => exact h
  | cons d rest ih => exact ih (dirGet D d) (dirGet_nodup D d h)

/-- every directory listed is the directory of one of the files -/
theorem dirCols_mem (D : List Bytes) (ds : List Bytes) : ∀ x ∈ (dirCols D ds).1, x ∈ D ∨ x ∈ ds := by
  induction ds generalizing D with
  | nil => intro x hx; exact Or.inl hx
  | cons d rest ih =>
    intro x hx
    rcases ih (dirGet D d) x hx with h | h
    · unfold dirGet at h
      split at h
      · exact Or.inl h
      · rcases List.mem_append.mp h with h | h
        · exact Or.inl h
        · simp only [List.mem_singleton] at h; exact Or.inr (by simp [h])
    · exact Or.inr (List.mem_cons_of_mem _ h)

theorem joinNames_of_lookup (D : List Bytes) (is : List Nat) (ds bs : List Bytes)
    (hl : is.map (fun i => D[i]?) = ds.map some) (hb : bs.length = ds.length) :
    joinNames D is bs = some (List.zipWith (· ++ ·) ds bs) := by
  induction is generalizing ds bs with
  | nil =>
    cases ds with
    | nil => cases bs with
      | nil => rfl
      | cons _ _ => simp at hb
    | cons _ _ => simp at hl
  | cons i is ih =>
    cases ds with
    | nil => simp at hl
    | cons d ds =>
      cases bs with
      | nil => simp at hb
      | cons b bs =>
        simp only [List.map_cons, List.cons.injEq] at hl
        simp only [joinNames, hl.1, ih ds bs hl.2 (by simpa using hb), List.zipWith_cons_cons]

/-- **names**: DIRNAMES[DIRINDEXES[i]] ++ BASENAMES[i] is the i-th file's name -/
theorem joinNames_files (fs : List RFile) :
    joinNames (dirnames fs) (dirindexes fs) (fs.map (fun f => baseOf f.name)) = some (fs.map (·.name)) := by
  unfold dirnames dirindexes
  rw [joinNames_of_lookup _ _ (fs.map (fun f => dirOf f.name)) _ (dirCols_lookup [] _) (by simp)]
  congr 1
  induction fs with
  | nil => rfl
  | cons f rest ih => simp only [List.map_cons, List.zipWith_cons_cons, ih, dir_base]

theorem dirnames_nodup (fs : List RFile) : (dirnames fs).Nodup := dirCols_nodup [] _ List.nodup_nil

theorem dirindexes_length (fs : List RFile) : (dirindexes fs).length = fs.length := by
  unfold dirindexes; rw [dirCols_length]; simp

/-! ### column encodings -/

theorem decStrs_enc (ss : List Bytes) (post : Bytes) (h : ∀ s ∈ ss, (0 : UInt8) ∉ s) :
    decStrs ss.length (ss.flatMap (· ++ [0]) ++ post) = ss := by
  induction ss with
  | nil => rfl
  | cons s rest ih =>
    have hs := h s (by simp)
    simp only [List.length_cons, List.flatMap_cons, List.append_assoc, List.singleton_append, List.cons_append, List.nil_append]
    unfold decStrs
    simp only []
    rw [takeWhile_nonzero s _ hs]
    have hd : (s ++ 0 :: (rest.flatMap (· ++ [0]) ++ post)).drop (s.length + 1) = rest.flatMap (· ++ [0]) ++ post := by
      rw [show s ++ 0 :: (rest.flatMap (· ++ [0]) ++ post) = (s ++ [0]) ++ (rest.flatMap (· ++ [0]) ++ post) by simp]
      exact List.drop_left' (by simp)
    rw [hd, ih (fun x hx => h x (List.mem_cons_of_mem _ hx))]

theorem decU32s_enc (l : List Nat) (h : ∀ n ∈ l, n < 4294967296) : decU32s l.length (l.flatMap be32) = l := by
  induction l with
  | nil => rfl
  | cons n rest ih =>
    simp only [List.length_cons, List.flatMap_cons]
    unfold decU32s
    rw [List.take_left' (be32_length n), List.drop_left' (be32_length n), beVal_be32 n (h n (by simp)),
      ih (fun x hx => h x (List.mem_cons_of_mem _ hx))]

@[simp] theorem be16_length (n : Nat) : (be16 n).length = 2 := rfl

theorem beVal_be16 (n : Nat) (h : n < 65536) : beVal (be16 n) = n := by
  simp only [be16, beVal, List.foldl_cons, List.foldl_nil, byte_toNat]
  omega

theorem decU16s_enc (l : List Nat) (h : ∀ n ∈ l, n < 65536) : decU16s l.length (l.flatMap be16) = l := by
  induction l with
  | nil => rfl
  | cons n rest ih =>
    simp only [List.length_cons, List.flatMap_cons]
    unfold decU16s
    rw [List.take_left' (be16_length n), List.drop_left' (be16_length n), beVal_be16 n (h n (by simp)),
      ih (fun x hx => h x (List.mem_cons_of_mem _ hx))]

theorem flatMap_be32_length (l : List Nat) : (l.flatMap be32).length = 4 * l.length := by
  induction l with
  | nil => rfl
  | cons n rest ih => simp only [List.flatMap_cons, List.length_append, be32_length, ih, List.length_cons]; omega

theorem flatMap_be16_length (l : List Nat) : (l.flatMap be16).length = 2 * l.length := by
  induction l with
  | nil => rfl
  | cons n rest ih => simp only [List.flatMap_cons, List.length_append, be16_length, ih, List.length_cons]; omega

theorem entStrs_ok (tag : Nat) (l : List Bytes) (ht : tag < 4294967296) (hl : l.length < 4294967296)
    (h : ∀ s ∈ l, (0 : UInt8) ∉ s) : EntryOK (entStrs tag l) :=
  { data := Or.inr (Or.inr (Or.inr (Or.inr ⟨rfl, l, rfl, h, rfl⟩))), tag := ht, typ := (by show tStringArray < 4294967296; decide), count := hl }

theorem entU32s_ok (tag : Nat) (l : List Nat) (ht : tag < 4294967296) (hl : l.length < 4294967296) : EntryOK (entU32s tag l) :=
  { data := Or.inr (Or.inl ⟨rfl, flatMap_be32_length l⟩), tag := ht, typ := (by show tInt32 < 4294967296; decide), count := hl }

theorem entU16s_ok (tag : Nat) (l : List Nat) (ht : tag < 4294967296) (hl : l.length < 4294967296) : EntryOK (entU16s tag l) :=
  { data := Or.inl ⟨rfl, flatMap_be16_length l⟩, tag := ht, typ := (by show tInt16 < 4294967296; decide), count := hl }

/-! ### the reader -/

/-- what the header writer and the column decoders need of the files -/
structure FilesOK (fs : List RFile) : Prop where
  count : fs.length < 4294967296
  name : ∀ f ∈ fs, (0 : UInt8) ∉ f.name
  owner : ∀ f ∈ fs, (0 : UInt8) ∉ f.owner
  group : ∀ f ∈ fs, (0 : UInt8) ∉ f.group
  digest : ∀ f ∈ fs, (0 : UInt8) ∉ digestCol f
  link : ∀ f ∈ fs, (0 : UInt8) ∉ linkCol f
  mtime : ∀ f ∈ fs, f.mtime < 4294967296
  flags : ∀ f ∈ fs, f.flags < 4294967296

theorem sizeCol_lt (f : RFile) : sizeCol f < 4294967296 := by
  unfold sizeCol; split
  · decide
  · exact Nat.mod_lt _ (by decide)

theorem strsOf_ent (t : Nat) (l : List Bytes) (hdr : List Entry) (h : lookupTag t hdr = some (entStrs t l))
    (hz : ∀ s ∈ l, (0 : UInt8) ∉ s) : strsOf t hdr = some l := by
  unfold strsOf
  rw [h]
  have := decStrs_enc l [] hz
  rw [List.append_nil] at this
  simp only [entStrs, if_true, this]

theorem u32sOf_ent (t : Nat) (l : List Nat) (hdr : List Entry) (h : lookupTag t hdr = some (entU32s t l))
    (hb : ∀ n ∈ l, n < 4294967296) : u32sOf t hdr = some l := by
  unfold u32sOf
  rw [h]
  simp only [entU32s, if_true]
  rw [decU32s_enc l hb]

theorem u16sOf_ent (t : Nat) (l : List Nat) (hdr : List Entry) (h : lookupTag t hdr = some (entU16s t l))
    (hb : ∀ n ∈ l, n < 65536) : u16sOf t hdr = some l := by
  unfold u16sOf
  rw [h]
  simp only [entU16s, if_true]
  rw [decU16s_enc l hb]

theorem zipRows_map (fs : List RFile) :
    zipRows (fs.map (·.name)) (fs.map sizeCol) (fs.map (fun f => effMode f % 65536)) (fs.map (·.mtime)) (fs.map digestCol)
      (fs.map linkCol) (fs.map (·.flags)) (fs.map (·.owner)) (fs.map (·.group)) = some (fs.map rowOf) := by
  induction fs with
  | nil => rfl
  | cons f rest ih => simp only [List.map_cons, zipRows, ih, Option.map_some, rowOf]

theorem baseOf_no_nul (n : Bytes) (h : (0 : UInt8) ∉ n) : (0 : UInt8) ∉ baseOf n := by
  intro hm
  apply h
  rw [← dir_base n]
  exact List.mem_append_right _ hm

theorem dirOf_no_nul (n : Bytes) (h : (0 : UInt8) ∉ n) : (0 : UInt8) ∉ dirOf n := by
  intro hm
  apply h
  rw [← dir_base n]
  exact List.mem_append_left _ hm

theorem dirnames_no_nul (fs : List RFile) (h : ∀ f ∈ fs, (0 : UInt8) ∉ f.name) : ∀ d ∈ dirnames fs, (0 : UInt8) ∉ d := by
  intro d hd
  unfold dirnames at hd
  rcases dirCols_mem [] _ d hd with h0 | h0
  · simp at h0
  · obtain ⟨f, hf, rfl⟩ := List.mem_map.mp h0
    exact dirOf_no_nul _ (h f hf)

theorem dirnames_length_le (fs : List RFile) : (dirnames fs).length ≤ fs.length := by
  have hn := dirnames_nodup fs
  have : ∀ D ds, (dirCols D ds).1.length ≤ D.length + ds.length := by
    intro D ds
    induction ds generalizing D with
    | nil => simp [dirCols]
    | cons d rest ih =>
      have := ih (dirGet D d)
      have hlen : (dirGet D d).length ≤ D.length + 1 := by unfold dirGet; split <;> simp
      simp only [dirCols, List.length_cons]; omega
  have := this [] (fs.map (fun f => dirOf f.name))
  simpa [dirnames] using this

/-- **the file list reads back** from any header in which the sixteen file entries can be looked up by tag -/
theorem readFiles_of_lookup (fs : List RFile) (hdr : List Entry) (ok : FilesOK fs)
    (h : ∀ e ∈ fileEntries fs, lookupTag e.tag hdr = some e) : readFiles hdr = some (fs.map rowOf) := by
  have e1 : lookupTag tDirNames hdr = some (entStrs tDirNames (dirnames fs)) :=
    h (entStrs tDirNames (dirnames fs)) (by simp [fileEntries])
  have e2 : lookupTag tDirIndexes hdr = some (entU32s tDirIndexes (dirindexes fs)) :=
    h (entU32s tDirIndexes (dirindexes fs)) (by simp [fileEntries])
  have e3 : lookupTag tBaseNames hdr = some (entStrs tBaseNames (fs.map (fun f : RFile => baseOf f.name))) :=
    h (entStrs tBaseNames (fs.map (fun f : RFile => baseOf f.name))) (by simp [fileEntries])
  have e4 : lookupTag tSizes hdr = some (entU32s tSizes (fs.map sizeCol)) :=
    h (entU32s tSizes (fs.map sizeCol)) (by simp [fileEntries])
  have e5 : lookupTag tModes hdr = some (entU16s tModes (fs.map (fun f : RFile => effMode f % 65536))) :=
    h (entU16s tModes (fs.map (fun f : RFile => effMode f % 65536))) (by simp [fileEntries])
  have e6 : lookupTag tMTimes hdr = some (entU32s tMTimes (fs.map (fun f : RFile => f.mtime))) :=
    h (entU32s tMTimes (fs.map (fun f : RFile => f.mtime))) (by simp [fileEntries])
  have e7 : lookupTag tDigests hdr = some (entStrs tDigests (fs.map digestCol)) :=
    h (entStrs tDigests (fs.map digestCol)) (by simp [fileEntries])
  have e8 : lookupTag tLinkTos hdr = some (entStrs tLinkTos (fs.map linkCol)) :=
    h (entStrs tLinkTos (fs.map linkCol)) (by simp [fileEntries])
  have e9 : lookupTag tFlags hdr = some (entU32s tFlags (fs.map (fun f : RFile => f.flags))) :=
    h (entU32s tFlags (fs.map (fun f : RFile => f.flags))) (by simp [fileEntries])
  have e10 : lookupTag tUsers hdr = some (entStrs tUsers (fs.map (fun f : RFile => f.owner))) :=
    h (entStrs tUsers (fs.map (fun f : RFile => f.owner))) (by simp [fileEntries])
  have e11 : lookupTag tGroups hdr = some (entStrs tGroups (fs.map (fun f : RFile => f.group))) :=
    h (entStrs tGroups (fs.map (fun f : RFile => f.group))) (by simp [fileEntries])
  unfold readFiles
  have hD := strsOf_ent tDirNames _ hdr e1 (dirnames_no_nul fs ok.name)
  have hI := u32sOf_ent tDirIndexes _ hdr e2 (by
    intro n hn
    have := dirCols_bound [] (fs.map (fun f : RFile => dirOf f.name)) n hn
    have hc := ok.count
    simp only [List.length_nil, List.length_map] at this
    omega)
  have hB := strsOf_ent tBaseNames _ hdr e3 (by
    intro s hs
    obtain ⟨f, hf, rfl⟩ := List.mem_map.mp hs
    exact baseOf_no_nul _ (ok.name f hf))
  have hS := u32sOf_ent tSizes _ hdr e4 (by
    intro n hn
    obtain ⟨f, hf, rfl⟩ := List.mem_map.mp hn
    exact sizeCol_lt f)
  have hM := u16sOf_ent tModes _ hdr e5 (by
    intro n hn
    obtain ⟨f, hf, rfl⟩ := List.mem_map.mp hn
    exact Nat.mod_lt _ (by decide))
  have hT := u32sOf_ent tMTimes _ hdr e6 (by
    intro n hn
    obtain ⟨f, hf, rfl⟩ := List.mem_map.mp hn
    exact ok.mtime f hf)
  have hG := strsOf_ent tDigests _ hdr e7 (by
    intro s hs
    obtain ⟨f, hf, rfl⟩ := List.mem_map.mp hs
    exact ok.digest f hf)
  have hL := strsOf_ent tLinkTos _ hdr e8 (by
    intro s hs
    obtain ⟨f, hf, rfl⟩ := List.mem_map.mp hs
    exact ok.link f hf)
  have hF := u32sOf_ent tFlags _ hdr e9 (by
    intro n hn
    obtain ⟨f, hf, rfl⟩ := List.mem_map.mp hn
    exact ok.flags f hf)
  have hU := strsOf_ent tUsers _ hdr e10 (by
    intro s hs
    obtain ⟨f, hf, rfl⟩ := List.mem_map.mp hs
    exact ok.owner f hf)
  have hR := strsOf_ent tGroups _ hdr e11 (by
    intro s hs
    obtain ⟨f, hf, rfl⟩ := List.mem_map.mp hs
    exact ok.group f hf)
  simp only [hD, hI, hB, hS, hM, hT, hG, hL, hF, hU, hR, joinNames_files, Option.bind_eq_bind, Option.bind_some, bind,
    zipRows_map]

/-- the sixteen entries look themselves up in their own list (the tags are distinct) -/
theorem lookup_fileEntries_self (fs : List RFile) : ∀ e ∈ fileEntries fs, lookupTag e.tag (fileEntries fs) = some e := by
  intro e he
  simp only [fileEntries, List.mem_cons, List.mem_nil_iff, or_false] at he
  rcases he with rfl | rfl | rfl | rfl | rfl | rfl | rfl | rfl | rfl | rfl | rfl | rfl | rfl | rfl | rfl | rfl <;> rfl

/-- **the entries are well formed** for the header writer (`RpmHdr.read_header` applies to a header that holds them) -/
theorem fileEntries_ok (fs : List RFile) (ok : FilesOK fs) : ∀ e ∈ fileEntries fs, EntryOK e := by
  intro e he
  have hc := ok.count
  have hdl : (dirnames fs).length < 4294967296 := Nat.lt_of_le_of_lt (dirnames_length_le fs) hc
  simp only [fileEntries, List.mem_cons, List.mem_nil_iff, or_false] at he
  rcases he with rfl | rfl | rfl | rfl | rfl | rfl | rfl | rfl | rfl | rfl | rfl | rfl | rfl | rfl | rfl | rfl
  · exact entU32s_ok _ _ (by decide) (by simpa using hc)
  · exact entU16s_ok _ _ (by decide) (by simpa using hc)
  · exact entU16s_ok _ _ (by decide) (by simpa using hc)
  · exact entU32s_ok _ _ (by decide) (by simpa using hc)
  · exact entStrs_ok _ _ (by decide) (by simpa using hc) (by
      intro s hs; obtain ⟨f, hf, rfl⟩ := List.mem_map.mp hs; exact ok.digest f hf)
  · exact entStrs_ok _ _ (by decide) (by simpa using hc) (by
      intro s hs; obtain ⟨f, hf, rfl⟩ := List.mem_map.mp hs; exact ok.link f hf)
  · exact entU32s_ok _ _ (by decide) (by simpa using hc)
  · exact entStrs_ok _ _ (by decide) (by simpa using hc) (by
      intro s hs; obtain ⟨f, hf, rfl⟩ := List.mem_map.mp hs; exact ok.owner f hf)
  · exact entStrs_ok _ _ (by decide) (by simpa using hc) (by
      intro s hs; obtain ⟨f, hf, rfl⟩ := List.mem_map.mp hs; exact ok.group f hf)
  · exact entU32s_ok _ _ (by decide) (by simpa using hc)
  · exact entU32s_ok _ _ (by decide) (by simpa using hc)
  · exact entStrs_ok _ _ (by decide) (by simpa using hc) (by
      intro s hs; rw [List.eq_of_mem_replicate hs]; simp)
  · exact entU32s_ok _ _ (by decide) (by rw [dirindexes_length]; exact hc)
  · exact entStrs_ok _ _ (by decide) (by simpa using hc) (by
      intro s hs; obtain ⟨f, hf, rfl⟩ := List.mem_map.mp hs; exact baseOf_no_nul _ (ok.name f hf))
  · exact entStrs_ok _ _ (by decide) hdl (dirnames_no_nul fs ok.name)
  · exact entU32s_ok _ _ (by decide) (by simpa using hc)

/-! ### the payload side -/

/-- the cpio entries are the files that are not ghosts, in the order of the file list, under their full names -/
theorem payload_names (ps : List (RFile × Bytes)) :
    (payload ps).map (·.name) = ((ps.map (·.1)).filter (fun f => !isGhost f)).map (·.name) := by
  induction ps with
  | nil => rfl
  | cons p rest ih =>
    unfold payload at ih ⊢
    cases hg : isGhost p.1 <;> simp [hg, ih]

theorem payload_bodies (ps : List (RFile × Bytes)) :
    (payload ps).map (·.body) = (ps.filter (fun p => !isGhost p.1)).map (·.2) := by
  induction ps with
  | nil => rfl
  | cons p rest ih =>
    unfold payload at ih ⊢
    cases hg : isGhost p.1 <;> simp [hg, ih]

/-- a file that is not classified as a directory is listed with the length of the body its cpio entry carries (modulo
    2^32, the width of FILESIZES), a regular file with the digest of that body, a symbolic link with that body as target -/
theorem row_of_body (hex256 : Bytes → Bytes) (f : RFile) (body : Bytes) :
    (kindOf f.mode ≠ .dir → (rowOf (ofBody hex256 f body)).size = body.length % 4294967296)
    ∧ (kindOf f.mode = .reg → (rowOf (ofBody hex256 f body)).digest = hex256 body)
    ∧ (kindOf f.mode = .link → (rowOf (ofBody hex256 f body)).linkto = body ∧ (rowOf (ofBody hex256 f body)).digest = [])
    ∧ (kindOf f.mode = .dir → (rowOf (ofBody hex256 f body)).size = 4096 ∧ (rowOf (ofBody hex256 f body)).digest = []
          ∧ (rowOf (ofBody hex256 f body)).linkto = [])
    ∧ (rowOf (ofBody hex256 f body)).name = f.name ∧ (rowOf (ofBody hex256 f body)).flags = f.flags := by
  simp only [rowOf, ofBody, sizeCol, digestCol, linkCol]
  cases hk : kindOf f.mode <;> simp

end Nfpm.RpmFiles
