import NfpmModel.Package
import NfpmModel.Lemmas.ArLemmas
import NfpmModel.Lemmas.TarLemmas
import NfpmModel.Lemmas.PaxLemmas
import NfpmModel.Lemmas.CpioLemmas
import NfpmModel.Lemmas.RpmHdrLemmas
/-
  Whole-package round trips: the readers of Package.lean take apart what the writers assembled, for every
  compressor that has a decompressor.
-/
set_option linter.unusedSimpArgs false
set_option linter.unusedVariables false
namespace Nfpm.Pkg
open Nfpm B

/-- a compressor with a decompressor -/
def Inverts (u : Bytes → Option Bytes) (z : Bytes → Bytes) : Prop := ∀ x, u (z x) = some x

theorem debianBinary_ok : Ar.MemberOK debianBinary := ⟨by decide, by decide, by decide⟩

/-- **deb round trip** -/
theorem readDeb_debFile (mtime : Int) (zc zd : Bytes → Bytes) (uc ud : Bytes → Option Bytes)
    (hc : Inverts uc zc) (hd : Inverts ud zd)
    (dataName : Bytes) (control data : List Tar.Member) (sig : Option Ar.Member)
    (hcm : ∀ m ∈ control, Tar.MemberOK m) (hdm : ∀ m ∈ data, Tar.MemberOK m)
    (hcs : (zc (Tar.archive control)).length < 10 ^ 10)
    (hds : Ar.MemberOK { name := dataName, body := zd (Tar.archive data) })
    (hsig : ∀ s ∈ sig, Ar.MemberOK s) :
    readDeb uc ud (debFile mtime zc zd dataName control data sig)
      = some { control := control, dataName := dataName, data := data, sig := sig } := by
  unfold readDeb debFile
  have hall : ∀ m ∈ ([debianBinary, { name := b!"control.tar.gz", body := zc (Tar.archive control) },
      { name := dataName, body := zd (Tar.archive data) }] ++ sig.toList : List Ar.Member), Ar.MemberOK m := by
    intro m hm
    simp only [List.mem_append, List.mem_cons, List.mem_nil_iff, or_false, Option.mem_toList] at hm
    rcases hm with (rfl | rfl | rfl) | hm
    · exact debianBinary_ok
    · exact ⟨by show (b!"control.tar.gz" : Bytes).length ≤ 16; decide, by show (b!"control.tar.gz" : Bytes).getLast? ≠ some space; decide, hcs⟩
    · exact hds
    · exact hsig m hm
  rw [Ar.read_file mtime _ hall]
  simp only [List.cons_append, List.nil_append]
  have hlen : ¬ (debianBinary ≠ debianBinary ∨ (b!"control.tar.gz" : Bytes) ≠ b!"control.tar.gz" ∨ sig.toList.length > 1) := by
    cases sig <;> simp
  rw [if_neg hlen]
  simp only [hc _, hd _, Tar.read_archive _ hcm, Tar.read_archive _ hdm]
  cases sig <;> rfl

/-- the three members of the ipk outer tar are expressible whenever the compressed inner tars fit the size field -/
theorem ipkOuter_ok (mtime : Nat) (z : Bytes → Bytes) (control data : List Tar.Member) (hm : mtime < 8 ^ 11)
    (hcs : (z (Tar.archive control)).length < 8 ^ 11) (hds : (z (Tar.archive data)).length < 8 ^ 11) :
    ∀ m ∈ ipkOuter mtime z control data, Tar.MemberOK m := by
  intro m hmem
  have hb : ∀ (name body : Bytes), name.length ≤ 100 → (0 : UInt8) ∉ name → body.length < 8 ^ 11 →
      Tar.MemberOK { hdr := { name := name, mode := 0o644, size := body.length, mtime := mtime }, body := body } := by
    intro name body hl h0 hs
    exact { hdr := { nameLen := hl, nameNul := h0, linkLen := by simp, linkNul := by simp, unameLen := by simp, unameNul := by simp,
                     gnameLen := by simp, gnameNul := by simp, prefixLen := by simp, prefixNul := by simp,
                     mode := by show 0o644 < Tar.numBound .gnu 8; decide, uid := by show 0 < Tar.numBound .gnu 8; decide,
                     gid := by show 0 < Tar.numBound .gnu 8; decide,
                     size := by
                       show body.length < Tar.numBound .gnu 12
                       have : (8 : Nat) ^ 11 ≤ Tar.numBound .gnu 12 := by decide
                       omega,
                     mtime := by
                       show mtime < Tar.numBound .gnu 12
                       have : (8 : Nat) ^ 11 ≤ Tar.numBound .gnu 12 := by decide
                       omega },
            size := rfl }
  simp only [ipkOuter, List.mem_cons, List.mem_nil_iff, or_false] at hmem
  rcases hmem with rfl | rfl | rfl
  · exact hb (b!"./debian-binary") (b!"2.0" ++ [10]) (by decide) (by decide) (by decide)
  · exact hb (b!"./control.tar.gz") _ (by decide) (by decide) hcs
  · exact hb (b!"./data.tar.gz") _ (by decide) (by decide) hds

/-- **ipk round trip** -/
theorem readIpk_ipkFile (mtime : Nat) (z : Bytes → Bytes) (u : Bytes → Option Bytes) (hz : Inverts u z)
    (control data : List Tar.Member) (hm : mtime < 8 ^ 11)
    (hcm : ∀ m ∈ control, Tar.MemberOK m) (hdm : ∀ m ∈ data, Tar.MemberOK m)
    (hcs : (z (Tar.archive control)).length < 8 ^ 11) (hds : (z (Tar.archive data)).length < 8 ^ 11) :
    readIpk u (ipkFile mtime z control data) = some (control, data) := by
  unfold readIpk ipkFile
  rw [hz]
  simp only []
  rw [Tar.read_archive _ (ipkOuter_ok mtime z control data hm hcs hds)]
  simp only [ipkOuter]
  rw [if_neg (by simp)]
  simp only [hz _, Tar.read_archive _ hcm, Tar.read_archive _ hdm]

/-- **archlinux round trip** (the conditions on the members are those of `pax_roundtrip`) -/
theorem readArch_archFile (z : Bytes → Bytes) (u : Bytes → Option Bytes) (hz : Inverts u z) (ms : List Tar.PMember)
    (hr : Tar.paxRead (Tar.paxArchive ms) = some ms) : readArch u (archFile z ms) = some ms := by
  unfold readArch archFile
  rw [hz]; exact hr

/-- **apk**: the concatenation of the decompressed segments is one tar stream that reads back as the members of
    the signature (if any), control and data segments, in that order -/
theorem apkStream_reads (sig : Option (List Tar.PMember)) (control data : List Tar.PMember)
    (hraw : ∀ r ∈ ((sig.getD []) ++ control ++ data).flatMap Tar.expand, Tar.MemberOK r)
    (hlog : ∀ m ∈ (sig.getD []) ++ control ++ data, Tar.PMemberOK m) :
    Tar.paxRead (apkStream sig control data) = some ((sig.getD []) ++ control ++ data) := by
  have hs : apkStream sig control data = Tar.paxArchive ((sig.getD []) ++ control ++ data) := by
    unfold apkStream Tar.paxArchive Tar.archive cut
    cases sig <;> simp [List.flatMap_append, List.append_assoc]
  rw [hs]
  unfold Tar.paxRead Tar.paxArchive
  rw [Tar.read_archive _ hraw]
  exact Tar.collapse_expand _ hlog

/-- with a reader of multi-member gzip streams that yields the concatenation of the members' contents -/
theorem apkFile_reads (z : Bytes → Bytes) (uAll : Bytes → Option Bytes)
    (sig : Option (List Tar.PMember)) (control data : List Tar.PMember)
    (hu : uAll (apkFile z sig control data) = some (apkStream sig control data))
    (hraw : ∀ r ∈ ((sig.getD []) ++ control ++ data).flatMap Tar.expand, Tar.MemberOK r)
    (hlog : ∀ m ∈ (sig.getD []) ++ control ++ data, Tar.PMemberOK m) :
    (uAll (apkFile z sig control data)).bind Tar.paxRead = some ((sig.getD []) ++ control ++ data) := by
  rw [hu]; exact apkStream_reads sig control data hraw hlog

/-- **rpm round trip** -/
theorem readRpm_rpmFile (nv : Bytes) (z : Bytes → Bytes) (u : Bytes → Option Bytes) (hz : Inverts u z)
    (sig hdr : List RpmHdr.Entry) (payload : List Cpio.Entry)
    (hs : RpmHdr.HeaderOK 62 sig) (hh : RpmHdr.HeaderOK 63 hdr) (h0 : (0 : UInt8) ∉ nv) (hl : nv.length ≤ 65)
    (hp : ∀ e ∈ payload, Cpio.EntryOK e) (hn : 1 + payload.length < 16 ^ 8) :
    (readRpm u (rpmFile nv z sig hdr payload)).map (fun r => (r.leadName, r.sig, r.hdr, r.payload))
      = some (nv, sig, hdr, Cpio.expected 1 payload) := by
  unfold readRpm rpmFile
  rw [RpmHdr.readFile_file nv sig hdr _ hs hh h0 hl]
  simp only [hz _, Cpio.read_archive payload hp hn, Option.map_some]

end Nfpm.Pkg
