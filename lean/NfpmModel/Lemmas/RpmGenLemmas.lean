import NfpmModel.RpmGen
import NfpmModel.Lemmas.RpmRelLemmas
import NfpmModel.Lemmas.RpmSigLemmas
/-
  The assembled main header: looking a tag up in the tag-sorted header finds the entry that was added under it; the tags
  of the general, file, relation and changelog entries are pairwise distinct for every configuration.
-/
set_option linter.unusedSimpArgs false
set_option linter.unusedVariables false
namespace Nfpm.RpmGen
open Nfpm B RpmHdr RpmFiles RpmSig

theorem lookup_insertTag (e : Entry) (l : List Entry) (t : Nat) :
    lookupTag t (insertTag e l) = if e.tag = t then some e else lookupTag t l := by
  induction l with
  | nil =>
    unfold insertTag lookupTag
    by_cases h : e.tag = t <;> simp [List.find?, h]
  | cons x rest ih =>
    unfold insertTag
    by_cases h1 : e.tag < x.tag
    · rw [if_pos h1]
      unfold lookupTag
      by_cases h : e.tag = t <;> simp [List.find?_cons, h]
    · rw [if_neg h1]
      by_cases h2 : e.tag = x.tag
      · rw [if_pos h2]
        unfold lookupTag
        by_cases h : e.tag = t
        · simp [List.find?_cons, h]
        · have hx : ¬ x.tag = t := fun hx => h (h2.trans hx)
          simp [List.find?_cons, h, hx]
      · rw [if_neg h2]
        unfold lookupTag at ih ⊢
        rw [List.find?_cons]
        by_cases hx : x.tag = t
        · have h : ¬ e.tag = t := fun h => h2 (h.trans hx.symm)
          simp [hx, h, List.find?_cons]
        · simp only [hx, decide_false]
          rw [ih]
          by_cases h : e.tag = t <;> simp [h, List.find?_cons, hx]

theorem lookup_foldl (es acc : List Entry) (hnd : (es.map (·.tag)).Nodup) :
    (∀ e ∈ es, lookupTag e.tag (es.foldl (fun a e => insertTag e a) acc) = some e)
    ∧ (∀ t, t ∉ es.map (·.tag) → lookupTag t (es.foldl (fun a e => insertTag e a) acc) = lookupTag t acc) := by
  induction es generalizing acc with
  | nil => exact ⟨by simp, by simp⟩
  | cons x rest ih =>
    simp only [List.map_cons, List.nodup_cons] at hnd
    obtain ⟨ih1, ih2⟩ := ih (insertTag x acc) hnd.2
    simp only [List.foldl_cons]
    refine ⟨?_, ?_⟩
    · intro e he
      rcases List.mem_cons.mp he with rfl | he
      · rw [ih2 _ hnd.1, lookup_insertTag, if_pos rfl]
      · exact ih1 e he
    · intro t ht
      simp only [List.map_cons, List.mem_cons, not_or] at ht
      rw [ih2 t ht.2, lookup_insertTag, if_neg (fun h => ht.1 h.symm)]

/-- **lookup in the sorted header**: with pairwise distinct tags every entry is found under its tag, and a tag nobody
    added is absent -/
theorem lookup_sortTags (es : List Entry) (hnd : (es.map (·.tag)).Nodup) :
    (∀ e ∈ es, lookupTag e.tag (sortTags es) = some e) ∧ (∀ t, t ∉ es.map (·.tag) → lookupTag t (sortTags es) = none) := by
  obtain ⟨h1, h2⟩ := lookup_foldl es [] hnd
  exact ⟨h1, fun t ht => by rw [sortTags, h2 t ht]; rfl⟩

/-! ### the tags are distinct for every configuration -/

def genTags : List Nat :=
  [100, 1009, 1000, 1001, 1003, 1004, 1005, 1007, 1006, 1098, 1002, 1124, 1125, 1126, 1022, 1021, 1011, 1014, 1015, 1016, 1020,
   5092, 5093, 1044, 1151, 1153, 1023, 1085, 1024, 1086, 1025, 1087, 1026, 1088, 1152, 1154, 1079, 1091]

def fileTags : List Nat :=
  [1028, 1030, 1033, 1034, 1035, 1036, 1037, 1039, 1040, 1045, 1096, 1097, 1116, 1117, 1118, 5011]

def relTags : List Nat :=
  [1047, 1113, 1112, 1090, 1115, 1114, 5049, 5050, 5051, 5046, 5047, 5048, 1049, 1050, 1048, 1054, 1055, 1053]

def chTags : List Nat := [1080, 1081, 1082]

theorem opt_sub (tag : Nat) (v : Bytes) : ((opt tag v).map (·.tag)).Sublist [tag] := by
  unfold opt; split <;> simp [entStr]

theorem script_sub (tag prog : Nat) (v : Bytes) : ((script tag prog v).map (·.tag)).Sublist [tag, prog] := by
  unfold script; split <;> simp [entStr]

theorem genEntries_tags (g : Gen) : ((genEntries g).map (·.tag)).Sublist genTags := by
  unfold genEntries genTags
  simp only [List.map_append, List.map_cons, List.map_nil]
  have e1 : ((optI32 1003 g.epoch).map (·.tag)).Sublist [1003] := by
    cases g.epoch <;> simp [optI32, entI32, entU32s]
  have e2 : ((optI32 1006 g.buildTime).map (·.tag)).Sublist [1006] := by
    cases g.buildTime <;> simp [optI32, entI32, entU32s]
  have e3 : ((optStrs 1098 g.prefixes).map (·.tag)).Sublist [1098] := by
    unfold optStrs; split <;> simp [entStrs]
  have := ((((((((((((((((List.Sublist.refl [100, 1009, 1000, 1001]).append e1).append (List.Sublist.refl [1004, 1005, 1007])).append e2).append e3).append
    (List.Sublist.refl [1002, 1124, 1125, 1126, 1022, 1021])).append (opt_sub 1011 g.vendor)).append (List.Sublist.refl [1014])).append
    (opt_sub 1015 g.packager)).append (opt_sub 1016 g.group)).append (opt_sub 1020 g.url)).append (List.Sublist.refl [5092, 5093, 1044])).append
    (script_sub 1151 1153 g.pretrans)).append (script_sub 1023 1085 g.prein)).append (script_sub 1024 1086 g.postin)).append
    (script_sub 1025 1087 g.preun)).append (script_sub 1026 1088 g.postun)
  have := (this.append (script_sub 1152 1154 g.posttrans)).append (script_sub 1079 1091 g.verify)
  simpa [entStr, entI32, entU32s, entStrs, List.append_assoc] using this

theorem fileEntries_tags (fs : List RFile) : (fileEntries fs).map (·.tag) = fileTags := rfl

theorem relEntries_tags (a b c : Nat) (rs : List RpmRel.Rel) : ((RpmRel.relEntries a b c rs).map (·.tag)).Sublist [a, b, c] := by
  unfold RpmRel.relEntries; split <;> simp [entStrs, entU32s]

theorem relAll_tags (c : RpmRel.Cats) : ((RpmRel.entries c).map (·.tag)).Sublist relTags := by
  unfold RpmRel.entries relTags
  simp only [List.map_append]
  have := (((((relEntries_tags 1047 1113 1112 c.provides).append (relEntries_tags 1090 1115 1114 c.obsoletes)).append
    (relEntries_tags 5049 5050 5051 c.suggests)).append (relEntries_tags 5046 5047 5048 c.recommends)).append
    (relEntries_tags 1049 1050 1048 c.requires)).append (relEntries_tags 1054 1055 1053 c.conflicts)
  simpa [List.append_assoc] using this

theorem changelog_tags (ts : List Nat) (ns xs : List Bytes) : ((changelogEntries ts ns xs).map (·.tag)).Sublist chTags := by
  unfold changelogEntries chTags; split <;> simp [entStrs, entU32s]

/-- **no two entries of the main header share a tag**, whatever the configuration -/
theorem header_tags_nodup (g : Gen) (files : List RFile) (rels : RpmRel.Cats) (ts : List Nat) (ns xs : List Bytes) :
    ((genEntries g ++ (if files = [] then [] else fileEntries files) ++ RpmRel.entries rels ++ changelogEntries ts ns xs).map (·.tag)).Nodup := by
  have hf : ((if files = [] then [] else fileEntries files).map (·.tag)).Sublist fileTags := by
    split
    · simp
    · rw [fileEntries_tags]; exact List.Sublist.refl _
  have hsub : ((genEntries g ++ (if files = [] then [] else fileEntries files) ++ RpmRel.entries rels ++ changelogEntries ts ns xs).map (·.tag)).Sublist
      (genTags ++ fileTags ++ relTags ++ chTags) := by
    simp only [List.map_append]
    exact (((genEntries_tags g).append hf).append (relAll_tags rels)).append (changelog_tags ts ns xs)
  exact hsub.nodup (by decide)

end Nfpm.RpmGen

namespace Nfpm.RpmGen
open Nfpm B RpmHdr RpmFiles RpmSig

/-- all entries of the main header before sorting -/
def allEntries (g : Gen) (files : List RFile) (rels : RpmRel.Cats) (ts : List Nat) (ns xs : List Bytes) : List Entry :=
  genEntries g ++ (if files = [] then [] else fileEntries files) ++ RpmRel.entries rels ++ changelogEntries ts ns xs

theorem mainHeader_eq (g : Gen) (files : List RFile) (rels : RpmRel.Cats) (ts : List Nat) (ns xs : List Bytes) :
    mainHeader g files rels ts ns xs = sortTags (allEntries g files rels ts ns xs) := rfl

/-- every entry that was added is found under its tag in the assembled header -/
theorem lookup_mainHeader (g : Gen) (files : List RFile) (rels : RpmRel.Cats) (ts : List Nat) (ns xs : List Bytes) :
    ∀ e ∈ allEntries g files rels ts ns xs, lookupTag e.tag (mainHeader g files rels ts ns xs) = some e :=
  (lookup_sortTags _ (header_tags_nodup g files rels ts ns xs)).1

/-- the tags of one relation category are absent from the assembled header when the category is empty -/
theorem absent_of_empty (g : Gen) (files : List RFile) (rels : RpmRel.Cats) (ts : List Nat) (ns xs : List Bytes) (t : Nat)
    (hg : t ∉ genTags) (hf : t ∉ fileTags) (hc : t ∉ chTags) (hr : t ∉ (RpmRel.entries rels).map (·.tag)) :
    lookupTag t (mainHeader g files rels ts ns xs) = none := by
  apply (lookup_sortTags _ (header_tags_nodup g files rels ts ns xs)).2
  intro hmem
  simp only [List.map_append, List.mem_append] at hmem
  rcases hmem with ((h | h) | h) | h
  · exact hg ((genEntries_tags g).subset h)
  · apply hf
    split at h
    · simp at h
    · rw [fileEntries_tags] at h; exact h
  · exact hr h
  · exact hc ((changelog_tags ts ns xs).subset h)

end Nfpm.RpmGen

namespace Nfpm.RpmGen
open Nfpm B RpmHdr RpmFiles RpmSig

theorem mem_relEntries_tags (a b c : Nat) (rs : List RpmRel.Rel) (t : Nat)
    (h : t ∈ (RpmRel.relEntries a b c rs).map (·.tag)) : rs ≠ [] ∧ (t = a ∨ t = b ∨ t = c) := by
  unfold RpmRel.relEntries at h
  split at h
  · simp at h
  · rename_i hne
    simp only [List.map_cons, List.map_nil, List.mem_cons, List.mem_nil_iff, or_false, entStrs, entU32s] at h
    exact ⟨hne, h⟩

/-- membership of a tag among the relation entries, category by category -/
theorem mem_entries_tags (rels : RpmRel.Cats) (t : Nat) (h : t ∈ (RpmRel.entries rels).map (·.tag)) :
    (rels.provides ≠ [] ∧ (t = 1047 ∨ t = 1113 ∨ t = 1112)) ∨ (rels.obsoletes ≠ [] ∧ (t = 1090 ∨ t = 1115 ∨ t = 1114))
    ∨ (rels.suggests ≠ [] ∧ (t = 5049 ∨ t = 5050 ∨ t = 5051)) ∨ (rels.recommends ≠ [] ∧ (t = 5046 ∨ t = 5047 ∨ t = 5048))
    ∨ (rels.requires ≠ [] ∧ (t = 1049 ∨ t = 1050 ∨ t = 1048)) ∨ (rels.conflicts ≠ [] ∧ (t = 1054 ∨ t = 1055 ∨ t = 1053)) := by
  unfold RpmRel.entries at h
  simp only [List.map_append, List.mem_append] at h
  rcases h with ((((h | h) | h) | h) | h) | h
  · exact Or.inl (mem_relEntries_tags _ _ _ _ _ h)
  · exact Or.inr (Or.inl (mem_relEntries_tags _ _ _ _ _ h))
  · exact Or.inr (Or.inr (Or.inl (mem_relEntries_tags _ _ _ _ _ h)))
  · exact Or.inr (Or.inr (Or.inr (Or.inl (mem_relEntries_tags _ _ _ _ _ h))))
  · exact Or.inr (Or.inr (Or.inr (Or.inr (Or.inl (mem_relEntries_tags _ _ _ _ _ h)))))
  · exact Or.inr (Or.inr (Or.inr (Or.inr (Or.inr (mem_relEntries_tags _ _ _ _ _ h)))))

end Nfpm.RpmGen
