import NfpmModel.Lemmas.Closure
import NfpmModel.Spec.PayloadSpec
/-
  How the relative-name helpers (AsRelativePath, AsExplicitRelativePath,
  ToNixPath) act on normalised destinations, and the way back from a member
  name to the destination path (all byte strings).
-/
namespace Nfpm
open B Path Spec

/-- the joined components of the normalised destination of `x` -/
def jn (x : Bytes) : Bytes := joinWith slash (rcomps x)

theorem clean_rooted (s : Bytes) (h : isRooted s = true) : clean s = normFile s := by
  unfold clean normFile
  have hne : s ≠ [] := by intro e; subst e; simp [isRooted] at h
  simp [hne, h]

theorem normFile_rooted (x : Bytes) : isRooted (normFile x) = true := by
  rw [normFile_eq]; simp [isRooted]

theorem normDir_rooted (x : Bytes) : isRooted (normDir x) = true := by
  rw [normDir_eq]; simp [isRooted]

theorem rcomps_snoc_slash (s : Bytes) : rcomps (s ++ [slash]) = rcomps s := by
  unfold rcomps
  rw [splitOn_snoc_sep]
  have := resolve_append_nils true (splitOn slash s) 1
  simpa using this

theorem rcomps_normDir (x : Bytes) : rcomps (normDir x) = rcomps x := by
  unfold normDir
  rw [rcomps_snoc_slash, rcomps_normFile, rcomps_trimRight]

theorem toNix_normFile (x : Bytes) : toNix (normFile x) = normFile x := by
  unfold toNix
  rw [clean_rooted _ (normFile_rooted x), normFile_idem]

theorem toNix_normDir (x : Bytes) : toNix (normDir x) = normFile x := by
  unfold toNix
  rw [clean_rooted _ (normDir_rooted x), normFile_eq, rcomps_normDir, ← normFile_eq]

theorem jn_head_ne_slash (x : Bytes) : ∀ c rest, jn x = c :: rest → c ≠ slash := by
  intro c rest h
  unfold jn at h
  cases hR : rcomps x with
  | nil => rw [hR] at h; simp [joinWith] at h
  | cons y ys =>
    have hy := rcomps_proper x y (by rw [hR]; simp)
    rw [hR] at h
    cases y with
    | nil => exact absurd rfl hy.1
    | cons y0 yr =>
      have : c = y0 := by
        cases ys with
        | nil => simp [joinWith] at h; exact h.1.symm
        | cons z zs => simp [joinWith] at h; exact h.1.symm
      subst this
      intro e
      apply hy.2.2.2
      rw [e]; simp

theorem trimLeft_slash_jn (x : Bytes) : trimLeft slash (slash :: jn x) = jn x := by
  simp only [trimLeft, if_true]
  cases h : jn x with
  | nil => simp [trimLeft]
  | cons c rest =>
    have := jn_head_ne_slash x c rest h
    simp [trimLeft, this]

theorem jn_getLast_ne_slash (x : Bytes) (h : rcomps x ≠ []) : (jn x).getLast? ≠ some slash :=
  joinWith_getLast_ne_slash _ h (rcomps_proper x)

theorem hasSuffix_snoc (t : Bytes) (c : UInt8) : hasSuffix (t ++ [c]) [c] = true := by
  simp [hasSuffix, hasPrefix]

theorem hasSuffix_of_getLast_ne (s : Bytes) (c : UInt8) (h : s.getLast? ≠ some c) : hasSuffix s [c] = false := by
  unfold hasSuffix
  cases hs : s.reverse with
  | nil => simp [hasPrefix]
  | cons y ys =>
    have : s.getLast? = some y := by rw [← List.reverse_reverse s, hs]; simp
    have hne : y ≠ c := by intro e; subst e; exact h this
    simp [hasPrefix, hne]

theorem jn_ne_nil (x : Bytes) (h : rcomps x ≠ []) : jn x ≠ [] := by
  intro e
  exact h ((joinWith_nil_iff _ (fun c hc => (rcomps_proper x c hc).1)).mp e)

theorem normFile_getLast (x : Bytes) (h : rcomps x ≠ []) : (normFile x).getLast? ≠ some slash := by
  rw [normFile_eq]
  rw [show slash :: joinWith slash (rcomps x) = [slash] ++ jn x by rfl,
    getLast?_append_of_ne_nil' _ _ (jn_ne_nil x h)]
  exact jn_getLast_ne_slash x h

/-- AsRelativePath of a normalised file destination: the joined components -/
theorem asRel_normFile (x : Bytes) (h : rcomps x ≠ []) : asRel (normFile x) = jn x := by
  unfold asRel
  simp only []
  rw [toNix_normFile]
  have h1 : trimLeft slash (normFile x) = jn x := by rw [normFile_eq]; exact trimLeft_slash_jn x
  rw [h1, show slashS = [slash] from rfl, hasSuffix_of_getLast_ne _ _ (normFile_getLast x h)]
  simp

theorem jn_ne_dot (x : Bytes) (h : rcomps x ≠ []) : jn x ≠ dotS := by
  intro e
  have hs := splitOn_joinWith slash (rcomps x) h (fun c hc => (rcomps_proper x c hc).2.2.2)
  unfold jn at e
  rw [e] at hs
  have : splitOn slash dotS = [dotS] := by decide
  rw [this] at hs
  have : dotS ∈ rcomps x := by rw [← hs]; simp
  exact (rcomps_proper x _ this).2.1 rfl

/-- AsRelativePath of a normalised directory destination keeps the trailing slash (for every name:
    the one-character exception was the defect repaired by fc7dedc) -/
theorem asRel_normDir (x : Bytes) (h : rcomps x ≠ []) : asRel (normDir x) = jn x ++ [slash] := by
  unfold asRel
  simp only []
  rw [toNix_normDir]
  have h1 : trimLeft slash (normFile x) = jn x := by rw [normFile_eq]; exact trimLeft_slash_jn x
  have h2 : hasSuffix (normDir x) slashS = true := by unfold normDir; exact hasSuffix_snoc _ _
  rw [h1, h2]
  simp [jn_ne_nil x h, jn_ne_dot x h]

theorem trimRight_snoc_slash (t : Bytes) (h : t.getLast? ≠ some slash) : trimRight slash (t ++ [slash]) = t := by
  unfold trimRight
  simp only [List.reverse_append, List.reverse_cons, List.reverse_nil, List.nil_append, List.singleton_append]
  simp only [trimLeft, if_true]
  cases hs : t.reverse with
  | nil => simp [trimLeft]; exact (List.reverse_eq_nil_iff.mp hs)
  | cons y ys =>
    have : t.getLast? = some y := by rw [← List.reverse_reverse t, hs]; simp
    have hne : y ≠ slash := by intro e; subst e; exact h this
    simp only [trimLeft, hne, if_false]
    rw [← hs]; simp

theorem pathOf_normFile (x : Bytes) (h : rcomps x ≠ []) : pathOf (normFile x) = slash :: jn x := by
  unfold pathOf
  rw [trimRight_of_getLast_ne _ _ (normFile_getLast x h), normFile_eq]; rfl

theorem pathOf_normDir (x : Bytes) (h : rcomps x ≠ []) : pathOf (normDir x) = slash :: jn x := by
  unfold pathOf normDir
  have h' : rcomps (trimRight slash x) ≠ [] := by rw [rcomps_trimRight]; exact h
  rw [trimRight_snoc_slash _ (normFile_getLast _ h')]
  rw [normFile_eq, rcomps_trimRight]; rfl

/-- the destination key of a planned entry, in either shape -/
def keyOf (isDir : Bool) (x : Bytes) : Bytes := if isDir then normDir x else normFile x

theorem pathOf_keyOf (d : Bool) (x : Bytes) (h : rcomps x ≠ []) : pathOf (keyOf d x) = slash :: jn x := by
  cases d
  · exact pathOf_normFile x h
  · exact pathOf_normDir x h

theorem pathOf_slash_jn (x : Bytes) (h : rcomps x ≠ []) : pathOf (slash :: jn x) = slash :: jn x := by
  have := pathOf_normFile x h
  rw [normFile_eq] at this
  exact this

theorem pathOf_jn (x : Bytes) (h : rcomps x ≠ []) : pathOf (jn x) = jn x := by
  unfold pathOf
  exact trimRight_of_getLast_ne _ _ (jn_getLast_ne_slash x h)

theorem pathOf_jn_slash (x : Bytes) (h : rcomps x ≠ []) : pathOf (jn x ++ [slash]) = jn x := by
  unfold pathOf
  exact trimRight_snoc_slash _ (jn_getLast_ne_slash x h)

theorem pathOf_slash_jn_slash (x : Bytes) (h : rcomps x ≠ []) : pathOf (slash :: (jn x ++ [slash])) = slash :: jn x := by
  unfold pathOf
  rw [show slash :: (jn x ++ [slash]) = (slash :: jn x) ++ [slash] by rfl]
  apply trimRight_snoc_slash
  have := normFile_getLast x h
  rw [normFile_eq] at this
  exact this

/-- **names map back to destinations** – deb/ipk "./"-names -/
theorem pathOfName_explicit (f : Fmt) (hf : f = .deb ∨ f = .ipk) (d : Bool) (x : Bytes) (h : rcomps x ≠ []) :
    pathOfName f (asExplicitRel (keyOf d x)) = pathOf (keyOf d x) := by
  rw [pathOf_keyOf d x h]
  have hdrop : (asExplicitRel (keyOf d x)).drop 1 = slash :: asRel (keyOf d x) := by simp [asExplicitRel]
  have : pathOfName f (asExplicitRel (keyOf d x)) = pathOf (slash :: asRel (keyOf d x)) := by
    rcases hf with e | e <;> subst e <;> simp [pathOfName, hdrop]
  rw [this]
  cases d
  · simp only [keyOf, Bool.false_eq_true, if_false]
    rw [asRel_normFile x h, pathOf_slash_jn x h]
  · simp only [keyOf, if_true]
    rw [asRel_normDir x h]
    exact pathOf_slash_jn_slash x h

/-- apk/arch relative names -/
theorem pathOfName_relative (f : Fmt) (hf : f = .apk ∨ f = .arch) (d : Bool) (x : Bytes) (h : rcomps x ≠ []) :
    pathOfName f (asRel (keyOf d x)) = pathOf (keyOf d x) := by
  rw [pathOf_keyOf d x h]
  have : pathOfName f (asRel (keyOf d x)) = slash :: pathOf (asRel (keyOf d x)) := by
    rcases hf with e | e <;> subst e <;> simp [pathOfName]
  rw [this]
  cases d
  · simp only [keyOf, Bool.false_eq_true, if_false]
    rw [asRel_normFile x h, pathOf_jn x h]
  · simp only [keyOf, if_true]
    rw [asRel_normDir x h, pathOf_jn_slash x h]

/-- rpm names are the cleaned absolute destination -/
theorem toNix_keyOf (d : Bool) (x : Bytes) (h : rcomps x ≠ []) : toNix (keyOf d x) = pathOf (keyOf d x) := by
  rw [pathOf_keyOf d x h]
  cases d
  · simp only [keyOf, Bool.false_eq_true, if_false]; rw [toNix_normFile, normFile_eq]; rfl
  · simp only [keyOf, if_true]; rw [toNix_normDir, normFile_eq]; rfl

end Nfpm
