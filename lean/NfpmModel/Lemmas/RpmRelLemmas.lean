import NfpmModel.RpmRel
import NfpmModel.Lemmas.RpmFilesLemmas
/-
  rpm relations: the canonical spelling of a relation parses back to it, lists keep every relation once in the order of
  first occurrence, and the three header columns of a category read back.
-/
set_option linter.unusedSimpArgs false
set_option linter.unusedVariables false
namespace Nfpm.RpmRel
open Nfpm B RpmHdr RpmFiles

theorem takeWhile_stop {p : UInt8 → Bool} (l rest : Bytes) (c : UInt8) (h : ∀ x ∈ l, p x = true) (hc : p c = false) :
    (l ++ c :: rest).takeWhile p = l := by
  induction l with
  | nil => simp [List.takeWhile, hc]
  | cons a as ih =>
    simp only [List.cons_append, List.takeWhile_cons, h a (by simp), if_true]
    rw [ih (fun x hx => h x (List.mem_cons_of_mem _ hx))]

theorem takeWhile_all {p : UInt8 → Bool} (l : Bytes) (h : ∀ x ∈ l, p x = true) : l.takeWhile p = l := by
  induction l with
  | nil => rfl
  | cons a as ih =>
    simp only [List.takeWhile_cons, h a (by simp), if_true]
    rw [ih (fun x hx => h x (List.mem_cons_of_mem _ hx))]

theorem dropWhile_head {p : UInt8 → Bool} (l : Bytes) (h : ∀ c, l.head? = some c → p c = false) : l.dropWhile p = l := by
  cases l with
  | nil => rfl
  | cons a as => simp [List.dropWhile, h a rfl]

/-- the shape `render` produces and `parse` recovers -/
structure WfRel (r : Rel) : Prop where
  name_chars : ∀ c ∈ r.name, (!isOp c && !isWs c) = true
  /-- not spelled like a rich dependency -/
  name_head : r.name.head? ≠ some 40
  sense : r.sense = 0 ∨ r.sense = 2 ∨ r.sense = 4 ∨ r.sense = 8 ∨ r.sense = 10 ∨ r.sense = 12
  bare : r.sense = 0 → r.version = []
  version_head : ∀ c, r.version.head? = some c → isOp c = false ∧ isWs c = false
  version_line : ∀ c ∈ r.version, (c != 10) = true

theorem parse_tail (name op version : Bytes) (sn : Nat)
    (hn : ∀ c ∈ name, (!isOp c && !isWs c) = true) (hh : name.head? ≠ some 40)
    (hop : ∀ c ∈ op, isOp c = true) (hopne : op ≠ []) (hs : senseOf op = some sn)
    (hv : ∀ c, version.head? = some c → isOp c = false ∧ isWs c = false) (hl : ∀ c ∈ version, (c != 10) = true) :
    parse (name ++ [32] ++ op ++ [32] ++ version) = some { name := name, version := version, sense := sn } := by
  unfold parse
  have hhead : (name ++ [32] ++ op ++ [32] ++ version).head? ≠ some 40 := by
    cases name with
    | nil => simp
    | cons a as => simpa using hh
  rw [if_neg (fun h => hhead h.1)]
  have e1 : (name ++ [32] ++ op ++ [32] ++ version).takeWhile (fun c => !isOp c && !isWs c) = name := by
    have : name ++ [32] ++ op ++ [32] ++ version = name ++ 32 :: (op ++ [32] ++ version) := by simp
    rw [this]
    exact takeWhile_stop name _ 32 hn (by decide)
  simp only [e1]
  have e2 : (name ++ [32] ++ op ++ [32] ++ version).drop name.length = 32 :: (op ++ 32 :: version) := by
    have : name ++ [32] ++ op ++ [32] ++ version = name ++ (32 :: (op ++ 32 :: version)) := by simp
    rw [this, List.drop_left' rfl]
  rw [e2]
  have e3 : (32 :: (op ++ 32 :: version)).dropWhile isWs = op ++ 32 :: version := by
    rw [List.dropWhile_cons, if_pos (by decide)]
    apply dropWhile_head
    intro c hc
    cases op with
    | nil => exact absurd rfl hopne
    | cons a as =>
      simp only [List.cons_append, List.head?_cons, Option.some.injEq] at hc
      subst hc
      have := hop a (by simp)
      revert this
      unfold isOp isWs
      intro h
      simp only [Bool.or_eq_true, decide_eq_true_eq] at h
      rcases h with (h | h) | h <;> subst h <;> decide
  rw [e3]
  have e4 : (op ++ 32 :: version).takeWhile isOp = op := takeWhile_stop op version 32 hop (by decide)
  rw [e4, List.drop_left' rfl]
  have e5 : (32 :: version).dropWhile isWs = version := by
    rw [List.dropWhile_cons, if_pos (by decide)]
    exact dropWhile_head version (fun c hc => (hv c hc).2)
  rw [e5, hs, takeWhile_all version hl]
  rfl

theorem parse_bare (name : Bytes) (hn : ∀ c ∈ name, (!isOp c && !isWs c) = true) (hh : name.head? ≠ some 40) :
    parse name = some { name := name } := by
  unfold parse
  rw [if_neg (fun h => hh h.1)]
  simp only [takeWhile_all name hn, List.drop_length, List.dropWhile_nil, List.takeWhile_nil, List.drop_nil]
  rfl

theorem senseOf_opOf (sn : Nat) (h : sn = 2 ∨ sn = 4 ∨ sn = 8 ∨ sn = 10 ∨ sn = 12) :
    senseOf (opOf sn) = some sn ∧ opOf sn ≠ [] ∧ ∀ c ∈ opOf sn, isOp c = true := by
  rcases h with h | h | h | h | h <;> subst h <;> decide

/-- **a relation in its canonical spelling parses back to itself** -/
theorem parse_render (r : Rel) (w : WfRel r) : parse (render r) = some r := by
  unfold render
  by_cases h0 : r.sense = 0
  · rw [if_pos h0]
    rw [parse_bare r.name w.name_chars w.name_head]
    cases r with
    | mk n v s =>
      simp only at h0
      have := w.bare h0
      simp only at this
      subst h0; subst this; rfl
  · rw [if_neg h0]
    have hs : r.sense = 2 ∨ r.sense = 4 ∨ r.sense = 8 ∨ r.sense = 10 ∨ r.sense = 12 := by
      rcases w.sense with h | h
      · exact absurd h h0
      · exact h
    obtain ⟨e1, e2, e3⟩ := senseOf_opOf r.sense hs
    rw [parse_tail r.name (opOf r.sense) r.version r.sense w.name_chars w.name_head e3 e2 e1 w.version_head w.version_line]

/-! ### lists -/

theorem toRelations_render (rs : List Rel) (acc : List Rel) (h : ∀ r ∈ rs, WfRel r) :
    toRelations (rs.map render) acc = some (rs.foldl addIfMissing acc) := by
  induction rs generalizing acc with
  | nil => rfl
  | cons r rest ih =>
    simp only [List.map_cons, toRelations, parse_render r (h r (by simp)), List.foldl_cons]
    exact ih _ (fun x hx => h x (List.mem_cons_of_mem _ hx))

theorem foldl_addIfMissing_spec (rs acc : List Rel) :
    ∃ t, t.Sublist rs ∧ rs.foldl addIfMissing acc = acc ++ t ∧ (∀ r ∈ rs, r ∈ acc ++ t) := by
  induction rs generalizing acc with
  | nil => exact ⟨[], List.Sublist.refl _, by simp, by simp⟩
  | cons r rest ih =>
    simp only [List.foldl_cons]
    by_cases hm : r ∈ acc
    · rw [show addIfMissing acc r = acc by simp [addIfMissing, hm]]
      obtain ⟨t, hsub, heq, hall⟩ := ih acc
      refine ⟨t, hsub.cons _, heq, ?_⟩
      intro x hx
      rcases List.mem_cons.mp hx with rfl | hx
      · exact List.mem_append_left _ hm
      · exact hall x hx
    · rw [show addIfMissing acc r = acc ++ [r] by simp [addIfMissing, hm]]
      obtain ⟨t, hsub, heq, hall⟩ := ih (acc ++ [r])
      refine ⟨r :: t, hsub.cons_cons _, by rw [heq]; simp, ?_⟩
      intro x hx
      rcases List.mem_cons.mp hx with rfl | hx
      · simp
      · have := hall x hx
        simpa [List.append_assoc] using this

theorem foldl_addIfMissing_nodup (rs acc : List Rel) (h : acc.Nodup) : (rs.foldl addIfMissing acc).Nodup := by
  induction rs generalizing acc with
  | nil => exact h
  | cons r rest ih =>
    simp only [List.foldl_cons]
    apply ih
    unfold addIfMissing
    split
    · exact h
    · rename_i hn
      rw [List.nodup_append]
      refine ⟨h, by simp, ?_⟩
      intro a ha b hb
      simp only [List.mem_singleton] at hb
      subst hb
      exact fun e => hn (e ▸ ha)

/-! ### header columns -/

theorem zipRels_map (rs : List Rel) : zipRels (rs.map (fun r : Rel => r.name)) (rs.map (fun r : Rel => r.version)) (rs.map (fun r : Rel => r.sense)) = some rs := by
  induction rs with
  | nil => rfl
  | cons r rest ih => simp only [List.map_cons, zipRels, ih, Option.map_some]

/-- what the header writer and the column decoders need of the relations of a category -/
structure RelsOK (rs : List Rel) : Prop where
  count : rs.length < 4294967296
  name : ∀ r ∈ rs, (0 : UInt8) ∉ r.name
  version : ∀ r ∈ rs, (0 : UInt8) ∉ r.version
  sense : ∀ r ∈ rs, r.sense < 4294967296

/-- **a category reads back**: no relation, no entries; otherwise the three columns decode to the relations in order -/
theorem readRels_relEntries (nameTag verTag flagTag : Nat) (rs : List Rel) (hdr : List Entry) (ok : RelsOK rs)
    (hnone : rs = [] → lookupTag nameTag hdr = none ∧ lookupTag verTag hdr = none ∧ lookupTag flagTag hdr = none)
    (hsome : ∀ e ∈ relEntries nameTag verTag flagTag rs, lookupTag e.tag hdr = some e) :
    readRels nameTag verTag flagTag hdr = some rs := by
  unfold readRels
  by_cases he : rs = []
  · obtain ⟨h1, h2, h3⟩ := hnone he
    rw [h1, h2, h3, he]
  · have e1 : lookupTag nameTag hdr = some (entStrs nameTag (rs.map (fun r : Rel => r.name))) :=
      hsome (entStrs nameTag (rs.map (fun r : Rel => r.name))) (by simp [relEntries, he])
    have e2 : lookupTag verTag hdr = some (entStrs verTag (rs.map (fun r : Rel => r.version))) :=
      hsome (entStrs verTag (rs.map (fun r : Rel => r.version))) (by simp [relEntries, he])
    have e3 : lookupTag flagTag hdr = some (entU32s flagTag (rs.map (fun r : Rel => r.sense))) :=
      hsome (entU32s flagTag (rs.map (fun r : Rel => r.sense))) (by simp [relEntries, he])
    have d1 := strsOf_ent nameTag _ hdr e1 (by
      intro s hs; obtain ⟨r, hr, rfl⟩ := List.mem_map.mp hs; exact ok.name r hr)
    have d2 := strsOf_ent verTag _ hdr e2 (by
      intro s hs; obtain ⟨r, hr, rfl⟩ := List.mem_map.mp hs; exact ok.version r hr)
    have d3 := u32sOf_ent flagTag _ hdr e3 (by
      intro n hn; obtain ⟨r, hr, rfl⟩ := List.mem_map.mp hn; exact ok.sense r hr)
    rw [e1, e2, e3]
    simp only [d1, d2, d3, zipRels_map]

theorem relEntries_ok (nameTag verTag flagTag : Nat) (rs : List Rel) (ok : RelsOK rs)
    (h1 : nameTag < 4294967296) (h2 : verTag < 4294967296) (h3 : flagTag < 4294967296) :
    ∀ e ∈ relEntries nameTag verTag flagTag rs, EntryOK e := by
  intro e he
  unfold relEntries at he
  split at he
  · simp at he
  · simp only [List.mem_cons, List.mem_nil_iff, or_false] at he
    rcases he with rfl | rfl | rfl
    · exact entStrs_ok _ _ h1 (by simpa using ok.count) (by
        intro s hs; obtain ⟨r, hr, rfl⟩ := List.mem_map.mp hs; exact ok.name r hr)
    · exact entStrs_ok _ _ h2 (by simpa using ok.count) (by
        intro s hs; obtain ⟨r, hr, rfl⟩ := List.mem_map.mp hs; exact ok.version r hr)
    · exact entU32s_ok _ _ h3 (by simpa using ok.count)

end Nfpm.RpmRel
