import NfpmModel.Lemmas.NoClash
/-
  Invariant of planning: an entry that was accepted is never replaced or dropped by a later step
  (only an *implied* directory may be superseded – by the explicit declaration of the same directory).
  Together with NoClash this is the completeness half of collision handling: a second request for an
  occupied path cannot silently win.
-/
set_option linter.unusedSimpArgs false
set_option linter.unusedVariables false
namespace Nfpm
open B Path Spec

namespace CMap

theorem mem_insert_of_ne (m : CMap) (k : Bytes) (v : Content) (p : Bytes × Content) (hp : p ∈ m) (hk : p.1 ≠ k) :
    p ∈ m.insert k v := by
  induction m with
  | nil => simp at hp
  | cons q rest ih =>
    obtain ⟨k', v'⟩ := q
    unfold insert
    by_cases h : k' = k
    · simp only [h, if_true, List.mem_cons]
      rcases List.mem_cons.mp hp with e | e
      · subst e; exact absurd h hk
      · right; exact e
    · simp only [h, if_false, List.mem_cons]
      rcases List.mem_cons.mp hp with e | e
      · left; exact e
      · right; exact ih e

theorem mem_insert_self (m : CMap) (k : Bytes) (v : Content) : (k, v) ∈ m.insert k v := by
  induction m with
  | nil => simp [insert]
  | cons q rest ih =>
    obtain ⟨k', v'⟩ := q
    unfold insert
    by_cases h : k' = k
    · simp [h]
    · simp only [h, if_false, List.mem_cons]; right; exact ih

theorem lookup_of_mem_nodup (m : CMap) (h : m.keys.Nodup) (p : Bytes × Content) (hp : p ∈ m) : m.lookup p.1 = some p.2 := by
  induction m with
  | nil => simp at hp
  | cons q rest ih =>
    obtain ⟨k', v'⟩ := q
    simp only [keys, List.map_cons, List.nodup_cons] at h
    unfold lookup
    rcases List.mem_cons.mp hp with e | e
    · subst e; simp
    · have hne : k' ≠ p.1 := by
        intro e'; apply h.1; rw [e']; exact List.mem_map.mpr ⟨p, e, rfl⟩
      simp only [hne, if_false]
      exact ih h.2 e

end CMap

/-- every accepted (non-implied) entry of `m` is still there, unchanged, in `m'` -/
def Kept (m m' : CMap) : Prop := ∀ p ∈ m, p.2.type ≠ T.implicitDir → p ∈ m'

theorem kept_refl (m : CMap) : Kept m m := fun _ hp _ => hp

theorem kept_trans {a b c : CMap} (h1 : Kept a b) (h2 : Kept b c) : Kept a c :=
  fun p hp ht => h2 p (h1 p hp ht) ht

theorem kept_insert_absent (m : CMap) (k : Bytes) (v : Content) (hk : k ∉ m.keys) : Kept m (m.insert k v) := by
  intro p hp _
  apply CMap.mem_insert_of_ne m k v p hp
  intro e; apply hk; rw [← e]; exact List.mem_map.mpr ⟨p, hp, rfl⟩

theorem kept_insert_implicit (m : CMap) (k : Bytes) (v old : Content) (hnd : m.keys.Nodup)
    (hl : m.lookup k = some old) (ho : old.type = T.implicitDir) : Kept m (m.insert k v) := by
  intro p hp ht
  by_cases e : p.1 = k
  · have := CMap.lookup_of_mem_nodup m hnd p hp
    rw [e, hl] at this
    have : old = p.2 := by simpa using this
    rw [← this] at ht
    exact absurd ho ht
  · exact CMap.mem_insert_of_ne m k v p hp e

/-- plain extension: nothing at all is replaced -/
def Sub (m m' : CMap) : Prop := ∀ p ∈ m, p ∈ m'

theorem sub_kept {m m' : CMap} (h : Sub m m') : Kept m m' := fun p hp _ => h p hp

theorem sub_insert_absent (m : CMap) (k : Bytes) (v : Content) (hk : k ∉ m.keys) : Sub m (m.insert k v) := by
  intro p hp
  apply CMap.mem_insert_of_ne m k v p hp
  intro e; apply hk; rw [← e]; exact List.mem_map.mpr ⟨p, hp, rfl⟩

theorem sub_addParentsL (mt : Int) (ps : List Bytes) (m m' : CMap) (hok : addParentsL mt ps m = .ok m') : Sub m m' := by
  induction ps generalizing m with
  | nil => simp [addParentsL] at hok; subst hok; exact fun _ hp => hp
  | cons p rest ih =>
    unfold addParentsL at hok
    split at hok
    · exact absurd hok (by simp)
    · simp only [] at hok
      split at hok
      · split at hok
        · exact ih m hok
        · exact absurd hok (by simp)
      · rename_i hnone
        have h1 := sub_insert_absent m (normDir p) (implicitDirEntry (normDir p) mt) ((CMap.lookup_none_iff m _).mp hnone)
        exact fun q hq => ih _ hok q (h1 q hq)

theorem sub_addParents (mt : Int) (path : Bytes) (m m' : CMap) (hok : addParents m path mt = .ok m') : Sub m m' :=
  sub_addParentsL mt _ m m' hok

/-- a lookup result survives a plain extension of a map with unique keys -/
theorem lookup_sub (m m' : CMap) (hs : Sub m m') (hnd' : m'.keys.Nodup) (k : Bytes) (v : Content)
    (h : m.lookup k = some v) : m'.lookup k = some v := by
  have := CMap.lookup_of_mem_nodup m' hnd' (k, v) (hs _ (CMap.lookup_some_mem m k v h))
  simpa using this

theorem nodup_addParentsL (mt : Int) (ps : List Bytes) (m m' : CMap) (h : m.keys.Nodup)
    (hok : addParentsL mt ps m = .ok m') : m'.keys.Nodup := by
  induction ps generalizing m with
  | nil => simp [addParentsL] at hok; subst hok; exact h
  | cons p rest ih =>
    unfold addParentsL at hok
    split at hok
    · exact absurd hok (by simp)
    · simp only [] at hok
      split at hok
      · split at hok
        · exact ih m h hok
        · exact absurd hok (by simp)
      · exact ih _ (CMap.nodup_insert m _ _ h) hok

theorem kept_addGlobbed (O : Oracle) (u : Nat) (mt : Int) (orig : Content)
    (pairs : List (Bytes × Bytes)) (m m' : CMap)
    (hok : addGlobbed O u mt orig pairs m = .ok m') : Kept m m' := by
  induction pairs generalizing m with
  | nil => simp [addGlobbed] at hok; subst hok; exact kept_refl m
  | cons p rest ih =>
    obtain ⟨src, dst⟩ := p
    unfold addGlobbed at hok
    simp only [] at hok
    split at hok
    · exact absurd hok (by simp)
    · rename_i hocc
      split at hok
      · exact absurd hok (by simp)
      · rename_i m1 hm1
        obtain ⟨hf, _⟩ := occupant_none m _ hocc
        rw [normFile_idem] at hf
        have hf1 : normFile dst ∉ m1.keys := addParents_file_keys mt (normFile dst) m m1 hm1 dst hf
        exact kept_trans (kept_trans (sub_kept (sub_addParents mt _ m m1 hm1)) (kept_insert_absent m1 _ _ hf1)) (ih _ hok)

theorem nodup_addGlobbed (O : Oracle) (u : Nat) (mt : Int) (orig : Content)
    (pairs : List (Bytes × Bytes)) (m m' : CMap) (h : m.keys.Nodup)
    (hok : addGlobbed O u mt orig pairs m = .ok m') : m'.keys.Nodup := by
  induction pairs generalizing m with
  | nil => simp [addGlobbed] at hok; subst hok; exact h
  | cons p rest ih =>
    obtain ⟨src, dst⟩ := p
    unfold addGlobbed at hok
    simp only [] at hok
    split at hok
    · exact absurd hok (by simp)
    · split at hok
      · exact absurd hok (by simp)
      · rename_i m1 hm1
        exact ih _ (CMap.nodup_insert m1 _ _ (nodup_addParentsL mt _ m m1 h hm1)) hok

theorem kept_addTreeEnts (O : Oracle) (u : Nat) (mt : Int) (tree : Content)
    (ents : List WalkEnt) (m m' : CMap) (hnd : m.keys.Nodup)
    (hok : addTreeEnts O u mt tree ents m = .ok m') : Kept m m' ∧ m'.keys.Nodup := by
  induction ents generalizing m with
  | nil => simp [addTreeEnts] at hok; subst hok; exact ⟨kept_refl m, hnd⟩
  | cons e rest ih =>
    have hshape : (treeEntry O u mt tree e).dst =
        if isDirType (treeEntry O u mt tree e).type then normDir (join2 tree.dst e.rel) else normFile (join2 tree.dst e.rel) := by
      obtain ⟨⟨hne, _⟩, hdst⟩ := treeBase_shape u tree e
      have htype : (treeEntry O u mt tree e).type = (treeBase u tree e).type := by
        unfold treeEntry; rw [withDefaults_type, treeAdj_type, if_neg hne]
      rw [htype]
      unfold treeEntry
      rw [withDefaults_dst, treeAdj_dst]
      exact hdst
    unfold addTreeEnts at hok
    simp only [] at hok
    split at hok
    · split at hok
      · exact absurd hok (by simp)
      · split at hok
        · rename_i p hp
          split at hok
          · split at hok
            · exact ih m hnd hok
            · exact absurd hok (by simp)
          · rename_i himp
            have himp' : p.type = T.implicitDir := by simpa using himp
            obtain ⟨h1, h2⟩ := ih _ (CMap.nodup_insert m _ _ hnd) hok
            exact ⟨kept_trans (kept_insert_implicit m _ _ p hnd hp himp') h1, h2⟩
        · rename_i hnone
          obtain ⟨h1, h2⟩ := ih _ (CMap.nodup_insert m _ _ hnd) hok
          exact ⟨kept_trans (kept_insert_absent m _ _ ((CMap.lookup_none_iff m _).mp hnone)) h1, h2⟩
    · rename_i hdir
      rw [if_neg hdir] at hshape
      split at hok
      · exact absurd hok (by simp)
      · rename_i hocc
        obtain ⟨hf, _⟩ := occupant_none m _ hocc
        obtain ⟨h1, h2⟩ := ih _ (CMap.nodup_insert m _ _ hnd) hok
        refine ⟨kept_trans (kept_insert_absent m _ _ ?_) h1, h2⟩
        rw [hshape]; exact hf

theorem kept_addTree (O : Oracle) (u : Nat) (mt : Int) (i : Nat) (tree : Content)
    (m m' : CMap) (hnd : m.keys.Nodup) (hok : addTree O u mt i tree m = .ok m') : Kept m m' ∧ m'.keys.Nodup := by
  unfold addTree at hok
  simp only [] at hok
  split at hok
  · exact absurd hok (by simp)
  · split at hok
    · exact absurd hok (by simp)
    · rename_i m1 hm1
      split at hok
      · obtain ⟨h1, h2⟩ := kept_addTreeEnts O u mt tree _ m1 m' (nodup_addParentsL mt _ m m1 hnd hm1) hok
        exact ⟨kept_trans (sub_kept (sub_addParents mt _ m m1 hm1)) h1, h2⟩
      · exact absurd hok (by simp)

/-- one step of the loop keeps every accepted entry, and – when it accepts a directory or file-like request –
    the planned entry for that request is in the map under its key -/
theorem kept_planStep (O : Oracle) (cfg : PlanCfg) (m m' : CMap) (ic : Nat × Content) (hnd : m.keys.Nodup)
    (hok : planStep O cfg m ic = .ok m') : Kept m m' ∧ m'.keys.Nodup := by
  obtain ⟨i, c⟩ := ic
  unfold planStep at hok
  simp only [] at hok
  split at hok
  · simp at hok; subst hok; exact ⟨kept_refl m, hnd⟩
  · split at hok
    · -- dir
      split at hok
      · exact absurd hok (by simp)
      · rename_i hocc
        split at hok
        · exact absurd hok (by simp)
        · rename_i m1 hm1
          simp at hok; subst hok
          have hnd1 := nodup_addParentsL cfg.mtime _ m m1 hnd hm1
          have hs := sub_addParents cfg.mtime _ m m1 hm1
          refine ⟨kept_trans (sub_kept hs) ?_, CMap.nodup_insert m1 _ _ hnd1⟩
          -- the key is absent, or holds an implied directory
          unfold dirOccupied at hocc
          simp only [Bool.or_eq_true, not_or, Bool.not_eq_true, Option.isSome_eq_false_iff, Option.isNone_iff_eq_none] at hocc
          cases hl : m.lookup (normDir c.dst) with
          | none =>
            have : normDir c.dst ∉ m1.keys :=
              addParents_self_dir cfg.mtime c.dst m m1 hm1 ((CMap.lookup_none_iff m _).mp hl)
            exact kept_insert_absent m1 _ _ this
          | some p =>
            have hp : p.type = T.implicitDir := by
              have := hocc.1
              simp only [hl] at this
              simpa using this
            exact kept_insert_implicit m1 _ _ p hnd1 (lookup_sub m m1 hs hnd1 _ p hl) hp
    · simp at hok; subst hok; exact ⟨kept_refl m, hnd⟩
    · -- fileLike
      split at hok
      · exact absurd hok (by simp)
      · rename_i hocc
        split at hok
        · exact absurd hok (by simp)
        · rename_i m1 hm1
          simp at hok; subst hok
          obtain ⟨hf, _⟩ := occupant_none m _ hocc
          have hnd1 := nodup_addParentsL cfg.mtime _ m m1 hnd hm1
          refine ⟨kept_trans (sub_kept (sub_addParents cfg.mtime _ m m1 hm1)) (kept_insert_absent m1 _ _ ?_),
            CMap.nodup_insert m1 _ _ hnd1⟩
          exact addParents_file_keys cfg.mtime _ m m1 hm1 c.dst hf
    · exact kept_addTree O cfg.umask cfg.mtime i c m m' hnd hok
    · split at hok
      · exact absurd hok (by simp)
      · split at hok
        · exact absurd hok (by simp)
        · exact ⟨kept_addGlobbed O cfg.umask cfg.mtime c _ m m' hok, nodup_addGlobbed O cfg.umask cfg.mtime c _ m m' hnd hok⟩
    · exact absurd hok (by simp)

theorem kept_planMap (O : Oracle) (cfg : PlanCfg) (ics : List (Nat × Content)) (m m' : CMap) (hnd : m.keys.Nodup)
    (hok : planMap O cfg ics m = .ok m') : Kept m m' ∧ m'.keys.Nodup := by
  induction ics generalizing m with
  | nil => simp [planMap] at hok; subst hok; exact ⟨kept_refl m, hnd⟩
  | cons ic rest ih =>
    unfold planMap at hok
    split at hok
    · exact absurd hok (by simp)
    · rename_i m1 hm1
      obtain ⟨h1, hn1⟩ := kept_planStep O cfg m m1 ic hnd hm1
      obtain ⟨h2, hn2⟩ := ih m1 hn1 hok
      exact ⟨kept_trans h1 h2, hn2⟩

end Nfpm

namespace Nfpm
open B Path Spec

theorem planMap_append (O : Oracle) (cfg : PlanCfg) (a b : List (Nat × Content)) (m m' : CMap)
    (h : planMap O cfg (a ++ b) m = .ok m') : ∃ m1, planMap O cfg a m = .ok m1 ∧ planMap O cfg b m1 = .ok m' := by
  induction a generalizing m with
  | nil => exact ⟨m, by simp [planMap], by simpa using h⟩
  | cons x rest ih =>
    simp only [List.cons_append] at h
    unfold planMap at h
    split at h
    · exact absurd h (by simp)
    · rename_i m0 hm0
      obtain ⟨m1, h1, h2⟩ := ih m0 h
      refine ⟨m1, ?_, h2⟩
      unfold planMap
      rw [hm0]
      exact h1

theorem mem_zipIdx {α} (l : List α) (x : α) (h : x ∈ l) : ∃ i, (i, x) ∈ zipIdx l := by
  unfold zipIdx
  obtain ⟨n, hn, rfl⟩ := List.mem_iff_getElem.mp h
  refine ⟨n, ?_⟩
  rw [List.mem_iff_getElem]
  refine ⟨n, by simp [hn], ?_⟩
  simp

/-- the entry planned for an accepted directory / file-like request -/
def plannedFor (O : Oracle) (cfg : PlanCfg) (c : Content) : Bytes × Content :=
  let cc := withDefaults O cfg.umask cfg.mtime c
  let k := if classify c.type = .dir then normDir c.dst else normFile c.dst
  (k, { cc with src := toNix cc.src, dst := k })

theorem planStep_inserts (O : Oracle) (cfg : PlanCfg) (m m' : CMap) (i : Nat) (c : Content)
    (hrel : isRelevant cfg.packager c = true) (hcls : classify c.type = .dir ∨ classify c.type = .fileLike)
    (hok : planStep O cfg m (i, c) = .ok m') : plannedFor O cfg c ∈ m' := by
  unfold planStep at hok
  simp only [hrel, Bool.not_true, Bool.false_eq_true, if_false] at hok
  rcases hcls with hc | hc
  · simp only [hc] at hok
    split at hok
    · exact absurd hok (by simp)
    · split at hok
      · exact absurd hok (by simp)
      · simp at hok; subst hok
        unfold plannedFor
        simp only [hc, if_true]
        exact CMap.mem_insert_self _ _ _
  · simp only [hc] at hok
    split at hok
    · exact absurd hok (by simp)
    · split at hok
      · exact absurd hok (by simp)
      · simp at hok; subst hok
        unfold plannedFor
        simp only [hc, reduceCtorEq, if_false]
        exact CMap.mem_insert_self _ _ _

end Nfpm

namespace Nfpm
open B Path Spec

/-- a directory or file-like request for a path at which an accepted entry already sits is rejected -/
theorem planStep_rejects_occupied (O : Oracle) (cfg : PlanCfg) (m m' : CMap) (i : Nat) (c : Content)
    (hrel : isRelevant cfg.packager c = true) (hcls : classify c.type = .dir ∨ classify c.type = .fileLike)
    (hnd : m.keys.Nodup) (p : Bytes × Content) (hp : p ∈ m) (hty : p.2.type ≠ T.implicitDir)
    (hk : p.1 = normFile c.dst ∨ p.1 = normDir c.dst) : planStep O cfg m (i, c) ≠ .ok m' := by
  intro hok
  have hl := CMap.lookup_of_mem_nodup m hnd p hp
  unfold planStep at hok
  simp only [hrel, Bool.not_true, Bool.false_eq_true, if_false] at hok
  rcases hcls with hc | hc
  · simp only [hc] at hok
    have hocc : dirOccupied m c.dst = true := by
      unfold dirOccupied
      rcases hk with e | e
      · rw [e] at hl; simp [hl]
      · rw [e] at hl; simp [hl, hty]
    simp [hocc] at hok
  · simp only [hc] at hok
    have hocc : ∃ v, occupant m c.dst = some v := by
      unfold occupant
      rcases hk with e | e
      · rw [e] at hl; exact ⟨p.2, by simp [hl]⟩
      · rw [e] at hl
        cases hf : m.lookup (normFile c.dst) with
        | some v => exact ⟨v, by simp⟩
        | none => exact ⟨p.2, by simp [hl]⟩
    obtain ⟨v, hv⟩ := hocc
    simp [hv] at hok

end Nfpm
