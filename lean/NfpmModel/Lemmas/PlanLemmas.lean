import NfpmModel.Lemmas.PathLemmas
import NfpmModel.Lemmas.MapLemmas
import NfpmModel.Lemmas.Order
/-
  Invariants of the destination map while planning (all content lists, all
  oracles): keys unique, every entry stored under its own normalised
  destination with the right trailing-slash shape, every entry relevant for
  the packager.
-/
namespace Nfpm
open B Path Spec

/-- the key an entry is stored under is its destination, normalised in the
    shape that fits its type -/
def KeyOK (k : Bytes) (c : Content) : Prop :=
  c.dst = k ∧ ∃ x, k = (if isDirType c.type then normDir x else normFile x)

structure Inv (pk : Bytes) (m : CMap) : Prop where
  nodup : m.keys.Nodup
  keyok : ∀ p ∈ m, KeyOK p.1 p.2
  rel : ∀ p ∈ m, relevantEntry pk p.2 = true

theorem inv_nil (pk : Bytes) : Inv pk [] := ⟨by simp [CMap.keys], by simp, by simp⟩

theorem inv_insert {pk : Bytes} {m : CMap} (h : Inv pk m) (k : Bytes) (v : Content)
    (hk : KeyOK k v) (hr : relevantEntry pk v = true) : Inv pk (m.insert k v) := by
  refine ⟨CMap.nodup_insert m k v h.nodup, ?_, ?_⟩
  · intro p hp
    rcases CMap.mem_insert m k v p hp with e | e
    · subst e; exact hk
    · exact h.keyok p e
  · intro p hp
    rcases CMap.mem_insert m k v p hp with e | e
    · subst e; exact hr
    · exact h.rel p e

theorem withDefaults_type (O : Oracle) (u : Nat) (mt : Int) (c : Content) :
    (withDefaults O u mt c).type = if c.type = [] then T.file else c.type := by
  unfold withDefaults; simp only []

theorem withDefaults_dst (O : Oracle) (u : Nat) (mt : Int) (c : Content) :
    (withDefaults O u mt c).dst = c.dst := by
  unfold withDefaults; simp only []

theorem withDefaults_packager (O : Oracle) (u : Nat) (mt : Int) (c : Content) :
    (withDefaults O u mt c).packager = c.packager := by
  unfold withDefaults; simp only []

/-- a type that exists in every format -/
def commonType (t : Bytes) : Bool :=
  !(t == T.doc || t == T.licence || t == T.license || t == T.readme || t == T.ghost) && t != T.debChangelog

theorem relevantEntry_of_common (pk : Bytes) (c : Content) (hp : c.packager = [] ∨ c.packager = pk ∨ pk = [])
    (ht : commonType c.type = true) : relevantEntry pk c = true := by
  unfold relevantEntry
  unfold commonType at ht
  simp only [Bool.and_eq_true, Bool.not_eq_true', bne_iff_ne, ne_eq] at ht
  obtain ⟨h1, h2⟩ := ht
  by_cases hpk : pk = []
  · simp [hpk]
  · have : c.packager = [] ∨ c.packager = pk := by
      rcases hp with h | h | h
      · exact Or.inl h
      · exact Or.inr h
      · exact absurd h hpk
    simp only [hpk, decide_false, Bool.false_or, Bool.and_eq_true, Bool.or_eq_true, decide_eq_true_eq,
      Bool.not_eq_true', bne_iff_ne, ne_eq]
    exact ⟨⟨this, Or.inr h1⟩, Or.inr h2⟩

theorem relevantEntry_implicit (pk k : Bytes) (mt : Int) : relevantEntry pk (implicitDirEntry k mt) = true := by
  apply relevantEntry_of_common
  · left; rfl
  · show commonType T.implicitDir = true; decide

theorem keyOK_implicit (p : Bytes) (mt : Int) : KeyOK (normDir p) (implicitDirEntry (normDir p) mt) := by
  refine ⟨rfl, p, ?_⟩
  have : isDirType (implicitDirEntry (normDir p) mt).type = true := by
    show isDirType T.implicitDir = true; decide
  rw [this]; rfl

theorem inv_addParentsL {pk : Bytes} (mt : Int) (ps : List Bytes) (m m' : CMap) (h : Inv pk m)
    (hok : addParentsL mt ps m = .ok m') : Inv pk m' := by
  induction ps generalizing m with
  | nil => simp [addParentsL] at hok; subst hok; exact h
  | cons p rest ih =>
    unfold addParentsL at hok
    split at hok
    · exact absurd hok (by simp)
    · simp only [] at hok
      split at hok
      · split at hok
        · exact ih m h hok
        · exact absurd hok (by simp)
      · exact ih _ (inv_insert h _ _ (keyOK_implicit p mt) (relevantEntry_implicit pk _ mt)) hok

theorem inv_addParents {pk : Bytes} (mt : Int) (path : Bytes) (m m' : CMap) (h : Inv pk m)
    (hok : addParents m path mt = .ok m') : Inv pk m' :=
  inv_addParentsL mt _ m m' h hok

/-- relevance of an entry derived from a relevant raw entry whose type is kept
    (or defaulted / replaced by a type that exists everywhere) -/
theorem relevantEntry_of_isRelevant (pk : Bytes) (c e : Content) (hrel : isRelevant pk c = true)
    (hp : e.packager = c.packager) (ht : e.type = c.type ∨ commonType e.type = true) :
    relevantEntry pk e = true := by
  by_cases hpk : pk = []
  · unfold relevantEntry; simp [hpk]
  · unfold isRelevant at hrel
    simp only [hpk, if_false] at hrel
    split at hrel
    · exact absurd hrel (by simp)
    · rename_i h1
      split at hrel
      · exact absurd hrel (by simp)
      · rename_i h2
        split at hrel
        · exact absurd hrel (by simp)
        · rename_i h3
          have hpk' : e.packager = [] ∨ e.packager = pk := by
            rw [hp]
            by_cases hc : c.packager = []
            · exact Or.inl hc
            · right
              simp only [ne_eq, hc, not_false_eq_true, decide_true, Bool.true_and, decide_eq_true_eq,
                Decidable.not_not] at h1
              exact h1
          rcases ht with ht | ht
          · unfold relevantEntry
            rw [ht]
            simp only [hpk, decide_false, Bool.false_or, Bool.and_eq_true, Bool.or_eq_true, decide_eq_true_eq,
              Bool.not_eq_true']
            refine ⟨⟨hpk', ?_⟩, ?_⟩
            · by_cases hr : pk = P.rpm
              · exact Or.inl hr
              · right
                simp only [ne_eq, hr, not_false_eq_true, decide_true, Bool.true_and, Bool.not_eq_true] at h2
                exact h2
            · by_cases hd : pk = P.deb
              · exact Or.inl hd
              · right
                simp only [ne_eq, hd, not_false_eq_true, decide_true, Bool.true_and, Bool.not_eq_true,
                  beq_eq_false_iff_ne] at h3
                simpa [bne_iff_ne] using h3
          · exact relevantEntry_of_common pk e (by rcases hpk' with h | h; exact Or.inl h; exact Or.inr (Or.inl h)) ht

end Nfpm

namespace Nfpm
open B Path Spec

theorem classify_dir (t : Bytes) (h : classify t = .dir) : t = T.dir := by
  unfold classify at h
  split at h
  · assumption
  · split at h
    · exact absurd h (by simp)
    · split at h
      · exact absurd h (by simp)
      · split at h
        · exact absurd h (by simp)
        · split at h <;> exact absurd h (by simp)

theorem classify_fileLike (t : Bytes) (h : classify t = .fileLike) :
    t = T.ghost ∨ t = T.symlink ∨ t = T.doc ∨ t = T.licence ∨ t = T.license ∨ t = T.readme ∨ t = T.debChangelog := by
  unfold classify at h
  split at h
  · exact absurd h (by simp)
  · split at h
    · exact absurd h (by simp)
    · split at h
      · rename_i hh
        simp only [Bool.or_eq_true, decide_eq_true_eq] at hh
        rcases hh with ((((((h1 | h1) | h1) | h1) | h1) | h1) | h1)
        all_goals simp [h1]
      · split at h
        · exact absurd h (by simp)
        · split at h <;> exact absurd h (by simp)

theorem classify_globbed (t : Bytes) (h : classify t = .globbed) :
    t = T.config ∨ t = T.configNoReplace ∨ t = T.configMissingOk ∨ t = T.file ∨ t = [] := by
  unfold classify at h
  split at h
  · exact absurd h (by simp)
  · split at h
    · exact absurd h (by simp)
    · split at h
      · exact absurd h (by simp)
      · split at h
        · exact absurd h (by simp)
        · split at h
          · rename_i hh
            simp only [Bool.or_eq_true, decide_eq_true_eq] at hh
            rcases hh with ((((h1 | h1) | h1) | h1) | h1)
            all_goals simp [h1]
          · exact absurd h (by simp)

theorem fileLike_not_dir (t : Bytes) (h : classify t = .fileLike) : isDirType t = false ∧ t ≠ [] := by
  rcases classify_fileLike t h with h | h | h | h | h | h | h <;> subst h <;> exact ⟨by decide, by decide⟩

theorem globbed_default_not_dir (t : Bytes) (h : classify t = .globbed) :
    isDirType (if t = [] then T.file else t) = false := by
  rcases classify_globbed t h with h | h | h | h | h <;> subst h <;> decide

theorem treeAdj_dst (tree c : Content) : (treeAdj tree c).dst = c.dst := by
  unfold treeAdj; cases tree.info with
  | none => rfl
  | some fi => simp only []; split <;> rfl

theorem treeAdj_type (tree c : Content) : (treeAdj tree c).type = c.type := by
  unfold treeAdj; cases tree.info with
  | none => rfl
  | some fi => simp only []; split <;> rfl

theorem treeAdj_packager (tree c : Content) : (treeAdj tree c).packager = c.packager := by
  unfold treeAdj; cases tree.info with
  | none => rfl
  | some fi => simp only []; split <;> rfl

theorem treeBase_packager (u : Nat) (tree : Content) (e : WalkEnt) : (treeBase u tree e).packager = [] := by
  unfold treeBase; cases e.kind <;> rfl

theorem treeBase_shape (u : Nat) (tree : Content) (e : WalkEnt) :
    ((treeBase u tree e).type ≠ [] ∧ commonType (treeBase u tree e).type = true) ∧
    (treeBase u tree e).dst =
      (if isDirType (treeBase u tree e).type then normDir (join2 tree.dst e.rel) else normFile (join2 tree.dst e.rel)) := by
  unfold treeBase
  cases e.kind with
  | dir =>
    simp only []
    by_cases hfs : ownedByFs (normDir (join2 tree.dst e.rel)) = true
    · simp only [hfs, if_true]
      refine ⟨⟨?_, ?_⟩, ?_⟩
      · show T.implicitDir ≠ []; decide
      · show commonType T.implicitDir = true; decide
      · rw [if_pos (show isDirType T.implicitDir = true by decide)]
    · simp only [hfs]
      refine ⟨⟨?_, ?_⟩, ?_⟩
      · show T.dir ≠ []; decide
      · show commonType T.dir = true; decide
      · simp only [Bool.false_eq_true, if_false]
        rw [if_pos (show isDirType T.dir = true by decide)]
  | symlink =>
    simp only []
    refine ⟨⟨?_, ?_⟩, ?_⟩
    · show T.symlink ≠ []; decide
    · show commonType T.symlink = true; decide
    · rw [if_neg (show ¬ isDirType T.symlink = true by decide)]
  | file =>
    simp only []
    refine ⟨⟨?_, ?_⟩, ?_⟩
    · show T.file ≠ []; decide
    · show commonType T.file = true; decide
    · rw [if_neg (show ¬ isDirType T.file = true by decide)]

/-- every entry a tree walk produces is stored under its own well-shaped key and is relevant -/
theorem treeEntry_ok (pk : Bytes) (O : Oracle) (u : Nat) (mt : Int) (tree : Content) (e : WalkEnt) :
    KeyOK (treeEntry O u mt tree e).dst (treeEntry O u mt tree e) ∧
    relevantEntry pk (treeEntry O u mt tree e) = true := by
  obtain ⟨⟨hne, hcommon⟩, hdst⟩ := treeBase_shape u tree e
  have htype : (treeEntry O u mt tree e).type = (treeBase u tree e).type := by
    unfold treeEntry; rw [withDefaults_type, treeAdj_type, if_neg hne]
  constructor
  · refine ⟨rfl, join2 tree.dst e.rel, ?_⟩
    rw [htype]
    unfold treeEntry
    rw [withDefaults_dst, treeAdj_dst]
    exact hdst
  · apply relevantEntry_of_common
    · left; unfold treeEntry; rw [withDefaults_packager, treeAdj_packager, treeBase_packager]
    · rw [htype]; exact hcommon

end Nfpm

namespace Nfpm
open B Path Spec

theorem inv_addTreeEnts {pk : Bytes} (O : Oracle) (u : Nat) (mt : Int) (tree : Content)
    (ents : List WalkEnt) (m m' : CMap) (h : Inv pk m)
    (hok : addTreeEnts O u mt tree ents m = .ok m') : Inv pk m' := by
  induction ents generalizing m with
  | nil => simp [addTreeEnts] at hok; subst hok; exact h
  | cons e rest ih =>
    have hk := treeEntry_ok pk O u mt tree e
    unfold addTreeEnts at hok
    simp only [] at hok
    split at hok
    · split at hok
      · exact absurd hok (by simp)
      · split at hok
        · split at hok
          · split at hok
            · exact ih m h hok
            · exact absurd hok (by simp)
          · exact ih _ (inv_insert h _ _ hk.1 hk.2) hok
        · exact ih _ (inv_insert h _ _ hk.1 hk.2) hok
    · split at hok
      · exact absurd hok (by simp)
      · exact ih _ (inv_insert h _ _ hk.1 hk.2) hok

theorem inv_addTree {pk : Bytes} (O : Oracle) (u : Nat) (mt : Int) (i : Nat) (tree : Content)
    (m m' : CMap) (h : Inv pk m) (hok : addTree O u mt i tree m = .ok m') : Inv pk m' := by
  unfold addTree at hok
  simp only [] at hok
  split at hok
  · exact absurd hok (by simp)
  · split at hok
    · exact absurd hok (by simp)
    · rename_i m1 hm1
      split at hok
      · exact inv_addTreeEnts O u mt tree _ m1 m' (inv_addParents mt _ m m1 h hm1) hok
      · exact absurd hok (by simp)

theorem inv_addGlobbed {pk : Bytes} (O : Oracle) (u : Nat) (mt : Int) (orig : Content)
    (hrel : isRelevant pk orig = true) (hcls : classify orig.type = .globbed)
    (pairs : List (Bytes × Bytes)) (m m' : CMap) (h : Inv pk m)
    (hok : addGlobbed O u mt orig pairs m = .ok m') : Inv pk m' := by
  induction pairs generalizing m with
  | nil => simp [addGlobbed] at hok; subst hok; exact h
  | cons p rest ih =>
    obtain ⟨src, dst⟩ := p
    unfold addGlobbed at hok
    simp only [] at hok
    split at hok
    · exact absurd hok (by simp)
    · split at hok
      · exact absurd hok (by simp)
      · rename_i m1 hm1
        have h1 := inv_addParents mt _ m m1 h hm1
        refine ih _ (inv_insert h1 _ _ ?_ ?_) hok
        · -- key shape
          cases hl : O.readlink src with
          | none =>
            simp only []
            refine ⟨?_, dst, ?_⟩
            · rw [withDefaults_dst]; exact normFile_idem dst
            · rw [withDefaults_type]
              simp only []
              rw [globbed_default_not_dir _ hcls]; simp
          | some tgt =>
            simp only []
            refine ⟨?_, dst, ?_⟩
            · show (withDefaults O u mt _).dst = normFile dst
              rw [withDefaults_dst]; exact normFile_idem dst
            · rw [if_neg (show ¬ isDirType T.symlink = true by decide)]
        · cases hl : O.readlink src with
          | none =>
            simp only []
            refine relevantEntry_of_isRelevant pk orig _ hrel ?_ ?_
            · rw [withDefaults_packager]
            · rw [withDefaults_type]
              simp only []
              by_cases ht : orig.type = []
              · right; rw [if_pos ht]; decide
              · left; rw [if_neg ht]
          | some tgt =>
            simp only []
            refine relevantEntry_of_isRelevant pk orig _ hrel ?_ ?_
            · exact withDefaults_packager O u mt _
            · right; show commonType T.symlink = true; decide

theorem inv_planStep {pk : Bytes} (O : Oracle) (cfg : PlanCfg) (hpk : cfg.packager = pk) (m m' : CMap)
    (ic : Nat × Content) (h : Inv pk m) (hok : planStep O cfg m ic = .ok m') : Inv pk m' := by
  obtain ⟨i, c⟩ := ic
  unfold planStep at hok
  simp only [] at hok
  split at hok
  · simp at hok; subst hok; exact h
  · rename_i hrel
    simp only [Bool.not_eq_true, Bool.not_eq_false'] at hrel
    rw [hpk] at hrel
    split at hok
    · -- dir
      rename_i hcls
      have ht := classify_dir _ hcls
      split at hok
      · exact absurd hok (by simp)
      · split at hok
        · exact absurd hok (by simp)
        · rename_i m1 hm1
          simp at hok; subst hok
          have h1 := inv_addParents cfg.mtime _ m m1 h hm1
          refine inv_insert h1 _ _ ?_ ?_
          · refine ⟨rfl, c.dst, ?_⟩
            simp only []
            rw [withDefaults_type, ht]
            rw [if_neg (show ¬ T.dir = [] by decide), if_pos (show isDirType T.dir = true by decide)]
          · apply relevantEntry_of_isRelevant pk c _ hrel
            · simp only []; rw [withDefaults_packager]
            · left; simp only []; rw [withDefaults_type, ht]; rw [if_neg (show ¬ T.dir = [] by decide)]
    · simp at hok; subst hok; exact h
    · -- fileLike
      rename_i hcls
      have ⟨hnd, hne⟩ := fileLike_not_dir _ hcls
      split at hok
      · exact absurd hok (by simp)
      · split at hok
        · exact absurd hok (by simp)
        · rename_i m1 hm1
          simp at hok; subst hok
          have h1 := inv_addParents cfg.mtime _ m m1 h hm1
          refine inv_insert h1 _ _ ?_ ?_
          · refine ⟨rfl, c.dst, ?_⟩
            simp only []
            rw [withDefaults_type, if_neg hne, hnd]; simp
          · apply relevantEntry_of_isRelevant pk c _ hrel
            · simp only []; rw [withDefaults_packager]
            · left; simp only []; rw [withDefaults_type, if_neg hne]
    · exact inv_addTree O cfg.umask cfg.mtime i c m m' h hok
    · rename_i hcls
      split at hok
      · exact absurd hok (by simp)
      · split at hok
        · exact absurd hok (by simp)
        · exact inv_addGlobbed O cfg.umask cfg.mtime c hrel hcls _ m m' h hok
    · exact absurd hok (by simp)

theorem inv_planMap {pk : Bytes} (O : Oracle) (cfg : PlanCfg) (hpk : cfg.packager = pk)
    (ics : List (Nat × Content)) (m m' : CMap) (h : Inv pk m)
    (hok : planMap O cfg ics m = .ok m') : Inv pk m' := by
  induction ics generalizing m with
  | nil => simp [planMap] at hok; subst hok; exact h
  | cons ic rest ih =>
    unfold planMap at hok
    split at hok
    · exact absurd hok (by simp)
    · rename_i m1 hm1
      exact ih m1 (inv_planStep O cfg hpk m m1 ic h hm1) hok

end Nfpm
