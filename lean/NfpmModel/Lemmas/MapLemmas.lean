import NfpmModel.Contents
/-
  The destination map of files.PrepareForPackager as an association list:
  lookup / insert facts.
-/
namespace Nfpm
open B

namespace CMap

theorem lookup_none_iff (m : CMap) (k : Bytes) : m.lookup k = none ↔ k ∉ m.keys := by
  induction m with
  | nil => simp [lookup, keys]
  | cons p rest ih =>
    obtain ⟨k', v⟩ := p
    unfold lookup
    by_cases h : k' = k
    · simp [h, keys]
    · simp only [h, if_false, keys, List.map_cons, List.mem_cons, not_or]
      rw [ih]
      constructor
      · intro hh; exact ⟨fun e => h e.symm, hh⟩
      · intro hh; exact hh.2

theorem lookup_some_mem (m : CMap) (k : Bytes) (c : Content) : m.lookup k = some c → (k, c) ∈ m := by
  induction m with
  | nil => simp [lookup]
  | cons p rest ih =>
    obtain ⟨k', v⟩ := p
    unfold lookup
    by_cases h : k' = k
    · simp only [h, if_true, Option.some.injEq]
      intro e; subst e; simp
    · simp only [h, if_false]
      intro hh; exact List.mem_cons_of_mem _ (ih hh)

theorem lookup_some_key (m : CMap) (k : Bytes) (c : Content) : m.lookup k = some c → k ∈ m.keys := by
  intro h
  have := lookup_some_mem m k c h
  exact List.mem_map.mpr ⟨(k, c), this, rfl⟩

theorem mem_insert (m : CMap) (k : Bytes) (v : Content) (p : Bytes × Content) :
    p ∈ m.insert k v → p = (k, v) ∨ p ∈ m := by
  induction m with
  | nil => simp [insert]
  | cons q rest ih =>
    obtain ⟨k', v'⟩ := q
    unfold insert
    by_cases h : k' = k
    · simp only [h, if_true, List.mem_cons]
      intro hp
      rcases hp with e | e
      · left; exact e
      · right; right; exact e
    · simp only [h, if_false, List.mem_cons]
      intro hp
      rcases hp with e | e
      · right; left; exact e
      · rcases ih e with r | r
        · left; exact r
        · right; right; exact r

theorem keys_insert (m : CMap) (k : Bytes) (v : Content) :
    (m.insert k v).keys = if k ∈ m.keys then m.keys else m.keys ++ [k] := by
  induction m with
  | nil => simp [insert, keys]
  | cons q rest ih =>
    obtain ⟨k', v'⟩ := q
    unfold insert
    by_cases h : k' = k
    · simp [h, keys]
    · have h' : ¬ k = k' := fun e => h e.symm
      simp only [h, if_false, keys, List.map_cons, List.mem_cons, h', false_or]
      have ih' := ih
      simp only [keys] at ih'
      rw [ih']
      split
      · rename_i hk; simp [hk]
      · rename_i hk; simp [hk]

theorem keys_subset_insert (m : CMap) (k : Bytes) (v : Content) : ∀ x ∈ m.keys, x ∈ (m.insert k v).keys := by
  intro x hx
  rw [keys_insert]
  split
  · exact hx
  · exact List.mem_append_left _ hx

theorem key_mem_insert (m : CMap) (k : Bytes) (v : Content) : k ∈ (m.insert k v).keys := by
  rw [keys_insert]
  split
  · assumption
  · simp

theorem nodup_insert (m : CMap) (k : Bytes) (v : Content) (h : m.keys.Nodup) : (m.insert k v).keys.Nodup := by
  rw [keys_insert]
  split
  · exact h
  · rename_i hk
    rw [List.nodup_append]
    refine ⟨h, by simp, ?_⟩
    intro a ha b hb
    simp at hb
    subst hb
    intro e; subst e; exact hk ha

end CMap
end Nfpm
