import NfpmModel.ApkControl
/-
  The apk control segment: every member is found under its name – .PKGINFO always, a script slot iff configured, with
  the configured bytes, mode 0755, the script file's mtime and the checksum record of those bytes.
-/
set_option linter.unusedSimpArgs false
set_option linter.unusedVariables false
namespace Nfpm.ApkCtl
open Nfpm B

theorem lookup_slots (sha1hex : Bytes → Bytes) (scripts : Bytes → Option (Bytes × Nat)) (sl : List Bytes)
    (hnd : sl.Nodup) (n : Bytes) (hn : n ∈ sl) :
    lookup n (sl.filterMap (fun t => (scripts t).map (fun p => scriptMember sha1hex t p.1 p.2)))
      = (scripts n).map (fun p => scriptMember sha1hex n p.1 p.2) := by
  induction sl with
  | nil => simp at hn
  | cons t rest ih =>
    simp only [List.nodup_cons] at hnd
    simp only [List.filterMap_cons]
    rcases List.mem_cons.mp hn with rfl | hin
    · cases hb : scripts n with
      | some b => simp [lookup, scriptMember, List.find?]
      | none =>
        simp only [Option.map_none]
        unfold lookup
        rw [List.find?_eq_none]
        intro m hm
        obtain ⟨u, hu, hum⟩ := List.mem_filterMap.mp hm
        cases hc : scripts u with
        | none => rw [hc] at hum; simp at hum
        | some c =>
          rw [hc] at hum
          simp only [Option.map_some, Option.some.injEq] at hum
          subst hum
          simp only [scriptMember]
          intro e
          have e' : u = n := of_decide_eq_true e
          exact hnd.1 (e' ▸ hu)
    · have hne : t ≠ n := fun e => hnd.1 (e ▸ hin)
      cases hb : scripts t with
      | none => simpa using ih hnd.2 hin
      | some b =>
        simp only [Option.map_some, lookup, List.find?_cons, scriptMember, hne, decide_false]
        exact ih hnd.2 hin

/-- **members by name** -/
theorem lookup_members (sha1hex : Bytes → Bytes) (pkginfo : Bytes) (scripts : Bytes → Option (Bytes × Nat)) (mtime : Nat) :
    lookup b!".PKGINFO" (members sha1hex pkginfo scripts mtime) = some (pkginfoMember pkginfo mtime)
    ∧ ∀ n ∈ slots, lookup n (members sha1hex pkginfo scripts mtime) = (scripts n).map (fun p => scriptMember sha1hex n p.1 p.2) := by
  refine ⟨by simp [members, lookup, pkginfoMember], ?_⟩
  intro n hn
  have hkey := lookup_slots sha1hex scripts slots (by decide) n hn
  unfold members
  unfold lookup at hkey ⊢
  have hne : decide ((pkginfoMember pkginfo mtime).hdr.name = n) = false := by
    apply decide_eq_false
    simp only [slots, List.mem_cons, List.mem_nil_iff, or_false] at hn
    rcases hn with rfl | rfl | rfl | rfl | rfl | rfl <;> simp [pkginfoMember] <;> decide
  rw [List.find?_cons, hne]
  exact hkey

/-- the checksum record of a script member is the hash of the bytes the member carries -/
theorem script_checksum (sha1hex : Bytes → Bytes) (name body : Bytes) (mtime : Nat) :
    (scriptMember sha1hex name body mtime).pax = [(b!"APK-TOOLS.checksum.SHA1", sha1hex (scriptMember sha1hex name body mtime).body)] := rfl

end Nfpm.ApkCtl
