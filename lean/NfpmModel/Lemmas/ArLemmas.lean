import NfpmModel.Ar
import NfpmModel.Lemmas.PathLemmas
/-
  Helper lemmas for the ar round trip: decimal rendering / reading, blank-padded fields.
-/
set_option linter.unusedSimpArgs false
namespace Nfpm.Ar
open Nfpm B

/-! ### decimal -/

/-- positional value, most significant digit first -/
def valR : Bytes → Nat
  | [] => 0
  | c :: cs => (c.toNat - 48) * 10 ^ cs.length + valR cs

theorem foldl_dec (s : Bytes) (a : Nat) :
    s.foldl (fun a c => a * 10 + (c.toNat - 48)) a = a * 10 ^ s.length + valR s := by
  induction s generalizing a with
  | nil => simp [valR]
  | cons c cs ih =>
    simp only [List.foldl_cons, List.length_cons, valR]
    rw [ih, Nat.pow_succ, Nat.add_mul, Nat.mul_assoc, Nat.mul_comm 10 (10 ^ cs.length), Nat.add_assoc]

theorem decVal_eq (s : Bytes) : decVal s = valR s := by
  unfold decVal; rw [foldl_dec]; simp

theorem digit_toNat (n : Nat) (h : n < 10) : ((48 + n).toUInt8).toNat - 48 = n := by
  have : (48 + n).toUInt8.toNat = 48 + n := by
    simp only [Nat.toUInt8, UInt8.toNat_ofNat']
    omega
  omega

theorem digit_isDigit (n : Nat) (h : n < 10) : isDigitB (48 + n).toUInt8 = true := by
  have : (48 + n).toUInt8.toNat = 48 + n := by
    simp only [Nat.toUInt8, UInt8.toNat_ofNat']
    omega
  simp only [isDigitB, Bool.and_eq_true, decide_eq_true_eq, UInt8.le_iff_toNat_le, this]
  constructor <;> simp <;> omega

theorem digit_ne_space (n : Nat) (h : n < 10) : (48 + n).toUInt8 ≠ space := by
  intro e
  have h1 : (48 + n).toUInt8.toNat = 48 + n := by
    simp only [Nat.toUInt8, UInt8.toNat_ofNat']
    omega
  have h2 := congrArg UInt8.toNat e
  rw [h1] at h2
  simp [space] at h2
  omega

theorem natDigits_val (fuel n : Nat) (acc : Bytes) (h : n < fuel) :
    valR (natDigits fuel n acc) = n * 10 ^ acc.length + valR acc := by
  induction fuel generalizing n acc with
  | zero => omega
  | succ f ih =>
    unfold natDigits
    by_cases h10 : n < 10
    · simp only [h10, if_true, valR, digit_toNat n h10]
    · simp only [h10, if_false]
      rw [ih (n / 10) _ (by omega)]
      simp only [List.length_cons, valR, digit_toNat (n % 10) (Nat.mod_lt _ (by decide))]
      have hd := Nat.div_add_mod n 10
      rw [Nat.pow_succ, ← Nat.add_assoc, Nat.mul_comm (10 ^ acc.length) 10, ← Nat.mul_assoc, ← Nat.add_mul]
      congr 2
      omega

theorem natDigits_all (fuel n : Nat) (acc : Bytes) (hacc : ∀ c ∈ acc, isDigitB c = true ∧ c ≠ space) :
    ∀ c ∈ natDigits fuel n acc, isDigitB c = true ∧ c ≠ space := by
  induction fuel generalizing n acc with
  | zero => simpa [natDigits] using hacc
  | succ f ih =>
    unfold natDigits
    by_cases h10 : n < 10
    · simp only [h10, if_true]
      intro c hc
      rcases List.mem_cons.mp hc with rfl | hc
      · exact ⟨digit_isDigit n h10, digit_ne_space n h10⟩
      · exact hacc c hc
    · simp only [h10, if_false]
      apply ih
      intro c hc
      rcases List.mem_cons.mp hc with rfl | hc
      · exact ⟨digit_isDigit _ (Nat.mod_lt _ (by decide)), digit_ne_space _ (Nat.mod_lt _ (by decide))⟩
      · exact hacc c hc

theorem natDigits_ne_nil (fuel n : Nat) (acc : Bytes) (h : 0 < fuel) : natDigits fuel n acc ≠ [] := by
  induction fuel generalizing n acc with
  | zero => omega
  | succ f ih =>
    unfold natDigits
    by_cases h10 : n < 10
    · simp [h10]
    · simp only [h10, if_false]
      cases f with
      | zero => simp [natDigits]
      | succ g => exact ih _ _ (by omega)

theorem natDigits_length (fuel n k : Nat) (acc : Bytes) (hf : n < fuel) (hk : 1 ≤ k) (h : n < 10 ^ k) :
    (natDigits fuel n acc).length ≤ k + acc.length := by
  induction fuel generalizing n k acc with
  | zero => omega
  | succ f ih =>
    unfold natDigits
    by_cases h10 : n < 10
    · simp only [h10, if_true, List.length_cons]; omega
    · simp only [h10, if_false]
      have hk2 : 2 ≤ k := by
        rcases Nat.lt_or_ge k 2 with hlt | hge
        · have : k = 1 := by omega
          subst this; simp at h; omega
        · exact hge
      have hdiv : n / 10 < 10 ^ (k - 1) := by
        have : 10 ^ k = 10 ^ (k - 1) * 10 := by
          rw [← Nat.pow_succ]; congr 1; omega
        rw [this] at h
        exact Nat.div_lt_of_lt_mul (by rw [Nat.mul_comm]; exact h)
      have := ih (n / 10) (k - 1) ((48 + n % 10).toUInt8 :: acc) (by omega) (by omega) hdiv
      simp only [List.length_cons] at this
      omega

/-- **decimal round trip** -/
theorem decVal_natToDec (n : Nat) : decVal (natToDec n) = n := by
  rw [decVal_eq]; unfold natToDec
  rw [natDigits_val _ _ _ (by omega)]; simp [valR]

theorem natToDec_digits (n : Nat) : ∀ c ∈ natToDec n, isDigitB c = true ∧ c ≠ space :=
  natDigits_all _ _ _ (by simp)

theorem natToDec_ne_nil (n : Nat) : natToDec n ≠ [] := natDigits_ne_nil _ _ _ (by omega)

theorem natToDec_length (n k : Nat) (hk : 1 ≤ k) (h : n < 10 ^ k) : (natToDec n).length ≤ k := by
  have := natDigits_length (n + 1) n k [] (by omega) hk h
  simpa [natToDec] using this

/-! ### blank-padded fields -/

theorem field_length (w : Nat) (s : Bytes) : (field w s).length = w := by
  unfold field
  simp only [List.length_take, List.length_append, List.length_replicate]
  omega

theorem field_of_le (w : Nat) (s : Bytes) (h : s.length ≤ w) : field w s = s ++ List.replicate (w - s.length) space := by
  unfold field
  apply List.take_of_length_le
  simp only [List.length_append, List.length_replicate]
  omega

theorem trimLeft_replicate_append (c : UInt8) (n : Nat) (u : Bytes) : trimLeft c (List.replicate n c ++ u) = trimLeft c u := by
  induction n with
  | zero => simp
  | succ k ih => simp [List.replicate_succ, trimLeft, ih]

theorem trimRight_append_replicate (c : UInt8) (t : Bytes) (n : Nat) : trimRight c (t ++ List.replicate n c) = trimRight c t := by
  unfold trimRight
  rw [List.reverse_append, List.reverse_replicate, trimLeft_replicate_append]

theorem trimRight_id (c : UInt8) (s : Bytes) (h : s.getLast? ≠ some c) : trimRight c s = s := by
  unfold trimRight
  cases hr : s.reverse with
  | nil =>
    have : s = [] := by simpa using hr
    subst this; rfl
  | cons x xs =>
    have hs : s = xs.reverse ++ [x] := by
      have := congrArg List.reverse hr
      simpa using this
    have hx : x ≠ c := by
      intro e; apply h; rw [hs, e]; simp
    simp [trimLeft, hx, hs]

/-- a field gives its content back when the content fits and does not end in a blank -/
theorem trimRight_field (w : Nat) (s : Bytes) (h : s.length ≤ w) (hl : s.getLast? ≠ some space) :
    trimRight space (field w s) = s := by
  rw [field_of_le w s h, trimRight_append_replicate, trimRight_id space s hl]

theorem getLast_of_all_ne (s : Bytes) (c : UInt8) (h : ∀ x ∈ s, x ≠ c) : s.getLast? ≠ some c := by
  intro e
  exact h c (List.mem_of_getLast? e) rfl

/-- **size field round trip** -/
theorem readDec_field (n : Nat) (h : n < 10 ^ 10) : readDec (field 10 (natToDec n)) = some n := by
  unfold readDec
  have hlen := natToDec_length n 10 (by decide) h
  have hd := natToDec_digits n
  rw [trimRight_field 10 _ hlen (getLast_of_all_ne _ _ (fun x hx => (hd x hx).2))]
  have hne := natToDec_ne_nil n
  have hall : (natToDec n).all isDigitB = true := List.all_eq_true.mpr (fun x hx => (hd x hx).1)
  simp [hne, hall, decVal_natToDec]

end Nfpm.Ar

namespace Nfpm.Ar
open Nfpm B

/-- the fields before the size field -/
def headPre (mtime : Int) (m : Member) : Bytes :=
  field 16 m.name ++ field 12 (intToDec mtime) ++ field 6 b!"0" ++ field 6 b!"0" ++ field 8 (b!"100" ++ natToOct 0o644)

theorem headPre_length (mtime : Int) (m : Member) : (headPre mtime m).length = 48 := by
  simp [headPre, field_length]

theorem header_split (mtime : Int) (m : Member) :
    header mtime m = headPre mtime m ++ (field 10 (natToDec m.body.length) ++ b!"`\n") := by
  simp [header, headPre, List.append_assoc]

theorem header_length (mtime : Int) (m : Member) : (header mtime m).length = 60 := by
  rw [header_split]; simp [headPre_length, field_length]

theorem header_name (mtime : Int) (m : Member) : (header mtime m).take 16 = field 16 m.name := by
  unfold header
  simp only [List.append_assoc]
  exact List.take_left' (field_length 16 m.name)

theorem header_size (mtime : Int) (m : Member) : ((header mtime m).drop 48).take 10 = field 10 (natToDec m.body.length) := by
  rw [header_split, List.drop_left' (headPre_length mtime m)]
  exact List.take_left' (field_length 10 _)

theorem header_magic (mtime : Int) (m : Member) : (header mtime m).drop 58 = b!"`\n" := by
  rw [header_split, ← List.append_assoc]
  exact List.drop_left' (by simp [headPre_length, field_length])

/-- what the format can express: a name of at most 16 bytes that does not end in a blank, a body of
    fewer than 10^10 bytes -/
structure MemberOK (m : Member) : Prop where
  nameLen : m.name.length ≤ 16
  nameEnd : m.name.getLast? ≠ some space
  size : m.body.length < 10 ^ 10

/-- one step of the reader over one written member -/
theorem readMembers_member (fuel : Nat) (mtime : Int) (m : Member) (hm : MemberOK m) (rest : Bytes) :
    readMembers (fuel + 1) (member mtime m ++ rest) = (readMembers fuel rest).map (m :: ·) := by
  have hlen := header_length mtime m
  have hs : member mtime m ++ rest
      = header mtime m ++ (m.body ++ ((if m.body.length % 2 = 1 then [nl] else []) ++ rest)) := by
    simp [member, List.append_assoc]
  have hne : member mtime m ++ rest ≠ [] := by
    intro e
    have := congrArg List.length e
    rw [hs] at this
    simp only [List.length_append, hlen, List.length_nil] at this
    omega
  have hge : ¬ (member mtime m ++ rest).length < 60 := by
    rw [hs]; simp only [List.length_append, hlen]; omega
  have htake : (member mtime m ++ rest).take 60 = header mtime m := by rw [hs]; exact List.take_left' hlen
  have hdrop : (member mtime m ++ rest).drop 60
      = m.body ++ ((if m.body.length % 2 = 1 then [nl] else []) ++ rest) := by rw [hs]; exact List.drop_left' hlen
  generalize hr : readMembers fuel rest = r
  conv => lhs; unfold readMembers
  simp only [hne, if_false, hge, htake, header_magic, ne_eq, not_true_eq_false, header_size,
    readDec_field _ hm.size, hdrop, header_name]
  have hlt : ¬ (m.body ++ ((if m.body.length % 2 = 1 then [nl] else []) ++ rest)).length < m.body.length := by
    simp only [List.length_append]; omega
  simp only [hlt, if_false, List.take_left, List.drop_left, trimRight_field 16 m.name hm.nameLen hm.nameEnd]
  by_cases hodd : m.body.length % 2 = 1
  · simp only [hodd, if_true, List.singleton_append, List.head?_cons, List.drop_succ_cons, List.drop_zero, hr]
    cases r <;> rfl
  · simp only [hodd, if_false, List.nil_append, hr]
    cases r <;> rfl

theorem readMembers_all (mtime : Int) (ms : List Member) (hm : ∀ m ∈ ms, MemberOK m) (fuel : Nat) (hf : ms.length < fuel) :
    readMembers fuel (ms.flatMap (member mtime)) = some ms := by
  induction ms generalizing fuel with
  | nil =>
    cases fuel with
    | zero => omega
    | succ f => simp [readMembers]
  | cons m rest ih =>
    cases fuel with
    | zero => omega
    | succ f =>
      simp only [List.flatMap_cons]
      rw [readMembers_member f mtime m (hm m (by simp)),
        ih (fun x hx => hm x (List.mem_cons_of_mem _ hx)) f (by simp only [List.length_cons] at hf; omega)]
      rfl

theorem member_length_ge (mtime : Int) (m : Member) : 60 ≤ (member mtime m).length := by
  simp only [member, List.length_append, header_length]; omega

theorem flatMap_length_ge (mtime : Int) (ms : List Member) : ms.length ≤ (ms.flatMap (member mtime)).length := by
  induction ms with
  | nil => simp
  | cons m rest ih =>
    simp only [List.flatMap_cons, List.length_append, List.length_cons]
    have := member_length_ge mtime m
    omega

/-- **ar round trip**: reading what was written gives the members back -/
theorem read_file (mtime : Int) (ms : List Member) (hm : ∀ m ∈ ms, MemberOK m) : read (file mtime ms) = some ms := by
  unfold read file
  have h8 : globalHeader.length = 8 := by decide
  rw [List.take_left' h8, List.drop_left' h8]
  simp only [ne_eq, not_true_eq_false, if_false]
  apply readMembers_all mtime ms hm
  have := flatMap_length_ge mtime ms
  simp only [List.length_append, h8]
  omega

end Nfpm.Ar
