/-
  Bytes: Go strings are byte sequences; nfpm compares, sorts and slices them
  bytewise.  `Bytes := List UInt8`; lexicographic `<` on it is Go's string `<`.
  Core only (no Mathlib) so the driver links as a `lean_exe`.
-/
namespace Nfpm

abbrev Bytes := List UInt8

open Lean in
/-- `b!"text"` elaborates to the explicit byte list of the (UTF-8) literal, so that
    the kernel can compute with model constants (`String.toUTF8` does not reduce). -/
syntax:max "b!" str : term

open Lean in
macro_rules
  | `(b! $s:str) => do
    let bytes := s.getString.toUTF8.toList
    let elems : Array (TSyntax `term) := (bytes.map (fun b => Syntax.mkNumLit (toString b.toNat))).toArray
    `(([ $elems,* ] : List UInt8))

namespace B

def slash : UInt8 := 47
def dot : UInt8 := 46
def space : UInt8 := 32
def nl : UInt8 := 10
def dollar : UInt8 := 36

/-- run-time conversion (driver only; not kernel-reducible – constants use `b!`). -/
def ofString (s : String) : Bytes := s.toUTF8.toList

def dotS : Bytes := [dot]
def dotdotS : Bytes := [dot, dot]
def slashS : Bytes := [slash]

/-- strings.TrimLeft(s, string(c)) -/
def trimLeft (c : UInt8) : Bytes → Bytes
  | [] => []
  | x :: xs => if x = c then trimLeft c xs else x :: xs

/-- strings.TrimRight(s, string(c)) -/
def trimRight (c : UInt8) (s : Bytes) : Bytes :=
  (trimLeft c s.reverse).reverse

/-- strings.Trim(s, string(c)) -/
def trim (c : UInt8) (s : Bytes) : Bytes := trimRight c (trimLeft c s)

/-- strings.HasPrefix -/
def hasPrefix : Bytes → Bytes → Bool
  | _, [] => true
  | [], _ :: _ => false
  | x :: xs, p :: ps => x == p && hasPrefix xs ps

/-- strings.HasSuffix -/
def hasSuffix (s suf : Bytes) : Bool := hasPrefix s.reverse suf.reverse

/-- split on a separator byte (strings.Split with a one-byte separator): always non-empty. -/
def splitOn (sep : UInt8) : Bytes → List Bytes
  | [] => [[]]
  | c :: cs =>
    if c = sep then [] :: splitOn sep cs
    else match splitOn sep cs with
      | [] => [[c]]
      | x :: xs => (c :: x) :: xs

/-- strings.Join with a one-byte separator. -/
def joinWith (sep : UInt8) : List Bytes → Bytes
  | [] => []
  | [x] => x
  | x :: y :: rest => x ++ sep :: joinWith sep (y :: rest)

/-- strings.Join with an arbitrary separator. -/
def joinSep (sep : Bytes) : List Bytes → Bytes
  | [] => []
  | [x] => x
  | x :: y :: rest => x ++ sep ++ joinSep sep (y :: rest)

/-- Go string comparison a < b (bytewise lexicographic). -/
def ltB : Bytes → Bytes → Bool
  | [], [] => false
  | [], _ :: _ => true
  | _ :: _, [] => false
  | x :: xs, y :: ys => if x < y then true else if y < x then false else ltB xs ys

def leB (a b : Bytes) : Bool := !ltB b a

/-- strings.ReplaceAll for a single byte by a byte string. -/
def replaceByte (c : UInt8) (r : Bytes) : Bytes → Bytes
  | [] => []
  | x :: xs => if x = c then r ++ replaceByte c r xs else x :: replaceByte c r xs

def isSpace (c : UInt8) : Bool :=
  c = 32 || c = 9 || c = 10 || c = 11 || c = 12 || c = 13

/-- strings.TrimSpace restricted to ASCII white space (unicode spaces: see DESIGN trusted base). -/
def trimSpaceLeft : Bytes → Bytes
  | [] => []
  | x :: xs => if isSpace x then trimSpaceLeft xs else x :: xs

def trimSpace (s : Bytes) : Bytes :=
  (trimSpaceLeft (trimSpaceLeft s).reverse).reverse

def hexDigit (n : Nat) : UInt8 :=
  if n < 10 then (48 + n).toUInt8 else (87 + n).toUInt8

/-- decimal digits, most significant first (fuel-bounded so that the kernel can evaluate it) -/
def natDigits : Nat → Nat → Bytes → Bytes
  | 0, _, acc => acc
  | fuel + 1, n, acc =>
    if n < 10 then (48 + n).toUInt8 :: acc else natDigits fuel (n / 10) ((48 + n % 10).toUInt8 :: acc)

/-- decimal rendering of a natural number (`%d`) -/
def natToDec (n : Nat) : Bytes := natDigits (n + 1) n []

def intToDec (n : Int) : Bytes :=
  match n with
  | Int.ofNat k => natToDec k
  | Int.negSucc k => 45 :: natToDec (k + 1)

/-- octal digits, most significant first (fuel-bounded like `natDigits`) -/
def octDigits : Nat → Nat → Bytes → Bytes
  | 0, _, acc => acc
  | fuel + 1, n, acc =>
    if n < 8 then (48 + n).toUInt8 :: acc else octDigits fuel (n / 8) ((48 + n % 8).toUInt8 :: acc)

/-- octal rendering of a natural number (`%o`) -/
def toOct (n : Nat) : Bytes := octDigits (n + 1) n []

end B
end Nfpm
