import NfpmModel.Tar
import NfpmModel.Path
/-
  PAX extension records as archive/tar writes them (Writer.writePAXHeader, writeRawFile, formatPAXRecord) – the
  form every regular file of an apk data segment takes (apk.writeFile adds the APK-TOOLS.checksum.SHA1 record)
  and the form archive/tar falls back to for names a plain header cannot hold.

    record          "<len> <key>=<value>\n", <len> the decimal length of the whole record, itself included
    extension member  header block named <dir>/PaxHeaders.0/<file> (cut at 100 bytes, trailing slashes removed), type 'x',
                      mode/uid/gid/mtime 0, size = length of the records, "ustar\0" "00", devmajor/devminor left NUL;
                      body = the records in key order
    member          the extension member (only when there are records), then the ordinary member

  and a reader for the logical members (records attached to the member they precede).
-/
namespace Nfpm.Tar
open Nfpm B

/-- formatPAXRecord: the length prefix counts itself; one adjustment when adding it grew the record -/
def paxRecord (k v : Bytes) : Bytes :=
  let base := k.length + v.length + 3
  let size := base + (natToDec base).length
  let rec1 := natToDec size ++ [32] ++ k ++ [61] ++ v ++ [10]
  if rec1.length ≠ size then natToDec rec1.length ++ [32] ++ k ++ [61] ++ v ++ [10] else rec1

def paxBody (recs : List (Bytes × Bytes)) : Bytes := recs.flatMap (fun r => paxRecord r.1 r.2)

/-- toASCII: bytes of non-ASCII runes are dropped -/
def asciiOnly (s : Bytes) : Bytes := s.filter (· < 128)

/-- path.Join(dir, "PaxHeaders.0", file) for dir, file := path.Split(name); then writeRawFile's toASCII, cut and trim -/
def xName (name : Bytes) : Bytes :=
  let d := Path.uptoLastSlash name
  let f := name.drop d.length
  let parts := [d, b!"PaxHeaders.0", f].filter (· ≠ [])
  trimRight slash ((asciiOnly (Path.clean (joinWith slash parts))).take 100)

def lookupB (k : Bytes) : List (Bytes × Bytes) → Option Bytes
  | [] => none
  | (k', v) :: rest => if k' = k then some v else lookupB k rest

/-- what the main header carries in a field whose full value went into a record (writePAXHeader formats the block
    ignoring errors: the value made ASCII, cut at the field width; the cut-at-a-slash refinement of formatString is
    outside the model – the theorems guard it, the harness counts such members as skipped) -/
def cutTo (w : Nat) (s : Bytes) : Bytes := (asciiOnly s).take w

/-- the header of the extension member -/
def xHdr (name : Bytes) (size : Nat) : Hdr :=
  { flavor := .ustar, name := xName name, size := size, typeflag := 120, dev := false }

/-- a logical member: header fields, extension records (in the order written: sorted by key), body -/
structure PMember where
  hdr : Hdr
  pax : List (Bytes × Bytes) := []
  body : Bytes
deriving DecidableEq, Repr

/-- the header block of the ordinary member: name / link name replaced by their cut ASCII form when the full value
    travels in a `path` / `linkpath` record (names over 100 bytes that USTAR cannot split, non-ASCII names) -/
def mainHdr (m : PMember) : Hdr :=
  { m.hdr with
    name := if (lookupB (b!"path") m.pax).isSome then cutTo 100 m.hdr.name else m.hdr.name,
    linkname := if (lookupB (b!"linkpath") m.pax).isSome then cutTo 100 m.hdr.linkname else m.hdr.linkname }

def expand (m : PMember) : List Member :=
  if m.pax = [] then [{ hdr := m.hdr, body := m.body }]
  else [{ hdr := xHdr m.hdr.name (paxBody m.pax).length, body := paxBody m.pax }, { hdr := mainHdr m, body := m.body }]

def paxArchive (ms : List PMember) : Bytes := archive (ms.flatMap expand)

/-! ### reader -/

/-- one record off the front: ((key, value), rest) -/
def parseRecord (s : Bytes) : Option ((Bytes × Bytes) × Bytes) :=
  let d := s.takeWhile Ar.isDigitB
  let n := Ar.decVal d
  if d = [] then none
  else if n < d.length + 3 ∨ s.length < n then none
  else
    let r := (s.take n).drop d.length
    if r.head? ≠ some 32 ∨ r.getLast? ≠ some 10 then none
    else
      let kv := (r.drop 1).dropLast
      let k := kv.takeWhile (· != 61)
      if kv.length ≤ k.length then none
      else some ((k, kv.drop (k.length + 1)), s.drop n)

def parseRecords : Nat → Bytes → Option (List (Bytes × Bytes))
  | 0, _ => none
  | fuel + 1, s =>
    if s = [] then some []
    else match parseRecord s with
      | none => none
      | some (kv, rest) => (parseRecords fuel rest).map (kv :: ·)

/-- attach each extension member's records to the member that follows it -/
def collapse : List Member → Option (List PMember)
  | [] => some []
  | [m] => if m.hdr.typeflag = 120 then none else some [{ hdr := m.hdr, body := m.body }]
  | m :: m2 :: rest =>
    if m.hdr.typeflag = 120 then
      if m2.hdr.typeflag = 120 then none
      else match parseRecords (m.body.length + 1) m.body with
        | none => none
        | some recs =>
          -- mergePAX: `path` and `linkpath` records replace the header's name and link name
          (collapse rest).map ({ hdr := { m2.hdr with name := (lookupB (b!"path") recs).getD m2.hdr.name,
                                                       linkname := (lookupB (b!"linkpath") recs).getD m2.hdr.linkname },
                                 pax := recs, body := m2.body } :: ·)
    else (collapse (m2 :: rest)).map ({ hdr := m.hdr, body := m.body } :: ·)

def paxRead (s : Bytes) : Option (List PMember) := (read s).bind collapse

end Nfpm.Tar
