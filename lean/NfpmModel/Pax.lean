import NfpmModel.Tar
import NfpmModel.Path
/-
  PAX extension records as archive/tar writes them (Writer.writePAXHeader, writeRawFile, formatPAXRecord) – the
  form every regular file of an apk data segment takes (apk.writeFile adds the APK-TOOLS.checksum.SHA1 record)
  and the form archive/tar falls back to for names a plain header cannot hold.

    record          "<len> <key>=<value>\n", <len> the decimal length of the whole record, itself included
    extension member  header block named <dir>/PaxHeaders.0/<file> (cut at 100 bytes, trailing slashes removed), type 'x',
                      mode/uid/gid/mtime 0, size = length of the records, "ustar\0" "00", devmajor/devminor left NUL;
                      body = the records in key order
    member          the extension member (only when there are records), then the ordinary member

  and a reader for the logical members (records attached to the member they precede).
-/
namespace Nfpm.Tar
open Nfpm B

/-- formatPAXRecord: the length prefix counts itself; one adjustment when adding it grew the record -/
def paxRecord (k v : Bytes) : Bytes :=
  let base := k.length + v.length + 3
  let size := base + (natToDec base).length
  let rec1 := natToDec size ++ [32] ++ k ++ [61] ++ v ++ [10]
  if rec1.length ≠ size then natToDec rec1.length ++ [32] ++ k ++ [61] ++ v ++ [10] else rec1

def paxBody (recs : List (Bytes × Bytes)) : Bytes := recs.flatMap (fun r => paxRecord r.1 r.2)

/-- toASCII: bytes of non-ASCII runes are dropped -/
def asciiOnly (s : Bytes) : Bytes := s.filter (· < 128)

/-- path.Join(dir, "PaxHeaders.0", file) for dir, file := path.Split(name); then writeRawFile's toASCII, cut and trim -/
def xName (name : Bytes) : Bytes :=
  let d := Path.uptoLastSlash name
  let f := name.drop d.length
  let parts := [d, b!"PaxHeaders.0", f].filter (· ≠ [])
  trimRight slash ((asciiOnly (Path.clean (joinWith slash parts))).take 100)

def lookupB (k : Bytes) : List (Bytes × Bytes) → Option Bytes
  | [] => none
  | (k', v) :: rest => if k' = k then some v else lookupB k rest

/-- what the main header carries in a field whose full value went into a record (writePAXHeader formats the block
    ignoring errors: the value made ASCII, cut at the field width; the cut-at-a-slash refinement of formatString is
    outside the model – the theorems guard it, the harness counts such members as skipped) -/
def cutTo (w : Nat) (s : Bytes) : Bytes := (asciiOnly s).take w

/-- the header of the extension member -/
def xHdr (name : Bytes) (size : Nat) : Hdr :=
  { flavor := .ustar, name := xName name, size := size, typeflag := 120, dev := false }

/-- a logical member: header fields, extension records (in the order written: sorted by key), body -/
structure PMember where
  hdr : Hdr
  pax : List (Bytes × Bytes) := []
  body : Bytes
deriving DecidableEq, Repr

/-- index of the last occurrence of `c` -/
def lastIdx (c : UInt8) (s : Bytes) : Option Nat :=
  let r := s.reverse.takeWhile (· != c)
  if r.length = s.length then none else some (s.length - r.length - 1)

/-- splitUSTARPath: a name of more than 100 ASCII bytes is split at a slash into the prefix field (at most 155
    bytes) and the name field (at most 100), when such a slash exists -/
def splitUstar (name : Bytes) : Option (Bytes × Bytes) :=
  if name.length ≤ 100 ∨ asciiOnly name ≠ name then none
  else
    let length := if name.length > 156 then 156 else if name.getLast? = some slash then name.length - 1 else name.length
    match lastIdx slash (name.take length) with
    | none => none
    | some i =>
      let nlen := name.length - i - 1
      if i = 0 ∨ nlen > 100 ∨ nlen = 0 ∨ i > 155 then none else some (name.take i, name.drop (i + 1))

/-- Writer.writeRawFile for the GNU long-name ('L') and long-link ('K') members: named ././@LongLink, body = the
    full value and a NUL -/
def gnuLongMember (tf : UInt8) (value : Bytes) : Member :=
  { hdr := { flavor := .gnu, name := b!"././@LongLink", size := value.length + 1, typeflag := tf, dev := false },
    body := value ++ [0] }

/-- the header block of the ordinary member.  GNU: name and link name cut at 100 bytes (the full values travel in
    'L' / 'K' members).  USTAR/PAX: a value that travels in a `path` / `linkpath` record is cut to its first 100 ASCII
    bytes; otherwise an over-long name is split into prefix and name field -/
def mainHdr (m : PMember) : Hdr :=
  match m.hdr.flavor with
  | .gnu => { m.hdr with name := m.hdr.name.take 100, linkname := m.hdr.linkname.take 100 }
  | .ustar =>
    let h1 : Hdr :=
      if (lookupB (b!"path") m.pax).isSome then { m.hdr with name := cutTo 100 m.hdr.name }
      else match splitUstar m.hdr.name with
        | some (p, s) => { m.hdr with name := s, pfx := p }
        | none => m.hdr
    { h1 with linkname := if (lookupB (b!"linkpath") m.pax).isSome then cutTo 100 m.hdr.linkname else m.hdr.linkname }

def expand (m : PMember) : List Member :=
  match m.hdr.flavor with
  | .gnu =>
    (if m.hdr.name.length > 100 then [gnuLongMember 76 m.hdr.name] else [])
      ++ (if m.hdr.linkname.length > 100 then [gnuLongMember 75 m.hdr.linkname] else [])
      ++ [{ hdr := mainHdr m, body := m.body }]
  | .ustar =>
    (if m.pax = [] then [] else [{ hdr := xHdr m.hdr.name (paxBody m.pax).length, body := paxBody m.pax }])
      ++ [{ hdr := mainHdr m, body := m.body }]

def paxArchive (ms : List PMember) : Bytes := archive (ms.flatMap expand)

/-! ### reader -/

/-- one record off the front: ((key, value), rest) -/
def parseRecord (s : Bytes) : Option ((Bytes × Bytes) × Bytes) :=
  let d := s.takeWhile Ar.isDigitB
  let n := Ar.decVal d
  if d = [] then none
  else if n < d.length + 3 ∨ s.length < n then none
  else
    let r := (s.take n).drop d.length
    if r.head? ≠ some 32 ∨ r.getLast? ≠ some 10 then none
    else
      let kv := (r.drop 1).dropLast
      let k := kv.takeWhile (· != 61)
      if kv.length ≤ k.length then none
      else some ((k, kv.drop (k.length + 1)), s.drop n)

def parseRecords : Nat → Bytes → Option (List (Bytes × Bytes))
  | 0, _ => none
  | fuel + 1, s =>
    if s = [] then some []
    else match parseRecord s with
      | none => none
      | some (kv, rest) => (parseRecords fuel rest).map (kv :: ·)

/-- what pseudo-members have announced for the next ordinary member -/
structure Pending where
  name : Option Bytes := none
  link : Option Bytes := none
  recs : Option (List (Bytes × Bytes)) := none
deriving DecidableEq, Repr

/-- attach what 'x' (records), 'L' (long name) and 'K' (long link name) members carry to the member that follows
    them; join a USTAR prefix with the name -/
def collapseP : Pending → List Member → Option (List PMember)
  | p, [] => if p = {} then some [] else none
  | p, m :: rest =>
    if m.hdr.typeflag = 120 then
      if p.recs.isSome then none
      else match parseRecords (m.body.length + 1) m.body with
        | none => none
        | some recs => collapseP { p with recs := some recs } rest
    else if m.hdr.typeflag = 76 then
      if p.name.isSome then none else collapseP { p with name := some (readStr m.body) } rest
    else if m.hdr.typeflag = 75 then
      if p.link.isSome then none else collapseP { p with link := some (readStr m.body) } rest
    else
      let recs := p.recs.getD []
      let joined := if m.hdr.pfx = [] then m.hdr.name else m.hdr.pfx ++ slash :: m.hdr.name
      let name := (lookupB (b!"path") recs).getD (p.name.getD joined)
      let link := (lookupB (b!"linkpath") recs).getD (p.link.getD m.hdr.linkname)
      (collapseP {} rest).map ({ hdr := { m.hdr with name := name, linkname := link, pfx := [] }, pax := recs, body := m.body } :: ·)

def collapse (ms : List Member) : Option (List PMember) := collapseP {} ms

def paxRead (s : Bytes) : Option (List PMember) := (read s).bind collapse

end Nfpm.Tar
