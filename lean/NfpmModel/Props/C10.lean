import NfpmModel.Sign
import NfpmModel.Lemmas.ArLemmas
/-
  C10  Requested signatures verify over exactly the bytes the verifier checks.

  For every payload, every signer and every hash function (they are parameters – no bound):
    debsign_message_is_stored_members   the signed message is the concatenation of the three stored
                                        members in archive order; the signature goes to `_gpg<type>` last
    debsign_verifies                    hence it verifies over exactly those bytes, given verify∘sign
    debsign_type_checked                only origin / maint / archive; anything else is a signing failure
    dpkgsig_lines_match_members         each manifest line carries MD5, SHA-1, size and the *stored* name
                                        of a stored member, in order (after fix 13b10cf)
    rpm_signed_regions                  the two signatures cover header and header++payload, which are
                                        exactly the bytes shipped after the signature header
    apk_signed_region                   the signed digest is the hash of the control segment as shipped;
                                        the signature segment comes first, named .SIGN.RSA.<key>.rsa.pub
    callback_gets_those_bytes           a callback is just a signer: it receives those messages
    signer_failure_is_signing_failure   a failing signer ⇒ no package, and the error is a signing
                                        failure that carries the signer's own error
  The OpenPGP / RSA primitives are assumed, not modelled (hypothesis `verify (sign m) m`).
-/
set_option linter.unusedSimpArgs false

namespace Nfpm.Props.C10
open Nfpm B

theorem debsign_message_is_stored_members (sign : Signer) (t : Bytes) (p : DebParts) (ms : List ArMem)
    (h : debsignPackage sign t p = .ok ms) :
    ∃ sig, sign (debsignMessage p) = .ok sig ∧
      ms = debBaseMembers p ++ [⟨b!"_gpg" ++ debSigType t, sig⟩] ∧
      debsignMessage p = ((ms.take 3).map (·.body)).flatten := by
  unfold debsignPackage at h
  by_cases hv : validDebSigType (debSigType t) = false
  · simp [hv] at h
  · have hv' : validDebSigType (debSigType t) = true := by simpa using hv
    rw [hv'] at h
    cases hs : sign (debsignMessage p) with
    | error e => rw [hs] at h; simp at h
    | ok sig =>
      rw [hs] at h
      simp only [Bool.true_eq_false, if_false, Except.ok.injEq] at h
      refine ⟨sig, rfl, h.symm, ?_⟩
      rw [← h]
      simp [debBaseMembers, debsignMessage]

/-- **debsign, at the level of the shipped bytes**: write the members of a signed deb as the ar file deb.Package
    produces; whoever reads that file back with an ar reader gets four members, the message that was signed is
    the concatenation of the bodies of the first three exactly as stored, and the fourth is the signature under
    the name `_gpg<type>` (guards: the data member name fits the 16-byte ar field, bodies below 10^10 bytes) -/
theorem debsign_covers_shipped_bytes (sign : Signer) (t : Bytes) (p : DebParts) (ms : List ArMem) (mtime : Int)
    (h : debsignPackage sign t p = .ok ms)
    (hfit : ∀ m ∈ ms, Ar.MemberOK ⟨m.name, m.body⟩) :
    ∃ sig, sign (debsignMessage p) = .ok sig ∧
      ∃ rd, Ar.read (Ar.file mtime (ms.map (fun m => ⟨m.name, m.body⟩))) = some rd ∧ rd.length = 4 ∧
        debsignMessage p = ((rd.take 3).map (·.body)).flatten ∧
        rd.drop 3 = [⟨b!"_gpg" ++ debSigType t, sig⟩] := by
  obtain ⟨sig, hs, hms, hmsg⟩ := debsign_message_is_stored_members sign t p ms h
  refine ⟨sig, hs, ms.map (fun m => ⟨m.name, m.body⟩), ?_, ?_, ?_, ?_⟩
  · apply Ar.read_file
    intro m hm
    obtain ⟨a, ha, rfl⟩ := List.mem_map.mp hm
    exact hfit a ha
  · rw [hms]; simp [debBaseMembers]
  · rw [hmsg, hms]; simp [debBaseMembers]
  · rw [hms]; simp [debBaseMembers]

/-- with any verifier that accepts what the signer produced for a message, the stored signature
    verifies over exactly the stored members -/
theorem debsign_verifies (sign : Signer) (verify : Bytes → Bytes → Bool)
    (hv : ∀ m s, sign m = .ok s → verify m s = true)
    (t : Bytes) (p : DebParts) (ms : List ArMem) (h : debsignPackage sign t p = .ok ms) :
    ∃ sigMember ∈ ms.getLast?, verify (((ms.take 3).map (·.body)).flatten) sigMember.body = true := by
  obtain ⟨sig, hs, hms, hmsg⟩ := debsign_message_is_stored_members sign t p ms h
  refine ⟨⟨b!"_gpg" ++ debSigType t, sig⟩, ?_, ?_⟩
  · rw [hms]; simp
  · rw [← hmsg]; exact hv _ _ hs

theorem debsign_type_checked (sign : Signer) (t : Bytes) (p : DebParts)
    (ht : t ≠ [] ∧ t ≠ b!"origin" ∧ t ≠ b!"maint" ∧ t ≠ b!"archive") :
    debsignPackage sign t p = .error .invalidType := by
  unfold debsignPackage
  have : validDebSigType (debSigType t) = false := by
    simp [validDebSigType, debSigType, ht.1, ht.2.1, ht.2.2.1, ht.2.2.2]
  simp [this]

theorem dpkgsig_lines_match_members (md5 sha1 : Bytes → Bytes) (p : DebParts) :
    dpkgSigLines md5 sha1 p =
      [ ⟨md5 p.debianBinary, sha1 p.debianBinary, p.debianBinary.length, b!"debian-binary"⟩,
        ⟨md5 p.control, sha1 p.control, p.control.length, b!"control.tar.gz"⟩,
        ⟨md5 p.data, sha1 p.data, p.data.length, p.dataName⟩ ] := rfl

theorem dpkgsig_signed_text (sign : Signer) (manifest : List SigLine → Bytes) (md5 sha1 : Bytes → Bytes)
    (t : Bytes) (p : DebParts) (ms : List ArMem) (h : dpkgSigPackage sign manifest md5 sha1 t p = .ok ms) :
    ∃ sig, sign (manifest (dpkgSigLines md5 sha1 p)) = .ok sig ∧ (ms.take 3) = debBaseMembers p := by
  unfold dpkgSigPackage at h
  simp only [] at h
  cases hs : sign (manifest (dpkgSigLines md5 sha1 p)) with
  | error e => rw [hs] at h; simp at h
  | ok sig =>
    rw [hs] at h
    simp only [Except.ok.injEq] at h
    exact ⟨sig, rfl, by rw [← h]; simp [debBaseMembers]⟩

/-- rpm: what is signed is what is shipped after the signature header -/
theorem rpm_signed_regions (sign : Signer) (sigHeader : List Bytes → Bytes) (p : RpmParts) (file : Bytes)
    (h : rpmPackage sign sigHeader p = .ok file) :
    ∃ s1 s2, sign p.header = .ok s1 ∧ sign (p.header ++ p.payload) = .ok s2 ∧
      file = p.lead ++ sigHeader [s1, s2] ++ (p.header ++ p.payload) := by
  unfold rpmPackage at h
  cases h1 : sign p.header with
  | error e => rw [h1] at h; simp at h
  | ok s1 =>
    rw [h1] at h
    simp only [] at h
    cases h2 : sign (p.header ++ p.payload) with
    | error e => rw [h2] at h; simp at h
    | ok s2 =>
      rw [h2] at h
      simp only [Except.ok.injEq] at h
      exact ⟨s1, s2, rfl, rfl, by rw [← h]; simp⟩

theorem rpm_messages : ∀ p : RpmParts, rpmSignedMessages p = [p.header, p.header ++ p.payload] := fun _ => rfl

/-- apk: the signed digest is that of the control segment as shipped; signature segment first -/
theorem apk_signed_region (sign : Signer) (sha1 : Bytes → Bytes) (seg : Bytes → Bytes → Bytes)
    (kn mail : Bytes) (p : ApkParts) (segs : List Bytes) (h : apkPackage sign sha1 seg kn mail p = .ok segs) :
    ∃ sig n, sign (sha1 p.control) = .ok sig ∧ apkKeyName kn mail = some n ∧
      segs = [seg (b!".SIGN.RSA." ++ n) sig, p.control, p.data] := by
  unfold apkPackage at h
  cases hs : sign (sha1 p.control) with
  | error e => rw [hs] at h; simp at h
  | ok sig =>
    rw [hs] at h
    simp only [] at h
    cases hn : apkKeyName kn mail with
    | none => rw [hn] at h; simp at h
    | some n =>
      rw [hn] at h
      simp only [Except.ok.injEq] at h
      exact ⟨sig, n, rfl, rfl, h.symm⟩

theorem apk_key_name_rule (kn mail : Bytes) :
    (kn ≠ [] → apkKeyName kn mail = some (if hasSuffix kn b!".rsa.pub" then kn else kn ++ b!".rsa.pub")) ∧
    (kn = [] → mail ≠ [] → apkKeyName kn mail = some (if hasSuffix mail b!".rsa.pub" then mail else mail ++ b!".rsa.pub")) := by
  constructor
  · intro h; simp [apkKeyName, h]
  · intro h hm; simp [apkKeyName, h, hm]

/-- a callback *is* the signer of the model: the bytes it receives are the signed regions above -/
theorem callback_gets_those_bytes (p : DebParts) (r : RpmParts) :
    debsignMessage p = p.debianBinary ++ p.control ++ p.data ∧
    rpmSignedMessages r = [r.header, r.header ++ r.payload] := ⟨rfl, rfl⟩

/-- a failing signer: no package is produced, and the error is a signing failure wrapping the
    signer's own error – in all four schemes -/
theorem signer_failure_is_signing_failure (sign : Signer) (e : Bytes) :
    (∀ t p, (t = [] ∨ t = b!"origin" ∨ t = b!"maint" ∨ t = b!"archive") → sign (debsignMessage p) = .error e →
        debsignPackage sign t p = .error (.signing e)) ∧
    (∀ man md5 sha1 t p, sign (man (dpkgSigLines md5 sha1 p)) = .error e →
        dpkgSigPackage sign man md5 sha1 t p = .error (.signing e)) ∧
    (∀ sh p, sign p.header = .error e → rpmPackage sign sh p = .error (.signing e)) ∧
    (∀ sha1 seg kn mail p, sign (sha1 p.control) = .error e → apkPackage sign sha1 seg kn mail p = .error (.signing e)) := by
  refine ⟨?_, ?_, ?_, ?_⟩
  · intro t p ht hs
    unfold debsignPackage
    have : validDebSigType (debSigType t) = true := by
      rcases ht with h | h | h | h <;> subst h <;> decide
    simp [this, hs]
  · intro man md5 sha1 t p hs
    simp [dpkgSigPackage, hs]
  · intro sh p hs
    simp [rpmPackage, hs]
  · intro sha1 seg kn mail p hs
    simp [apkPackage, hs]

/-- non-vacuity -/
example : (debsignPackage (fun m => .ok (m.map (· + 1))) [] ⟨[50], [1, 2], [3], b!"data.tar.xz"⟩).toOption.map
    (fun ms => ms.map (·.name)) = some [b!"debian-binary", b!"control.tar.gz", b!"data.tar.xz", b!"_gpgorigin"] := by decide

end Nfpm.Props.C10
