import NfpmModel.Lemmas.Closure
import NfpmModel.Lemmas.NoClash
import NfpmModel.Lemmas.Kept
import NfpmModel.Lemmas.Origin
import NfpmModel.Generated.FsPaths
import NfpmModel.Generated.G3Types
/-
  C05  Content planning: selection, placement, parent closure, collision rejection.

  Theorems about the model `plan` of files.PrepareForPackager (all content
  lists, all file-system oracles, all byte strings – no bound).  The executable
  spec `Spec.check` (Spec/PlanSpec.lean) states C05 in full; the harness
  evaluates it on the real implementation's result for every scenario.

  Obligations proved here:
    plan_sorted_unique          destinations strictly increasing (unique, deterministic order)
    plan_order_independent      the result does not depend on the order in which the
                                destination map is iterated (Go map iteration order)
    plan_relevance              only entries addressed to the packager, rpm-only / deb-only types
    plan_destinations_clean     absolute, lexically clean, trailing slash iff directory (root excepted)
    plan_parents_first_partial  every ancestor directory present and earlier (lists without `tree`)
    normFile_idempotent, normFile_clean, normDir_clean   (all byte strings)
    plan_contains_nothing_else_partial  every planned entry is a produced request, the entry made of one pair of
                                a glob, or an implied ancestor directory of one (every list without `tree`)
    collision_* …               decision logic of the collision checks, stated outright
  Full-strength statement kept visible: `Spec.check … (plan …) = []` (refinement
  of the whole declarative spec) is NOT proved; see DESIGN.md C05 "partial".
-/
namespace Nfpm.Props.C05
open Nfpm B Path Spec

/-- **C05 – unique destinations in a deterministic order.** -/
theorem plan_sorted_unique (O : Oracle) (cfg : PlanCfg) (raw l : List Content)
    (h : plan O cfg raw = .ok l) : strictlySorted (l.map (·.dst)) = true := by
  obtain ⟨m, _, hl, hinv⟩ := plan_ok_inv O cfg raw l h
  subst hl
  exact strictlySorted_of_pairwise _ (sorted_values cfg.packager m hinv)

/-- **C05 – the outcome does not depend on hash-map iteration order**: however the
    destination map is enumerated (any permutation of its entries), sorting
    yields the same list. -/
theorem plan_order_independent (pk : Bytes) (m m' : CMap) (hinv : Inv pk m) (hperm : m.Perm m') :
    (m.map (·.2)).mergeSort contentLe = (m'.map (·.2)).mergeSort contentLe := by
  have hinv' : Inv pk m' := by
    refine ⟨?_, fun p hp => hinv.keyok p (hperm.symm.subset hp), fun p hp => hinv.rel p (hperm.symm.subset hp)⟩
    have : m'.keys.Perm m.keys := (hperm.symm.map _)
    rw [this.nodup_iff]; exact hinv.nodup
  apply sorted_unique_of_perm _ _ (sorted_values pk m hinv) (sorted_values pk m' hinv')
  exact (List.mergeSort_perm _ _).trans ((hperm.map _).trans (List.mergeSort_perm _ _).symm)

/-- **C05 – relevance**: every planned entry is addressed to this packager (or to all) and
    its type exists there (ghost/doc/licence/readme only rpm, changelog only deb). -/
theorem plan_relevance (O : Oracle) (cfg : PlanCfg) (raw l : List Content)
    (h : plan O cfg raw = .ok l) : ∀ c ∈ l, relevantEntry cfg.packager c = true := by
  obtain ⟨m, _, hl, hinv⟩ := plan_ok_inv O cfg raw l h
  subst hl
  intro c hc
  rw [List.mem_mergeSort, List.mem_map] at hc
  obtain ⟨p, hp, rfl⟩ := hc
  exact hinv.rel p hp

/-! ### normalised destinations are lexically clean -/

theorem normFile_idempotent (s : Bytes) : normFile (normFile s) = normFile s := normFile_idem s

/-- every non-root normalised file destination is absolute and lexically clean (all byte strings) -/
theorem normFile_clean (s : Bytes) (hroot : rcomps s ≠ []) : lexClean (normFile s) = true := by
  rw [normFile_eq]
  have hp := rcomps_proper s
  simp only [lexClean, beq_self_eq_true, Bool.true_and]
  rw [splitOn_joinWith slash _ hroot (fun c hc => (hp c hc).2.2.2)]
  have : ((rcomps s).getLast? == some []) = false := by
    rw [beq_eq_false_iff_ne]; exact proper_getLast_ne_nil _ hp
  simp only [this, Bool.false_eq_true, if_false, Bool.and_eq_true, Bool.not_eq_true', List.isEmpty_eq_false_iff]
  exact ⟨hroot, proper_all _ hp⟩

/-- every non-root normalised directory destination is absolute, clean and ends in one slash -/
theorem normDir_clean (s : Bytes) (hroot : rcomps s ≠ []) :
    lexClean (normDir s) = true ∧ endsWithSlash (normDir s) = true := by
  rw [normDir_eq]
  have hp := rcomps_proper s
  constructor
  · simp only [lexClean, List.cons_append, beq_self_eq_true, Bool.true_and]
    rw [splitOn_snoc_sep, splitOn_joinWith slash _ hroot (fun c hc => (hp c hc).2.2.2)]
    simp only [getLast?_append_singleton, beq_self_eq_true, if_true, List.dropLast_concat,
      Bool.and_eq_true, Bool.not_eq_true', List.isEmpty_eq_false_iff]
    exact ⟨hroot, proper_all _ hp⟩
  · unfold endsWithSlash
    simp only [List.cons_append, beq_iff_eq]
    rw [← List.cons_append, getLast?_append_singleton]

/-- **C05 – absolute, lexically clean destinations; directories (and only they) end in '/'.**
    The root itself ("/" or "//", an entry that denotes the root directory) is the
    one exception – known finding C05-root-destination. -/
theorem plan_destinations_clean (O : Oracle) (cfg : PlanCfg) (raw l : List Content)
    (h : plan O cfg raw = .ok l) :
    ∀ c ∈ l, c.dst ≠ [slash] → c.dst ≠ [slash, slash] →
      lexClean c.dst = true ∧ endsWithSlash c.dst = isDirType c.type := by
  obtain ⟨m, _, hl, hinv⟩ := plan_ok_inv O cfg raw l h
  subst hl
  intro c hc hr1 hr2
  rw [List.mem_mergeSort, List.mem_map] at hc
  obtain ⟨p, hp, rfl⟩ := hc
  obtain ⟨hdst, x, hx⟩ := hinv.keyok p hp
  rw [hdst] at hr1 hr2 ⊢
  rw [hx] at hr1 hr2 ⊢
  by_cases hd : isDirType p.2.type = true
  · simp only [hd, if_true] at hr1 hr2 ⊢
    have hroot : rcomps x ≠ [] := by
      intro e; apply hr2; rw [normDir_eq, e]; rfl
    exact normDir_clean x hroot
  · simp only [Bool.not_eq_true] at hd
    simp only [hd, Bool.false_eq_true, if_false] at hr1 hr2 ⊢
    have hroot : rcomps x ≠ [] := by
      intro e; apply hr1; rw [normFile_eq, e]; rfl
    exact ⟨normFile_clean x hroot, normFile_no_trailing_slash x hroot⟩

/-- **C05 – every ancestor directory of every entry is present and comes before it**
    (`_partial`: content lists without `tree` entries; for tree children the
    closure rests on filepath.WalkDir listing a directory before its contents,
    which is oracle behaviour – exercised by the correspondence only). -/
theorem plan_parents_first_partial (O : Oracle) (cfg : PlanCfg) (raw l : List Content)
    (hnt : ∀ c ∈ raw, classify c.type ≠ .tree)
    (h : plan O cfg raw = .ok l) : parentsBefore [] (l.map (·.dst)) = true := by
  obtain ⟨m, hm, hl, hinv⟩ := plan_ok_inv O cfg raw l h
  subst hl
  have hclosed : Closed m := by
    refine closed_planMap O cfg _ [] m ?_ (by intro k hk; simp [CMap.keys] at hk) hm
    intro ic hic
    unfold zipIdx at hic
    exact hnt ic.2 (List.of_mem_zip hic).2
  have hperm : (((m.map (·.2)).mergeSort contentLe).map (·.dst)).Perm m.keys := by
    rw [← values_dst_eq_keys cfg.packager m hinv]
    exact (List.mergeSort_perm _ _).map _
  apply parentsBefore_of_sorted
  · simpa using sorted_values cfg.packager m hinv
  · intro k hk a ha
    simp only [List.reverse_nil, List.nil_append]
    have hk' : k ∈ m.keys := hperm.subset hk
    refine ⟨hperm.symm.subset (hclosed k hk' a ha), ?_⟩
    obtain ⟨p, hp, rfl⟩ := List.mem_map.mp hk'
    obtain ⟨_, x, hx⟩ := hinv.keyok p hp
    rw [hx] at ha ⊢
    by_cases hd : isDirType p.2.type = true
    · simp only [hd, if_true] at ha ⊢
      rw [ancestorDirs_normDir] at ha
      rw [normDir_eq]
      exact ancestor_lt _ (rcomps_proper x) [slash] a ha
    · simp only [Bool.not_eq_true] at hd
      simp only [hd, Bool.false_eq_true, if_false] at ha ⊢
      rw [ancestorDirs_normFile] at ha
      rw [normFile_eq]
      have := ancestor_lt _ (rcomps_proper x) [] a ha
      simpa using this

/-- **C05 – collision soundness: an accepted list never has a non-directory and a directory at one path.**
    For EVERY content list (tree entries, globs, every order): in a successful plan no path `p` occurs both
    as `p` (file, symlink, ghost, …) and as `p/` (directory, explicit or implied). -/
theorem plan_no_path_clash (O : Oracle) (cfg : PlanCfg) (raw l : List Content)
    (h : plan O cfg raw = .ok l) :
    ∀ x, ¬ (normFile x ∈ l.map (·.dst) ∧ normDir x ∈ l.map (·.dst)) := by
  obtain ⟨m, hm, hl, hinv⟩ := plan_ok_inv O cfg raw l h
  subst hl
  have hnc : NoClash m := noClash_planMap O cfg _ [] m noClash_nil hm
  have hperm : (((m.map (·.2)).mergeSort contentLe).map (·.dst)).Perm m.keys := by
    rw [← values_dst_eq_keys cfg.packager m hinv]
    exact (List.mergeSort_perm _ _).map _
  intro x ⟨h1, h2⟩
  exact hnc x ⟨hperm.subset h1, hperm.subset h2⟩

/-- **C05 – no accepted request is silently replaced or dropped**: if a list is accepted, then for EVERY relevant
    directory or file-like entry of it (whatever else the list holds – globs, trees, any order) the plan contains
    exactly the entry that request produces: its own type, source, owner, mode, times, under its normalised
    destination. A later request for the same path cannot win quietly – by `plan_no_path_clash` and the unique keys
    it could only have been rejected. -/
theorem plan_honours_every_accepted_request (O : Oracle) (cfg : PlanCfg) (raw l : List Content)
    (h : plan O cfg raw = .ok l) (c : Content) (hc : c ∈ raw)
    (hrel : isRelevant cfg.packager c = true) (hcls : classify c.type = .dir ∨ classify c.type = .fileLike) :
    (plannedFor O cfg c).2 ∈ l := by
  obtain ⟨m, hm, hl, hinv⟩ := plan_ok_inv O cfg raw l h
  subst hl
  obtain ⟨i, hi⟩ := mem_zipIdx raw c hc
  obtain ⟨A, B, hAB⟩ := List.append_of_mem hi
  rw [hAB] at hm
  obtain ⟨m1, h1, h2⟩ := planMap_append O cfg A ((i, c) :: B) [] m hm
  unfold planMap at h2
  split at h2
  · exact absurd h2 (by simp)
  · rename_i m2 hm2
    have hin : plannedFor O cfg c ∈ m2 := planStep_inserts O cfg m1 m2 i c hrel hcls hm2
    have hnd1 : m1.keys.Nodup := (kept_planMap O cfg A [] m1 (by simp [CMap.keys]) h1).2
    have hnd2 : m2.keys.Nodup := (kept_planStep O cfg m1 m2 (i, c) hnd1 hm2).2
    have hk := (kept_planMap O cfg B m2 m hnd2 h2).1
    have hty : (plannedFor O cfg c).2.type ≠ T.implicitDir := by
      unfold plannedFor
      simp only []
      rw [withDefaults_type]
      rcases hcls with hd | hf
      · rw [classify_dir _ hd]; decide
      · obtain ⟨hnd, hne⟩ := fileLike_not_dir _ hf
        rw [if_neg hne]
        intro e; rw [e] at hnd; exact absurd hnd (by decide)
    have := hk _ hin hty
    rw [List.mem_mergeSort]
    exact List.mem_map.mpr ⟨_, this, rfl⟩

/-- **C05 – collision completeness for explicit requests**: whenever two relevant directory / file-like entries of a
    list denote the same path (in any spelling: `/a/b`, `a//b/`, `/a/./b` …; file vs file, file vs directory,
    directory vs directory), the list is rejected – whatever stands before, between or after them. -/
theorem plan_rejects_two_requests_for_one_path (O : Oracle) (cfg : PlanCfg) (pre mid post : List Content) (c1 c2 : Content)
    (hr1 : isRelevant cfg.packager c1 = true) (hr2 : isRelevant cfg.packager c2 = true)
    (hc1 : classify c1.type = .dir ∨ classify c1.type = .fileLike)
    (hc2 : classify c2.type = .dir ∨ classify c2.type = .fileLike)
    (hsame : normFile c1.dst = normFile c2.dst) :
    ∀ l, plan O cfg (pre ++ c1 :: (mid ++ c2 :: post)) ≠ .ok l := by
  intro l h
  obtain ⟨m, hm, _, _⟩ := plan_ok_inv O cfg _ l h
  -- the two entries sit at two positions of the indexed list
  have hz : ∃ A B C i j, zipIdx (pre ++ c1 :: (mid ++ c2 :: post)) = A ++ (i, c1) :: (B ++ (j, c2) :: C) := by
    have hsnd : (zipIdx (pre ++ c1 :: (mid ++ c2 :: post))).map Prod.snd = pre ++ c1 :: (mid ++ c2 :: post) := by
      unfold zipIdx
      exact List.map_snd_zip (by simp)
    obtain ⟨A, L1, hL, _, hL1⟩ := List.map_eq_append_iff.mp hsnd
    obtain ⟨x, L2, hx, hx2, hL2⟩ := List.map_eq_cons_iff.mp hL1
    obtain ⟨B, L3, hL3, _, hL3'⟩ := List.map_eq_append_iff.mp hL2
    obtain ⟨y, C, hy, hy2, _⟩ := List.map_eq_cons_iff.mp hL3'
    refine ⟨A, B, C, x.1, y.1, ?_⟩
    rw [hL, hx, hL3, hy, ← hx2, ← hy2]
  obtain ⟨A, B, C, i, j, hz⟩ := hz
  rw [hz] at hm
  obtain ⟨m1, h1, h2⟩ := planMap_append O cfg A _ [] m hm
  unfold planMap at h2
  split at h2
  · exact absurd h2 (by simp)
  · rename_i m2 hm2
    obtain ⟨m3, h3, h4⟩ := planMap_append O cfg B _ m2 m h2
    unfold planMap at h4
    split at h4
    · rename_i e he
      -- c2's step failed: but then the whole plan failed – contradiction with `h4 : … = ok`
      exact absurd h4 (by simp)
    · rename_i m4 hm4
      have hnd1 : m1.keys.Nodup := (kept_planMap O cfg A [] m1 (by simp [CMap.keys]) h1).2
      have hnd2 : m2.keys.Nodup := (kept_planStep O cfg m1 m2 (i, c1) hnd1 hm2).2
      obtain ⟨hk3, hnd3⟩ := kept_planMap O cfg B m2 m3 hnd2 h3
      have hin : plannedFor O cfg c1 ∈ m2 := planStep_inserts O cfg m1 m2 i c1 hr1 hc1 hm2
      have hty : (plannedFor O cfg c1).2.type ≠ T.implicitDir := by
        unfold plannedFor
        simp only []
        rw [withDefaults_type]
        rcases hc1 with hd | hf
        · rw [classify_dir _ hd]; decide
        · obtain ⟨hnd, hne⟩ := fileLike_not_dir _ hf
          rw [if_neg hne]
          intro e; rw [e] at hnd; exact absurd hnd (by decide)
      have hin3 := hk3 _ hin hty
      refine planStep_rejects_occupied O cfg m3 m4 j c2 hr2 hc2 hnd3 _ hin3 hty ?_ hm4
      unfold plannedFor
      simp only []
      by_cases hd : classify c1.type = .dir
      · right; simp only [hd, if_true]; exact normDir_of_normFile_eq _ _ hsame
      · left; simp only [hd, if_false]; exact hsame

/-- **C05 – nothing lies beneath a non-directory** (`_partial`: lists without `tree` entries, as for
    parents-first): every ancestor directory of every planned entry is itself planned as a directory, and the
    same path is not planned as a non-directory. -/
theorem plan_ancestors_are_directories_partial (O : Oracle) (cfg : PlanCfg) (raw l : List Content)
    (hnt : ∀ c ∈ raw, classify c.type ≠ .tree) (h : plan O cfg raw = .ok l) :
    ∀ k ∈ l.map (·.dst), ∀ q, q ≠ [] → q <+: (comps k).dropLast → (∀ c ∈ q, Proper c) →
      renderDir q ∈ l.map (·.dst) ∧ slash :: joinWith slash q ∉ l.map (·.dst) := by
  obtain ⟨m, hm, hl, hinv⟩ := plan_ok_inv O cfg raw l h
  have hclash := plan_no_path_clash O cfg raw l h
  subst hl
  have hclosed : Closed m := by
    refine closed_planMap O cfg _ [] m ?_ (by intro k hk; simp [CMap.keys] at hk) hm
    intro ic hic
    unfold zipIdx at hic
    exact hnt ic.2 (List.of_mem_zip hic).2
  have hperm : (((m.map (·.2)).mergeSort contentLe).map (·.dst)).Perm m.keys := by
    rw [← values_dst_eq_keys cfg.packager m hinv]
    exact (List.mergeSort_perm _ _).map _
  intro k hk q hq hpre hprop
  have hanc : renderDir q ∈ ancestorDirs k := by
    unfold ancestorDirs
    exact List.mem_map.mpr ⟨q, (mem_nonEmptyPrefixes _ q).mpr ⟨hq, hpre⟩, rfl⟩
  have hin : renderDir q ∈ ((m.map (·.2)).mergeSort contentLe).map (·.dst) :=
    hperm.symm.subset (hclosed k (hperm.subset hk) _ hanc)
  refine ⟨hin, ?_⟩
  intro hfile
  apply hclash (joinWith slash q)
  rw [normFile_join q hq hprop, normDir_join q hq hprop]
  exact ⟨hfile, hin⟩

/-- **C05 – nothing else is planned** (`_partial`: lists whose relevant entries are directories, file-like entries and
    globbed file / config entries – everything but `tree`): every entry of an accepted plan is
    * exactly the entry one of the relevant directory / file-like requests of the list produces (its own type, source,
      owner, mode, times, under its normalised destination), or
    * the entry files.addGlobbedFiles makes of one (source, destination) pair of one of the list's globbed entries
      (the pairs are those glob.Glob's mapping gives for the matches the file system reports), or
    * an implied directory – owner root, mode 0755, the package mtime – that is an ancestor directory of the normalised
      destination of one of those.
    Together with `plan_honours_every_accepted_request` the plan is determined: the produced entries, their ancestor
    directories, nothing more. -/
theorem plan_contains_nothing_else_partial (O : Oracle) (cfg : PlanCfg) (raw l : List Content)
    (hcls : ∀ c ∈ raw, isRelevant cfg.packager c = true →
      classify c.type = .dir ∨ classify c.type = .fileLike ∨ classify c.type = .implicitDir ∨ classify c.type = .globbed)
    (h : plan O cfg raw = .ok l) :
    ∀ e ∈ l,
      (∃ c ∈ raw, isRelevant cfg.packager c = true ∧ (classify c.type = .dir ∨ classify c.type = .fileLike)
          ∧ e = (plannedFor O cfg c).2)
      ∨ (∃ ic ∈ zipIdx raw, isRelevant cfg.packager ic.2 = true ∧ classify ic.2.type = .globbed
          ∧ ∃ p ∈ globPairs O cfg ic, e = (globEntry O cfg.umask cfg.mtime ic.2 p).2)
      ∨ (e = implicitDirEntry e.dst cfg.mtime
          ∧ ∃ d ∈ (zipIdx raw).flatMap (stepDs O cfg), e.dst ∈ ancestorDirs (normFile d)) := by
  obtain ⟨m, hm, hl, _⟩ := plan_ok_inv O cfg raw l h
  subst hl
  have horig := orig_planMap O cfg (zipIdx raw) [] [] [] m
    (by
      intro ic hic hrel
      unfold zipIdx at hic
      exact hcls ic.2 (List.of_mem_zip hic).2 hrel)
    (by intro p hp; simp at hp) hm
  intro e he
  rw [List.mem_mergeSort, List.mem_map] at he
  obtain ⟨p, hp, rfl⟩ := he
  rcases horig p hp with h1 | ⟨h2, d, hd, hpar⟩
  · simp only [List.append_nil] at h1
    obtain ⟨ic, hic, hprod⟩ := List.mem_flatMap.mp h1
    unfold stepProduced at hprod
    split at hprod
    · rename_i hrel
      split at hprod
      · rename_i hcl
        simp only [List.mem_singleton] at hprod
        left
        unfold zipIdx at hic
        exact ⟨ic.2, (List.of_mem_zip hic).2, hrel, Or.inl hcl, by rw [hprod]⟩
      · rename_i hcl
        simp only [List.mem_singleton] at hprod
        left
        unfold zipIdx at hic
        exact ⟨ic.2, (List.of_mem_zip hic).2, hrel, Or.inr hcl, by rw [hprod]⟩
      · rename_i hcl
        obtain ⟨q, hq, rfl⟩ := List.mem_map.mp hprod
        right; left
        exact ⟨ic, hic, hrel, hcl, q, hq, rfl⟩
      · simp at hprod
    · simp at hprod
  · right; right
    have hdst : p.2.dst = p.1 := by rw [h2]; rfl
    refine ⟨by rw [hdst]; exact h2, d, by simpa using hd, ?_⟩
    rw [hdst, ← parents_eq_ancestors]
    exact hpar

/-- the directories created for an entry are exactly the ancestor directories of its
    normalised destination – "nothing else" (all byte strings) -/
theorem implied_parents_exact (path : Bytes) :
    (sortedParentsC path).map normDir = ancestorDirs (normFile path) := parents_eq_ancestors path

/-! ### collision decision logic, stated outright -/

/-- a file-like entry (symlink, ghost, doc, …) is rejected when anything – a
    non-directory or a directory, explicit or implied – already sits at its destination -/
theorem collision_fileLike_occupied (O : Oracle) (cfg : PlanCfg) (m : CMap) (i : Nat) (c : Content)
    (hrel : isRelevant cfg.packager c = true) (hcls : classify c.type = .fileLike)
    (hocc : (m.lookup (normFile c.dst)).isSome ∨ (m.lookup (normDir c.dst)).isSome) :
    planStep O cfg m (i, c) = .error .collision := by
  unfold planStep
  simp only [hrel, Bool.not_true, Bool.false_eq_true, if_false, hcls]
  unfold occupant
  rcases hocc with h | h
  · obtain ⟨v, hv⟩ := Option.isSome_iff_exists.mp h
    simp [hv]
  · obtain ⟨v, hv⟩ := Option.isSome_iff_exists.mp h
    cases hf : m.lookup (normFile c.dst) with
    | some w => simp
    | none => simp [hv]

/-- an explicit directory is rejected when a non-directory or another explicit
    directory already sits at its destination; it may replace an implied one -/
theorem collision_dir_occupied (O : Oracle) (cfg : PlanCfg) (m : CMap) (i : Nat) (c : Content)
    (hrel : isRelevant cfg.packager c = true) (hcls : classify c.type = .dir)
    (hocc : (m.lookup (normFile c.dst)).isSome ∨
            (∃ p, m.lookup (normDir c.dst) = some p ∧ p.type ≠ T.implicitDir)) :
    planStep O cfg m (i, c) = .error .collision := by
  unfold planStep
  simp only [hrel, Bool.not_true, Bool.false_eq_true, if_false, hcls]
  have : dirOccupied m c.dst = true := by
    unfold dirOccupied
    rcases hocc with h | ⟨p, hp, hne⟩
    · simp [h]
    · simp [hp, hne]
  simp [this]

/-- nothing may be placed beneath a non-directory: adding parents fails as soon
    as one of them is occupied by a file-like entry -/
theorem collision_parent_is_file (mt : Int) (p : Bytes) (ps : List Bytes) (m : CMap)
    (h : (m.lookup (normFile p)).isSome) : addParentsL mt (p :: ps) m = .error .collision := by
  obtain ⟨v, hv⟩ := Option.isSome_iff_exists.mp h
  simp [addParentsL, hv]

def mapKeys (r : Except ErrClass CMap) : Option (List Bytes) :=
  match r with
  | .ok m => some m.keys
  | .error _ => none

def isCollision (r : Except ErrClass (List Content)) : Bool :=
  match r with
  | .error .collision => true
  | _ => false

/-- non-vacuity: a concrete plan with an explicit directory, an implied one and a
    symlink (oddly spelled) meets the hypotheses and comes out in the expected order. -/
example :
    mapKeys (planMap {} { umask := 0o022, packager := P.deb, noGlob := false, mtime := 0 }
      (zipIdx [ { dst := b!"/opt/x/", type := T.dir }, { src := b!"t", dst := b!"/opt/x/y/../l", type := T.symlink } ]) [])
      = some [b!"/opt/", b!"/opt/x/", b!"/opt/x/l"] := by decide

/-- witness: a symlink and a directory at one path are a collision (silently accepted before the fix) -/
example :
    isCollision (plan {} { umask := 0o022, packager := [], noGlob := false, mtime := 0 }
      [ { dst := b!"/a", type := T.dir }, { src := b!"t", dst := b!"/a", type := T.symlink } ]) = true := by decide

/-- witness: an entry beneath a non-directory is a collision -/
example :
    isCollision (plan {} { umask := 0o022, packager := [], noGlob := false, mtime := 0 }
      [ { src := b!"t", dst := b!"/a", type := T.symlink }, { dst := b!"/a/b", type := T.dir } ]) = true := by decide

/-- the translator regenerated, on this run and from the working tree, every table this property is tied through
    (when an extraction fails the reviewed table stands in so that the model still compiles, and this stops checking) -/
theorem translator_tables_regenerated : Generated.extracted_FsPaths = true ∧ Generated.extracted_G3Types = true := by decide

end Nfpm.Props.C05
