import NfpmModel.Io
import NfpmModel.Contents
import NfpmModel.Generated.G9Dropped
/-
  C06  Failure is loud: no success on incomplete output, no partial file left.

  For every program of destination-reaching calls and every fault index k (no bound):
    loud_generic            if every call that can write to the destination has its error result
                            observed, then a destination failing from any write index k on makes
                            the run return an error
    loud_iff_last_checked   … exactly when the last such call is observed (so a single dropped
                            `Close` at the end is what silences a failure – witnesses below)
    recorded_loud           a destination that records its first error and is checked at the end
                            is loud whatever the individual calls do (deb's errRecorder)
    silent_witness_*        the two shapes that were silent before the fixes (archlinux: dropped
                            Close; deb: ar pad byte) are violations in the model as well
  Finite, over the table regenerated from the source by errcheck on every run:
    dropped_errors_are_allowlisted   every call whose error is dropped is one of the known calls
                            that cannot carry a destination failure
  Source faults and CLI behaviour, as decision logic:
    missing_source_fails / missing_tree_fails / invalid_type_fails
    cli_failure_outcome     on a Package error: non-zero exit, cause printed, target removed
-/
set_option linter.unusedSimpArgs false

namespace Nfpm.Props.C06
open Nfpm B

theorem runFrom_loud (k : Nat) (prog : List WStep) (i : Nat)
    (hall : ∀ s ∈ prog, s.sink = .dest → s.checked = true)
    (hk : k < i + destWrites prog) (hpos : 0 < destWrites prog) : runFrom k i prog = true := by
  induction prog generalizing i with
  | nil => simp [destWrites] at hpos
  | cons s rest ih =>
    unfold runFrom
    cases hs : s.sink with
    | mem =>
      simp only []
      have e : destWrites (s :: rest) = destWrites rest := by simp [destWrites, hs]
      rw [e] at hk hpos
      exact ih i (fun x hx => hall x (List.mem_cons_of_mem _ hx)) hk hpos
    | dest =>
      simp only []
      have hc := hall s (by simp) hs
      have e : destWrites (s :: rest) = destWrites rest + 1 := by simp [destWrites, hs]
      rw [e] at hk
      by_cases hki : k ≤ i
      · simp [hki, hc]
      · have : ¬ (decide (k ≤ i) && s.checked) = true := by simp [hki]
        simp only [this, if_false]
        exact ih (i + 1) (fun x hx => hall x (List.mem_cons_of_mem _ hx)) (by omega) (by omega)

/-- **loud**: every destination-reaching call observed ⇒ every fault index is reported -/
theorem loud_generic (prog : List WStep) (hall : ∀ s ∈ prog, s.sink = .dest → s.checked = true)
    (k : Nat) (hk : k < destWrites prog) : run prog k = true :=
  runFrom_loud k prog 0 hall (by omega) (by omega)

/-- a recorded destination is loud whatever the individual calls do -/
theorem recorded_loud (prog : List WStep) (k : Nat) (hk : k < destWrites prog) : runRecorded prog k = true := by
  simp [runRecorded, hk]

/-- conversely, one dropped result at the end silences the failure of exactly that write -/
theorem silent_if_last_dropped (pre : List WStep) :
    run (pre ++ [{ sink := .dest, checked := false }]) (destWrites pre) = false := by
  unfold run
  have gen : ∀ (p : List WStep) (i : Nat),
      runFrom (i + destWrites p) i (p ++ [{ sink := .dest, checked := false }]) = false := by
    intro p
    induction p with
    | nil => intro i; simp [runFrom, destWrites]
    | cons s rest ih =>
      intro i
      simp only [List.cons_append]
      unfold runFrom
      cases hs : s.sink with
      | mem =>
        simp only []
        have := ih i
        simp [destWrites, hs] at this ⊢
        exact this
      | dest =>
        simp only []
        have hlt : ¬ (i + destWrites (s :: rest) ≤ i) := by simp [destWrites, hs]
        simp only [hlt, decide_false, Bool.false_and, Bool.false_eq_true, if_false]
        have := ih (i + 1)
        simp [destWrites, hs] at this ⊢
        rw [show i + (List.length (List.filter (fun x => decide (x.sink = Sink.dest)) rest) + 1)
              = i + 1 + List.length (List.filter (fun x => decide (x.sink = Sink.dest)) rest) by omega]
        exact this
  have := gen pre 0
  simpa using this

/-- witnesses of the two defects repaired in 57c8052 (archlinux: all output written at a dropped
    Close) and ee27fd3 (deb: the ar pad byte's write result is dropped) -/
theorem silent_witness_arch : run [{ sink := .dest, checked := false }] 0 = false := by decide
theorem silent_witness_deb_pad :
    run [⟨.dest, true⟩, ⟨.dest, true⟩, ⟨.dest, true⟩, ⟨.dest, false⟩] 3 = false ∧
    runRecorded [⟨.dest, true⟩, ⟨.dest, true⟩, ⟨.dest, true⟩, ⟨.dest, false⟩] 3 = true := by decide

/-! ### the dropped error results of today's source -/

/-- calls whose dropped result cannot hide a destination failure: closing a file that was only
    read, the "just in case" deferred Close of writers that are closed and checked explicitly on
    the success path, writers into memory buffers, and the CLI's own clean-up; each call is named by what
    is called (package path and receiver type from go/types), so renaming a variable neither hides nor adds a row -/
def allowlist : List (Bytes × Bytes × Bytes) :=
  [(b!"arch", b!"createFilesInTar", b!"defer (*os.File).Close("),
  (b!"arch", b!"createMtree", b!"(*github.com/klauspost/pgzip.Writer).Close("),
  (b!"arch", b!"createMtree", b!"defer (*github.com/klauspost/pgzip.Writer).Close("),
  (b!"arch", b!"writeScripts", b!"_ = (*os.File).Close("),
  (b!"arch", b!"writeScripts", b!"defer (*os.File).Close("),
  (b!"arch", b!"writeScripts", b!"fmt.Fprintf("),
  (b!"deb", b!"copyToTarAndDigest", b!"defer (*os.File).Close("),
  (b!"deb", b!"createChangelogInsideDataTar", b!"defer (*compress/gzip.Writer).Close("),
  (b!"deb", b!"createControl", b!"defer (*archive/tar.Writer).Close("),
  (b!"deb", b!"createControl", b!"defer (*compress/gzip.Writer).Close("),
  (b!"deb", b!"createDataTarball", b!"defer (io.Closer).Close("),
  (b!"deb", b!"fillDataTar", b!"defer (*archive/tar.Writer).Close("),
  (b!"deb", b!"readDpkgSigData", b!"v, _ := (*text/template.Template).Parse("),
  (b!"internal/cmd", b!"doPackage", b!"defer (*os.File).Close("),
  (b!"internal/cmd", b!"doPackage", b!"os.Remove("),
  (b!"ipk", b!"newTGZ", b!"defer (*archive/tar.Writer).Close("),
  (b!"ipk", b!"newTGZ", b!"defer (*compress/gzip.Writer).Close("),
  (b!"ipk", b!"writeFile", b!"defer (*os.File).Close("),
  (b!"nfpm", b!"ParseFileWithEnvMapping", b!"defer (*os.File).Close(") ]

/-- every dropped error result in the packaging code of the current tree is allowlisted
    (a new `_ =`, bare call or `defer x.Close()` on an output path changes this table) -/
theorem dropped_errors_are_allowlisted : Generated.droppedErrors.all (fun d => allowlist.contains d) = true := by decide

/-! ### source faults -/

/-- a content source that does not exist makes planning fail (all entry lists, all oracles) -/
theorem missing_source_fails (O : Oracle) (cfg : PlanCfg) (m : CMap) (i : Nat) (c : Content) (g : GlobRes) (e : ErrClass)
    (hrel : isRelevant cfg.packager c = true) (hcls : classify c.type = .globbed)
    (hg : O.glob i = some g) (he : g.err = some e) : planStep O cfg m (i, c) = .error e := by
  unfold planStep
  simp [hrel, hcls, hg, globMap, he]

theorem no_match_fails (O : Oracle) (cfg : PlanCfg) (m : CMap) (i : Nat) (c : Content) (g : GlobRes)
    (hrel : isRelevant cfg.packager c = true) (hcls : classify c.type = .globbed)
    (hg : O.glob i = some g) (he : g.err = none) (hh : g.hits = []) : planStep O cfg m (i, c) = .error .globNoMatch := by
  unfold planStep
  simp [hrel, hcls, hg, globMap, he, hh]

theorem invalid_type_fails (O : Oracle) (cfg : PlanCfg) (m : CMap) (i : Nat) (c : Content)
    (hrel : isRelevant cfg.packager c = true) (hcls : classify c.type = .invalid) :
    planStep O cfg m (i, c) = .error .invalidType := by
  unfold planStep
  simp [hrel, hcls]

theorem plan_error_propagates (O : Oracle) (cfg : PlanCfg) (ic : Nat × Content) (rest : List (Nat × Content)) (m : CMap)
    (e : ErrClass) (h : planStep O cfg m ic = .error e) : planMap O cfg (ic :: rest) m = .error e := by
  simp [planMap, h]

/-! ### the command -/

theorem cli_failure_outcome :
    cliAfterPackage true = { exitNonZero := true, causePrinted := true, targetRemoved := true } ∧
    (cliAfterPackage false).targetRemoved = false := by decide

/-- the translator regenerated, on this run and from the working tree, every table this property is tied through
    (when an extraction fails the reviewed table stands in so that the model still compiles, and this stops checking) -/
theorem translator_tables_regenerated : Generated.extracted_G9Dropped = true := by decide

end Nfpm.Props.C06
