import NfpmModel.Lemmas.NameLemmas
import NfpmModel.Generated.G3Types
/-
  C08  Config-file and special-file typing reaches every package manager.

  Proved (all plans, any length; the type × format matrix is finite and decided
  by the kernel over tables regenerated from the source on every run):

    conffiles_exact        deb/ipk conffiles = absolute paths of exactly the config,
                           config|noreplace and config|missingok entries, plan order
    conffiles_roundtrip    a line parser recovers them (paths without newline)
    backup_exact           archlinux backup lines = the same entries, relative
    never_config_otherwise entries of any other type are never registered
    rpm_flags_table        rpm FILEFLAGS per entry type = RPMFILE_* table (config,
                           noreplace, missingok, ghost, doc, licence|license, readme, else 0)
    ghost_header_only      ghost: listed, no payload, mode defaults to 0644
    rpm_only_types_stay_in_rpm   from the relevance filter
    source_*               the `switch` arms extracted from the current source equal the
                           arms the model transcribes (translator tie, `decide`)
-/
set_option linter.unusedSimpArgs false

namespace Nfpm.Props.C08
open Nfpm B Path Spec

/-- deb/ipk: the conffiles member lists exactly the configuration entries -/
theorem conffiles_exact (plan : List Content) :
    conffiles plan = joinWith nl ((plan.filter (fun c => isConfigType c.type)).map (fun c => normFile c.dst)) ++ [nl] := rfl

theorem filter_ne_nil_self (L : List Bytes) (h : ∀ c ∈ L, c ≠ []) : L.filter (· ≠ []) = L := by
  rw [List.filter_eq_self]; intro c hc; simp [h c hc]

/-- parsing the rendered conffiles gives back the list (no path contains a newline; none is empty) -/
theorem conffiles_roundtrip (L : List Bytes) (hnl : ∀ c ∈ L, nl ∉ c) (hne : ∀ c ∈ L, c ≠ []) :
    conffilesLines (joinWith nl L ++ [nl]) = L := by
  unfold conffilesLines
  rw [splitOn_snoc_sep]
  cases hL : L with
  | nil => simp [joinWith, splitOn]
  | cons x rest =>
    rw [← hL, splitOn_joinWith nl L (by rw [hL]; simp) hnl]
    rw [List.filter_append, filter_ne_nil_self L hne]
    simp

/-- a file-like key's normalised destination is its path -/
theorem normFile_key (x : Bytes) (hx : rcomps x ≠ []) : normFile (keyOf false x) = pathOf (keyOf false x) := by
  simp only [keyOf, Bool.false_eq_true, if_false]
  rw [normFile_idem, pathOf_normFile x hx, normFile_eq]; rfl

/-- **deb / ipk**: what a conffiles parser reads is exactly `configPaths` (plan order, one line per
    expanded file), for every plan whose config destinations are normalised and newline-free -/
theorem conffiles_lists_config_entries (plan : List Content)
    (hk : ∀ c ∈ plan, isConfigType c.type = true → ∃ x, rcomps x ≠ [] ∧ c.dst = keyOf false x ∧ nl ∉ pathOf c.dst) :
    conffilesLines (conffiles plan) = configPaths plan := by
  unfold conffiles configPaths
  have hmap : (plan.filter (fun c => isConfigType c.type)).map (fun c => normFile c.dst)
            = (plan.filter (fun c => isConfigType c.type)).map (fun c => pathOf c.dst) := by
    apply List.map_congr_left
    intro c hc
    obtain ⟨hcp, hct⟩ := List.mem_filter.mp hc
    obtain ⟨x, hx, hd, _⟩ := hk c hcp hct
    rw [hd]; exact normFile_key x hx
  rw [hmap]
  apply conffiles_roundtrip
  · intro p hp
    obtain ⟨c, hc, rfl⟩ := List.mem_map.mp hp
    obtain ⟨hcp, hct⟩ := List.mem_filter.mp hc
    obtain ⟨_, _, _, hn⟩ := hk c hcp hct
    exact hn
  · intro p hp
    obtain ⟨c, hc, rfl⟩ := List.mem_map.mp hp
    obtain ⟨hcp, hct⟩ := List.mem_filter.mp hc
    obtain ⟨x, hx, hd, _⟩ := hk c hcp hct
    rw [hd, pathOf_keyOf false x hx]; simp

/-- **archlinux**: backup lines are the same entries, relative to the root -/
theorem backup_exact (plan : List Content) :
    archBackup plan = (plan.filter (fun c => isConfigType c.type)).map (fun c => asRel (asRel c.dst)) := rfl

/-- entries of any other type are never registered as configuration -/
theorem never_config_otherwise (plan : List Content) (c : Content) (hc : c ∈ plan)
    (ht : isConfigType c.type = false) (hu : ∀ d ∈ plan, d.dst = c.dst → d = c) :
    pathOf c.dst ∉ configPaths plan ∨ ∃ d ∈ plan, d ≠ c ∧ pathOf d.dst = pathOf c.dst := by
  by_cases h : pathOf c.dst ∈ configPaths plan
  · right
    unfold configPaths at h
    obtain ⟨d, hd, he⟩ := List.mem_map.mp h
    obtain ⟨hdp, hdt⟩ := List.mem_filter.mp hd
    refine ⟨d, hdp, ?_, he⟩
    intro e; subst e; rw [ht] at hdt; exact absurd hdt (by simp)
  · left; exact h

/-- **rpm**: the flags the packager attaches equal the RPMFILE_* table, for every type string -/
theorem rpm_flags_table (t : Bytes) : rpmFlags t = wantRpmFlags t := by
  unfold rpmFlags wantRpmFlags rpmFlagTable
  by_cases h1 : t = T.config
  · subst h1; decide
  by_cases h2 : t = T.configNoReplace
  · subst h2; decide
  by_cases h3 : t = T.configMissingOk
  · subst h3; decide
  by_cases h4 : t = T.ghost
  · subst h4; decide
  by_cases h5 : t = T.doc
  · subst h5; decide
  by_cases h6 : t = T.licence
  · subst h6; decide
  by_cases h7 : t = T.license
  · subst h7; decide
  by_cases h8 : t = T.readme
  · subst h8; decide
  have b1 : (T.config == t) = false := by rw [beq_eq_false_iff_ne]; exact fun e => h1 e.symm
  have b2 : (T.configNoReplace == t) = false := by rw [beq_eq_false_iff_ne]; exact fun e => h2 e.symm
  have b3 : (T.configMissingOk == t) = false := by rw [beq_eq_false_iff_ne]; exact fun e => h3 e.symm
  have b4 : (T.ghost == t) = false := by rw [beq_eq_false_iff_ne]; exact fun e => h4 e.symm
  have b5 : (T.doc == t) = false := by rw [beq_eq_false_iff_ne]; exact fun e => h5 e.symm
  have b6 : (T.licence == t) = false := by rw [beq_eq_false_iff_ne]; exact fun e => h6 e.symm
  have b7 : (T.license == t) = false := by rw [beq_eq_false_iff_ne]; exact fun e => h7 e.symm
  have b8 : (T.readme == t) = false := by rw [beq_eq_false_iff_ne]; exact fun e => h8 e.symm
  simp [h1, h2, h3, h4, h5, h6, h7, h8, List.find?, b1, b2, b3, b4, b5, b6, b7, b8]

/-- config ↦ CONFIG, noreplace ↦ CONFIG|NOREPLACE, missingok ↦ CONFIG|MISSINGOK – "exactly when declared" -/
theorem rpm_config_flags :
    rpmFlags T.config = 1 ∧ rpmFlags T.configNoReplace = 17 ∧ rpmFlags T.configMissingOk = 9 ∧
    rpmFlags T.file = 0 ∧ rpmFlags T.symlink = 0 ∧ rpmFlags T.dir = 0 := by decide

/-- **ghost**: listed in the header, no payload entry, mode defaulting to 0644 -/
theorem ghost_header_only (now imt : Int) (c : Content) (h : c.type = T.ghost)
    (hp : c.packager = [] ∨ c.packager = P.rpm) (hroot : toNix c.dst ≠ slashS)
    (hmode : (cinfo c).mode &&& 0o40000 = 0 ∧ (cinfo c).mode &&& 0o120000 ≠ 0o120000) :
    ∃ m, rpmMember now imt c = some m ∧ m.inPayload = false ∧ m.flags = 64 ∧
      m.mode = u16 ((if (cinfo c).mode = 0 then 0o644 else (cinfo c).mode) ||| 0o100000) := by
  have hpk : (c.packager ≠ [] && c.packager ≠ P.rpm) = false := by
    rcases hp with e | e <;> simp [e]
  unfold rpmMember
  simp only [hpk, Bool.false_eq_true, if_false, h, hroot,
    show ¬ T.ghost = T.implicitDir by decide, show ¬ T.ghost = T.symlink by decide, show ¬ T.ghost = T.dir by decide]
  by_cases hz : (cinfo c).mode = 0
  · simp [hz, rpmFlags]
    decide
  · have hz' : ((cinfo c).mode == 0) = false := by rw [beq_eq_false_iff_ne]; exact hz
    simp [hz, hz', hmode.1, hmode.2, rpmFlags]
    decide

/-- ghost/doc/licence/readme entries exist only in rpm plans, the changelog entry only in deb plans -/
theorem rpm_only_types_stay_in_rpm (pk : Bytes) (c : Content) (hrel : relevantEntry pk c = true)
    (hpk : pk ≠ []) (hnr : pk ≠ P.rpm) :
    c.type ≠ T.ghost ∧ c.type ≠ T.doc ∧ c.type ≠ T.licence ∧ c.type ≠ T.license ∧ c.type ≠ T.readme := by
  unfold relevantEntry at hrel
  simp only [hpk, decide_false, Bool.false_or, hnr, Bool.and_eq_true, Bool.or_eq_true, decide_eq_true_eq,
    Bool.not_eq_true', false_or] at hrel
  obtain ⟨⟨_, h⟩, _⟩ := hrel
  simp only [Bool.or_eq_false_iff, beq_eq_false_iff_ne] at h
  obtain ⟨⟨⟨⟨h1, h2⟩, h3⟩, h4⟩, h5⟩ := h
  exact ⟨h5, h1, h2, h3, h4⟩

/-! ### translator tie: the switch arms in today's source are the arms the model transcribes -/

theorem source_rpm_arms :
    Generated.rpmDataArms =
      [ ([T.config], b!"asRPMFile(rpmpack.ConfigFile)"),
        ([T.configNoReplace], b!"asRPMFile(rpmpack.ConfigFile|rpmpack.NoReplaceFile)"),
        ([T.configMissingOk], b!"asRPMFile(rpmpack.ConfigFile|rpmpack.MissingOkFile)"),
        ([T.ghost], b!"asRPMFile(rpmpack.GhostFile)"),
        ([T.doc], b!"asRPMFile(rpmpack.DocFile)"),
        ([T.licence, T.license], b!"asRPMFile(rpmpack.LicenceFile)"),
        ([T.readme], b!"asRPMFile(rpmpack.ReadmeFile)"),
        ([T.symlink], b!"asRPMSymlink"),
        ([T.dir], b!"asRPMDirectory"),
        ([T.implicitDir], b!"continue"),
        ([b!"?default"], b!"asRPMFile(rpmpack.GenericFile)") ] := by decide

theorem source_conffiles_arms :
    Generated.debConfArms = [([T.config, T.configNoReplace, T.configMissingOk], b!"append")] ∧
    Generated.ipkConfArms = [([T.config, T.configNoReplace, T.configMissingOk], b!"append")] ∧
    Generated.archBackupTypes = [T.config, T.configMissingOk, T.configNoReplace] := by decide

theorem source_rpm_flag_values :
    Generated.rpmFlagValues =
      [ (b!"ConfigFile", 1), (b!"DocFile", 2), (b!"GhostFile", 64), (b!"LicenceFile", 128),
        (b!"MissingOkFile", 8), (b!"NoReplaceFile", 16), (b!"ReadmeFile", 256) ] := by decide

theorem source_relevance_rules :
    Generated.relevanceRules =
      [ (b!"!=rpm", [T.doc, T.ghost, T.licence, T.license, T.readme]), (b!"!=deb", [T.debChangelog]) ] := by decide

set_option maxRecDepth 100000 in
/-- **relevance, tied by execution**: today's files.PrepareForPackager, run on one entry for every packager x every
    content type x every packager tag (420 cases, tabulated on every run), plans the entry exactly when the model's
    `isRelevant` says so (an entry typed `implicit dir` is never planned: such entries are only ever derived) -/
theorem source_relevance_table :
    Generated.relevanceTable.all (fun r =>
      let c : Content := { dst := b!"/relx/entry", type := r.2.1, packager := r.2.2.1 }
      if r.2.1 = T.implicitDir then r.2.2.2 == b!"out"
      else r.2.2.2 == (if isRelevant r.1 c then b!"in" else b!"out")) = true := by decide

/-- non-vacuity: a plan with two config entries and a plain file -/
example :
    conffilesLines (conffiles
      [ { dst := b!"/etc/a.conf", type := T.config }, { dst := b!"/usr/bin/x", type := T.file },
        { dst := b!"/etc/b.conf", type := T.configNoReplace } ]) = [b!"/etc/a.conf", b!"/etc/b.conf"] := by decide

/-- the translator regenerated, on this run and from the working tree, every table this property is tied through
    (when an extraction fails the reviewed table stands in so that the model still compiles, and this stops checking) -/
theorem translator_tables_regenerated : Generated.extracted_G3Types = true := by decide

end Nfpm.Props.C08
