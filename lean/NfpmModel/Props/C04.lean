import NfpmModel.Spec.ArchiveSpec
import NfpmModel.Lemmas.ArchiveLemmas
import NfpmModel.Lemmas.ArLemmas
import NfpmModel.Lemmas.TarLemmas
import NfpmModel.Lemmas.PaxLemmas
import NfpmModel.Lemmas.CpioLemmas
import NfpmModel.Lemmas.RpmHdrLemmas
import NfpmModel.Lemmas.PackageLemmas
import NfpmModel.Lemmas.RpmFilesLemmas
import NfpmModel.Lemmas.RpmSigLemmas
import NfpmModel.Lemmas.RpmGenLemmas
import NfpmModel.Digest
import NfpmModel.Props.C05
import NfpmModel.Props.C03
import NfpmModel.Props.C02
import NfpmModel.Generated.G8WriteTgz
import NfpmModel.Generated.G7Accepted
import NfpmModel.Reviewed.G8WriteTgz
/-
  C04  Every package is a well-formed archive that independent readers accept.

  What is proved (model: Archive.lean; encoders of tar/ar/cpio/gzip/xz/zstd are library code and
  are decoded by independent readers in the harness, not proved):
    apk   apk_cut_segment / apk_full_segment / apk_full_is_cut_plus_marker / apk_segments_aligned:
          for EVERY sequence of writes the builder makes, the signature and control segments are the
          tar stream without its 1024-byte end marker, 512-aligned; the data segment is the complete
          tar; (needs pad + 1024 ≤ 4096, the bufio size – a lemma, not a guard).
          apk_file_order: segments are shipped signature?, control, data.
    deb   deb_ar_members: debian-binary, control.tar.gz, data.tar<ext>, optional _gpg<type> – for
          exactly the compressions the packager accepts (regenerated list).
    ipk / arch member lists.
    names names_*: for every successful plan (C05) the tar member names are the planned destinations
          with "." prepended (deb, ipk) or the leading slash removed (apk, archlinux), in plan order:
          hence unique, relative, "./"-prefixed (deb/ipk), free of "..", directories – and only
          they – end in '/', and parents precede children (transfers C05.plan_parents_first).
    rpm   rpm_file_list_sorted: the header file list is sorted by name; the cpio payload is the
          sub-list of non-ghost entries in the same order.
          rpm_file_list_reads_back / rpm_file_list_entries_ok / rpm_payload_follows_file_list /
          rpm_plan_to_bytes_and_back: the sixteen per-file header entries rpmpack writes (DIRNAMES / DIRINDEXES /
          BASENAMES and the FILE* columns) decode to one row per file with its full name, size, mode, time, digest,
          link target, flags, owner and group; the cpio entries are the non-ghost rows in the same order with the
          bodies the rows describe; composed with the container round trip from any plan.
    source_* the statement skeletons of the assembly functions regenerated from today's source are
          the reviewed ones.
-/
set_option linter.unusedSimpArgs false
set_option linter.unusedVariables false

namespace Nfpm.Props.C04
open Nfpm B Path Spec Arc Dig

/-! ### apk segments -/

/-- what archive/tar guarantees about the builder's output: everything written plus the padding
    still owed for the last member is a whole number of 512-byte blocks -/
structure TarWrites (ws : List Bytes) (pad : Nat) : Prop where
  padLt : pad < 512
  blocks : (ws.flatten.length + pad) % 512 = 0

theorem apk_cut_segment (ws : List Bytes) (pad : Nat) (h : TarWrites ws pad) :
    tgzStream reviewedBufCap reviewedTgzOps .cut ws pad = ws.flatten ++ zeros pad :=
  tgz_cut ws pad h.padLt h.blocks

theorem apk_full_segment (ws : List Bytes) (pad : Nat) (h : TarWrites ws pad) :
    tgzStream reviewedBufCap reviewedTgzOps .full ws pad = ws.flatten ++ zeros pad ++ zeros 1024 :=
  tgz_full ws pad h.padLt h.blocks

/-- **cut vs full**: a cut segment is the complete tar of the same members minus exactly the
    end-of-archive marker (two zero blocks) -/
theorem apk_full_is_cut_plus_marker (ws : List Bytes) (pad : Nat) (h : TarWrites ws pad) :
    tgzStream reviewedBufCap reviewedTgzOps .full ws pad
      = tgzStream reviewedBufCap reviewedTgzOps .cut ws pad ++ zeros 1024 := by
  rw [apk_cut_segment ws pad h, apk_full_segment ws pad h]

/-- **alignment**: both kinds of segment are a whole number of 512-byte blocks, so the concatenated
    gzip members decompress to one well-formed tar stream -/
theorem apk_segments_aligned (ws : List Bytes) (pad : Nat) (h : TarWrites ws pad) (k : TarKind) :
    (tgzStream reviewedBufCap reviewedTgzOps k ws pad).length % 512 = 0 := by
  cases k with
  | cut => rw [apk_cut_segment ws pad h]; simp only [List.length_append, zeros_length]; exact h.blocks
  | full =>
    rw [apk_full_segment ws pad h]; simp only [List.length_append, zeros_length]
    have := h.blocks; omega

/-- nothing the builder wrote is lost or reordered on the way through the 4096-byte buffer -/
theorem apk_segment_keeps_builder_bytes (ws : List Bytes) (pad : Nat) (h : TarWrites ws pad) (k : TarKind) :
    ws.flatten <+: tgzStream reviewedBufCap reviewedTgzOps k ws pad := by
  cases k with
  | cut => rw [apk_cut_segment ws pad h]; exact List.prefix_append _ _
  | full => rw [apk_full_segment ws pad h, List.append_assoc]; exact List.prefix_append _ _

/-- the hypothesis `TarWrites` is what the block-level model of archive/tar.Writer establishes for every
    list of members whose header blocks are whole blocks -/
theorem tar_builder_writes (ms : List (Bytes × Bytes)) (hh : ∀ m ∈ ms, m.1.length % 512 = 0) :
    TarWrites (tarBuild ms).writes (tarBuild ms).pad := by
  have := tarInv_build ms hh {} ⟨by decide, by simp⟩
  exact ⟨this.1, this.2⟩

/-- **apk segments, end to end**: for every list of members, the data segment is exactly the complete tar
    stream of the members, and the signature / control segment is that stream without its last 1024 bytes
    (the end-of-archive marker) -/
theorem apk_segments_of_members (ms : List (Bytes × Bytes)) (hh : ∀ m ∈ ms, m.1.length % 512 = 0) :
    tgzStream reviewedBufCap reviewedTgzOps .full (tarBuild ms).writes (tarBuild ms).pad = tarStream ms
    ∧ tgzStream reviewedBufCap reviewedTgzOps .cut (tarBuild ms).writes (tarBuild ms).pad ++ zeros 1024 = tarStream ms := by
  have hw := tar_builder_writes ms hh
  have hb := tarBuild_bytes ms {}
  simp only [List.flatten_nil, zeros, List.replicate_zero, List.append_nil, List.nil_append] at hb
  have hfull : tgzStream reviewedBufCap reviewedTgzOps .full (tarBuild ms).writes (tarBuild ms).pad = tarStream ms := by
    rw [apk_full_segment _ _ hw]
    unfold tarStream tarBuild at *
    simp only [zeros] at *
    rw [hb]
  refine ⟨hfull, ?_⟩
  rw [← apk_full_is_cut_plus_marker _ _ hw, hfull]

/-- **segment order** -/
theorem apk_file_order (gz : Bytes → Bytes) (sig : Option Bytes) (control data : Bytes) :
    apkFile gz sig control data = (sig.map gz).getD [] ++ gz control ++ gz data := by
  cases sig <;> simp [apkFile]

set_option maxRecDepth 100000 in
/-- the skeleton and buffer size of today's apk.writeTgz, and the package assembly, are the reviewed ones -/
theorem source_apk_assembly :
    Generated.apkTgzOps = reviewedTgzOps ∧ Generated.apkBufCap = reviewedBufCap
    ∧ Generated.skel_apk_apk_writeTgz = Reviewed.skel_apk_apk_writeTgz
    ∧ Generated.skel_apk_apk_Package = Reviewed.skel_apk_apk_Package
    ∧ Generated.skel_apk_apk_combineToApk = Reviewed.skel_apk_apk_combineToApk := by
  decide

/-- non-vacuity: one 100-byte file written as header block, then data: 412 bytes of padding are owed -/
example : TarWrites [zeros 512, zeros 100] 412 :=
  ⟨by omega, by simp only [List.flatten_cons, List.flatten_nil, List.length_append, zeros_length, List.length_nil]⟩

/-! ### deb / ipk / archlinux member lists -/

/-- **deb**: for every compression setting the packager accepts, the ar members are debian-binary,
    control.tar.gz, data.tar<ext> (then the signature, when one is configured); any other setting is rejected -/
theorem deb_ar_members (compression : Bytes) (sigType : Option Bytes) :
    (compression ∈ Generated.accepted_deb_compression →
      ∃ ext, debArNames compression sigType
        = some ([b!"debian-binary", b!"control.tar.gz", b!"data.tar" ++ ext] ++ (sigType.map (b!"_gpg" ++ ·)).toList)
        ∧ ext ∈ [b!".gz", b!".xz", b!".zst", b!""])
    ∧ (compression ∉ Generated.accepted_deb_compression → debArNames compression sigType = none) := by
  constructor
  · intro h
    simp only [Generated.accepted_deb_compression, List.mem_cons, List.mem_nil_iff, or_false] at h
    rcases h with rfl | rfl | rfl | rfl | rfl
    · exact ⟨b!".gz", by cases sigType <;> simp [debArNames, debDataName], by decide⟩
    · exact ⟨b!".gz", by cases sigType <;> simp [debArNames, debDataName], by decide⟩
    · refine ⟨b!".xz", ?_, by decide⟩
      cases sigType <;> simp [debArNames, debDataName, show b!"xz" ≠ b!"gzip" by decide, show b!"xz" ≠ [] by decide]
    · refine ⟨b!".zst", ?_, by decide⟩
      cases sigType <;> simp [debArNames, debDataName, show b!"zstd" ≠ b!"gzip" by decide, show b!"zstd" ≠ [] by decide,
        show b!"zstd" ≠ b!"xz" by decide]
    · refine ⟨b!"", ?_, by decide⟩
      cases sigType <;> simp [debArNames, debDataName, show b!"none" ≠ b!"gzip" by decide, show b!"none" ≠ [] by decide,
        show b!"none" ≠ b!"xz" by decide, show b!"none" ≠ b!"zstd" by decide]
  · intro h
    simp only [Generated.accepted_deb_compression, List.mem_cons, List.mem_nil_iff, or_false, not_or] at h
    obtain ⟨h1, h2, h3, h4, h5⟩ := h
    simp [debArNames, debDataName, h1, h2, h3, h4, h5]

/-- **deb is a well-formed ar archive, byte for byte**: an independent reader of the ar format recovers from the
    file exactly the members that were written – names, bodies, order – for every list of members the format can
    express (names of at most 16 bytes not ending in a blank, bodies below 10^10 bytes); odd-sized bodies and
    their alignment byte included -/
theorem deb_ar_roundtrip (mtime : Int) (ms : List Ar.Member) (hm : ∀ m ∈ ms, Ar.MemberOK m) :
    Ar.read (Ar.file mtime ms) = some ms := by
  unfold Ar.read Ar.file
  have h8 : Ar.globalHeader.length = 8 := by decide
  rw [List.take_left' h8, List.drop_left' h8]
  simp only [ne_eq, not_true_eq_false, if_false]
  apply Ar.readMembers_all mtime ms hm
  have := Ar.flatMap_length_ge mtime ms
  simp only [List.length_append, h8]
  omega

/-- the member names deb uses fit the format -/
theorem deb_member_names_fit (compression : Bytes) (sigType : Bytes) (names : List Bytes)
    (h : debArNames compression (some sigType) = some names) (hs : sigType ∈ [b!"origin", b!"maint", b!"archive", b!"builder"]) :
    ∀ n ∈ names, n.length ≤ 16 ∧ n.getLast? ≠ some space := by
  unfold debArNames at h
  cases hd : debDataName compression with
  | none => simp [hd] at h
  | some d =>
    simp only [hd, Option.map_some, Option.some.injEq] at h
    have hdn : d ∈ [b!"data.tar.gz", b!"data.tar.xz", b!"data.tar.zst", b!"data.tar"] := by
      unfold debDataName at hd
      split at hd
      · cases hd; simp
      · split at hd
        · cases hd; simp
        · split at hd
          · cases hd; simp
          · split at hd
            · cases hd; simp
            · cases hd
    subst h
    intro n hn
    simp only [List.cons_append, List.nil_append, List.mem_cons, List.mem_nil_iff, or_false] at hn hdn hs
    rcases hn with rfl | rfl | rfl | rfl
    · decide
    · decide
    · rcases hdn with rfl | rfl | rfl | rfl <;> decide
    · rcases hs with rfl | rfl | rfl | rfl <;> decide

set_option maxRecDepth 100000 in
/-- non-vacuity: a three-member deb skeleton with an odd-sized member reads back -/
example : Ar.read (Ar.file 1700000000 [⟨b!"debian-binary", b!"2.0\n"⟩, ⟨b!"control.tar.gz", b!"abc"⟩, ⟨b!"data.tar.zst", b!"de"⟩])
    = some [⟨b!"debian-binary", b!"2.0\n"⟩, ⟨b!"control.tar.gz", b!"abc"⟩, ⟨b!"data.tar.zst", b!"de"⟩] := by decide

/-! ### the tar streams of deb and ipk, byte for byte -/

/-- **deb / ipk tar streams are well-formed**: from the byte stream archive/tar writes in GNU format (header blocks
    with leading-zero octal numbers, NUL-filled strings and checksum; bodies padded to 512; two zero blocks) an
    independent reader that verifies magic and checksum recovers exactly the members that were written – every
    header field, every body, in order – for every member list a plain header can express (names and link names
    of at most 100 bytes, owner/group names of at most 32, no NUL in strings, numbers within their octal fields –
    in GNU headers within the 7- and 11-byte binary form archive/tar falls back to, which nfpm reaches with Go's
    directory mode bit on tree directories in ipk, apk and archlinux) -/
theorem tar_roundtrip (ms : List Tar.Member) (hm : ∀ m ∈ ms, Tar.MemberOK m) : Tar.read (Tar.archive ms) = some ms :=
  Tar.read_archive ms hm

/-- the stream is a whole number of 512-byte blocks and ends in the 1024-byte end-of-archive marker -/
theorem tar_archive_shape (ms : List Tar.Member) :
    (Tar.archive ms).length % 512 = 0 ∧ ∃ pre, Tar.archive ms = pre ++ Tar.zeros 1024 := by
  refine ⟨?_, ⟨_, rfl⟩⟩
  unfold Tar.archive
  simp only [List.length_append, Tar.zeros_length]
  have : ∀ l : List Tar.Member, (l.flatMap Tar.member).length % 512 = 0 := by
    intro l
    induction l with
    | nil => simp
    | cons m rest ih =>
      simp only [List.flatMap_cons, List.length_append, Tar.member_length]
      have hp : (m.body.length + Tar.blockPad m.body.length) % 512 = 0 := by unfold Tar.blockPad; omega
      omega
  have := this ms
  omega

/-- what a logical tar member (full names, extension records) must satisfy to be expressible: every block the writer
    emits for it – the 'L' / 'K' long-name members of GNU headers, the 'x' extension member of PAX, the ordinary member
    with its cut or split name – fits a header block, and the member itself is well-formed (not a pseudo-member, no
    '=' in a record key, `path` / `linkpath` records carry its own names, GNU members without records) -/
structure PaxOK (m : Tar.PMember) : Prop where
  raw : ∀ r ∈ Tar.expand m, Tar.MemberOK r
  logical : Tar.PMemberOK m

/-- sufficient for a USTAR/PAX member: the ordinary header block as written fits, the name has no NUL, the record
    block fits the size field -/
theorem paxOK_ustar (m : Tar.PMember) (hu : m.hdr.flavor = .ustar)
    (main : Tar.MemberOK { hdr := Tar.mainHdr m, body := m.body }) (logical : Tar.PMemberOK m)
    (nameNul : (0 : UInt8) ∉ m.hdr.name) (recordsFit : (Tar.paxBody m.pax).length < 8 ^ 11) : PaxOK m := by
  refine ⟨?_, logical⟩
  intro r hr
  unfold Tar.expand at hr
  rw [hu] at hr
  simp only [List.mem_append, List.mem_singleton] at hr
  rcases hr with hr | rfl
  · split at hr
    · simp at hr
    · simp only [List.mem_singleton] at hr; subst hr
      exact Tar.xMember_ok _ _ nameNul recordsFit
  · exact main

/-- **apk / archlinux streams with PAX extension records are well-formed**: archive/tar writes a member that carries
    extension records (apk: APK-TOOLS.checksum.SHA1 on every regular file) as an extension member – header named
    <dir>/PaxHeaders.0/<file>, type 'x', body = the records `<len> <key>=<value>\n` with a self-counting length –
    followed by the ordinary member.  From that byte stream the independent reader recovers exactly the logical
    members: every header field, every record (key and value, in order), every body -/
theorem pax_roundtrip (ms : List Tar.PMember) (hm : ∀ m ∈ ms, PaxOK m) : Tar.paxRead (Tar.paxArchive ms) = some ms := by
  unfold Tar.paxRead Tar.paxArchive
  have hraw : ∀ r ∈ ms.flatMap Tar.expand, Tar.MemberOK r := by
    intro r hr
    obtain ⟨m, hmm, hrm⟩ := List.mem_flatMap.mp hr
    exact (hm m hmm).raw r hrm
  rw [Tar.read_archive _ hraw]
  exact Tar.collapse_expand ms (fun m h => (hm m h).logical)

/-- non-vacuity: a GNU member whose name has 110 bytes (carried by an 'L' member), and a USTAR member whose 121-byte
    name is split into prefix and name field, read back with their full names -/
example :
    let long : Bytes := List.replicate 60 100 ++ [47] ++ List.replicate 49 110
    Tar.paxRead (Tar.paxArchive [{ hdr := { flavor := .gnu, name := long, mode := 0o644, size := 1 }, body := [120] }])
      = some [{ hdr := { flavor := .gnu, name := long, mode := 0o644, size := 1 }, body := [120] }] := by decide +kernel
example :
    let long : Bytes := List.replicate 60 100 ++ [47] ++ List.replicate 60 110
    Tar.splitUstar long = some (List.replicate 60 100, List.replicate 60 110)
    ∧ Tar.paxRead (Tar.paxArchive [{ hdr := { flavor := .ustar, name := long, mode := 0o644, size := 1 }, body := [120] }])
      = some [{ hdr := { flavor := .ustar, name := long, mode := 0o644, size := 1 }, body := [120] }] := by decide +kernel

/-- the self-counting length prefix of every extension record is the length of the whole record -/
theorem pax_record_length (k v : Bytes) :
    ∃ N, Tar.paxRecord k v = natToDec N ++ [32] ++ k ++ [61] ++ v ++ [10] ∧ (Tar.paxRecord k v).length = N := by
  obtain ⟨N, h, hN⟩ := Tar.paxRecord_spec k v
  refine ⟨N, h, ?_⟩
  rw [h]; simp only [List.length_append, List.length_cons, List.length_nil]; omega

/-- non-vacuity: a file with a checksum record under a directory; the length prefix 9 → 10 adjustment -/
example : Tar.paxRead (Tar.paxArchive
    [{ hdr := { flavor := .ustar, name := b!"usr/", mode := 0o755, typeflag := 53 }, body := [] },
     { hdr := { flavor := .ustar, name := b!"usr/x", mode := 0o644, size := 2 }, pax := [(b!"APK-TOOLS.checksum.SHA1", b!"da39")], body := b!"hi" }])
    = some [{ hdr := { flavor := .ustar, name := b!"usr/", mode := 0o755, typeflag := 53 }, body := [] },
     { hdr := { flavor := .ustar, name := b!"usr/x", mode := 0o644, size := 2 }, pax := [(b!"APK-TOOLS.checksum.SHA1", b!"da39")], body := b!"hi" }] := by
  decide +kernel
example : Tar.paxRecord (b!"abc") (b!"de") = b!"9 abc=de" ++ [10] ∧ Tar.paxRecord (b!"abc") (b!"def") = b!"11 abc=def" ++ [10] := by decide
example : Tar.xName (b!"usr/bin/tool") = b!"usr/bin/PaxHeaders.0/tool" ∧ Tar.xName (b!"top") = b!"PaxHeaders.0/top" := by decide

/-- a payload member of the C01 model as a tar member (deb and ipk write uid = gid = 0 and the names) -/
def toTar (m : Member) (body : Bytes) : Tar.Member :=
  { hdr := { name := m.name, mode := m.mode, size := body.length, mtime := m.mtime.toNat, typeflag := m.kind,
             linkname := m.link, uname := m.uname, gname := m.gname }, body := body }

/-- **what a tar reader gets from a deb / ipk data stream is the member list of the C01 model**: for members within
    the limits of a plain header, reading the rendered stream back yields, in order, a member whose name, type,
    mode, owner, group, time, size, link target and body are those of the model member -/
theorem data_tar_reads_back_model_members (ms : List (Member × Bytes))
    (hm : ∀ p ∈ ms, Tar.MemberOK (toTar p.1 p.2)) :
    Tar.read (Tar.archive (ms.map (fun p => toTar p.1 p.2))) = some (ms.map (fun p => toTar p.1 p.2)) := by
  apply Tar.read_archive
  intro m hmem
  obtain ⟨p, hp, rfl⟩ := List.mem_map.mp hmem
  exact hm p hp

/-- an apk data-segment item of the C03 model (member, body, checksum record) as a logical tar member -/
def apkToPax (it : Member × Bytes × Option Bytes) : Tar.PMember :=
  { hdr := { flavor := .ustar, name := it.1.name, mode := it.1.mode, size := it.2.1.length, mtime := it.1.mtime.toNat,
             typeflag := it.1.kind, linkname := it.1.link, uname := it.1.uname, gname := it.1.gname },
    pax := match it.2.2 with | some h => [(b!"APK-TOOLS.checksum.SHA1", h)] | none => [],
    body := it.2.1 }

/-- **what a tar reader gets from an apk data stream is the item list of the C03 model, checksum records included**:
    the stream rendered for the items `apkData` computes from a plan – each regular file and symlink preceded by
    its extension member carrying `APK-TOOLS.checksum.SHA1=<hex SHA-1 of the bytes stored in the member>` – reads
    back as exactly those items: name, type, mode, owner, group, time, size, link target, record and body -/
theorem apk_data_reads_back_model_items (H : Hashes) (fs : Bytes → Bytes) (plan : List Content)
    (hm : ∀ it ∈ apkData H fs plan, PaxOK (apkToPax it)) :
    Tar.paxRead (Tar.paxArchive ((apkData H fs plan).map apkToPax)) = some ((apkData H fs plan).map apkToPax)
    ∧ ∀ c ∈ plan, isDirType c.type = false →
        (apkToPax (apkStep H fs c).1).pax = [(b!"APK-TOOLS.checksum.SHA1", hexOf (H.sha1 (apkToPax (apkStep H fs c).1).body))] := by
  constructor
  · apply pax_roundtrip
    intro m hmem
    obtain ⟨it, hit, rfl⟩ := List.mem_map.mp hmem
    exact hm it hit
  · intro c _ hd
    unfold apkStep apkToPax
    simp only [hd, Bool.false_eq_true, if_false]
    by_cases hs : c.type = T.symlink
    · rw [if_pos hs]
    · rw [if_neg hs]

/-- **rpm header structures are well-formed**: from the bytes rpmpack's index writer produces for a region tag and a
    list of entries (16-byte index records – the region record first – and the store with INT16/INT32 data aligned,
    the region trailer last) an independent reader recovers the region tag, every entry (tag, type, count, data
    bytes) in order and the bytes that follow, for every entry list the structure can express (data shaped as the
    type and count announce, everything within 32 bits) -/
theorem rpm_header_roundtrip (h : Nat) (es : List RpmHdr.Entry) (rest : Bytes) (ok : RpmHdr.HeaderOK h es) :
    RpmHdr.read (RpmHdr.header h es ++ rest) = some (h, es, rest) :=
  RpmHdr.read_header h es rest ok

/-- **the rpm file is well-formed**: 96-byte lead, signature header (region 62), NUL padding to the next 8-byte
    boundary, header (region 63), payload; the reader recovers the lead name, both entry lists and the payload, and
    finds the main header – the bytes the header digests and signatures cover – at offset 96 + signature header +
    padding, a multiple of 8, with exactly the length it was written with -/
theorem rpm_file_roundtrip (nv : Bytes) (sig hdr : List RpmHdr.Entry) (payload : Bytes)
    (hs : RpmHdr.HeaderOK 62 sig) (hh : RpmHdr.HeaderOK 63 hdr) (h0 : (0 : UInt8) ∉ nv) (hl : nv.length ≤ 65) :
    RpmHdr.readFile (RpmHdr.file nv sig hdr payload)
      = some { leadName := nv, sig := sig, hdr := hdr,
               hdrOff := 96 + (RpmHdr.header 62 sig).length + RpmHdr.pad8 (RpmHdr.header 62 sig).length,
               hdrLen := (RpmHdr.header 63 hdr).length, payload := payload }
    ∧ (96 + (RpmHdr.header 62 sig).length + RpmHdr.pad8 (RpmHdr.header 62 sig).length) % 8 = 0 := by
  refine ⟨RpmHdr.readFile_file nv sig hdr payload hs hh h0 hl, ?_⟩
  unfold RpmHdr.pad8; omega

/-- **the region the rpm digests and signatures cover**: the bytes the reader locates as the main header (offset and
    length it reports) are exactly the header structure that was written, and what follows them is exactly the
    payload – so "header SHA-256 / header signature over the header as shipped" and "payload digest over the
    payload as shipped" (C03, C10) speak about well-defined, disjoint regions of the file -/
theorem rpm_header_region (nv : Bytes) (sig hdr : List RpmHdr.Entry) (payload : Bytes) :
    let off := 96 + (RpmHdr.header 62 sig).length + RpmHdr.pad8 (RpmHdr.header 62 sig).length
    ((RpmHdr.file nv sig hdr payload).drop off).take (RpmHdr.header 63 hdr).length = RpmHdr.header 63 hdr
    ∧ (RpmHdr.file nv sig hdr payload).drop (off + (RpmHdr.header 63 hdr).length) = payload := by
  intro off
  have hfile : RpmHdr.file nv sig hdr payload
      = (RpmHdr.lead nv ++ RpmHdr.header 62 sig ++ RpmHdr.zeros (RpmHdr.pad8 (RpmHdr.header 62 sig).length))
        ++ (RpmHdr.header 63 hdr ++ payload) := by
    simp [RpmHdr.file, List.append_assoc]
  have hlen : (RpmHdr.lead nv ++ RpmHdr.header 62 sig ++ RpmHdr.zeros (RpmHdr.pad8 (RpmHdr.header 62 sig).length)).length = off := by
    simp only [List.length_append, RpmHdr.lead_length, RpmHdr.zeros_length, off]
  constructor
  · rw [hfile, List.drop_left' hlen]
    exact List.take_left' rfl
  · rw [hfile, ← List.drop_drop, List.drop_left' hlen]
    exact List.drop_left' rfl

/-- non-vacuity: a name string, an aligned INT32 after an odd-length string, a string array and a binary entry -/
example : RpmHdr.read (RpmHdr.header 63
    [ { tag := 1000, typ := 6, count := 1, data := b!"pkg" ++ [0] },
      { tag := 1009, typ := 4, count := 2, data := [0, 0, 0, 1, 0, 0, 1, 0] },
      { tag := 1117, typ := 8, count := 2, data := b!"a" ++ [0] ++ b!"bc" ++ [0] },
      { tag := 1146, typ := 7, count := 3, data := [1, 2, 3] } ] ++ b!"payload")
    = some (63, [ { tag := 1000, typ := 6, count := 1, data := b!"pkg" ++ [0] },
      { tag := 1009, typ := 4, count := 2, data := [0, 0, 0, 1, 0, 0, 1, 0] },
      { tag := 1117, typ := 8, count := 2, data := b!"a" ++ [0] ++ b!"bc" ++ [0] },
      { tag := 1146, typ := 7, count := 3, data := [1, 2, 3] } ], b!"payload") := by decide +kernel

/-! ### whole packages: the containers composed, read back end to end

  Compression is a parameter of these theorems: any compressor `z` with a decompressor `u` such that
  `u (z x) = some x` (`Pkg.Inverts`); the compressors themselves are library code and are exercised, not modelled. -/

/-- **deb, end to end**: the ar file of debian-binary, control.tar.gz, data.tar<ext> and an optional signature member
    is taken apart again – ar reader, decompressors, tar readers – into exactly the control members, the data
    member name, the data members and the signature member it was assembled from -/
theorem deb_package_roundtrip (mtime : Int) (zc zd : Bytes → Bytes) (uc ud : Bytes → Option Bytes)
    (hc : Pkg.Inverts uc zc) (hd : Pkg.Inverts ud zd)
    (dataName : Bytes) (control data : List Tar.Member) (sig : Option Ar.Member)
    (hcm : ∀ m ∈ control, Tar.MemberOK m) (hdm : ∀ m ∈ data, Tar.MemberOK m)
    (hcs : (zc (Tar.archive control)).length < 10 ^ 10)
    (hds : Ar.MemberOK { name := dataName, body := zd (Tar.archive data) })
    (hsig : ∀ s ∈ sig, Ar.MemberOK s) :
    Pkg.readDeb uc ud (Pkg.debFile mtime zc zd dataName control data sig)
      = some { control := control, dataName := dataName, data := data, sig := sig } :=
  Pkg.readDeb_debFile mtime zc zd uc ud hc hd dataName control data sig hcm hdm hcs hds hsig

/-- **ipk, end to end**: gzip tar of ./debian-binary, ./control.tar.gz, ./data.tar.gz, each inner archive read back -/
theorem ipk_package_roundtrip (mtime : Nat) (z : Bytes → Bytes) (u : Bytes → Option Bytes) (hz : Pkg.Inverts u z)
    (control data : List Tar.Member) (hm : mtime < 8 ^ 11)
    (hcm : ∀ m ∈ control, Tar.MemberOK m) (hdm : ∀ m ∈ data, Tar.MemberOK m)
    (hcs : (z (Tar.archive control)).length < 8 ^ 11) (hds : (z (Tar.archive data)).length < 8 ^ 11) :
    Pkg.readIpk u (Pkg.ipkFile mtime z control data) = some (control, data) :=
  Pkg.readIpk_ipkFile mtime z u hz control data hm hcm hdm hcs hds

/-- **archlinux, end to end**: one compressed tar stream with extension records -/
theorem arch_package_roundtrip (z : Bytes → Bytes) (u : Bytes → Option Bytes) (hz : Pkg.Inverts u z) (ms : List Tar.PMember)
    (hm : ∀ m ∈ ms, PaxOK m) : Pkg.readArch u (Pkg.archFile z ms) = some ms :=
  Pkg.readArch_archFile z u hz ms (pax_roundtrip ms hm)

/-- **apk, end to end**: what a reader of the concatenated gzip members sees – the signature and control segments
    cut before their end-of-archive markers, then the complete data tar – is ONE well-formed tar stream whose
    members are those of the signature (if any), control and data segments, in that order -/
theorem apk_stream_roundtrip (sig : Option (List Tar.PMember)) (control data : List Tar.PMember)
    (hm : ∀ m ∈ (sig.getD []) ++ control ++ data, PaxOK m) :
    Tar.paxRead (Pkg.apkStream sig control data) = some ((sig.getD []) ++ control ++ data) := by
  apply Pkg.apkStream_reads
  · intro r hr
    obtain ⟨m, hmm, hrm⟩ := List.mem_flatMap.mp hr
    exact (hm m hmm).raw r hrm
  · exact fun m h => (hm m h).logical

/-- **rpm, end to end**: lead, signature header, header and the compressed cpio payload; the reader recovers the lead
    name, both entry lists and the payload entries in order with running inode numbers -/
theorem rpm_package_roundtrip (nv : Bytes) (z : Bytes → Bytes) (u : Bytes → Option Bytes) (hz : Pkg.Inverts u z)
    (sig hdr : List RpmHdr.Entry) (payload : List Cpio.Entry)
    (hs : RpmHdr.HeaderOK 62 sig) (hh : RpmHdr.HeaderOK 63 hdr) (h0 : (0 : UInt8) ∉ nv) (hl : nv.length ≤ 65)
    (hp : ∀ e ∈ payload, Cpio.EntryOK e) (hn : 1 + payload.length < 16 ^ 8) :
    (Pkg.readRpm u (Pkg.rpmFile nv z sig hdr payload)).map (fun r => (r.leadName, r.sig, r.hdr, r.payload))
      = some (nv, sig, hdr, Cpio.expected 1 payload) :=
  Pkg.readRpm_rpmFile nv z u hz sig hdr payload hs hh h0 hl hp hn

/-- **deb, from the plan to the bytes and back** (C01, C03 and C04 composed): take any plan, let the model of
    deb.createFilesInsideDataTar produce the data members with their bodies and the md5sums bytes, put them – with
    whatever other control members – into the package; then an independent reader of the package (ar reader,
    decompressors, tar readers) gets back exactly those data members, finds the md5sums member, and a line reader of
    that member yields, for every regular data member in archive order, the hex MD5 of the body the member carries
    and the member's name – nothing else -/
theorem deb_plan_to_bytes_and_back (H : Hashes) (fs : Bytes → Bytes) (now imt : Int) (changelog : Bytes) (plan : List Content)
    (hok : ∀ c ∈ plan, C03.debFileType c → C03.FileOK fs c)
    (mtime : Int) (zc zd : Bytes → Bytes) (uc ud : Bytes → Option Bytes) (hc : Pkg.Inverts uc zc) (hd : Pkg.Inverts ud zd)
    (dataName : Bytes) (others : List Tar.Member) (md5hdr : Tar.Hdr) (sig : Option Ar.Member)
    (hname : md5hdr.name = b!"./md5sums")
    (hnl : ∀ p ∈ debData H fs now imt changelog plan, nl ∉ p.1.name)
    (hcm : ∀ m ∈ others ++ [{ hdr := md5hdr, body := debMd5sums H fs now imt changelog plan }], Tar.MemberOK m)
    (hdm : ∀ p ∈ debData H fs now imt changelog plan, Tar.MemberOK (toTar p.1 p.2))
    (hcs : (zc (Tar.archive (others ++ [{ hdr := md5hdr, body := debMd5sums H fs now imt changelog plan }]))).length < 10 ^ 10)
    (hds : Ar.MemberOK { name := dataName, body := zd (Tar.archive ((debData H fs now imt changelog plan).map (fun p => toTar p.1 p.2))) })
    (hsig : ∀ s ∈ sig, Ar.MemberOK s) :
    ∃ d, Pkg.readDeb uc ud (Pkg.debFile mtime zc zd dataName
            (others ++ [{ hdr := md5hdr, body := debMd5sums H fs now imt changelog plan }])
            ((debData H fs now imt changelog plan).map (fun p => toTar p.1 p.2)) sig) = some d
      ∧ d.data = (debData H fs now imt changelog plan).map (fun p => toTar p.1 p.2)
      ∧ ∃ m ∈ d.control, m.hdr.name = b!"./md5sums"
          ∧ C03.parseMd5sums m.body
              = ((C03.shipAll H (debData H fs now imt changelog plan)).filter (·.isReg)).map (fun s => (hexOf s.md5, s.name)) := by
  refine ⟨_, Pkg.readDeb_debFile mtime zc zd uc ud hc hd dataName _ _ sig hcm ?_ hcs hds hsig, rfl, ?_⟩
  · intro m hm
    obtain ⟨p, hp, rfl⟩ := List.mem_map.mp hm
    exact hdm p hp
  · refine ⟨{ hdr := md5hdr, body := debMd5sums H fs now imt changelog plan }, by simp, hname, ?_⟩
    simp only []
    rw [C03.deb_md5sums_match H fs now imt changelog plan hok]
    apply C03.md5sums_roundtrip
    intro s hs
    unfold C03.shipAll at hs
    obtain ⟨p, hp, rfl⟩ := List.mem_map.mp hs
    exact hnl p hp

/-- **deb control, from the configuration and the plan to the bytes and back** (C02, C03 and C04 composed): the control
    file the model of deb.createControl renders from the configuration's leaves and the Installed-Size computed while
    the data tar was written, shipped as `./control` in the control archive of the package, is found again by an
    independent reader of the package, and the control format's own parser recovers from it exactly the configured
    fields – with an Installed-Size that is the KiB figure of the regular-file bytes the data archive ships -/
theorem deb_control_to_bytes_and_back (H : Hashes) (fs : Bytes → Bytes) (now imt : Int) (changelog : Bytes) (plan : List Content)
    (l : Leaves) (hok : ∀ c ∈ plan, C03.debFileType c → C03.FileOK fs c)
    (hwf : ∀ f ∈ debFields l (expKiB (C03.shipAll H (debData H fs now imt changelog plan))), C02.WfField f)
    (mtime : Int) (zc zd : Bytes → Bytes) (uc ud : Bytes → Option Bytes) (hc : Pkg.Inverts uc zc) (hd : Pkg.Inverts ud zd)
    (dataName : Bytes) (others : List Tar.Member) (chdr : Tar.Hdr) (sig : Option Ar.Member)
    (hname : chdr.name = b!"./control")
    (hcm : ∀ m ∈ others ++ [{ hdr := chdr, body := debControl l (debInstalledKiB H fs now imt changelog plan) }], Tar.MemberOK m)
    (hdm : ∀ p ∈ debData H fs now imt changelog plan, Tar.MemberOK (toTar p.1 p.2))
    (hcs : (zc (Tar.archive (others ++ [{ hdr := chdr, body := debControl l (debInstalledKiB H fs now imt changelog plan) }]))).length < 10 ^ 10)
    (hds : Ar.MemberOK { name := dataName, body := zd (Tar.archive ((debData H fs now imt changelog plan).map (fun p => toTar p.1 p.2))) })
    (hsig : ∀ s ∈ sig, Ar.MemberOK s) :
    ∃ d, Pkg.readDeb uc ud (Pkg.debFile mtime zc zd dataName
            (others ++ [{ hdr := chdr, body := debControl l (debInstalledKiB H fs now imt changelog plan) }])
            ((debData H fs now imt changelog plan).map (fun p => toTar p.1 p.2)) sig) = some d
      ∧ ∃ m ∈ d.control, m.hdr.name = b!"./control"
          ∧ parseControl m.body = debFields l (expKiB (C03.shipAll H (debData H fs now imt changelog plan))) := by
  refine ⟨_, Pkg.readDeb_debFile mtime zc zd uc ud hc hd dataName _ _ sig hcm ?_ hcs hds hsig, ?_⟩
  · intro m hm
    obtain ⟨p, hp, rfl⟩ := List.mem_map.mp hm
    exact hdm p hp
  · refine ⟨{ hdr := chdr, body := debControl l (debInstalledKiB H fs now imt changelog plan) }, by simp, hname, ?_⟩
    simp only []
    rw [C03.deb_installed_size_match H fs now imt changelog plan hok]
    unfold debControl
    apply C02.control_roundtrip _ _ hwf
    simp [debFields]

/-- **ipk, from the configuration and the plan to the bytes and back**: the data members the model of
    ipk.populateDataTar writes for a plan and the control file rendered from the configuration's leaves, assembled into
    the gzip-compressed outer tar, are recovered by an independent reader (decompressor, three tar readers); the control
    format's parser gets back exactly the configured fields, with an Installed-Size (omitted when 0) that is the KiB
    figure of the regular-file bytes the data archive ships -/
theorem ipk_plan_to_bytes_and_back (H : Hashes) (fs : Bytes → Bytes) (now imt : Int) (plan : List Content) (l : Leaves)
    (hwf : ∀ f ∈ ipkFields l (expKiB (C03.shipAll H (ipkData fs now imt plan))), C02.WfField f)
    (mtime : Nat) (z : Bytes → Bytes) (u : Bytes → Option Bytes) (hz : Pkg.Inverts u z)
    (others : List Tar.Member) (chdr : Tar.Hdr) (hname : chdr.name = b!"./control") (hm : mtime < 8 ^ 11)
    (hcm : ∀ m ∈ others ++ [{ hdr := chdr, body := ipkControl l (ipkInstalledKiB fs now imt plan) }], Tar.MemberOK m)
    (hdm : ∀ p ∈ ipkData fs now imt plan, Tar.MemberOK (toTar p.1 p.2))
    (hcs : (z (Tar.archive (others ++ [{ hdr := chdr, body := ipkControl l (ipkInstalledKiB fs now imt plan) }]))).length < 8 ^ 11)
    (hds : (z (Tar.archive ((ipkData fs now imt plan).map (fun p => toTar p.1 p.2)))).length < 8 ^ 11) :
    ∃ c, Pkg.readIpk u (Pkg.ipkFile mtime z (others ++ [{ hdr := chdr, body := ipkControl l (ipkInstalledKiB fs now imt plan) }])
            ((ipkData fs now imt plan).map (fun p => toTar p.1 p.2)))
          = some (c, (ipkData fs now imt plan).map (fun p => toTar p.1 p.2))
      ∧ ∃ m ∈ c, m.hdr.name = b!"./control"
          ∧ parseControl m.body = ipkFields l (expKiB (C03.shipAll H (ipkData fs now imt plan))) := by
  refine ⟨_, Pkg.readIpk_ipkFile mtime z u hz _ _ hm hcm ?_ hcs hds, ?_⟩
  · intro m hmm
    obtain ⟨p, hp, rfl⟩ := List.mem_map.mp hmm
    exact hdm p hp
  · refine ⟨{ hdr := chdr, body := ipkControl l (ipkInstalledKiB fs now imt plan) }, by simp, hname, ?_⟩
    simp only []
    rw [C03.ipk_installed_size_match H fs now imt plan]
    unfold ipkControl
    apply C02.control_roundtrip _ _ hwf
    simp [ipkFields]

/-- **apk, from the plan to the bytes and back**: the data items the model of apk.createFilesInsideTarGz computes from
    a plan, placed after any signature and control members, give – once the gzip members are decompressed and
    concatenated – ONE tar stream that an independent reader takes apart into signature, control and data members in
    that order; the data members are the model's items, and each regular file and symlink among them carries the record
    `APK-TOOLS.checksum.SHA1 = hex SHA-1 of the bytes stored in that very member` -/
theorem apk_plan_to_bytes_and_back (H : Hashes) (fs : Bytes → Bytes) (plan : List Content)
    (sig : Option (List Tar.PMember)) (control : List Tar.PMember)
    (hm : ∀ m ∈ (sig.getD []) ++ control ++ (apkData H fs plan).map apkToPax, PaxOK m) :
    Tar.paxRead (Pkg.apkStream sig control ((apkData H fs plan).map apkToPax))
        = some ((sig.getD []) ++ control ++ (apkData H fs plan).map apkToPax)
    ∧ ∀ c ∈ plan, isDirType c.type = false →
        (apkToPax (apkStep H fs c).1).pax = [(b!"APK-TOOLS.checksum.SHA1", hexOf (H.sha1 (apkToPax (apkStep H fs c).1).body))] := by
  refine ⟨apk_stream_roundtrip sig control _ hm, ?_⟩
  have h := apk_data_reads_back_model_items H fs plan (fun it hit => hm (apkToPax it) (by
    simp only [List.mem_append, List.mem_map]
    exact Or.inr ⟨it, hit, rfl⟩))
  exact h.2

/-- an archlinux payload item of the C03 model as a logical tar member (format left to archive/tar: USTAR or PAX) -/
def archToPax (it : Member × Bytes) (pax : List (Bytes × Bytes) := []) : Tar.PMember :=
  { hdr := { flavor := .ustar, name := it.1.name, mode := it.1.mode, size := it.2.length, mtime := it.1.mtime.toNat,
             typeflag := it.1.kind, linkname := it.1.link, uname := it.1.uname, gname := it.1.gname },
    pax := pax, body := it.2 }

/-- **archlinux, from the plan to the bytes and back**: the payload members the model of arch.createFilesInTar computes
    from a plan, then .PKGINFO, then the gzip .MTREE the model renders, then .INSTALL if any – compressed into one
    stream – are taken apart again by an independent reader into exactly those members in that order, and what the
    .MTREE member holds, once decompressed, is the declarative manifest of the members as shipped: `#mtree`, the
    .PKGINFO line, one line per payload member with its type, mode, time, size, MD5, SHA-256 and link target -/
theorem arch_plan_to_bytes_and_back (H : Hashes) (fs : Bytes → Bytes) (plan : List Content) (pkginfo : Bytes) (mt : Int)
    (hok : ∀ c ∈ plan, C03.archFileType c → C03.FileOK fs c)
    (z zg : Bytes → Bytes) (u ug : Bytes → Option Bytes) (hz : Pkg.Inverts u z) (hg : Pkg.Inverts ug zg)
    (mtreeHdr : Tar.Hdr) (install : List Tar.PMember)
    (hm : ∀ m ∈ (archData H fs plan).map (archToPax ·) ++ [archToPax (archPkginfoMember pkginfo mt, pkginfo),
            { hdr := mtreeHdr, body := zg (archMtree H fs plan pkginfo mt) }] ++ install, PaxOK m) :
    Pkg.readArch u (Pkg.archFile z ((archData H fs plan).map (archToPax ·) ++ [archToPax (archPkginfoMember pkginfo mt, pkginfo),
            { hdr := mtreeHdr, body := zg (archMtree H fs plan pkginfo mt) }] ++ install))
      = some ((archData H fs plan).map (archToPax ·) ++ [archToPax (archPkginfoMember pkginfo mt, pkginfo),
            { hdr := mtreeHdr, body := zg (archMtree H fs plan pkginfo mt) }] ++ install)
    ∧ ug (zg (archMtree H fs plan pkginfo mt))
        = some (expMtree ((archData H fs plan).map (C03.storedShip H)) (ship H (archPkginfoMember pkginfo mt) pkginfo)) := by
  refine ⟨arch_package_roundtrip z u hz _ hm, ?_⟩
  rw [hg, C03.arch_mtree_match H fs plan pkginfo mt hok]

/-- non-vacuity: a concrete deb (uncompressed members, one data file, an md5sums member) is read back -/
example :
    Pkg.readDeb some some (Pkg.debFile 1700000000 id id (b!"data.tar")
      [{ hdr := { name := b!"./md5sums", mode := 0o644, size := 3 }, body := b!"abc" }]
      [{ hdr := { name := b!"./usr/", mode := 0o755, typeflag := 53 }, body := [] },
       { hdr := { name := b!"./usr/x", mode := 0o644, size := 2, uname := b!"root", gname := b!"root" }, body := b!"hi" }] none)
    = some { control := [{ hdr := { name := b!"./md5sums", mode := 0o644, size := 3 }, body := b!"abc" }],
             dataName := b!"data.tar",
             data := [{ hdr := { name := b!"./usr/", mode := 0o755, typeflag := 53 }, body := [] },
                      { hdr := { name := b!"./usr/x", mode := 0o644, size := 2, uname := b!"root", gname := b!"root" }, body := b!"hi" }],
             sig := none } := by decide +kernel

/-- non-vacuity of the compression parameter: the identity compressor (deb's `none`) has a decompressor -/
example : Pkg.Inverts some id := fun _ => rfl

/-- **archlinux**: payload first, then .PKGINFO, .MTREE, and .INSTALL iff scripts exist -/
theorem arch_member_order (payload : List Bytes) (hasScripts : Bool) :
    archNames payload hasScripts = payload ++ b!".PKGINFO" :: b!".MTREE" :: (if hasScripts then [b!".INSTALL"] else [])
    ∧ (b!".INSTALL" ∈ (archNames payload hasScripts).drop payload.length ↔ hasScripts = true) := by
  constructor
  · simp [archNames]
  · cases hasScripts <;> simp [archNames] <;> decide

set_option maxRecDepth 100000 in
/-- assembly order in today's source: deb.Package/addArFile, ipk.createIPK/newTGZ/writeToFile, arch.Package -/
theorem source_container_assembly :
    Generated.skel_deb_deb_Package = Reviewed.skel_deb_deb_Package
    ∧ Generated.skel_deb_deb_addArFile = Reviewed.skel_deb_deb_addArFile
    ∧ Generated.skel_ipk_ipk_createIPK = Reviewed.skel_ipk_ipk_createIPK
    ∧ Generated.skel_ipk_tar_newTGZ = Reviewed.skel_ipk_tar_newTGZ
    ∧ Generated.skel_ipk_tar_writeToFile = Reviewed.skel_ipk_tar_writeToFile
    ∧ Generated.skel_arch_arch_Package = Reviewed.skel_arch_arch_Package := by
  decide

/-! ### member names -/

/-- what planning establishes for every entry but the root (C05.plan_destinations_clean) -/
def Planned (c : Content) : Prop :=
  ∃ x, rcomps x ≠ [] ∧ c.dst = if isDirType c.type then normDir x else normFile x

theorem planned_of_plan (O : Oracle) (cfg : PlanCfg) (raw l : List Content) (h : plan O cfg raw = .ok l) :
    ∀ c ∈ l, c.dst ≠ [slash] → c.dst ≠ [slash, slash] → Planned c := by
  obtain ⟨m, _, hl, hinv⟩ := plan_ok_inv O cfg raw l h
  subst hl
  intro c hc hr1 hr2
  rw [List.mem_mergeSort, List.mem_map] at hc
  obtain ⟨p, hp, rfl⟩ := hc
  obtain ⟨hdst, x, hx⟩ := hinv.keyok p hp
  refine ⟨x, ?_, by rw [hdst, hx]⟩
  rw [hdst, hx] at hr1 hr2
  by_cases hd : isDirType p.2.type = true
  · simp only [hd, if_true] at hr2
    intro e; apply hr2; rw [normDir_eq, e]; rfl
  · simp only [Bool.not_eq_true] at hd
    simp only [hd, Bool.false_eq_true, if_false] at hr1
    intro e; apply hr1; rw [normFile_eq, e]; rfl

/-- **the relative name is the destination without its leading slash** -/
theorem rel_name (c : Content) (h : Planned c) : slash :: asRel c.dst = c.dst := by
  obtain ⟨x, hx, hd⟩ := h
  rw [hd]
  by_cases hdir : isDirType c.type = true
  · simp only [hdir, if_true]; exact slash_asRel_normDir x hx
  · simp only [Bool.not_eq_true] at hdir
    simp only [hdir, Bool.false_eq_true, if_false]; exact slash_asRel_normFile x hx

/-- applying AsRelativePath twice (apk's regular files) changes nothing -/
theorem rel_name_twice (c : Content) (h : Planned c) (hf : isDirType c.type = false) : asRel (asRel c.dst) = asRel c.dst := by
  obtain ⟨x, hx, hd⟩ := h
  rw [hd]
  simp only [hf, Bool.false_eq_true, if_false]
  rw [normFile_eq, asRel_file _ hx (rcomps_proper x), asRel_rel_file _ hx (rcomps_proper x)]

theorem deb_member_name (now imt : Int) (c : Content) (h : Planned c) (m : Member)
    (hm : debMember1 now imt c = some m) : m.name = dot :: c.dst := by
  have hn : ∀ p, (debHeader now p c).name = dot :: c.dst := by
    intro p
    have : (debHeader now p c).name = asExplicitRel c.dst := by
      unfold debHeader; simp only []
      split
      · rfl
      · split <;> rfl
    rw [this, asExplicitRel, rel_name c h]
  unfold debMember1 at hm
  split at hm
  · cases hm
  · split at hm
    · cases hm; exact hn _
    · split at hm
      · cases hm; exact hn _
      · split at hm
        · cases hm
        · cases hm; exact hn _

theorem ipk_member_name (now imt : Int) (c : Content) (h : Planned c) (m : Member)
    (hm : ipkMember1 now imt c = some m) : m.name = dot :: c.dst := by
  unfold ipkMember1 at hm
  simp only [] at hm
  split at hm
  · cases hm; simp only [asExplicitRel, rel_name c h]
  · split at hm
    · cases hm; simp only [asExplicitRel, rel_name c h]
    · split at hm
      · cases hm; simp only [asExplicitRel, rel_name c h]
      · cases hm

theorem apk_member_name (c : Content) (h : Planned c) : slash :: (apkMember1 c).name = c.dst := by
  unfold apkMember1
  simp only []
  split
  · exact rel_name c h
  · rename_i hd
    split
    · exact rel_name c h
    · show slash :: asRel (asRel c.dst) = c.dst
      rw [rel_name_twice c h (by simpa using hd)]; exact rel_name c h

theorem arch_member_name (c : Content) (h : Planned c) : slash :: (archMember1 c).name = c.dst := by
  unfold archMember1
  simp only []
  split
  · exact rel_name c h
  · split <;> exact rel_name c h

/-- **apk / archlinux: the member names are the planned destinations without the leading slash, in plan order** -/
theorem names_follow_plan_apk_arch (plan : List Content) (h : ∀ c ∈ plan, Planned c) :
    (apkMembers plan).map (fun m => slash :: m.name) = plan.map (·.dst)
    ∧ (archMembers plan).map (fun m => slash :: m.name) = plan.map (·.dst) := by
  unfold apkMembers archMembers
  simp only [List.map_map]
  constructor <;> apply List.map_congr_left <;> intro c hc
  · exact apk_member_name c (h c hc)
  · exact arch_member_name c (h c hc)

/-- **deb / ipk: every member name is "." ++ destination of the entry it was written for** -/
theorem names_follow_plan_deb_ipk (now imt : Int) (plan : List Content) (h : ∀ c ∈ plan, Planned c) :
    (∀ m ∈ debMembers now imt plan, ∃ c ∈ plan, m.name = dot :: c.dst)
    ∧ (∀ m ∈ ipkMembers now imt plan, ∃ c ∈ plan, m.name = dot :: c.dst) := by
  constructor
  · intro m hm
    obtain ⟨c, hc, hcm⟩ := List.mem_filterMap.mp hm
    exact ⟨c, hc, deb_member_name now imt c (h c hc) m hcm⟩
  · intro m hm
    obtain ⟨c, hc, hcm⟩ := List.mem_filterMap.mp hm
    exact ⟨c, hc, ipk_member_name now imt c (h c hc) m hcm⟩

/-! consequences for one planned destination `d` (so for every member name) -/

/-- relative, and "./"-prefixed in deb/ipk -/
theorem name_relative (c : Content) (h : Planned c) :
    isRelative (asRel c.dst) = true ∧ dotSlashPrefixed (dot :: c.dst) = true ∧ isRelative (dot :: c.dst) = true := by
  obtain ⟨x, hx, hd⟩ := h
  refine ⟨?_, ?_, by simp [isRelative, hasPrefix, slashS]; decide⟩
  · rw [hd]
    by_cases hdir : isDirType c.type = true
    · simp only [hdir, if_true, normDir_eq, asRel_dir _ hx (rcomps_proper x)]
      obtain ⟨a, t, e, ha⟩ := joinWith_head_ne_slash _ hx (rcomps_proper x)
      rw [e]; simp [isRelative, hasPrefix, slashS, ha]
    · simp only [Bool.not_eq_true] at hdir
      simp only [hdir, Bool.false_eq_true, if_false, normFile_eq, asRel_file _ hx (rcomps_proper x)]
      obtain ⟨a, t, e, ha⟩ := joinWith_head_ne_slash _ hx (rcomps_proper x)
      rw [e]; simp [isRelative, hasPrefix, slashS, ha]
  · rw [hd]
    by_cases hdir : isDirType c.type = true
    · simp only [hdir, if_true, normDir_eq]; simp [dotSlashPrefixed, hasPrefix]; decide
    · simp only [Bool.not_eq_true] at hdir
      simp only [hdir, Bool.false_eq_true, if_false, normFile_eq]; simp [dotSlashPrefixed, hasPrefix]; decide

/-- directories – and only they – end in '/' -/
theorem name_dir_slash (c : Content) (h : Planned c) :
    endsWithSlash (dot :: c.dst) = isDirType c.type ∧ endsWithSlash (asRel c.dst) = isDirType c.type := by
  obtain ⟨x, hx, hd⟩ := h
  have hj : joinWith slash (rcomps x) ≠ [] := fun e =>
    hx ((joinWith_nil_iff _ (fun c hc => (rcomps_proper x c hc).1)).mp e)
  rw [hd]
  by_cases hdir : isDirType c.type = true
  · simp only [hdir, if_true, normDir_eq, asRel_dir _ hx (rcomps_proper x)]
    unfold endsWithSlash
    constructor
    · rw [show dot :: (slash :: joinWith slash (rcomps x) ++ [slash]) = (dot :: slash :: joinWith slash (rcomps x)) ++ [slash] by simp,
        getLast?_append_singleton]; simp
    · rw [getLast?_append_singleton]; simp
  · simp only [Bool.not_eq_true] at hdir
    simp only [hdir, Bool.false_eq_true, if_false, normFile_eq, asRel_file _ hx (rcomps_proper x)]
    unfold endsWithSlash
    have hne := joinWith_getLast_ne_slash _ hx (rcomps_proper x)
    constructor
    · rw [show dot :: slash :: joinWith slash (rcomps x) = [dot, slash] ++ joinWith slash (rcomps x) by simp,
        getLast?_append_of_ne_nil' _ _ hj]
      simpa using hne
    · simpa using hne

/-- no ".." component (nor an empty or "." one beyond the leading "./") -/
theorem name_no_dotdot (c : Content) (h : Planned c) : noDotDot (dot :: c.dst) = true ∧ noDotDot (asRel c.dst) = true := by
  obtain ⟨x, hx, hd⟩ := h
  have hp := rcomps_proper x
  have hnd : dotdotS ∉ rcomps x := fun hm => (hp _ hm).2.2.1 rfl
  have hfil : (rcomps x).filter (· ≠ []) = rcomps x := List.filter_eq_self.mpr (fun c hc => by simpa using (hp c hc).1)
  rw [hd]
  by_cases hdir : isDirType c.type = true
  · simp only [hdir, if_true, normDir_eq, asRel_dir _ hx hp]
    constructor
    · unfold noDotDot compsOf
      rw [show dot :: (slash :: joinWith slash (rcomps x) ++ [slash]) = (dot :: slash :: joinWith slash (rcomps x)) ++ [slash] by simp,
        splitOn_snoc_sep, splitOn_dot_join _ hx hp]
      simp only [List.cons_append, List.filter_cons, List.filter_append, hfil]
      simp [hnd, show dotS ≠ ([] : Bytes) by decide, show dotdotS ≠ dotS by decide]
    · unfold noDotDot compsOf
      rw [splitOn_snoc_sep, splitOn_joinWith slash _ hx (fun c hc => (hp c hc).2.2.2)]
      simp only [List.filter_append, hfil]
      simp [hnd]
  · simp only [Bool.not_eq_true] at hdir
    simp only [hdir, Bool.false_eq_true, if_false, normFile_eq, asRel_file _ hx hp]
    constructor
    · unfold noDotDot compsOf
      rw [splitOn_dot_join _ hx hp]
      simp only [List.filter_cons, hfil]
      simp [hnd, show dotS ≠ ([] : Bytes) by decide, show dotdotS ≠ dotS by decide]
    · unfold noDotDot compsOf
      rw [splitOn_joinWith slash _ hx (fun c hc => (hp c hc).2.2.2), hfil]
      simp [hnd]

/-- **unique names**: a plan's destinations are strictly increasing (C05), so the names – an injective
    image, taken in plan order – are pairwise distinct -/
theorem names_unique (O : Oracle) (cfg : PlanCfg) (raw l : List Content) (h : plan O cfg raw = .ok l)
    (hp : ∀ c ∈ l, Planned c) (now imt : Int) :
    ((apkMembers l).map (·.name)).Nodup ∧ ((archMembers l).map (·.name)).Nodup := by
  obtain ⟨m, _, hl, hinv⟩ := plan_ok_inv O cfg raw l h
  have hs : (l.map (·.dst)).Pairwise (fun a b => ltB a b = true) := by rw [hl]; exact sorted_values cfg.packager m hinv
  have hnd : (l.map (·.dst)).Pairwise (· ≠ ·) := hs.imp (fun {a b} hab => ltB_ne a b hab)
  obtain ⟨ha, hb⟩ := names_follow_plan_apk_arch l hp
  constructor
  · rw [← ha, List.pairwise_map] at hnd
    rw [List.nodup_iff_pairwise_ne, List.pairwise_map]
    exact hnd.imp (fun {a b} hab e => hab (by rw [e]))
  · rw [← hb, List.pairwise_map] at hnd
    rw [List.nodup_iff_pairwise_ne, List.pairwise_map]
    exact hnd.imp (fun {a b} hab e => hab (by rw [e]))

/-- the path a planned entry's member name stands for is `normFile x` without its leading slash -/
theorem strip_name (c : Content) (n x : Bytes) (hx : rcomps x ≠ [])
    (hd : c.dst = if isDirType c.type then normDir x else normFile x) (hn : slash :: n = c.dst) :
    slash :: stripSlash n = normFile x := by
  have hlast := joinWith_getLast_ne_slash (rcomps x) hx (rcomps_proper x)
  by_cases ht : isDirType c.type = true
  · rw [if_pos ht, normDir_eq] at hd
    rw [hd] at hn
    have hn' : n = joinWith slash (rcomps x) ++ [slash] := by simpa using hn
    unfold stripSlash endsWithSlash
    rw [hn', normFile_eq]
    simp
  · rw [if_neg ht, normFile_eq] at hd
    rw [hd] at hn
    have hn' : n = joinWith slash (rcomps x) := by simpa using hn
    unfold stripSlash endsWithSlash
    rw [hn', normFile_eq]
    have : ((joinWith slash (rcomps x)).getLast? == some slash) = false := by
      rw [beq_eq_false_iff_ne]; exact hlast
    simp [this]


/-- **one path is one member**: in the archive written for an accepted plan no two members stand for the same path – not
    even a directory `a/b/` next to a non-directory `a/b`. For EVERY content list (tree entries, globs, any order):
    follows from the strictly increasing destinations and `C05.plan_no_path_clash`. -/
theorem names_one_path_one_member (O : Oracle) (cfg : PlanCfg) (raw l : List Content) (h : plan O cfg raw = .ok l)
    (hp : ∀ c ∈ l, Planned c) :
    ((apkMembers l).map (fun m => stripSlash m.name)).Nodup ∧ ((archMembers l).map (fun m => stripSlash m.name)).Nodup := by
  obtain ⟨m, _, hl, hinv⟩ := plan_ok_inv O cfg raw l h
  have hs : (l.map (·.dst)).Pairwise (fun a b => ltB a b = true) := by rw [hl]; exact sorted_values cfg.packager m hinv
  have hnd : l.Pairwise (fun a b => a.dst ≠ b.dst) := by
    have := hs.imp (fun {a b} hab => ltB_ne a b hab)
    rwa [List.pairwise_map] at this
  have hclash := C05.plan_no_path_clash O cfg raw l h
  -- the general step: for any naming function that puts the planned destination back under "/"
  have key : ∀ (nm : Content → Bytes), (∀ c ∈ l, slash :: nm c = c.dst) →
      (l.map (fun c => stripSlash (nm c))).Nodup := by
    intro nm hnm
    rw [List.nodup_iff_pairwise_ne, List.pairwise_map]
    have hmem : l.Pairwise (fun a b => a ∈ l ∧ b ∈ l) := by
      rw [List.pairwise_iff_forall_sublist]
      intro a b hab
      exact ⟨hab.subset (by simp), hab.subset (by simp)⟩
    refine (hnd.and hmem).imp ?_
    intro a b ⟨hab, ha, hb⟩ e
    obtain ⟨x, hx, hdx⟩ := hp a ha
    obtain ⟨y, hy, hdy⟩ := hp b hb
    have ea := strip_name a (nm a) x hx hdx (hnm a ha)
    have eb := strip_name b (nm b) y hy hdy (hnm b hb)
    have exy : normFile x = normFile y := by rw [← ea, ← eb, e]
    by_cases ta : isDirType a.type = true <;> by_cases tb : isDirType b.type = true
    · rw [if_pos ta] at hdx; rw [if_pos tb] at hdy
      exact hab (by rw [hdx, hdy, normDir_of_normFile_eq x y exy])
    · rw [if_pos ta] at hdx; rw [if_neg tb] at hdy
      refine hclash y ⟨?_, ?_⟩
      · rw [← hdy]; exact List.mem_map_of_mem hb
      · rw [← normDir_of_normFile_eq x y exy, ← hdx]; exact List.mem_map_of_mem ha
    · rw [if_neg ta] at hdx; rw [if_pos tb] at hdy
      refine hclash x ⟨?_, ?_⟩
      · rw [← hdx]; exact List.mem_map_of_mem ha
      · rw [normDir_of_normFile_eq x y exy, ← hdy]; exact List.mem_map_of_mem hb
    · rw [if_neg ta] at hdx; rw [if_neg tb] at hdy
      exact hab (by rw [hdx, hdy, exy])
  constructor
  · have := key (fun c => (apkMember1 c).name) (fun c hc => apk_member_name c (hp c hc))
    simpa [apkMembers, List.map_map, Function.comp_def] using this
  · have := key (fun c => (archMember1 c).name) (fun c hc => arch_member_name c (hp c hc))
    simpa [archMembers, List.map_map, Function.comp_def] using this

theorem stripSlash_cons (a : UInt8) (d : Bytes) (h : d ≠ []) : stripSlash (a :: d) = a :: stripSlash d := by
  unfold stripSlash endsWithSlash
  rw [List.getLast?_cons_of_ne_nil h, List.dropLast_cons_of_ne_nil h]
  split <;> rfl

/-- the path a planned destination stands for -/
theorem strip_dst (c : Content) (x : Bytes) (hx : rcomps x ≠ [])
    (hd : c.dst = if isDirType c.type then normDir x else normFile x) : stripSlash c.dst = normFile x := by
  have hne : (joinWith slash (rcomps x)) ≠ [] := by
    intro e
    exact hx ((joinWith_nil_iff (rcomps x) (fun c hc => (rcomps_proper x c hc).1)).mp e)
  have := strip_name c (joinWith slash (rcomps x) ++ (if isDirType c.type then [slash] else [])) x hx hd (by
    rw [hd]; split
    · rw [normDir_eq]; simp
    · rw [normFile_eq]; simp)
  rw [hd]
  split
  · rename_i ht
    simp only [ht, if_true] at this
    rw [normDir_eq]
    show stripSlash (slash :: (joinWith slash (rcomps x) ++ [slash])) = normFile x
    rw [stripSlash_cons slash _ (by simp)]
    exact this
  · rename_i ht
    simp only [ht, if_false, List.append_nil, Bool.false_eq_true] at this
    rw [normFile_eq, stripSlash_cons slash _ hne]
    rw [normFile_eq] at this
    exact this

theorem planned_dst_ne_nil (c : Content) (h : Planned c) : c.dst ≠ [] := by
  obtain ⟨x, _, hd⟩ := h
  rw [hd]; split
  · rw [normDir_eq]; simp
  · rw [normFile_eq]; simp

/-- **one path is one member, deb and ipk** (names are "." ++ destination; the changelog member deb adds is not part of
    the plan and is named by its own rule) -/
theorem names_one_path_one_member_deb_ipk (O : Oracle) (cfg : PlanCfg) (raw l : List Content) (h : plan O cfg raw = .ok l)
    (hp : ∀ c ∈ l, Planned c) (now imt : Int) :
    ((debMembers now imt l).map (fun m => stripSlash m.name)).Nodup
    ∧ ((ipkMembers now imt l).map (fun m => stripSlash m.name)).Nodup := by
  obtain ⟨m, _, hl, hinv⟩ := plan_ok_inv O cfg raw l h
  have hs : (l.map (·.dst)).Pairwise (fun a b => ltB a b = true) := by rw [hl]; exact sorted_values cfg.packager m hinv
  have hnd : l.Pairwise (fun a b => a.dst ≠ b.dst) := by
    have := hs.imp (fun {a b} hab => ltB_ne a b hab)
    rwa [List.pairwise_map] at this
  have hclash := C05.plan_no_path_clash O cfg raw l h
  have hmem : l.Pairwise (fun a b => a ∈ l ∧ b ∈ l) := by
    rw [List.pairwise_iff_forall_sublist]
    intro a b hab
    exact ⟨hab.subset (by simp), hab.subset (by simp)⟩
  -- two planned entries with different destinations stand for different paths
  have sep : ∀ a b, a ∈ l → b ∈ l → a.dst ≠ b.dst → stripSlash a.dst ≠ stripSlash b.dst := by
    intro a b ha hb hab e
    obtain ⟨x, hx, hdx⟩ := hp a ha
    obtain ⟨y, hy, hdy⟩ := hp b hb
    have exy : normFile x = normFile y := by rw [← strip_dst a x hx hdx, ← strip_dst b y hy hdy, e]
    by_cases ta : isDirType a.type = true <;> by_cases tb : isDirType b.type = true
    · rw [if_pos ta] at hdx; rw [if_pos tb] at hdy
      exact hab (by rw [hdx, hdy, normDir_of_normFile_eq x y exy])
    · rw [if_pos ta] at hdx; rw [if_neg tb] at hdy
      refine hclash y ⟨?_, ?_⟩
      · rw [← hdy]; exact List.mem_map_of_mem hb
      · rw [← normDir_of_normFile_eq x y exy, ← hdx]; exact List.mem_map_of_mem ha
    · rw [if_neg ta] at hdx; rw [if_pos tb] at hdy
      refine hclash x ⟨?_, ?_⟩
      · rw [← hdx]; exact List.mem_map_of_mem ha
      · rw [normDir_of_normFile_eq x y exy, ← hdy]; exact List.mem_map_of_mem hb
    · rw [if_neg ta] at hdx; rw [if_neg tb] at hdy
      exact hab (by rw [hdx, hdy, exy])
  have gen : ∀ (f : Content → Option Member), (∀ c ∈ l, ∀ mm, f c = some mm → mm.name = dot :: c.dst) →
      ((l.filterMap f).map (fun mm => stripSlash mm.name)).Nodup := by
    intro f hf
    rw [List.nodup_iff_pairwise_ne, List.pairwise_map]
    refine List.Pairwise.filterMap f ?_ (hnd.and hmem)
    intro a b ⟨hab, ha, hb⟩ ma hma mb hmb e
    rw [hf a ha ma hma, hf b hb mb hmb, stripSlash_cons dot _ (planned_dst_ne_nil a (hp a ha)),
      stripSlash_cons dot _ (planned_dst_ne_nil b (hp b hb))] at e
    exact sep a b ha hb hab (List.cons.inj e).2
  constructor
  · exact gen (debMember1 now imt) (fun c hc mm hmm => deb_member_name now imt c (hp c hc) mm hmm)
  · exact gen (ipkMember1 now imt) (fun c hc mm hmm => ipk_member_name now imt c (hp c hc) mm hmm)

/-- **parents precede children** (`_partial` as in C05: plans without `tree` entries): the member names,
    put back under "/", are the plan's destinations in plan order, for which C05 proves that every
    ancestor directory is present and earlier -/
theorem names_parents_first_partial (O : Oracle) (cfg : PlanCfg) (raw l : List Content)
    (hnt : ∀ c ∈ raw, classify c.type ≠ .tree) (h : plan O cfg raw = .ok l) (hp : ∀ c ∈ l, Planned c) :
    parentsBefore [] ((apkMembers l).map (fun m => slash :: m.name)) = true
    ∧ parentsBefore [] ((archMembers l).map (fun m => slash :: m.name)) = true := by
  obtain ⟨ha, hb⟩ := names_follow_plan_apk_arch l hp
  rw [ha, hb]
  exact ⟨C05.plan_parents_first_partial O cfg raw l hnt h, C05.plan_parents_first_partial O cfg raw l hnt h⟩

/-! ### rpm -/

theorem nameLe_trans (a b c : Member) : leB a.name b.name = true → leB b.name c.name = true → leB a.name c.name = true :=
  leB_trans a.name b.name c.name

theorem nameLe_total (a b : Member) : (leB a.name b.name || leB b.name a.name) = true := leB_total a.name b.name

/-- **rpm**: the header's file list is sorted by name, and the cpio payload is the sub-list of the
    non-ghost entries in the same order (so header and payload correspond one to one, ghosts excepted) -/
theorem rpm_file_list_sorted (now imt : Int) (plan : List Content) :
    (rpmMembers now imt plan).Pairwise (fun a b => leB a.name b.name = true)
    ∧ ((rpmMembers now imt plan).filter (·.inPayload)).Pairwise (fun a b => leB a.name b.name = true) := by
  have h := List.pairwise_mergeSort (le := fun (a b : Member) => leB a.name b.name) nameLe_trans nameLe_total
    (plan.filterMap (rpmMember now imt))
  exact ⟨h, h.sublist List.filter_sublist⟩

/-- **the rpm payload is a well-formed cpio archive, byte for byte**: from the SVR4 ("newc") stream rpmpack's cpio
    writer produces – 110-byte upper-case-hex headers with running inode numbers, NUL-terminated names and bodies
    padded to 4, the TRAILER!!! entry last – an independent reader recovers exactly the entries that were written,
    in order, and stops at the trailer (guards: every number below 16^8, no entry named like the trailer) -/
theorem rpm_cpio_roundtrip (es : List Cpio.Entry) (hok : ∀ e ∈ es, Cpio.EntryOK e) (hn : 1 + es.length < 16 ^ 8) :
    Cpio.read (Cpio.archive es) = some (Cpio.expected 1 es) :=
  Cpio.read_archive es hok hn

/-- … and what it recovers carries the names and bodies of the written entries in the written order -/
theorem rpm_cpio_entries_in_order (es : List Cpio.Entry) (ino : Nat) :
    (Cpio.expected ino es).map (fun r => (r.name, r.body)) = es.map (fun e => (e.name, e.body)) := by
  induction es generalizing ino with
  | nil => rfl
  | cons e rest ih => simp [Cpio.expected, ih]

/-- rpm never lists the root or an implicit directory (ghosts are listed, not shipped) -/
theorem rpm_skips_implicit (now imt : Int) (c : Content) (h : c.type = T.implicitDir) : rpmMember now imt c = none := by
  unfold rpmMember
  simp only []
  split
  · rfl
  · simp [h]


/-! ### rpm: the file list of the header and the payload -/

/-- **the header's file list reads back**: from any main header in which the sixteen per-file entries rpmpack writes can
    be looked up by tag, a reader that joins DIRNAMES[DIRINDEXES[i]] with BASENAMES[i] and decodes the FILE* columns gets
    exactly one row per file, in order, with the file's full name, size (4096 for directories), 16-bit mode, time,
    SHA-256 digest (regular files only), link target (symbolic links only), flags, owner and group -/
theorem rpm_file_list_reads_back (fs : List RpmFiles.RFile) (hdr : List RpmHdr.Entry) (ok : RpmFiles.FilesOK fs)
    (h : ∀ e ∈ RpmFiles.fileEntries fs, RpmFiles.lookupTag e.tag hdr = some e) :
    RpmFiles.readFiles hdr = some (fs.map RpmFiles.rowOf) :=
  RpmFiles.readFiles_of_lookup fs hdr ok h

/-- the sixteen entries satisfy what the header writer's round trip (`rpm_header_roundtrip`) asks of an entry, and look
    themselves up in their own list (their tags are distinct) -/
theorem rpm_file_list_entries_ok (fs : List RpmFiles.RFile) (ok : RpmFiles.FilesOK fs) :
    (∀ e ∈ RpmFiles.fileEntries fs, RpmHdr.EntryOK e)
      ∧ (∀ e ∈ RpmFiles.fileEntries fs, RpmFiles.lookupTag e.tag (RpmFiles.fileEntries fs) = some e) :=
  ⟨RpmFiles.fileEntries_ok fs ok, RpmFiles.lookup_fileEntries_self fs⟩

/-- DIRNAMES lists every directory once -/
theorem rpm_dirnames_distinct (fs : List RpmFiles.RFile) : (RpmFiles.dirnames fs).Nodup := RpmFiles.dirnames_nodup fs

/-- **payload ↔ file list**: the cpio entries are the files whose flags are not exactly GHOST, in the order of the file
    list, each under its full name and with the body it was given -/
theorem rpm_payload_follows_file_list (ps : List (RpmFiles.RFile × Bytes)) :
    (RpmFiles.payload ps).map (·.name) = ((ps.map (·.1)).filter (fun f => !RpmFiles.isGhost f)).map (·.name)
      ∧ (RpmFiles.payload ps).map (·.body) = (ps.filter (fun p => !RpmFiles.isGhost p.1)).map (·.2) :=
  ⟨RpmFiles.payload_names ps, RpmFiles.payload_bodies ps⟩

/-- C03 on the rpm file list: what a row states about a file is a fact about the body shipped for it – FILESIZES the
    body length (mod 2^32; 4096 for a directory), FILEDIGESTS the hex SHA-256 of the body for a regular file and empty
    otherwise, FILELINKTOS the body for a symbolic link and empty otherwise – for every hash function -/
theorem rpm_row_describes_shipped_body (hex256 : Bytes → Bytes) (f : RpmFiles.RFile) (body : Bytes) :
    (RpmFiles.kindOf f.mode ≠ .dir → (RpmFiles.rowOf (RpmFiles.ofBody hex256 f body)).size = body.length % 4294967296)
    ∧ (RpmFiles.kindOf f.mode = .reg → (RpmFiles.rowOf (RpmFiles.ofBody hex256 f body)).digest = hex256 body)
    ∧ (RpmFiles.kindOf f.mode = .link → (RpmFiles.rowOf (RpmFiles.ofBody hex256 f body)).linkto = body
          ∧ (RpmFiles.rowOf (RpmFiles.ofBody hex256 f body)).digest = [])
    ∧ (RpmFiles.kindOf f.mode = .dir → (RpmFiles.rowOf (RpmFiles.ofBody hex256 f body)).size = 4096
          ∧ (RpmFiles.rowOf (RpmFiles.ofBody hex256 f body)).digest = [] ∧ (RpmFiles.rowOf (RpmFiles.ofBody hex256 f body)).linkto = [])
    ∧ (RpmFiles.rowOf (RpmFiles.ofBody hex256 f body)).name = f.name
    ∧ (RpmFiles.rowOf (RpmFiles.ofBody hex256 f body)).flags = f.flags :=
  RpmFiles.row_of_body hex256 f body

/-- **rpm: what the package states about its own bytes is computed over the bytes it ships** (C03, C10): take any main
    header entries and any compressed payload; the model of rpmpack's writeSignatures puts into the signature header the
    SHA-256 of the main header bytes, the size of main header plus payload and – for a signed package – the signer's
    output over the main header and over main header ++ payload.  Then a reader of the resulting FILE that knows nothing
    about how it was made locates a main header region and a payload such that: the SHA256 entry is the hash of exactly
    that region of the file, the SIZE entry is the length of region plus payload, the RSA entry is the signature over
    exactly that region and the PGP entry the signature over region ++ payload – for every hash function and signer -/
theorem rpm_self_description_covers_shipped_bytes (hex256 : Bytes → Bytes) (sign : Option (Bytes → Bytes)) (nv : Bytes)
    (hdr : List RpmHdr.Entry) (payloadZ : Bytes) (payloadSize : Nat)
    (hh : RpmHdr.HeaderOK 63 hdr) (h0 : (0 : UInt8) ∉ nv) (hl : nv.length ≤ 65)
    (hx : ∀ b, (0 : UInt8) ∉ hex256 b) (hsg : ∀ f, sign = some f → ∀ b, (f b).length < 4294967296)
    (hsz : (RpmHdr.layout (RpmSig.sigEntries hex256 sign (RpmHdr.header 63 hdr) payloadZ payloadSize) []).2.length + 16 < 4294967296) :
    ∃ f, RpmHdr.readFile (RpmSig.whole hex256 sign nv hdr payloadZ payloadSize) = some f
      ∧ f.hdr = hdr ∧ f.payload = payloadZ
      ∧ (RpmSig.whole hex256 sign nv hdr payloadZ payloadSize).drop (f.hdrOff + f.hdrLen) = f.payload
      ∧ RpmFiles.lookupTag 273 f.sig
          = some (RpmSig.entStr 273 (hex256 (((RpmSig.whole hex256 sign nv hdr payloadZ payloadSize).drop f.hdrOff).take f.hdrLen)))
      ∧ RpmFiles.lookupTag 1000 f.sig = some (RpmSig.entI32 1000 (f.payload.length + f.hdrLen))
      ∧ RpmFiles.lookupTag 1007 f.sig = some (RpmSig.entI32 1007 payloadSize)
      ∧ (∀ g, sign = some g →
          RpmFiles.lookupTag 268 f.sig
            = some (RpmSig.entBin 268 (g (((RpmSig.whole hex256 sign nv hdr payloadZ payloadSize).drop f.hdrOff).take f.hdrLen)))
          ∧ RpmFiles.lookupTag 1002 f.sig
            = some (RpmSig.entBin 1002 (g (((RpmSig.whole hex256 sign nv hdr payloadZ payloadSize).drop f.hdrOff).take f.hdrLen ++ f.payload))))
      ∧ (sign = none → RpmFiles.lookupTag 268 f.sig = none ∧ RpmFiles.lookupTag 1002 f.sig = none) := by
  refine ⟨_, RpmSig.whole_reads hex256 sign nv hdr payloadZ payloadSize hh h0 hl hx hsg hsz, rfl, rfl, ?_⟩
  obtain ⟨hreg, hpay⟩ := rpm_header_region nv (RpmSig.sigEntries hex256 sign (RpmHdr.header 63 hdr) payloadZ payloadSize) hdr payloadZ
  have hw : RpmSig.whole hex256 sign nv hdr payloadZ payloadSize
      = RpmHdr.file nv (RpmSig.sigEntries hex256 sign (RpmHdr.header 63 hdr) payloadZ payloadSize) hdr payloadZ := rfl
  rw [hw, hreg, hpay]
  obtain ⟨l1, l2, l3, l4, l5⟩ := RpmSig.lookup_sig hex256 sign (RpmHdr.header 63 hdr) payloadZ payloadSize
  exact ⟨rfl, l1, l2, l3, l4, l5⟩

/-- the payload digest of the main header: one string, the hash of the compressed payload – which the reader finds
    again as the bytes after the header region (previous theorem, `f.payload = payloadZ`) -/
theorem rpm_payload_digest_entry (hex256 : Bytes → Bytes) (payloadZ : Bytes) (hx : ∀ b, (0 : UInt8) ∉ hex256 b) :
    RpmFiles.strsOf 5092 (RpmSig.digestEntries hex256 payloadZ) = some [hex256 payloadZ]
      ∧ RpmFiles.u32sOf 5093 (RpmSig.digestEntries hex256 payloadZ) = some [8] := by
  constructor
  · exact RpmFiles.strsOf_ent 5092 [hex256 payloadZ] _ rfl (by intro s hs; simp at hs; subst hs; exact hx _)
  · exact RpmFiles.u32sOf_ent 5093 [8] _ rfl (by intro n hn; simp at hn; subst hn; decide)

/-! ### rpm: the main header as a whole -/

/-- reading one relation category back from the assembled header -/
theorem rpm_category_reads_back (g : RpmGen.Gen) (files : List RpmFiles.RFile) (rels : RpmRel.Cats) (ts : List Nat) (ns xs : List Bytes)
    (a b c : Nat) (rs : List RpmRel.Rel) (ok : RpmRel.RelsOK rs)
    (hin : ∀ e ∈ RpmRel.relEntries a b c rs, e ∈ RpmGen.allEntries g files rels ts ns xs)
    (hother : rs = [] → ∀ t ∈ [a, b, c], t ∉ (RpmRel.entries rels).map (·.tag))
    (hg : ∀ t ∈ [a, b, c], t ∉ RpmGen.genTags ∧ t ∉ RpmGen.fileTags ∧ t ∉ RpmGen.chTags) :
    RpmRel.readRels a b c (RpmGen.mainHeader g files rels ts ns xs) = some rs := by
  apply RpmRel.readRels_relEntries a b c rs _ ok
  · intro he
    have h := hother he
    refine ⟨?_, ?_, ?_⟩
    · exact RpmGen.absent_of_empty g files rels ts ns xs a (hg a (by simp)).1 (hg a (by simp)).2.1 (hg a (by simp)).2.2 (h a (by simp))
    · exact RpmGen.absent_of_empty g files rels ts ns xs b (hg b (by simp)).1 (hg b (by simp)).2.1 (hg b (by simp)).2.2 (h b (by simp))
    · exact RpmGen.absent_of_empty g files rels ts ns xs c (hg c (by simp)).1 (hg c (by simp)).2.1 (hg c (by simp)).2.2 (h c (by simp))
  · intro e he
    exact RpmGen.lookup_mainHeader g files rels ts ns xs e (hin e he)

/-- **rpm: the whole main header, from the resolved settings to the entries and back**: the header rpmpack assembles –
    general entries, the sixteen file entries (when there are files), the relation entries of the six categories, nfpm's
    changelog entries, sorted by tag – holds every entry under its own tag (no two share one, whatever the settings), and
    a reader gets back from it the package's name, version and release, the file list row by row, and every relation
    category complete and in order; a category without relations leaves no trace -/
theorem rpm_main_header_reads_back (g : RpmGen.Gen) (files : List RpmFiles.RFile) (rels : RpmRel.Cats)
    (ts : List Nat) (ns xs : List Bytes) (hne : files ≠ []) (fok : RpmFiles.FilesOK files)
    (okP : RpmRel.RelsOK rels.provides) (okO : RpmRel.RelsOK rels.obsoletes) (okS : RpmRel.RelsOK rels.suggests)
    (okR : RpmRel.RelsOK rels.recommends) (okQ : RpmRel.RelsOK rels.requires) (okC : RpmRel.RelsOK rels.conflicts) :
    let hdr := RpmGen.mainHeader g files rels ts ns xs
    RpmFiles.lookupTag 1000 hdr = some (RpmSig.entStr 1000 g.name)
    ∧ RpmFiles.lookupTag 1001 hdr = some (RpmSig.entStr 1001 g.version)
    ∧ RpmFiles.lookupTag 1002 hdr = some (RpmSig.entStr 1002 g.release)
    ∧ RpmFiles.readFiles hdr = some (files.map RpmFiles.rowOf)
    ∧ RpmRel.readRels 1047 1113 1112 hdr = some rels.provides
    ∧ RpmRel.readRels 1090 1115 1114 hdr = some rels.obsoletes
    ∧ RpmRel.readRels 5049 5050 5051 hdr = some rels.suggests
    ∧ RpmRel.readRels 5046 5047 5048 hdr = some rels.recommends
    ∧ RpmRel.readRels 1049 1050 1048 hdr = some rels.requires
    ∧ RpmRel.readRels 1054 1055 1053 hdr = some rels.conflicts := by
  intro hdr
  have look := RpmGen.lookup_mainHeader g files rels ts ns xs
  have inGen : ∀ e ∈ RpmGen.genEntries g, e ∈ RpmGen.allEntries g files rels ts ns xs := by
    intro e he; unfold RpmGen.allEntries; simp [he]
  have inFiles : ∀ e ∈ RpmFiles.fileEntries files, e ∈ RpmGen.allEntries g files rels ts ns xs := by
    intro e he; unfold RpmGen.allEntries; simp [hne, he]
  have inRel : ∀ e ∈ RpmRel.entries rels, e ∈ RpmGen.allEntries g files rels ts ns xs := by
    intro e he; unfold RpmGen.allEntries; simp [he]
  have cat : ∀ (a b c : Nat) (rs : List RpmRel.Rel), RpmRel.RelsOK rs →
      (∀ e ∈ RpmRel.relEntries a b c rs, e ∈ RpmRel.entries rels) →
      (rs = [] → ∀ t ∈ [a, b, c], t ∉ (RpmRel.entries rels).map (·.tag)) →
      (∀ t ∈ [a, b, c], t ∉ RpmGen.genTags ∧ t ∉ RpmGen.fileTags ∧ t ∉ RpmGen.chTags) →
      RpmRel.readRels a b c hdr = some rs := by
    intro a b c rs ok hin hoth hg
    exact rpm_category_reads_back g files rels ts ns xs a b c rs ok (fun e he => inRel e (hin e he)) hoth hg
  refine ⟨?_, ?_, ?_, ?_, ?_, ?_, ?_, ?_, ?_, ?_⟩
  · exact look (RpmSig.entStr 1000 g.name) (inGen _ (by unfold RpmGen.genEntries; simp))
  · exact look (RpmSig.entStr 1001 g.version) (inGen _ (by unfold RpmGen.genEntries; simp))
  · exact look (RpmSig.entStr 1002 g.release) (inGen _ (by unfold RpmGen.genEntries; simp))
  · exact RpmFiles.readFiles_of_lookup files hdr fok (fun e he => look e (inFiles e he))
  · apply cat 1047 1113 1112 rels.provides okP (by intro e he; unfold RpmRel.entries; simp [he])
    · intro he t ht hm
      rcases RpmGen.mem_entries_tags rels t hm with h | h | h | h | h | h
      · exact h.1 he
      all_goals (simp only [List.mem_cons, List.mem_nil_iff, or_false] at ht; omega)
    · intro t ht; simp only [List.mem_cons, List.mem_nil_iff, or_false] at ht; rcases ht with rfl | rfl | rfl <;> decide
  · apply cat 1090 1115 1114 rels.obsoletes okO (by intro e he; unfold RpmRel.entries; simp [he])
    · intro he t ht hm
      rcases RpmGen.mem_entries_tags rels t hm with h | h | h | h | h | h
      · simp only [List.mem_cons, List.mem_nil_iff, or_false] at ht; omega
      · exact h.1 he
      all_goals (simp only [List.mem_cons, List.mem_nil_iff, or_false] at ht; omega)
    · intro t ht; simp only [List.mem_cons, List.mem_nil_iff, or_false] at ht; rcases ht with rfl | rfl | rfl <;> decide
  · apply cat 5049 5050 5051 rels.suggests okS (by intro e he; unfold RpmRel.entries; simp [he])
    · intro he t ht hm
      rcases RpmGen.mem_entries_tags rels t hm with h | h | h | h | h | h
      · simp only [List.mem_cons, List.mem_nil_iff, or_false] at ht; omega
      · simp only [List.mem_cons, List.mem_nil_iff, or_false] at ht; omega
      · exact h.1 he
      all_goals (simp only [List.mem_cons, List.mem_nil_iff, or_false] at ht; omega)
    · intro t ht; simp only [List.mem_cons, List.mem_nil_iff, or_false] at ht; rcases ht with rfl | rfl | rfl <;> decide
  · apply cat 5046 5047 5048 rels.recommends okR (by intro e he; unfold RpmRel.entries; simp [he])
    · intro he t ht hm
      rcases RpmGen.mem_entries_tags rels t hm with h | h | h | h | h | h
      · simp only [List.mem_cons, List.mem_nil_iff, or_false] at ht; omega
      · simp only [List.mem_cons, List.mem_nil_iff, or_false] at ht; omega
      · simp only [List.mem_cons, List.mem_nil_iff, or_false] at ht; omega
      · exact h.1 he
      all_goals (simp only [List.mem_cons, List.mem_nil_iff, or_false] at ht; omega)
    · intro t ht; simp only [List.mem_cons, List.mem_nil_iff, or_false] at ht; rcases ht with rfl | rfl | rfl <;> decide
  · apply cat 1049 1050 1048 rels.requires okQ (by intro e he; unfold RpmRel.entries; simp [he])
    · intro he t ht hm
      rcases RpmGen.mem_entries_tags rels t hm with h | h | h | h | h | h
      · simp only [List.mem_cons, List.mem_nil_iff, or_false] at ht; omega
      · simp only [List.mem_cons, List.mem_nil_iff, or_false] at ht; omega
      · simp only [List.mem_cons, List.mem_nil_iff, or_false] at ht; omega
      · simp only [List.mem_cons, List.mem_nil_iff, or_false] at ht; omega
      · exact h.1 he
      · simp only [List.mem_cons, List.mem_nil_iff, or_false] at ht; omega
    · intro t ht; simp only [List.mem_cons, List.mem_nil_iff, or_false] at ht; rcases ht with rfl | rfl | rfl <;> decide
  · apply cat 1054 1055 1053 rels.conflicts okC (by intro e he; unfold RpmRel.entries; simp [he])
    · intro he t ht hm
      rcases RpmGen.mem_entries_tags rels t hm with h | h | h | h | h | h
      · simp only [List.mem_cons, List.mem_nil_iff, or_false] at ht; omega
      · simp only [List.mem_cons, List.mem_nil_iff, or_false] at ht; omega
      · simp only [List.mem_cons, List.mem_nil_iff, or_false] at ht; omega
      · simp only [List.mem_cons, List.mem_nil_iff, or_false] at ht; omega
      · simp only [List.mem_cons, List.mem_nil_iff, or_false] at ht; omega
      · exact h.1 he
    · intro t ht; simp only [List.mem_cons, List.mem_nil_iff, or_false] at ht; rcases ht with rfl | rfl | rfl <;> decide

/-- the rpmpack-level file of a planned member (C01's `rpmMember`) and the body nfpm hands over for it: the link
    target for an entry of type symlink, nothing for a directory entry, the bytes read from the source otherwise -/
def rpmFileOf (m : Member) : RpmFiles.RFile :=
  { name := m.name, mode := m.mode, flags := m.flags, owner := m.uname, group := m.gname, mtime := m.mtime.toNat }

def rpmBody (fs : Bytes → Bytes) (m : Member) : Bytes := if m.src = [] then m.link else fs m.src

def rpmFiles (hex256 : Bytes → Bytes) (fs : Bytes → Bytes) (now imt : Int) (plan : List Content) : List (RpmFiles.RFile × Bytes) :=
  (rpmMembers now imt plan).map (fun m => (RpmFiles.ofBody hex256 (rpmFileOf m) (rpmBody fs m), rpmBody fs m))

/-- the two models agree on what a ghost is: a planned member is kept out of the payload (C01) exactly when its flags
    are the GHOST flag alone (what rpmpack tests) -/
theorem rpm_ghost_iff_not_in_payload (now imt : Int) (c : Content) (m : Member) (h : rpmMember now imt c = some m) :
    RpmFiles.isGhost (rpmFileOf m) = !m.inPayload := by
  unfold rpmMember at h
  simp only [] at h
  have flag : ∀ t : Bytes, (rpmFlags t = 64) = (t = T.ghost) := by
    intro t
    unfold rpmFlags
    by_cases h1 : t = T.config
    · subst h1; decide
    by_cases h2 : t = T.configNoReplace
    · subst h2; decide
    by_cases h3 : t = T.configMissingOk
    · subst h3; decide
    by_cases h4 : t = T.ghost
    · subst h4; decide
    by_cases h5 : t = T.doc
    · subst h5; decide
    by_cases h6 : t = T.licence
    · subst h6; decide
    by_cases h7 : t = T.license
    · subst h7; decide
    by_cases h8 : t = T.readme
    · subst h8; decide
    simp only [h1, h2, h3, h4, h5, h6, h7, h8, if_false, Bool.or_self, Bool.false_eq_true, decide_false]
    decide
  by_cases hg : c.type = T.ghost
  · have e0 : rpmFlags T.ghost = 64 := by decide
    repeat' split at h
    all_goals
      cases h
      try simp [RpmFiles.isGhost, rpmFileOf, RpmFiles.ghostFlag, e0, hg]
  · have e2 : ¬ rpmFlags c.type = 64 := by rw [flag]; exact hg
    repeat' split at h
    all_goals
      cases h
      try simp [RpmFiles.isGhost, rpmFileOf, RpmFiles.ghostFlag, e2, hg]

/-- **rpm, from the plan to the bytes and back** (C01, C03 and C04 composed): take any plan; the model of
    rpm.createFilesInsideRPM and rpmpack gives the sorted file list with the bodies handed over; put the sixteen
    per-file entries into any main header (with whatever other entries) and the non-ghost files into the payload.  Then
    an independent reader of the package – lead, both header structures, decompressor, cpio reader – gets back a header
    whose file list decodes to one row per planned member with its name, size, digest, link target and flags, and a
    payload whose entries are the non-ghost members in file-list order, each carrying the body its row describes -/
theorem rpm_plan_to_bytes_and_back (hex256 : Bytes → Bytes) (fs : Bytes → Bytes) (now imt : Int) (plan : List Content)
    (nv : Bytes) (z : Bytes → Bytes) (u : Bytes → Option Bytes) (hz : Pkg.Inverts u z) (sig hdr : List RpmHdr.Entry)
    (hs : RpmHdr.HeaderOK 62 sig) (hh : RpmHdr.HeaderOK 63 hdr) (h0 : (0 : UInt8) ∉ nv) (hl : nv.length ≤ 65)
    (hfo : RpmFiles.FilesOK ((rpmFiles hex256 fs now imt plan).map (·.1)))
    (hlk : ∀ e ∈ RpmFiles.fileEntries ((rpmFiles hex256 fs now imt plan).map (·.1)), RpmFiles.lookupTag e.tag hdr = some e)
    (hp : ∀ e ∈ RpmFiles.payload (rpmFiles hex256 fs now imt plan), Cpio.EntryOK e)
    (hn : 1 + (RpmFiles.payload (rpmFiles hex256 fs now imt plan)).length < 16 ^ 8) :
    ∃ r, Pkg.readRpm u (Pkg.rpmFile nv z sig hdr (RpmFiles.payload (rpmFiles hex256 fs now imt plan))) = some r
      ∧ RpmFiles.readFiles r.hdr = some (((rpmFiles hex256 fs now imt plan).map (·.1)).map RpmFiles.rowOf)
      ∧ r.payload.map (fun e => (e.name, e.body))
          = ((rpmFiles hex256 fs now imt plan).filter (fun p => !RpmFiles.isGhost p.1)).map (fun p => (p.1.name, p.2)) := by
  have hrt := Pkg.readRpm_rpmFile nv z u hz sig hdr (RpmFiles.payload (rpmFiles hex256 fs now imt plan)) hs hh h0 hl hp hn
  cases hr : Pkg.readRpm u (Pkg.rpmFile nv z sig hdr (RpmFiles.payload (rpmFiles hex256 fs now imt plan))) with
  | none => rw [hr] at hrt; simp at hrt
  | some r =>
    rw [hr] at hrt
    simp only [Option.map_some, Option.some.injEq, Prod.mk.injEq] at hrt
    obtain ⟨_, _, hhdr, hpay⟩ := hrt
    refine ⟨r, rfl, ?_, ?_⟩
    · rw [hhdr]; exact RpmFiles.readFiles_of_lookup _ hdr hfo hlk
    · rw [hpay, rpm_cpio_entries_in_order]
      generalize rpmFiles hex256 fs now imt plan = ps
      induction ps with
      | nil => rfl
      | cons p rest ih =>
        unfold RpmFiles.payload at ih ⊢
        cases hg : RpmFiles.isGhost p.1 <;> simp [hg, ih]

set_option maxRecDepth 100000 in
/-- a whole rpm file – lead, empty signature header, a main header holding just the sixteen file entries, identity
    "compression", cpio payload – written by the model and taken apart again by the readers: rows and payload names
    (a test on one instance, kernel-evaluated) -/
example :
    let ps : List (RpmFiles.RFile × Bytes) :=
      [ (RpmFiles.ofBody (fun _ => b!"00") { name := b!"/etc/a.conf", mode := 0o644, flags := 1 } (b!"k=v"), b!"k=v"),
        (RpmFiles.ofBody (fun _ => b!"00") { name := b!"/etc/ln", mode := 0o120777 } (b!"a.conf"), b!"a.conf"),
        (RpmFiles.ofBody (fun _ => b!"00") { name := b!"/var/g.log", mode := 0o644, flags := 64 } [], []) ]
    (Pkg.readRpm some (Pkg.rpmFile (b!"a-1") id [] (RpmFiles.fileEntries (ps.map (·.1))) (RpmFiles.payload ps))).bind
        (fun r => (RpmFiles.readFiles r.hdr).map (fun rows => (rows.map (fun w => (w.name, w.size, w.linkto)), r.payload.map (·.name))))
      = some ([(b!"/etc/a.conf", 3, []), (b!"/etc/ln", 6, b!"a.conf"), (b!"/var/g.log", 0, [])], [b!"/etc/a.conf", b!"/etc/ln"]) := by
  decide +kernel

/-- a two-file list with a shared directory, a ghost and a symbolic link, end to end at the level of names and rows
    (kernel-evaluated) -/
example :
    let fs : List RpmFiles.RFile :=
      [ { name := b!"/etc/app/app.conf", mode := 0o644, flags := 1, size := 3, digest := b!"ab" },
        { name := b!"/etc/app/link", mode := 0o120777, size := 4, link := b!"app." },
        { name := b!"/var/log/app.log", mode := 0o644, flags := 64 } ]
    RpmFiles.dirnames fs = [b!"/etc/app/", b!"/var/log/"] ∧ RpmFiles.dirindexes fs = [0, 0, 1]
      ∧ (RpmFiles.readFiles (RpmFiles.fileEntries fs)).map (·.map (·.name)) = some (fs.map (·.name)) := by
  decide +kernel

/-- the translator regenerated, on this run and from the working tree, every table this property is tied through
    (when an extraction fails the reviewed table stands in so that the model still compiles, and this stops checking) -/
theorem translator_tables_regenerated : Generated.extracted_G7Accepted = true ∧ Generated.extracted_G8WriteTgz = true := by decide

end Nfpm.Props.C04
