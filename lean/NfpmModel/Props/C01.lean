import NfpmModel.Lemmas.NameLemmas
import NfpmModel.Generated.G3Types
import NfpmModel.Lemmas.ModeLemmas
/-
  C01  Payload fidelity: every format ships exactly what the contents declare.

  The five payload writers are modelled entry by entry (`Payload.lean`); the
  logical tree the contents denote is `Spec.denote` (`Spec/PayloadSpec.lean`).
  Proved here, for every prepared entry (any destination, any owner/group,
  any mode without Go's high `FileMode` bits, any times) and every clock:

    deb_member_denotes … arch_member_denotes, rpm_member_denotes
        the archive member a writer produces for an entry, read back logically
        (name ↦ destination path, mode ↦ permission+setuid/setgid/sticky bits,
        owner, group, mtime, size, link target, body source), is exactly what
        the entry denotes – including "mode verbatim" and "symlink target literal";
    payload_deb / payload_ipk / payload_apk / payload_arch
        lifted to whole plans: the logical payload equals `denote` (nothing
        missing, nothing else, same order);
    same_tree_across_formats
        deb, ipk, apk and archlinux carry the same logical tree; rpm the same
        minus implied directories (`denote_rpm_drops_only_implicit`).
  Partial: the tar/cpio/rpm-header encodings of these fields are library code
  (decoded by the harness, not proved); rpm's name-sorted order is covered by
  the correspondence, the theorem is per entry.
-/
set_option linter.unusedSimpArgs false
set_option linter.unusedVariables false

namespace Nfpm.Props.C01
open Nfpm B Path Spec

/-- what the theorems assume about a prepared entry (all of it is established by
    planning – C05 – except the absence of Go-specific high mode bits, which only
    on-disk special files or tree directories carry) -/
structure EntryOK (c : Content) : Prop where
  shape : ∃ x, rcomps x ≠ [] ∧ c.dst = keyOf (isDirType c.type) x
  noSetuidBit : hasBit (cinfo c).mode modeSetuidBit = false
  noSetgidBit : hasBit (cinfo c).mode modeSetgidBit = false
  noStickyBit : hasBit (cinfo c).mode modeStickyBit = false
  noDirBit : isDirType c.type = false → hasBit (cinfo c).mode modeDirBit = false
  noSymlinkBit : hasBit (cinfo c).mode modeSymlinkBit = false
  mtimeSet : isZeroT (cinfo c).mtime = false

theorem debMode_plain (fm : Nat) (h1 : hasBit fm modeSetuidBit = false) (h2 : hasBit fm modeSetgidBit = false)
    (h3 : hasBit fm modeStickyBit = false) : debMode fm = fm &&& 0o7777 := by
  simp [debMode, h1, h2, h3]

/-- for a mode without Go's own special bits, the permission bits it stands for are its low twelve -/
theorem unixPerm_plain (c : Content) (h : EntryOK c) : unixPerm (cinfo c).mode = (cinfo c).mode &&& 0o7777 :=
  debMode_plain _ h.noSetuidBit h.noSetgidBit h.noStickyBit

theorem and_7777_idem (n : Nat) : (n &&& 0o7777) &&& 0o7777 = n &&& 0o7777 := by
  rw [Nat.and_assoc]; rfl

theorem tarTime_set (t : Int) (h : isZeroT t = false) : tarTime t = t := by simp [tarTime, h]

theorem mtimeGet_set (now t : Int) (h : isZeroT t = false) : mtimeGet now [t] = t := by simp [mtimeGet, h]

/-! ### modes read from the build host (after fix 2: files.unixModeBits) -/
section SourceModes
open Nfpm.ModeLemmas
/-- **a mode read from the build host carries none of io/fs's own special bits into the plan** (after fix: files.unixModeBits) -/
theorem source_mode_no_go_bits (m umask : Nat) :
    hasBit (andNot (unixModeBits m) umask) modeSetuidBit = false
    ∧ hasBit (andNot (unixModeBits m) umask) modeSetgidBit = false
    ∧ hasBit (andNot (unixModeBits m) umask) modeStickyBit = false := by
  refine ⟨?_, ?_, ?_⟩
  · rw [show modeSetuidBit = 2 ^ 23 from rfl, hasBit_pow, testBit_andNot, unixModeBits_testBit]; simp
  · rw [show modeSetgidBit = 2 ^ 22 from rfl, hasBit_pow, testBit_andNot, unixModeBits_testBit]; simp
  · rw [show modeStickyBit = 2 ^ 20 from rfl, hasBit_pow, testBit_andNot, unixModeBits_testBit]; simp

/-- the st_mode permission bits of an io/fs mode -/
def stPerm (m : Nat) : Nat :=
  (m &&& 0o7777) ||| (if m.testBit 23 then 0o4000 else 0) ||| (if m.testBit 22 then 0o2000 else 0)
    ||| (if m.testBit 20 then 0o1000 else 0)

/-- … and the permission bits it stands for are the source's – set-user-ID, set-group-ID and sticky included – minus
    the umask -/
theorem source_mode_perm (m umask : Nat) :
    unixPerm (andNot (unixModeBits m) umask) = andNot (stPerm m) umask := by
  obtain ⟨h1, h2, h3⟩ := source_mode_no_go_bits m umask
  unfold unixPerm
  rw [show debMode (andNot (unixModeBits m) umask) = andNot (unixModeBits m) umask &&& 0o7777 by
    simp [debMode, h1, h2, h3]]
  apply Nat.eq_of_testBit_eq
  intro i
  simp only [Nat.testBit_and, testBit_andNot, unixModeBits_testBit, stPerm, Nat.testBit_or, testBit_ite,
    show (0o7777 : Nat) = 2 ^ 12 - 1 by decide,
    show (0o4000 : Nat) = 2 ^ 11 by decide, show (0o2000 : Nat) = 2 ^ 10 by decide, show (0o1000 : Nat) = 2 ^ 9 by decide,
    Nat.testBit_two_pow_sub_one, Nat.testBit_two_pow]
  by_cases h : i < 12
  · have a : ¬ 23 = i := by omega
    have b : ¬ 22 = i := by omega
    have c : ¬ 20 = i := by omega
    simp [h, a, b, c]
  · have a : ¬ 11 = i := by omega
    have b : ¬ 10 = i := by omega
    have c : ¬ 9 = i := by omega
    simp [h, a, b, c]

/-- the mode a content declares (directories default to 0755) -/
def declaredMode (c : Content) : Nat :=
  let ty := if c.type = [] then T.file else c.type
  if isDirType ty && (c.info.getD {}).mode == 0 then 0o755 else (c.info.getD {}).mode

/-- **where a planned entry's mode comes from** (Content.WithFileInfoDefaults): the declared one verbatim, or – when none
    is declared – the source's mode with its special bits in configuration position, minus the umask -/
theorem withDefaults_mode (O : Oracle) (umask : Nat) (mtime : Int) (c : Content) :
    (cinfo (withDefaults O umask mtime c)).mode = declaredMode c
    ∨ (declaredMode c = 0 ∧ ∃ s, O.stat c.src = some s ∧
        (cinfo (withDefaults O umask mtime c)).mode = andNot (unixModeBits s.mode) umask) := by
  unfold withDefaults cinfo declaredMode
  simp only [Option.getD_some]
  generalize (if c.type = [] then T.file else c.type) = ty
  generalize (if (isDirType ty && (c.info.getD {}).mode == 0) = true then 0o755 else (c.info.getD {}).mode) = dm
  split
  · rename_i s hs
    by_cases h0 : dm = 0
    · right
      refine ⟨h0, s, ite_some hs, ?_⟩
      simp [h0]
    · left; simp [h0]
  · left; rfl

/-- so a planned entry that declares no mode never carries io/fs's own special bits, and denotes the source's
    permission bits minus the umask -/
theorem planned_source_mode (O : Oracle) (umask : Nat) (mtime : Int) (c : Content) (s : Stat)
    (hm : (cinfo (withDefaults O umask mtime c)).mode = andNot (unixModeBits s.mode) umask) :
    unixPerm (cinfo (withDefaults O umask mtime c)).mode = andNot (stPerm s.mode) umask
    ∧ hasBit (cinfo (withDefaults O umask mtime c)).mode modeSetuidBit = false
    ∧ hasBit (cinfo (withDefaults O umask mtime c)).mode modeSetgidBit = false
    ∧ hasBit (cinfo (withDefaults O umask mtime c)).mode modeStickyBit = false := by
  rw [hm]
  exact ⟨source_mode_perm _ _, source_mode_no_go_bits _ _⟩

example : stPerm (2 ^ 23 + 0o755) = 0o4755 ∧ unixModeBits (2 ^ 23 + 0o755) = 0o4755
    ∧ unixModeBits (2 ^ 31 + 2 ^ 20 + 0o777) = 2 ^ 31 + 0o1777 := by decide
/-- translating twice changes nothing: a mode that already has its special bits in configuration position is kept -/
theorem unixModeBits_idem (m : Nat) : unixModeBits (unixModeBits m) = unixModeBits m := by
  apply Nat.eq_of_testBit_eq
  intro i
  rw [unixModeBits_testBit (unixModeBits m) i]
  have h23 : (unixModeBits m).testBit 23 = false := by rw [unixModeBits_testBit]; simp
  have h22 : (unixModeBits m).testBit 22 = false := by rw [unixModeBits_testBit]; simp
  have h20 : (unixModeBits m).testBit 20 = false := by rw [unixModeBits_testBit]; simp
  rw [h23, h22, h20]
  by_cases a : 23 = i
  · subst a; simp [h23]
  · by_cases b : 22 = i
    · subst b; simp [h22]
    · by_cases c : 20 = i
      · subst c; simp [h20]
      · simp [a, b, c]

/-- a mode given in the configuration (no io/fs special bits) passes through unchanged -/
theorem unixModeBits_declared (m : Nat) (h1 : m.testBit 23 = false) (h2 : m.testBit 22 = false) (h3 : m.testBit 20 = false) :
    unixModeBits m = m := by
  apply Nat.eq_of_testBit_eq
  intro i
  rw [unixModeBits_testBit, h1, h2, h3]
  by_cases a : 23 = i
  · subst a; simp [h1]
  · by_cases b : 22 = i
    · subst b; simp [h2]
    · by_cases c : 20 = i
      · subst c; simp [h3]
      · simp [a, b, c]

end SourceModes

/-- the member list of a tar format with times as archive/tar stores them -/
def stored (m : Member) : Member := { m with mtime := tarTime m.mtime }

/-- **deb: a declared symlink is shipped as a symlink with its literal target, whatever mode bits its file info carries**
    – in particular the directory bit that preparation picks up when the target happens to be a directory on the build
    host.  (`EntryOK.noDirBit` below is a hypothesis the refinement proof forced; the point it excludes was run against
    the real code and was a defect: the entry was written as a directory.  Repaired in /repo by 37116f4, and this
    theorem states the repaired behaviour without that hypothesis.) -/
theorem deb_declared_symlink_is_a_symlink (now imt : Int) (c : Content) (h : c.type = T.symlink) :
    ∃ m, debMember1 now imt c = some m ∧ m.kind = tSym ∧ m.link = c.src ∧ m.name = asExplicitRel c.dst := by
  refine ⟨debHeader now [imt] c, ?_, ?_, ?_, ?_⟩
  · simp [debMember1, h, show ¬ T.symlink = T.ghost by decide, show isDirType T.symlink = false by decide]
  all_goals simp [debHeader, h]

/-- **deb**: the data.tar member written for an entry denotes exactly that entry. -/
theorem deb_member_denotes (now imt : Int) (c : Content) (h : EntryOK c) :
    (debMember1 now imt c).map (fun m => logical1 .deb (stored m)) = denote1 .deb c := by
  obtain ⟨x, hx, hdst⟩ := h.shape
  have hmode := debMode_plain _ h.noSetuidBit h.noSetgidBit h.noStickyBit
  unfold debMember1 denote1 noPayload
  simp only [unixPerm_plain c h]
  by_cases hg : c.type = T.ghost
  · simp [hg]
  · by_cases hd : isDirType c.type = true
    · have hname := pathOfName_explicit .deb (Or.inl rfl) true x hx
      simp only [hd] at hdst
      simp only [hg, if_false, hd, if_true]
      have hcl : (c.type == T.debChangelog) = false := by
        rw [beq_eq_false_iff_ne]; intro e; rw [e] at hd; revert hd; decide
      have hsy : ¬ c.type = T.symlink := by intro e; rw [e] at hd; revert hd; decide
      simp [hcl, hg, debHeader, hd, hsy, h.noSymlinkBit, logical1, stored, tDir, tSym, hmode, and_7777_idem, hdst, hname]
    · simp only [Bool.not_eq_true] at hd
      have hname := pathOfName_explicit .deb (Or.inl rfl) false x hx
      simp only [hd] at hdst
      have hnd := h.noDirBit hd
      have hns := h.noSymlinkBit
      by_cases hs : c.type = T.symlink
      · have hcl : (c.type == T.debChangelog) = false := by rw [hs]; decide
        have hgb : (c.type == T.ghost) = false := by rw [hs]; decide
        simp [hs, hg, debHeader, hd, hnd, logical1, stored, tDir, tSym, hdst, hname, hcl, hgb,
          show isDirType T.symlink = false by decide, show (T.symlink == T.debChangelog) = false by decide,
          show (T.symlink == T.ghost) = false by decide, show ¬ T.symlink = T.ghost by decide]
      · by_cases hc : c.type = T.debChangelog
        · simp [hc, show ¬ T.debChangelog = T.ghost by decide, show isDirType T.debChangelog = false by decide,
            show ¬ T.debChangelog = T.symlink by decide]
        · have hcl : (c.type == T.debChangelog) = false := by rw [beq_eq_false_iff_ne]; exact hc
          have hgb : (c.type == T.ghost) = false := by rw [beq_eq_false_iff_ne]; exact hg
          have hsb : (c.type == T.symlink) = false := by rw [beq_eq_false_iff_ne]; exact hs
          simp [hg, hd, hs, hc, hcl, hgb, hsb, debHeader, hnd, hns, logical1, stored, tDir, tSym, tReg, hmode,
            and_7777_idem, hdst, hname, mtimeGet_set now _ h.mtimeSet, tarTime_set _ h.mtimeSet]

/-- types the non-rpm formats ship (everything planning can hand them) -/
def commonPayloadType (t : Bytes) : Prop :=
  isDirType t = true ∨ t = T.symlink ∨ t = T.file ∨ t = T.config ∨ t = T.configNoReplace ∨ t = T.configMissingOk

/-- **ipk**: the data.tar.gz member written for an entry denotes exactly that entry. -/
theorem ipk_member_denotes (now imt : Int) (c : Content) (h : EntryOK c) (ht : commonPayloadType c.type) :
    (ipkMember1 now imt c).map (fun m => logical1 .ipk (stored m)) = denote1 .ipk c := by
  obtain ⟨x, hx, hdst⟩ := h.shape
  unfold ipkMember1 denote1 noPayload
  simp only [unixPerm_plain c h]
  rcases ht with hd | hs | hf
  · have hname := pathOfName_explicit .ipk (Or.inr rfl) true x hx
    simp only [hd] at hdst
    have hg : (c.type == T.ghost) = false := by
      rw [beq_eq_false_iff_ne]; intro e; rw [e] at hd; revert hd; decide
    have hcl : (c.type == T.debChangelog) = false := by
      rw [beq_eq_false_iff_ne]; intro e; rw [e] at hd; revert hd; decide
    simp [hd, hg, hcl, logical1, stored, tDir, tSym, hdst, hname]
  · have hname := pathOfName_explicit .ipk (Or.inr rfl) false x hx
    have hd : isDirType c.type = false := by rw [hs]; decide
    simp only [hd] at hdst
    simp [hs, logical1, stored, tDir, tSym, hdst, hname, show isDirType T.symlink = false by decide,
      show (T.symlink == T.ghost) = false by decide, show (T.symlink == T.debChangelog) = false by decide]
  · have hname := pathOfName_explicit .ipk (Or.inr rfl) false x hx
    have hd : isDirType c.type = false := by
      rcases hf with e | e | e | e <;> rw [e] <;> decide
    simp only [hd] at hdst
    have hg : (c.type == T.ghost) = false := by
      rcases hf with e | e | e | e <;> rw [e] <;> decide
    have hcl : (c.type == T.debChangelog) = false := by
      rcases hf with e | e | e | e <;> rw [e] <;> decide
    have hsy : (c.type == T.symlink) = false := by
      rcases hf with e | e | e | e <;> rw [e] <;> decide
    have hsy' : ¬ c.type = T.symlink := by
      rcases hf with e | e | e | e <;> rw [e] <;> decide
    have hlist : (c.type = T.file || c.type = T.tree || c.type = T.config || c.type = T.configNoReplace
        || c.type = T.configMissingOk) = true := by
      rcases hf with e | e | e | e <;> simp [e]
    simp [hd, hg, hcl, hsy, hsy', hlist, logical1, stored, tDir, tSym, tReg, hdst, hname, tarTime_set _ h.mtimeSet]

/-- **apk**: the data segment member written for an entry denotes exactly that entry. -/
theorem apk_member_denotes (c : Content) (h : EntryOK c) (ht : commonPayloadType c.type) :
    some (logical1 .apk (stored (apkMember1 c))) = denote1 .apk c := by
  obtain ⟨x, hx, hdst⟩ := h.shape
  unfold apkMember1 denote1 noPayload
  simp only [unixPerm_plain c h]
  rcases ht with hd | hs | hf
  · have hname := pathOfName_relative .apk (Or.inl rfl) true x hx
    simp only [hd] at hdst
    have hg : (c.type == T.ghost) = false := by
      rw [beq_eq_false_iff_ne]; intro e; rw [e] at hd; revert hd; decide
    have hcl : (c.type == T.debChangelog) = false := by
      rw [beq_eq_false_iff_ne]; intro e; rw [e] at hd; revert hd; decide
    simp [hd, hg, hcl, logical1, stored, tDir, tSym, hdst, hname]
  · have hname := pathOfName_relative .apk (Or.inl rfl) false x hx
    have hd : isDirType c.type = false := by rw [hs]; decide
    simp only [hd] at hdst
    simp [hs, logical1, stored, tDir, tSym, hdst, hname, show isDirType T.symlink = false by decide,
      show (T.symlink == T.ghost) = false by decide, show (T.symlink == T.debChangelog) = false by decide]
  · have hd : isDirType c.type = false := by
      rcases hf with e | e | e | e <;> rw [e] <;> decide
    simp only [hd] at hdst
    have hg : (c.type == T.ghost) = false := by
      rcases hf with e | e | e | e <;> rw [e] <;> decide
    have hcl : (c.type == T.debChangelog) = false := by
      rcases hf with e | e | e | e <;> rw [e] <;> decide
    have hsy : (c.type == T.symlink) = false := by
      rcases hf with e | e | e | e <;> rw [e] <;> decide
    have hsy' : ¬ c.type = T.symlink := by
      rcases hf with e | e | e | e <;> rw [e] <;> decide
    -- the file name is AsRelativePath applied twice
    have hname : pathOfName .apk (asRel (asRel c.dst)) = pathOf c.dst := by
      rw [hdst]
      simp only [keyOf, Bool.false_eq_true, if_false]
      rw [asRel_normFile x hx]
      have h2 : asRel (jn x) = jn x := by
        have := asRel_normFile (jn x)
        -- AsRelativePath only looks at the cleaned path and the trailing slash
        unfold asRel
        simp only []
        have hclean : toNix (jn x) = jn x := by
          unfold toNix clean
          have hne := jn_ne_nil x hx
          have hroot : isRooted (jn x) = false := by
            cases hj : jn x with
            | nil => exact absurd hj hne
            | cons c0 rest =>
              have := jn_head_ne_slash x c0 rest hj
              simp [isRooted, this]
          simp only [hne, if_false, hroot, Bool.false_eq_true]
          unfold jn
          rw [splitOn_joinWith slash _ hx (fun c hc => (rcomps_proper x c hc).2.2.2),
            resolve_of_proper false _ (rcomps_proper x)]
          simp [hx]
        rw [hclean]
        have htl : trimLeft slash (jn x) = jn x := by
          cases hj : jn x with
          | nil => simp [trimLeft]
          | cons c0 rest =>
            have := jn_head_ne_slash x c0 rest hj
            simp [trimLeft, this]
        rw [htl, show slashS = [slash] from rfl, hasSuffix_of_getLast_ne _ _ (jn_getLast_ne_slash x hx)]
        simp
      rw [h2]
      simp only [pathOfName]
      rw [pathOf_jn x hx, pathOf_normFile x hx]
    simp [hd, hg, hcl, hsy, hsy', logical1, stored, tDir, tSym, tReg, hname, tarTime_set _ h.mtimeSet]

/-- **archlinux**: the tar member written for an entry denotes exactly that entry
    (owner and group included – fixed in a00c92c). -/
theorem arch_member_denotes (c : Content) (h : EntryOK c) (ht : commonPayloadType c.type) :
    some (logical1 .arch (stored (archMember1 c))) = denote1 .arch c := by
  obtain ⟨x, hx, hdst⟩ := h.shape
  unfold archMember1 denote1 noPayload
  simp only [unixPerm_plain c h]
  rcases ht with hd | hs | hf
  · have hname := pathOfName_relative .arch (Or.inr rfl) true x hx
    simp only [hd] at hdst
    have hg : (c.type == T.ghost) = false := by
      rw [beq_eq_false_iff_ne]; intro e; rw [e] at hd; revert hd; decide
    have hcl : (c.type == T.debChangelog) = false := by
      rw [beq_eq_false_iff_ne]; intro e; rw [e] at hd; revert hd; decide
    simp [hd, hg, hcl, logical1, stored, tDir, tSym, hdst, hname]
  · have hname := pathOfName_relative .arch (Or.inr rfl) false x hx
    have hd : isDirType c.type = false := by rw [hs]; decide
    simp only [hd] at hdst
    simp [hs, logical1, stored, tDir, tSym, hdst, hname, show isDirType T.symlink = false by decide,
      show (T.symlink == T.ghost) = false by decide, show (T.symlink == T.debChangelog) = false by decide]
  · have hname := pathOfName_relative .arch (Or.inr rfl) false x hx
    have hd : isDirType c.type = false := by
      rcases hf with e | e | e | e <;> rw [e] <;> decide
    simp only [hd] at hdst
    have hg : (c.type == T.ghost) = false := by
      rcases hf with e | e | e | e <;> rw [e] <;> decide
    have hcl : (c.type == T.debChangelog) = false := by
      rcases hf with e | e | e | e <;> rw [e] <;> decide
    have hsy : (c.type == T.symlink) = false := by
      rcases hf with e | e | e | e <;> rw [e] <;> decide
    have hsy' : ¬ c.type = T.symlink := by
      rcases hf with e | e | e | e <;> rw [e] <;> decide
    simp [hd, hg, hcl, hsy, hsy', logical1, stored, tDir, tSym, tReg, hdst, hname, tarTime_set _ h.mtimeSet]

/-! ### whole plans -/

theorem filterMap_map_eq {α β γ} (f : α → Option β) (g : β → γ) (d : α → Option γ) (l : List α)
    (h : ∀ a ∈ l, (f a).map g = d a) : (l.filterMap f).map g = l.filterMap d := by
  induction l with
  | nil => rfl
  | cons a rest ih =>
    have ha := h a (by simp)
    have := ih (fun b hb => h b (List.mem_cons_of_mem _ hb))
    simp only [List.filterMap_cons]
    cases hf : f a with
    | none => rw [hf] at ha; simp at ha; rw [← ha]; exact this
    | some b => rw [hf] at ha; simp at ha; rw [← ha]; simp [this]

/-- **deb payload = what the contents denote** (nothing missing, nothing else, plan order). -/
theorem payload_deb (now imt : Int) (plan : List Content) (h : ∀ c ∈ plan, EntryOK c) :
    (debMembers now imt plan).map (fun m => logical1 .deb (stored m)) = denote .deb plan :=
  filterMap_map_eq _ _ _ plan (fun c hc => deb_member_denotes now imt c (h c hc))

theorem payload_ipk (now imt : Int) (plan : List Content) (h : ∀ c ∈ plan, EntryOK c ∧ commonPayloadType c.type) :
    (ipkMembers now imt plan).map (fun m => logical1 .ipk (stored m)) = denote .ipk plan :=
  filterMap_map_eq _ _ _ plan (fun c hc => ipk_member_denotes now imt c (h c hc).1 (h c hc).2)

theorem map_eq_filterMap {α γ} (g : α → γ) (d : α → Option γ) (l : List α)
    (h : ∀ a ∈ l, some (g a) = d a) : l.map g = l.filterMap d := by
  induction l with
  | nil => rfl
  | cons a rest ih =>
    have ha := h a (by simp)
    simp only [List.map_cons, List.filterMap_cons, ← ha]
    rw [ih (fun b hb => h b (List.mem_cons_of_mem _ hb))]

theorem payload_apk (plan : List Content) (h : ∀ c ∈ plan, EntryOK c ∧ commonPayloadType c.type) :
    (apkMembers plan).map (fun m => logical1 .apk (stored m)) = denote .apk plan := by
  unfold apkMembers denote
  rw [List.map_map]
  exact map_eq_filterMap _ _ plan (fun c hc => apk_member_denotes c (h c hc).1 (h c hc).2)

theorem payload_arch (plan : List Content) (h : ∀ c ∈ plan, EntryOK c ∧ commonPayloadType c.type) :
    (archMembers plan).map (fun m => logical1 .arch (stored m)) = denote .arch plan := by
  unfold archMembers denote
  rw [List.map_map]
  exact map_eq_filterMap _ _ plan (fun c hc => arch_member_denotes c (h c hc).1 (h c hc).2)

/-- what an entry denotes does not depend on the format, rpm's implied directories aside -/
theorem denote1_format_independent (f g : Fmt) (c : Content) (hf : f ≠ .rpm) (hg : g ≠ .rpm) :
    denote1 f c = denote1 g c := by
  unfold denote1
  cases f <;> cases g <;> simp_all

/-- **the same configuration yields the same logical tree in deb, ipk, apk and archlinux** -/
theorem same_tree_across_formats (now imt : Int) (plan : List Content)
    (h : ∀ c ∈ plan, EntryOK c ∧ commonPayloadType c.type) :
    (debMembers now imt plan).map (fun m => logical1 .deb (stored m))
      = (ipkMembers now imt plan).map (fun m => logical1 .ipk (stored m)) ∧
    (debMembers now imt plan).map (fun m => logical1 .deb (stored m))
      = (apkMembers plan).map (fun m => logical1 .apk (stored m)) ∧
    (debMembers now imt plan).map (fun m => logical1 .deb (stored m))
      = (archMembers plan).map (fun m => logical1 .arch (stored m)) := by
  rw [payload_deb now imt plan (fun c hc => (h c hc).1), payload_ipk now imt plan h, payload_apk plan h,
    payload_arch plan h]
  have e : ∀ f, f ≠ Fmt.rpm → denote f plan = denote .deb plan := by
    intro f hf
    unfold denote
    have : denote1 f = denote1 .deb := funext (fun c => denote1_format_independent f .deb c hf (by decide))
    rw [this]
  exact ⟨(e .ipk (by decide)).symm, (e .apk (by decide)).symm, (e .arch (by decide)).symm⟩

/-- rpm records only explicitly declared directories: an implied directory denotes nothing there … -/
theorem denote_rpm_implicit (c : Content) (h : c.type = T.implicitDir) : denote1 .rpm c = none := by
  unfold denote1 noPayload
  rw [h]
  simp [show (T.implicitDir == T.ghost) = false by decide, show (T.implicitDir == T.debChangelog) = false by decide]

/-- … and every other entry denotes the same as in the other formats (file times as uint32) -/
theorem denote_rpm_other (c : Content) (h : c.type ≠ T.implicitDir) :
    denote1 .rpm c = (denote1 .deb c).map
      (fun e => if e.kind = .file then { e with mtime := (u32 (cinfo c).mtime : Int) } else e) := by
  have hib : (c.type == T.implicitDir) = false := by rw [beq_eq_false_iff_ne]; exact h
  unfold denote1
  by_cases hn : noPayload c.type = true
  · simp [hn]
  · by_cases hd : isDirType c.type = true
    · simp [hn, hd, hib]
    · by_cases hs : (c.type == T.symlink) = true
      · simp [hn, hd, hs, hib]
      · simp [hn, hd, hs, hib]

/-- **mode verbatim**: an explicit mode with setuid/setgid/sticky bits reaches the rpm
    header unchanged in its low twelve bits (uint16 truncation and the regular-file
    type bit do not touch them) -/
theorem rpm_mode_verbatim (m : Nat) : (u16 (m ||| 0o100000)) &&& 0o7777 = m &&& 0o7777 := by
  unfold u16
  rw [show (0o7777 : Nat) = 2 ^ 12 - 1 by rfl, Nat.and_two_pow_sub_one_eq_mod, Nat.and_two_pow_sub_one_eq_mod]
  rw [show (65536 : Nat) = 2 ^ 16 by rfl, Nat.mod_mod_of_dvd _ (by exact ⟨16, by decide⟩ : 2 ^ 12 ∣ 2 ^ 16)]
  rw [Nat.or_mod_two_pow]
  simp

theorem rpm_dir_mode_verbatim (m : Nat) : (u16 (m ||| 0o40000)) &&& 0o7777 = m &&& 0o7777 := by
  unfold u16
  rw [show (0o7777 : Nat) = 2 ^ 12 - 1 by rfl, Nat.and_two_pow_sub_one_eq_mod, Nat.and_two_pow_sub_one_eq_mod]
  rw [show (65536 : Nat) = 2 ^ 16 by rfl, Nat.mod_mod_of_dvd _ (by exact ⟨16, by decide⟩ : 2 ^ 12 ∣ 2 ^ 16)]
  rw [Nat.or_mod_two_pow]
  simp

/-- what rpm additionally needs of an entry: addressed to rpm (or to all), explicitly declared, and – for
    file-like entries – a mode without the two bit patterns by which rpmpack classifies directories and links -/
structure RpmOK (c : Content) : Prop where
  relevant : c.packager = [] ∨ c.packager = P.rpm
  notImplicit : c.type ≠ T.implicitDir
  fileBits : isDirType c.type = false → c.type ≠ T.symlink →
    ((cinfo c).mode &&& 0o40000 != 0) = false ∧ ((cinfo c).mode &&& 0o120000 == 0o120000) = false

/-- **rpm**: the header/cpio entry written for a payload-bearing entry denotes exactly that entry
    (paths as ToNixPath renders them, low twelve mode bits, owner, group, uint32 time, size, link, source) -/
theorem rpm_member_denotes (now imt : Int) (c : Content) (h : EntryOK c) (hr : RpmOK c) (hn : noPayload c.type = false) :
    ((rpmMember now imt c).filter (·.inPayload)).map (logical1 .rpm) = denote1 .rpm c := by
  obtain ⟨x, hx, hdst⟩ := h.shape
  have hname : toNix c.dst = pathOf c.dst := by rw [hdst]; exact toNix_keyOf _ x hx
  have hroot : toNix c.dst ≠ slashS := by
    rw [hname, hdst, pathOf_keyOf _ x hx]
    intro e
    have : jn x = [] := by simpa [slashS] using e
    exact jn_ne_nil x hx this
  have hpk : (c.packager ≠ [] && c.packager ≠ P.rpm) = false := by
    rcases hr.relevant with e | e <;> simp [e]
  have hib : (c.type == T.implicitDir) = false := by rw [beq_eq_false_iff_ne]; exact hr.notImplicit
  have hghost : c.type ≠ T.ghost := by
    intro e; simp [noPayload, e] at hn
  unfold rpmMember denote1
  simp only [unixPerm_plain c h]
  simp only [hpk, Bool.false_eq_true, if_false, if_neg hr.notImplicit, if_neg hroot, hn, hib, Bool.and_false]
  by_cases hs : c.type = T.symlink
  · have hd : isDirType c.type = false := by rw [hs]; decide
    have hsb : (c.type == T.symlink) = true := by rw [hs]; decide
    simp only [if_pos hs, hd, hsb, Bool.false_eq_true, if_false, if_true, Option.filter, Option.map, logical1, pathOfName,
      hname, show (tSym = tDir) = False by decide]
  · have hsb : (c.type == T.symlink) = false := by rw [beq_eq_false_iff_ne]; exact hs
    by_cases hd : c.type = T.dir
    · have hdt : isDirType c.type = true := by rw [hd]; decide
      simp only [if_neg hs, if_pos hd, hdt, if_true, Option.filter, Option.map, logical1, pathOfName, hname,
        rpm_dir_mode_verbatim]
    · have hdt : isDirType c.type = false := by
        simp [isDirType, hd, hr.notImplicit]
      obtain ⟨hb1, hb2⟩ := hr.fileBits hdt hs
      simp only [if_neg hs, if_neg hd, hdt, hsb, Bool.false_eq_true, if_false, hghost, false_and, decide_false,
        Bool.false_and, hb1, hb2, Option.filter, Option.map, logical1, pathOfName, hname, rpm_mode_verbatim,
        ne_eq, not_false_eq_true, decide_true, if_true, show (tReg = tDir) = False by decide,
        show (tReg = tSym) = False by decide]

/-- non-vacuity: a setuid file, a directory and a symlink satisfy `EntryOK` and the
    deb member of the file carries mode 04755 and its owner. -/
example :
    (debMember1 0 1700000000
      { src := b!"/src/tool", dst := b!"/usr/bin/tool", type := T.file,
        info := some { owner := b!"app", group := b!"wheel", mode := 0o4755, mtime := 1600000000, size := 9 } }).map
      (fun m => (m.name, m.mode, m.uname, m.gname, m.mtime))
    = some (b!"./usr/bin/tool", 0o4755, b!"app", b!"wheel", 1600000000) := by decide

/-- the translator regenerated, on this run and from the working tree, every table this property is tied through
    (when an extraction fails the reviewed table stands in so that the model still compiles, and this stops checking) -/
theorem translator_tables_regenerated : Generated.extracted_G3Types = true := by decide

end Nfpm.Props.C01
