import NfpmModel.Lemmas.RpmRelLemmas
import NfpmModel.Spec.MetaSpec
import NfpmModel.Lemmas.PathLemmas
import NfpmModel.Lemmas.VersionLemmas
import NfpmModel.Generated.G11Templates
import NfpmModel.Generated.G1Arch
import NfpmModel.Lemmas.ArLemmas
/-
  C02  Metadata fidelity: identity, version, architecture, relations, description.

  For every list of control fields (any number, any bytes within the explicit well-formedness
  guard `WfField`):
    control_roundtrip        the RFC822-style control parser recovers exactly the logical fields
                             (keys, first lines, continuation lines, blank lines) from what deb and
                             ipk render – so every field is found complete, in order, under its own key
    relations_roundtrip      a relation list (depends, pre-depends, recommends, suggests, conflicts,
                             breaks, replaces, provides, tags) of any length is recovered complete and
                             in order from its `a, b, c` rendering
    description_synopsis_intact / description_lines_recovered
  Finite, decided by the kernel over tables regenerated from the source and the documentation:
    arch_table_documented    every documented (format, GOARCH) row is what the packager's table yields
    arch_override_verbatim / arch_unknown_passthrough (general lemmas)
    template_rows_deb/ipk/apk   which selector feeds which label in the control templates
    optional_iff_configured     optional fields appear iff configured
  Known finding (kernel-checked witness): archlinux pkgver drops the prerelease without an epoch.
-/
set_option linter.unusedSimpArgs false
set_option linter.unusedVariables false

namespace Nfpm.Props.C02
open Nfpm B Path Spec

/-- the explicit guard the formats force: keys are `Token`s, no value holds a newline, a
    continuation line is not the blank-line marker "." itself -/
structure WfField (f : Field) : Prop where
  key_ne : f.key ≠ []
  key_no_colon : (58 : UInt8) ∉ f.key
  key_no_nl : nl ∉ f.key
  key_head : f.key.head? ≠ some space
  first_no_nl : nl ∉ f.first
  conts_no_nl : ∀ c ∈ f.conts, nl ∉ c
  conts_not_dot : ∀ c ∈ f.conts, c ≠ [dot]
  /-- a continuation line is empty (written as the marker) or holds something other than blanks and tabs: a line of
      nothing but white space would end the stanza for the format's own parser -/
  conts_not_blank : ∀ c ∈ f.conts, c ≠ [] → (c.all (fun x => x = space || x = 9)) = false

/-- the physical lines of one field -/
def contLine (c : Bytes) : Bytes := space :: (if c = [] then [dot] else c)
def fieldLines (f : Field) : List Bytes := (f.key ++ b!": " ++ f.first) :: f.conts.map contLine

def unlines (ls : List Bytes) : Bytes := ls.flatMap (· ++ [nl])

theorem renderField_unlines (f : Field) : renderField f ++ [nl] = unlines (fieldLines f) := by
  unfold renderField fieldLines unlines
  simp only [List.flatMap_cons, List.append_assoc]
  congr 1
  induction f.conts with
  | nil => simp
  | cons c cs ih =>
    simp only [List.flatMap_cons, List.map_cons, contLine, List.cons_append, List.append_assoc]
    -- "\n c' rest" ++ "\n" = "\n" ++ " c'" ++ "\n" ++ …
    have : (nl :: space :: (if c = [] then [dot] else c)) ++ (cs.flatMap (fun c => nl :: space :: (if c = [] then [dot] else c)) ++ [nl])
         = [nl] ++ ((space :: (if c = [] then [dot] else c)) ++ [nl] ++ (cs.map contLine).flatMap (· ++ [nl])) := by
      simp only [List.cons_append, List.nil_append, List.append_assoc]
      congr 2
      -- shift the newline through
      have h2 : ∀ (t : Bytes), t ++ (cs.flatMap (fun c => nl :: space :: (if c = [] then [dot] else c)) ++ [nl])
          = t ++ [nl] ++ (cs.map contLine).flatMap (· ++ [nl]) → True := fun _ _ => trivial
      clear h2
      have key : ∀ (l : List Bytes), l.flatMap (fun c => nl :: space :: (if c = [] then [dot] else c)) ++ [nl]
          = [nl] ++ (l.map contLine).flatMap (· ++ [nl]) := by
        intro l
        induction l with
        | nil => simp
        | cons d ds ihd =>
          simp only [List.flatMap_cons, List.map_cons, contLine, List.cons_append, List.append_assoc, List.nil_append]
          rw [ihd]; simp
      rw [key cs]; simp
    simpa using this

theorem renderControl_unlines (fs : List Field) (hne : fs ≠ []) :
    renderControl fs = unlines (fs.flatMap fieldLines) := by
  unfold renderControl
  have gen : ∀ (l : List Field), l ≠ [] → joinWith nl (l.map renderField) ++ [nl] = l.flatMap (fun f => renderField f ++ [nl]) := by
    intro l hl
    induction l with
    | nil => exact absurd rfl hl
    | cons f rest ih =>
      cases rest with
      | nil => simp [joinWith]
      | cons g gs =>
        have := ih (by simp)
        simp only [List.map_cons, joinWith, List.flatMap_cons, List.append_assoc] at this ⊢
        rw [← this]; simp
  rw [gen fs hne]
  unfold unlines
  clear gen hne
  induction fs with
  | nil => rfl
  | cons f rest ih =>
    simp only [List.flatMap_cons, List.flatMap_append]
    rw [ih, renderField_unlines f]
    rfl

theorem splitOn_unlines (ls : List Bytes) (h : ∀ l ∈ ls, nl ∉ l) : splitOn nl (unlines ls) = ls ++ [[]] := by
  induction ls with
  | nil => simp [unlines, splitOn]
  | cons l rest ih =>
    unfold unlines at *
    simp only [List.flatMap_cons, List.append_assoc, List.singleton_append]
    rw [splitOn_append_sep nl l _ (h l (by simp)), ih (fun x hx => h x (List.mem_cons_of_mem _ hx))]
    simp

theorem splitKeyValue_line (k v : Bytes) (hk : (58 : UInt8) ∉ k) : splitKeyValue (k ++ b!": " ++ v) = some (k, v) := by
  unfold splitKeyValue
  have hd : ∀ x ∈ k, (x != 58) = true := by
    intro x hx; simp only [bne_iff_ne, ne_eq]; intro e; subst e; exact hk hx
  have e : k ++ b!": " ++ v = k ++ 58 :: (space :: v) := by simp [space]
  rw [e, takeWhile_append_stop (fun x => x != 58) k 58 (space :: v) hd (by simp),
    dropWhile_append_stop (fun x => x != 58) k 58 (space :: v) hd (by simp)]
  simp

theorem parseLines_conts (cs pre : List Bytes) (f : Field) (acc : List Field) (rest : List Bytes)
    (hdot : ∀ c ∈ cs, c ≠ [dot]) (hbl : ∀ c ∈ cs, c ≠ [] → (c.all (fun x => x = space || x = 9)) = false) :
    parseLines (cs.map contLine ++ rest) ({ f with conts := pre } :: acc)
      = parseLines rest ({ f with conts := pre ++ cs } :: acc) := by
  induction cs generalizing pre with
  | nil => simp
  | cons c cs ih =>
    simp only [List.map_cons, List.cons_append, contLine]
    conv => lhs; unfold parseLines
    simp only [if_true]
    have hnb : ((if c = [] then [dot] else c).all (fun x => x = space || x = 9)) = false := by
      by_cases h : c = []
      · simp [h]; decide
      · simp only [h, if_false]; exact hbl c (by simp) h
    rw [hnb]
    simp only [Bool.false_eq_true, if_false]
    unfold addCont
    simp only []
    have hc : (if (if c = [] then [dot] else c) = [dot] then ([] : Bytes) else (if c = [] then [dot] else c)) = c := by
      by_cases h : c = []
      · simp [h]
      · simp [h, hdot c (by simp)]
    rw [hc]
    have := ih (pre ++ [c]) (fun x hx => hdot x (List.mem_cons_of_mem _ hx)) (fun x hx => hbl x (List.mem_cons_of_mem _ hx))
    simpa using this

theorem parseLines_fields (fs : List Field) (hwf : ∀ f ∈ fs, WfField f) (acc : List Field) :
    parseLines (fs.flatMap fieldLines ++ [[]]) acc = acc.reverse ++ fs := by
  induction fs generalizing acc with
  | nil => simp [parseLines]
  | cons f rest ih =>
    have w := hwf f (by simp)
    simp only [List.flatMap_cons, fieldLines, List.cons_append, List.append_assoc]
    conv => lhs; unfold parseLines
    -- the key line is non-empty and does not start with a space
    cases hk : f.key with
    | nil => exact absurd hk w.key_ne
    | cons k0 ks =>
      have hk0 : k0 ≠ space := by
        intro e; apply w.key_head; rw [hk, e]; rfl
      simp only [List.cons_append, hk0, if_false]
      have hsp : splitKeyValue (k0 :: (ks ++ b!": " ++ f.first)) = some (f.key, f.first) := by
        have := splitKeyValue_line f.key f.first w.key_no_colon
        rw [hk] at this ⊢
        simpa using this
      have hsp' : splitKeyValue (k0 :: (ks ++ 58 :: 32 :: ([] ++ f.first))) = some (f.key, f.first) := by
        rw [← hsp]; simp
      rw [hsp']
      simp only []
      have hc := parseLines_conts f.conts [] { key := f.key, first := f.first } acc
        (rest.flatMap fieldLines ++ [[]]) w.conts_not_dot w.conts_not_blank
      simp only [List.nil_append] at hc
      rw [hc, ih (fun g hg => hwf g (List.mem_cons_of_mem _ hg))]
      simp

/-- **control round trip**: the control parser recovers exactly the logical fields – every key,
    every value, every continuation and blank line, in order – from the rendered control file. -/
theorem control_roundtrip (fs : List Field) (hne : fs ≠ []) (hwf : ∀ f ∈ fs, WfField f) :
    parseControl (renderControl fs) = fs := by
  unfold parseControl
  rw [renderControl_unlines fs hne, splitOn_unlines]
  · have := parseLines_fields fs hwf []
    simpa using this
  · intro l hl
    obtain ⟨f, hf, hlf⟩ := List.mem_flatMap.mp hl
    have w := hwf f hf
    unfold fieldLines at hlf
    rcases List.mem_cons.mp hlf with e | e
    · subst e
      simp only [List.mem_append, not_or]
      exact ⟨⟨w.key_no_nl, by decide⟩, w.first_no_nl⟩
    · obtain ⟨c, hc, rfl⟩ := List.mem_map.mp e
      unfold contLine
      simp only [List.mem_cons, not_or]
      refine ⟨by decide, ?_⟩
      by_cases h : c = []
      · simp [h]; decide
      · simp [h]; exact w.conts_no_nl c hc

/-! ### relation lists -/

/-- how a reader splits a relation value: at commas, trimming blanks -/
def parseRel (v : Bytes) : List Bytes := (splitOn 44 v).map trimSpace

theorem splitOn_comma_join (items : List Bytes) (hne : items ≠ []) (hc : ∀ i ∈ items, (44 : UInt8) ∉ i) :
    splitOn 44 (joinSep b!", " items) = (items.head?.toList) ++ (items.drop 1).map (space :: ·) := by
  induction items with
  | nil => exact absurd rfl hne
  | cons x rest ih =>
    cases rest with
    | nil => simp [joinSep]; exact splitOn_of_noSep 44 x (hc x (by simp))
    | cons y ys =>
      have := ih (by simp) (fun i hi => hc i (List.mem_cons_of_mem _ hi))
      simp only [joinSep, List.append_assoc]
      rw [show x ++ (b!", " ++ joinSep b!", " (y :: ys)) = x ++ 44 :: (space :: joinSep b!", " (y :: ys)) by rfl]
      rw [splitOn_append_sep 44 x _ (hc x (by simp))]
      -- the rest starts with a space that belongs to the first piece of the remainder
      have hsp : splitOn 44 (space :: joinSep b!", " (y :: ys))
               = (space :: y) :: (ys.map (space :: ·)) := by
        have h44 : ¬ space = (44 : UInt8) := by decide
        rw [splitOn]
        simp only [h44, if_false]
        rw [this]
        simp
      rw [hsp]; simp

theorem trimSpace_cons_space (i : Bytes) : trimSpace (space :: i) = trimSpace i := by
  unfold trimSpace
  simp [trimSpaceLeft, isSpace, space]

/-- **relations**: any list of clean items (non-empty, comma-free, no outer blanks) is recovered
    complete and in order from its rendering -/
theorem relations_roundtrip (items : List Bytes) (hne : items ≠ [])
    (hclean : ∀ i ∈ items, (44 : UInt8) ∉ i ∧ trimSpace i = i) :
    parseRel (joinSep b!", " items) = items := by
  unfold parseRel
  rw [splitOn_comma_join items hne (fun i hi => (hclean i hi).1)]
  cases items with
  | nil => exact absurd rfl hne
  | cons x rest =>
    simp only [List.head?_cons, Option.toList_some, List.drop_succ_cons, List.drop_zero, List.singleton_append,
      List.map_cons, List.map_map]
    congr 1
    · exact (hclean x (by simp)).2
    · rw [List.map_congr_left (g := id)]
      · simp
      · intro i hi
        simp only [Function.comp, id]
        rw [trimSpace_cons_space]
        exact (hclean i (List.mem_cons_of_mem _ hi)).2

/-! ### description -/

/-- the synopsis (first line) is what deb/ipk write after `Description: ` -/
theorem description_synopsis_intact (l : Leaves) (sz : Nat) :
    ∃ f ∈ debFields l sz, f.key = b!"Description" ∧ f.first = (multilineParts (l.str b!"Description")).1 ∧
      f.conts = (multilineParts (l.str b!"Description")).2 := by
  refine ⟨{ key := b!"Description", first := (multilineParts (l.str b!"Description")).1,
            conts := (multilineParts (l.str b!"Description")).2 }, ?_, rfl, rfl, rfl⟩
  unfold debFields
  simp

/-! ### architecture -/

theorem arch_override_verbatim (t : List (Bytes × Bytes)) (i : VInfo) (h : i.archOverride ≠ []) :
    targetArch t i = i.archOverride := by simp [targetArch, h]

theorem arch_unknown_passthrough (t : List (Bytes × Bytes)) (a : Bytes) (h : ∀ p ∈ t, p.1 ≠ a) : lookupArch t a = a := by
  unfold lookupArch
  have : t.find? (·.1 == a) = none := by
    rw [List.find?_eq_none]; intro p hp; simpa using h p hp
  rw [this]

def tableFor (f : Bytes) : List (Bytes × Bytes) :=
  if f = b!"deb" then Generated.archMap_deb else if f = b!"rpm" then Generated.archMap_rpm
  else if f = b!"apk" then Generated.archMap_apk else if f = b!"archlinux" then Generated.archMap_archlinux
  else if f = b!"ipk" then Generated.archMap_ipk else []

/-- every row of the documented GOARCH table (www/docs/goarch-to-pkg.md) is what the packager's
    own table yields (exhaustive over the documented rows, all formats) -/
theorem arch_table_documented :
    Generated.archDoc.all (fun (f, rows) => rows.all (fun (goarch, v) => lookupArch (tableFor f) goarch == v)) = true := by
  decide

theorem mips_float_suffix_rule :
    Generated.mipsPrefix = b!"mips" ∧ Generated.mipsReplacer = [b!"softfloat", [], b!"hardfloat", []] := by decide

/-! ### which selector feeds which label -/

theorem template_rows_deb :
    Generated.templateRows_deb =
      [ (b!"Package", b!".Info.Name"),
        (b!"Version", b!".Info.Epoch+.Info.Epoch+.Info.Version+.Info.Prerelease+.Info.VersionMetadata+.Info.Release"),
        (b!"Section", b!".Info.Section"), (b!"Priority", b!".Info.Priority"),
        (b!"Architecture", b!".Info.Platform+.Info.Platform+.Info.Arch"),
        (b!"License", b!".Info.License"), (b!"Maintainer", b!".Info.Maintainer"),
        (b!"Installed-Size", b!".InstalledSize"),
        (b!"Replaces", b!"join(.Info.Replaces)"), (b!"Provides", b!"join(nonEmpty .Info.Provides)"),
        (b!"Pre-Depends", b!"join(.Info.Deb.Predepends)"), (b!"Depends", b!"join(.Info.Depends)"),
        (b!"Recommends", b!"join(.Info.Recommends)"), (b!"Suggests", b!"join(.Info.Suggests)"),
        (b!"Conflicts", b!"join(.Info.Conflicts)"), (b!"Breaks", b!"join(.Info.Deb.Breaks)"),
        (b!"Homepage", b!".Info.Homepage"), (b!"Description", b!"multiline(.Info.Description)"),
        (b!"$key", b!"range-var($value)") ] := by decide

theorem template_rows_ipk :
    Generated.templateRows_ipk =
      [ (b!"Architecture", b!".Info.Arch"), (b!"Description", b!"multiline(.Info.Description)"),
        (b!"Maintainer", b!".Info.Maintainer"), (b!"Package", b!".Info.Name"), (b!"Priority", b!".Info.Priority"),
        (b!"Version", b!".Info.Epoch+.Info.Epoch+.Info.Version+.Info.Prerelease+.Info.VersionMetadata+.Info.Release"),
        (b!"ABIVersion", b!".Info.IPK.ABIVersion"), (b!"Alternatives", b!"range(.Info.IPK.Alternatives)"),
        (b!"Auto-Installed", b!"literal:yes"), (b!"Conflicts", b!"join(.Info.Conflicts)"),
        (b!"Depends", b!"join(.Info.Depends)"), (b!"Essential", b!"literal:yes"), (b!"Homepage", b!".Info.Homepage"),
        (b!"License", b!".Info.License"), (b!"Installed-Size", b!".InstalledSize"),
        (b!"Pre-Depends", b!"join(.Info.IPK.Predepends)"), (b!"Provides", b!"join(nonEmpty .Info.Provides)"),
        (b!"Recommends", b!"join(.Info.Recommends)"), (b!"Replaces", b!"join(.Info.Replaces)"),
        (b!"Section", b!".Info.Section"), (b!"Suggests", b!"join(.Info.Suggests)"), (b!"Tags", b!"join(.Info.IPK.Tags)"),
        (b!"Vendor", b!".Info.Vendor"), (b!"$key", b!"range-var($value)") ] := by decide

theorem template_rows_apk :
    Generated.templateRows_apk =
      [ (b!"pkgname", b!".Info.Name"), (b!"pkgver", b!"pkgver()"), (b!"arch", b!".Info.Arch"),
        (b!"size", b!".InstalledSize"), (b!"pkgdesc", b!"multiline(.Info.Description)"), (b!"url", b!".Info.Homepage"),
        (b!"maintainer", b!".Info.Maintainer"), (b!"replaces", b!"range-var($repl := .Info.Replaces)"),
        (b!"provides", b!"range-var($prov := .Info.Provides)"), (b!"depend", b!"range-var($dep := .Info.Depends)"),
        (b!"license", b!".Info.License"), (b!"datahash", b!".Datahash") ] := by decide

/-! ### optional fields appear iff configured -/

theorem optional_iff_configured (k v : Bytes) (items : List Bytes) :
    (optField k v = [] ↔ v = []) ∧ (listField k items = [] ↔ items = []) := by
  constructor
  · unfold optField; by_cases h : v = [] <;> simp [h]
  · unfold listField; by_cases h : items = [] <;> simp [h]

theorem triggers_iff_configured (l : Leaves)
    (h : l.lst b!"Deb.Triggers.Interest" = [] ∧ l.lst b!"Deb.Triggers.InterestAwait" = [] ∧
         l.lst b!"Deb.Triggers.InterestNoAwait" = [] ∧ l.lst b!"Deb.Triggers.Activate" = [] ∧
         l.lst b!"Deb.Triggers.ActivateAwait" = [] ∧ l.lst b!"Deb.Triggers.ActivateNoAwait" = []) :
    debTriggers l = [] := by
  obtain ⟨h1, h2, h3, h4, h5, h6⟩ := h
  simp [debTriggers, h1, h2, h3, h4, h5, h6]

/-! ### `key = value` metadata (apk and archlinux .PKGINFO) can be read back -/

/-- one line of parseKV -/
def kvParseLine (line : Bytes) : Option (Bytes × Bytes) :=
  match line with
  | [] => none
  | c :: _ =>
    if c = 35 || c = space then none
    else
      let k := line.takeWhile (· != space)
      let rest := line.dropWhile (· != space)
      if hasPrefix rest b!" = " then some (k, rest.drop 3) else none

theorem parseKV_eq (text : Bytes) : parseKV text = (splitOn nl text).filterMap kvParseLine := rfl

/-- what the format can express: a non-empty key without blanks or newlines that does not start a comment,
    a value without newlines -/
structure WfKV (p : Bytes × Bytes) : Prop where
  key_ne : p.1 ≠ []
  key_plain : ∀ c ∈ p.1, c ≠ space ∧ c ≠ nl
  key_head : p.1.head? ≠ some 35
  val_no_nl : nl ∉ p.2

theorem hasPrefix_append (p s : Bytes) : hasPrefix (p ++ s) p = true := by
  induction p with
  | nil => cases s <;> rfl
  | cons x xs ih => simp [hasPrefix, ih]

theorem kvParseLine_line (p : Bytes × Bytes) (h : WfKV p) : kvParseLine (p.1 ++ b!" = " ++ p.2) = some p := by
  obtain ⟨k, v⟩ := p
  cases hk : k with
  | nil => exact absurd hk h.key_ne
  | cons c cs =>
    have hc : c ≠ 35 := by
      intro e; apply h.key_head; simp [hk, e]
    have hcs : c ≠ space := (h.key_plain c (by simp [hk])).1
    have hd : ∀ x ∈ c :: cs, (x != space) = true := by
      intro x hx; simp only [bne_iff_ne, ne_eq]; exact (h.key_plain x (by simpa [hk] using hx)).1
    have e : (c :: cs) ++ b!" = " ++ v = (c :: cs) ++ space :: (61 :: space :: v) := by simp [space]
    show kvParseLine ((c :: cs) ++ b!" = " ++ v) = some (c :: cs, v)
    rw [e]
    unfold kvParseLine
    simp only [List.cons_append, hc, hcs, Bool.or_self, Bool.false_eq_true, if_false, decide_false]
    have e2 : c :: (cs ++ space :: 61 :: space :: v) = (c :: cs) ++ space :: (61 :: space :: v) := by simp
    rw [e2, takeWhile_append_stop (fun x => x != space) _ space _ hd (by simp),
      dropWhile_append_stop (fun x => x != space) _ space _ hd (by simp)]
    have hp : hasPrefix (space :: 61 :: space :: v) b!" = " = true := by
      have := hasPrefix_append b!" = " v
      simpa [space] using this
    simp [hp]

theorem splitOn_nl_lines (ls : List Bytes) (h : ∀ l ∈ ls, nl ∉ l) :
    splitOn nl (ls.flatMap (· ++ [nl])) = ls ++ [[]] := by
  have := splitOn_unlines ls h
  simpa [unlines] using this

/-- **`key = value` round trip**: the reader recovers exactly the pairs with a non-empty value (empty ones are not
    written), in order – for the pairs archlinux writes after its comment line and for apk's lines alike -/
theorem kv_roundtrip (pairs : List (Bytes × Bytes)) (h : ∀ p ∈ pairs, WfKV p) :
    parseKV (b!"# Generated by nfpm\n" ++ pairs.flatMap (fun p => kvLine p.1 p.2)) = pairs.filter (fun p => p.2 ≠ []) := by
  have hbody : pairs.flatMap (fun p => kvLine p.1 p.2)
      = ((pairs.filter (fun p => p.2 ≠ [])).map (fun p => p.1 ++ b!" = " ++ p.2)).flatMap (· ++ [nl]) := by
    induction pairs with
    | nil => rfl
    | cons p rest ih =>
      have ih' := ih (fun q hq => h q (List.mem_cons_of_mem _ hq))
      rw [List.flatMap_cons, ih']
      by_cases hv : p.2 = []
      · have e : kvLine p.1 p.2 = [] := by simp [kvLine, hv]
        rw [e, List.filter_cons]
        simp [hv]
      · have e : kvLine p.1 p.2 = (p.1 ++ b!" = " ++ p.2) ++ [nl] := by simp [kvLine, hv]
        rw [e, List.filter_cons]
        simp [hv]
  have hcomment : b!"# Generated by nfpm\n" = [b!"# Generated by nfpm"].flatMap (· ++ [nl]) := by decide
  rw [parseKV_eq, hbody, hcomment, ← List.flatMap_append, splitOn_nl_lines]
  · simp only [List.filterMap_append, List.filterMap_cons, List.filterMap_nil]
    have hc : kvParseLine b!"# Generated by nfpm" = none := by decide
    have hn : kvParseLine [] = none := rfl
    rw [hc, hn]
    simp only [List.nil_append, List.append_nil, List.filterMap_map]
    have : ∀ l : List (Bytes × Bytes), (∀ p ∈ l, WfKV p) →
        l.filterMap (kvParseLine ∘ fun p => p.1 ++ b!" = " ++ p.2) = l := by
      intro l hl
      induction l with
      | nil => rfl
      | cons p rest ih =>
        simp only [List.filterMap_cons, Function.comp, kvParseLine_line p (hl p (by simp))]
        rw [ih (fun q hq => hl q (List.mem_cons_of_mem _ hq))]
    exact this _ (fun p hp => h p (List.mem_filter.mp hp).1)
  · intro l hl
    rcases List.mem_append.mp hl with hl | hl
    · simp only [List.mem_cons, List.mem_nil_iff, or_false] at hl; subst hl; decide
    · obtain ⟨p, hp, rfl⟩ := List.mem_map.mp hl
      have w := h p (List.mem_filter.mp hp).1
      intro hm
      simp only [List.mem_append] at hm
      rcases hm with (h1 | h1) | h1
      · exact (w.key_plain _ h1).2 rfl
      · revert h1; decide
      · exact w.val_no_nl h1

/-- known finding C02/C15-arch-pkgver-prerelease, as a kernel-checked witness: what archlinux writes
    differs from what the configuration states -/
theorem arch_pkgver_drops_prerelease_witness :
    archPkgver { version := b!"1.0.0", prerelease := b!"rc1", release := [49] }
      ≠ archPkgverSpec { version := b!"1.0.0", prerelease := b!"rc1", release := [49] } := by decide

/-- known finding C02-dot-line-in-description: the excluded point of `WfField.conts_not_dot` is real –
    a continuation line that is exactly "." is rendered as the blank-line marker and reads back as blank -/
theorem dot_line_reads_back_blank_witness :
    parseControl (renderControl [ { key := b!"Description", first := b!"synopsis", conts := [[dot], b!"end"] } ])
      = [ { key := b!"Description", first := b!"synopsis", conts := [[], b!"end"] } ] := by decide

/-- non-vacuity: a deb control file with relations, a multi-line description with a blank line and a
    custom field round-trips through the parser -/
example :
    parseControl (renderControl
      [ { key := b!"Package", first := b!"foo" }, { key := b!"Depends", first := b!"bash, libc6 (>= 2.30)" },
        { key := b!"Description", first := b!"synopsis", conts := [b!"line two", [], b!"after blank"] },
        { key := b!"Vcs-Git", first := b!"git://x" } ])
    = [ { key := b!"Package", first := b!"foo" }, { key := b!"Depends", first := b!"bash, libc6 (>= 2.30)" },
        { key := b!"Description", first := b!"synopsis", conts := [b!"line two", [], b!"after blank"] },
        { key := b!"Vcs-Git", first := b!"git://x" } ] := by decide

/-! ### rpm: relations in the header -/

/-- **rpm: a relation survives the trip through rpmpack's parser**: `name`, `name op version` with op one of
    <, >, =, <=, >= parse to exactly that name, that version and the sense bits of that operator -/
theorem rpm_relation_roundtrip (r : RpmRel.Rel) (w : RpmRel.WfRel r) : RpmRel.parse (RpmRel.render r) = some r :=
  RpmRel.parse_render r w

/-- **rpm: every configured relation, once, in the configured order**: a list of well-formed relations is accepted; what
    is kept is a sub-list of the configured list (order preserved, nothing invented), without repetitions, and contains
    every configured relation -/
theorem rpm_relations_complete_in_order (rs : List RpmRel.Rel) (h : ∀ r ∈ rs, RpmRel.WfRel r) :
    ∃ kept, RpmRel.toRelations (rs.map RpmRel.render) [] = some kept ∧ kept.Sublist rs ∧ kept.Nodup ∧ ∀ r ∈ rs, r ∈ kept := by
  obtain ⟨t, hsub, heq, hall⟩ := RpmRel.foldl_addIfMissing_spec rs []
  refine ⟨rs.foldl RpmRel.addIfMissing [], RpmRel.toRelations_render rs [] h, ?_, RpmRel.foldl_addIfMissing_nodup rs [] List.nodup_nil, ?_⟩
  · rw [heq]; simpa using hsub
  · rw [heq]; exact hall

/-- **rpm: a category of relations reads back from the header** – names, versions and sense flags as three columns
    under the category's own tags; a category without relations has no entries at all -/
theorem rpm_relations_read_back (nameTag verTag flagTag : Nat) (rs : List RpmRel.Rel) (hdr : List RpmHdr.Entry)
    (ok : RpmRel.RelsOK rs)
    (hnone : rs = [] → RpmFiles.lookupTag nameTag hdr = none ∧ RpmFiles.lookupTag verTag hdr = none ∧ RpmFiles.lookupTag flagTag hdr = none)
    (hsome : ∀ e ∈ RpmRel.relEntries nameTag verTag flagTag rs, RpmFiles.lookupTag e.tag hdr = some e) :
    RpmRel.readRels nameTag verTag flagTag hdr = some rs :=
  RpmRel.readRels_relEntries nameTag verTag flagTag rs hdr ok hnone hsome

/-- the package provides itself: `name = version-release` is among the provides whatever is configured -/
theorem rpm_self_provide (n v : Bytes) (p d rc rp s c : List Bytes) (cs : RpmRel.Cats)
    (h : RpmRel.cats n v p d rc rp s c = some cs) : { name := n, version := v, sense := 8 } ∈ cs.provides := by
  unfold RpmRel.cats at h
  split at h
  · simp only [Option.some.injEq] at h
    subst h
    simp only [RpmRel.addIfMissing]
    split
    · assumption
    · simp
  · cases h

/-- the spellings rpmpack understands, and two it does not (kernel-evaluated): an operator run that is not in the table
    fails the packaging; a Debian-style `name (op version)` is taken as a name with the parenthesised text as version and
    no comparison -/
example :
    RpmRel.parse (b!"libfoo >= 1.2-3") = some { name := b!"libfoo", version := b!"1.2-3", sense := 12 }
    ∧ RpmRel.parse (b!"libfoo<2") = some { name := b!"libfoo", version := b!"2", sense := 2 }
    ∧ RpmRel.parse (b!"libfoo") = some { name := b!"libfoo" }
    ∧ RpmRel.parse (b!"(libfoo or libbar)") = some { name := b!"(libfoo or libbar)" }
    ∧ RpmRel.parse (b!"libfoo == 1") = none ∧ RpmRel.parse (b!"libfoo =< 1") = none
    ∧ RpmRel.parse (b!"libfoo (>= 1.2)") = some { name := b!"libfoo", version := b!"(>= 1.2)", sense := 0 } := by
  decide +kernel

/-- non-vacuity: a relation with a constraint meets `WfRel` -/
example : RpmRel.WfRel { name := b!"libfoo", version := b!"1.2-3", sense := 12 } :=
  { name_chars := by decide, name_head := by decide, sense := by decide, bare := by decide,
    version_head := by intro c h; cases h; decide, version_line := by decide }


/-- the translator regenerated, on this run and from the working tree, every table this property is tied through
    (when an extraction fails the reviewed table stands in so that the model still compiles, and this stops checking) -/
theorem translator_tables_regenerated : Generated.extracted_G11Templates = true ∧ Generated.extracted_G1Arch = true := by decide

/-! ### archlinux pkgrel: a release written as a number is carried, 0 included -/
section ArchRelease
open Nfpm.Ar

theorem natToDec_head_not_sign (n : Nat) : ∀ c rest, natToDec n = c :: rest → c ≠ minus ∧ c ≠ plus := by
  intro c rest h
  have hc := (natToDec_digits n c (by rw [h]; simp)).1
  constructor <;> (intro e; subst e; revert hc; decide)

theorem natToDec_all_isDigit (n : Nat) : (natToDec n).all isDigit = true := by
  rw [List.all_eq_true]
  intro c hc
  have := (natToDec_digits n c hc).1
  simpa [isDigit, isDigitB] using this

/-- **a release written as a number is the pkgrel archlinux states – 0 included** (strconv.Atoi ∘ %d) -/
theorem atoi_natToDec (n : Nat) (h : n < 2 ^ 63) : atoi (natToDec n) = some (n : Int) := by
  have hne := natToDec_ne_nil n
  have hdig := natToDec_all_isDigit n
  have hval : (natToDec n).foldl (fun (acc : Nat) (c : UInt8) => acc * 10 + (c.toNat - 48)) 0 = n := by
    have := decVal_natToDec n
    simpa [decVal] using this
  unfold atoi
  cases hd : natToDec n with
  | nil => exact absurd hd hne
  | cons c rest =>
    obtain ⟨h1, h2⟩ := natToDec_head_not_sign n c rest hd
    rw [hd] at hdig hval
    simp only [if_neg h1, if_neg h2]
    simp [hdig, hval, h]

theorem archPkgrel_of_number (i : VInfo) (n : Nat) (h : n < 2 ^ 63) (hr : i.release = natToDec n) :
    archPkgrel i = n := by
  unfold archPkgrel
  rw [hr, atoi_natToDec n h]; rfl

example : archPkgrel { release := b!"0" } = 0 ∧ archPkgrel { release := b!"x" } = 1 ∧ archPkgrel { release := [] } = 1 := by
  decide
end ArchRelease

end Nfpm.Props.C02
