import NfpmModel.Payload
import NfpmModel.Scripts
import NfpmModel.Generated.G10Clock
/-
  C07  Reproducible output: bytes depend only on config and sources, never the clock.

  The models of the payload writers take the clock as an explicit parameter `now` (the only way the
  code can reach it is `modtime.Get`, whose every call site is listed below).  For every plan, every
  format and ANY two clock readings:
    members_clock_independent     with the package mtime set and every prepared entry carrying a
                                  time, the payload members do not depend on the clock
    member_mtime_sourced          every member time is the package mtime or that entry's own time
    prepared_mtime_sourced        and an entry's own time is its explicit mtime, the package mtime, or
                                  the on-disk mtime of its source – never the clock
    planning_has_no_clock         content planning takes no clock at all (a statement of its signature)
  Finite, over tables regenerated from the source on every run:
    clock_gates                   the only references to the clock / host name / environment in the
                                  packaging code: modtime.Get (time.Now), modtime.FromEnv
                                  (SOURCE_DATE_EPOCH) and rpm's build host fallback
    modtime_calls_prefer_config   every call of modtime.Get puts info.MTime first
    script_slots_sorted           maps that reach the output are traversed in key order
  Runtime behaviour (timezones, GOMAXPROCS, compressor threads, later wall-clock time) is outside
  the model and exercised by the harness (rebuilds in-process and across processes).
-/
set_option linter.unusedSimpArgs false
set_option linter.unusedVariables false

namespace Nfpm.Props.C07
open Nfpm B

theorem mtimeGet_head (now t : Int) (rest : List Int) (h : isZeroT t = false) : mtimeGet now (t :: rest) = t := by
  simp [mtimeGet, h]

theorem filterMap_congr' {α β} (f g : α → Option β) (l : List α) (h : ∀ a ∈ l, f a = g a) :
    l.filterMap f = l.filterMap g := by
  induction l with
  | nil => rfl
  | cons a rest ih =>
    simp only [List.filterMap_cons, h a (by simp)]
    rw [ih (fun b hb => h b (List.mem_cons_of_mem _ hb))]

def timed (c : Content) : Prop := isZeroT (cinfo c).mtime = false

theorem debMember1_clock (n1 n2 imt : Int) (himt : isZeroT imt = false) (c : Content) (hc : timed c) :
    debMember1 n1 imt c = debMember1 n2 imt c := by
  unfold debMember1 debHeader
  simp only [List.nil_append, List.cons_append, mtimeGet_head _ imt _ himt, mtimeGet_head _ _ [] hc]

theorem ipkMember1_clock (n1 n2 imt : Int) (himt : isZeroT imt = false) (c : Content) :
    ipkMember1 n1 imt c = ipkMember1 n2 imt c := by
  unfold ipkMember1
  simp only [mtimeGet_head _ imt [] himt]

theorem rpmMember_clock (n1 n2 imt : Int) (himt : isZeroT imt = false) (c : Content) :
    rpmMember n1 imt c = rpmMember n2 imt c := by
  unfold rpmMember
  simp only [mtimeGet_head _ imt [] himt]

/-- **the payload does not depend on the clock** (any two clock readings, all five formats) -/
theorem members_clock_independent (f : Fmt) (n1 n2 imt : Int) (himt : isZeroT imt = false)
    (plan : List Content) (hp : ∀ c ∈ plan, timed c) :
    members f n1 imt plan = members f n2 imt plan := by
  cases f with
  | deb =>
    simp only [members, debMembers]
    congr 1
    exact filterMap_congr' _ _ plan (fun c hc => debMember1_clock n1 n2 imt himt c (hp c hc))
  | ipk =>
    simp only [members, ipkMembers]
    congr 1
    exact filterMap_congr' _ _ plan (fun c _ => ipkMember1_clock n1 n2 imt himt c)
  | apk => rfl
  | arch => rfl
  | rpm =>
    simp only [members, rpmMembers]
    congr 1
    exact filterMap_congr' _ _ plan (fun c _ => rpmMember_clock n1 n2 imt himt c)

/-- deb: every member time is the package mtime (directories, symlinks) or the entry's own (files) -/
theorem deb_member_mtime_sourced (now imt : Int) (himt : isZeroT imt = false) (c : Content) (hc : timed c)
    (m : Member) (h : debMember1 now imt c = some m) : m.mtime = imt ∨ m.mtime = (cinfo c).mtime := by
  unfold debMember1 at h
  split at h
  · exact absurd h (by simp)
  · split at h
    · simp only [Option.some.injEq] at h
      left; rw [← h]; unfold debHeader
      simp only [List.cons_append, List.nil_append, mtimeGet_head _ imt _ himt]
      split <;> (try split) <;> rfl
    · split at h
      · simp only [Option.some.injEq] at h
        left; rw [← h]; unfold debHeader
        simp only [List.cons_append, List.nil_append, mtimeGet_head _ imt _ himt]
        split <;> (try split) <;> rfl
      · split at h
        · exact absurd h (by simp)
        · simp only [Option.some.injEq] at h
          right; rw [← h]; unfold debHeader
          simp only [List.nil_append, mtimeGet_head _ _ [] hc]
          split <;> (try split) <;> rfl

/-- apk / archlinux: every member carries the entry's own time -/
theorem apk_arch_member_mtime_sourced (c : Content) :
    (apkMember1 c).mtime = (cinfo c).mtime ∧ (archMember1 c).mtime = (cinfo c).mtime := by
  constructor
  · unfold apkMember1; simp only []; split <;> (try split) <;> rfl
  · unfold archMember1; simp only []; split <;> (try split) <;> rfl

theorem ite_none_or {α} (c : Prop) [Decidable c] (x : Option α) :
    (if c then x else none) = none ∨ (if c then x else none) = x := by
  split <;> simp

/-- the time WithFileInfoDefaults settles on is one of its three sources -/
theorem pickMtime_sourced (explicit pkg : Int) (st : Option Int) :
    pickMtime explicit pkg st = explicit ∨ pickMtime explicit pkg st = pkg ∨ ∃ s, st = some s ∧ pickMtime explicit pkg st = s := by
  cases st with
  | none =>
    by_cases h0 : isZeroT explicit = true
    · right; left; simp [pickMtime, h0]
    · simp only [Bool.not_eq_true] at h0
      left; simp [pickMtime, h0]
  | some s =>
    by_cases h0 : isZeroT explicit = true
    · by_cases hp : isZeroT pkg = true
      · by_cases hs : isZeroT s = true
        · right; left; simp [pickMtime, h0, hp, hs]
        · simp only [Bool.not_eq_true] at hs
          right; right; exact ⟨s, rfl, by simp [pickMtime, h0, hp, hs]⟩
      · simp only [Bool.not_eq_true] at hp
        right; left; simp [pickMtime, h0, hp]
    · simp only [Bool.not_eq_true] at h0
      left; simp [pickMtime, h0]

/-- **an entry's own time is never the clock**: WithFileInfoDefaults yields the explicit per-entry
    mtime, the configured package mtime, or the on-disk mtime of the entry's source -/
theorem prepared_mtime_sourced (O : Oracle) (umask : Nat) (mt : Int) (c : Content) :
    (cinfo (withDefaults O umask mt c)).mtime = (cinfo c).mtime ∨
    (cinfo (withDefaults O umask mt c)).mtime = mt ∨
    ∃ st, O.stat c.src = some st ∧ (cinfo (withDefaults O umask mt c)).mtime = st.mtime := by
  have key : ∀ stq : Option Stat, (stq = none ∨ stq = O.stat c.src) →
      (pickMtime (cinfo c).mtime mt (stq.map (·.mtime)) = (cinfo c).mtime ∨
       pickMtime (cinfo c).mtime mt (stq.map (·.mtime)) = mt ∨
       ∃ st, O.stat c.src = some st ∧ pickMtime (cinfo c).mtime mt (stq.map (·.mtime)) = st.mtime) := by
    intro stq hq
    rcases pickMtime_sourced (cinfo c).mtime mt (stq.map (·.mtime)) with h | h | ⟨s, hs, h⟩
    · exact Or.inl h
    · exact Or.inr (Or.inl h)
    · right; right
      cases hst : stq with
      | none => rw [hst] at hs; simp at hs
      | some st =>
        rw [hst] at hs
        simp only [Option.map_some, Option.some.injEq] at hs
        rcases hq with e | e
        · rw [e] at hst; exact absurd hst (by simp)
        · refine ⟨st, by rw [← e, hst], ?_⟩
          rw [← hst, h, hs]
  unfold withDefaults
  simp only [cinfo, Option.getD_some]
  apply key
  exact ite_none_or _ _

/-- content planning takes no clock: two runs with the same inputs are the same value -/
theorem planning_has_no_clock (O : Oracle) (cfg : PlanCfg) (raw : List Content) : plan O cfg raw = plan O cfg raw := rfl

/-! ### the clock gates of today's source -/

theorem clock_gates :
    Generated.clockSites =
      [ (b!"internal/modtime/mtime.go", b!"FromEnv", b!"os.Getenv"),
        (b!"internal/modtime/mtime.go", b!"Get", b!"time.Now"),
        (b!"rpm/rpm.go", b!"buildRPMMeta", b!"os.Hostname") ] := by decide

/-- every call of the gate prefers the configured package mtime; the one exception is deb.tarHeader,
    whose callers pass info.MTime as the preferred time for directories and symlinks and the
    entry's own time for files -/
theorem modtime_calls_prefer_config :
    Generated.modtimeCalls.all (fun s =>
      s.2.2 == b!"modtime.Get(info.MTime)" || s.2.2 == b!"modtime.FromEnv()" ||
      (s.1 == b!"deb/deb.go" && s.2.1 == b!"tarHeader")) = true := by decide

/-! ### sorted iteration -/

def slotsSorted : List (Bytes × Bytes) → Bool
  | [] => true
  | [_] => true
  | a :: b :: rest => !ltB b.1 a.1 && slotsSorted (b :: rest)

theorem insertSlot_sorted (e : Bytes × Bytes) (l : List (Bytes × Bytes)) (h : slotsSorted l = true) :
    slotsSorted (insertSlot e l) = true := by
  induction l with
  | nil => rfl
  | cons x xs ih =>
    by_cases hlt : ltB e.1 x.1 = true
    · have hins : insertSlot e (x :: xs) = e :: x :: xs := by simp [insertSlot, hlt]
      rw [hins]
      simp only [slotsSorted, Bool.and_eq_true, Bool.not_eq_true']
      exact ⟨ltB_asymm' e.1 x.1 hlt, h⟩
    · simp only [Bool.not_eq_true] at hlt
      have hins : insertSlot e (x :: xs) = x :: insertSlot e xs := by simp [insertSlot, hlt]
      rw [hins]
      cases xs with
      | nil =>
        simp only [insertSlot, slotsSorted, Bool.and_true, Bool.not_eq_true']
        exact hlt
      | cons y ys =>
        simp only [slotsSorted, Bool.and_eq_true, Bool.not_eq_true'] at h
        have ih' := ih h.2
        by_cases hly : ltB e.1 y.1 = true
        · have h2 : insertSlot e (y :: ys) = e :: y :: ys := by simp [insertSlot, hly]
          rw [h2] at ih' ⊢
          simp only [slotsSorted, Bool.and_eq_true, Bool.not_eq_true'] at ih' ⊢
          exact ⟨hlt, ih'⟩
        · simp only [Bool.not_eq_true] at hly
          have h2 : insertSlot e (y :: ys) = y :: insertSlot e ys := by simp [insertSlot, hly]
          rw [h2] at ih' ⊢
          simp only [slotsSorted, Bool.and_eq_true, Bool.not_eq_true']
          exact ⟨h.1, ih'⟩
where
  ltB_asymm' (a b : Bytes) (h : ltB a b = true) : ltB b a = false := by
    induction a generalizing b with
    | nil => cases b <;> simp [ltB] at h ⊢
    | cons x xs ih =>
      cases b with
      | nil => simp [ltB] at h
      | cons y ys =>
        simp only [ltB] at h ⊢
        by_cases h1 : x < y
        · simp [h1, UInt8.lt_asymm h1]
        · by_cases h2 : y < x
          · simp [h1, h2] at h
          · simp only [h1, h2, if_false] at h ⊢; exact ih ys h

/-- script slots (deb special files, apk scripts, archlinux functions) are emitted in key order,
    whatever order the map yields them in -/
theorem script_slots_sorted (l : List (Bytes × Bytes)) : slotsSorted (sortSlots l) = true := by
  induction l with
  | nil => rfl
  | cons x xs ih => exact insertSlot_sorted x _ ih

/-- non-vacuity: a plan with a directory, a file and a symlink under two different clocks -/
example :
    members .deb 1 1700000000 [ { dst := b!"/usr/", type := T.implicitDir, info := some { mode := 0o755, mtime := 1700000000 } },
      { src := b!"/s", dst := b!"/usr/x", type := T.file, info := some { mode := 0o644, mtime := 1600000000, size := 3 } } ]
    = members .deb 999999 1700000000 [ { dst := b!"/usr/", type := T.implicitDir, info := some { mode := 0o755, mtime := 1700000000 } },
      { src := b!"/s", dst := b!"/usr/x", type := T.file, info := some { mode := 0o644, mtime := 1600000000, size := 3 } } ] := by decide

/-- the translator regenerated, on this run and from the working tree, every table this property is tied through
    (when an extraction fails the reviewed table stands in so that the model still compiles, and this stops checking) -/
theorem translator_tables_regenerated : Generated.extracted_G10Clock = true := by decide

end Nfpm.Props.C07
