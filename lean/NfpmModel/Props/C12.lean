import NfpmModel.Props.C11
import NfpmModel.Generated.G13InPlace
/-
  C12  Concurrent packaging is race-free and equals sequential packaging.

  Threads are sequences of operations over the shared store of `Own.lean`.  For ANY interleaving
  of two threads whose operations are `Local` (write only their own memory, read only shared and
  own memory):
    no_conflicting_access          no operation of one thread writes a location the other thread
                                   reads or writes (the definition of "no data race" at this level)
    interleaving_outputs_sequential   every operation of a thread produces, in every interleaving,
                                   exactly the output it produces when its thread runs alone
    interleaving_preserves_config     and the shared configuration is unchanged
  The per-operation locality of nfpm's packagings is the same obligation as in C11
  (`C11.source_in_place_writes` + the harness's snapshots); the remaining global state – the
  packager registry (read-only after init), deprecation.Noticer (an io.Writer) and apk's atomic
  writerCounter – is listed in DESIGN.md.  The Go memory model, the scheduler and the goroutines
  inside pgzip/zstd are not modelled: the race detector runs are the search for them.
-/
set_option linter.unusedSimpArgs false

namespace Nfpm.Props.C12
open Nfpm Nfpm.Props.C11

/-- a local operation of thread `a` never writes what thread `b ≠ a` can read or write -/
theorem no_conflicting_access (o : Op) (h : Local o) (b : Nat) (hb : o.tid ≠ b) (s : Store) (l : Loc)
    (hl : l.visibleTo b = true) : o.step s l = s l := by
  apply h.writesOwn
  cases l with
  | shared n => exact Or.inr rfl
  | own t n =>
    left
    simp only [Loc.visibleTo, beq_iff_eq] at hl ⊢
    subst hl
    simp [Ne.symm hb]

/-- the store as thread `t` sees it is the same in the interleaving and when `t` runs alone -/
theorem interleave_agrees (t u : Nat) (htu : t ≠ u) (as bs cs : List Op) (hi : Interleave as bs cs)
    (ha : ∀ o ∈ as, Local o ∧ o.tid = t) (hb : ∀ o ∈ bs, Local o ∧ o.tid = u)
    (s s' : Store) (hs : agreesFor t s s') :
    outputsOf t cs s = outputsOf t as s' ∧ agreesFor t (finalStore cs s) (finalStore as s') := by
  induction hi generalizing s s' with
  | nil => exact ⟨rfl, hs⟩
  | left a _ ih =>
    obtain ⟨hal, hat⟩ := ha a (by simp)
    have hrv := hal.readsVisible s s' (by rw [hat]; exact hs)
    simp only [outputsOf, finalStore, hat, if_true]
    have hs2 : agreesFor t (a.step s) (a.step s') := by
      intro l hl
      exact hrv.2 l (by rw [hat]; exact hl)
    obtain ⟨h1, h2⟩ := ih (fun o ho => ha o (List.mem_cons_of_mem _ ho)) hb (a.step s) (a.step s') hs2
    rw [hrv.1, h1]
    exact ⟨rfl, h2⟩
  | right b _ ih =>
    obtain ⟨hbl, hbt⟩ := hb b (by simp)
    have hne : b.tid ≠ t := by rw [hbt]; exact Ne.symm htu
    simp only [outputsOf, finalStore, hne, if_false, List.nil_append]
    have hs2 : agreesFor t (b.step s) s' := other_step_keeps_agreement b hbl t hne s s' hs
    exact ih ha (fun o ho => hb o (List.mem_cons_of_mem _ ho)) (b.step s) s' hs2

/-- **every interleaving gives each thread the outputs of its sequential run** -/
theorem interleaving_outputs_sequential (t u : Nat) (htu : t ≠ u) (as bs cs : List Op) (hi : Interleave as bs cs)
    (ha : ∀ o ∈ as, Local o ∧ o.tid = t) (hb : ∀ o ∈ bs, Local o ∧ o.tid = u) (s : Store) :
    outputsOf t cs s = outputsOf t as s :=
  (interleave_agrees t u htu as bs cs hi ha hb s s (fun _ _ => rfl)).1

theorem interleave_symm {as bs cs : List Op} (h : Interleave as bs cs) : Interleave bs as cs := by
  induction h with
  | nil => exact .nil
  | left a _ ih => exact .right a ih
  | right b _ ih => exact .left b ih

/-- … for both threads -/
theorem interleaving_outputs_sequential_both (t u : Nat) (htu : t ≠ u) (as bs cs : List Op) (hi : Interleave as bs cs)
    (ha : ∀ o ∈ as, Local o ∧ o.tid = t) (hb : ∀ o ∈ bs, Local o ∧ o.tid = u) (s : Store) :
    outputsOf t cs s = outputsOf t as s ∧ outputsOf u cs s = outputsOf u bs s :=
  ⟨interleaving_outputs_sequential t u htu as bs cs hi ha hb s,
   interleaving_outputs_sequential u t (Ne.symm htu) bs as cs (interleave_symm hi) hb ha s⟩

theorem finalStore_shared (ops : List Op) (h : ∀ o ∈ ops, Local o) (s : Store) (n : Nat) :
    finalStore ops s (.shared n) = s (.shared n) := by
  induction ops generalizing s with
  | nil => rfl
  | cons o rest ih =>
    simp only [finalStore]
    rw [ih (fun x hx => h x (List.mem_cons_of_mem _ hx)) (o.step s)]
    exact step_preserves_shared o (h o (by simp)) s n

theorem interleave_mem {as bs cs : List Op} (h : Interleave as bs cs) : ∀ o ∈ cs, o ∈ as ∨ o ∈ bs := by
  induction h with
  | nil => intro o ho; simp at ho
  | left a _ ih =>
    intro o ho
    rcases List.mem_cons.mp ho with e | e
    · left; rw [e]; simp
    · rcases ih o e with h | h
      · left; exact List.mem_cons_of_mem _ h
      · right; exact h
  | right b _ ih =>
    intro o ho
    rcases List.mem_cons.mp ho with e | e
    · right; rw [e]; simp
    · rcases ih o e with h | h
      · left; exact h
      · right; exact List.mem_cons_of_mem _ h

/-- the shared configuration is unchanged by any interleaving -/
theorem interleaving_preserves_config (as bs cs : List Op) (hi : Interleave as bs cs)
    (ha : ∀ o ∈ as, Local o) (hb : ∀ o ∈ bs, Local o) (s : Store) (n : Nat) :
    finalStore cs s (.shared n) = s (.shared n) :=
  finalStore_shared cs (fun o ho => by
    rcases interleave_mem hi o ho with h | h
    · exact ha o h
    · exact hb o h) s n

/-- the translator regenerated, on this run and from the working tree, every table this property is tied through
    (when an extraction fails the reviewed table stands in so that the model still compiles, and this stops checking) -/
theorem translator_tables_regenerated : Generated.extracted_G13InPlace = true := by decide

end Nfpm.Props.C12
