import NfpmModel.Spec.ScriptSpec
import NfpmModel.Generated.G2Scripts
import NfpmModel.Lemmas.DebControlLemmas
import NfpmModel.Lemmas.ApkControlLemmas
import NfpmModel.Lemmas.PackageLemmas
/-
  C09  Maintainer scripts land verbatim in the slot their lifecycle event runs.

  The slot tables are regenerated from the source on every run (Generated.G2Scripts)
  and compared by the kernel with the documented wiring (`Spec.wiring`):
    source_wiring_deb/ipk/apk/arch/rpm    translator tie (finite, `decide`)
    wiring_injective                      no slot has two events, no event two slots
  For every set of configured scripts and arbitrary script bytes (no bound):
    slots_eq_expected         deb/ipk/apk/archlinux populate exactly the expected slots, verbatim
    rpm_slots_eq_expected_partial   same for rpm when no script is empty or contains NUL
    slot_iff_configured       a slot is populated iff its event's script is configured
    slot_body_verbatim        and then holds that script's bytes
    archInstall_cons          .INSTALL is the concatenation of one function per populated slot
  Format limits (known findings): rpm drops an empty scriptlet and cuts a scriptlet at NUL.
-/
set_option linter.unusedSimpArgs false

namespace Nfpm.Props.C09
open Nfpm B Spec

theorem source_wiring_deb : Generated.scripts_deb = wiring .deb := by decide
theorem source_wiring_ipk : Generated.scripts_ipk = wiring .ipk := by decide
theorem source_wiring_apk : Generated.scripts_apk = wiring .apk := by decide
theorem source_wiring_arch : Generated.scripts_arch = wiring .arch := by decide

/-- rpm: selector ↦ rpmpack.AddX ↦ header tag is the documented event ↦ tag table -/
theorem source_wiring_rpm :
    sortSlots (Generated.scripts_rpm.filterMap (fun (add, sel, _) => (rpmTagOf add).map (fun t => (t, sel))))
      = (wiring .rpm).map (fun (slot, sel, _) => (slot, sel)) := by decide

def distinct (l : List Bytes) : Bool := l.eraseDups.length == l.length

/-- no slot is fed by two events and no event feeds two slots, in every format -/
theorem wiring_injective :
    ∀ f : Fmt, distinct ((wiring f).map (·.1)) = true ∧ distinct ((wiring f).map (·.2.1)) = true := by
  intro f; cases f <;> decide

theorem mem_insertSlot (e x : Bytes × Bytes) (l : List (Bytes × Bytes)) : x ∈ insertSlot e l ↔ x = e ∨ x ∈ l := by
  induction l with
  | nil => simp [insertSlot]
  | cons y ys ih =>
    unfold insertSlot
    split
    · simp
    · simp only [List.mem_cons, ih]
      constructor
      · rintro (h | h | h)
        · exact Or.inr (Or.inl h)
        · exact Or.inl h
        · exact Or.inr (Or.inr h)
      · rintro (h | h | h)
        · exact Or.inr (Or.inl h)
        · exact Or.inl h
        · exact Or.inr (Or.inr h)

theorem mem_sortSlots (x : Bytes × Bytes) (l : List (Bytes × Bytes)) : x ∈ sortSlots l ↔ x ∈ l := by
  induction l with
  | nil => simp [sortSlots]
  | cons y ys ih =>
    have : sortSlots (y :: ys) = insertSlot y (sortSlots ys) := rfl
    rw [this, mem_insertSlot, ih]; simp

/-- **deb, ipk, apk, archlinux**: for every configuration of scripts (any bytes), the slots the
    packager populates are exactly the documented ones with the script bytes verbatim -/
theorem slots_eq_expected (f : Fmt) (hf : f ≠ .rpm) (c : Configured) :
    scriptSlots f c = expectedSlots f c := by
  cases f with
  | rpm => exact absurd rfl hf
  | deb => simp only [scriptSlots, populate, expectedSlots, tableOf, source_wiring_deb]
  | ipk => simp only [scriptSlots, populate, expectedSlots, tableOf, source_wiring_ipk]
  | apk => simp only [scriptSlots, populate, expectedSlots, tableOf, source_wiring_apk]
  | arch => simp only [scriptSlots, populate, expectedSlots, tableOf, source_wiring_arch]

theorem untilNul_id (b : Bytes) (h : (0 : UInt8) ∉ b) : untilNul b = b := by
  induction b with
  | nil => rfl
  | cons x xs ih =>
    simp only [List.mem_cons, not_or] at h
    have hx : ¬ x = 0 := fun e => h.1 e.symm
    simp [untilNul, hx, ih h.2]

/-- the rpm table, resolved to tags (kernel-computed from the generated table) -/
def rpmResolved : List (Bytes × Bytes) :=
  Generated.scripts_rpm.filterMap (fun (add, sel, _) => (rpmTagOf add).map (fun t => (t, sel)))

/-- **rpm** (`_partial`: scripts that are non-empty and NUL-free – rpm string tags cannot hold
    anything else): the scriptlet tags populated are exactly the documented ones, verbatim.
    Stated per slot: membership in the populated set. -/
theorem rpm_slots_eq_expected_partial (c : Configured) (hc : ∀ p ∈ c, (0 : UInt8) ∉ p.2 ∧ p.2 ≠ [])
    (slot body : Bytes) :
    (slot, body) ∈ scriptSlots .rpm c ↔
      ∃ add sel, (add, sel, 0) ∈ Generated.scripts_rpm ∧ rpmTagOf add = some slot ∧ c.get sel = some body := by
  have hget : ∀ sel b, c.get sel = some b → (0 : UInt8) ∉ b ∧ b ≠ [] := by
    intro sel b h
    unfold Configured.get at h
    cases hf : c.find? (·.1 == sel) with
    | none => rw [hf] at h; simp at h
    | some p =>
      rw [hf] at h; simp at h; subst h
      exact hc p (List.mem_of_find?_eq_some hf)
  simp only [scriptSlots, tableOf, mem_sortSlots, List.mem_filterMap]
  constructor
  · rintro ⟨⟨add, sel, m⟩, hmem, h⟩
    simp only [] at h
    cases ht : rpmTagOf add with
    | none => rw [ht] at h; simp at h
    | some tag =>
      cases hg : c.get sel with
      | none => rw [ht, hg] at h; simp at h
      | some b =>
        rw [ht, hg] at h
        obtain ⟨hn, hne⟩ := hget sel b hg
        simp only [untilNul_id b hn, hne, if_false, Option.some.injEq, Prod.mk.injEq] at h
        obtain ⟨e1, e2⟩ := h
        subst e1; subst e2
        have hm0 : m = 0 := by
          have : ∀ q ∈ Generated.scripts_rpm, q.2.2 = 0 := by decide
          exact this _ hmem
        subst hm0
        exact ⟨add, sel, hmem, ht, hg⟩
  · rintro ⟨add, sel, hmem, ht, hg⟩
    refine ⟨(add, sel, 0), hmem, ?_⟩
    obtain ⟨hn, hne⟩ := hget sel body hg
    simp [ht, hg, untilNul_id body hn, hne]

/-- a slot is populated iff the script of its event is configured … -/
theorem slot_iff_configured (f : Fmt) (c : Configured) (slot : Bytes) :
    slot ∈ (expectedSlots f c).map (·.1) ↔
      ∃ sel mode body, (slot, sel, mode) ∈ wiring f ∧ c.get sel = some body := by
  simp only [expectedSlots, List.mem_map, mem_sortSlots, List.mem_filterMap]
  constructor
  · rintro ⟨⟨s, b⟩, ⟨⟨s', sel, m⟩, hw, h⟩, rfl⟩
    cases hg : c.get sel with
    | none => simp [hg] at h
    | some body =>
      simp [hg] at h
      exact ⟨sel, m, body, by rw [← h.1]; exact hw, hg⟩
  · rintro ⟨sel, m, body, hw, hg⟩
    exact ⟨(slot, body), ⟨(slot, sel, m), hw, by simp [hg]⟩, rfl⟩

/-- … and then carries that script's bytes, and no other event's -/
theorem slot_body_verbatim (f : Fmt) (c : Configured) (slot body : Bytes)
    (h : (slot, body) ∈ expectedSlots f c) :
    ∃ sel mode, (slot, sel, mode) ∈ wiring f ∧ c.get sel = some body := by
  simp only [expectedSlots, mem_sortSlots, List.mem_filterMap] at h
  obtain ⟨⟨s', sel, m⟩, hw, h⟩ := h
  cases hg : c.get sel with
  | none => simp [hg] at h
  | some b =>
    simp [hg] at h
    exact ⟨sel, m, by rw [← h.1]; exact hw, by rw [← h.2]; exact hg⟩

/-- archlinux .INSTALL: one shell function per populated slot, body verbatim between the braces -/
theorem archInstall_cons (name body : Bytes) (rest : List (Bytes × Bytes)) :
    archInstall ((name, body) :: rest)
      = b!"function " ++ name ++ b!"() {\n" ++ body ++ b!"\n}\n\n" ++ archInstall rest := by
  simp [archInstall]

theorem archInstall_nil : archInstall [] = [] := rfl

/-- modes: every deb/ipk/apk script member is 0755, deb `templates` 0644 -/
theorem script_modes :
    (wiring .deb).map (·.2.2) = [0o755, 0o755, 0o755, 0o755, 0o755, 0o755, 0o644] ∧
    (∀ e ∈ wiring .ipk, e.2.2 = 0o755) ∧ (∀ e ∈ wiring .apk, e.2.2 = 0o755) := by decide

/-- non-vacuity + witnesses of the rpm format limits (known findings C09-rpm-empty-script, C09-rpm-nul) -/
example : scriptSlots .deb [(b!"Scripts.PreInstall", b!"#!/bin/sh\n"), (b!"Deb.Scripts.Templates", [0, 255, 10])]
    = [(b!"preinst", b!"#!/bin/sh\n"), (b!"templates", [0, 255, 10])] := by decide
example : scriptSlots .rpm [(b!"Scripts.PreInstall", [])] = [] := by decide
example : scriptSlots .rpm [(b!"Scripts.PostRemove", [97, 0, 98])] = [(b!"1026", [97])] := by decide

/-! ### deb: the scripts inside the control archive, at byte level -/

/-- **deb: the control archive reads back and every maintainer script is where dpkg looks for it**: for any control text,
    md5sums, conffiles, trigger lines and any assignment of script bodies to the seven slots, an independent tar reader
    recovers the members of the archive deb.createControl writes, and looking a slot's name up among them yields a member
    iff that script is configured – then with exactly the configured bytes, the slot's mode (0755; templates 0644) and
    the package mtime.  control, md5sums and conffiles are always present, triggers iff there is a trigger line -/
theorem deb_scripts_in_control_archive (mtime : Nat) (control md5sums conffiles triggers : Bytes) (scripts : Bytes → Option Bytes)
    (hm : mtime < 8 ^ 11) (hc : control.length < 8 ^ 11) (h5 : md5sums.length < 8 ^ 11) (hf : conffiles.length < 8 ^ 11)
    (ht : triggers.length < 8 ^ 11) (hs : ∀ n b, scripts n = some b → b.length < 8 ^ 11) :
    ∃ ms, Tar.read (Tar.archive (DebCtl.members mtime control md5sums conffiles triggers scripts)) = some ms
      ∧ DebCtl.lookup b!"control" ms = some (DebCtl.file b!"control" 0o644 mtime control)
      ∧ DebCtl.lookup b!"md5sums" ms = some (DebCtl.file b!"md5sums" 0o644 mtime md5sums)
      ∧ DebCtl.lookup b!"conffiles" ms = some (DebCtl.file b!"conffiles" 0o644 mtime conffiles)
      ∧ (triggers ≠ [] → DebCtl.lookup b!"triggers" ms = some (DebCtl.file b!"triggers" 0o644 mtime triggers))
      ∧ ∀ s ∈ DebCtl.scriptSlots, DebCtl.lookup s.1 ms = (scripts s.1).map (DebCtl.file s.1 s.2 mtime) := by
  obtain ⟨l1, l2, l3, l4, l5⟩ := DebCtl.lookup_members mtime control md5sums conffiles triggers scripts
  exact ⟨_, DebCtl.read_members mtime control md5sums conffiles triggers scripts hm hc h5 hf ht hs, l1, l2, l3, l4, l5⟩

/-- **ipk: the same for the control archive ipk.populateControlTar writes** – ./control and ./conffiles always, each
    of the four maintainer scripts under its slot name iff configured, verbatim, mode 0755, the package mtime -/
theorem ipk_scripts_in_control_archive (mtime : Nat) (control conffiles : Bytes) (scripts : Bytes → Option Bytes)
    (hm : mtime < 8 ^ 11) (hc : control.length < 8 ^ 11) (hf : conffiles.length < 8 ^ 11)
    (hs : ∀ n b, scripts n = some b → b.length < 8 ^ 11) :
    ∃ ms, Tar.read (Tar.archive (DebCtl.ipkMembers mtime control conffiles scripts)) = some ms
      ∧ DebCtl.lookup b!"control" ms = some (DebCtl.file b!"control" 0o644 mtime control)
      ∧ DebCtl.lookup b!"conffiles" ms = some (DebCtl.file b!"conffiles" 0o644 mtime conffiles)
      ∧ ∀ s ∈ DebCtl.ipkSlots, DebCtl.lookup s.1 ms = (scripts s.1).map (DebCtl.file s.1 s.2 mtime) := by
  obtain ⟨l1, l2, l3⟩ := DebCtl.lookup_ipkMembers mtime control conffiles scripts
  exact ⟨_, Tar.read_archive _ (DebCtl.ipkMembers_ok mtime control conffiles scripts hm hc hf hs), l1, l2, l3⟩

/-- **apk: the scripts inside the control segment**: the members apk.createBuilderControl writes are .PKGINFO (stamped with the package mtime) and, for
    each of the six slots, a member under the slot's name iff that script is configured – then with the configured
    bytes, mode 0755, the script file's mtime and the record APK-TOOLS.checksum.SHA1 = hash of exactly those bytes; and
    the apk file built from them (signature segment, control segment, data segment, each cut or complete as apk wants
    them) is ONE tar stream from which an independent reader recovers these very members between the signature's and the
    data's (for every hash function; `PaxOK`: the members are expressible in archive/tar's PAX rendering) -/
theorem apk_scripts_in_control_segment (sha1hex : Bytes → Bytes) (pkginfo : Bytes) (scripts : Bytes → Option (Bytes × Nat))
    (mtime : Nat) (sig : Option (List Tar.PMember)) (data : List Tar.PMember)
    (hraw : ∀ r ∈ ((sig.getD []) ++ ApkCtl.members sha1hex pkginfo scripts mtime ++ data).flatMap Tar.expand, Tar.MemberOK r)
    (hlog : ∀ m ∈ (sig.getD []) ++ ApkCtl.members sha1hex pkginfo scripts mtime ++ data, Tar.PMemberOK m) :
    Tar.paxRead (Pkg.apkStream sig (ApkCtl.members sha1hex pkginfo scripts mtime) data)
        = some ((sig.getD []) ++ ApkCtl.members sha1hex pkginfo scripts mtime ++ data)
      ∧ ApkCtl.lookup b!".PKGINFO" (ApkCtl.members sha1hex pkginfo scripts mtime) = some (ApkCtl.pkginfoMember pkginfo mtime)
      ∧ ∀ n ∈ ApkCtl.slots, ApkCtl.lookup n (ApkCtl.members sha1hex pkginfo scripts mtime)
          = (scripts n).map (fun p => ApkCtl.scriptMember sha1hex n p.1 p.2) := by
  obtain ⟨l1, l2⟩ := ApkCtl.lookup_members sha1hex pkginfo scripts mtime
  exact ⟨Pkg.apkStream_reads sig _ data hraw hlog, l1, l2⟩

/-- non-vacuity, kernel-evaluated on one instance: a control segment with .PKGINFO and a post-install script – the
    stream reads back, the slot holds the script with mode, time and checksum record, an unconfigured slot is absent -/
def exScripts : Bytes → Option (Bytes × Nat) :=
  fun n => if n = b!".post-install" then some (b!"#!/bin/sh" ++ [10], 1700000000) else none
def exMembers : List Tar.PMember := ApkCtl.members (fun _ => b!"da39a3ee") (b!"pkgname = a" ++ [10]) exScripts
set_option maxRecDepth 100000 in
example : Tar.paxRead (Pkg.apkStream none exMembers []) = some exMembers := by decide +kernel
example : (ApkCtl.lookup b!".pre-install" exMembers).isNone = true := by decide +kernel
example : (ApkCtl.lookup b!".post-install" exMembers).map (fun m => (m.hdr.mode, m.hdr.mtime, m.body))
    = some (0o755, 1700000000, b!"#!/bin/sh" ++ [10]) := by decide +kernel
example : (ApkCtl.lookup b!".post-install" exMembers).map (·.pax) = some [(b!"APK-TOOLS.checksum.SHA1", b!"da39a3ee")] := by
  decide +kernel

/-- the slot names of the byte-level archive are the documented deb slots of the wiring table (C09's `debSlots`) -/
example : DebCtl.scriptSlots.map (·.1) = [b!"config", b!"postinst", b!"postrm", b!"preinst", b!"prerm", b!"rules", b!"templates"] := by
  decide

/-- the translator regenerated, on this run and from the working tree, every table this property is tied through
    (when an extraction fails the reviewed table stands in so that the model still compiles, and this stops checking) -/
theorem translator_tables_regenerated : Generated.extracted_G2Scripts = true := by decide

end Nfpm.Props.C09
