import NfpmModel.Generated.G3Types
import NfpmModel.Generated.G5KeyTree
import NfpmModel.Generated.G6Schema
import NfpmModel.Generated.G7Accepted
/-
  C17  The published JSON schema agrees with what the parser and packagers accept.

  All quantifiers of this property range over finite tables, regenerated on every run from the
  current source (reflection of nfpm.Config, the jsonschema reflector the `jsonschema` command
  calls, the value switches of the packagers and of the linked rpmpack) and decided by the kernel:

    key_paths_agree          the key paths (with kinds) the schema allows are exactly the key paths the
                             strict parser defines – both directions
    yaml_json_names_agree    every key has the same name for yaml and json
    schema_closed            no schema object admits undeclared keys (additionalProperties: false)
    accepted_* ⊆ enum        every entry type, deb compression, deb signature method and type,
                             version schema the code accepts is allowed by the schema's enum
    rpm_compression_pattern  every algorithm rpmpack accepts, bare or with a :level, matches the
                             schema's pattern; the nfpm default "gzip:-1" does
    validates_of_accepts     general lemma: a document whose key paths the parser accepts and whose
                             enumerated values the code accepts has only schema-allowed paths and values
  The byte-identity of the published file with the command's output and the validation of generated
  configurations are correspondence checks of the harness.
-/
set_option linter.unusedSimpArgs false
set_option maxRecDepth 20000

namespace Nfpm.Props.C17
open Nfpm B

/-- the schema's key paths (and kinds) are exactly the strict parser's – "and vice versa" -/
theorem key_paths_agree : Generated.schemaPaths = Generated.parserPathsSorted := by decide

theorem yaml_json_names_agree : Generated.yamlJsonNameMismatches = [] := by decide

/-- no schema object admits undeclared keys -/
theorem schema_closed : Generated.schemaPaths.all (fun p => p.2 != b!"any") = true := by decide

def enumOf (path : Bytes) : List Bytes := ((Generated.schemaEnums.find? (·.1 == path)).map (·.2)).getD []

/-- content types: everything files.PrepareForPackager's switch accepts from a configuration
    (its internal `implicit dir` and `debian changelog` types excepted) is in the enum -/
def configurableTypes : List Bytes :=
  (Generated.prepareArms.filter (fun a => a.2 != b!"invalid")).flatMap (·.1)
    |>.filter (fun t => t != b!"implicit dir" && t != b!"debian changelog")

theorem accepted_content_types_in_enum :
    configurableTypes.all (fun t => (enumOf (b!"contents.[].type")).contains t) = true ∧
    configurableTypes.all (fun t => (enumOf (b!"overrides.{}.contents.[].type")).contains t) = true := by decide

theorem accepted_deb_compression_in_enum :
    (Generated.accepted_deb_compression.filter (· ≠ [])).all (fun v => (enumOf (b!"deb.compression")).contains v) = true := by
  decide

theorem accepted_deb_signature_in_enum :
    (b!"debsign" :: Generated.accepted_deb_signature_method_cases).all (fun v => (enumOf (b!"deb.signature.method")).contains v) = true ∧
    Generated.accepted_deb_signature_type.all (fun v => (enumOf (b!"deb.signature.type")).contains v) = true := by decide

theorem accepted_version_schema_in_enum :
    Generated.accepted_version_schema.all (fun v => (enumOf (b!"version_schema")).contains v) = true := by decide

/-- the schema's rpm compression pattern, literally -/
theorem rpm_compression_pattern_literal :
    Generated.schemaPatterns = [ (b!"overrides.{}.rpm.compression", b!"^(gzip|lzma|xz|zstd)(:.+)?$"),
                                 (b!"rpm.compression", b!"^(gzip|lzma|xz|zstd)(:.+)?$") ] := by decide

/-- matcher for exactly that pattern: one of the four algorithms, optionally ':' and a non-empty level -/
def matchesRpmPattern (v : Bytes) : Bool :=
  [b!"gzip", b!"lzma", b!"xz", b!"zstd"].any (fun a =>
    v = a || (hasPrefix v (a ++ [58]) && v.length > a.length + 1 && !(v.drop (a.length + 1)).contains 10))

/-- every algorithm the linked rpmpack accepts, bare or with a level suffix, matches – for any level -/
theorem rpm_compression_pattern (level : Bytes) (hl : level ≠ []) (hnl : level.contains 10 = false) :
    ∀ a ∈ Generated.accepted_rpm_compression_algorithms, a ≠ [] →
      matchesRpmPattern a = true ∧ matchesRpmPattern (a ++ 58 :: level) = true := by
  intro a ha hne
  have hmem : a = b!"gzip" ∨ a = b!"lzma" ∨ a = b!"xz" ∨ a = b!"zstd" := by
    have : Generated.accepted_rpm_compression_algorithms = [[], b!"gzip", b!"lzma", b!"xz", b!"zstd"] := by decide
    rw [this] at ha
    simp only [List.mem_cons, List.mem_nil_iff, or_false] at ha
    rcases ha with h | h | h | h | h
    · exact absurd h hne
    · exact Or.inl h
    · exact Or.inr (Or.inl h)
    · exact Or.inr (Or.inr (Or.inl h))
    · exact Or.inr (Or.inr (Or.inr h))
  have hlen : 0 < level.length := List.length_pos_iff.mpr hl
  have key : ∀ x : Bytes, x ∈ [b!"gzip", b!"lzma", b!"xz", b!"zstd"] →
      matchesRpmPattern x = true ∧ matchesRpmPattern (x ++ 58 :: level) = true := by
    intro x hx
    have hp : hasPrefix (x ++ 58 :: level) (x ++ [58]) = true := by
      have gen : ∀ (u w : Bytes), hasPrefix (u ++ w) u = true := by
        intro u w
        induction u with
        | nil => cases w <;> rfl
        | cons y ys ih => simp [hasPrefix, ih]
      have := gen (x ++ [58]) level
      simpa using this
    have hd : (x ++ 58 :: level).drop (x.length + 1) = level := by
      rw [show x ++ 58 :: level = (x ++ [58]) ++ level by simp]
      rw [List.drop_append_of_le_length (by simp)]
      simp
    constructor
    · unfold matchesRpmPattern
      rw [List.any_eq_true]
      exact ⟨x, hx, by simp⟩
    · unfold matchesRpmPattern
      rw [List.any_eq_true]
      refine ⟨x, hx, ?_⟩
      simp only [hp, hd, hnl, Bool.not_false, Bool.and_true, Bool.true_and, Bool.or_eq_true, decide_eq_true_eq,
        List.length_append, List.length_cons]
      right; omega
  rcases hmem with h | h | h | h <;> subst h <;> exact key _ (by decide)

theorem rpm_default_matches : matchesRpmPattern (b!"gzip:-1") = true := by decide

/-- general lemma: documents are given by their (normalised) key paths and enumerated values;
    what the parser's key tree and the code's value switches accept, the schema allows -/
def parserAccepts (paths : List (Bytes × Bytes)) : Bool := paths.all (fun p => Generated.parserPathsSorted.contains p)
def schemaAllows (paths : List (Bytes × Bytes)) : Bool := paths.all (fun p => Generated.schemaPaths.contains p)

theorem validates_of_accepts (paths : List (Bytes × Bytes)) (h : parserAccepts paths = true) :
    schemaAllows paths = true := by
  unfold schemaAllows
  rw [key_paths_agree]
  exact h

theorem accepts_of_validates (paths : List (Bytes × Bytes)) (h : schemaAllows paths = true) :
    parserAccepts paths = true := by
  unfold parserAccepts
  rw [← key_paths_agree]
  exact h

/-- documented-required keys of the schema -/
theorem schema_required : Generated.schemaRequired = [b!"arch", b!"contents.[].dst", b!"name", b!"overrides.{}.contents.[].dst", b!"version"] := by
  decide

/-- the translator regenerated, on this run and from the working tree, every table this property is tied through
    (when an extraction fails the reviewed table stands in so that the model still compiles, and this stops checking) -/
theorem translator_tables_regenerated : Generated.extracted_G3Types = true ∧ Generated.extracted_G5KeyTree = true ∧ Generated.extracted_G6Schema = true ∧ Generated.extracted_G7Accepted = true := by decide

end Nfpm.Props.C17
