import NfpmModel.Expand
import NfpmModel.Generated.G4Expand
import NfpmModel.Generated.G5KeyTree
/-
  C16  Strict parsing and scoped environment expansion of the config file.

  Proved for every string and every environment (no bound):
    expand_no_dollar          a value without '$' is left exactly as written
    expandSlice_no_dollar     list items without '$' are only whitespace-trimmed, empties dropped
    expandSlice_drops_empty / expandSlice_order   what expands to nothing is dropped, order kept
    content_expand_opt_in     contents src/dst are expanded only with `expand: true`
    passphrase_precedence     format-specific NFPM_*_PASSPHRASE first, NFPM_PASSPHRASE as fallback
  Finite, decided by the kernel over tables regenerated from the source / the docs:
    documented_fields_are_expanded   every field documented as expandable is passed through os.Expand
    passphrase_variables             the four variables, general one first
    strict_accepts_only_known        the acceptance predicate over the reflected key tree
  Strictness itself (yaml.v3 KnownFields) is library behaviour: every key path of the
  reflected tree is exercised with an injected misspelling by the harness.
-/
set_option linter.unusedSimpArgs false

namespace Nfpm.Props.C16
open Nfpm B

theorem expandF_no_dollar (env : Env) (fuel : Nat) (s : Bytes) (h : dollar ∉ s) : expandF env fuel s = s := by
  induction fuel generalizing s with
  | zero => rfl
  | succ n ih =>
    cases s with
    | nil => rfl
    | cons c rest =>
      simp only [List.mem_cons, not_or] at h
      have hc : ¬ c = dollar := fun e => h.1 e.symm
      simp [expandF, hc, ih rest h.2]

/-- a value containing no '$' is left as written, whatever the environment -/
theorem expand_no_dollar (env : Env) (s : Bytes) (h : dollar ∉ s) : expand env s = s :=
  expandF_no_dollar env _ s h

/-- a trailing lone '$' is kept -/
theorem expand_trailing_dollar (env : Env) : expand env [dollar] = [dollar] := by
  simp [expand, expandF]

/-- list items without '$' are only whitespace-trimmed (and dropped when blank) -/
theorem expandSlice_no_dollar (env : Env) (items : List Bytes) (h : ∀ s ∈ items, dollar ∉ s) :
    expandSlice env items = (items.map trimSpace).filter (· ≠ []) := by
  unfold expandSlice
  congr 1
  apply List.map_congr_left
  intro s hs
  rw [expand_no_dollar env s (h s hs)]

/-- no empty item survives -/
theorem expandSlice_drops_empty (env : Env) (items : List Bytes) : ∀ s ∈ expandSlice env items, s ≠ [] := by
  intro s hs
  unfold expandSlice at hs
  have := (List.mem_filter.mp hs).2
  simpa using this

/-- order is kept: the result is a sublist of the item-wise expansions -/
theorem expandSlice_order (env : Env) (items : List Bytes) :
    (expandSlice env items).Sublist (items.map (fun s => trimSpace (expand env s))) :=
  List.filter_sublist

/-- the environment cannot influence a list without references -/
theorem expandSlice_env_independent (e1 e2 : Env) (items : List Bytes) (h : ∀ s ∈ items, dollar ∉ s) :
    expandSlice e1 items = expandSlice e2 items := by
  rw [expandSlice_no_dollar e1 items h, expandSlice_no_dollar e2 items h]

/-- contents: source and destination are expanded only for entries that opt in -/
theorem content_expand_opt_in (env : Env) (src dst : Bytes) :
    expandContent env false src dst = (src, dst) ∧
    expandContent env true src dst = (trimSpace (expand env src), trimSpace (expand env dst)) := by
  simp [expandContent]

/-- signing passphrase: the format-specific variable wins, the general one is the fallback -/
theorem passphrase_precedence (env : Env) (specific : Bytes) :
    (env.get specific ≠ [] → passphrase env specific = env.get specific) ∧
    (env.get specific = [] → passphrase env specific = env.get (b!"NFPM_PASSPHRASE")) := by
  unfold passphrase
  constructor <;> intro h <;> simp [h]

/-! ### finite facts over regenerated tables -/

/-- a documented key is covered when it, or its map values, go through os.Expand /
    expandEnvVarsStringSlice -/
def covered (doc : Bytes) : Bool :=
  Generated.expandedScalars.contains doc || Generated.expandedSlices.contains doc
    || Generated.expandedScalars.contains (doc ++ b!".{}")

/-- every field the documentation calls expandable is expanded by the code -/
theorem documented_fields_are_expanded : Generated.documentedExpandable.all covered = true := by decide

theorem contents_expansion_sites : Generated.expandedContents = [b!"contents", b!"overrides.{}.contents"] := by decide

theorem passphrase_variables :
    Generated.expandLiterals = [b!"$NFPM_PASSPHRASE", b!"$NFPM_DEB_PASSPHRASE", b!"$NFPM_RPM_PASSPHRASE", b!"$NFPM_APK_PASSPHRASE"] := by
  decide

/-- every path the code expands is a key path of the strict parser (no expansion of unknown keys) -/
theorem expanded_are_keys :
    (Generated.expandedScalars ++ Generated.expandedSlices ++ Generated.expandedContents).all
      (fun p => (Generated.keyPaths.map (·.1)).contains p) = true := by decide

/-- strict acceptance over the reflected key tree: a document (given by its normalised key
    paths) is accepted only if every path is defined -/
def accepts (paths : List Bytes) : Bool := paths.all (fun p => (Generated.keyPaths.map (·.1)).contains p)

theorem strict_accepts_only_known (paths : List Bytes) (h : accepts paths = true) :
    ∀ p ∈ paths, p ∈ Generated.keyPaths.map (·.1) := by
  intro p hp
  have := List.all_eq_true.mp h p hp
  simpa using this

/-- why every value must be expanded exactly once: os.Expand is not idempotent – a '$' inside a substituted
    value would be read as a further reference (the defect repaired by 6e45217 in rpm.packager) -/
theorem expand_twice_differs_witness :
    let env : Env := [(b!"Z", b!"pre $Y post"), (b!"Y", b!"SECOND")]
    expand env (b!"${Z}") = b!"pre $Y post" ∧ expand env (expand env (b!"${Z}")) = b!"pre SECOND post" := by decide

/-- non-vacuity: references of all syntactic forms -/
example : expand [(b!"A", b!"x y"), (b!"B", [])] (b!"pre-${A}-$A_$B.${}$") = b!"pre-x y-.$" := by decide
example : expandSlice [(b!"D", b!" nginx ")] [b!"$D", b!"${NONE}", b!" keep "] = [b!"nginx", b!"keep"] := by decide

/-- the translator regenerated, on this run and from the working tree, every table this property is tied through
    (when an extraction fails the reviewed table stands in so that the model still compiles, and this stops checking) -/
theorem translator_tables_regenerated : Generated.extracted_G4Expand = true ∧ Generated.extracted_G5KeyTree = true := by decide

end Nfpm.Props.C16
