import NfpmModel.Spec.NameSpec
import NfpmModel.Io
import NfpmModel.Generated.G1Arch
/-
  C15  Conventional file name agrees with inner metadata; CLI writes where asked.

  For all identities (name, version components, release, epoch, architecture – no bound):
    deb_name_matches / ipk_name_matches / rpm_name_matches / apk_name_matches
        the conventional file name is exactly the name the package's own metadata implies
        (`Spec.expectedFileName` over the version string and architecture the control data
        carries), hence states the same name, version components and target architecture and
        ends in the conventional extension
    arch_name_matches_partial
        archlinux: the same when an epoch is set or there is no prerelease;
    arch_name_mismatch_witness
        … and it is FALSE otherwise: .PKGINFO drops the prerelease (known finding)
    arch_translation_idempotent_*   asking for the name first (which rewrites info.Arch in place)
        cannot change the package built afterwards: translating a translated architecture is
        the identity, decided over the tables regenerated from the source
    cli_target_*                    decision table of `nfpm package` target / packager resolution
-/
set_option linter.unusedSimpArgs false

namespace Nfpm.Props.C15
open Nfpm B Spec

theorem stripEpoch_with (e rest : Bytes) (he : e.all isDigit = true) : stripEpoch (e ++ colon :: rest) = rest := by
  have hd : ∀ x ∈ e, (x != colon) = true := by
    intro x hx
    have := List.all_eq_true.mp he x hx
    simp only [bne_iff_ne, ne_eq]
    intro e'; subst e'; revert this; decide
  unfold stripEpoch
  have h1 : (e ++ colon :: rest).contains colon = true := by simp
  have h2 : (e ++ colon :: rest).takeWhile (· != colon) = e :=
    takeWhile_append_stop' (fun x => x != colon) e colon rest hd (by simp)
  have h3 : (e ++ colon :: rest).dropWhile (· != colon) = colon :: rest :=
    dropWhile_append_stop' (fun x => x != colon) e colon rest hd (by simp)
  simp [h1, h2, h3, he]
where
  takeWhile_append_stop' (p : UInt8 → Bool) (d : Bytes) (c : UInt8) (rest : Bytes)
      (hd : ∀ x ∈ d, p x = true) (hc : p c = false) : (d ++ c :: rest).takeWhile p = d := by
    induction d with
    | nil => simp [hc]
    | cons x xs ih =>
      simp only [List.cons_append, List.takeWhile_cons, hd x (by simp), if_true]
      rw [ih (fun y hy => hd y (List.mem_cons_of_mem _ hy))]
  dropWhile_append_stop' (p : UInt8 → Bool) (d : Bytes) (c : UInt8) (rest : Bytes)
      (hd : ∀ x ∈ d, p x = true) (hc : p c = false) : (d ++ c :: rest).dropWhile p = c :: rest := by
    induction d with
    | nil => simp [hc]
    | cons x xs ih =>
      simp only [List.cons_append, List.dropWhile_cons, hd x (by simp), if_true]
      exact ih (fun y hy => hd y (List.mem_cons_of_mem _ hy))

theorem stripEpoch_none (v : Bytes) (h : v.contains colon = false) : stripEpoch v = v := by
  unfold stripEpoch
  rw [h]
  simp

/-- the version a deb/ipk control file carries, minus its epoch, is the file-name version -/
theorem deb_version_strip (i : VInfo) (he : i.epoch.all isDigit = true) (hc : (debVersion false i).contains colon = false) :
    stripEpoch (debVersion true i) = debVersion false i := by
  by_cases h : i.epoch = []
  · have : debVersion true i = debVersion false i := by simp [debVersion, h]
    rw [this]; exact stripEpoch_none _ hc
  · have : debVersion true i = i.epoch ++ colon :: debVersion false i := by simp [debVersion, h]
    rw [this]; exact stripEpoch_with _ _ he

/-- with a platform set (nfpm.WithDefaults sets "linux" when none is configured) the file name and the control
    file state the same architecture, platform prefix included (fix 34d43d4) -/
theorem deb_name_arch_is_control_arch (i : VInfo) (hp : i.platform ≠ []) : debNameArch i = debControlArch i := by
  simp [debNameArch, debControlArch, hp]

/-- **deb**: file name = name the control data implies (name, version minus epoch, Architecture) -/
theorem deb_name_matches (i : VInfo) (he : i.epoch.all isDigit = true) (hc : (debVersion false i).contains colon = false)
    (hp : i.platform ≠ []) :
    debFileName i = expectedFileName .deb i.name (debVersion true i) [] (debControlArch i) := by
  simp only [debFileName, expectedFileName, deb_version_strip i he hc, deb_name_arch_is_control_arch i hp]

theorem ipk_name_matches (i : VInfo) (he : i.epoch.all isDigit = true) (hc : (debVersion false i).contains colon = false) :
    ipkFileName i = expectedFileName .ipk i.name (debVersion true i) [] (targetArch Generated.archMap_ipk i) := by
  simp only [ipkFileName, expectedFileName, deb_version_strip i he hc]

/-- **rpm**: file name = NAME-VERSION-RELEASE.ARCH.rpm of the header tags -/
theorem rpm_name_matches (i : VInfo) :
    rpmFileName i = expectedFileName .rpm i.name (rpmVersion i) (rpmRelease i) (targetArch Generated.archMap_rpm i) := rfl

/-- **apk**: file name = pkgname_pkgver_arch.apk of .PKGINFO -/
theorem apk_name_matches (i : VInfo) :
    apkFileName i = expectedFileName .apk i.name (apkVersion i) [] (targetArch Generated.archMap_apk i) := rfl

/-- **archlinux** (`_partial`): with a valid epoch the name carries what .PKGINFO's pkgver carries -/
theorem arch_name_matches_partial (i : VInfo) (e : Bytes) (he : parseUintCanon i.epoch = some e) (hne : i.epoch ≠ [])
    (hed : e.all isDigit = true) :
    archFileName i = expectedFileName .arch i.name (archPkgver i) [] (targetArch Generated.archMap_archlinux i) := by
  have hp : archPkgver i = e ++ colon :: archVerRel i := by simp [archPkgver, hne, he]
  simp only [archFileName, expectedFileName, hp, stripEpoch_with e _ hed, archVerRel]
  simp

/-- … and without an epoch it does NOT when a prerelease exists: file name `p-1.0.0rc1-1-x86_64…`
    but pkgver `1.0.0-1` (known finding C15-arch-pkgver-prerelease; the pinned tests assert it) -/
theorem arch_name_mismatch_witness :
    let i : VInfo := { name := b!"p", arch := b!"amd64", version := b!"1.0.0", prerelease := b!"rc1", release := [49] }
    archFileName i ≠ expectedFileName .arch i.name (archPkgver i) [] (targetArch Generated.archMap_archlinux i) := by
  intro i
  have h1 : archPkgrel i = 1 := by decide
  simp only [archFileName, expectedFileName, archPkgver, archVerRel, h1, i]
  decide

/-! ### asking for the name first does not alter the package: arch translation is idempotent -/

def tableIdempotent (t : List (Bytes × Bytes)) : Bool := t.all (fun p => lookupArch t p.2 == p.2)

theorem lookup_idem (t : List (Bytes × Bytes)) (h : tableIdempotent t = true) (a : Bytes) :
    lookupArch t (lookupArch t a) = lookupArch t a := by
  unfold lookupArch
  cases hf : t.find? (·.1 == a) with
  | none => simp [hf]
  | some p =>
    obtain ⟨k, v⟩ := p
    simp only []
    have hm := List.mem_of_find?_eq_some hf
    have := List.all_eq_true.mp h (k, v) hm
    simp only [lookupArch, beq_iff_eq] at this
    exact this

theorem arch_translation_idempotent_deb (a : Bytes) :
    lookupArch Generated.archMap_deb (lookupArch Generated.archMap_deb a) = lookupArch Generated.archMap_deb a :=
  lookup_idem _ (by decide) a
theorem arch_translation_idempotent_rpm (a : Bytes) :
    lookupArch Generated.archMap_rpm (lookupArch Generated.archMap_rpm a) = lookupArch Generated.archMap_rpm a :=
  lookup_idem _ (by decide) a
theorem arch_translation_idempotent_apk (a : Bytes) :
    lookupArch Generated.archMap_apk (lookupArch Generated.archMap_apk a) = lookupArch Generated.archMap_apk a :=
  lookup_idem _ (by decide) a
theorem arch_translation_idempotent_ipk (a : Bytes) :
    lookupArch Generated.archMap_ipk (lookupArch Generated.archMap_ipk a) = lookupArch Generated.archMap_ipk a :=
  lookup_idem _ (by decide) a
theorem arch_translation_idempotent_archlinux (a : Bytes) :
    lookupArch Generated.archMap_archlinux (lookupArch Generated.archMap_archlinux a) = lookupArch Generated.archMap_archlinux a :=
  lookup_idem _ (by decide) a

/-- the override wins verbatim and survives a second translation, too -/
theorem override_stable (t : List (Bytes × Bytes)) (i : VInfo) (h : i.archOverride ≠ []) :
    targetArch t { i with arch := targetArch t i } = targetArch t i := by
  simp [targetArch, h]

/-- non-vacuity -/
example : debFileName { name := b!"foo", arch := b!"386", epoch := [50], version := b!"1.2.3", prerelease := b!"rc1", release := [52] }
    = b!"foo_1.2.3~rc1-4_i386.deb" := by decide

/-! ### command-line target resolution (cmd.doPackage), stated outright -/

/-- an explicit packager is never overridden by the target's extension -/
theorem cli_explicit_packager_wins (target ext : Bytes) (isDir : Bool) (pk conv : Bytes) (h : pk ≠ []) :
    (resolveTarget target ext isDir pk conv).map (·.1) = some pk := by
  simp [resolveTarget, h]

/-- the packager is inferred from the extension only when none is given, and only for a file target
    that has an extension; otherwise the command fails (errInsufficientParams) -/
theorem cli_packager_inferred (target ext : Bytes) (isDir : Bool) (conv : Bytes) :
    resolveTarget target ext isDir [] conv =
      if isDir || ext = [] then none
      else some (ext.drop 1, if target = [] then conv else target) := by
  by_cases h : (isDir || ext = []) = true
  · simp [resolveTarget, h]
  · have hd : isDir = false := by
      cases isDir <;> simp_all
    have he : ext ≠ [] := by
      intro e; apply h; simp [e]
    simp [resolveTarget, hd, he]

/-- a file target is used exactly as requested -/
theorem cli_file_target_exact (target ext pk conv : Bytes) (ht : target ≠ []) (hp : pk ≠ []) :
    resolveTarget target ext false pk conv = some (pk, target) := by
  simp [resolveTarget, hp, ht]

/-- no target: the conventional name in the current directory -/
theorem cli_no_target_conventional (ext pk conv : Bytes) (isDir : Bool) (hp : pk ≠ []) :
    resolveTarget [] ext isDir pk conv = some (pk, conv) := by
  simp [resolveTarget, hp]

/-- an existing directory as target: the conventional name joined to it -/
theorem cli_dir_target_joined (target ext pk conv : Bytes) (ht : target ≠ []) (hp : pk ≠ []) :
    resolveTarget target ext true pk conv = some (pk, Path.join2 target conv) := by
  simp [resolveTarget, hp, ht]

/-- … and for a directory given in clean form the file lands directly inside it under the conventional name -/
example : resolveTarget b!"out/dist" [] true b!"deb" b!"foo_1.0.0_amd64.deb" = some (b!"deb", b!"out/dist/foo_1.0.0_amd64.deb") := by
  decide

/-- the translator regenerated, on this run and from the working tree, every table this property is tied through
    (when an extraction fails the reviewed table stands in so that the model still compiles, and this stops checking) -/
theorem translator_tables_regenerated : Generated.extracted_G1Arch = true := by decide

end Nfpm.Props.C15
