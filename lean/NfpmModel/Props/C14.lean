import NfpmModel.Lemmas.VersionLemmas
/-
  C14  Version handling: lossless semver split, prerelease sorts before release.

  Proved for all inputs (no bound on lengths):
    split_explicit_wins / split_from_version / split_verbatim_none / split_verbatim_unparsable
        nfpm.WithDefaults: a parsable version becomes M.m.p, explicit prerelease/metadata
        win over parsed ones, schema `none` or an unparsable string is used verbatim
    dpkg_prerelease_sorts_before
        for every core N.N…N of digit runs, every prerelease and every tail: under dpkg's
        verrevcmp  core~pre…  <  core, core+meta…, core-rev…   (deb, ipk)
    rpm_prerelease_sorts_before
        the same under rpm's rpmvercmp for  core~pre…  vs  core / core+meta
    dpkg_numeric_order / dpkg_semver_order
        two versions that share leading numeric components and then carry d1 < d2 (as numbers:
        `digitsVal`, leading zeros and any length allowed) compare as "less" under verrevcmp, whatever follows
    parse_components / dpkg_parsed_versions_order / deb_tail_noDigitHead
        every numeric component the recogniser returns is a digit run, so the M.m.p nfpm stores for two parsable
        version strings compare under verrevcmp as the number triples do, whatever nfpm appends ('~', '+', '-')
    rpm_numeric_order / rpm_semver_order / rpm_parsed_versions_order / rpm_tail_noDigitHead
        the same under rpm's rpmvercmp (the rpm epoch is a header tag of its own, compared as an integer by rpm)
    dpkg_compare_numeric / dpkg_compare_numeric_epoch
        the numeric order decides dpkg's complete comparison too (upstream split at the last hyphen, equal epochs)
    dpkg_epoch_dominates / dpkg_epoch_over_none
        a lower epoch sorts first under dpkg's whole comparison whatever the version strings are;
        no epoch sorts before every positive epoch
    deb_version_shape / rpm_version_shape
        the strings nfpm renders have exactly that shape (tie to the renderers)
  Specification assumption: `verrevcmpF` / `rpmvercmpF` transcribe dpkg's lib/dpkg/version.c
  and rpm's rpmio/rpmvercmp.c; the dpkg one is cross-checked against
  `dpkg --compare-versions` by the harness, no rpm binary exists in this image.
-/
set_option linter.unusedSimpArgs false
set_option linter.unusedVariables false

namespace Nfpm.Props.C14
open Nfpm B

/-! ### nfpm.WithDefaults -/

theorem split_verbatim_none (i : VInfo) (hv : i.version ≠ []) (h : i.schema = b!"none") :
    withDefaultsVersion i = i := by
  unfold withDefaultsVersion
  simp [hv, h]

theorem split_verbatim_unparsable (i : VInfo) (hv : i.version ≠ []) (h : SemVer.parse i.version = none) :
    withDefaultsVersion i = i := by
  unfold withDefaultsVersion
  simp only [hv, if_false, h]
  split <;> rfl

/-- a parsable version is packaged as major.minor.patch; explicitly configured prerelease and
    metadata take precedence; otherwise the parsed ones are carried – nothing else changes -/
theorem split_from_version (i : VInfo) (v : SemVer.V) (hv : i.version ≠ []) (hs : i.schema ≠ b!"none")
    (h : SemVer.parse i.version = some v) :
    withDefaultsVersion i =
      { i with version := SemVer.core v,
               prerelease := if i.prerelease = [] then v.pre else i.prerelease,
               metadata := if i.metadata = [] then v.build else i.metadata } := by
  unfold withDefaultsVersion
  simp [hv, hs, h]

theorem split_explicit_wins (i : VInfo) (v : SemVer.V) (hv : i.version ≠ []) (hs : i.schema ≠ b!"none")
    (h : SemVer.parse i.version = some v) (hp : i.prerelease ≠ []) (hm : i.metadata ≠ []) :
    (withDefaultsVersion i).prerelease = i.prerelease ∧ (withDefaultsVersion i).metadata = i.metadata := by
  rw [split_from_version i v hv hs h]; simp [hp, hm]

/-! ### dpkg: verrevcmp -/

theorem isDigit_dot : isDigit dot = false := by decide
theorem isDigit_tilde : isDigit tilde = false := by decide

/-- one numeric component and its separating dot are consumed in lock-step -/
theorem verrevcmpF_digits_dot (f : Nat) (d : Bytes) (hd : DigitRun d) (A B : Bytes) :
    verrevcmpF (f + 2) (d ++ dot :: A) (d ++ dot :: B) = verrevcmpF f A B := by
  obtain ⟨c, rest, rfl, hc⟩ := hd.head_digit
  have hall := hd.2
  rw [verrevcmpF]
  simp only [List.cons_append, List.head?_cons, hc, Bool.not_true, Bool.or_self, Bool.false_eq_true, if_false,
    reduceCtorEq, Bool.and_self, List.cons_ne_nil, decide_false]
  rw [show c :: (rest ++ dot :: A) = (c :: rest) ++ dot :: A by rfl,
      show c :: (rest ++ dot :: B) = (c :: rest) ++ dot :: B by rfl,
      takeWhile_append_stop isDigit _ dot A hall isDigit_dot, takeWhile_append_stop isDigit _ dot B hall isDigit_dot,
      dropWhile_append_stop isDigit _ dot A hall isDigit_dot, dropWhile_append_stop isDigit _ dot B hall isDigit_dot,
      cmpDigits_self]
  simp only [ne_eq, not_true_eq_false, if_false]
  rw [verrevcmpF]
  simp [isDigit_dot]

theorem dpkgOrder_nonneg (c : UInt8) (hd : isDigit c = false) (ht : c ≠ tilde) : 0 ≤ dpkgOrder (some c) := by
  unfold dpkgOrder
  simp only [hd, Bool.false_eq_true, if_false, ht]
  split <;> omega

/-- after the last numeric component: '~' against the end, '+', '-' or any other non-digit -/
theorem verrevcmpF_final (f : Nat) (d : Bytes) (hd : DigitRun d) (ra rb : Bytes)
    (hrb : rb = [] ∨ ∃ c t, rb = c :: t ∧ isDigit c = false ∧ c ≠ tilde) :
    verrevcmpF (f + 2) (d ++ tilde :: ra) (d ++ rb) < 0 := by
  obtain ⟨c, rest, rfl, hc⟩ := hd.head_digit
  have hall := hd.2
  have htb : ((c :: rest) ++ rb).takeWhile isDigit = c :: rest := by
    rcases hrb with e | ⟨x, t, e, hx, _⟩
    · subst e; simp only [List.append_nil]; exact takeWhile_all isDigit _ hall
    · subst e; exact takeWhile_append_stop isDigit _ x t hall hx
  have hdb : ((c :: rest) ++ rb).dropWhile isDigit = rb := by
    rcases hrb with e | ⟨x, t, e, hx, _⟩
    · subst e; simp only [List.append_nil]; exact dropWhile_all isDigit _ hall
    · subst e; exact dropWhile_append_stop isDigit _ x t hall hx
  rw [verrevcmpF]
  simp only [List.cons_append, List.head?_cons, hc, Bool.not_true, Bool.or_self, Bool.false_eq_true, if_false,
    reduceCtorEq, Bool.and_self, List.cons_ne_nil, decide_false]
  rw [show c :: (rest ++ tilde :: ra) = (c :: rest) ++ tilde :: ra by rfl,
      show c :: (rest ++ rb) = (c :: rest) ++ rb by rfl,
      takeWhile_append_stop isDigit _ tilde ra hall isDigit_tilde, dropWhile_append_stop isDigit _ tilde ra hall isDigit_tilde,
      htb, hdb, cmpDigits_self]
  simp only [ne_eq, not_true_eq_false, if_false]
  rw [verrevcmpF]
  rcases hrb with e | ⟨x, t, e, hx, hxt⟩
  · subst e
    have hAl : isAlpha tilde = false := by decide
    simp [isDigit_tilde, hAl, dpkgOrder]
  · subst e
    have hnn := dpkgOrder_nonneg x hx hxt
    have ht : dpkgOrder (some tilde) = -1 := by simp [dpkgOrder, isDigit_tilde]; decide
    simp only [List.cons_ne_nil, decide_false, Bool.false_and, Bool.false_eq_true, if_false, List.head?_cons,
      isDigit_tilde, Bool.not_false, Bool.true_or, if_true, ht]
    have hne : (-1 : Int) ≠ dpkgOrder (some x) := by omega
    simp only [ne_eq, hne, not_false_eq_true, if_true]
    omega

/-- a version core: numeric components joined by dots (1, 1.2, 1.2.3, …) -/
def core (runs : List Bytes) : Bytes := joinWith dot runs

theorem core_length (runs : List Bytes) (hne : runs ≠ []) (hr : ∀ d ∈ runs, DigitRun d) :
    2 * runs.length ≤ (core runs).length + 1 := by
  induction runs with
  | nil => exact absurd rfl hne
  | cons d rest ih =>
    have hd := (hr d (by simp)).1
    have hl : 0 < d.length := List.length_pos_iff.mpr hd
    cases rest with
    | nil => simp [core, joinWith]; omega
    | cons e es =>
      have := ih (by simp) (fun x hx => hr x (List.mem_cons_of_mem _ hx))
      simp only [core, joinWith, List.length_append, List.length_cons] at this ⊢
      omega

theorem verrevcmpF_core (runs : List Bytes) (hne : runs ≠ []) (hr : ∀ d ∈ runs, DigitRun d)
    (f : Nat) (hf : 2 * runs.length ≤ f) (ra rb : Bytes)
    (hrb : rb = [] ∨ ∃ c t, rb = c :: t ∧ isDigit c = false ∧ c ≠ tilde) :
    verrevcmpF f (core runs ++ tilde :: ra) (core runs ++ rb) < 0 := by
  induction runs generalizing f with
  | nil => exact absurd rfl hne
  | cons d rest ih =>
    cases rest with
    | nil =>
      obtain ⟨f', rfl⟩ : ∃ f', f = f' + 2 := ⟨f - 2, by simp at hf; omega⟩
      simp only [core, joinWith]
      exact verrevcmpF_final f' d (hr d (by simp)) ra rb hrb
    | cons e es =>
      obtain ⟨f', rfl⟩ : ∃ f', f = f' + 2 := ⟨f - 2, by simp at hf; omega⟩
      have := ih (by simp) (fun x hx => hr x (List.mem_cons_of_mem _ hx)) f' (by simp at hf ⊢; omega)
      simp only [core, joinWith, List.append_assoc, List.cons_append] at this ⊢
      rw [verrevcmpF_digits_dot f' d (hr d (by simp))]
      exact this

/-- **deb / ipk: a prerelease build sorts strictly before the corresponding release** under
    dpkg's own comparison: for every numeric core, every prerelease `pre` and suffix `ta`,
    `core~pre ta < core tb` whenever the release's remainder `tb` is empty or starts with a
    non-digit other than '~' ('+' metadata, '-' revision, …). -/
theorem dpkg_prerelease_sorts_before (runs : List Bytes) (hne : runs ≠ []) (hr : ∀ d ∈ runs, DigitRun d)
    (pre ta tb : Bytes) (htb : tb = [] ∨ ∃ c t, tb = c :: t ∧ isDigit c = false ∧ c ≠ tilde) :
    verrevcmp (core runs ++ tilde :: pre ++ ta) (core runs ++ tb) < 0 := by
  unfold verrevcmp
  rw [show core runs ++ tilde :: pre ++ ta = core runs ++ tilde :: (pre ++ ta) by simp]
  apply verrevcmpF_core runs hne hr _ _ (pre ++ ta) tb htb
  have := core_length runs hne hr
  simp only [List.length_append, List.length_cons]
  omega

/-! ### the whole dpkg comparison: epoch, upstream version, revision -/

theorem contains_false_of_not_mem (s : Bytes) (c : UInt8) (h : c ∉ s) : s.contains c = false := by
  simpa using h

/-- parseversion on `upstream-revision` without epoch: the split is at the LAST hyphen -/
theorem dpkgSplit_rev (u r : Bytes) (hc : colon ∉ u ++ minus :: r) (hr : minus ∉ r) :
    dpkgSplit (u ++ minus :: r) = ([], u, r) := by
  unfold dpkgSplit
  have h1 : (u ++ minus :: r).contains colon = false := contains_false_of_not_mem _ _ hc
  have h2 : (u ++ minus :: r).contains minus = true := by simp
  simp only [h1, Bool.false_eq_true, if_false, h2, if_true]
  have hrev : (u ++ minus :: r).reverse = r.reverse ++ minus :: u.reverse := by simp
  have hd : ∀ x ∈ r.reverse, (x != minus) = true := by
    intro x hx; simp only [bne_iff_ne, ne_eq]; intro e; subst e; exact hr (List.mem_reverse.mp hx)
  rw [hrev, takeWhile_append_stop (fun x => x != minus) _ minus _ hd (by simp),
    dropWhile_append_stop (fun x => x != minus) _ minus _ hd (by simp)]
  simp

/-- … with an epoch: everything before the first colon -/
theorem dpkgSplit_epoch_rev (e u r : Bytes) (he : colon ∉ e) (hr : minus ∉ r) :
    dpkgSplit (e ++ colon :: (u ++ minus :: r)) = (e, u, r) := by
  unfold dpkgSplit
  have h1 : (e ++ colon :: (u ++ minus :: r)).contains colon = true := by simp
  have hd : ∀ x ∈ e, (x != colon) = true := by
    intro x hx; simp only [bne_iff_ne, ne_eq]; intro e'; subst e'; exact he hx
  simp only [h1, if_true]
  rw [takeWhile_append_stop (fun x => x != colon) _ colon _ hd (by simp),
    dropWhile_append_stop (fun x => x != colon) _ colon _ hd (by simp)]
  have h2 : (u ++ minus :: r).contains minus = true := by simp
  simp only [List.drop_succ_cons, List.drop_zero, h2, if_true]
  have hrev : (u ++ minus :: r).reverse = r.reverse ++ minus :: u.reverse := by simp
  have hd2 : ∀ x ∈ r.reverse, (x != minus) = true := by
    intro x hx; simp only [bne_iff_ne, ne_eq]; intro e'; subst e'; exact hr (List.mem_reverse.mp hx)
  rw [hrev, takeWhile_append_stop (fun x => x != minus) _ minus _ hd2 (by simp),
    dropWhile_append_stop (fun x => x != minus) _ minus _ hd2 (by simp)]
  simp

/-- **deb / ipk, full version strings**: `core~pre<m>-rev` sorts strictly before `core<m>-rev` under dpkg's
    complete comparison (epoch, upstream, revision), for every numeric core, every prerelease (hyphens
    allowed), every `m` that is empty or starts with a non-digit other than '~' (nfpm: "+metadata"), and
    every hyphen-free revision -/
theorem dpkg_compare_prerelease (runs : List Bytes) (hne : runs ≠ []) (hr : ∀ d ∈ runs, DigitRun d)
    (pre m rev : Bytes) (hm : m = [] ∨ ∃ c t, m = c :: t ∧ isDigit c = false ∧ c ≠ tilde)
    (hrev : minus ∉ rev)
    (hcA : colon ∉ (core runs ++ tilde :: pre ++ m) ++ minus :: rev) (hcB : colon ∉ (core runs ++ m) ++ minus :: rev) :
    dpkgCompare ((core runs ++ tilde :: pre ++ m) ++ minus :: rev) ((core runs ++ m) ++ minus :: rev) < 0 := by
  unfold dpkgCompare
  rw [dpkgSplit_rev _ _ hcA hrev, dpkgSplit_rev _ _ hcB hrev]
  simp only [cmpDigits_self, ne_eq, not_true_eq_false, if_false]
  have h := dpkg_prerelease_sorts_before runs hne hr pre m m hm
  have hne0 : verrevcmp (core runs ++ tilde :: pre ++ m) (core runs ++ m) ≠ 0 := by omega
  simp only [hne0, not_false_eq_true, if_true]
  exact h

/-- … and the same with an epoch on both sides -/
theorem dpkg_compare_prerelease_epoch (e : Bytes) (he : colon ∉ e) (runs : List Bytes) (hne : runs ≠ [])
    (hr : ∀ d ∈ runs, DigitRun d) (pre m rev : Bytes)
    (hm : m = [] ∨ ∃ c t, m = c :: t ∧ isDigit c = false ∧ c ≠ tilde) (hrev : minus ∉ rev) :
    dpkgCompare (e ++ colon :: ((core runs ++ tilde :: pre ++ m) ++ minus :: rev))
      (e ++ colon :: ((core runs ++ m) ++ minus :: rev)) < 0 := by
  unfold dpkgCompare
  rw [dpkgSplit_epoch_rev _ _ _ he hrev, dpkgSplit_epoch_rev _ _ _ he hrev]
  simp only [cmpDigits_self, ne_eq, not_true_eq_false, if_false]
  have h := dpkg_prerelease_sorts_before runs hne hr pre m m hm
  have hne0 : verrevcmp (core runs ++ tilde :: pre ++ m) (core runs ++ m) ≠ 0 := by omega
  simp only [hne0, not_false_eq_true, if_true]
  exact h

example : dpkgCompare (b!"2:1.2.3~rc-1+git-4") (b!"2:1.2.3+git-4") < 0 := by decide

/-! ### dpkg: numeric order of the components, epochs -/

/-- a remainder that does not continue a digit run: the end, or a non-digit (dot, '~', '+', '-', …) -/
def NoDigitHead (A : Bytes) : Prop := A = [] ∨ ∃ c t, A = c :: t ∧ isDigit c = false

theorem takeWhile_digits_stop (d A : Bytes) (hd : ∀ x ∈ d, isDigit x = true) (hA : NoDigitHead A) :
    (d ++ A).takeWhile isDigit = d ∧ (d ++ A).dropWhile isDigit = A := by
  rcases hA with e | ⟨c, t, e, hc⟩
  · subst e; simp only [List.append_nil]; exact ⟨takeWhile_all isDigit _ hd, dropWhile_all isDigit _ hd⟩
  · subst e; exact ⟨takeWhile_append_stop isDigit _ c t hd hc, dropWhile_append_stop isDigit _ c t hd hc⟩

/-- two different numbers at the same position decide the comparison -/
theorem verrevcmpF_digits_differ (f : Nat) (d1 d2 : Bytes) (h1 : DigitRun d1) (h2 : DigitRun d2) (A B : Bytes)
    (hA : NoDigitHead A) (hB : NoDigitHead B) (hne : cmpDigits d1 d2 ≠ 0) :
    verrevcmpF (f + 1) (d1 ++ A) (d2 ++ B) = cmpDigits d1 d2 := by
  obtain ⟨ta, tb⟩ := takeWhile_digits_stop d1 A h1.2 hA
  obtain ⟨ta2, tb2⟩ := takeWhile_digits_stop d2 B h2.2 hB
  obtain ⟨c1, r1, e1, hc1⟩ := h1.head_digit
  obtain ⟨c2, r2, e2, hc2⟩ := h2.head_digit
  rw [verrevcmpF]
  have hh1 : (d1 ++ A).head? = some c1 := by subst e1; rfl
  have hh2 : (d2 ++ B).head? = some c2 := by subst e2; rfl
  have hn1 : (d1 ++ A = []) = False := by subst e1; simp
  simp only [hh1, hh2, hc1, hc2, ta, tb, ta2, tb2, hn1, Bool.not_true, Bool.or_self, Bool.false_eq_true, if_false,
    decide_false, Bool.false_and, ne_eq, hne, not_false_eq_true, if_true]

/-- numeric components joined each with its dot: `1.2.` -/
def dotted : List Bytes → Bytes
  | [] => []
  | p :: ps => p ++ dot :: dotted ps

theorem dotted_length (ps : List Bytes) : ps.length ≤ (dotted ps).length := by
  induction ps with
  | nil => simp [dotted]
  | cons p ps ih => simp only [dotted, List.length_append, List.length_cons]; omega

theorem verrevcmpF_dotted (ps : List Bytes) (hps : ∀ d ∈ ps, DigitRun d) (f : Nat) (X Y : Bytes) :
    verrevcmpF (f + 2 * ps.length) (dotted ps ++ X) (dotted ps ++ Y) = verrevcmpF f X Y := by
  induction ps generalizing f with
  | nil => simp [dotted]
  | cons p ps ih =>
    have := verrevcmpF_digits_dot (f + 2 * ps.length) p (hps p (by simp)) (dotted ps ++ X) (dotted ps ++ Y)
    simp only [dotted, List.length_cons, List.append_assoc, List.cons_append]
    rw [show f + 2 * (ps.length + 1) = f + 2 * ps.length + 2 by omega, this]
    exact ih (fun d hd => hps d (List.mem_cons_of_mem _ hd)) f

/-- **deb / ipk: a different major.minor.patch orders numerically** under dpkg's own comparison: two versions
    that share any number of leading numeric components and then carry the numbers `d1 < d2` compare as
    "less", whatever follows (further components, `~prerelease`, `+metadata`, `-revision`) -/
theorem dpkg_numeric_order (ps : List Bytes) (hps : ∀ d ∈ ps, DigitRun d) (d1 d2 : Bytes) (h1 : DigitRun d1)
    (h2 : DigitRun d2) (A B : Bytes) (hA : NoDigitHead A) (hB : NoDigitHead B) (hlt : digitsVal d1 < digitsVal d2) :
    verrevcmp (dotted ps ++ (d1 ++ A)) (dotted ps ++ (d2 ++ B)) < 0 := by
  have hnum := (cmpDigits_numeric d1 d2 h1.2 h2.2).1.mpr hlt
  unfold verrevcmp
  have hl := dotted_length ps
  obtain ⟨f, hf⟩ : ∃ f, (dotted ps ++ (d1 ++ A)).length + (dotted ps ++ (d2 ++ B)).length + 1 = (f + 1) + 2 * ps.length :=
    ⟨(dotted ps ++ (d1 ++ A)).length + (dotted ps ++ (d2 ++ B)).length - 2 * ps.length, by
      simp only [List.length_append]; omega⟩
  rw [hf, verrevcmpF_dotted ps hps, verrevcmpF_digits_differ f d1 d2 h1 h2 A B hA hB (by omega)]
  exact hnum

/-- the three cases of a semantic version: major, minor or patch differs -/
theorem dpkg_semver_order (M1 m1 p1 M2 m2 p2 A B : Bytes)
    (hM1 : DigitRun M1) (hm1 : DigitRun m1) (hp1 : DigitRun p1) (hM2 : DigitRun M2) (hm2 : DigitRun m2)
    (hp2 : DigitRun p2) (hA : NoDigitHead A) (hB : NoDigitHead B)
    (hlt : digitsVal M1 < digitsVal M2 ∨ (M1 = M2 ∧ digitsVal m1 < digitsVal m2) ∨ (M1 = M2 ∧ m1 = m2 ∧ digitsVal p1 < digitsVal p2)) :
    verrevcmp (M1 ++ dot :: m1 ++ dot :: p1 ++ A) (M2 ++ dot :: m2 ++ dot :: p2 ++ B) < 0 := by
  have hdot : ∀ X : Bytes, NoDigitHead (dot :: X) := fun X => Or.inr ⟨dot, X, rfl, isDigit_dot⟩
  rcases hlt with h | ⟨e, h⟩ | ⟨e, e', h⟩
  · have := dpkg_numeric_order [] (by simp) M1 M2 hM1 hM2 (dot :: m1 ++ dot :: p1 ++ A) (dot :: m2 ++ dot :: p2 ++ B)
      (hdot _) (hdot _) h
    simpa [dotted] using this
  · subst e
    have := dpkg_numeric_order [M1] (by simpa using hM1) m1 m2 hm1 hm2 (dot :: p1 ++ A) (dot :: p2 ++ B)
      (hdot _) (hdot _) h
    simpa [dotted] using this
  · subst e; subst e'
    have := dpkg_numeric_order [M1, m1] (by intro d hd; simp at hd; rcases hd with r | r <;> (subst r; assumption))
      p1 p2 hp1 hp2 A B hA hB h
    simpa [dotted] using this

example : verrevcmp (b!"1.9.0") (b!"1.10.0~rc1") < 0 := by decide

/-! ### epochs -/

theorem dpkgSplit_epoch_fst (e rest : Bytes) (he : colon ∉ e) : (dpkgSplit (e ++ colon :: rest)).1 = e := by
  unfold dpkgSplit
  have h1 : (e ++ colon :: rest).contains colon = true := by simp
  have hd : ∀ x ∈ e, (x != colon) = true := by
    intro x hx; simp only [bne_iff_ne, ne_eq]; intro e'; subst e'; exact he hx
  simp only [h1, if_true]
  rw [takeWhile_append_stop (fun x => x != colon) _ colon _ hd (by simp)]
  split <;> rfl

theorem dpkgSplit_noepoch_fst (s : Bytes) (hs : colon ∉ s) : (dpkgSplit s).1 = [] := by
  unfold dpkgSplit
  simp only [contains_false_of_not_mem s colon hs, Bool.false_eq_true, if_false]
  split <;> rfl

theorem dpkgCompare_epoch (a b : Bytes) (h : cmpDigits (dpkgSplit a).1 (dpkgSplit b).1 < 0) :
    dpkgCompare a b < 0 := by
  unfold dpkgCompare
  rcases ha : dpkgSplit a with ⟨ea, ua, ra⟩
  rcases hb : dpkgSplit b with ⟨eb, ub, rb⟩
  rw [ha, hb] at h
  simp only [] at h ⊢
  have : cmpDigits ea eb ≠ 0 := by omega
  simp only [ne_eq, this, not_false_eq_true, if_true]
  exact h

/-- **deb / ipk: any higher epoch sorts after any lower one**, whatever the two version strings are -/
theorem dpkg_epoch_dominates (e1 e2 r1 r2 : Bytes) (hd1 : ∀ x ∈ e1, isDigit x = true)
    (hd2 : ∀ x ∈ e2, isDigit x = true) (hlt : digitsVal e1 < digitsVal e2) :
    dpkgCompare (e1 ++ colon :: r1) (e2 ++ colon :: r2) < 0 := by
  have hc : ∀ e : Bytes, (∀ x ∈ e, isDigit x = true) → colon ∉ e := by
    intro e he hm; have := he colon hm; revert this; decide
  apply dpkgCompare_epoch
  rw [dpkgSplit_epoch_fst _ _ (hc e1 hd1), dpkgSplit_epoch_fst _ _ (hc e2 hd2)]
  exact (cmpDigits_numeric e1 e2 hd1 hd2).1.mpr hlt

/-- … and a version without epoch (nfpm writes none when the epoch is empty) sorts before every version with a
    positive epoch -/
theorem dpkg_epoch_over_none (s e r : Bytes) (hs : colon ∉ s) (hd : ∀ x ∈ e, isDigit x = true) (hpos : 0 < digitsVal e) :
    dpkgCompare s (e ++ colon :: r) < 0 := by
  have hc : colon ∉ e := by intro hm; have := hd colon hm; revert this; decide
  apply dpkgCompare_epoch
  rw [dpkgSplit_noepoch_fst s hs, dpkgSplit_epoch_fst _ _ hc]
  exact (cmpDigits_numeric [] e (by simp) hd).1.mpr (by simpa [digitsVal] using hpos)

example : dpkgCompare (b!"9.9.9-1") (b!"1:0.0.1~rc1-1") < 0 := by decide
example : dpkgCompare (b!"2:9.9.9-1") (b!"10:0.0.1-1") < 0 := by decide

/-! ### rpm: rpmvercmp -/

theorem rsep_dot : rsep dot = true := by decide
theorem rsep_tilde : rsep tilde = false := by decide
theorem digit_facts (c : UInt8) (h : isDigit c = true) : c ≠ tilde ∧ c ≠ 94 ∧ rsep c = false := by
  have h' := h
  simp only [isDigit, Bool.and_eq_true, decide_eq_true_eq] at h'
  obtain ⟨h1, h2⟩ := h'
  refine ⟨?_, ?_, by simp [rsep, h]⟩ <;> intro e <;> subst e <;> revert h2 <;> decide

/-- one numeric segment that is equal on both sides is consumed (both continue with a non-digit) -/
theorem rpmBody_digits (rec : Bytes → Bytes → Int) (d : Bytes) (hd : DigitRun d) (x y : UInt8) (A B : Bytes)
    (hx : isDigit x = false) (hy : isDigit y = false) :
    rpmBody rec (d ++ x :: A) (d ++ y :: B) = rec (x :: A) (y :: B) := by
  obtain ⟨c, rest, rfl, hc⟩ := hd.head_digit
  have hall := hd.2
  obtain ⟨hc1, hc2, _⟩ := digit_facts c hc
  have e1 := takeWhile_append_stop isDigit (c :: rest) x A hall hx
  have e2 := takeWhile_append_stop isDigit (c :: rest) y B hall hy
  have e3 := dropWhile_append_stop isDigit (c :: rest) x A hall hx
  have e4 := dropWhile_append_stop isDigit (c :: rest) y B hall hy
  simp only [List.cons_append] at e1 e2 e3 e4
  unfold rpmBody
  simp only [List.cons_append, List.head?_cons, Option.some.injEq, hc1, hc2, or_self, decide_false, Bool.or_self,
    Bool.false_eq_true, if_false, List.cons_ne_nil, hc, if_true, e1, e2, e3, e4, cmpDigits_self, ne_eq,
    not_true_eq_false]

/-- the same when the right side ends after the segment -/
theorem rpmBody_digits_end (rec : Bytes → Bytes → Int) (d : Bytes) (hd : DigitRun d) (x : UInt8) (A : Bytes)
    (hx : isDigit x = false) :
    rpmBody rec (d ++ x :: A) d = rec (x :: A) [] := by
  obtain ⟨c, rest, rfl, hc⟩ := hd.head_digit
  have hall := hd.2
  obtain ⟨hc1, hc2, _⟩ := digit_facts c hc
  have e1 := takeWhile_append_stop isDigit (c :: rest) x A hall hx
  have e2 := takeWhile_all isDigit (c :: rest) hall
  have e3 := dropWhile_append_stop isDigit (c :: rest) x A hall hx
  have e4 := dropWhile_all isDigit (c :: rest) hall
  simp only [List.cons_append] at e1 e3
  unfold rpmBody
  simp only [List.cons_append, List.head?_cons, Option.some.injEq, hc1, hc2, or_self, decide_false, Bool.or_self,
    Bool.false_eq_true, if_false, List.cons_ne_nil, hc, if_true, e1, e2, e3, e4, cmpDigits_self, ne_eq,
    not_true_eq_false]

/-- a tilde against anything that is not a tilde: older -/
theorem rpmBody_tilde (rec : Bytes → Bytes → Int) (ra b : Bytes) (hb : b.head? ≠ some tilde) :
    rpmBody rec (tilde :: ra) b = -1 := by
  unfold rpmBody
  simp [hb]

theorem dropWhile_rsep_digitHead (d : Bytes) (hd : DigitRun d) (t : Bytes) : (d ++ t).dropWhile rsep = d ++ t := by
  obtain ⟨c, rest, rfl, hc⟩ := hd.head_digit
  obtain ⟨_, _, h⟩ := digit_facts c hc
  simp [List.dropWhile_cons, h]

theorem head_dropWhile_ne {p : UInt8 → Bool} (l : Bytes) (c : UInt8) (h : c ∉ l) : (l.dropWhile p).head? ≠ some c := by
  intro e
  have : c ∈ l.dropWhile p := List.mem_of_mem_head? e
  exact h ((List.dropWhile_sublist p).subset this)

/-- a numeric component and its dot: consumed on both sides -/
theorem rpmvercmpF_core_step (f : Nat) (d e : Bytes) (hd : DigitRun d) (he : DigitRun e) (A B : Bytes) :
    rpmvercmpF (f + 2) (d ++ dot :: (e ++ A)) (d ++ dot :: (e ++ B)) = rpmvercmpF (f + 1) (e ++ A) (e ++ B) := by
  rw [rpmvercmpF, dropWhile_rsep_digitHead d hd, dropWhile_rsep_digitHead d hd,
    rpmBody_digits _ d hd dot dot _ _ isDigit_dot isDigit_dot]
  rw [rpmvercmpF, rpmvercmpF]
  simp only [List.dropWhile_cons, rsep_dot, if_true]

/-- after the last numeric segment: '~' against the end or '+metadata' -/
theorem rpmvercmpF_final (f : Nat) (d : Bytes) (hd : DigitRun d) (ra rb : Bytes)
    (hrb : rb = [] ∨ ∃ c t, rb = c :: t ∧ isDigit c = false) (hnt : tilde ∉ rb) :
    rpmvercmpF (f + 2) (d ++ tilde :: ra) (d ++ rb) = -1 := by
  rw [rpmvercmpF, dropWhile_rsep_digitHead d hd, dropWhile_rsep_digitHead d hd]
  have hstep : rpmBody (rpmvercmpF (f + 1)) (d ++ tilde :: ra) (d ++ rb) = rpmvercmpF (f + 1) (tilde :: ra) rb := by
    rcases hrb with e | ⟨y, t, e, hy⟩
    · subst e; rw [List.append_nil]; exact rpmBody_digits_end _ d hd tilde ra isDigit_tilde
    · subst e; exact rpmBody_digits _ d hd tilde y ra t isDigit_tilde hy
  rw [hstep, rpmvercmpF]
  have ha : (tilde :: ra).dropWhile rsep = tilde :: ra := by simp [List.dropWhile_cons, rsep_tilde]
  rw [ha]
  exact rpmBody_tilde _ ra _ (head_dropWhile_ne rb tilde hnt)

theorem rpmvercmpF_core (runs : List Bytes) (hne : runs ≠ []) (hr : ∀ d ∈ runs, DigitRun d)
    (f : Nat) (hf : 2 * runs.length ≤ f) (ra rb : Bytes)
    (hrb : rb = [] ∨ ∃ c t, rb = c :: t ∧ isDigit c = false) (hnt : tilde ∉ rb) :
    rpmvercmpF f (core runs ++ tilde :: ra) (core runs ++ rb) = -1 := by
  induction runs generalizing f with
  | nil => exact absurd rfl hne
  | cons d rest ih =>
    cases rest with
    | nil =>
      obtain ⟨f', rfl⟩ : ∃ f', f = f' + 2 := ⟨f - 2, by simp at hf; omega⟩
      simp only [core, joinWith]
      exact rpmvercmpF_final f' d (hr d (by simp)) ra rb hrb hnt
    | cons e es =>
      obtain ⟨f', rfl⟩ : ∃ f', f = f' + 2 := ⟨f - 2, by simp at hf; omega⟩
      have := ih (by simp) (fun x hx => hr x (List.mem_cons_of_mem _ hx)) (f' + 1) (by simp at hf ⊢; omega)
      have hcore : ∀ t : Bytes, core (d :: e :: es) ++ t = d ++ dot :: (core (e :: es) ++ t) := by
        intro t; simp [core, joinWith]
      rw [hcore, hcore]
      obtain ⟨e0, hsplit⟩ : ∃ tl, core (e :: es) = e ++ tl := by
        cases es with
        | nil => exact ⟨[], by simp [core, joinWith]⟩
        | cons g gs => exact ⟨dot :: core (g :: gs), by simp [core, joinWith]⟩
      rw [hsplit, List.append_assoc, List.append_assoc,
        rpmvercmpF_core_step f' d e (hr d (by simp)) (hr e (by simp))]
      rw [← List.append_assoc, ← List.append_assoc, ← hsplit]
      exact this

/-- **rpm: a prerelease build sorts strictly before the corresponding release** under rpm's own
    rpmvercmp: `core~pre ta < core tb` for `tb` empty or starting with a non-digit ('+' metadata)
    and free of '~'. -/
theorem rpm_prerelease_sorts_before (runs : List Bytes) (hne : runs ≠ []) (hr : ∀ d ∈ runs, DigitRun d)
    (pre ta tb : Bytes) (htb : tb = [] ∨ ∃ c t, tb = c :: t ∧ isDigit c = false) (hnt : tilde ∉ tb) :
    rpmvercmp (core runs ++ tilde :: pre ++ ta) (core runs ++ tb) = -1 := by
  unfold rpmvercmp
  have hne' : core runs ++ tilde :: pre ++ ta ≠ core runs ++ tb := by
    intro e
    rw [show core runs ++ tilde :: pre ++ ta = core runs ++ (tilde :: (pre ++ ta)) by simp] at e
    have := List.append_cancel_left e
    rw [← this] at hnt
    exact hnt (by simp)
  simp only [hne', if_false]
  rw [show core runs ++ tilde :: pre ++ ta = core runs ++ tilde :: (pre ++ ta) by simp]
  apply rpmvercmpF_core runs hne hr _ _ (pre ++ ta) tb htb hnt
  have := core_length runs hne hr
  simp only [List.length_append, List.length_cons]
  omega

/-! ### the strings nfpm renders have that shape -/

/-! ### rpm: numeric order of the components -/

/-- two different numbers at the same position decide rpm's comparison -/
theorem rpmBody_digits_differ (rec : Bytes → Bytes → Int) (d1 d2 : Bytes) (h1 : DigitRun d1) (h2 : DigitRun d2)
    (A B : Bytes) (hA : NoDigitHead A) (hB : NoDigitHead B) (hlt : cmpDigits d1 d2 < 0) :
    rpmBody rec (d1 ++ A) (d2 ++ B) = -1 := by
  obtain ⟨ta, tb⟩ := takeWhile_digits_stop d1 A h1.2 hA
  obtain ⟨ta2, tb2⟩ := takeWhile_digits_stop d2 B h2.2 hB
  obtain ⟨c1, r1, e1, hc1⟩ := h1.head_digit
  obtain ⟨c2, r2, e2, hc2⟩ := h2.head_digit
  obtain ⟨p1, q1, _⟩ := digit_facts c1 hc1
  obtain ⟨p2, q2, _⟩ := digit_facts c2 hc2
  have hh1 : (d1 ++ A).head? = some c1 := by subst e1; rfl
  have hh2 : (d2 ++ B).head? = some c2 := by subst e2; rfl
  have hn1 : (d1 ++ A = []) = False := by subst e1; simp
  have hn2 : (d2 ++ B = []) = False := by subst e2; simp
  have hd2 : (d2 = []) = False := by subst e2; simp
  have hne : cmpDigits d1 d2 ≠ 0 := by omega
  unfold rpmBody
  simp only [hh1, hh2, Option.some.injEq, p1, p2, q1, q2, or_self, decide_false, Bool.or_self, Bool.false_eq_true,
    if_false, hn1, hn2, hc1, if_true, ta, tb, ta2, tb2, hd2, ne_eq, hne, not_false_eq_true, hlt]

/-- a numeric component and its dot are consumed on both sides, whatever follows -/
theorem rpmvercmpF_digits_dot (f : Nat) (d : Bytes) (hd : DigitRun d) (A B : Bytes) :
    rpmvercmpF (f + 2) (d ++ dot :: A) (d ++ dot :: B) = rpmvercmpF (f + 1) A B := by
  rw [rpmvercmpF, dropWhile_rsep_digitHead d hd, dropWhile_rsep_digitHead d hd,
    rpmBody_digits _ d hd dot dot _ _ isDigit_dot isDigit_dot]
  rw [rpmvercmpF, rpmvercmpF]
  simp only [List.dropWhile_cons, rsep_dot, if_true]

theorem rpmvercmpF_dotted (ps : List Bytes) (hps : ∀ d ∈ ps, DigitRun d) (f : Nat) (X Y : Bytes) :
    rpmvercmpF (f + 1 + ps.length) (dotted ps ++ X) (dotted ps ++ Y) = rpmvercmpF (f + 1) X Y := by
  induction ps generalizing f with
  | nil => simp [dotted]
  | cons p ps ih =>
    simp only [dotted, List.length_cons, List.append_assoc, List.cons_append]
    rw [show f + 1 + (ps.length + 1) = (f + ps.length) + 2 by omega,
      rpmvercmpF_digits_dot (f + ps.length) p (hps p (by simp)),
      show f + ps.length + 1 = f + 1 + ps.length by omega]
    exact ih (fun d hd => hps d (List.mem_cons_of_mem _ hd)) f

/-- **rpm: a different major.minor.patch orders numerically** under rpm's own rpmvercmp: two versions that
    share any number of leading numeric components and then carry the numbers `d1 < d2` compare as "older",
    whatever follows -/
theorem rpm_numeric_order (ps : List Bytes) (hps : ∀ d ∈ ps, DigitRun d) (d1 d2 : Bytes) (h1 : DigitRun d1)
    (h2 : DigitRun d2) (A B : Bytes) (hA : NoDigitHead A) (hB : NoDigitHead B) (hlt : digitsVal d1 < digitsVal d2) :
    rpmvercmp (dotted ps ++ (d1 ++ A)) (dotted ps ++ (d2 ++ B)) = -1 := by
  have hnum := (cmpDigits_numeric d1 d2 h1.2 h2.2).1.mpr hlt
  have hneq : dotted ps ++ (d1 ++ A) ≠ dotted ps ++ (d2 ++ B) := by
    intro e
    have e' := List.append_cancel_left e
    have t1 := (takeWhile_digits_stop d1 A h1.2 hA).1
    have t2 := (takeWhile_digits_stop d2 B h2.2 hB).1
    rw [e', t2] at t1
    subst t1
    omega
  unfold rpmvercmp
  simp only [hneq, if_false]
  have hl := dotted_length ps
  obtain ⟨f, hf⟩ : ∃ f, (dotted ps ++ (d1 ++ A)).length + (dotted ps ++ (d2 ++ B)).length + 1 = f + 1 + ps.length :=
    ⟨(dotted ps ++ (d1 ++ A)).length + (dotted ps ++ (d2 ++ B)).length - ps.length, by
      simp only [List.length_append]; omega⟩
  rw [hf, rpmvercmpF_dotted ps hps, rpmvercmpF, dropWhile_rsep_digitHead d1 h1, dropWhile_rsep_digitHead d2 h2]
  exact rpmBody_digits_differ _ d1 d2 h1 h2 A B hA hB hnum

example : rpmvercmp (b!"1.9.0") (b!"1.10.0~rc1") = -1 := by decide

/-- deb/ipk: with a prerelease the control version is `[epoch:]version~pre…`, without it `[epoch:]version…` -/
theorem deb_version_shape (i : VInfo) (hp : i.prerelease ≠ []) :
    debVersion false i = i.version ++ tilde :: i.prerelease ++
      ((if i.metadata ≠ [] then plus :: i.metadata else []) ++ (if i.release ≠ [] then minus :: i.release else [])) ∧
    debVersion false { i with prerelease := [] } = i.version ++
      ((if i.metadata ≠ [] then plus :: i.metadata else []) ++ (if i.release ≠ [] then minus :: i.release else [])) := by
  constructor <;> simp [debVersion, hp]

theorem rpm_version_shape (i : VInfo) (hp : i.prerelease ≠ []) :
    rpmVersion i = i.version ++ tilde :: replaceByte minus [underscore] i.prerelease ++
      (if i.metadata ≠ [] then plus :: i.metadata else []) ∧
    rpmVersion { i with prerelease := [] } = i.version ++ (if i.metadata ≠ [] then plus :: i.metadata else []) := by
  constructor <;> simp [rpmVersion, hp]

/-- non-vacuity: "1.2.3~rc.1+git-2" vs "1.2.3+git-2", and the semver split of "v1.2.3-rc.1+git" -/
example : verrevcmp (b!"1.2.3~rc.1+git") (b!"1.2.3+git") < 0 := by decide
example : rpmvercmp (b!"1.2.3~rc.1+git") (b!"1.2.3+git") = -1 := by decide
example : (SemVer.parse (b!"v1.2-rc.1+git")).map SemVer.render = some (b!"1.2.0-rc.1+git") := by decide
example : SemVer.parse (b!"1.02.3") = none := by decide

/-! ### the versions nfpm derives from a parsed version string order numerically -/

section ParsedOrder
open SemVer

theorem mem_takeWhile_true {α} (p : α → Bool) (l : List α) (x : α) (h : x ∈ l.takeWhile p) : p x = true := by
  induction l with
  | nil => simp at h
  | cons c t ih =>
    simp only [List.takeWhile_cons] at h
    split at h
    · rename_i hc
      simp only [List.mem_cons] at h
      rcases h with e | e
      · subst e; exact hc
      · exact ih e
    · simp at h

theorem digitRun_zero : DigitRun [48] := ⟨by simp, by intro x hx; simp at hx; subst hx; decide⟩

theorem takeNum_digitRun (s d r : Bytes) (h : takeNum s = some (d, r)) : DigitRun d := by
  cases s with
  | nil => simp [takeNum] at h
  | cons c rest =>
    simp only [takeNum] at h
    split at h
    · simp only [Option.some.injEq, Prod.mk.injEq] at h; rw [← h.1]; exact digitRun_zero
    · split at h
      · rename_i hc
        simp only [Option.some.injEq, Prod.mk.injEq] at h
        rw [← h.1]
        refine ⟨by simp, ?_⟩
        intro x hx
        simp only [List.mem_cons] at hx
        rcases hx with e | e
        · subst e; exact hc
        · exact mem_takeWhile_true isDigit _ x e
      · simp at h

theorem optNum_digitRun (s : Bytes) : DigitRun ((optNum s).1.getD [48]) := by
  unfold optNum
  split
  · split
    · split
      · rename_i d r h; simpa using takeNum_digitRun _ d r h
      · exact digitRun_zero
    · exact digitRun_zero
  · exact digitRun_zero

theorem optNum_fst_digitRun (s : Bytes) (d : Bytes) (h : (optNum s).1 = some d) : DigitRun d := by
  have := optNum_digitRun s
  rw [h] at this
  simpa using this

/-- every numeric component of a parsed semantic version is a non-empty digit string -/
theorem parse_components (s : Bytes) (v : V) (h : parse s = some v) :
    DigitRun v.major ∧ DigitRun v.minor ∧ DigitRun v.patch := by
  unfold parse at h
  simp only [] at h
  split at h
  · simp at h
  · rename_i maj r hmaj
    have hM := takeNum_digitRun _ maj r hmaj
    simp only [Option.ite_none_left_eq_some, Option.some.injEq] at h
    obtain ⟨_, _, _, hv⟩ := h
    subst hv
    refine ⟨hM, optNum_digitRun r, ?_⟩
    simp only []
    split
    · exact optNum_digitRun _
    · exact digitRun_zero

/-- **the versions nfpm derives order numerically** (deb, ipk): for two version strings that parse as semantic
    versions, the `major.minor.patch` nfpm packages (`SemVer.core`, what `withDefaultsVersion` stores: see
    `split_from_version`) compare under dpkg's verrevcmp as the number triples do, whatever follows them -/
theorem dpkg_parsed_versions_order (s1 s2 : Bytes) (v1 v2 : V) (h1 : parse s1 = some v1) (h2 : parse s2 = some v2)
    (A B : Bytes) (hA : NoDigitHead A) (hB : NoDigitHead B)
    (hlt : digitsVal v1.major < digitsVal v2.major ∨ (v1.major = v2.major ∧ digitsVal v1.minor < digitsVal v2.minor) ∨
      (v1.major = v2.major ∧ v1.minor = v2.minor ∧ digitsVal v1.patch < digitsVal v2.patch)) :
    verrevcmp (SemVer.core v1 ++ A) (SemVer.core v2 ++ B) < 0 := by
  obtain ⟨a1, b1, c1⟩ := parse_components s1 v1 h1
  obtain ⟨a2, b2, c2⟩ := parse_components s2 v2 h2
  have := dpkg_semver_order v1.major v1.minor v1.patch v2.major v2.minor v2.patch A B a1 b1 c1 a2 b2 c2 hA hB hlt
  simpa [SemVer.core, List.append_assoc] using this

/-- what deb / ipk write after the version is empty or starts with '~', '+' or '-': never a digit -/
theorem deb_tail_noDigitHead (i : VInfo) :
    ∃ T, debVersion false i = i.version ++ T ∧ NoDigitHead T := by
  refine ⟨(if i.prerelease ≠ [] then tilde :: i.prerelease else [])
    ++ (if i.metadata ≠ [] then plus :: i.metadata else [])
    ++ (if i.release ≠ [] then minus :: i.release else []), by simp [debVersion], ?_⟩
  unfold NoDigitHead
  by_cases hp : i.prerelease = []
  · by_cases hm : i.metadata = []
    · by_cases hr : i.release = []
      · left; simp [hp, hm, hr]
      · right; exact ⟨minus, i.release, by simp [hp, hm, hr], by decide⟩
    · right; exact ⟨plus, i.metadata ++ (if i.release ≠ [] then minus :: i.release else []), by simp [hp, hm], by decide⟩
  · right
    exact ⟨tilde, i.prerelease ++ ((if i.metadata ≠ [] then plus :: i.metadata else [])
      ++ (if i.release ≠ [] then minus :: i.release else [])), by simp [hp], by decide⟩

example : (parse (b!"v1.9")).map SemVer.core = some (b!"1.9.0") := by decide

end ParsedOrder

/-! ### rpm: the same for parsed versions -/

/-- rpm: the three cases of a semantic version – major, minor or patch differs -/
theorem rpm_semver_order (M1 m1 p1 M2 m2 p2 A B : Bytes)
    (hM1 : DigitRun M1) (hm1 : DigitRun m1) (hp1 : DigitRun p1) (hM2 : DigitRun M2) (hm2 : DigitRun m2)
    (hp2 : DigitRun p2) (hA : NoDigitHead A) (hB : NoDigitHead B)
    (hlt : digitsVal M1 < digitsVal M2 ∨ (M1 = M2 ∧ digitsVal m1 < digitsVal m2) ∨
      (M1 = M2 ∧ m1 = m2 ∧ digitsVal p1 < digitsVal p2)) :
    rpmvercmp (M1 ++ dot :: m1 ++ dot :: p1 ++ A) (M2 ++ dot :: m2 ++ dot :: p2 ++ B) = -1 := by
  have hdot : ∀ X : Bytes, NoDigitHead (dot :: X) := fun X => Or.inr ⟨dot, X, rfl, isDigit_dot⟩
  rcases hlt with h | ⟨e, h⟩ | ⟨e, e', h⟩
  · have := rpm_numeric_order [] (by simp) M1 M2 hM1 hM2 (dot :: m1 ++ dot :: p1 ++ A) (dot :: m2 ++ dot :: p2 ++ B)
      (hdot _) (hdot _) h
    simpa [dotted] using this
  · subst e
    have := rpm_numeric_order [M1] (by simpa using hM1) m1 m2 hm1 hm2 (dot :: p1 ++ A) (dot :: p2 ++ B)
      (hdot _) (hdot _) h
    simpa [dotted] using this
  · subst e; subst e'
    have := rpm_numeric_order [M1, m1] (by intro d hd; simp at hd; rcases hd with r | r <;> (subst r; assumption))
      p1 p2 hp1 hp2 A B hA hB h
    simpa [dotted] using this

/-- **rpm: the versions nfpm derives order numerically**: the `M.m.p` of two parsable version strings compare under
    rpmvercmp as the number triples do, whatever rpm.formatVersion appends ('~prerelease', '+metadata') -/
theorem rpm_parsed_versions_order (s1 s2 : Bytes) (v1 v2 : SemVer.V) (h1 : SemVer.parse s1 = some v1)
    (h2 : SemVer.parse s2 = some v2) (A B : Bytes) (hA : NoDigitHead A) (hB : NoDigitHead B)
    (hlt : digitsVal v1.major < digitsVal v2.major ∨ (v1.major = v2.major ∧ digitsVal v1.minor < digitsVal v2.minor) ∨
      (v1.major = v2.major ∧ v1.minor = v2.minor ∧ digitsVal v1.patch < digitsVal v2.patch)) :
    rpmvercmp (SemVer.core v1 ++ A) (SemVer.core v2 ++ B) = -1 := by
  obtain ⟨a1, b1, c1⟩ := parse_components s1 v1 h1
  obtain ⟨a2, b2, c2⟩ := parse_components s2 v2 h2
  have := rpm_semver_order v1.major v1.minor v1.patch v2.major v2.minor v2.patch A B a1 b1 c1 a2 b2 c2 hA hB hlt
  simpa [SemVer.core, List.append_assoc] using this

/-- what rpm.formatVersion writes after the version is empty or starts with '~' or '+': never a digit -/
theorem rpm_tail_noDigitHead (i : VInfo) : ∃ T, rpmVersion i = i.version ++ T ∧ NoDigitHead T := by
  refine ⟨(if i.prerelease ≠ [] then tilde :: replaceByte minus [underscore] i.prerelease else [])
    ++ (if i.metadata ≠ [] then plus :: i.metadata else []), by simp [rpmVersion], ?_⟩
  unfold NoDigitHead
  by_cases hp : i.prerelease = []
  · by_cases hm : i.metadata = []
    · left; simp [hp, hm]
    · right; exact ⟨plus, i.metadata, by simp [hp, hm], by decide⟩
  · right
    exact ⟨tilde, replaceByte minus [underscore] i.prerelease ++ (if i.metadata ≠ [] then plus :: i.metadata else []),
      by simp [hp], by decide⟩

/-! ### dpkg's complete comparison: numeric order with revisions and epochs -/

/-- **deb / ipk, full version strings with a revision**: the numeric order of the components decides dpkg's complete
    comparison (epoch, upstream, revision) – `P.d1 A-r1 < P.d2 B-r2` for d1 < d2, every continuation A, B that does not
    start with a digit (hyphens allowed: the split is at the last one) and all hyphen-free revisions -/
theorem dpkg_compare_numeric (ps : List Bytes) (hps : ∀ d ∈ ps, DigitRun d) (d1 d2 : Bytes) (h1 : DigitRun d1)
    (h2 : DigitRun d2) (A B : Bytes) (hA : NoDigitHead A) (hB : NoDigitHead B) (hlt : digitsVal d1 < digitsVal d2)
    (r1 r2 : Bytes) (hr1 : minus ∉ r1) (hr2 : minus ∉ r2)
    (hc1 : colon ∉ (dotted ps ++ (d1 ++ A)) ++ minus :: r1) (hc2 : colon ∉ (dotted ps ++ (d2 ++ B)) ++ minus :: r2) :
    dpkgCompare ((dotted ps ++ (d1 ++ A)) ++ minus :: r1) ((dotted ps ++ (d2 ++ B)) ++ minus :: r2) < 0 := by
  unfold dpkgCompare
  rw [dpkgSplit_rev _ _ hc1 hr1, dpkgSplit_rev _ _ hc2 hr2]
  simp only [cmpDigits_self, ne_eq, not_true_eq_false, if_false]
  have h := dpkg_numeric_order ps hps d1 d2 h1 h2 A B hA hB hlt
  have hne0 : verrevcmp (dotted ps ++ (d1 ++ A)) (dotted ps ++ (d2 ++ B)) ≠ 0 := by omega
  simp only [hne0, not_false_eq_true, if_true]
  exact h

/-- … and the same with one epoch on both sides -/
theorem dpkg_compare_numeric_epoch (e : Bytes) (he : colon ∉ e) (ps : List Bytes) (hps : ∀ d ∈ ps, DigitRun d)
    (d1 d2 : Bytes) (h1 : DigitRun d1) (h2 : DigitRun d2) (A B : Bytes) (hA : NoDigitHead A) (hB : NoDigitHead B)
    (hlt : digitsVal d1 < digitsVal d2) (r1 r2 : Bytes) (hr1 : minus ∉ r1) (hr2 : minus ∉ r2) :
    dpkgCompare (e ++ colon :: ((dotted ps ++ (d1 ++ A)) ++ minus :: r1))
      (e ++ colon :: ((dotted ps ++ (d2 ++ B)) ++ minus :: r2)) < 0 := by
  unfold dpkgCompare
  rw [dpkgSplit_epoch_rev _ _ _ he hr1, dpkgSplit_epoch_rev _ _ _ he hr2]
  simp only [cmpDigits_self, ne_eq, not_true_eq_false, if_false]
  have h := dpkg_numeric_order ps hps d1 d2 h1 h2 A B hA hB hlt
  have hne0 : verrevcmp (dotted ps ++ (d1 ++ A)) (dotted ps ++ (d2 ++ B)) ≠ 0 := by omega
  simp only [hne0, not_false_eq_true, if_true]
  exact h

example : dpkgCompare (b!"1:1.9.3~rc-1+git-4") (b!"1:1.10.0-1") < 0 := by decide

end Nfpm.Props.C14
