import NfpmModel.Merge
import NfpmModel.Spec.PlanSpec
import NfpmModel.Generated.G5KeyTree
/-
  C13  Overrides affect only their format; per-packager entries stay in theirs.

  For every configuration (any base, any override blocks, any values – no bound):
    leaf_law_base_path       every overridable leaf: the effective value is the override's value
                             when the block sets it to a non-empty value (lists wholesale, map
                             keys whenever present), else the base value – and nothing else changes
    leaf_law_override_only   leaves only the block holds (new map keys) are added iff they win
    no_block_gives_base      a format without an override block gets the base settings
    other_blocks_irrelevant  blocks of other formats have no effect
    contents_stay_in_format  with a block, only entries addressed to the format or to all remain;
    tagged_entries_never_cross   together with planning's relevance filter, a tagged entry never
                             reaches another format's plan, block or no block
    validate_rejects_unregistered_override
-/
set_option linter.unusedSimpArgs false

namespace Nfpm.Props.C13
open Nfpm B

theorem mergeOne_fst (ov : Leaves) (x : Bytes × Val) : (mergeOne ov x).1 = x.1 := by
  unfold mergeOne
  cases ov.get x.1 with
  | none => rfl
  | some w => simp only []; split <;> rfl

theorem find_map_mergeOne (ov : Leaves) (l : Leaves) (p : Bytes) :
    (l.map (mergeOne ov)).find? (·.1 == p) = (l.find? (·.1 == p)).map (mergeOne ov) := by
  induction l with
  | nil => rfl
  | cons x xs ih =>
    simp only [List.map_cons, List.find?_cons, mergeOne_fst]
    split
    · rfl
    · exact ih

/-- **per-leaf merge law** for a path of the base settings: the effective value is the
    override's when the block holds a winning (non-empty; map key: present) value, else the base's -/
theorem leaf_law_base_path (base ov : Leaves) (p : Bytes) (v : Val) (hb : base.get p = some v) :
    (mergeLeaves base ov).get p =
      match ov.get p with
      | some w => if wins p w then some w else some v
      | none => some v := by
  unfold Leaves.get at hb
  cases hf : base.find? (·.1 == p) with
  | none => rw [hf] at hb; simp at hb
  | some x =>
    rw [hf] at hb
    simp only [Option.map_some, Option.some.injEq] at hb
    have hxp : x.1 = p := by
      have := List.find?_some hf
      simpa using this
    have h1 : (mergeLeaves base ov).get p = some (mergeOne ov x).2 := by
      unfold mergeLeaves Leaves.get
      rw [List.find?_append, find_map_mergeOne, hf]
      simp
    rw [h1]
    unfold mergeOne
    rw [hxp]
    cases ov.get p with
    | none => simp [hb]
    | some w =>
      simp only []
      split
      · rfl
      · simp [hb]

/-- leaves that only the block holds (e.g. new keys of `deb.fields`) are added iff they win;
    nothing else is added -/
theorem leaf_law_override_only (base ov : Leaves) (p : Bytes) (hb : base.get p = none) :
    (mergeLeaves base ov).get p = ((extraLeaves base ov).find? (·.1 == p)).map (·.2) := by
  unfold mergeLeaves Leaves.get
  rw [List.find?_append, find_map_mergeOne]
  unfold Leaves.get at hb
  cases hf : base.find? (·.1 == p) with
  | none => simp
  | some x => rw [hf] at hb; simp at hb

theorem extraLeaves_win (base ov : Leaves) : ∀ x ∈ extraLeaves base ov, base.get x.1 = none ∧ wins x.1 x.2 = true := by
  intro x hx
  have := (List.mem_filter.mp hx).2
  simp only [Bool.and_eq_true, Option.isNone_iff_eq_none] at this
  exact this

/-- a format without an override block gets the base settings, untouched -/
theorem no_block_gives_base (c : CfgModel) (f : Bytes) (h : c.block f = none) :
    getEffective c f = (c.base, c.baseContents) := by
  simp [getEffective, h]

/-- override blocks of other formats have no effect on a format's effective settings -/
theorem other_blocks_irrelevant (c c' : CfgModel) (f : Bytes)
    (hb : c.base = c'.base) (hc : c.baseContents = c'.baseContents) (hf : c.block f = c'.block f) :
    getEffective c f = getEffective c' f := by
  simp [getEffective, hb, hc, hf]

/-- with an override block, only entries addressed to the format or to every format remain -/
theorem contents_stay_in_format (c : CfgModel) (f : Bytes) (ov : Leaves) (oc : List Content)
    (h : c.block f = some (ov, oc)) :
    ∀ x ∈ (getEffective c f).2, x.packager = f ∨ x.packager = [] := by
  intro x hx
  simp only [getEffective, h] at hx
  have := (List.mem_filter.mp hx).2
  simpa using this

/-- lists are replaced wholesale: the effective contents are the block's when it has any -/
theorem contents_wholesale (c : CfgModel) (f : Bytes) (ov : Leaves) (oc : List Content)
    (h : c.block f = some (ov, oc)) (hne : oc ≠ []) :
    (getEffective c f).2 = oc.filter (fun x => x.packager == f || x.packager == []) := by
  simp [getEffective, h, hne]

/-- a content entry tagged for another packager never reaches this format's plan – whether or
    not an override block exists (the relevance filter of planning, C05) -/
theorem tagged_entries_never_cross (f : Bytes) (hf : f ≠ []) (x : Content)
    (htag : x.packager ≠ [] ∧ x.packager ≠ f) : isRelevant f x = false := by
  unfold isRelevant
  simp [hf, htag.1, htag.2]

/-- validation rejects an override block for a format without a registered packager -/
theorem validate_rejects_unregistered_override (c : CfgModel) (registered : List Bytes)
    (k : Bytes) (hk : k ∈ c.overrides.map (·.1)) (hn : k ∉ registered) :
    overridesRegistered c registered = false := by
  unfold overridesRegistered
  rw [Bool.eq_false_iff]
  intro h
  obtain ⟨o, ho, rfl⟩ := List.mem_map.mp hk
  have := List.all_eq_true.mp h o ho
  exact hn (by simpa using this)

/-- non-vacuity: a base with depends, an override replacing it and adding a map key -/
example :
    (mergeLeaves [(b!"depends", .list [b!"a", b!"b"]), (b!"deb.compression", .str (b!"xz")), (b!"umask", .num 18)]
       [(b!"depends", .list [b!"c"]), (b!"deb.compression", .str []), (b!"deb.fields.{X}", .str [])]).map (·.2)
      = [.list [b!"c"], .str (b!"xz"), .num 18, .str []] := by decide

/-- the translator regenerated, on this run and from the working tree, every table this property is tied through
    (when an extraction fails the reviewed table stands in so that the model still compiles, and this stops checking) -/
theorem translator_tables_regenerated : Generated.extracted_G5KeyTree = true := by decide

end Nfpm.Props.C13
