import NfpmModel.Bytes
/-
  Path model: path/filepath (unix) Clean / Join / Dir / Base / Rel and the
  helpers of files/files.go built on them:
    ToNixPath, NormalizeAbsoluteFilePath, NormalizeAbsoluteDirPath,
    AsRelativePath, AsExplicitRelativePath, sortedParents.
  Component-stack formulation of Clean (validated byte-for-byte against Go by
  the correspondence harness, family `path`).
-/
namespace Nfpm
open B

namespace Path

/-- one step of lexical resolution; `stack` is kept top-first (reversed). -/
def step (rooted : Bool) (stack : List Bytes) (comp : Bytes) : List Bytes :=
  if comp = [] then stack
  else if comp = dotS then stack
  else if comp = dotdotS then
    match stack with
    | [] => if rooted then [] else [dotdotS]
    | t :: rest => if t = dotdotS then dotdotS :: t :: rest else rest
  else comp :: stack

/-- resolve a component list; result is in path order. -/
def resolve (rooted : Bool) (comps : List Bytes) : List Bytes :=
  (comps.foldl (step rooted) []).reverse

def isRooted : Bytes → Bool
  | c :: _ => c == slash
  | [] => false

/-- filepath.Clean (unix). -/
def clean (s : Bytes) : Bytes :=
  if s = [] then dotS
  else
    let comps := resolve (isRooted s) (splitOn slash s)
    if isRooted s then slash :: joinWith slash comps
    else if comps = [] then dotS else joinWith slash comps

/-- files.ToNixPath (ToSlash is the identity on unix). -/
def toNix (s : Bytes) : Bytes := clean s

/-- filepath.Join(a, b) -/
def join2 (a b : Bytes) : Bytes :=
  if a = [] then (if b = [] then [] else clean b)
  else if b = [] then clean a
  else clean (a ++ slash :: b)

/-- files.NormalizeAbsoluteFilePath, transcription: ToNixPath(filepath.Join("/", src)) -/
def normFileT (s : Bytes) : Bytes := clean (join2 slashS s)

/-- files.NormalizeAbsoluteFilePath in component form (used by the model; equal to
    `normFileT` — theorem `normFile_eq_T` in Lemmas/PathLemmas). -/
def normFile (s : Bytes) : Bytes := slash :: joinWith slash (resolve true (splitOn slash s))

/-- files.NormalizeAbsoluteDirPath -/
def normDir (s : Bytes) : Bytes := normFile (trimRight slash s) ++ [slash]

/-- files.AsRelativePath -/
def asRel (p : Bytes) : Bytes :=
  let c := trimLeft slash (toNix p)
  if c != [] && c != dotS && hasSuffix p slashS then c ++ [slash] else c

/-- files.AsExplicitRelativePath -/
def asExplicitRel (p : Bytes) : Bytes := dot :: slash :: asRel p

/-- bytes up to and including the last slash (empty if there is none). -/
def uptoLastSlash (s : Bytes) : Bytes :=
  (s.reverse.dropWhile (· != slash)).reverse

/-- filepath.Dir (unix) -/
def dir (s : Bytes) : Bytes := clean (uptoLastSlash s)

/-- filepath.Base (unix) -/
def base (s : Bytes) : Bytes :=
  if s = [] then dotS
  else
    let t := trimRight slash s
    let b := (t.reverse.takeWhile (· != slash)).reverse
    if b = [] then slashS else b

/-- iterate Dir as files.sortedParents does; fuel = length bound. -/
def parentsLoop : Nat → Bytes → List Bytes → List Bytes
  | 0, _, acc => acc
  | fuel + 1, b, acc =>
    let d := dir b
    if d = dotS then acc else parentsLoop fuel d (toNix d :: acc)

/-- files.sortedParents: parents of `dst`, outermost first. -/
def sortedParents (dst : Bytes) : List Bytes :=
  let b := trim slash (normFile dst)
  parentsLoop (b.length + 1) b []

/-- non-empty prefixes of a list, shortest first -/
def nonEmptyPrefixes {α} : List α → List (List α)
  | [] => []
  | x :: xs => [x] :: (nonEmptyPrefixes xs).map (x :: ·)

/-- component-level form of sortedParents (compared with the transcription
    `sortedParents` on every string of the bounded-exhaustive path family; used
    by the model and the parent-closure proof): the non-empty proper prefixes
    of the normalised destination's components. -/
def sortedParentsC (dst : Bytes) : List Bytes :=
  (nonEmptyPrefixes (resolve true (splitOn slash dst)).dropLast).map (joinWith slash)

/-- common prefix strip for Rel -/
def stripCommon : List Bytes → List Bytes → List Bytes × List Bytes
  | a :: as, b :: bs => if a = b then stripCommon as bs else (a :: as, b :: bs)
  | as, bs => (as, bs)

/-- components of a *cleaned* path (rooted flag, proper components). -/
def compsOfClean (s : Bytes) : Bool × List Bytes :=
  if s = dotS then (false, [])
  else if isRooted s then (true, (splitOn slash (s.drop 1)).filter (· ≠ []))
  else (false, splitOn slash s)

/-- filepath.Rel (unix).  `none` = error. -/
def rel (basep targ : Bytes) : Option Bytes :=
  let b := clean basep
  let t := clean targ
  if b = t then some dotS
  else
    let (br, bc) := compsOfClean b
    -- Go only rewrites a base of "." to ""; a target "." stays a component
    let (tr, tc) := if t = dotS then (false, [dotS]) else compsOfClean t
    if br != tr then none
    else
      let (rb, rt) := stripCommon bc tc
      match rb, rt with
      | x :: _, _ :: _ => if x = dotdotS then none
                          else some (joinWith slash (rb.map (fun _ => dotdotS) ++ rt))
      | [], _ => some (joinWith slash rt)
      | x :: _, [] => if x = dotdotS then none
                      else some (joinWith slash (rb.map (fun _ => dotdotS)))

end Path
end Nfpm
