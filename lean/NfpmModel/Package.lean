import NfpmModel.Ar
import NfpmModel.Tar
import NfpmModel.Pax
import NfpmModel.Cpio
import NfpmModel.RpmHdr
/-
  Whole packages: how the five formats assemble the container models (ar, tar, PAX, cpio, rpm header) around
  compressed streams, and readers that take the assembly apart again.

  Compression is a parameter: a compressor `z : Bytes → Bytes` with a decompressor `u : Bytes → Option Bytes`
  (gzip, xz, zstd, none – library code, not modelled); the theorems assume exactly `u (z x) = some x`.
  For apk the reader of a multi-member gzip stream is the parameter `uAll` with `uAll (z a ++ z b ++ …) = a ++ b ++ …`.
-/
namespace Nfpm.Pkg
open Nfpm B

/-! ### deb: ar of debian-binary, control.tar.gz, data.tar<ext> (and an optional signature member) -/

def debianBinary : Ar.Member := { name := b!"debian-binary", body := b!"2.0" ++ [10] }

def debFile (mtime : Int) (zc zd : Bytes → Bytes) (dataName : Bytes) (control data : List Tar.Member)
    (sig : Option Ar.Member) : Bytes :=
  Ar.file mtime ([debianBinary, { name := b!"control.tar.gz", body := zc (Tar.archive control) },
    { name := dataName, body := zd (Tar.archive data) }] ++ sig.toList)

structure Deb where
  control : List Tar.Member
  dataName : Bytes
  data : List Tar.Member
  sig : Option Ar.Member
deriving DecidableEq, Repr

def readDeb (uc ud : Bytes → Option Bytes) (s : Bytes) : Option Deb :=
  match Ar.read s with
  | some (b :: c :: d :: rest) =>
    if b ≠ debianBinary ∨ c.name ≠ b!"control.tar.gz" ∨ rest.length > 1 then none
    else match uc c.body, ud d.body with
      | some ct, some dt =>
        match Tar.read ct, Tar.read dt with
        | some cm, some dm => some { control := cm, dataName := d.name, data := dm, sig := rest.head? }
        | _, _ => none
      | _, _ => none
  | _ => none

/-! ### ipk: gzip tar of ./debian-binary, ./control.tar.gz, ./data.tar.gz -/

def ipkOuter (mtime : Nat) (z : Bytes → Bytes) (control data : List Tar.Member) : List Tar.Member :=
  [ { hdr := { name := b!"./debian-binary", mode := 0o644, size := 4, mtime := mtime }, body := b!"2.0" ++ [10] },
    { hdr := { name := b!"./control.tar.gz", mode := 0o644, size := (z (Tar.archive control)).length, mtime := mtime },
      body := z (Tar.archive control) },
    { hdr := { name := b!"./data.tar.gz", mode := 0o644, size := (z (Tar.archive data)).length, mtime := mtime },
      body := z (Tar.archive data) } ]

def ipkFile (mtime : Nat) (z : Bytes → Bytes) (control data : List Tar.Member) : Bytes :=
  z (Tar.archive (ipkOuter mtime z control data))

def readIpk (u : Bytes → Option Bytes) (s : Bytes) : Option (List Tar.Member × List Tar.Member) :=
  match u s with
  | none => none
  | some outer =>
    match Tar.read outer with
    | some [b, c, d] =>
      if b.hdr.name ≠ b!"./debian-binary" ∨ b.body ≠ b!"2.0" ++ [10] ∨ c.hdr.name ≠ b!"./control.tar.gz"
          ∨ d.hdr.name ≠ b!"./data.tar.gz" then none
      else match u c.body, u d.body with
        | some ct, some dt =>
          match Tar.read ct, Tar.read dt with
          | some cm, some dm => some (cm, dm)
          | _, _ => none
        | _, _ => none
    | _ => none

/-! ### archlinux: one zstd tar (PAX-capable) -/

def archFile (z : Bytes → Bytes) (ms : List Tar.PMember) : Bytes := z (Tar.paxArchive ms)

def readArch (u : Bytes → Option Bytes) (s : Bytes) : Option (List Tar.PMember) := (u s).bind Tar.paxRead

/-! ### apk: gzip members [signature] control data; the first ones are tar streams cut before the end marker -/

/-- a tar stream without its end-of-archive marker -/
def cut (ms : List Tar.PMember) : Bytes := (ms.flatMap Tar.expand).flatMap Tar.member

def apkFile (z : Bytes → Bytes) (sig : Option (List Tar.PMember)) (control data : List Tar.PMember) : Bytes :=
  (match sig with | some s => z (cut s) | none => []) ++ z (cut control) ++ z (Tar.paxArchive data)

/-- what a reader of the concatenated gzip members sees: one tar stream -/
def apkStream (sig : Option (List Tar.PMember)) (control data : List Tar.PMember) : Bytes :=
  (match sig with | some s => cut s | none => []) ++ cut control ++ Tar.paxArchive data

/-! ### rpm: lead, signature header, header, compressed cpio payload -/

def rpmFile (nv : Bytes) (z : Bytes → Bytes) (sig hdr : List RpmHdr.Entry) (payload : List Cpio.Entry) : Bytes :=
  RpmHdr.file nv sig hdr (z (Cpio.archive payload))

structure Rpm where
  leadName : Bytes
  sig : List RpmHdr.Entry
  hdr : List RpmHdr.Entry
  /-- entries as a cpio reader reports them: running inode numbers, effective modes -/
  payload : List Cpio.REntry
deriving Repr

def readRpm (u : Bytes → Option Bytes) (s : Bytes) : Option Rpm :=
  match RpmHdr.readFile s with
  | none => none
  | some f =>
    match u f.payload with
    | none => none
    | some cp => (Cpio.read cp).map (fun es => { leadName := f.leadName, sig := f.sig, hdr := f.hdr, payload := es })

end Nfpm.Pkg
