import NfpmModel.Merge
import NfpmModel.Version
import NfpmModel.Payload
/-
  Model of the control metadata each packager renders from an nfpm.Info
  (given as flattened leaves, Go field paths):
    deb   controlTemplate + join / multiline / nonEmpty, SetPackagerDefaults, createTriggers
    ipk   controlTemplate, SetPackagerDefaults, stripDisallowedFields
    apk   .PKGINFO template
    arch  createPkginfo / writeKVPairs
    rpm   buildRPMMeta (the tag values handed to rpmpack)
-/
namespace Nfpm
open B

namespace Leaves
def str (l : Leaves) (p : Bytes) : Bytes := match l.get p with | some (.str b) => b | _ => []
def lst (l : Leaves) (p : Bytes) : List Bytes := match l.get p with | some (.list x) => x | _ => []
def flag (l : Leaves) (p : Bytes) : Bool := match l.get p with | some (.bool b) => b | _ => false
/-- entries of a map-typed field, in key order (paths `prefix{key}`; the dump is key-sorted) -/
def mapEntries (l : Leaves) (pfx : Bytes) : List (Bytes × Bytes) :=
  l.filterMap (fun (p, v) =>
    if hasPrefix p pfx && hasSuffix p [125] then
      match v with
      | .str b => some ((p.drop pfx.length).dropLast, b)
      | _ => none
    else none)
end Leaves

def vinfoOf (l : Leaves) (archOverridePath : Bytes) : VInfo :=
  { name := l.str b!"Name", arch := l.str b!"Arch", epoch := l.str b!"Epoch", version := l.str b!"Version",
    schema := l.str b!"VersionSchema", release := l.str b!"Release", prerelease := l.str b!"Prerelease",
    metadata := l.str b!"VersionMetadata", archOverride := l.str archOverridePath, platform := l.str b!"Platform" }

/-- template helper `join`: strings.Trim(strings.Join(strs, ", "), " ") -/
def tJoin (items : List Bytes) : Bytes := trim space (joinSep b!", " items)

/-- template helper `nonEmpty` -/
def tNonEmpty (items : List Bytes) : List Bytes := (items.map trimSpace).filter (· ≠ [])

/-- bufio.ScanLines over a string: split on '\n', drop one trailing '\r' per line, no final empty line -/
def scanLines (s : Bytes) : List Bytes :=
  let ls := splitOn nl s
  let ls := if ls.getLast? = some [] then ls.dropLast else ls
  ls.map (fun l => if l.getLast? = some 13 then l.dropLast else l)

/-- a control field at the logical level: key, first line, continuation lines ("" = blank line) -/
structure Field where
  key : Bytes
  first : Bytes
  conts : List Bytes := []
deriving DecidableEq, Repr

/-- how a field is written: `Key: first` and each continuation as `\n ` + line, a blank one as ` .` -/
def renderField (f : Field) : Bytes :=
  f.key ++ b!": " ++ f.first ++ f.conts.flatMap (fun c => nl :: space :: (if c = [] then [dot] else c))

/-- a control file: fields separated and terminated by newlines -/
def renderControl (fs : List Field) : Bytes := joinWith nl (fs.map renderField) ++ [nl]

/-- template helper `multiline` of deb / ipk at the logical level: (first line, further lines) -/
def multilineParts (desc : Bytes) : Bytes × List Bytes :=
  match scanLines (trimSpace desc) with
  | [] => ([], [])
  | first :: rest => (trimSpace first, rest.map trimSpace)

def optField (key v : Bytes) : List Field := if v = [] then [] else [{ key, first := v }]
def listField (key : Bytes) (items : List Bytes) : List Field := if items = [] then [] else [{ key, first := tJoin items }]

def debMaintainer (m : Bytes) : Bytes := if m = [] then b!"Unset Maintainer <unset@localhost>" else m
def ipkMaintainer (m : Bytes) : Bytes := if trimSpace m = [] then b!"Unset Maintainer <unset@localhost>" else m
def defaultPriority (p : Bytes) : Bytes := if p = [] then b!"optional" else p

/-- the fields of the deb control file, in template order -/
def debFields (l : Leaves) (installedSizeKiB : Nat) : List Field :=
  let vi := vinfoOf l b!"Deb.Arch"
  let d := multilineParts (l.str b!"Description")
  [ { key := b!"Package", first := l.str b!"Name" },
    { key := b!"Version", first := debVersion true vi },
    { key := b!"Section", first := l.str b!"Section" },
    { key := b!"Priority", first := defaultPriority (l.str b!"Priority") },
    { key := b!"Architecture", first := debControlArch vi } ]
  ++ optField b!"License" (l.str b!"License")
  ++ optField b!"Maintainer" (debMaintainer (l.str b!"Maintainer"))
  ++ [ { key := b!"Installed-Size", first := natToDec installedSizeKiB } ]
  ++ listField b!"Replaces" (l.lst b!"Replaces")
  ++ listField b!"Provides" (tNonEmpty (l.lst b!"Provides"))
  ++ listField b!"Pre-Depends" (l.lst b!"Deb.Predepends")
  ++ listField b!"Depends" (l.lst b!"Depends")
  ++ listField b!"Recommends" (l.lst b!"Recommends")
  ++ listField b!"Suggests" (l.lst b!"Suggests")
  ++ listField b!"Conflicts" (l.lst b!"Conflicts")
  ++ listField b!"Breaks" (l.lst b!"Deb.Breaks")
  ++ optField b!"Homepage" (l.str b!"Homepage")
  ++ [ { key := b!"Description", first := d.1, conts := d.2 } ]
  ++ (l.mapEntries b!"Deb.Fields.{").filterMap (fun (k, v) => if v = [] then none else some { key := k, first := v })

/-- deb ./control -/
def debControl (l : Leaves) (installedSizeKiB : Nat) : Bytes := renderControl (debFields l installedSizeKiB)

/-- deb ./triggers (deb.createTriggers) -/
def debTriggers (l : Leaves) : Bytes :=
  let dir (name path : Bytes) : Bytes := (l.lst path).flatMap (fun t => name ++ space :: t ++ [nl])
  dir b!"interest" b!"Deb.Triggers.Interest" ++ dir b!"interest-await" b!"Deb.Triggers.InterestAwait"
    ++ dir b!"interest-noawait" b!"Deb.Triggers.InterestNoAwait" ++ dir b!"activate" b!"Deb.Triggers.Activate"
    ++ dir b!"activate-await" b!"Deb.Triggers.ActivateAwait" ++ dir b!"activate-noawait" b!"Deb.Triggers.ActivateNoAwait"

def lowerB (s : Bytes) : Bytes := s.map (fun c => if 65 ≤ c && c ≤ 90 then c + 32 else c)

/-- ipk.controlFields: names a custom field may not take (case-insensitive) -/
def ipkReserved : List Bytes :=
  [ b!"abiversion", b!"alternatives", b!"architecture", b!"auto-installed", b!"conffiles", b!"conflicts", b!"depends",
    b!"description", b!"essential", b!"filename", b!"homepage", b!"installed-size", b!"installed-time", b!"license",
    b!"maintainer", b!"md5sum", b!"package", b!"pre-depends", b!"priority", b!"provides", b!"recommends", b!"replaces",
    b!"section", b!"sha256sum", b!"size", b!"status", b!"suggests", b!"tags", b!"vendor", b!"version" ]

/-- the ipk control file, in template order -/
def ipkFields (l : Leaves) (installedSizeKiB : Nat) : List Field :=
  let vi := vinfoOf l b!"IPK.Arch"
  let d := multilineParts (l.str b!"Description")
  [ { key := b!"Architecture", first := targetArch Generated.archMap_ipk vi },
    { key := b!"Description", first := d.1, conts := d.2 },
    { key := b!"Maintainer", first := ipkMaintainer (l.str b!"Maintainer") },
    { key := b!"Package", first := l.str b!"Name" },
    { key := b!"Priority", first := defaultPriority (l.str b!"Priority") },
    { key := b!"Version", first := debVersion true vi } ]
  ++ optField b!"ABIVersion" (l.str b!"IPK.ABIVersion")
  ++ (if l.lst b!"IPK.Alternatives" = [] then []
      else [{ key := b!"Alternatives", first := joinSep b!", " (l.lst b!"IPK.Alternatives") }])
  ++ (if l.flag b!"IPK.AutoInstalled" then [{ key := b!"Auto-Installed", first := b!"yes" }] else [])
  ++ listField b!"Conflicts" (l.lst b!"Conflicts")
  ++ listField b!"Depends" (l.lst b!"Depends")
  ++ (if l.flag b!"IPK.Essential" then [{ key := b!"Essential", first := b!"yes" }] else [])
  ++ optField b!"Homepage" (l.str b!"Homepage")
  ++ optField b!"License" (l.str b!"License")
  ++ (if installedSizeKiB = 0 then [] else [{ key := b!"Installed-Size", first := natToDec installedSizeKiB }])
  ++ listField b!"Pre-Depends" (l.lst b!"IPK.Predepends")
  ++ listField b!"Provides" (tNonEmpty (l.lst b!"Provides"))
  ++ listField b!"Recommends" (l.lst b!"Recommends")
  ++ listField b!"Replaces" (l.lst b!"Replaces")
  ++ optField b!"Section" (l.str b!"Section")
  ++ listField b!"Suggests" (l.lst b!"Suggests")
  ++ listField b!"Tags" (l.lst b!"IPK.Tags")
  ++ optField b!"Vendor" (l.str b!"Vendor")
  ++ (l.mapEntries b!"IPK.Fields.{").filterMap (fun (k, v) =>
        if v = [] || ipkReserved.contains (lowerB k) then none else some { key := k, first := v })

def ipkControl (l : Leaves) (installedSizeKiB : Nat) : Bytes := renderControl (ipkFields l installedSizeKiB)

/-- apk template helper `multiline`: ReplaceAll("\n", "\n  ") then Trim(" \n") -/
def apkMultiline (desc : Bytes) : Bytes :=
  let r := replaceByte nl [nl, space, space] desc
  let isTrim (c : UInt8) : Bool := c == space || c == nl
  (trimLeftSet isTrim (trimLeftSet isTrim r).reverse).reverse

/-- apk .PKGINFO -/
def apkPkginfo (l : Leaves) (installedSize : Nat) (datahashHex : Bytes) : Bytes :=
  let vi := vinfoOf l b!"APK.Arch"
  let lines :=
    [ b!"pkgname = " ++ l.str b!"Name",
      b!"pkgver = " ++ apkVersion vi,
      b!"arch = " ++ targetArch Generated.archMap_apk vi,
      b!"size = " ++ natToDec installedSize,
      b!"pkgdesc = " ++ apkMultiline (l.str b!"Description") ]
    ++ (if l.str b!"Homepage" = [] then [] else [b!"url = " ++ l.str b!"Homepage"])
    ++ (if l.str b!"Maintainer" = [] then [] else [b!"maintainer = " ++ l.str b!"Maintainer"])
    ++ (l.lst b!"Replaces").map (b!"replaces = " ++ ·)
    ++ (l.lst b!"Provides").map (b!"provides = " ++ ·)
    ++ (l.lst b!"Depends").map (b!"depend = " ++ ·)
    ++ (if l.str b!"License" = [] then [] else [b!"license = " ++ l.str b!"License"])
    ++ [ b!"datahash = " ++ datahashHex ]
  joinWith nl lines ++ [nl]

def kvLine (k v : Bytes) : Bytes := if v = [] then [] else k ++ b!" = " ++ v ++ [nl]

/-- archlinux .PKGINFO (writeKVPairs iterates the keys in sorted order; empty values are skipped) -/
def archPkginfo (l : Leaves) (totalSize : Nat) (builddate : Int) (backup : List Bytes) : Bytes :=
  let vi := vinfoOf l b!"ArchLinux.Arch"
  let name := l.str b!"Name"
  b!"# Generated by nfpm\n"
  ++ kvLine b!"arch" (targetArch Generated.archMap_archlinux vi)
  ++ kvLine b!"builddate" (intToDec builddate)
  ++ kvLine b!"license" (l.str b!"License")
  ++ kvLine b!"packager" (if l.str b!"ArchLinux.Packager" = [] then b!"Unknown Packager" else l.str b!"ArchLinux.Packager")
  ++ kvLine b!"pkgbase" (if l.str b!"ArchLinux.Pkgbase" = [] then name else l.str b!"ArchLinux.Pkgbase")
  ++ kvLine b!"pkgdesc" (replaceByte nl [space] (l.str b!"Description"))
  ++ kvLine b!"pkgname" name
  ++ kvLine b!"pkgver" (archPkgver vi)
  ++ kvLine b!"size" (natToDec totalSize)
  ++ kvLine b!"url" (l.str b!"Homepage")
  ++ (l.lst b!"Replaces").flatMap (kvLine b!"replaces")
  ++ (l.lst b!"Conflicts").flatMap (kvLine b!"conflict")
  ++ (l.lst b!"Provides").flatMap (kvLine b!"provides")
  ++ (l.lst b!"Depends").flatMap (kvLine b!"depend")
  ++ backup.flatMap (kvLine b!"backup")

/-- rpm: string-valued header tags handed to rpmpack (tag number ↦ value); optional ones only when set -/
def rpmStringTags (l : Leaves) (hostname : Bytes) : List (Nat × Bytes) :=
  let vi := vinfoOf l b!"RPM.Arch"
  let desc := l.str b!"Description"
  let summary := if l.str b!"RPM.Summary" = [] then ((splitOn nl desc).head?.getD []) else l.str b!"RPM.Summary"
  let packager := if l.str b!"RPM.Packager" = [] then l.str b!"Maintainer" else l.str b!"RPM.Packager"
  [ (1000, l.str b!"Name"), (1001, rpmVersion vi), (1002, rpmRelease vi), (1004, summary), (1005, desc),
    (1007, if l.str b!"RPM.BuildHost" = [] then hostname else l.str b!"RPM.BuildHost"),
    (1014, l.str b!"License"), (1021, l.str b!"Platform"), (1022, targetArch Generated.archMap_rpm vi) ]
  ++ (if l.str b!"Vendor" = [] then [] else [(1011, l.str b!"Vendor")])
  ++ (if packager = [] then [] else [(1015, packager)])
  ++ (if l.str b!"RPM.Group" = [] then [] else [(1016, l.str b!"RPM.Group")])
  ++ (if l.str b!"Homepage" = [] then [] else [(1020, l.str b!"Homepage")])

end Nfpm
