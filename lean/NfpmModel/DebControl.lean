import NfpmModel.Tar
/-
  The control archive of a deb as deb.createControl assembles it (newFileInsideTar / newFilePathInsideTar):

    ./control, ./md5sums, ./conffiles                       always, mode 0644
    ./triggers                                              only when there is at least one trigger line, mode 0644
    the maintainer scripts that are configured, in the order of their member names
      config (0755), postinst (0755), postrm (0755), preinst (0755), prerm (0755), rules (0755), templates (0644)
    every member: GNU header, regular file, uid/gid 0, no owner names, the package mtime

  The bodies are parameters here: the control text is `Meta.debControl`, the md5sums `Dig.debMd5sums`, the script
  bodies the bytes of the configured files (C09).
-/
namespace Nfpm.DebCtl
open Nfpm B

/-- newFileInsideTar / newFilePathInsideTar -/
def file (name : Bytes) (mode mtime : Nat) (body : Bytes) : Tar.Member :=
  { hdr := { name := b!"./" ++ name, mode := mode, size := body.length, mtime := mtime }, body := body }

/-- the slots of `specialFiles` in the order maps.Keys (sorted) walks them, with their modes -/
def scriptSlots : List (Bytes × Nat) :=
  [ (b!"config", 0o755), (b!"postinst", 0o755), (b!"postrm", 0o755), (b!"preinst", 0o755), (b!"prerm", 0o755),
    (b!"rules", 0o755), (b!"templates", 0o644) ]

/-- `scripts` maps a slot name to the body of the configured file (absent = not configured) -/
def members (mtime : Nat) (control md5sums conffiles triggers : Bytes) (scripts : Bytes → Option Bytes) : List Tar.Member :=
  [ file b!"control" 0o644 mtime control, file b!"md5sums" 0o644 mtime md5sums, file b!"conffiles" 0o644 mtime conffiles ]
  ++ (if triggers = [] then [] else [file b!"triggers" 0o644 mtime triggers])
  ++ scriptSlots.filterMap (fun s => (scripts s.1).map (file s.1 s.2 mtime))

/-- looking a member up by name, as dpkg does -/
def lookup (name : Bytes) (ms : List Tar.Member) : Option Tar.Member := ms.find? (fun m => m.hdr.name = b!"./" ++ name)

/-! ### ipk: ipk.populateControlTar (writeToFile / getScripts + writeFile) -/

/-- the four slots in the order getScripts lists them; every script member is written with mode 0755 -/
def ipkSlots : List (Bytes × Nat) :=
  [ (b!"preinst", 0o755), (b!"postinst", 0o755), (b!"prerm", 0o755), (b!"postrm", 0o755) ]

/-- ./control and ./conffiles always, then the configured scripts -/
def ipkMembers (mtime : Nat) (control conffiles : Bytes) (scripts : Bytes → Option Bytes) : List Tar.Member :=
  [ file b!"control" 0o644 mtime control, file b!"conffiles" 0o644 mtime conffiles ]
  ++ ipkSlots.filterMap (fun s => (scripts s.1).map (file s.1 s.2 mtime))

end Nfpm.DebCtl
