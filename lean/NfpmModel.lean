import NfpmModel.Bytes
import NfpmModel.Path
import NfpmModel.Contents
