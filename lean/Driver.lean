import NfpmModel.Wire
import NfpmModel.Ar
import NfpmModel.Tar
import NfpmModel.Pax
import NfpmModel.Cpio
import NfpmModel.RpmHdr
import NfpmModel.RpmFiles
import NfpmModel.RpmRel
import NfpmModel.RpmSig
import NfpmModel.DebControl
import NfpmModel.ApkControl
import NfpmModel.RpmGen
import NfpmModel.Package
import NfpmModel.Spec.PlanSpec
import NfpmModel.Spec.PayloadSpec
import NfpmModel.Spec.ScriptSpec
import NfpmModel.Spec.NameSpec
import NfpmModel.Expand
import NfpmModel.Meta
import NfpmModel.Spec.MetaSpec
import NfpmModel.Generated.G4Expand
import NfpmModel.Generated.G5KeyTree
/-
  Model driver: one request per line on stdin, one answer per line on stdout.
  Core-only so that it links as a `lean_exe`.
-/
open Nfpm Nfpm.Wire Nfpm.Path

def run1 {α} (p : P α) (toks : List String) : Except String α :=
  match p.run toks with
  | .ok (a, []) => .ok a
  | .ok (_, t :: _) => .error s!"trailing token {t}"
  | .error e => .error e

def handle (op : String) (args : List String) : Except String String :=
  match op with
  | "clean" => do let s ← run1 pBytes args; pure (hex (clean s))
  | "normfile" => do let s ← run1 pBytes args; pure (hex (normFile s))
  | "normfilet" => do let s ← run1 pBytes args; pure (hex (normFileT s))
  | "normdir" => do let s ← run1 pBytes args; pure (hex (normDir s))
  | "asrel" => do let s ← run1 pBytes args; pure (hex (asRel s))
  | "asexrel" => do let s ← run1 pBytes args; pure (hex (asExplicitRel s))
  | "dir" => do let s ← run1 pBytes args; pure (hex (dir s))
  | "base" => do let s ← run1 pBytes args; pure (hex (base s))
  | "parents" => do let s ← run1 pBytes args; pure (showBytesList (sortedParents s))
  | "parentsc" => do let s ← run1 pBytes args; pure (showBytesList (sortedParentsC s))
  | "join" => do
    let (a, b) ← run1 (do let a ← pBytes; let b ← pBytes; pure (a, b)) args
    pure (hex (join2 a b))
  | "rel" => do
    let (a, b) ← run1 (do let a ← pBytes; let b ← pBytes; pure (a, b)) args
    pure (match rel a b with | some r => "ok " ++ hex r | none => "err")
  | "plan" => do
    let (cfg, raw, O) ← run1 (do
      let cfg ← pPlanCfg
      let raw ← pList pContent
      let O ← pOracle
      pure (cfg, raw, O)) args
    pure (match plan O cfg raw with
      | .ok l => showContents l
      | .error e => "err " ++ e.name)
  | "c05spec" => do
    let (cfg, raw, O, res) ← run1 (do
      let cfg ← pPlanCfg
      let raw ← pList pContent
      let O ← pOracle
      let res ← pPlanResult
      pure (cfg, raw, O, res)) args
    let v := Spec.check O cfg raw res
    pure (if v.isEmpty then "holds" else "violated " ++ String.intercalate ";" (v.map (fun s => s.replace " " "_")))
  | "members" => do
    let (f, now, imt, plan) ← run1 (do
      let f ← pFmt
      let now ← pInt
      let imt ← pInt
      let plan ← pList pContentOut
      pure (f, now, imt, plan)) args
    pure (showMembers (members f now imt plan))
  | "c01check" => do
    let (f, plan, dec) ← run1 (do
      let f ← pFmt
      let plan ← pList pContentOut
      let dec ← pList pMember
      pure (f, plan, dec)) args
    let v := Spec.checkPayload f plan dec
    pure (if v.isEmpty then "holds" else "violated " ++ String.intercalate ";" (v.map (fun s => s.replace " " "_")))
  | "conffiles" => do
    let plan ← run1 (pList pContentOut) args
    pure (hex (conffiles plan))
  | "backup" => do
    let plan ← run1 (pList pContentOut) args
    pure (showBytesList (archBackup plan))
  | "c08list" => do
    let (f, plan, listed) ← run1 (do
      let f ← pFmt
      let plan ← pList pContentOut
      let listed ← pList pBytes
      pure (f, plan, listed)) args
    let v := Spec.checkConfigList f plan listed ++ Spec.checkNoForeignTypes f plan
    pure (if v.isEmpty then "holds" else "violated " ++ String.intercalate ";" v)
  | "c08rpm" => do
    let (plan, dec) ← run1 (do
      let plan ← pList pContentOut
      let dec ← pList pMember
      pure (plan, dec)) args
    let v := (Spec.checkRpmTyping plan dec).eraseDups
    pure (if v.isEmpty then "holds" else "violated " ++ String.intercalate ";" v)
  | "conflines" => do
    let body ← run1 pBytes args
    pure (showBytesList (Spec.conffilesLines body))
  | "scriptslots" => do
    let (f, c) ← run1 (do
      let f ← pFmt
      let c ← pList (do let a ← pBytes; let b ← pBytes; pure (a, b))
      pure (f, c)) args
    let sl := scriptSlots f c
    pure (s!"{sl.length}" ++ String.join (sl.map (fun (a, b) => s!" {hex a} {hex b}")))
  | "archinstall" => do
    let sl ← run1 (pList (do let a ← pBytes; let b ← pBytes; pure (a, b))) args
    pure (hex (archInstall sl))
  | "c09check" => do
    let (f, c, obs) ← run1 (do
      let f ← pFmt
      let c ← pList (do let a ← pBytes; let b ← pBytes; pure (a, b))
      let obs ← pList (do let a ← pBytes; let b ← pBytes; pure (a, b))
      pure (f, c, obs)) args
    let v := Spec.checkScripts f c obs
    pure (if v.isEmpty then "holds" else "violated " ++ String.intercalate ";" v)
  | "semver" => do
    let v ← run1 pBytes args
    pure (match SemVer.parse v with
      | none => "none"
      | some x => s!"ok {hex x.major} {hex x.minor} {hex x.patch} {hex x.pre} {hex x.build}")
  | "vdefaults" => do
    let i ← run1 pVInfo args
    let r := withDefaultsVersion i
    pure s!"{hex r.version} {hex r.prerelease} {hex r.metadata}"
  | "verstr" => do
    let (f, i) ← run1 (do let f ← pFmt; let i ← pVInfo; pure (f, i)) args
    pure (match f with
      | .deb | .ipk => hex (debVersion true i)
      | .rpm => s!"{hex (rpmVersion i)} {hex (rpmRelease i)}"
      | .apk => hex (apkVersion i)
      | .arch => hex (archPkgver i))
  | "filename" => do
    let (f, i) ← run1 (do let f ← pFmt; let i ← pVInfo; pure (f, i)) args
    pure (hex (match f with
      | .deb => debFileName i | .ipk => ipkFileName i | .rpm => rpmFileName i
      | .apk => apkFileName i | .arch => archFileName i))
  | "dpkgcmp" => do
    let (a, b) ← run1 (do let a ← pBytes; let b ← pBytes; pure (a, b)) args
    let r := dpkgCompare a b
    pure (if r < 0 then "lt" else if r > 0 then "gt" else "eq")
  | "rpmcmp" => do
    let (a, b) ← run1 (do let a ← pBytes; let b ← pBytes; pure (a, b)) args
    let r := rpmvercmp a b
    pure (if r < 0 then "lt" else if r > 0 then "gt" else "eq")
  | "c15check" => do
    let (f, fn, n, v, r, a) ← run1 (do
      let f ← pFmt
      let fn ← pBytes
      let n ← pBytes
      let v ← pBytes
      let r ← pBytes
      let a ← pBytes
      pure (f, fn, n, v, r, a)) args
    let v := Spec.checkFileName f fn n v r a
    pure (if v.isEmpty then "holds" else "violated " ++ String.intercalate ";" v)
  | "expand" => do
    let (env, v) ← run1 (do
      let env ← pList (do let a ← pBytes; let b ← pBytes; pure (a, b))
      let v ← pBytes
      pure (env, v)) args
    pure (hex (expand env v))
  | "expandslice" => do
    let (env, items) ← run1 (do
      let env ← pList (do let a ← pBytes; let b ← pBytes; pure (a, b))
      let items ← pList pBytes
      pure (env, items)) args
    pure (showBytesList (expandSlice env items))
  | "passphrase" => do
    let (env, v) ← run1 (do
      let env ← pList (do let a ← pBytes; let b ← pBytes; pure (a, b))
      let v ← pBytes
      pure (env, v)) args
    pure (hex (passphrase env v))
  | "g4paths" => pure (showBytesList Generated.expandedScalars ++ " " ++ showBytesList Generated.expandedSlices
      ++ " " ++ showBytesList Generated.expandedContents)
  | "g5paths" => pure (showBytesList (Generated.keyPaths.map (fun p => p.1 ++ [58] ++ p.2)))
  | "c13merge" => do
    let (base, ov) ← run1 (do let b ← pLeaves; let o ← pLeaves; pure (b, o)) args
    pure (showLeaves (mergeLeaves base ov))
  | "debcontrol" => do
    let (l, sz) ← run1 (do let l ← pLeaves; let sz ← pNat; pure (l, sz)) args
    pure (hex (debControl l sz))
  | "ipkcontrol" => do
    let (l, sz) ← run1 (do let l ← pLeaves; let sz ← pNat; pure (l, sz)) args
    pure (hex (ipkControl l sz))
  | "debtriggers" => do
    let l ← run1 pLeaves args
    pure (hex (debTriggers l))
  | "apkpkginfo" => do
    let (l, sz, dh) ← run1 (do let l ← pLeaves; let sz ← pNat; let dh ← pBytes; pure (l, sz, dh)) args
    pure (hex (apkPkginfo l sz dh))
  | "archpkginfo" => do
    let (l, sz, bd, bk) ← run1 (do
      let l ← pLeaves; let sz ← pNat; let bd ← pInt; let bk ← pList pBytes; pure (l, sz, bd, bk)) args
    pure (hex (archPkginfo l sz bd bk))
  | "rpmtags" => do
    let (l, host) ← run1 (do let l ← pLeaves; let h ← pBytes; pure (l, h)) args
    let ts := rpmStringTags l host
    pure (s!"{ts.length}" ++ String.join (ts.map (fun (t, v) => s!" {t} {hex v}")))
  | "c02control" => do
    let (f, l, sz, real) ← run1 (do let f ← pFmt; let l ← pLeaves; let sz ← pNat; let r ← pBytes; pure (f, l, sz, r)) args
    let want := match f with | .ipk => ipkFields l sz | _ => debFields l sz
    let v := Spec.diffFields (Spec.parseControl real) want
    pure (if v.isEmpty then "holds" else "violated " ++ String.intercalate ";" v)
  | "c02apk" => do
    let (l, sz, dh, real) ← run1 (do let l ← pLeaves; let sz ← pNat; let dh ← pBytes; let r ← pBytes; pure (l, sz, dh, r)) args
    let v := Spec.diffKV (Spec.parseKV real) (Spec.apkExpected l sz dh)
    pure (if v.isEmpty then "holds" else "violated " ++ String.intercalate ";" v)
  | "c02arch" => do
    let (l, sz, bd, bk, real) ← run1 (do
      let l ← pLeaves; let sz ← pNat; let bd ← pInt; let bk ← pList pBytes; let r ← pBytes; pure (l, sz, bd, bk, r)) args
    let v := Spec.diffKV (Spec.parseKV real) (Spec.archExpected l sz bd bk)
    pure (if v.isEmpty then "holds" else "violated " ++ String.intercalate ";" v)
  | "configpaths" => do
    let plan ← run1 (pList pContentOut) args
    pure (showBytesList (Spec.configPaths plan))
  -- C03: digests and sizes of real packages against the declarative spec
  | "c03deb" => do
    let (md5sums, inst, ms) ← run1 (do let a ← pBytes; let b ← pOptBytes; let c ← pList pSMember; pure (a, b, c)) args
    pure (verdict (Spec.checkDeb ms md5sums inst))
  | "c03ipk" => do
    let (inst, ms) ← run1 (do let b ← pOptBytes; let c ← pList pSMember; pure (b, c)) args
    pure (verdict (Spec.checkIpk ms inst))
  | "c03apk" => do
    let (dh, seg, sz, ms) ← run1 (do
      let a ← pOptBytes; let b ← pBytes; let c ← pOptBytes; let d ← pList pSMember; pure (a, b, c, d)) args
    pure (verdict (Spec.checkApk ms dh seg sz))
  | "c03arch" => do
    let (mtree, sz, pk, ms) ← run1 (do
      let a ← pBytes; let b ← pOptBytes; let c ← pSMember; let d ← pList pSMember; pure (a, b, c, d)) args
    pure (verdict (Spec.checkArch ms pk mtree sz))
  | "c03mtree" => do
    let (pk, ms) ← run1 (do let c ← pSMember; let d ← pList pSMember; pure (c, d)) args
    pure (hex (Spec.expMtree ms pk))
  | "c03md5sums" => do
    let ms ← run1 (pList pSMember) args
    pure (hex (Spec.expMd5sums ms))
  | "c03rpm" => do
    let r ← run1 pRpmFacts args
    pure (verdict (Spec.checkRpm r))
  -- C04: container structure of real packages against the declarative spec
  | "c04names" => do
    let (dotted, ms) ← run1 (do
      let d ← pBool; let l ← pList (do let n ← pBytes; let k ← pNat; pure (n, k.toUInt8)); pure (d, l)) args
    pure (verdict (Spec.checkNames dotted ms))
  | "c04deb" => do
    let (comp, sig, names, db) ← run1 (do
      let a ← pBytes; let b ← pOptBytes; let c ← pList pBytes; let d ← pBytes; pure (a, b, c, d)) args
    pure (verdict (Spec.checkDebAr comp sig names db))
  | "c04ipk" => do
    let (names, db) ← run1 (do let c ← pList pBytes; let d ← pBytes; pure (c, d)) args
    pure (verdict (Spec.checkIpkOuter names db))
  | "c04arch" => do
    let (hs, names) ← run1 (do let a ← pBool; let c ← pList pBytes; pure (a, c)) args
    pure (verdict (Spec.checkArchOrder names hs))
  | "c04apk" => do
    let (signed, trailing, segs) ← run1 (do let a ← pBool; let t ← pNat; let c ← pList pSegFacts; pure (a, t, c)) args
    pure (verdict (Spec.checkApkSegments signed segs trailing))
  | "c04rpm" => do
    let (hdr, cpio) ← run1 (do
      let h ← pList (do let n ← pBytes; let g ← pBool; pure (n, g)); let c ← pList pBytes; pure (h, c)) args
    pure (verdict (Spec.checkRpmOrder hdr cpio))
  -- model of bufio.Writer and of apk.writeTgz (correspondence with the standard library / real segments)
  | "bufio" => do
    let (cap, ops) ← run1 (do
      let c ← pNat
      let ops ← pList (do
        match (← tok) with
        | "w" => do let b ← pBytes; pure (some b)
        | "f" => pure none
        | t => throw s!"bad bufio op {t}")
      pure (c, ops)) args
    let w := ops.foldl (fun (w : Arc.BufW) o => match o with | some b => w.write cap b | none => w.flush) {}
    pure s!"{hex w.out} {w.buf.length}"
  | "tgzstream" => do
    let (full, pad, ws) ← run1 (do let f ← pBool; let p ← pNat; let w ← pList pBytes; pure (f, p, w)) args
    pure (hex (Arc.tgzStream Arc.reviewedBufCap Arc.reviewedTgzOps (if full then .full else .cut) ws pad))
  -- byte-level ar container (deb): model writer and proven reader
  | "arfile" => do
    let (mt, ms) ← run1 (do
      let mt ← pInt
      let ms ← pList (do let n ← pBytes; let b ← pBytes; pure ({ name := n, body := b } : Ar.Member))
      pure (mt, ms)) args
    pure (hex (Ar.file mt ms))
  | "arread" => do
    let b ← run1 pBytes args
    match Ar.read b with
    | none => pure "malformed"
    | some ms => pure (s!"{ms.length}" ++ String.join (ms.map (fun m => s!" {hex m.name} {m.body.length}")))
  -- byte-level tar stream (GNU / USTAR header flavours, PAX extension records): model writer and reader
  | "tarfile" => do
    let ms ← run1 (pList (do
      let fl ← tok
      let flavor ← (match fl with | "g" => pure Tar.Flavor.gnu | "u" => pure Tar.Flavor.ustar | t => throw s!"bad tar flavor {t}")
      let name ← pBytes; let mode ← pNat; let uid ← pNat; let gid ← pNat; let size ← pNat; let mtime ← pNat
      let tf ← pNat; let linkname ← pBytes; let uname ← pBytes; let gname ← pBytes
      let pax ← pList (do let k ← pBytes; let v ← pBytes; pure (k, v))
      let body ← pBytes
      pure ({ hdr := { flavor, name, mode, uid, gid, size, mtime, typeflag := tf.toUInt8, linkname, uname, gname }, pax, body } : Tar.PMember))) args
    pure (hex (Tar.paxArchive ms))
  | "tarread" => do
    let b ← run1 pBytes args
    match Tar.paxRead b with
    | none => pure "malformed"
    | some ms => pure (s!"{ms.length}" ++ String.join (ms.map (fun m =>
        s!" {match m.hdr.flavor with | .gnu => "g" | .ustar => "u"} {hex m.hdr.name} {m.hdr.mode} {m.hdr.uid} {m.hdr.gid} {m.hdr.size} {m.hdr.mtime} {m.hdr.typeflag.toNat} {hex m.hdr.linkname} {hex m.hdr.uname} {hex m.hdr.gname} {m.pax.length}"
          ++ String.join (m.pax.map (fun r => s!" {hex r.1} {hex r.2}")) ++ s!" {m.body.length}")))
  -- byte-level cpio payload of rpm: model writer and reader
  | "cpiofile" => do
    let es ← run1 (pList (do
      let name ← pBytes; let mode ← pNat; let links ← pNat; let body ← pBytes
      pure ({ name, mode, links, body } : Cpio.Entry))) args
    pure (hex (Cpio.archive es))
  | "cpioread" => do
    let b ← run1 pBytes args
    match Cpio.read b with
    | none => pure "malformed"
    | some es => pure (s!"{es.length}" ++ String.join (es.map (fun e => s!" {e.ino} {hex e.name} {e.mode} {e.links} {e.body.length}")))
  -- whole-package assembly (Package.lean) with the compressed streams handed in: the compressor parameter is the
  -- function that returns the real package's own compressed bytes
  | "pkgdeb" => do
    let (mt, dataName, cgz, dgz, sigName, sigBody) ← run1 (do
      let mt ← pInt; let dn ← pBytes; let c ← pBytes; let d ← pBytes; let sn ← pOptBytes; let sb ← pBytes
      pure (mt, dn, c, d, sn, sb)) args
    let sig : Option Ar.Member := sigName.map (fun n => { name := n, body := sigBody })
    pure (hex (Pkg.debFile mt (fun _ => cgz) (fun _ => dgz) dataName [] [] sig))
  | "pkgipkouter" => do
    let (mt, cgz, dgz) ← run1 (do let mt ← pNat; let c ← pBytes; let d ← pBytes; pure (mt, c, d)) args
    let marker : Tar.Member := { hdr := { name := b!"x" }, body := [] }
    let z : Bytes → Bytes := fun x => if x = Tar.archive [] then cgz else dgz
    pure (hex (Tar.archive (Pkg.ipkOuter mt z [] [marker])))
  -- byte-level rpm file (lead, signature header, header, payload): model writer and reader
  | "rpmfile" => do
    let pEntry : P RpmHdr.Entry := do
      let tag ← pNat; let typ ← pNat; let count ← pNat; let data ← pBytes
      pure { tag, typ, count, data }
    let (nv, sig, hdr, payload) ← run1 (do
      let nv ← pBytes; let sig ← pList pEntry; let hdr ← pList pEntry; let payload ← pBytes
      pure (nv, sig, hdr, payload)) args
    pure (hex (RpmHdr.file nv sig hdr payload))
  | "rpmfileread" => do
    let b ← run1 pBytes args
    match RpmHdr.readFile b with
    | none => pure "malformed"
    | some f =>
      let ents (es : List RpmHdr.Entry) : String :=
        s!"{es.length}" ++ String.join (es.map (fun e => s!" {e.tag} {e.typ} {e.count} {hex e.data}"))
      pure s!"{hex f.leadName} {ents f.sig} {ents f.hdr} {f.hdrOff} {f.hdrLen} {f.payload.length}"
  -- the file list of an rpm header: the model of rpmpack's writeFile / writeFileIndexes, and the reader
  | "rpmfiletags" => do
    let pFile : P RpmFiles.RFile := do
      let name ← pBytes; let mode ← pNat; let flags ← pNat; let owner ← pBytes; let group ← pBytes; let mtime ← pNat
      let size ← pNat; let digest ← pBytes; let link ← pBytes
      pure { name, mode, flags, owner, group, mtime, size, digest, link }
    let fs ← run1 (pList pFile) args
    let es := RpmFiles.fileEntries fs
    pure (s!"{es.length}" ++ String.join (es.map (fun e => s!" {e.tag} {e.typ} {e.count} {hex e.data}")))
  | "rpmfilerows" => do
    let pEntry : P RpmHdr.Entry := do
      let tag ← pNat; let typ ← pNat; let count ← pNat; let data ← pBytes
      pure { tag, typ, count, data }
    let es ← run1 (pList pEntry) args
    match RpmFiles.readFiles es with
    | none => pure "malformed"
    | some rows =>
      pure (s!"{rows.length}" ++ String.join (rows.map (fun r =>
        s!" {hex r.name} {r.size} {r.mode} {r.mtime} {hex r.digest} {hex r.linkto} {r.flags} {hex r.owner} {hex r.group}")))
  -- rpm relations: the model of rpm.toRelation / rpmpack NewRelation, Set, AddToIndex and the self-provide
  | "rpmrels" => do
    let (n, v, p, d, rc, rp, sg, c) ← run1 (do
      let n ← pBytes; let v ← pBytes
      let p ← pList pBytes; let d ← pList pBytes; let rc ← pList pBytes; let rp ← pList pBytes; let sg ← pList pBytes; let c ← pList pBytes
      pure (n, v, p, d, rc, rp, sg, c)) args
    match RpmRel.cats n v p d rc rp sg c with
    | none => pure "error"
    | some cs =>
      let es := RpmRel.entries cs
      pure (s!"{es.length}" ++ String.join (es.map (fun e => s!" {e.tag} {e.typ} {e.count} {hex e.data}")))
  | "rpmrelsread" => do
    let pEntry : P RpmHdr.Entry := do
      let tag ← pNat; let typ ← pNat; let count ← pNat; let data ← pBytes
      pure { tag, typ, count, data }
    let es ← run1 (pList pEntry) args
    let show1 (nt vt ft : Nat) : String :=
      match RpmRel.readRels nt vt ft es with
      | none => "malformed"
      | some rs => s!"{rs.length}" ++ String.join (rs.map (fun r => s!" {hex r.name} {r.sense} {hex r.version}"))
    pure (String.intercalate " | " [show1 1047 1113 1112, show1 1090 1115 1114, show1 5049 5050 5051, show1 5046 5047 5048,
      show1 1049 1050 1048, show1 1054 1055 1053])
  -- rpm: the signature header entries rpmpack computes (unsigned part), and the payload digest entries
  | "rpmsig" => do
    let (digest, hdrLen, pzLen, payloadSize, pdigest) ← run1 (do
      let d ← pBytes; let h ← pNat; let z ← pNat; let n ← pNat; let pd ← pBytes
      pure (d, h, z, n, pd)) args
    let es := RpmSig.sigEntries (fun _ => digest) none (List.replicate hdrLen 0) (List.replicate pzLen 0) payloadSize
      ++ RpmSig.digestEntries (fun _ => pdigest) []
    pure (s!"{es.length}" ++ String.join (es.map (fun e => s!" {e.tag} {e.typ} {e.count} {hex e.data}")))
  -- deb: the control archive as deb.createControl assembles it
  | "debcontroltar" => do
    let (mtime, control, md5, conf, trig, scripts) ← run1 (do
      let t ← pNat; let c ← pBytes; let m ← pBytes; let f ← pBytes; let g ← pBytes
      let sc ← pList (do let n ← pBytes; let b ← pBytes; pure (n, b))
      pure (t, c, m, f, g, sc)) args
    let look (n : Bytes) : Option Bytes := (scripts.find? (fun p => p.1 = n)).map (·.2)
    pure (hex (Tar.archive (DebCtl.members mtime control md5 conf trig look)))
  | "ipkcontroltar" => do
    let (mtime, control, conf, scripts) ← run1 (do
      let t ← pNat; let c ← pBytes; let f ← pBytes
      let sc ← pList (do let n ← pBytes; let b ← pBytes; pure (n, b))
      pure (t, c, f, sc)) args
    let look (n : Bytes) : Option Bytes := (scripts.find? (fun p => p.1 = n)).map (·.2)
    pure (hex (Tar.archive (DebCtl.ipkMembers mtime control conf look)))
  | "apkcontrolseg" => do
    let (pkginfo, mtime, scripts) ← run1 (do
      let p ← pBytes; let mt ← pNat
      let sc ← pList (do let n ← pBytes; let b ← pBytes; let t ← pNat; let d ← pBytes; pure (n, b, t, d))
      pure (p, mt, sc)) args
    let look (n : Bytes) : Option (Bytes × Nat) := (scripts.find? (fun p => p.1 = n)).map (fun p => (p.2.1, p.2.2.1))
    let sha (body : Bytes) : Bytes := ((scripts.find? (fun p => p.2.1 = body)).map (fun p => p.2.2.2)).getD []
    pure (hex (Pkg.cut (ApkCtl.members sha pkginfo look mtime)))
  -- rpm: the whole main header from the resolved settings, the files found, the configured relations, the changelog tags
  | "rpmheader" => do
    let pFile : P RpmFiles.RFile := do
      let name ← pBytes; let mode ← pNat; let flags ← pNat; let owner ← pBytes; let group ← pBytes; let mtime ← pNat
      let size ← pNat; let digest ← pBytes; let link ← pBytes
      pure { name, mode, flags, owner, group, mtime, size, digest, link }
    let pOptNat : P (Option Nat) := do
      let t ← pBytes
      if t = [] then pure none else pure (some (Ar.decVal t))
    let r ← run1 (do
      let name ← pBytes; let version ← pBytes; let release ← pBytes; let epoch ← pOptNat
      let summary ← pBytes; let description ← pBytes; let buildHost ← pBytes; let buildTime ← pOptNat
      let prefixes ← pList pBytes; let compressor ← pBytes; let arch ← pBytes; let os ← pBytes
      let vendor ← pBytes; let licence ← pBytes; let packager ← pBytes; let group ← pBytes; let url ← pBytes
      let payloadSize ← pNat; let payloadDigest ← pBytes
      let pretrans ← pBytes; let prein ← pBytes; let postin ← pBytes; let preun ← pBytes; let postun ← pBytes
      let posttrans ← pBytes; let verify ← pBytes
      let files ← pList pFile
      let p ← pList pBytes; let d ← pList pBytes; let rc ← pList pBytes; let rp ← pList pBytes; let sg ← pList pBytes; let c ← pList pBytes
      let chT ← pList pNat; let chN ← pList pBytes; let chX ← pList pBytes
      let g : RpmGen.Gen := { name := name, version := version, release := release, epoch := epoch, summary := summary, description := description, buildHost := buildHost, buildTime := buildTime, prefixes := prefixes, compressor := compressor, arch := arch, os := os, vendor := vendor, licence := licence, packager := packager, group := group, url := url, payloadSize := payloadSize, payloadDigest := payloadDigest, pretrans := pretrans, prein := prein, postin := postin, preun := preun, postun := postun, posttrans := posttrans, verify := verify }
      pure (g, files, (p, d, rc, rp, sg, c), (chT, chN, chX))) args
    let (g, files, (p, d, rc, rp, sg, c), (chT, chN, chX)) := r
    match RpmRel.cats g.name (RpmGen.fullVersion g) p d rc rp sg c with
    | none => pure "error"
    | some cs =>
      let es := RpmGen.mainHeader g files cs chT chN chX
      pure (s!"{es.length}" ++ String.join (es.map (fun e => s!" {e.tag} {e.typ} {e.count} {hex e.data}")))
  | _ => .error s!"unknown op {op}"

partial def loop (hin : IO.FS.Stream) (hout : IO.FS.Stream) : IO Unit := do
  let line ← hin.getLine
  if line.isEmpty then return ()
  let toks := (line.trimAscii.toString.splitOn " ").filter (· ≠ "")
  match toks with
  | [] => hout.putStrLn "bad-op empty"
  | op :: args =>
    match handle op args with
    | .ok s => hout.putStrLn s
    | .error e => hout.putStrLn ("bad-op " ++ e)
  hout.flush
  loop hin hout

def main : IO Unit := do
  let hin ← IO.getStdin
  let hout ← IO.getStdout
  loop hin hout
  hout.flush
