package decode

import (
	"bytes"
	"encoding/binary"
	"fmt"
)

var (
	rpmLeadMagic   = []byte{0xed, 0xab, 0xee, 0xdb}
	rpmHeaderMagic = []byte{0x8e, 0xad, 0xe8, 0x01}
)

// rpm header tags used for the file list and the payload.
const (
	tagFileSizes         = 1028
	tagFileModes         = 1030
	tagFileMTimes        = 1034
	tagFileDigests       = 1035
	tagFileLinktos       = 1036
	tagFileFlags         = 1037
	tagFileUserName      = 1039
	tagFileGroupName     = 1040
	tagFileInodes        = 1096
	tagDirIndexes        = 1116
	tagBaseNames         = 1117
	tagDirNames          = 1118
	tagPayloadCompressor = 1125
	tagLongFileSizes     = 5008
)

// parseRpmHeader parses one header structure starting at b[off].  It returns
// the decoded tags, their order in the index, and the unpadded length
// 16 + nindex*16 + hsize.
func parseRpmHeader(b []byte, off int) (tags map[int]RpmTag, order []int, n int, err error) {
	if off+16 > len(b) {
		return nil, nil, 0, fmt.Errorf("rpm: header at %d: truncated intro", off)
	}
	if !bytes.Equal(b[off:off+4], rpmHeaderMagic) {
		return nil, nil, 0, fmt.Errorf("rpm: header at %d: bad magic % x", off, b[off:off+4])
	}
	nindex := int(binary.BigEndian.Uint32(b[off+8:]))
	hsize := int(binary.BigEndian.Uint32(b[off+12:]))
	if nindex < 0 || hsize < 0 || nindex > 1<<20 || hsize > 1<<30 {
		return nil, nil, 0, fmt.Errorf("rpm: header at %d: absurd nindex=%d hsize=%d", off, nindex, hsize)
	}
	n = 16 + nindex*16 + hsize
	if off+n > len(b) {
		return nil, nil, 0, fmt.Errorf("rpm: header at %d: truncated (need %d bytes, have %d)", off, n, len(b)-off)
	}
	index := b[off+16 : off+16+nindex*16]
	store := b[off+16+nindex*16 : off+n]
	tags = make(map[int]RpmTag, nindex)
	for i := 0; i < nindex; i++ {
		ie := index[i*16:]
		t := RpmTag{
			Tag:   int(int32(binary.BigEndian.Uint32(ie[0:]))),
			Type:  int(binary.BigEndian.Uint32(ie[4:])),
			Count: int(binary.BigEndian.Uint32(ie[12:])),
		}
		so := int(int32(binary.BigEndian.Uint32(ie[8:])))
		if t.Count == 0 {
			// librpm's header check refuses an entry whose data length is not positive
			return tags, order, n, fmt.Errorf("rpm: header at %d: tag %d has count 0 (librpm rejects an index entry without data)", off, t.Tag)
		}
		if so < 0 || so > len(store) || t.Count < 0 {
			return tags, order, n, fmt.Errorf("rpm: header at %d: tag %d: offset %d/count %d out of store (%d)", off, t.Tag, so, t.Count, len(store))
		}
		data := store[so:]
		fixed := func(width int) error {
			if t.Count > len(data)/width {
				return fmt.Errorf("rpm: header at %d: tag %d: %d×%d bytes at %d exceed store (%d)", off, t.Tag, t.Count, width, so, len(store))
			}
			return nil
		}
		switch t.Type {
		case 0: // null
		case 1, 2: // char, int8
			if err := fixed(1); err != nil {
				return tags, order, n, err
			}
			t.Ints = make([]uint64, t.Count)
			for j := range t.Ints {
				t.Ints[j] = uint64(data[j])
			}
		case 3:
			if err := fixed(2); err != nil {
				return tags, order, n, err
			}
			t.Ints = make([]uint64, t.Count)
			for j := range t.Ints {
				t.Ints[j] = uint64(binary.BigEndian.Uint16(data[2*j:]))
			}
		case 4:
			if err := fixed(4); err != nil {
				return tags, order, n, err
			}
			t.Ints = make([]uint64, t.Count)
			for j := range t.Ints {
				t.Ints[j] = uint64(binary.BigEndian.Uint32(data[4*j:]))
			}
		case 5:
			if err := fixed(8); err != nil {
				return tags, order, n, err
			}
			t.Ints = make([]uint64, t.Count)
			for j := range t.Ints {
				t.Ints[j] = binary.BigEndian.Uint64(data[8*j:])
			}
		case 6, 8, 9:
			cnt := t.Count
			if t.Type == 6 {
				cnt = 1
			}
			t.Strs = make([]string, 0, cnt)
			p := data
			for j := 0; j < cnt; j++ {
				k := bytes.IndexByte(p, 0)
				if k < 0 {
					return tags, order, n, fmt.Errorf("rpm: header at %d: tag %d: string %d not NUL-terminated", off, t.Tag, j)
				}
				t.Strs = append(t.Strs, string(p[:k]))
				p = p[k+1:]
			}
		case 7:
			if err := fixed(1); err != nil {
				return tags, order, n, err
			}
			t.Bin = data[:t.Count:t.Count]
		default:
			return tags, order, n, fmt.Errorf("rpm: header at %d: tag %d: unknown type %d", off, t.Tag, t.Type)
		}
		if _, dup := tags[t.Tag]; !dup {
			tags[t.Tag] = t
		}
		order = append(order, t.Tag)
	}
	return tags, order, n, nil
}

// ReadRpm decodes an .rpm by hand: lead, signature header, main header,
// compressed cpio payload.  Malformed content returns an error together with
// the partially filled *Rpm.
func ReadRpm(b []byte) (*Rpm, error) {
	r := &Rpm{}
	if len(b) < 96 {
		return r, fmt.Errorf("rpm: shorter than the 96-byte lead")
	}
	r.LeadOK = bytes.Equal(b[:4], rpmLeadMagic)
	name := b[10:76]
	if k := bytes.IndexByte(name, 0); k >= 0 {
		name = name[:k]
	}
	r.LeadName = string(name)
	if !r.LeadOK {
		return r, fmt.Errorf("rpm: bad lead magic % x", b[:4])
	}

	// signature header
	r.SigOffset = 96
	var n int
	var err error
	r.Sig, r.SigOrder, n, err = parseRpmHeader(b, r.SigOffset)
	if n == 0 {
		return r, fmt.Errorf("signature %w", err)
	}
	sigEnd := r.SigOffset + n
	padded := (sigEnd + 7) &^ 7
	hasMagic := func(at int) bool {
		return at+4 <= len(b) && bytes.Equal(b[at:at+4], rpmHeaderMagic)
	}
	switch {
	case hasMagic(padded):
		r.SigPadOK = true
		r.HeaderOffset = padded
	default:
		// look for the main header anywhere in the next 16 bytes
		r.HeaderOffset = -1
		for at := sigEnd; at <= sigEnd+16; at++ {
			if hasMagic(at) {
				r.HeaderOffset = at
				break
			}
		}
		if r.HeaderOffset < 0 {
			r.SigHeaderRaw = b[r.SigOffset:sigEnd]
			return r, fmt.Errorf("rpm: main header magic not found after the signature header (ends at %d)", sigEnd)
		}
	}
	r.SigHeaderRaw = b[r.SigOffset:r.HeaderOffset]
	if err != nil {
		return r, fmt.Errorf("signature %w", err)
	}

	// main header
	r.Hdr, r.HdrOrder, n, err = parseRpmHeader(b, r.HeaderOffset)
	if n == 0 {
		return r, err
	}
	r.HeaderRaw = b[r.HeaderOffset : r.HeaderOffset+n]
	r.PayloadRaw = b[r.HeaderOffset+n:]
	if err != nil {
		return r, err
	}
	r.Files = rpmFiles(r.Hdr)

	// payload
	if t, ok := r.Hdr[tagPayloadCompressor]; ok && len(t.Strs) > 0 {
		r.PayloadCompressor = t.Strs[0]
	}
	kind := r.PayloadCompressor
	if kind == "" {
		kind = sniffCompression(r.PayloadRaw)
	}
	r.Payload, err = decompress(kind, r.PayloadRaw)
	if err != nil {
		return r, fmt.Errorf("rpm: payload: %w", err)
	}
	r.Cpio, r.CpioTrailerOK, r.CpioRest, err = readCpio(r.Payload)
	if err != nil {
		return r, fmt.Errorf("rpm: payload: %w", err)
	}
	return r, nil
}

// rpmFiles joins the per-file tags of the main header.  Missing tags (or tags
// shorter than BASENAMES) leave zero values.
func rpmFiles(h map[int]RpmTag) []RpmFile {
	base := h[tagBaseNames].Strs
	if len(base) == 0 {
		return nil
	}
	dirs := h[tagDirNames].Strs
	didx := h[tagDirIndexes].Ints
	ints := func(tag int) []uint64 { return h[tag].Ints }
	strs := func(tag int) []string { return h[tag].Strs }
	geti := func(v []uint64, i int) uint64 {
		if i < len(v) {
			return v[i]
		}
		return 0
	}
	gets := func(v []string, i int) string {
		if i < len(v) {
			return v[i]
		}
		return ""
	}
	sizes := ints(tagFileSizes)
	if len(sizes) == 0 {
		sizes = ints(tagLongFileSizes)
	}
	out := make([]RpmFile, len(base))
	for i, bn := range base {
		dir := ""
		if i < len(didx) && didx[i] < uint64(len(dirs)) {
			dir = dirs[didx[i]]
		}
		out[i] = RpmFile{
			Name:   dir + bn,
			Size:   geti(sizes, i),
			Mode:   geti(ints(tagFileModes), i),
			MTime:  geti(ints(tagFileMTimes), i),
			Digest: gets(strs(tagFileDigests), i),
			Linkto: gets(strs(tagFileLinktos), i),
			Flags:  geti(ints(tagFileFlags), i),
			User:   gets(strs(tagFileUserName), i),
			Group:  gets(strs(tagFileGroupName), i),
			Ino:    geti(ints(tagFileInodes), i),
		}
	}
	return out
}
