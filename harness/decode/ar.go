package decode

import (
	"bytes"
	"fmt"
	"strconv"
	"strings"
)

const arGlobal = "!<arch>\n"

func arNum(field []byte, base int, what string, off int) (int64, error) {
	s := strings.TrimSpace(string(field))
	if s == "" {
		return 0, nil
	}
	v, err := strconv.ParseInt(s, base, 64)
	if err != nil {
		return 0, fmt.Errorf("ar: header at %d: bad %s field %q", off, what, string(field))
	}
	return v, nil
}

// ReadAr parses an ar archive by hand.  An incomplete header or body at the end
// is not an error: it is reported through trailing (bytes after the last
// complete member).  A header with a bad magic or unparseable numbers is an
// error (trailing then counts from that header).
func ReadAr(b []byte) (globalOK bool, members []ArMember, trailing int, err error) {
	if !bytes.HasPrefix(b, []byte(arGlobal)) {
		return false, nil, len(b), fmt.Errorf("ar: missing global header")
	}
	off := len(arGlobal)
	for off < len(b) {
		if off+60 > len(b) {
			return true, members, len(b) - off, nil
		}
		h := b[off : off+60]
		if h[58] != '`' || h[59] != '\n' {
			return true, members, len(b) - off, fmt.Errorf("ar: header at %d: bad magic % x", off, h[58:60])
		}
		m := ArMember{Offset: off}
		name := strings.TrimRight(string(h[0:16]), " ")
		name = strings.TrimSuffix(name, "/")
		m.Name = name
		var e error
		if m.MTime, e = arNum(h[16:28], 10, "mtime", off); e != nil {
			return true, members, len(b) - off, e
		}
		var v int64
		if v, e = arNum(h[28:34], 10, "uid", off); e != nil {
			return true, members, len(b) - off, e
		}
		m.Uid = int(v)
		if v, e = arNum(h[34:40], 10, "gid", off); e != nil {
			return true, members, len(b) - off, e
		}
		m.Gid = int(v)
		if m.Mode, e = arNum(h[40:48], 8, "mode", off); e != nil {
			return true, members, len(b) - off, e
		}
		if m.Size, e = arNum(h[48:58], 10, "size", off); e != nil {
			return true, members, len(b) - off, e
		}
		if m.Size < 0 {
			return true, members, len(b) - off, fmt.Errorf("ar: header at %d: negative size", off)
		}
		start := off + 60
		if int64(len(b)-start) < m.Size {
			return true, members, len(b) - off, nil
		}
		end := start + int(m.Size)
		m.Body = b[start:end]
		if m.Size%2 == 1 && end < len(b) && b[end] == '\n' {
			m.Padded = true
			end++
		}
		members = append(members, m)
		off = end
	}
	return true, members, 0, nil
}
