package decode

import (
	"bytes"
	"compress/gzip"
	"fmt"
	"io"
)

// ReadApk splits an .apk into its concatenated gzip members exactly (a
// *bytes.Reader is an io.ByteReader, so compress/flate does not read past the
// end of a member) and decodes each member's (possibly cut) tar segment.
// Bytes that do not start a gzip member are counted in Trailing.
func ReadApk(b []byte) (*Apk, error) {
	a := &Apk{}
	r := bytes.NewReader(b)
	var zr *gzip.Reader
	for r.Len() > 0 {
		start := len(b) - r.Len()
		var err error
		if zr == nil {
			zr, err = gzip.NewReader(r)
		} else {
			err = zr.Reset(r)
		}
		if err != nil {
			// leftover bytes are not a gzip member
			a.Trailing = len(b) - start
			if len(a.Segments) == 0 {
				return a, fmt.Errorf("apk: no gzip member at offset 0: %w", err)
			}
			return a, nil
		}
		zr.Multistream(false)
		tarb, err := io.ReadAll(zr)
		if err != nil {
			a.Trailing = len(b) - start
			return a, fmt.Errorf("apk: gzip member %d at offset %d: %w", len(a.Segments), start, err)
		}
		end := len(b) - r.Len()
		seg := ApkSegment{
			Raw:    b[start:end],
			Offset: start,
			Tar:    tarb,
			Facts:  WalkTar(tarb),
		}
		seg.GzipMTime, _ = gzipMTime(seg.Raw)
		seg.Entries, err = ReadTar(tarb)
		a.Segments = append(a.Segments, seg)
		if err != nil {
			return a, fmt.Errorf("apk: segment %d: %w", len(a.Segments)-1, err)
		}
	}
	return a, nil
}
