package decode

import (
	"fmt"
	"strconv"
)

const cpioTrailer = "TRAILER!!!"

// readCpio parses an SVR4 "newc" cpio stream by hand.  The TRAILER!!! entry is
// excluded from the result; trailerOK says it was met.  rest is the number of
// bytes that follow the trailer entry (cpio writers may pad with zeroes).
func readCpio(b []byte) (entries []CpioEntry, trailerOK bool, rest int, err error) {
	off := 0
	align4 := func(n int) int { return (n + 3) &^ 3 }
	for {
		if off == len(b) {
			return entries, false, 0, nil
		}
		if off+110 > len(b) {
			return entries, false, len(b) - off, fmt.Errorf("cpio: truncated header at %d", off)
		}
		h := b[off : off+110]
		if string(h[:6]) != "070701" && string(h[:6]) != "070702" {
			return entries, false, len(b) - off, fmt.Errorf("cpio: bad magic %q at %d", string(h[:6]), off)
		}
		var f [13]uint64
		for i := range f {
			s := string(h[6+8*i : 14+8*i])
			v, perr := strconv.ParseUint(s, 16, 32)
			if perr != nil {
				return entries, false, len(b) - off, fmt.Errorf("cpio: bad hex field %q in header at %d", s, off)
			}
			f[i] = v
		}
		// ino mode uid gid nlink mtime filesize devmajor devminor rdevmajor rdevminor namesize check
		nameSize, fileSize := int(f[11]), int(f[6])
		nameStart := off + 110
		if nameSize < 1 || nameStart+nameSize > len(b) {
			return entries, false, len(b) - off, fmt.Errorf("cpio: bad name size %d at %d", nameSize, off)
		}
		name := string(b[nameStart : nameStart+nameSize])
		if name[len(name)-1] == 0 {
			name = name[:len(name)-1]
		}
		bodyStart := off + align4(110+nameSize)
		if bodyStart+fileSize > len(b) {
			return entries, false, len(b) - off, fmt.Errorf("cpio: truncated body of %q at %d", name, off)
		}
		next := bodyStart + align4(fileSize)
		if next > len(b) {
			next = len(b) // final padding missing
		}
		if name == cpioTrailer {
			return entries, true, len(b) - next, nil
		}
		entries = append(entries, CpioEntry{
			Name:  name,
			Mode:  f[1],
			MTime: f[5],
			Size:  f[6],
			Ino:   f[0],
			Body:  b[bodyStart : bodyStart+fileSize],
			Uid:   f[2],
			Gid:   f[3],
			Nlink: f[4],
		})
		off = next
	}
}
