package decode

import (
	"archive/tar"
	"bytes"
	"errors"
	"fmt"
	"io"
)

// ReadTar decodes a tar stream with archive/tar.  A stream that lacks the
// 1024-byte end-of-archive marker (apk's "cut" segments) is accepted: io.EOF or
// io.ErrUnexpectedEOF met while looking for the next header ends the walk.
func ReadTar(stream []byte) ([]Entry, error) {
	tr := tar.NewReader(bytes.NewReader(stream))
	var out []Entry
	for {
		hdr, err := tr.Next()
		if err != nil {
			if errors.Is(err, io.EOF) || errors.Is(err, io.ErrUnexpectedEOF) {
				return out, nil
			}
			return out, fmt.Errorf("tar: member %d: %w", len(out), err)
		}
		e := Entry{
			Name:     hdr.Name,
			Type:     hdr.Typeflag,
			Mode:     hdr.Mode,
			Uname:    hdr.Uname,
			Gname:    hdr.Gname,
			Uid:      hdr.Uid,
			Gid:      hdr.Gid,
			MTime:    hdr.ModTime.Unix(),
			MTimeNs:  int64(hdr.ModTime.Nanosecond()),
			Size:     hdr.Size,
			Linkname: hdr.Linkname,
			Format:   hdr.Format.String(),
		}
		if !hdr.AccessTime.IsZero() {
			e.ATime = hdr.AccessTime.Unix()
		}
		if !hdr.ChangeTime.IsZero() {
			e.CTime = hdr.ChangeTime.Unix()
		}
		if e.Type == '\x00' {
			e.Type = '0'
		}
		if len(hdr.PAXRecords) > 0 {
			e.PAX = make(map[string]string, len(hdr.PAXRecords))
			for k, v := range hdr.PAXRecords {
				e.PAX[k] = v
			}
		}
		if e.Type == '0' || e.Type == tar.TypeRegA || e.Type == tar.TypeCont || e.Type == tar.TypeGNUSparse {
			body, err := io.ReadAll(tr)
			if err != nil {
				return out, fmt.Errorf("tar: body of %q: %w", hdr.Name, err)
			}
			e.Body = body
		}
		out = append(out, e)
	}
}

func allZero(b []byte) bool {
	for _, c := range b {
		if c != 0 {
			return false
		}
	}
	return true
}

// tarNumeric parses a tar numeric field: octal text, or GNU base-256 when the
// top bit of the first byte is set.
func tarNumeric(f []byte) (int64, bool) {
	if len(f) > 0 && f[0]&0x80 != 0 {
		var v int64
		for i, c := range f {
			if i == 0 {
				c &= 0x7f
			}
			if v>>55 != 0 {
				return 0, false
			}
			v = v<<8 | int64(c)
		}
		return v, true
	}
	s := bytes.Trim(f, " \x00")
	if len(s) == 0 {
		return 0, true
	}
	var v int64
	for _, c := range s {
		if c < '0' || c > '7' {
			return 0, false
		}
		v = v<<3 | int64(c-'0')
	}
	return v, true
}

// tarChecksumOK verifies the header checksum (unsigned or signed variant).
func tarChecksumOK(blk []byte) bool {
	want, ok := tarNumeric(blk[148:156])
	if !ok {
		return false
	}
	var u, s int64
	for i, c := range blk {
		if i >= 148 && i < 156 {
			c = ' '
		}
		u += int64(c)
		s += int64(int8(c))
	}
	return want == u || want == s
}

// WalkTar is a hand-written 512-byte block walker (no archive/tar).
func WalkTar(stream []byte) TarFacts {
	f := TarFacts{
		Len:            len(stream),
		Aligned512:     len(stream)%512 == 0,
		EndMarkerAt:    -1,
		TrailingZeroes: -1,
		BadHeaderAt:    -1,
	}
	off := 0
	for {
		if off+512 > len(stream) {
			if off > len(stream) {
				// the last member's body (or padding) runs past the end of the stream
				f.Truncated = true
				off = len(stream)
			} else if off < len(stream) {
				// a partial block remains
				f.Truncated = !allZero(stream[off:])
			}
			break
		}
		blk := stream[off : off+512]
		if allZero(blk) {
			if off+1024 <= len(stream) && allZero(stream[off+512:off+1024]) {
				f.EndMarkerAt = off
			}
			break
		}
		size, ok := tarNumeric(blk[124:136])
		if !ok || size < 0 || !tarChecksumOK(blk) {
			f.BadHeaderAt = off
			break
		}
		switch blk[156] {
		case 'x', 'g', 'L', 'K':
			f.ExtHeaders++
		default:
			f.Members++
		}
		switch blk[156] {
		case '1', '2', '3', '4', '5', '6':
			// link, symlink, char, block, dir, fifo carry no body whatever the size field says
			size = 0
		}
		off += 512
		if size > int64(len(stream)) {
			f.Truncated = true
			off = len(stream)
			break
		}
		off += int(size+511) / 512 * 512
	}
	f.StopAt = off
	if allZero(stream[off:]) {
		f.TrailingZeroes = len(stream) - off
	}
	return f
}
