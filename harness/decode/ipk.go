package decode

import (
	"fmt"
	"strings"
)

// ReadIpk decodes an .ipk: gzip( tar( ./debian-binary ./control.tar.gz ./data.tar.gz ) ).
// Malformed content returns an error together with the partially filled *Ipk.
func ReadIpk(b []byte) (*Ipk, error) {
	p := &Ipk{}
	mt, ok := gzipMTime(b)
	if !ok {
		return p, fmt.Errorf("ipk: outer stream is not gzip")
	}
	p.OuterGzipMTime = mt
	p.GzipHeaderMTimes = append(p.GzipHeaderMTimes, mt)
	var err error
	p.OuterTar, err = gunzip(b)
	if err != nil {
		return p, fmt.Errorf("ipk: outer: %w", err)
	}
	p.OuterFacts = WalkTar(p.OuterTar)
	p.Outer, err = ReadTar(p.OuterTar)
	if err != nil {
		return p, fmt.Errorf("ipk: outer: %w", err)
	}
	seenControl, seenData := false, false
	for _, e := range p.Outer {
		if e.Type != '0' {
			continue
		}
		name := strings.TrimPrefix(e.Name, "./")
		switch {
		case name == "debian-binary" && p.DebianBinary == nil:
			p.DebianBinary = e.Body
			if p.DebianBinary == nil {
				p.DebianBinary = []byte{}
			}
		case name == "control.tar.gz" && !seenControl:
			seenControl = true
			p.ControlRaw = e.Body
			if mt, ok := gzipMTime(e.Body); ok {
				p.GzipHeaderMTimes = append(p.GzipHeaderMTimes, mt)
			}
			tarb, err := gunzip(e.Body)
			if err != nil {
				return p, fmt.Errorf("ipk: %s: %w", e.Name, err)
			}
			p.ControlFacts = WalkTar(tarb)
			p.Control, err = ReadTar(tarb)
			if err != nil {
				return p, fmt.Errorf("ipk: %s: %w", e.Name, err)
			}
		case name == "data.tar.gz" && !seenData:
			seenData = true
			p.DataRaw = e.Body
			if mt, ok := gzipMTime(e.Body); ok {
				p.GzipHeaderMTimes = append(p.GzipHeaderMTimes, mt)
			}
			p.DataTar, err = gunzip(e.Body)
			if err != nil {
				return p, fmt.Errorf("ipk: %s: %w", e.Name, err)
			}
			p.DataFacts = WalkTar(p.DataTar)
			p.Data, err = ReadTar(p.DataTar)
			if err != nil {
				return p, fmt.Errorf("ipk: %s: %w", e.Name, err)
			}
		}
	}
	return p, nil
}
