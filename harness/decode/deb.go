package decode

import (
	"fmt"
	"strings"
)

// suffixCompressor maps a member name like data.tar.xz to a compressor name.
func suffixCompressor(name string) (string, error) {
	switch {
	case strings.HasSuffix(name, ".tar"):
		return "none", nil
	case strings.HasSuffix(name, ".gz"):
		return "gzip", nil
	case strings.HasSuffix(name, ".xz"):
		return "xz", nil
	case strings.HasSuffix(name, ".zst"):
		return "zstd", nil
	case strings.HasSuffix(name, ".lzma"):
		return "lzma", nil
	}
	return "", fmt.Errorf("unknown compression suffix in %q", name)
}

// ReadDeb decodes a .deb.  Missing members leave their fields nil; malformed
// content returns an error together with the partially filled *Deb.
func ReadDeb(b []byte) (*Deb, error) {
	d := &Deb{}
	ok, members, trailing, err := ReadAr(b)
	d.GlobalHeaderOK = ok
	d.Members = members
	d.Trailing = trailing
	if err != nil {
		return d, fmt.Errorf("deb: %w", err)
	}
	seenControl, seenData := false, false
	for _, m := range members {
		switch {
		case m.Name == "debian-binary" && d.DebianBinary == nil:
			d.DebianBinary = m.Body
		case strings.HasPrefix(m.Name, "control.tar") && !seenControl:
			seenControl = true
			d.ControlRaw = m.Body
			kind, err := suffixCompressor(m.Name)
			if err != nil {
				return d, fmt.Errorf("deb: %w", err)
			}
			if kind == "gzip" {
				if mt, ok := gzipMTime(m.Body); ok {
					d.GzipHeaderMTimes = append(d.GzipHeaderMTimes, mt)
				}
			}
			tarb, err := decompress(kind, m.Body)
			if err != nil {
				return d, fmt.Errorf("deb: %s: %w", m.Name, err)
			}
			d.ControlFacts = WalkTar(tarb)
			d.Control, err = ReadTar(tarb)
			if err != nil {
				return d, fmt.Errorf("deb: %s: %w", m.Name, err)
			}
		case strings.HasPrefix(m.Name, "data.tar") && !seenData:
			seenData = true
			d.DataName = m.Name
			d.DataRaw = m.Body
			kind, err := suffixCompressor(m.Name)
			if err != nil {
				return d, fmt.Errorf("deb: %w", err)
			}
			if kind == "gzip" {
				if mt, ok := gzipMTime(m.Body); ok {
					d.GzipHeaderMTimes = append(d.GzipHeaderMTimes, mt)
				}
			}
			d.DataTar, err = decompress(kind, m.Body)
			if err != nil {
				return d, fmt.Errorf("deb: %s: %w", m.Name, err)
			}
			d.DataFacts = WalkTar(d.DataTar)
			d.Data, err = ReadTar(d.DataTar)
			if err != nil {
				return d, fmt.Errorf("deb: %s: %w", m.Name, err)
			}
		case strings.HasPrefix(m.Name, "_gpg") && d.SigName == "":
			d.SigName = m.Name
			d.Sig = m.Body
		}
	}
	return d, nil
}
