package decode

import (
	"bytes"
	"compress/gzip"
	"encoding/binary"
	"fmt"
	"io"

	"github.com/klauspost/compress/zstd"
	"github.com/ulikunitz/xz"
	"github.com/ulikunitz/xz/lzma"
)

// gzipMTime returns the raw little-endian MTIME field of a gzip member header.
func gzipMTime(b []byte) (uint32, bool) {
	if len(b) < 10 || b[0] != 0x1f || b[1] != 0x8b {
		return 0, false
	}
	return binary.LittleEndian.Uint32(b[4:8]), true
}

func gunzip(b []byte) ([]byte, error) {
	zr, err := gzip.NewReader(bytes.NewReader(b))
	if err != nil {
		return nil, fmt.Errorf("gzip: %w", err)
	}
	out, err := io.ReadAll(zr)
	if err != nil {
		return nil, fmt.Errorf("gzip: %w", err)
	}
	return out, nil
}

func unxz(b []byte) ([]byte, error) {
	r, err := xz.NewReader(bytes.NewReader(b))
	if err != nil {
		return nil, fmt.Errorf("xz: %w", err)
	}
	out, err := io.ReadAll(r)
	if err != nil {
		return nil, fmt.Errorf("xz: %w", err)
	}
	return out, nil
}

func unlzma(b []byte) ([]byte, error) {
	r, err := lzma.NewReader(bytes.NewReader(b))
	if err != nil {
		return nil, fmt.Errorf("lzma: %w", err)
	}
	out, err := io.ReadAll(r)
	if err != nil {
		return nil, fmt.Errorf("lzma: %w", err)
	}
	return out, nil
}

func unzstd(b []byte) ([]byte, error) {
	d, err := zstd.NewReader(bytes.NewReader(b), zstd.WithDecoderConcurrency(1))
	if err != nil {
		return nil, fmt.Errorf("zstd: %w", err)
	}
	defer d.Close()
	out, err := io.ReadAll(d)
	if err != nil {
		return nil, fmt.Errorf("zstd: %w", err)
	}
	return out, nil
}

// sniffCompression guesses the compressor from magic bytes.
func sniffCompression(b []byte) string {
	switch {
	case len(b) >= 2 && b[0] == 0x1f && b[1] == 0x8b:
		return "gzip"
	case len(b) >= 6 && bytes.Equal(b[:6], []byte{0xfd, '7', 'z', 'X', 'Z', 0}):
		return "xz"
	case len(b) >= 4 && bytes.Equal(b[:4], []byte{0x28, 0xb5, 0x2f, 0xfd}):
		return "zstd"
	case len(b) >= 3 && b[0] == 0x5d && b[1] == 0 && b[2] == 0:
		return "lzma"
	case len(b) >= 6 && string(b[:5]) == "07070":
		return "none"
	}
	return ""
}

func decompress(kind string, b []byte) ([]byte, error) {
	switch kind {
	case "gzip":
		return gunzip(b)
	case "xz":
		return unxz(b)
	case "lzma":
		return unlzma(b)
	case "zstd":
		return unzstd(b)
	case "none", "":
		return b, nil
	}
	return nil, fmt.Errorf("unknown compressor %q", kind)
}
