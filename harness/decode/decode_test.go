package decode

import (
	"bytes"
	"crypto/md5"
	"crypto/sha256"
	"encoding/hex"
	"fmt"
	"os"
	"sort"
	"strings"
	"testing"
	"time"

	"github.com/goreleaser/nfpm/v2"
	"github.com/goreleaser/nfpm/v2/apk"
	"github.com/goreleaser/nfpm/v2/arch"
	"github.com/goreleaser/nfpm/v2/deb"
	"github.com/goreleaser/nfpm/v2/files"
	"github.com/goreleaser/nfpm/v2/ipk"
	"github.com/goreleaser/nfpm/v2/rpm"
)

const (
	srcFake = "/repo/testdata/fake"
	srcConf = "/repo/testdata/whatever.conf"
	scripts = "/repo/testdata/scripts/"
	rsaKey  = "/repo/internal/sign/testdata/rsa_unprotected.priv"
)

var sampleMTime = time.Date(2023, 4, 5, 6, 7, 8, 0, time.UTC)

// sampleInfo mirrors exampleInfo() of nfpm's own tests, with absolute sources,
// a symlink, scripts and a fixed mtime.
func sampleInfo() *nfpm.Info {
	return nfpm.WithDefaults(&nfpm.Info{
		Name:        "foo",
		Arch:        "amd64",
		Description: "Foo does things",
		Priority:    "extra",
		Maintainer:  "Carlos A Becker <pkg@carlosbecker.com>",
		Version:     "v1.0.0",
		Section:     "default",
		Homepage:    "http://carlosbecker.com",
		Vendor:      "nope",
		License:     "MIT",
		MTime:       sampleMTime,
		Overridables: nfpm.Overridables{
			Depends:    []string{"bash"},
			Recommends: []string{"git"},
			Suggests:   []string{"bash"},
			Replaces:   []string{"svn"},
			Provides:   []string{"bzr"},
			Conflicts:  []string{"zsh"},
			Contents: []*files.Content{
				{Source: srcFake, Destination: "/usr/bin/fake"},
				{Source: srcConf, Destination: "/usr/share/doc/fake/fake.txt"},
				{Source: srcConf, Destination: "/etc/fake/fake.conf", Type: files.TypeConfig},
				{Source: srcConf, Destination: "/etc/fake/fake2.conf", Type: files.TypeConfigNoReplace},
				{Source: "/usr/bin/fake", Destination: "/usr/bin/fakelink", Type: files.TypeSymlink},
				{Destination: "/var/log/whatever", Type: files.TypeDir},
				{Destination: "/usr/share/whatever", Type: files.TypeDir},
			},
			Scripts: nfpm.Scripts{
				PreInstall:  scripts + "preinstall.sh",
				PostInstall: scripts + "postinstall.sh",
				PreRemove:   scripts + "preremove.sh",
				PostRemove:  scripts + "postremove.sh",
			},
		},
	})
}

func mustRead(t *testing.T, path string) []byte {
	t.Helper()
	b, err := os.ReadFile(path)
	if err != nil {
		t.Fatal(err)
	}
	return b
}

func entryNames(es []Entry) []string {
	out := make([]string, len(es))
	for i, e := range es {
		out[i] = e.Name
	}
	return out
}

func findEntry(es []Entry, name string) *Entry {
	for i := range es {
		if es[i].Name == name {
			return &es[i]
		}
	}
	return nil
}

func requireEntry(t *testing.T, es []Entry, name string) *Entry {
	t.Helper()
	e := findEntry(es, name)
	if e == nil {
		t.Fatalf("entry %q not found in %q", name, entryNames(es))
	}
	return e
}

// checkFacts: a complete tar stream has an end marker, only zeroes after it,
// is block aligned, and the hand walker agrees with archive/tar on the count.
func checkFacts(t *testing.T, what string, f TarFacts, n int) {
	t.Helper()
	if f.Members != n {
		t.Errorf("%s: walker saw %d members, archive/tar %d (facts %+v)", what, f.Members, n, f)
	}
	if f.EndMarkerAt < 0 || f.TrailingZeroes < 1024 || !f.Aligned512 || f.Truncated || f.BadHeaderAt != -1 {
		t.Errorf("%s: unexpected facts %+v", what, f)
	}
	if f.EndMarkerAt != f.StopAt || f.StopAt+f.TrailingZeroes != f.Len {
		t.Errorf("%s: inconsistent facts %+v", what, f)
	}
}

func TestDeb(t *testing.T) {
	want := map[string]string{"": "data.tar.gz", "gzip": "data.tar.gz", "xz": "data.tar.xz", "zstd": "data.tar.zst", "none": "data.tar"}
	for _, comp := range []string{"", "gzip", "xz", "zstd", "none"} {
		t.Run("compression="+comp, func(t *testing.T) {
			info := sampleInfo()
			info.Deb.Compression = comp
			var buf bytes.Buffer
			if err := deb.Default.Package(info, &buf); err != nil {
				t.Fatal(err)
			}
			d, err := ReadDeb(buf.Bytes())
			if err != nil {
				t.Fatal(err)
			}
			if !d.GlobalHeaderOK || d.Trailing != 0 {
				t.Errorf("global=%v trailing=%d", d.GlobalHeaderOK, d.Trailing)
			}
			var names []string
			for _, m := range d.Members {
				names = append(names, m.Name)
				if m.MTime != sampleMTime.Unix() {
					t.Errorf("ar member %s mtime %d", m.Name, m.MTime)
				}
				if m.Size != int64(len(m.Body)) {
					t.Errorf("ar member %s size %d body %d", m.Name, m.Size, len(m.Body))
				}
				if (m.Size%2 == 1) != m.Padded {
					t.Errorf("ar member %s size %d padded %v", m.Name, m.Size, m.Padded)
				}
			}
			if got := strings.Join(names, ","); got != "debian-binary,control.tar.gz,"+want[comp] {
				t.Errorf("ar members %s", got)
			}
			if string(d.DebianBinary) != "2.0\n" {
				t.Errorf("debian-binary %q", d.DebianBinary)
			}
			if d.DataName != want[comp] {
				t.Errorf("data name %q", d.DataName)
			}
			ctrl, ok := d.ControlFile("control")
			if !ok || !bytes.Contains(ctrl, []byte("Package: foo\n")) || !bytes.Contains(ctrl, []byte("Version: 1.0.0\n")) {
				t.Errorf("control file: %v %q", ok, ctrl)
			}
			for _, n := range []string{"md5sums", "conffiles", "preinst", "postinst", "prerm", "postrm"} {
				if _, ok := d.ControlFile(n); !ok {
					t.Errorf("control member %s missing in %q", n, entryNames(d.Control))
				}
			}
			conff, _ := d.ControlFile("conffiles")
			if !bytes.Contains(conff, []byte("/etc/fake/fake.conf\n")) {
				t.Errorf("conffiles %q", conff)
			}
			checkFacts(t, "control", d.ControlFacts, len(d.Control))
			checkFacts(t, "data", d.DataFacts, len(d.Data))
			if d.DataFacts.Len != len(d.DataTar) {
				t.Errorf("data facts len")
			}

			fake := requireEntry(t, d.Data, "./usr/bin/fake")
			if fake.Type != '0' || !bytes.Equal(fake.Body, mustRead(t, srcFake)) || fake.Size != int64(len(fake.Body)) {
				t.Errorf("fake entry %+v", *fake)
			}
			if fake.MTime != sampleMTime.Unix() || fake.Uname != "root" || fake.Gname != "root" {
				t.Errorf("fake entry meta: mtime=%d %s:%s", fake.MTime, fake.Uname, fake.Gname)
			}
			link := requireEntry(t, d.Data, "./usr/bin/fakelink")
			if link.Type != '2' || link.Linkname != "/usr/bin/fake" {
				t.Errorf("symlink %+v", *link)
			}
			dir := requireEntry(t, d.Data, "./var/log/whatever/")
			if dir.Type != '5' {
				t.Errorf("dir %+v", *dir)
			}
			// md5sums agree with the data bodies
			md5s, _ := d.ControlFile("md5sums")
			for _, line := range strings.Split(strings.TrimSpace(string(md5s)), "\n") {
				sum, name, ok := strings.Cut(line, "  ")
				if !ok {
					t.Fatalf("md5sums line %q", line)
				}
				// observed: nfpm writes md5sums names with a leading "./" already
				e := requireEntry(t, d.Data, "./"+strings.TrimPrefix(name, "./"))
				got := md5.Sum(e.Body)
				if hex.EncodeToString(got[:]) != sum {
					t.Errorf("md5 of %s", name)
				}
			}
			wantGz := 1
			if want[comp] == "data.tar.gz" {
				wantGz = 2
			}
			if len(d.GzipHeaderMTimes) != wantGz {
				t.Errorf("gzip mtimes %v", d.GzipHeaderMTimes)
			}
			t.Logf("deb[%s]: control=%q", comp, entryNames(d.Control))
			t.Logf("deb[%s]: data=%q gzipMTimes=%v format=%s", comp, entryNames(d.Data), d.GzipHeaderMTimes, fake.Format)
		})
	}
}

func TestDebMalformed(t *testing.T) {
	info := sampleInfo()
	var buf bytes.Buffer
	if err := deb.Default.Package(info, &buf); err != nil {
		t.Fatal(err)
	}
	b := buf.Bytes()
	if _, err := ReadDeb(b[1:]); err == nil {
		t.Error("no error without global header")
	}
	d, err := ReadDeb(b[:len(b)-10])
	if err != nil {
		t.Errorf("truncated last member should be reported via Trailing, got %v", err)
	}
	if d.Trailing == 0 || d.DataRaw != nil || len(d.Members) != 2 {
		t.Errorf("truncated: trailing=%d members=%d", d.Trailing, len(d.Members))
	}
	d, err = ReadDeb(append(append([]byte{}, b...), "junk"...))
	if err != nil || d.Trailing != 4 {
		t.Errorf("junk: trailing=%d err=%v", d.Trailing, err)
	}
	// corrupt the control gzip stream
	c := append([]byte{}, b...)
	off := d.Members[1].Offset + 60
	c[off+20] ^= 0xff
	c[off+21] ^= 0xff
	if _, err := ReadDeb(c); err == nil {
		t.Error("no error for corrupt control.tar.gz")
	}
}

func TestIpk(t *testing.T) {
	info := sampleInfo()
	var buf bytes.Buffer
	if err := ipk.Default.Package(info, &buf); err != nil {
		t.Fatal(err)
	}
	p, err := ReadIpk(buf.Bytes())
	if err != nil {
		t.Fatal(err)
	}
	if got := strings.Join(entryNames(p.Outer), ","); got != "./debian-binary,./control.tar.gz,./data.tar.gz" {
		t.Errorf("outer members %s", got)
	}
	checkFacts(t, "outer", p.OuterFacts, len(p.Outer))
	checkFacts(t, "control", p.ControlFacts, len(p.Control))
	checkFacts(t, "data", p.DataFacts, len(p.Data))
	if string(p.DebianBinary) != "2.0\n" {
		t.Errorf("debian-binary %q", p.DebianBinary)
	}
	ctrl, ok := p.ControlFile("control")
	if !ok || !bytes.Contains(ctrl, []byte("Package: foo\n")) {
		t.Errorf("control file: %v %q", ok, ctrl)
	}
	fake := requireEntry(t, p.Data, "./usr/bin/fake")
	if !bytes.Equal(fake.Body, mustRead(t, srcFake)) {
		t.Error("fake body differs")
	}
	link := requireEntry(t, p.Data, "./usr/bin/fakelink")
	if link.Type != '2' || link.Linkname != "/usr/bin/fake" {
		t.Errorf("symlink %+v", *link)
	}
	if len(p.GzipHeaderMTimes) != 3 || p.GzipHeaderMTimes[0] != p.OuterGzipMTime {
		t.Errorf("gzip mtimes %v outer %d", p.GzipHeaderMTimes, p.OuterGzipMTime)
	}
	if p.ControlRaw == nil || p.DataRaw == nil || p.DataTar == nil {
		t.Error("raw members missing")
	}
	t.Logf("ipk: control=%q", entryNames(p.Control))
	t.Logf("ipk: data=%q gzipMTimes=%v", entryNames(p.Data), p.GzipHeaderMTimes)
	if _, err := ReadIpk([]byte("not gzip at all")); err == nil {
		t.Error("no error for non-gzip")
	}
}

func checkApk(t *testing.T, a *Apk, b []byte, nseg int) {
	t.Helper()
	if len(a.Segments) != nseg || a.Trailing != 0 {
		t.Fatalf("segments=%d trailing=%d", len(a.Segments), a.Trailing)
	}
	// the segments tile the file exactly
	var cat []byte
	off := 0
	for i, s := range a.Segments {
		if s.Offset != off {
			t.Errorf("segment %d offset %d want %d", i, s.Offset, off)
		}
		if len(s.Raw) < 18 || s.Raw[0] != 0x1f || s.Raw[1] != 0x8b {
			t.Errorf("segment %d is not a gzip member", i)
		}
		off += len(s.Raw)
		cat = append(cat, s.Raw...)
		if s.Facts.Members != len(s.Entries) {
			t.Errorf("segment %d: walker %d members, archive/tar %d", i, s.Facts.Members, len(s.Entries))
		}
		if !s.Facts.Aligned512 || s.Facts.Truncated || s.Facts.BadHeaderAt != -1 {
			t.Errorf("segment %d facts %+v", i, s.Facts)
		}
		t.Logf("apk segment %d: off=%d raw=%d tar=%d gzipMTime=%d facts=%+v names=%q", i, s.Offset, len(s.Raw), len(s.Tar), s.GzipMTime, s.Facts, entryNames(s.Entries))
	}
	if !bytes.Equal(cat, b) {
		t.Error("segments do not concatenate to the package")
	}
	// all segments but the last are cut (no end marker); the last one is complete
	for i, s := range a.Segments {
		last := i == len(a.Segments)-1
		if last && (s.Facts.EndMarkerAt < 0 || s.Facts.TrailingZeroes < 1024) {
			t.Errorf("data segment lacks end marker: %+v", s.Facts)
		}
		if !last && (s.Facts.EndMarkerAt != -1 || s.Facts.TrailingZeroes != 0) {
			t.Errorf("segment %d is not cut: %+v", i, s.Facts)
		}
	}
	ctrl := a.Segments[nseg-2]
	pkginfo := requireEntry(t, ctrl.Entries, ".PKGINFO")
	if !bytes.Contains(pkginfo.Body, []byte("pkgname = foo\n")) {
		t.Errorf(".PKGINFO %q", pkginfo.Body)
	}
	for _, n := range []string{".pre-install", ".post-install", ".pre-deinstall", ".post-deinstall"} {
		requireEntry(t, ctrl.Entries, n)
	}
	data := a.Segments[nseg-1]
	fake := requireEntry(t, data.Entries, "usr/bin/fake")
	if !bytes.Equal(fake.Body, mustRead(t, srcFake)) {
		t.Error("fake body differs")
	}
	if fake.PAX["APK-TOOLS.checksum.SHA1"] == "" {
		t.Errorf("no APK-TOOLS.checksum.SHA1 PAX record on usr/bin/fake: %v (format %s)", fake.PAX, fake.Format)
	}
	if data.Facts.ExtHeaders == 0 {
		t.Errorf("data segment has no PAX extension headers: %+v", data.Facts)
	}
	link := requireEntry(t, data.Entries, "usr/bin/fakelink")
	if link.Type != '2' || link.Linkname != "/usr/bin/fake" {
		t.Errorf("symlink %+v", *link)
	}
	// datahash in .PKGINFO is the sha256 of the data gzip member as shipped
	sum := sha256.Sum256(data.Raw)
	if !bytes.Contains(pkginfo.Body, []byte("datahash = "+hex.EncodeToString(sum[:])+"\n")) {
		t.Errorf("datahash does not match the data segment")
	}
}

func TestApkUnsigned(t *testing.T) {
	info := sampleInfo()
	var buf bytes.Buffer
	if err := apk.Default.Package(info, &buf); err != nil {
		t.Fatal(err)
	}
	a, err := ReadApk(buf.Bytes())
	if err != nil {
		t.Fatal(err)
	}
	checkApk(t, a, buf.Bytes(), 2)

	// trailing garbage is counted, not an error
	a, err = ReadApk(append(append([]byte{}, buf.Bytes()...), "garbage!"...))
	if err != nil || a.Trailing != 8 || len(a.Segments) != 2 {
		t.Errorf("garbage: segs=%d trailing=%d err=%v", len(a.Segments), a.Trailing, err)
	}
	if _, err := ReadApk([]byte("garbage")); err == nil {
		t.Error("no error for non-gzip")
	}
}

func TestApkSigned(t *testing.T) {
	info := sampleInfo()
	info.APK.Signature.KeyFile = rsaKey
	var buf bytes.Buffer
	if err := apk.Default.Package(info, &buf); err != nil {
		t.Fatal(err)
	}
	a, err := ReadApk(buf.Bytes())
	if err != nil {
		t.Fatal(err)
	}
	checkApk(t, a, buf.Bytes(), 3)
	sig := a.Segments[0]
	if len(sig.Entries) != 1 || !strings.HasPrefix(sig.Entries[0].Name, ".SIGN.RSA.") || len(sig.Entries[0].Body) == 0 {
		t.Errorf("signature segment %q", entryNames(sig.Entries))
	}
}

func TestArch(t *testing.T) {
	info := sampleInfo()
	var buf bytes.Buffer
	if err := arch.Default.Package(info, &buf); err != nil {
		t.Fatal(err)
	}
	a, err := ReadArch(buf.Bytes())
	if err != nil {
		t.Fatal(err)
	}
	checkFacts(t, "arch", a.Facts, len(a.Entries))
	t.Logf("arch: entries=%q", entryNames(a.Entries))
	kv := map[string][]string{}
	for _, p := range a.Pkginfo {
		kv[p.Key] = append(kv[p.Key], p.Value)
		if strings.HasPrefix(p.Key, "#") || p.Key == "" {
			t.Errorf("bad pkginfo key %q", p.Key)
		}
	}
	if got := kv["pkgname"]; len(got) != 1 || got[0] != "foo" {
		t.Errorf("pkgname %v (pkginfo %q)", got, a.PkginfoRaw)
	}
	if len(kv["backup"]) == 0 || len(kv["depend"]) == 0 {
		t.Errorf("pkginfo lacks backup/depend: %v", a.Pkginfo)
	}
	if !a.MtreeHeaderOK || len(a.Mtree) == 0 || a.MtreeGz == nil {
		t.Fatalf("mtree headerOK=%v lines=%d", a.MtreeHeaderOK, len(a.Mtree))
	}
	if !a.HasInstall || !bytes.Contains(a.Install, []byte("pre_install")) {
		t.Errorf("install %v %q", a.HasInstall, a.Install)
	}
	// every mtree line names a tar entry, and file digests match
	for _, l := range a.Mtree {
		if !strings.HasPrefix(l.Path, "./") {
			t.Errorf("mtree path %q", l.Path)
			continue
		}
		name := strings.TrimPrefix(l.Path, "./")
		e := findEntry(a.Entries, name)
		if e == nil {
			e = findEntry(a.Entries, name+"/")
		}
		if e == nil {
			t.Errorf("mtree line %q has no tar entry", l.Raw)
			continue
		}
		if l.Fields["time"] == "" || l.Fields["mode"] == "" || l.Fields["type"] == "" {
			t.Errorf("mtree line %q fields %v", l.Raw, l.Fields)
		}
		switch l.Fields["type"] {
		case "file":
			sum := sha256.Sum256(e.Body)
			if l.Fields["sha256digest"] != hex.EncodeToString(sum[:]) || l.Fields["size"] != fmt.Sprint(len(e.Body)) {
				t.Errorf("mtree line %q does not match body of %s", l.Raw, e.Name)
			}
		case "link":
			if l.Fields["link"] != e.Linkname {
				t.Errorf("mtree link %q vs %q", l.Fields["link"], e.Linkname)
			}
		case "dir":
			if e.Type != '5' {
				t.Errorf("mtree dir %q is type %c in tar", l.Path, e.Type)
			}
		default:
			t.Errorf("mtree type %q", l.Fields["type"])
		}
	}
	if a.Mtree[0].Path != "./.PKGINFO" {
		t.Errorf("first mtree line %q", a.Mtree[0].Raw)
	}
	fake := requireEntry(t, a.Entries, "usr/bin/fake")
	if !bytes.Equal(fake.Body, mustRead(t, srcFake)) {
		t.Error("fake body differs")
	}
	link := requireEntry(t, a.Entries, "usr/bin/fakelink")
	if link.Type != '2' || link.Linkname != "/usr/bin/fake" {
		t.Errorf("symlink %+v", *link)
	}
	t.Logf("arch: mtreeGzipMTime=%d first lines: %q", a.MtreeGzipMTime, a.Mtree[:2])
	if _, err := ReadArch([]byte("nope")); err == nil {
		t.Error("no error for non-zstd")
	}
}

func TestMtreeParse(t *testing.T) {
	ok, lines := parseMtree([]byte("#mtree\n./a b time=1.0 mode=777 type=link link=/x y=z\n./d time=2.0 mode=755 type=dir\n\n"))
	if !ok || len(lines) != 2 {
		t.Fatalf("%v %v", ok, lines)
	}
	if lines[0].Path != "./a b" || lines[0].Fields["link"] != "/x y=z" || lines[0].Fields["type"] != "link" || lines[0].Fields["time"] != "1.0" {
		t.Errorf("%+v", lines[0])
	}
	if lines[1].Path != "./d" || lines[1].Fields["mode"] != "755" || len(lines[1].Fields) != 3 {
		t.Errorf("%+v", lines[1])
	}
	ok, _ = parseMtree([]byte("./d time=2.0\n"))
	if ok {
		t.Error("header reported OK")
	}
}

func TestRpm(t *testing.T) {
	for _, comp := range []string{"", "gzip", "xz", "lzma", "zstd"} {
		t.Run("compression="+comp, func(t *testing.T) {
			info := sampleInfo()
			info.RPM.Compression = comp
			var buf bytes.Buffer
			if err := rpm.Default.Package(info, &buf); err != nil {
				t.Fatal(err)
			}
			b := buf.Bytes()
			r, err := ReadRpm(b)
			if err != nil {
				t.Fatal(err)
			}
			if !r.LeadOK || r.SigOffset != 96 || !r.SigPadOK || r.HeaderOffset%8 != 0 {
				t.Errorf("lead=%v sigoff=%d pad=%v hdroff=%d", r.LeadOK, r.SigOffset, r.SigPadOK, r.HeaderOffset)
			}
			if !strings.HasPrefix(r.LeadName, "foo-1.0.0") {
				t.Errorf("lead name %q", r.LeadName)
			}
			if 96+len(r.SigHeaderRaw)+len(r.HeaderRaw)+len(r.PayloadRaw) != len(b) {
				t.Error("parts do not tile the file")
			}
			if r.HeaderOffset != 96+len(r.SigHeaderRaw) {
				t.Error("header offset")
			}
			wantComp := comp
			if wantComp == "" {
				wantComp = "gzip"
			}
			if r.PayloadCompressor != wantComp {
				t.Errorf("payload compressor %q", r.PayloadCompressor)
			}
			if sniffCompression(r.PayloadRaw) != wantComp {
				t.Errorf("payload magic says %q", sniffCompression(r.PayloadRaw))
			}
			if got := r.Hdr[1000].Strs; len(got) != 1 || got[0] != "foo" {
				t.Errorf("NAME %v", got)
			}
			if got := r.Hdr[1001].Strs; len(got) != 1 || got[0] != "1.0.0" {
				t.Errorf("VERSION %v", got)
			}
			if len(r.HdrOrder) != len(r.Hdr) || len(r.SigOrder) != len(r.Sig) {
				t.Errorf("duplicate tags: %d/%d %d/%d", len(r.HdrOrder), len(r.Hdr), len(r.SigOrder), len(r.Sig))
			}
			// signature header: SIZE (1000) = header+payload, SHA256 (273) hex of the header.
			// observed: PAYLOADSIZE (1007) is NOT the uncompressed cpio length but the sum of
			// the cpio body lengths (rpmpack quirk); an unsigned package has no MD5 (1004) tag.
			if got := r.Sig[1000].Ints; len(got) != 1 || int(got[0]) != len(r.HeaderRaw)+len(r.PayloadRaw) {
				t.Errorf("sig SIZE %v want %d", got, len(r.HeaderRaw)+len(r.PayloadRaw))
			}
			bodies := 0
			for _, c := range r.Cpio {
				bodies += len(c.Body)
			}
			if got := r.Sig[1007].Ints; len(got) != 1 || int(got[0]) != bodies {
				t.Errorf("sig PAYLOADSIZE %v; sum of bodies %d, cpio length %d", got, bodies, len(r.Payload))
			}
			if got := r.Hdr[1009].Ints; len(got) != 1 || int(got[0]) != bodies {
				t.Errorf("hdr SIZE %v; sum of bodies %d", got, bodies)
			}
			if t1004, ok := r.Sig[1004]; ok {
				sum := md5.Sum(b[r.HeaderOffset:])
				if !bytes.Equal(t1004.Bin, sum[:]) {
					t.Errorf("sig MD5 %x want %x", t1004.Bin, sum)
				}
			}
			hsum := sha256.Sum256(r.HeaderRaw)
			if got := r.Sig[273].Strs; len(got) != 1 || got[0] != hex.EncodeToString(hsum[:]) {
				t.Errorf("sig SHA256 %v", got)
			}

			if !r.CpioTrailerOK || len(r.Cpio) == 0 {
				t.Fatalf("cpio trailer=%v n=%d", r.CpioTrailerOK, len(r.Cpio))
			}
			if len(r.Files) != len(r.Cpio) {
				t.Fatalf("files %d cpio %d", len(r.Files), len(r.Cpio))
			}
			var fnames, cnames []string
			byName := map[string]CpioEntry{}
			for _, c := range r.Cpio {
				// observed: rpmpack stores absolute names ("/usr/bin/fake"), not "./usr/bin/fake"
				if !strings.HasPrefix(c.Name, "/") && !strings.HasPrefix(c.Name, "./") {
					t.Errorf("cpio name %q", c.Name)
				}
				cnames = append(cnames, strings.TrimPrefix(c.Name, "."))
				byName[strings.TrimPrefix(c.Name, ".")] = c
				if int(c.Size) != len(c.Body) {
					t.Errorf("cpio %s size", c.Name)
				}
			}
			for _, f := range r.Files {
				fnames = append(fnames, f.Name)
			}
			sortedF := append([]string{}, fnames...)
			sortedC := append([]string{}, cnames...)
			sort.Strings(sortedF)
			sort.Strings(sortedC)
			if strings.Join(sortedF, "\n") != strings.Join(sortedC, "\n") {
				t.Errorf("file names differ:\nhdr  %q\ncpio %q", fnames, cnames)
			}
			if strings.Join(fnames, "\n") != strings.Join(cnames, "\n") {
				t.Logf("note: header order differs from cpio order:\nhdr  %q\ncpio %q", fnames, cnames)
			}
			for _, f := range r.Files {
				c, ok := byName[f.Name]
				if !ok {
					continue
				}
				if f.Mode != c.Mode || f.Ino != c.Ino {
					t.Errorf("%s: hdr mode %o ino %d, cpio mode %o ino %d", f.Name, f.Mode, f.Ino, c.Mode, c.Ino)
				}
				if f.User != "root" || f.Group != "root" || f.MTime != uint64(sampleMTime.Unix()) {
					t.Errorf("%s: %s:%s mtime %d", f.Name, f.User, f.Group, f.MTime)
				}
				switch f.Mode & 0o170000 {
				case 0o100000:
					s := sha256.Sum256(c.Body)
					m := md5.Sum(c.Body)
					if f.Digest != hex.EncodeToString(s[:]) && f.Digest != hex.EncodeToString(m[:]) {
						t.Errorf("%s: digest %s matches neither sha256 nor md5 of the body", f.Name, f.Digest)
					}
					if f.Size != c.Size {
						t.Errorf("%s: size %d vs %d", f.Name, f.Size, c.Size)
					}
				case 0o120000:
					if f.Linkto != string(c.Body) {
						t.Errorf("%s: linkto %q vs cpio body %q", f.Name, f.Linkto, c.Body)
					}
				}
			}
			fake := byName["/usr/bin/fake"]
			if !bytes.Equal(fake.Body, mustRead(t, srcFake)) {
				t.Error("fake body differs")
			}
			t.Logf("rpm[%s]: lead=%q sig=%v hdrTags=%d payload raw=%d cpio=%d rest=%d", comp, r.LeadName, r.SigOrder, len(r.HdrOrder), len(r.PayloadRaw), len(r.Payload), r.CpioRest)
			t.Logf("rpm[%s]: files=%q", comp, fnames)
		})
	}
}

func TestRpmMalformed(t *testing.T) {
	info := sampleInfo()
	var buf bytes.Buffer
	if err := rpm.Default.Package(info, &buf); err != nil {
		t.Fatal(err)
	}
	b := buf.Bytes()
	if _, err := ReadRpm(b[:50]); err == nil {
		t.Error("no error for short input")
	}
	c := append([]byte{}, b...)
	c[0] = 0
	if r, err := ReadRpm(c); err == nil || r.LeadOK {
		t.Error("no error for bad lead")
	}
	c = append([]byte{}, b...)
	c[96] = 0
	if _, err := ReadRpm(c); err == nil {
		t.Error("no error for bad signature header magic")
	}
	if _, err := ReadRpm(b[:len(b)-20]); err == nil {
		t.Error("no error for truncated payload")
	}
}

func TestWalkTarEdgeCases(t *testing.T) {
	if f := WalkTar(nil); f.Len != 0 || f.Members != 0 || f.EndMarkerAt != -1 || f.TrailingZeroes != 0 || !f.Aligned512 {
		t.Errorf("empty: %+v", f)
	}
	// a lone zero block is not an end marker
	if f := WalkTar(make([]byte, 512)); f.EndMarkerAt != -1 || f.TrailingZeroes != 512 || f.StopAt != 0 {
		t.Errorf("one zero block: %+v", f)
	}
	if f := WalkTar(make([]byte, 1024)); f.EndMarkerAt != 0 || f.TrailingZeroes != 1024 {
		t.Errorf("two zero blocks: %+v", f)
	}
	junk := bytes.Repeat([]byte{'A'}, 512)
	if f := WalkTar(junk); f.BadHeaderAt != 0 || f.TrailingZeroes != -1 {
		t.Errorf("junk: %+v", f)
	}
	// end marker followed by non-zero bytes
	s := append(make([]byte, 1024), 'x')
	if f := WalkTar(s); f.EndMarkerAt != 0 || f.TrailingZeroes != -1 || f.Aligned512 {
		t.Errorf("marker+junk: %+v", f)
	}
	es, err := ReadTar(nil)
	if err != nil || len(es) != 0 {
		t.Errorf("ReadTar(nil): %v %v", es, err)
	}
}

func TestReadArPadding(t *testing.T) {
	hdr := func(name string, size int) string {
		return fmt.Sprintf("%-16s%-12d%-6d%-6d%-8o%-10d`\n", name, 7, 1, 2, 0o100644, size)
	}
	b := []byte("!<arch>\n" + hdr("a/", 3) + "abc\n" + hdr("b", 1) + "x")
	ok, ms, trailing, err := ReadAr(b)
	if !ok || err != nil || trailing != 0 || len(ms) != 2 {
		t.Fatalf("%v %v %d %v", ok, ms, trailing, err)
	}
	if ms[0].Name != "a" || !ms[0].Padded || string(ms[0].Body) != "abc" || ms[0].Mode != 0o100644 || ms[0].MTime != 7 || ms[0].Uid != 1 || ms[0].Gid != 2 || ms[0].Offset != 8 {
		t.Errorf("%+v", ms[0])
	}
	if ms[1].Name != "b" || ms[1].Padded || string(ms[1].Body) != "x" {
		t.Errorf("%+v", ms[1])
	}
	bad := []byte("!<arch>\n" + strings.Replace(hdr("a", 0), "`\n", "xx", 1))
	if _, _, _, err := ReadAr(bad); err == nil {
		t.Error("no error for bad header magic")
	}
}
