package decode

import (
	"fmt"
	"strings"
)

// ReadArch decodes an Arch Linux .pkg.tar.zst.  Malformed content returns an
// error together with the partially filled *Arch.
func ReadArch(b []byte) (*Arch, error) {
	a := &Arch{}
	var err error
	a.Tar, err = unzstd(b)
	if err != nil {
		return a, fmt.Errorf("arch: %w", err)
	}
	a.Facts = WalkTar(a.Tar)
	a.Entries, err = ReadTar(a.Tar)
	if err != nil {
		return a, fmt.Errorf("arch: %w", err)
	}
	seenInfo, seenMtree := false, false
	for _, e := range a.Entries {
		if e.Type != '0' {
			continue
		}
		switch {
		case e.Name == ".PKGINFO" && !seenInfo:
			seenInfo = true
			a.PkginfoRaw = e.Body
			a.Pkginfo = parsePkginfo(e.Body)
		case e.Name == ".MTREE" && !seenMtree:
			seenMtree = true
			a.MtreeGz = e.Body
			mt, ok := gzipMTime(e.Body)
			if !ok {
				return a, fmt.Errorf("arch: .MTREE is not gzip")
			}
			a.MtreeGzipMTime = mt
			a.MtreeRaw, err = gunzip(e.Body)
			if err != nil {
				return a, fmt.Errorf("arch: .MTREE: %w", err)
			}
			a.MtreeHeaderOK, a.Mtree = parseMtree(a.MtreeRaw)
		case e.Name == ".INSTALL" && !a.HasInstall:
			a.HasInstall = true
			a.Install = e.Body
			if a.Install == nil {
				a.Install = []byte{}
			}
		}
	}
	return a, nil
}

// parsePkginfo splits "key = value" lines at the first " = "; lines starting
// with '#' and empty lines are skipped.  A line without " = " is kept with an
// empty Value so that nothing is silently dropped.
func parsePkginfo(b []byte) []KV {
	var out []KV
	for _, line := range strings.Split(string(b), "\n") {
		if line == "" || strings.HasPrefix(line, "#") {
			continue
		}
		if i := strings.Index(line, " = "); i >= 0 {
			out = append(out, KV{Key: line[:i], Value: line[i+3:]})
		} else {
			out = append(out, KV{Key: line})
		}
	}
	return out
}

// parseMtree: the first line must be "#mtree"; every following non-empty line
// is Path (up to the first " time=", else up to the first space) followed by
// space separated key=value fields; link= takes the rest of the line.
func parseMtree(b []byte) (headerOK bool, lines []MtreeLine) {
	all := strings.Split(string(b), "\n")
	if len(all) > 0 && all[0] == "#mtree" {
		headerOK = true
		all = all[1:]
	}
	for _, raw := range all {
		if raw == "" {
			continue
		}
		ml := MtreeLine{Raw: raw, Fields: map[string]string{}}
		rest := ""
		if i := strings.Index(raw, " time="); i >= 0 {
			ml.Path, rest = raw[:i], raw[i+1:]
		} else if i := strings.IndexByte(raw, ' '); i >= 0 {
			ml.Path, rest = raw[:i], raw[i+1:]
		} else {
			ml.Path = raw
		}
		if strings.HasPrefix(rest, "link=") {
			ml.Fields["link"] = rest[len("link="):]
			rest = ""
		} else if i := strings.Index(rest, " link="); i >= 0 {
			ml.Fields["link"] = rest[i+len(" link="):]
			rest = rest[:i]
		}
		for _, tok := range strings.Split(rest, " ") {
			if tok == "" {
				continue
			}
			if k, v, ok := strings.Cut(tok, "="); ok {
				ml.Fields[k] = v
			} else {
				ml.Fields[tok] = ""
			}
		}
		lines = append(lines, ml)
	}
	return headerOK, lines
}
