// Package decode holds independent readers for the five package formats nfpm
// writes.  It must not import any nfpm package: it shares no code with the
// writers' call sites.  Every reader works on the final package bytes only.
package decode

// Entry is one member of a tar stream (or of a cpio stream for rpm).
type Entry struct {
	Name     string // member name exactly as stored
	Type     byte   // tar typeflag: '0' regular, '5' dir, '2' symlink, other as stored
	Mode     int64  // header mode as stored (all bits)
	Uname    string // owner name ("" if absent)
	Gname    string // group name ("" if absent)
	Uid, Gid int
	MTime    int64             // unix seconds
	MTimeNs  int64             // nanosecond part if the format stored one (PAX), else 0
	ATime    int64             // access time stored in the header (GNU header field or PAX record), 0 = none stored
	CTime    int64             // change time stored in the header, 0 = none stored
	Size     int64             // header size field
	Linkname string            // symlink target
	Body     []byte            // member body (regular files)
	PAX      map[string]string // PAX records (nil if none)
	Format   string            // "USTAR", "PAX", "GNU", "" (archive/tar Format.String())
}

// TarFacts are raw-block facts about one tar stream, computed by a
// hand-written 512-byte block walker (not archive/tar).
type TarFacts struct {
	Len            int  // byte length of the stream
	Aligned512     bool // Len % 512 == 0
	EndMarkerAt    int  // offset of the first pair of all-zero 512-byte blocks that follows the last member, -1 if none
	TrailingZeroes int  // number of zero bytes from EndMarkerAt (or from the end of the last member's padding) to the end
	Members        int  // number of header blocks walked (PAX/GNU extension headers count separately in ExtHeaders)
	ExtHeaders     int
	// added by the walker implementation
	StopAt      int  // offset at which the walk stopped (first all-zero block, bad header, or end of stream)
	Truncated   bool // the last member's body/padding runs past the end, or a non-zero partial block remains
	BadHeaderAt int  // offset of a non-zero block that is not a valid header (bad checksum/size), -1 if none
}

// ArMember is one member of an ar archive, parsed by hand from 60-byte headers.
type ArMember struct {
	Name   string // trailing "/" and padding removed
	MTime  int64
	Uid    int
	Gid    int
	Mode   int64 // octal field parsed
	Size   int64
	Body   []byte
	Offset int  // offset of the header in the archive
	Padded bool // a '\n' pad byte follows the body
}

type Deb struct {
	GlobalHeaderOK bool
	Members        []ArMember
	Trailing       int // bytes after the last complete member (0 for a well-formed archive)
	// decoded members (nil when the member is missing)
	DebianBinary     []byte
	ControlRaw       []byte  // control.tar.gz member body, as stored
	Control          []Entry // entries of control.tar.gz
	ControlFacts     TarFacts
	DataName         string // data.tar, data.tar.gz, data.tar.xz, data.tar.zst
	DataRaw          []byte // data member body, as stored (compressed)
	DataTar          []byte // decompressed tar stream
	Data             []Entry
	DataFacts        TarFacts
	SigName          string // "_gpgorigin" … or ""
	Sig              []byte
	GzipHeaderMTimes []uint32 // MTIME field of every gzip member header met at any level (control.tar.gz, data.tar.gz)
}

// ControlFile returns the body of ./name (or name) in the control tarball.
func (d *Deb) ControlFile(name string) ([]byte, bool) {
	for _, e := range d.Control {
		if e.Name == "./"+name || e.Name == name {
			return e.Body, true
		}
	}
	return nil, false
}

type Ipk struct {
	OuterGzipMTime   uint32
	OuterTar         []byte
	Outer            []Entry // ./debian-binary ./control.tar.gz ./data.tar.gz
	OuterFacts       TarFacts
	DebianBinary     []byte
	ControlRaw       []byte
	Control          []Entry
	ControlFacts     TarFacts
	DataRaw          []byte
	DataTar          []byte
	Data             []Entry
	DataFacts        TarFacts
	GzipHeaderMTimes []uint32
}

func (d *Ipk) ControlFile(name string) ([]byte, bool) {
	for _, e := range d.Control {
		if e.Name == "./"+name || e.Name == name {
			return e.Body, true
		}
	}
	return nil, false
}

// ApkSegment is one gzip member of the concatenation.
type ApkSegment struct {
	Raw       []byte // compressed bytes of exactly this gzip member, as shipped
	Offset    int
	GzipMTime uint32
	Tar       []byte // decompressed bytes
	Facts     TarFacts
	Entries   []Entry
}

type Apk struct {
	Segments []ApkSegment // in order of appearance; 2 (control, data) or 3 (signature, control, data)
	Trailing int          // bytes after the last gzip member
}

type KV struct{ Key, Value string }

type MtreeLine struct {
	Raw    string
	Path   string            // first token, as stored (e.g. "./usr/bin/x")
	Fields map[string]string // time, mode, size, type, md5digest, sha256digest, link
}

type Arch struct {
	Tar            []byte // decompressed zstd stream
	Facts          TarFacts
	Entries        []Entry // all members in order, including .PKGINFO .MTREE .INSTALL
	PkginfoRaw     []byte
	Pkginfo        []KV // key = value lines in order (comment lines skipped)
	MtreeGz        []byte
	MtreeGzipMTime uint32
	MtreeRaw       []byte // gunzipped
	MtreeHeaderOK  bool   // first line is "#mtree"
	Mtree          []MtreeLine
	Install        []byte // nil if absent
	HasInstall     bool
}

// RpmTag is one index entry of an rpm header.
type RpmTag struct {
	Tag   int
	Type  int // 2 int8, 3 int16, 4 int32, 5 int64, 6 string, 7 bin, 8 string array, 9 i18n string
	Count int
	Ints  []uint64 // for the integer types
	Strs  []string // for string, string array, i18n
	Bin   []byte   // for bin
}

type RpmFile struct { // one row of the header's file list, joined from BASENAMES/DIRNAMES/DIRINDEXES and the FILE* tags
	Name   string
	Size   uint64
	Mode   uint64 // FILEMODES (uint16 in the header)
	MTime  uint64
	Digest string
	Linkto string
	Flags  uint64
	User   string
	Group  string
	Ino    uint64
}

type CpioEntry struct {
	Name  string
	Mode  uint64
	MTime uint64
	Size  uint64
	Ino   uint64
	Body  []byte
	// added by the reader implementation
	Uid, Gid, Nlink uint64
}

type Rpm struct {
	LeadOK            bool // 96-byte lead with magic ed ab ee db
	LeadName          string
	SigOffset         int    // offset of the signature header (must be 96)
	SigHeaderRaw      []byte // the signature header bytes incl. padding to 8
	SigPadOK          bool   // signature header is padded so that the main header starts 8-byte aligned
	Sig               map[int]RpmTag
	SigOrder          []int
	HeaderOffset      int
	HeaderRaw         []byte // main header bytes exactly as shipped
	Hdr               map[int]RpmTag
	HdrOrder          []int
	PayloadRaw        []byte      // compressed payload exactly as shipped
	PayloadCompressor string      // from tag 1125
	Payload           []byte      // decompressed cpio stream
	Cpio              []CpioEntry // TRAILER!!! excluded
	CpioTrailerOK     bool
	Files             []RpmFile
	// added by the reader implementation
	CpioRest int // bytes after the TRAILER!!! entry (incl. its padding) in the decompressed payload
}
