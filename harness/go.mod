module verif/harness

go 1.23.0

require (
	github.com/Masterminds/semver/v3 v3.3.1
	github.com/ProtonMail/go-crypto v1.2.0
	github.com/google/rpmpack v0.6.1-0.20240329070804-c2247cbb881a
	github.com/goreleaser/fileglob v1.3.0
	github.com/goreleaser/nfpm/v2 v2.0.0
	github.com/invopop/jsonschema v0.13.0
	github.com/klauspost/compress v1.18.0
	github.com/ulikunitz/xz v0.5.12
	gopkg.in/yaml.v3 v3.0.1
)

require (
	dario.cat/mergo v1.0.1 // indirect
	github.com/AlekSi/pointer v1.2.0 // indirect
	github.com/Masterminds/goutils v1.1.1 // indirect
	github.com/Masterminds/sprig/v3 v3.3.0 // indirect
	github.com/bahlo/generic-list-go v0.2.0 // indirect
	github.com/blakesmith/ar v0.0.0-20190502131153-809d4375e1fb // indirect
	github.com/buger/jsonparser v1.1.1 // indirect
	github.com/cavaliergopher/cpio v1.0.1 // indirect
	github.com/cloudflare/circl v1.6.0 // indirect
	github.com/cyphar/filepath-securejoin v0.4.1 // indirect
	github.com/emirpasic/gods v1.18.1 // indirect
	github.com/go-git/gcfg v1.5.1-0.20230307220236-3a3c6141e376 // indirect
	github.com/go-git/go-billy/v5 v5.6.2 // indirect
	github.com/go-git/go-git/v5 v5.14.0 // indirect
	github.com/gobwas/glob v0.2.3 // indirect
	github.com/golang/groupcache v0.0.0-20241129210726-2c02b8208cf8 // indirect
	github.com/google/uuid v1.6.0 // indirect
	github.com/goreleaser/chglog v0.7.0 // indirect
	github.com/huandu/xstrings v1.5.0 // indirect
	github.com/jbenet/go-context v0.0.0-20150711004518-d14ea06fba99 // indirect
	github.com/kevinburke/ssh_config v1.2.0 // indirect
	github.com/klauspost/pgzip v1.2.6 // indirect
	github.com/mailru/easyjson v0.7.7 // indirect
	github.com/mitchellh/copystructure v1.2.0 // indirect
	github.com/mitchellh/reflectwalk v1.0.2 // indirect
	github.com/pjbgf/sha1cd v0.3.2 // indirect
	github.com/sergi/go-diff v1.3.2-0.20230802210424-5b0b94c5c0d3 // indirect
	github.com/shopspring/decimal v1.4.0 // indirect
	github.com/skeema/knownhosts v1.3.1 // indirect
	github.com/spf13/cast v1.7.1 // indirect
	github.com/wk8/go-ordered-map/v2 v2.1.8 // indirect
	github.com/xanzy/ssh-agent v0.3.3 // indirect
	gitlab.com/digitalxero/go-conventional-commit v1.0.7 // indirect
	golang.org/x/crypto v0.36.0 // indirect
	golang.org/x/exp v0.0.0-20240719175910-8a7402abbf56 // indirect
	golang.org/x/net v0.38.0 // indirect
	golang.org/x/sys v0.31.0 // indirect
	gopkg.in/warnings.v0 v0.1.2 // indirect
)

replace github.com/goreleaser/nfpm/v2 => /repo
