package main

import (
	"bytes"
	"fmt"
	"os"
	"path/filepath"
	"time"

	"github.com/goreleaser/nfpm/v2"
	_ "github.com/goreleaser/nfpm/v2/arch"
	"github.com/goreleaser/nfpm/v2/files"
	"verif/harness/decode"
)

func build(src string, frac time.Duration) {
	// wait until the wall clock's sub-second part is frac
	for {
		n := time.Duration(time.Now().Nanosecond())
		if n >= frac && n < frac+50*time.Millisecond {
			break
		}
		time.Sleep(5 * time.Millisecond)
	}
	info := nfpm.WithDefaults(&nfpm.Info{Name: "verifpkg", Arch: "amd64", Platform: "linux", Version: "1.2.3", Maintainer: "V <v@example.com>", Description: "d",
		Overridables: nfpm.Overridables{Contents: files.Contents{{Source: src, Destination: "/usr/bin/tool"}}}})
	p, _ := nfpm.Get("archlinux")
	var buf bytes.Buffer
	if err := p.Package(info, &buf); err != nil {
		panic(err)
	}
	a, err := decode.ReadArch(buf.Bytes())
	if err != nil {
		panic(err)
	}
	fmt.Printf("--- built at sub-second %v, info.MTime unset\n", frac)
	for _, e := range a.Entries {
		fmt.Printf("tar member %-16q mtime=%d.%09d\n", e.Name, e.MTime, e.MTimeNs)
	}
	fmt.Printf(".MTREE:\n%s", a.MtreeRaw)
}

func main() {
	dir, _ := os.MkdirTemp("", "c34repro")
	defer os.RemoveAll(dir)
	src := filepath.Join(dir, "tool")
	_ = os.WriteFile(src, []byte("x\n"), 0o755)
	mt := time.Unix(1600000000, 700_000_000) // a source file with a fractional mtime, as every real file has
	_ = os.Chtimes(src, mt, mt)
	build(src, 100*time.Millisecond)
	build(src, 700*time.Millisecond)
}
