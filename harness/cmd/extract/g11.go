package main

import (
	"fmt"
	"regexp"
	"strings"
)

// ---------- G11: (label, selector) rows of the control templates ----------

var (
	reCtx   = regexp.MustCompile(`\{\{-?\s*(with|if|range)\s+([^}]*?)\s*-?\}\}`)
	reLabel = regexp.MustCompile(`^([A-Za-z][A-Za-z0-9_-]*)(: | = )(.*)$`)
	reSel   = regexp.MustCompile(`\.Info\.[A-Za-z0-9_.]+|\.InstalledSize|\.Datahash`)
)

func templateRows(tpl string) [][2]string {
	var rows [][2]string
	ctx := ""
	for _, line := range strings.Split(tpl, "\n") {
		trim := strings.TrimSpace(line)
		if m := reLabel.FindStringSubmatch(trim); m != nil && !strings.HasPrefix(trim, "{{") {
			label, val := m[1], m[3]
			sel := ""
			switch {
			case strings.Contains(val, "{{join .}}") || strings.Contains(val, "{{ join . }}"):
				sel = "join(" + ctx + ")"
			case strings.Contains(val, "range $index"):
				if s := reSel.FindString(val); s != "" {
					sel = "range(" + s + ")"
				}
			default:
				sels := reSel.FindAllString(val, -1)
				fn := ""
				if i := strings.Index(val, "{{"); i >= 0 {
					inner := strings.TrimSpace(strings.Trim(val[i:], "{}- "))
					if f := strings.Fields(inner); len(f) > 1 && !strings.HasPrefix(f[0], ".") && f[0] != "if" {
						fn = f[0]
					}
				}
				sel = strings.Join(sels, "+")
				if fn != "" {
					sel = fn + "(" + sel + ")"
				}
				if sel == "" && strings.Contains(val, "$") {
					sel = "range-var(" + ctx + ")"
				}
				if sel == "" {
					sel = "literal:" + val
				}
			}
			rows = append(rows, [2]string{label, sel})
			continue
		}
		if strings.HasPrefix(trim, "{{$key}}") {
			rows = append(rows, [2]string{"$key", "range-var(" + ctx + ")"})
			continue
		}
		if m := reCtx.FindStringSubmatch(trim); m != nil {
			ctx = strings.Join(strings.Fields(m[2]), " ")
		}
		// continuation lines of a multi-line value (the Version line)
		if len(rows) > 0 && strings.HasPrefix(trim, "{{- if .Info.") {
			if s := reSel.FindAllString(trim, -1); len(s) > 0 && strings.Contains(trim, "{{- end }}") {
				last := &rows[len(rows)-1]
				last[1] += "+" + s[0]
			}
		}
	}
	return rows
}

func leanRows(name string, rows [][2]string) string {
	parts := make([]string, len(rows))
	for i, r := range rows {
		parts[i] = fmt.Sprintf("(%s, %s)", leanStr(r[0]), leanStr(r[1]))
	}
	return fmt.Sprintf("def %s : List (Bytes × Bytes) := [\n  %s]\n", name, strings.Join(parts, ",\n  "))
}

func genTemplatesReal() (string, error) {
	var b strings.Builder
	b.WriteString("import NfpmModel.Bytes\nnamespace Nfpm.Generated\nopen Nfpm\n")
	for _, x := range []struct{ lean, file, constName string }{
		{"templateRows_deb", "deb/deb.go", "controlTemplate"},
		{"templateRows_ipk", "ipk/ipk.go", "controlTemplate"},
		{"templateRows_apk", "apk/apk.go", "controlTemplate"},
		{"templateRows_dpkgsig", "deb/deb.go", "dpkgSigTemplate"},
	} {
		s, err := parse(x.file)
		if err != nil {
			return "", err
		}
		tpl, ok := unquote(s.topVar(x.constName))
		if !ok {
			return "", fmt.Errorf("%s: template %s not found", x.file, x.constName)
		}
		b.WriteString(leanRows(x.lean, templateRows(tpl)))
	}
	b.WriteString("end Nfpm.Generated\n")
	return b.String(), nil
}
