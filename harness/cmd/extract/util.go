package main

import (
	"fmt"
	"go/ast"
	"go/parser"
	"go/token"
	"path/filepath"
	"sort"
	"strconv"
	"strings"
)

type srcFile struct {
	fset *token.FileSet
	f    *ast.File
	path string
}

func parse(rel string) (*srcFile, error) {
	fset := token.NewFileSet()
	p := filepath.Join(*repo, rel)
	f, err := parser.ParseFile(fset, p, nil, parser.ParseComments)
	if err != nil {
		return nil, err
	}
	return &srcFile{fset, f, p}, nil
}

// leanStr renders a Go string as a Lean Bytes literal via ofString for ASCII,
// or an explicit byte list otherwise.
func leanStr(s string) string {
	ascii := true
	for i := 0; i < len(s); i++ {
		if s[i] < 32 || s[i] > 126 {
			ascii = false
		}
	}
	if ascii {
		e := strings.ReplaceAll(strings.ReplaceAll(s, "\\", "\\\\"), "\"", "\\\"")
		return fmt.Sprintf("b!\"%s\"", e)
	}
	var b strings.Builder
	b.WriteString("([")
	for i := 0; i < len(s); i++ {
		if i > 0 {
			b.WriteString(", ")
		}
		fmt.Fprintf(&b, "%d", s[i])
	}
	b.WriteString("] : Bytes)")
	return b.String()
}

func leanStrList(ss []string) string {
	parts := make([]string, len(ss))
	for i, s := range ss {
		parts[i] = leanStr(s)
	}
	return "[" + strings.Join(parts, ", ") + "]"
}

func leanPairList(m map[string]string) string {
	keys := make([]string, 0, len(m))
	for k := range m {
		keys = append(keys, k)
	}
	sort.Strings(keys)
	parts := make([]string, len(keys))
	for i, k := range keys {
		parts[i] = "(" + leanStr(k) + ", " + leanStr(m[k]) + ")"
	}
	return "[" + strings.Join(parts, ", ") + "]"
}

func unquote(e ast.Expr) (string, bool) {
	bl, ok := e.(*ast.BasicLit)
	if !ok || bl.Kind != token.STRING {
		return "", false
	}
	s, err := strconv.Unquote(bl.Value)
	return s, err == nil
}

// topVar finds a package-level `var name = <expr>`.
func (s *srcFile) topVar(name string) ast.Expr {
	for _, d := range s.f.Decls {
		gd, ok := d.(*ast.GenDecl)
		if !ok || (gd.Tok != token.VAR && gd.Tok != token.CONST) {
			continue
		}
		for _, sp := range gd.Specs {
			vs := sp.(*ast.ValueSpec)
			for i, n := range vs.Names {
				if n.Name == name && i < len(vs.Values) {
					return vs.Values[i]
				}
			}
		}
	}
	return nil
}

// funcDecl finds a function by name in the file, and failing that in the other non-test files of the same
// package directory (a function moved to a sibling file is still the same function).
func (s *srcFile) funcDecl(name string) *ast.FuncDecl {
	for _, d := range s.f.Decls {
		if fd, ok := d.(*ast.FuncDecl); ok && fd.Name.Name == name {
			return fd
		}
	}
	sibs, _ := filepath.Glob(filepath.Join(filepath.Dir(s.path), "*.go"))
	for _, p := range sibs {
		if p == s.path || strings.HasSuffix(p, "_test.go") {
			continue
		}
		f, err := parser.ParseFile(s.fset, p, nil, parser.ParseComments)
		if err != nil {
			continue
		}
		for _, d := range f.Decls {
			if fd, ok := d.(*ast.FuncDecl); ok && fd.Name.Name == name && fd.Body != nil {
				return fd
			}
		}
	}
	return nil
}

func stringSliceLit(e ast.Expr) ([]string, bool) {
	cl, ok := e.(*ast.CompositeLit)
	if !ok {
		return nil, false
	}
	var res []string
	for _, el := range cl.Elts {
		s, ok := unquote(el)
		if !ok {
			return nil, false
		}
		res = append(res, s)
	}
	return res, true
}

func stringMapLit(e ast.Expr) (map[string]string, bool) {
	cl, ok := e.(*ast.CompositeLit)
	if !ok {
		return nil, false
	}
	res := map[string]string{}
	for _, el := range cl.Elts {
		kv, ok := el.(*ast.KeyValueExpr)
		if !ok {
			return nil, false
		}
		k, ok1 := unquote(kv.Key)
		v, ok2 := unquote(kv.Value)
		if !ok1 || !ok2 {
			return nil, false
		}
		res[k] = v
	}
	return res, true
}

// selString renders a selector chain like info.Deb.Scripts.Rules as "Deb.Scripts.Rules"
// (dropping the root identifier).
func selString(e ast.Expr) string {
	switch x := e.(type) {
	case *ast.SelectorExpr:
		l := selString(x.X)
		if l == "" {
			return x.Sel.Name
		}
		return l + "." + x.Sel.Name
	case *ast.Ident:
		return ""
	case *ast.IndexExpr:
		return selString(x.X) + "[]"
	case *ast.StarExpr:
		return selString(x.X)
	case *ast.UnaryExpr:
		return selString(x.X)
	case *ast.ParenExpr:
		return selString(x.X)
	case *ast.CallExpr:
		return ""
	}
	return ""
}

// fullSel renders a selector chain with its root identifier: "rpmpack.ConfigFile".
func fullSel(e ast.Expr) string {
	switch x := e.(type) {
	case *ast.SelectorExpr:
		return fullSel(x.X) + "." + x.Sel.Name
	case *ast.Ident:
		return x.Name
	case *ast.BasicLit:
		return x.Value
	case *ast.BinaryExpr:
		return fullSel(x.X) + x.Op.String() + fullSel(x.Y)
	case *ast.ParenExpr:
		return fullSel(x.X)
	case *ast.StarExpr:
		return fullSel(x.X)
	}
	return "?"
}
