package main

func stub(name string) func() (string, error) {
	return func() (string, error) {
		return "namespace Nfpm.Generated\n-- " + name + ": not yet extracted\nend Nfpm.Generated\n", nil
	}
}

var (
	genExpand    = genExpandReal
	genAccepted  = genAcceptedReal
	genWriteTgz  = stub("G8")
	genDropped   = stub("G9")
	genClock     = stub("G10")
	genTemplates = stub("G11")
	genPins      = stub("G12")
)
