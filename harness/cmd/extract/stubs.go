package main

func stub(name string) func() (string, error) {
	return func() (string, error) {
		return "namespace Nfpm.Generated\n-- " + name + ": not yet extracted\nend Nfpm.Generated\n", nil
	}
}

var (
	genExpand    = genExpandReal
	genAccepted  = genAcceptedReal
	genWriteTgz  = genWriteTgzReal
	genDropped   = genDroppedReal
	genClock     = genClockReal
	genTemplates = genTemplatesReal
	genPins      = stub("G12")
)
