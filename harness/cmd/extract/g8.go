package main

import (
	"bytes"
	"crypto/sha1"
	"fmt"
	"go/ast"
	"go/printer"
	"go/token"
	"regexp"
	"strings"
)

// ---------- G8: statement skeletons of the archive-assembly and digest-wiring functions ----------
//
// A skeleton is the ordered list of calls, branches and returns of a function
// body with the error plumbing (`if err != nil { return … }`, `err` on the left
// of an assignment) removed, rendered without white space, with the function's
// parameters and local variables renamed to positional names (p0, p1, … / v0, v1, …
// in order of declaration) and the text of error messages (the literal first
// argument of fmt.Errorf / errors.New) blanked.  Refactorings of error handling,
// renamings of locals and rewordings of messages do not change it; reordering,
// dropping or rewiring a call does.

func render(fset *token.FileSet, n ast.Node) string {
	var b bytes.Buffer
	_ = printer.Fprint(&b, fset, n)
	s := b.String()
	// strip white space outside string literals
	var out strings.Builder
	inStr := byte(0)
	for i := 0; i < len(s); i++ {
		c := s[i]
		if inStr != 0 {
			out.WriteByte(c)
			if c == '\\' && inStr == '"' && i+1 < len(s) {
				i++
				out.WriteByte(s[i])
			} else if c == inStr {
				inStr = 0
			}
			continue
		}
		if c == '"' || c == '`' {
			inStr = c
			out.WriteByte(c)
			continue
		}
		if c == ' ' || c == '\t' || c == '\n' {
			j := i
			for j < len(s) && (s[j] == ' ' || s[j] == '\t' || s[j] == '\n') {
				j++
			}
			if i > 0 && j < len(s) && identByte(s[i-1]) && identByte(s[j]) {
				out.WriteByte(' ')
			}
			i = j - 1
			continue
		}
		out.WriteByte(c)
	}
	return out.String()
}

// alphaRename gives every parameter, named result and local variable of fd a positional name.
// The error variables the skeleton recognises by name (err, cerr, e) and the blank identifier keep theirs.
func alphaRename(fd *ast.FuncDecl) {
	names := map[*ast.Object]string{}
	np, nv := 0, 0
	keep := func(n string) bool { return n == "err" || n == "cerr" || n == "e" || n == "_" }
	inSig := func(pos token.Pos) bool {
		if fd.Type.Pos() <= pos && pos < fd.Type.End() {
			return true
		}
		return fd.Recv != nil && fd.Recv.Pos() <= pos && pos < fd.Recv.End()
	}
	ast.Inspect(fd, func(n ast.Node) bool {
		id, ok := n.(*ast.Ident)
		if !ok || id.Obj == nil || id.Obj.Kind != ast.Var {
			return true
		}
		o := id.Obj
		if o.Pos() < fd.Pos() || o.Pos() >= fd.End() || keep(o.Name) {
			return true
		}
		if _, ok := names[o]; !ok {
			if inSig(o.Pos()) {
				names[o] = fmt.Sprintf("p%d", np)
				np++
			} else {
				names[o] = fmt.Sprintf("v%d", nv)
				nv++
			}
		}
		return true
	})
	ast.Inspect(fd, func(n ast.Node) bool {
		switch x := n.(type) {
		case *ast.Ident:
			if x.Obj != nil {
				if nn, ok := names[x.Obj]; ok {
					x.Name = nn
				}
			}
		case *ast.CallExpr:
			// blank the wording of error messages
			if sel, ok := x.Fun.(*ast.SelectorExpr); ok && len(x.Args) > 0 {
				if pk, ok := sel.X.(*ast.Ident); ok && ((pk.Name == "fmt" && sel.Sel.Name == "Errorf") || (pk.Name == "errors" && sel.Sel.Name == "New")) {
					if lit, ok := x.Args[0].(*ast.BasicLit); ok && lit.Kind == token.STRING {
						w := ""
						if strings.Contains(lit.Value, "%w") {
							w = "%w"
						}
						lit.Value = "\"..." + w + "\""
					}
				}
			}
		}
		return true
	})
}

func identByte(c byte) bool {
	return c == '_' || (c >= '0' && c <= '9') || (c >= 'a' && c <= 'z') || (c >= 'A' && c <= 'Z')
}

func isErrCond(e ast.Expr) bool {
	b, ok := e.(*ast.BinaryExpr)
	if !ok || b.Op != token.NEQ {
		return false
	}
	x, ok1 := b.X.(*ast.Ident)
	y, ok2 := b.Y.(*ast.Ident)
	return ok1 && ok2 && y.Name == "nil" && (x.Name == "err" || x.Name == "cerr" || x.Name == "e")
}

func lhsNames(fset *token.FileSet, lhs []ast.Expr) string {
	var keep []string
	for _, l := range lhs {
		if id, ok := l.(*ast.Ident); ok && (id.Name == "err" || id.Name == "_") {
			continue
		}
		keep = append(keep, render(fset, l))
	}
	return strings.Join(keep, ",")
}

func skeleton(fset *token.FileSet, stmts []ast.Stmt, out *[]string) {
	for _, st := range stmts {
		switch x := st.(type) {
		case *ast.AssignStmt:
			rhs := make([]string, len(x.Rhs))
			for i, r := range x.Rhs {
				rhs[i] = render(fset, r)
			}
			l := lhsNames(fset, x.Lhs)
			hasCall := false
			for _, r := range x.Rhs {
				ast.Inspect(r, func(n ast.Node) bool {
					if _, ok := n.(*ast.CallExpr); ok {
						hasCall = true
					}
					return true
				})
			}
			if !hasCall && l == "" {
				continue
			}
			if l == "" {
				*out = append(*out, strings.Join(rhs, ","))
			} else {
				*out = append(*out, l+x.Tok.String()+strings.Join(rhs, ","))
			}
		case *ast.ExprStmt:
			*out = append(*out, render(fset, x.X))
		case *ast.IncDecStmt:
			*out = append(*out, render(fset, x))
		case *ast.DeferStmt:
			if fl, ok := x.Call.Fun.(*ast.FuncLit); ok {
				*out = append(*out, "defer{")
				skeleton(fset, fl.Body.List, out)
				*out = append(*out, "}")
			} else {
				*out = append(*out, "defer "+render(fset, x.Call))
			}
		case *ast.IfStmt:
			if x.Init != nil {
				skeleton(fset, []ast.Stmt{x.Init}, out)
			}
			if isErrCond(x.Cond) {
				continue
			}
			*out = append(*out, "if "+render(fset, x.Cond)+"{")
			skeleton(fset, x.Body.List, out)
			if x.Else != nil {
				*out = append(*out, "}else{")
				switch e := x.Else.(type) {
				case *ast.BlockStmt:
					skeleton(fset, e.List, out)
				default:
					skeleton(fset, []ast.Stmt{e}, out)
				}
			}
			*out = append(*out, "}")
		case *ast.ForStmt:
			*out = append(*out, "for{")
			skeleton(fset, x.Body.List, out)
			*out = append(*out, "}")
		case *ast.RangeStmt:
			*out = append(*out, "for range "+render(fset, x.X)+"{")
			skeleton(fset, x.Body.List, out)
			*out = append(*out, "}")
		case *ast.SwitchStmt:
			tag := ""
			if x.Tag != nil {
				tag = render(fset, x.Tag)
			}
			*out = append(*out, "switch "+tag+"{")
			for _, c := range x.Body.List {
				cc := c.(*ast.CaseClause)
				if cc.List == nil {
					*out = append(*out, "default:")
				} else {
					parts := make([]string, len(cc.List))
					for i, e := range cc.List {
						parts[i] = render(fset, e)
					}
					*out = append(*out, "case "+strings.Join(parts, ",")+":")
				}
				skeleton(fset, cc.Body, out)
			}
			*out = append(*out, "}")
		case *ast.ReturnStmt:
			parts := make([]string, len(x.Results))
			for i, r := range x.Results {
				parts[i] = render(fset, r)
			}
			*out = append(*out, "return "+strings.Join(parts, ","))
		case *ast.BlockStmt:
			skeleton(fset, x.List, out)
		case *ast.DeclStmt:
			// declarations without calls carry no behaviour of interest
			has := false
			ast.Inspect(x, func(n ast.Node) bool {
				if _, ok := n.(*ast.CallExpr); ok {
					has = true
				}
				return true
			})
			if has {
				*out = append(*out, render(fset, x))
			}
		case *ast.BranchStmt:
			*out = append(*out, x.Tok.String())
		}
	}
}

// clip shortens a very long line to a prefix plus a digest of the whole line
func clip(s string) string {
	if len(s) <= 160 {
		return s
	}
	return s[:120] + "...#" + fmt.Sprintf("%x", sha1.Sum([]byte(s)))[:16]
}

func leanString(s string) string {
	var b strings.Builder
	b.WriteByte('"')
	for _, r := range s {
		switch r {
		case '"':
			b.WriteString("\\\"")
		case '\\':
			b.WriteString("\\\\")
		case '\n':
			b.WriteString("\\n")
		case '\t':
			b.WriteString("\\t")
		default:
			b.WriteRune(r)
		}
	}
	b.WriteByte('"')
	return b.String()
}

func findFunc(s *srcFile, name string) *ast.FuncDecl {
	if fd := s.funcDecl(name); fd != nil && fd.Body != nil {
		return fd
	}
	return nil
}

func genWriteTgzReal() (string, error) {
	var b strings.Builder
	b.WriteString("import NfpmModel.Archive\nnamespace Nfpm.Generated\nopen Nfpm Nfpm.Arc\n")

	targets := []struct{ file, fn string }{
		{"apk/apk.go", "writeTgz"},
		{"apk/apk.go", "Package"},
		{"apk/apk.go", "combineToApk"},
		{"apk/apk.go", "newItemInsideTarGz"},
		{"apk/apk.go", "copyToTarAndDigest"},
		{"apk/apk.go", "createBuilderControl"},
		{"deb/deb.go", "Package"},
		{"deb/deb.go", "copyToTarAndDigest"},
		{"deb/deb.go", "createChangelogInsideDataTar"},
		{"deb/deb.go", "createControl"},
		{"deb/deb.go", "addArFile"},
		{"ipk/ipk.go", "createIPK"},
		{"ipk/ipk.go", "populateControlTar"},
		{"arch/arch.go", "Package"},
		{"arch/arch.go", "createMtree"},
		{"arch/arch.go", "WriteTo"},
		{"arch/arch.go", "createFilesInTar"},
		{"ipk/tar.go", "newTGZ"},
		{"ipk/tar.go", "writeFile"},
		{"ipk/tar.go", "writeToFile"},
	}
	skels := map[string][]string{}
	for _, t := range targets {
		s, err := parse(t.file)
		if err != nil {
			return "", err
		}
		fd := findFunc(s, t.fn)
		if fd == nil {
			return "", fmt.Errorf("G8: %s: func %s not found", t.file, t.fn)
		}
		var sk []string
		alphaRename(fd)
		skeleton(s.fset, fd.Body.List, &sk)
		skels[t.file+":"+t.fn] = sk
		id := strings.NewReplacer("/", "_", ".go", "", ".", "_").Replace(t.file) + "_" + t.fn
		fmt.Fprintf(&b, "/-- statement skeleton of %s %s -/\ndef skel_%s : List Bytes := [\n", t.file, t.fn, id)
		for i, l := range sk {
			sep := ","
			if i == len(sk)-1 {
				sep = ""
			}
			fmt.Fprintf(&b, "  %s%s\n", leanStr(clip(l)), sep)
		}
		b.WriteString("]\n")
	}

	// structured reading of apk.writeTgz: the ops after the builder call, the buffer size.  The roles of the
	// (positionally renamed) variables are read off the constructor calls that define them.
	sk := skels["apk/apk.go:writeTgz"]
	role := map[string]string{}
	bufCap := "0"
	builderAt := -1
	for i, l := range sk {
		if m := regexp.MustCompile(`^(\w+):=gzip\.NewWriter\((\w+)\)$`).FindStringSubmatch(l); m != nil {
			role["gw"] = m[1]
		}
		if m := regexp.MustCompile(`^(\w+):=newWriterCounter\((\w+)\)$`).FindStringSubmatch(l); m != nil {
			role["cw"] = m[1]
		}
		if m := regexp.MustCompile(`^(\w+):=bufio\.NewWriterSize\((\w+),(\d+)\)$`).FindStringSubmatch(l); m != nil {
			role["bw"] = m[1]
			bufCap = m[3]
		}
		if m := regexp.MustCompile(`^(\w+):=tar\.NewWriter\((\w+)\)$`).FindStringSubmatch(l); m != nil {
			role["tw"] = m[1]
		}
		if m := regexp.MustCompile(`^(\w+)\((\w+)\)$`).FindStringSubmatch(l); m != nil && builderAt < 0 && role["tw"] != "" && m[2] == role["tw"] {
			builderAt = i
		}
	}
	var ops []string
	for i := builderAt + 1; builderAt >= 0 && i < len(sk); i++ {
		l := sk[i]
		switch {
		case l == role["bw"]+".Flush()":
			ops = append(ops, ".flushBuf")
		case l == role["tw"]+".Close()":
			ops = append(ops, ".closeTar")
		case regexp.MustCompile(`^if \w+==tarFull\{$`).MatchString(l):
			if i+2 < len(sk) && sk[i+1] == role["bw"]+".Flush()" && sk[i+2] == "}" {
				ops = append(ops, ".flushBufIfFull")
				i += 2
			} else {
				ops = append(ops, ".other "+leanStr(clip(l)))
			}
		case regexp.MustCompile(`^\w+:=` + regexp.QuoteMeta(role["cw"]) + `\.Count\(\)$`).MatchString(l):
			// size := cw.Count(); alignedSize := (size + 511) & ^uint64(511); increase := alignedSize - size;
			// if increase > 0 { b := make([]byte, increase); cw.Write(b) }
			sz := strings.SplitN(l, ":=", 2)[0]
			ok := false
			if i+6 < len(sk) {
				m1 := regexp.MustCompile(`^(\w+):=\(` + sz + `\+511\)&\^uint64\(511\)$`).FindStringSubmatch(sk[i+1])
				if m1 != nil {
					m2 := regexp.MustCompile(`^(\w+):=` + m1[1] + `-` + sz + `$`).FindStringSubmatch(sk[i+2])
					if m2 != nil && sk[i+3] == "if "+m2[1]+">0{" {
						m3 := regexp.MustCompile(`^(\w+):=make\(\[\]byte,` + m2[1] + `\)$`).FindStringSubmatch(sk[i+4])
						if m3 != nil && sk[i+5] == role["cw"]+".Write("+m3[1]+")" && sk[i+6] == "}" {
							ok = true
						}
					}
				}
			}
			if ok {
				ops = append(ops, ".alignPad 512")
				i += 6
			} else {
				ops = append(ops, ".other "+leanStr(clip(l)))
			}
		case l == role["gw"]+".Close()":
			ops = append(ops, ".closeGz")
		case strings.HasPrefix(l, "return "):
			// the returned digest is part of the layering check below
		default:
			ops = append(ops, ".other "+leanStr(clip(l)))
		}
	}
	fmt.Fprintf(&b, "/-- apk.writeTgz after the builder ran -/\ndef apkTgzOps : List TgzOp := [%s]\n", strings.Join(ops, ", "))
	fmt.Fprintf(&b, "def apkBufCap : Nat := %s\n", bufCap)
	var layers []string
	for i, l := range sk {
		if i == builderAt {
			break
		}
		layers = append(layers, leanStr(l))
	}
	fmt.Fprintf(&b, "/-- the writer stack of apk.writeTgz, outermost first: the digest sees what the output sees (below gzip) -/\ndef apkTgzLayers : List Bytes := [%s]\n", strings.Join(layers, ", "))
	b.WriteString("end Nfpm.Generated\n")
	return b.String(), nil
}
