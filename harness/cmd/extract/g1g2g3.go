package main

import (
	"github.com/google/rpmpack"
	"github.com/goreleaser/nfpm/v2/files"
	"time"
	"verif/harness/internal/props"

	"bufio"
	"fmt"
	"go/ast"
	"go/parser"
	"go/token"
	"os"
	"path/filepath"
	"regexp"
	"sort"
	"strings"
)

// ---------- G1: architecture tables ----------

func genArch() (string, error) {
	type tbl struct{ lean, file, varName string }
	tbls := []tbl{
		{"deb", "deb/deb.go", "archToDebian"},
		{"rpm", "rpm/rpm.go", "archToRPM"},
		{"apk", "apk/apk.go", "archToAlpine"},
		{"archlinux", "arch/arch.go", "archToArchLinux"},
		{"ipk", "ipk/ipk.go", "archToIPK"},
	}
	var b strings.Builder
	b.WriteString("import NfpmModel.Bytes\nnamespace Nfpm.Generated\nopen Nfpm\n")
	for _, t := range tbls {
		s, err := parse(t.file)
		if err != nil {
			return "", err
		}
		m, ok := stringMapLit(s.topVar(t.varName))
		if !ok {
			return "", fmt.Errorf("%s: map literal %s not found", t.file, t.varName)
		}
		fmt.Fprintf(&b, "def archMap_%s : List (Bytes × Bytes) := %s\n", t.lean, leanPairList(m))
	}
	// documented table
	doc, err := os.Open(filepath.Join(*repo, "www/docs/goarch-to-pkg.md"))
	if err != nil {
		return "", err
	}
	defer doc.Close()
	sc := bufio.NewScanner(doc)
	cur := ""
	rows := map[string]map[string]string{}
	var order []string
	hdr := regexp.MustCompile("^## `([a-z]+)`")
	row := regexp.MustCompile("^\\| `([^`]*)` \\| `([^`]*)` \\|")
	for sc.Scan() {
		l := sc.Text()
		if m := hdr.FindStringSubmatch(l); m != nil {
			cur = m[1]
			rows[cur] = map[string]string{}
			order = append(order, cur)
			continue
		}
		if m := row.FindStringSubmatch(l); m != nil && cur != "" {
			rows[cur][m[1]] = m[2]
		}
	}
	sort.Strings(order)
	b.WriteString("def archDoc : List (Bytes × List (Bytes × Bytes)) := [\n")
	for i, f := range order {
		sep := ","
		if i == len(order)-1 {
			sep = ""
		}
		fmt.Fprintf(&b, "  (%s, %s)%s\n", leanStr(f), leanPairList(rows[f]), sep)
	}
	b.WriteString("]\n")
	// mips float suffix rule in nfpm.WithDefaults: strings.NewReplacer("softfloat","","hardfloat","")
	s, err := parse("nfpm.go")
	if err != nil {
		return "", err
	}
	var repl []string
	var mipsPrefix string
	if fd := s.funcDecl("WithDefaults"); fd != nil {
		ast.Inspect(fd, func(n ast.Node) bool {
			ce, ok := n.(*ast.CallExpr)
			if !ok {
				return true
			}
			switch fullSel(ce.Fun) {
			case "strings.NewReplacer":
				for _, a := range ce.Args {
					if v, ok := unquote(a); ok {
						repl = append(repl, v)
					}
				}
			case "strings.HasPrefix":
				if len(ce.Args) == 2 && selString(ce.Args[0]) == "Arch" {
					mipsPrefix, _ = unquote(ce.Args[1])
				}
			}
			return true
		})
	}
	fmt.Fprintf(&b, "def mipsPrefix : Bytes := %s\n", leanStr(mipsPrefix))
	fmt.Fprintf(&b, "def mipsReplacer : List Bytes := %s\n", leanStrList(repl))
	b.WriteString("end Nfpm.Generated\n")
	return b.String(), nil
}

// ---------- G2: script slot wiring ----------

type slot struct {
	slot, sel string
	mode      string
}

func leanSlots(name string, ss []slot) string {
	sort.Slice(ss, func(i, j int) bool { return ss[i].slot < ss[j].slot })
	parts := make([]string, len(ss))
	for i, s := range ss {
		m := s.mode
		if m == "" {
			m = "0"
		}
		parts[i] = fmt.Sprintf("(%s, %s, %s)", leanStr(s.slot), leanStr(s.sel), m)
	}
	return fmt.Sprintf("def %s : List (Bytes × Bytes × Nat) := [%s]\n", name, strings.Join(parts, ", "))
}

func octLit(e ast.Expr) string {
	if bl, ok := e.(*ast.BasicLit); ok && bl.Kind == token.INT {
		return bl.Value // Lean accepts 0o755
	}
	return "0"
}

func genScripts() (string, error) {
	var b strings.Builder
	b.WriteString("import NfpmModel.Bytes\nnamespace Nfpm.Generated\nopen Nfpm\n")
	b.WriteString("-- tabulated by execution: for every format and every script selector (found by reflection) alone, a package is\n-- built with a marker script and decoded; the row says which slot held the marker, and with what mode\n")
	tmp, err := os.MkdirTemp("", "g2scripts-")
	if err != nil {
		return "", err
	}
	defer os.RemoveAll(tmp)
	tab, err := props.TabulateScriptSlots(tmp)
	if err != nil {
		return "", err
	}
	for _, x := range [][2]string{{"deb", "scripts_deb"}, {"apk", "scripts_apk"}, {"archlinux", "scripts_arch"}, {"ipk", "scripts_ipk"}, {"rpm", "scripts_rpm"}} {
		var ss []slot
		for _, r := range tab[x[0]] {
			ss = append(ss, slot{slot: r[0], sel: r[1], mode: r[2]})
		}
		if len(ss) == 0 {
			return "", fmt.Errorf("G2: no script slot found for %s", x[0])
		}
		b.WriteString(leanSlots(x[1], ss))
	}
	b.WriteString("end Nfpm.Generated\n")
	return b.String(), nil
}

// ---------- G3: content types, relevance, switch arms ----------

func constStrings(s *srcFile, prefix string) map[string]string {
	res := map[string]string{}
	for _, d := range s.f.Decls {
		gd, ok := d.(*ast.GenDecl)
		if !ok || gd.Tok != token.CONST {
			continue
		}
		for _, sp := range gd.Specs {
			vs := sp.(*ast.ValueSpec)
			for i, n := range vs.Names {
				if strings.HasPrefix(n.Name, prefix) && i < len(vs.Values) {
					if v, ok := unquote(vs.Values[i]); ok {
						res[n.Name] = v
					}
				}
			}
		}
	}
	return res
}

// caseArms lists, for the first `switch <tagSel>` found in fn, each arm as
// (list of case expressions, first call/ident in body) .
type arm struct {
	cases []string
	body  string
}

func switchArms(fd *ast.FuncDecl, tagSuffix string, bodyFn func(*ast.CaseClause) string) []arm {
	var arms []arm
	done := false
	ast.Inspect(fd, func(n ast.Node) bool {
		if done {
			return false
		}
		sw, ok := n.(*ast.SwitchStmt)
		if !ok || sw.Tag == nil || !strings.HasSuffix(fullSel(sw.Tag), tagSuffix) {
			return true
		}
		for _, c := range sw.Body.List {
			cc := c.(*ast.CaseClause)
			a := arm{}
			if cc.List == nil {
				a.cases = []string{"default"}
			}
			for _, e := range cc.List {
				if v, ok := unquote(e); ok {
					a.cases = append(a.cases, "\""+v+"\"")
				} else {
					a.cases = append(a.cases, fullSel(e))
				}
			}
			a.body = bodyFn(cc)
			arms = append(arms, a)
		}
		done = true
		return false
	})
	return arms
}

func resolveCase(c string, consts map[string]string) string {
	if strings.HasPrefix(c, "\"") {
		return strings.Trim(c, "\"")
	}
	c = strings.TrimPrefix(c, "files.")
	if v, ok := consts[c]; ok {
		return v
	}
	return "?" + c
}

func leanArms(name string, arms []arm, consts map[string]string) string {
	var parts []string
	for _, a := range arms {
		var cs []string
		for _, c := range a.cases {
			if c == "default" {
				cs = append(cs, "?default")
			} else {
				cs = append(cs, resolveCase(c, consts))
			}
		}
		parts = append(parts, fmt.Sprintf("(%s, %s)", leanStrList(cs), leanStr(a.body)))
	}
	return fmt.Sprintf("def %s : List (List Bytes × Bytes) := [%s]\n", name, strings.Join(parts, ",\n  "))
}

func firstCall(cc *ast.CaseClause) string {
	res := ""
	// prefer the rpm conversion call of the arm when there is one
	for _, st := range cc.Body {
		ast.Inspect(st, func(n ast.Node) bool {
			if x, ok := n.(*ast.CallExpr); ok && res == "" && strings.HasPrefix(fullSel(x.Fun), "asRPM") {
				res = fullSel(x.Fun)
				if len(x.Args) == 2 {
					if f := fullSel(x.Args[1]); strings.Contains(f, "rpmpack.") {
						res += "(" + f + ")"
					}
				}
			}
			return true
		})
	}
	if res != "" {
		return res
	}
	for _, st := range cc.Body {
		ast.Inspect(st, func(n ast.Node) bool {
			if res != "" {
				return false
			}
			switch x := n.(type) {
			case *ast.CallExpr:
				res = fullSel(x.Fun)
				// append flag argument if any (rpm asRPMFile(content, flags))
				if len(x.Args) == 2 {
					if f := fullSel(x.Args[1]); strings.Contains(f, "rpmpack.") {
						res += "(" + f + ")"
					}
				}
				return false
			case *ast.BranchStmt:
				res = x.Tok.String()
				return false
			}
			return true
		})
		if res != "" {
			break
		}
	}
	if res == "" {
		res = "nop"
	}
	return res
}

func genTypes() (string, error) {
	var b strings.Builder
	b.WriteString("import NfpmModel.Bytes\nnamespace Nfpm.Generated\nopen Nfpm\n")
	fs, err := parse("files/files.go")
	if err != nil {
		return "", err
	}
	consts := constStrings(fs, "Type")
	fmt.Fprintf(&b, "def typeConsts : List (Bytes × Bytes) := %s\n", leanPairList(consts))

	// PrepareForPackager switch arms
	if fd := fs.funcDecl("PrepareForPackager"); fd != nil {
		arms := switchArms(fd, ".Type", func(cc *ast.CaseClause) string {
			// classify arm by characteristic call
			kind := "nop"
			for _, st := range cc.Body {
				ast.Inspect(st, func(n ast.Node) bool {
					if ce, ok := n.(*ast.CallExpr); ok {
						switch fullSel(ce.Fun) {
						case "NormalizeAbsoluteDirPath":
							if kind == "nop" {
								kind = "dir"
							}
						case "NormalizeAbsoluteFilePath":
							if kind == "nop" {
								kind = "fileLike"
							}
						case "addTree":
							kind = "tree"
						case "glob.Glob":
							kind = "globbed"
						case "fmt.Errorf":
							if kind == "nop" {
								kind = "invalid"
							}
						}
					}
					return true
				})
			}
			return kind
		})
		b.WriteString(leanArms("prepareArms", arms, consts))
	} else {
		return "", fmt.Errorf("PrepareForPackager not found")
	}
	// relevance (files.isRelevantForPackager): not read off the syntax but tabulated by running today's
	// files.PrepareForPackager on one entry per (packager, type, packager tag) – robust against any rewriting of the
	// function, exact about what it decides
	{
		rules, table, err := tabulateRelevance(consts)
		if err != nil {
			return "", err
		}
		b.WriteString(rules)
		b.WriteString(table)
	}

	// per packager switch arms
	type sw struct{ lean, file, fn, tag string }
	for _, x := range []sw{
		{"debDataArms", "deb/deb.go", "createFilesInsideDataTar", ".Type"},
		{"debConfArms", "deb/deb.go", "conffiles", ".Type"},
		{"ipkDataArms", "ipk/ipk.go", "populateDataTar", ".Type"},
		{"ipkConfArms", "ipk/ipk.go", "conffiles", ".Type"},
		{"apkDataArms", "apk/apk.go", "createFilesInsideTarGz", ".Type"},
		{"archDataArms", "arch/arch.go", "createFilesInTar", ".Type"},
		{"rpmDataArms", "rpm/rpm.go", "createFilesInsideRPM", ".Type"},
	} {
		s, err := parse(x.file)
		if err != nil {
			return "", err
		}
		fd := s.funcDecl(x.fn)
		if fd == nil {
			return "", fmt.Errorf("%s: func %s not found", x.file, x.fn)
		}
		arms := switchArms(fd, x.tag, firstCall)
		if len(arms) == 0 {
			return "", fmt.Errorf("%s: switch in %s not found", x.file, x.fn)
		}
		b.WriteString(leanArms(x.lean, arms, consts))
	}
	// arch backup condition: types compared in createPkginfo loop
	{
		s, _ := parse("arch/arch.go")
		var types []string
		if fd := s.funcDecl("createPkginfo"); fd != nil {
			ast.Inspect(fd, func(n ast.Node) bool {
				be, ok := n.(*ast.BinaryExpr)
				if ok && be.Op == token.EQL && strings.HasSuffix(fullSel(be.X), ".Type") {
					types = append(types, resolveCase(fullSel(be.Y), consts))
				}
				return true
			})
		}
		sort.Strings(types)
		fmt.Fprintf(&b, "def archBackupTypes : List Bytes := %s\n", leanStrList(types))
	}
	// numeric values of the rpmpack.FileType flags of the rpmpack version the tree links
	{
		vals := map[string]int{
			"ConfigFile": int(rpmpack.ConfigFile), "DocFile": int(rpmpack.DocFile), "GhostFile": int(rpmpack.GhostFile),
			"LicenceFile": int(rpmpack.LicenceFile), "MissingOkFile": int(rpmpack.MissingOkFile),
			"NoReplaceFile": int(rpmpack.NoReplaceFile), "ReadmeFile": int(rpmpack.ReadmeFile),
		}
		names := make([]string, 0, len(vals))
		for k := range vals {
			names = append(names, k)
		}
		sort.Strings(names)
		parts := make([]string, len(names))
		for i, k := range names {
			parts[i] = fmt.Sprintf("(%s, %d)", leanStr(k), vals[k])
		}
		fmt.Fprintf(&b, "def rpmFlagValues : List (Bytes × Nat) := [%s]\n", strings.Join(parts, ", "))
	}
	b.WriteString("end Nfpm.Generated\n")
	return b.String(), nil
}

// tabulateRelevance runs files.PrepareForPackager on a single entry for every packager x content type x packager
// tag and records whether the entry is planned ("in"), left out ("out") or rejected ("error").
func tabulateRelevance(consts map[string]string) (string, string, error) {
	tmp, err := os.MkdirTemp("", "g3rel-")
	if err != nil {
		return "", "", err
	}
	defer os.RemoveAll(tmp)
	if err := os.MkdirAll(filepath.Join(tmp, "t", "inner"), 0o755); err != nil {
		return "", "", err
	}
	for _, f := range []string{"f", "t/inner/g"} {
		if err := os.WriteFile(filepath.Join(tmp, f), []byte("x"), 0o644); err != nil {
			return "", "", err
		}
	}
	var types []string
	seen := map[string]bool{}
	for name, v := range consts {
		if strings.HasPrefix(name, "Type") && !seen[v] {
			seen[v] = true
			types = append(types, v)
		}
	}
	sort.Strings(types)
	packagers := []string{"apk", "archlinux", "deb", "ipk", "rpm"}
	tags := append([]string{""}, packagers...)
	type key struct{ p, t, tag string }
	out := map[key]string{}
	var rows []string
	for _, p := range packagers {
		for _, t := range types {
			for _, tag := range tags {
				c := &files.Content{Source: filepath.Join(tmp, "f"), Destination: "/relx/entry", Type: t, Packager: tag}
				switch t {
				case "tree":
					c.Source = filepath.Join(tmp, "t")
				case "symlink":
					c.Source = "/target"
				case "dir", "implicit dir", "ghost":
					c.Source = ""
				}
				res, err := files.PrepareForPackager(files.Contents{c}, 0o022, p, false, time.Unix(1700000000, 0))
				o := "out"
				if err != nil {
					o = "error"
				} else {
					for _, r := range res {
						if strings.HasPrefix(r.Destination, "/relx/entry") {
							o = "in"
						}
					}
				}
				out[key{p, t, tag}] = o
				rows = append(rows, fmt.Sprintf("  (%s, %s, %s, %s)", leanStr(p), leanStr(t), leanStr(tag), leanStr(o)))
			}
		}
	}
	// the two documented rules, derived from the table: types planned (untagged) by exactly one packager
	only := func(owner string) []string {
		var ts []string
		for _, t := range types {
			ok := out[key{owner, t, ""}] == "in"
			for _, p := range packagers {
				if p != owner && out[key{p, t, ""}] != "out" {
					ok = false
				}
			}
			if ok {
				ts = append(ts, t)
			}
		}
		sort.Strings(ts)
		return ts
	}
	rules := fmt.Sprintf("def relevanceRules : List (Bytes × List Bytes) := [(%s, %s), (%s, %s)]\n", leanStr("!=rpm"), leanStrList(only("rpm")), leanStr("!=deb"), leanStrList(only("deb")))
	table := "/-- files.PrepareForPackager on one entry at /relx/entry: (packager, type, packager tag, in | out | error) -/\ndef relevanceTable : List (Bytes × Bytes × Bytes × Bytes) := [\n" + strings.Join(rows, ",\n") + "\n]\n"
	return rules, table, nil
}

// pkgFuncs lists the function declarations of the file and of the other non-test files of its package directory.
func pkgFuncs(s *srcFile) []*ast.FuncDecl {
	var out []*ast.FuncDecl
	add := func(f *ast.File) {
		for _, d := range f.Decls {
			if fd, ok := d.(*ast.FuncDecl); ok && fd.Body != nil {
				out = append(out, fd)
			}
		}
	}
	add(s.f)
	sibs, _ := filepath.Glob(filepath.Join(filepath.Dir(s.path), "*.go"))
	sort.Strings(sibs)
	for _, p := range sibs {
		if p == s.path || strings.HasSuffix(p, "_test.go") {
			continue
		}
		if f, err := parser.ParseFile(s.fset, p, nil, parser.ParseComments); err == nil {
			add(f)
		}
	}
	return out
}
