package main

import (
	"bufio"
	"bytes"
	"fmt"
	"github.com/goreleaser/nfpm/v2"
	"github.com/goreleaser/nfpm/v2/files"
	"go/ast"
	"gopkg.in/yaml.v3"
	"os"
	"path/filepath"
	"reflect"
	"sort"
	"strings"
)

// ---------- G5: reflected key tree of nfpm.Config ----------

type keyPath struct {
	yaml, json, kind, enum string
	omitempty              bool
}

func tagName(tag string) (name string, opts []string) {
	parts := strings.Split(tag, ",")
	return parts[0], parts[1:]
}

func walkType(t reflect.Type, ypfx, jpfx string, out *[]keyPath, depth int) {
	walkTypeE(t, ypfx, jpfx, out, depth, true)
}

func walkTypeE(t reflect.Type, ypfx, jpfx string, out *[]keyPath, depth int, emitSelf bool) {
	if depth > 12 {
		return
	}
	switch t.Kind() {
	case reflect.Ptr:
		walkTypeE(t.Elem(), ypfx, jpfx, out, depth+1, emitSelf)
	case reflect.Struct:
		if t.String() == "time.Time" {
			*out = append(*out, keyPath{yaml: ypfx, json: jpfx, kind: "time"})
			return
		}
		if ypfx != "" && emitSelf {
			*out = append(*out, keyPath{yaml: ypfx, json: jpfx, kind: "object"})
		}
		for i := 0; i < t.NumField(); i++ {
			f := t.Field(i)
			if f.PkgPath != "" { // unexported
				continue
			}
			yn, yo := tagName(f.Tag.Get("yaml"))
			jn, _ := tagName(f.Tag.Get("json"))
			inline := false
			for _, o := range yo {
				if o == "inline" {
					inline = true
				}
			}
			if yn == "-" {
				continue
			}
			if inline {
				walkTypeE(f.Type, ypfx, jpfx, out, depth+1, false)
				continue
			}
			if yn == "" {
				yn = strings.ToLower(f.Name)
			}
			if jn == "" {
				jn = f.Name
			}
			yp, jp := yn, jn
			if ypfx != "" {
				yp, jp = ypfx+"."+yn, jpfx+"."+jn
			}
			before := len(*out)
			walkType(f.Type, yp, jp, out, depth+1)
			if len(*out) > before {
				kp := &(*out)[before]
				for _, o := range yo {
					if o == "omitempty" {
						kp.omitempty = true
					}
				}
				var enums []string
				for _, p := range strings.Split(f.Tag.Get("jsonschema"), ",") {
					if strings.HasPrefix(p, "enum=") {
						enums = append(enums, strings.TrimPrefix(p, "enum="))
					}
				}
				if len(enums) > 0 {
					kp.enum = strings.Join(enums, "\x1f")
				}
			}
		}
	case reflect.Slice:
		*out = append(*out, keyPath{yaml: ypfx, json: jpfx, kind: "list"})
		walkType(t.Elem(), ypfx+".[]", jpfx+".[]", out, depth+1)
	case reflect.Map:
		*out = append(*out, keyPath{yaml: ypfx, json: jpfx, kind: "map"})
		walkType(t.Elem(), ypfx+".{}", jpfx+".{}", out, depth+1)
	case reflect.String:
		*out = append(*out, keyPath{yaml: ypfx, json: jpfx, kind: "string"})
	case reflect.Bool:
		*out = append(*out, keyPath{yaml: ypfx, json: jpfx, kind: "bool"})
	case reflect.Int, reflect.Int64, reflect.Int32, reflect.Uint32, reflect.Uint64, reflect.Uint:
		*out = append(*out, keyPath{yaml: ypfx, json: jpfx, kind: "int"})
	case reflect.Func:
	default:
		*out = append(*out, keyPath{yaml: ypfx, json: jpfx, kind: "other:" + t.Kind().String()})
	}
}

func configKeyPaths() []keyPath {
	var out []keyPath
	walkType(reflect.TypeOf(nfpm.Config{}), "", "", &out, 0)
	return out
}

// goSelToYaml maps "Deb.Signature.KeyID" / "Overrides[].Conflicts" to a yaml path.
func goSelToYaml(sel string) string {
	t := reflect.TypeOf(nfpm.Config{})
	var parts []string
	for _, seg := range strings.Split(sel, ".") {
		idx := strings.HasSuffix(seg, "[]")
		seg = strings.TrimSuffix(seg, "[]")
		for t.Kind() == reflect.Ptr {
			t = t.Elem()
		}
		if t.Kind() != reflect.Struct {
			return "?" + sel
		}
		f, ok := t.FieldByName(seg)
		if !ok {
			return "?" + sel
		}
		yn, _ := tagName(f.Tag.Get("yaml"))
		if yn == "" {
			yn = strings.ToLower(f.Name)
		}
		parts = append(parts, yn)
		t = f.Type
		if idx {
			for t.Kind() == reflect.Ptr {
				t = t.Elem()
			}
			switch t.Kind() {
			case reflect.Map:
				parts = append(parts, "{}")
				t = t.Elem()
			case reflect.Slice:
				parts = append(parts, "[]")
				t = t.Elem()
			}
		}
	}
	return strings.Join(parts, ".")
}

func genKeyTree() (string, error) {
	kps := configKeyPaths()
	var b strings.Builder
	b.WriteString("import NfpmModel.Bytes\nnamespace Nfpm.Generated\nopen Nfpm\n")
	b.WriteString("/-- every key path the strict parser defines: (yaml path, kind) -/\n")
	b.WriteString("def keyPaths : List (Bytes × Bytes) := [\n")
	for i, k := range kps {
		sep := ","
		if i == len(kps)-1 {
			sep = ""
		}
		fmt.Fprintf(&b, "  (%s, %s)%s\n", leanStr(k.yaml), leanStr(k.kind), sep)
	}
	b.WriteString("]\n")
	b.WriteString("/-- key paths whose yaml and json names differ -/\n")
	var diff []string
	for _, k := range kps {
		if k.yaml != k.json {
			diff = append(diff, k.yaml+" vs "+k.json)
		}
	}
	fmt.Fprintf(&b, "def yamlJsonNameMismatches : List Bytes := %s\n", leanStrList(diff))
	b.WriteString("/-- `jsonschema:\"enum=…\"` struct tags: (yaml path, values) -/\n")
	b.WriteString("def tagEnums : List (Bytes × List Bytes) := [")
	first := true
	for _, k := range kps {
		if k.enum == "" {
			continue
		}
		if !first {
			b.WriteString(", ")
		}
		first = false
		fmt.Fprintf(&b, "(%s, %s)", leanStr(k.yaml), leanStrList(strings.Split(k.enum, "\x1f")))
	}
	b.WriteString("]\n")
	b.WriteString("end Nfpm.Generated\n")
	return b.String(), nil
}

// ---------- G4: fields passed through os.Expand ----------

func unwrapArg(e ast.Expr) ast.Expr {
	for {
		switch x := e.(type) {
		case *ast.CallExpr:
			if len(x.Args) == 1 && strings.HasPrefix(fullSel(x.Fun), "pointer.") {
				e = x.Args[0]
				continue
			}
			return e
		case *ast.ParenExpr:
			e = x.X
			continue
		}
		return e
	}
}

// selWithIndex renders c.Overrides[or].Conflicts as "Overrides[].Conflicts"
func selWithIndex(e ast.Expr) string {
	switch x := e.(type) {
	case *ast.SelectorExpr:
		l := selWithIndex(x.X)
		if l == "" {
			return x.Sel.Name
		}
		return l + "." + x.Sel.Name
	case *ast.IndexExpr:
		return selWithIndex(x.X) + "[]"
	case *ast.Ident:
		return ""
	}
	return "?"
}

func genExpandReal() (string, error) {
	s, err := parse("nfpm.go")
	if err != nil {
		return "", err
	}
	fd := s.funcDecl("expandEnvVars")
	if fd == nil {
		fd = &ast.FuncDecl{Name: ast.NewIdent("none"), Body: &ast.BlockStmt{}}
	}
	// calls whose argument is the value variable of an enclosing range statement
	rangedCall := map[*ast.CallExpr]string{}
	ast.Inspect(fd, func(n ast.Node) bool {
		rs, ok := n.(*ast.RangeStmt)
		if !ok {
			return true
		}
		v, ok := rs.Value.(*ast.Ident)
		if !ok {
			return true
		}
		ast.Inspect(rs.Body, func(m ast.Node) bool {
			if ce, ok := m.(*ast.CallExpr); ok && len(ce.Args) > 0 {
				if id, ok := unwrapArg(ce.Args[0]).(*ast.Ident); ok && id.Name == v.Name {
					rangedCall[ce] = selWithIndex(rs.X) + "[]"
				}
			}
			return true
		})
		return true
	})
	rangeOf := map[string]string{}
	var scalars, slices, contents, literals []string
	ast.Inspect(fd, func(n ast.Node) bool {
		ce, ok := n.(*ast.CallExpr)
		if !ok || len(ce.Args) == 0 {
			return true
		}
		if sel, ok := rangedCall[ce]; ok && fullSel(ce.Fun) == "os.Expand" {
			scalars = append(scalars, goSelToYaml(sel))
			return true
		}
		fn := fullSel(ce.Fun)
		arg := unwrapArg(ce.Args[0])
		var sel string
		if lit, ok := unquote(arg); ok {
			if fn == "os.Expand" {
				literals = append(literals, lit)
			}
			return true
		}
		if id, ok := arg.(*ast.Ident); ok {
			sel = rangeOf[id.Name]
		} else {
			sel = selWithIndex(arg)
		}
		switch fn {
		case "os.Expand":
			scalars = append(scalars, goSelToYaml(sel))
		case "c.expandEnvVarsStringSlice":
			slices = append(slices, goSelToYaml(sel))
		case "c.expandEnvVarsContents":
			contents = append(contents, goSelToYaml(sel))
		}
		return true
	})
	dedup := func(xs []string) []string {
		sort.Strings(xs)
		var r []string
		for i, x := range xs {
			if i == 0 || xs[i-1] != x {
				r = append(r, x)
			}
		}
		return r
	}
	// documented expandable keys
	doc, err := os.Open(filepath.Join(*repo, "www/docs/configuration.md"))
	if err != nil {
		return "", err
	}
	defer doc.Close()
	sc := bufio.NewScanner(doc)
	type lvl struct {
		indent int
		key    string
	}
	var stack []lvl
	pending := false
	var documented []string
	inYaml := false
	for sc.Scan() {
		line := sc.Text()
		if strings.HasPrefix(line, "```") {
			inYaml = strings.HasPrefix(line, "```yaml") && !inYaml
			if !inYaml {
				stack = nil
			}
			continue
		}
		if !inYaml {
			continue
		}
		trim := strings.TrimLeft(line, " ")
		indent := len(line) - len(trim)
		if strings.HasPrefix(trim, "#") {
			if strings.Contains(trim, "expand any env var") {
				pending = true
			}
			continue
		}
		if trim == "" {
			continue
		}
		item := false
		if strings.HasPrefix(trim, "- ") {
			item = true
			trim = strings.TrimPrefix(trim, "- ")
			indent += 2
		}
		i := strings.Index(trim, ":")
		if i <= 0 || strings.ContainsAny(trim[:i], " \"'") {
			continue
		}
		key := trim[:i]
		for len(stack) > 0 && stack[len(stack)-1].indent >= indent {
			stack = stack[:len(stack)-1]
		}
		if item {
			stack = append(stack, lvl{indent - 1, "[]"})
		}
		stack = append(stack, lvl{indent, key})
		if pending {
			var parts []string
			for _, l := range stack {
				parts = append(parts, l.key)
			}
			documented = append(documented, strings.Join(parts, "."))
			pending = false
		}
	}
	// the syntactic reading above is kept only as a cross-check note; the tables are tabulated by execution
	_, _, _, _ = scalars, slices, contents, literals
	dynScalars, dynSlices, dynContents, dynLiterals, derr := tabulateExpansion()
	if derr != nil {
		return "", derr
	}
	var b strings.Builder
	b.WriteString("import NfpmModel.Bytes\nnamespace Nfpm.Generated\nopen Nfpm\n")
	b.WriteString("-- tabulated by running nfpm.ParseWithEnvMapping on a document in which every string leaf is a reference\n")
	fmt.Fprintf(&b, "def expandedScalars : List Bytes := %s\n", leanStrList(dedup(dynScalars)))
	fmt.Fprintf(&b, "def expandedSlices : List Bytes := %s\n", leanStrList(dedup(dynSlices)))
	fmt.Fprintf(&b, "def expandedContents : List Bytes := %s\n", leanStrList(dedup(dynContents)))
	fmt.Fprintf(&b, "def expandLiterals : List Bytes := %s\n", leanStrList(dynLiterals))
	fmt.Fprintf(&b, "def documentedExpandable : List Bytes := %s\n", leanStrList(dedup(documented)))
	b.WriteString("end Nfpm.Generated\n")
	return b.String(), nil
}

// ---------- G4, tabulated: which settings go through the environment expansion, and how ----------

// tabulateExpansion fills every string leaf of an nfpm.Config (scalars, list items, map values, contents) with a
// reference of its own, writes the configuration out as YAML, reads it back with nfpm.ParseWithEnvMapping and looks at
// what came back: the reference resolved ("scalar"), resolved and trimmed with empty items dropped ("slice"), or left
// as written.  The mapping records, in order, the variable names that are looked up besides the probes: the
// passphrase variables.
func tabulateExpansion() (scalars, slices, contents, literals []string, err error) {
	type probe struct {
		path  string // yaml path, list items "[]", map values "{}", override blocks "overrides.{}"
		kind  string // scalar | slice
		n     int
		field reflect.Value
	}
	var probes []probe
	cfg := &nfpm.Config{}
	ovFormats := []string{"apk", "archlinux", "deb", "ipk", "rpm"}
	cfg.Overrides = map[string]*nfpm.Overridables{}
	for _, f := range ovFormats {
		cfg.Overrides[f] = &nfpm.Overridables{}
	}
	ref := func(n int) string { return fmt.Sprintf("${VERIF_PROBE_%d}", n) }
	var fill func(v reflect.Value, path string)
	fill = func(v reflect.Value, path string) {
		switch v.Kind() {
		case reflect.Ptr:
			if v.IsNil() {
				if v.Type().Elem().Kind() != reflect.String && v.Type().Elem().Kind() != reflect.Struct {
					return
				}
				v.Set(reflect.New(v.Type().Elem()))
			}
			fill(v.Elem(), path)
		case reflect.Struct:
			if v.Type().String() == "time.Time" {
				return
			}
			for i := 0; i < v.NumField(); i++ {
				f := v.Type().Field(i)
				if f.PkgPath != "" {
					continue
				}
				tag := strings.Split(f.Tag.Get("yaml"), ",")
				if tag[0] == "-" {
					continue
				}
				inline := false
				for _, o := range tag[1:] {
					if o == "inline" {
						inline = true
					}
				}
				name := tag[0]
				if name == "" {
					name = strings.ToLower(f.Name)
				}
				p := path
				if !inline {
					if p != "" {
						p += "."
					}
					p += name
				}
				if f.Name == "Contents" || f.Name == "Overrides" {
					continue // handled below
				}
				fill(v.Field(i), p)
			}
		case reflect.String:
			if !v.CanSet() {
				return
			}
			n := len(probes)
			v.SetString(ref(n))
			probes = append(probes, probe{path, "scalar", n, v})
		case reflect.Slice:
			if v.Type().Elem().Kind() != reflect.String {
				return
			}
			n := len(probes)
			v.Set(reflect.ValueOf([]string{" " + ref(n) + " ", "${VERIF_EMPTY}"}))
			probes = append(probes, probe{path, "slice", n, v})
		case reflect.Map:
			if v.Type().Key().Kind() != reflect.String || v.Type().Elem().Kind() != reflect.String {
				return
			}
			n := len(probes)
			m := reflect.MakeMap(v.Type())
			m.SetMapIndex(reflect.ValueOf("Key"), reflect.ValueOf(ref(n)))
			v.Set(m)
			probes = append(probes, probe{path + ".{}", "map", n, v})
		}
	}
	fill(reflect.ValueOf(&cfg.Info).Elem(), "")
	for _, f := range ovFormats {
		fill(reflect.ValueOf(cfg.Overrides[f]).Elem(), "overrides."+f)
	}
	mkContents := func(base int) files.Contents {
		return files.Contents{
			{Source: ref(base), Destination: ref(base + 1), Expand: true},
			{Source: ref(base + 2), Destination: ref(base + 3), Expand: false},
		}
	}
	cBase := len(probes) + 1000
	cfg.Contents = mkContents(cBase)
	for i, f := range ovFormats {
		cfg.Overrides[f].Contents = mkContents(cBase + 10*(i+1))
	}
	cfg.Name, cfg.Arch, cfg.Version = ref(len(probes)+1), ref(len(probes)+2), ref(len(probes)+3)
	doc, merr := yaml.Marshal(cfg)
	if merr != nil {
		return nil, nil, nil, nil, fmt.Errorf("G4: marshal probe document: %v", merr)
	}
	var looked []string
	seenVar := map[string]bool{}
	parsed, _ := nfpm.ParseWithEnvMapping(bytes.NewReader(doc), func(k string) string {
		if strings.HasPrefix(k, "VERIF_PROBE_") {
			return "X" + strings.TrimPrefix(k, "VERIF_PROBE_")
		}
		if k == "VERIF_EMPTY" {
			return ""
		}
		if !seenVar[k] {
			seenVar[k] = true
			looked = append(looked, "$"+k)
		}
		return ""
	})
	// walk the parsed configuration along the same paths
	get := func(root reflect.Value, idx []int) reflect.Value {
		return root
	}
	_ = get
	var walk func(v reflect.Value, path string, out map[string]reflect.Value)
	walk = func(v reflect.Value, path string, out map[string]reflect.Value) {
		switch v.Kind() {
		case reflect.Ptr:
			if !v.IsNil() {
				walk(v.Elem(), path, out)
			}
		case reflect.Struct:
			if v.Type().String() == "time.Time" {
				return
			}
			for i := 0; i < v.NumField(); i++ {
				f := v.Type().Field(i)
				if f.PkgPath != "" || f.Name == "Contents" || f.Name == "Overrides" {
					continue
				}
				tag := strings.Split(f.Tag.Get("yaml"), ",")
				if tag[0] == "-" {
					continue
				}
				inline := false
				for _, o := range tag[1:] {
					if o == "inline" {
						inline = true
					}
				}
				name := tag[0]
				if name == "" {
					name = strings.ToLower(f.Name)
				}
				p := path
				if !inline {
					if p != "" {
						p += "."
					}
					p += name
				}
				walk(v.Field(i), p, out)
			}
		case reflect.String, reflect.Slice:
			out[path] = v
		case reflect.Map:
			out[path+".{}"] = v
		}
	}
	got := map[string]reflect.Value{}
	walk(reflect.ValueOf(&parsed.Info).Elem(), "", got)
	for _, f := range ovFormats {
		if ov := parsed.Overrides[f]; ov != nil {
			walk(reflect.ValueOf(ov).Elem(), "overrides."+f, got)
		}
	}
	for _, p := range probes {
		if p.path == "name" || p.path == "arch" || p.path == "version" {
			// overwritten above with later probes: look at what they resolve to below
		}
		g, ok := got[p.path]
		if !ok {
			continue
		}
		x := fmt.Sprintf("X%d", p.n)
		switch p.kind {
		case "scalar":
			val := g.String()
			if strings.HasPrefix(val, "X") && !strings.Contains(val, "$") {
				scalars = append(scalars, p.path)
			}
			_ = x
		case "map":
			if g.Kind() == reflect.Map {
				for _, k := range g.MapKeys() {
					if v := g.MapIndex(k).String(); strings.HasPrefix(v, "X") && !strings.Contains(v, "$") {
						scalars = append(scalars, p.path)
					}
				}
			}
		case "slice":
			if g.Kind() != reflect.Slice {
				continue
			}
			var items []string
			for i := 0; i < g.Len(); i++ {
				items = append(items, g.Index(i).String())
			}
			switch {
			case len(items) == 1 && items[0] == x:
				slices = append(slices, p.path)
			case len(items) == 2 && items[0] == " "+x+" " && items[1] == "":
				scalars = append(scalars, p.path+".[]") // expanded item by item, neither trimmed nor dropped
			}
		}
	}
	classify := func(cs files.Contents, base int, label string) {
		if len(cs) != 2 {
			contents = append(contents, label+":entries-lost")
			return
		}
		on := cs[0].Source == fmt.Sprintf("X%d", base) && cs[0].Destination == fmt.Sprintf("X%d", base+1)
		off := cs[1].Source == ref(base+2) && cs[1].Destination == ref(base+3)
		switch {
		case on && off:
			contents = append(contents, label)
		case on:
			contents = append(contents, label+":also-without-opt-in")
		case !on && off:
			// not expanded at all: no row
		default:
			contents = append(contents, label+":irregular")
		}
	}
	classify(parsed.Contents, cBase, "contents")
	for i, f := range ovFormats {
		if ov := parsed.Overrides[f]; ov != nil {
			classify(ov.Contents, cBase+10*(i+1), "overrides."+f+".contents")
		}
	}
	// a behaviour shared by the override blocks of all five formats is written overrides.{}.<key>; one that only
	// some formats show keeps the format's name (and the tables then differ from the reviewed ones)
	collapse := func(rows []string) []string {
		count := map[string]int{}
		var out []string
		for _, r := range rows {
			for _, f := range ovFormats {
				if strings.HasPrefix(r, "overrides."+f+".") {
					count[strings.TrimPrefix(r, "overrides."+f+".")]++
				}
			}
		}
		for _, r := range rows {
			kept := true
			for _, f := range ovFormats {
				if strings.HasPrefix(r, "overrides."+f+".") {
					suf := strings.TrimPrefix(r, "overrides."+f+".")
					if count[suf] == len(ovFormats) {
						kept = false
						if f == ovFormats[0] {
							out = append(out, "overrides.{}."+suf)
						}
					}
				}
			}
			if kept {
				out = append(out, r)
			}
		}
		return out
	}
	return collapse(scalars), collapse(slices), collapse(contents), looked, nil
}
